#!/usr/bin/env python3
"""mutation run on a scratch copy of the go-pars module directory"""
import os, re, shutil, subprocess, sys, json
MOD='/root/go/pkg/mod/github.com/go-pars/pars@v1.1.6'
COPY='/tmp/pars-mut'
WT=os.environ.get('VERIF','/verif')
G2L=os.environ.get('G2L','/tmp/g2l-gpars')  # cd go2lean && go build -o /tmp/g2l-gpars .
ENV=dict(os.environ, GOFLAGS='-mod=mod', GOPROXY='off', GOSUMDB='off', GOTOOLCHAIN='local')

def fresh():
    if os.path.exists(COPY):
        subprocess.call(['chmod','-R','u+w',COPY]); shutil.rmtree(COPY)
    shutil.copytree(MOD, COPY)
    subprocess.call(['chmod','-R','u+w',COPY])

def theorem_at(path, line):
    lines=open(path).read().split('\n')
    decl=re.compile(r'\s*(?:theorem|def|example)\s*([\w.?\']*)')
    i=line-1
    while i>=0:
        m=decl.match(lines[i])
        if m: return m.group(1) or 'example@%d'%(i+1)
        if lines[i].lstrip().startswith('/--'):
            j=i
            while j<len(lines):
                m=decl.match(lines[j])
                if m: return m.group(1) or 'example@%d'%(j+1)
                j+=1
        i-=1
    return None

def run(mut):
    mid, f, old, new = mut[:4]
    fresh()
    p=os.path.join(COPY,f)
    s=open(p).read()
    if s.count(old)!=1:
        return mid, 'BAD-MUTANT (%d occurrences)'%s.count(old)
    open(p,'w').write(s.replace(old,new))
    # must still compile as Go
    r=subprocess.run(['go','vet','.'],cwd=COPY,env=ENV,capture_output=True,text=True)
    gobad = r.returncode!=0 and 'vet:' in r.stderr
    r=subprocess.run(['go','build','.'],cwd=COPY,env=ENV,capture_output=True,text=True)
    if r.returncode!=0:
        return mid, 'GO-DOES-NOT-COMPILE '+r.stderr[:200]
    r=subprocess.run([G2L,'-repo','/repo','-pars',COPY,'-out',WT+'/lean/Gts/Gen'],env=ENV,capture_output=True,text=True)
    refused=[l for l in r.stdout.split('\n') if 'REFUSED' in l]
    r=subprocess.run(['lake','build','Gts.Bridge.ParsFacts','Gts.Bridge.ParsComb','Gts.Bridge.ParsSeq','Gts.Props.C07Pars'],cwd=WT+'/lean',capture_output=True,text=True)
    out=r.stdout+r.stderr
    broken=set()
    for m in re.finditer(r'error: (?:\./)?(Gts/[\w/]+\.lean):(\d+):\d+', out):
        path=os.path.join(WT,'lean',m.group(1))
        broken.add(os.path.basename(m.group(1))[:-5]+':'+str(theorem_at(path,int(m.group(2)))))
    res=[]
    if refused: res.append('REFUSED: '+'; '.join(x.split('):',1)[-1].strip()[:160] for x in refused))
    if broken: res.append('BROKEN: '+', '.join(sorted(broken)))
    if not res: res=['SURVIVED']
    return mid, ' | '.join(res)

if __name__=='__main__':
    muts=json.load(open(sys.argv[1]))
    sel=sys.argv[2:]
    for m in muts:
        if sel and m[0] not in sel: continue
        mid,res=run(m)
        print(mid, '::', m[4] if len(m)>4 else '', '::', res, flush=True)
    # restore
    subprocess.run([G2L,'-repo','/repo','-out',WT+'/lean/Gts/Gen'],env=ENV)
