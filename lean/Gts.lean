import Gts.Model.OpsAll
import Gts.Lemmas.Push
