import Gts.Model.Loc
import Gts.Model.Region
import Gts.Model.Seq
import Gts.Model.Pars
import Gts.Model.LocText
import Gts.Model.Sexp
import Gts.Model.Ops
