import Gts.Model.OpsAll
import Gts.Lemmas.Push
import Gts.Props.C09
