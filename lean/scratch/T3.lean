import Gts.Model.Locator
namespace Gts.Pars

theorem run_bind {α β} (p : P α) (f : α → P β) (s : PS) :
    (p >>= f).run' s = match p.run' s with
      | (.ok a, s') => (f a).run' s'
      | (.error e, s') => (.error e, s') := by
  simp only [P.run', bind, ExceptT.bind, ExceptT.mk, ExceptT.run, StateT.bind, StateT.run, ExceptT.bindCont]
  cases h : p s with
  | mk r s' => cases r <;> rfl

def WP {α} (p : P α) (Q : Except Err α → PS → Prop) (s : PS) : Prop :=
  Q (p.run' s).1 (p.run' s).2

theorem wp_bind {α β} (p : P α) (f : α → P β) (Q) (s : PS) :
    WP (p >>= f) Q s ↔ WP p (fun r s' => match r with
      | .ok a => WP (f a) Q s'
      | .error e => Q (.error e) s') s := by
  unfold WP
  rw [run_bind]
  cases h : p.run' s with
  | mk r s' => cases r <;> rfl

theorem wp_pure {α} (a : α) (Q) (s : PS) : WP (pure a : P α) Q s ↔ Q (.ok a) s := Iff.rfl
theorem wp_fail {α} (Q) (s : PS) : WP (fail : P α) Q s ↔ Q (.error .fail) s := Iff.rfl

/-- saved positions never lie after a younger one / the current one -/
def Sorted : Nat → List Bytes → Prop
  | _, [] => True
  | n, f :: st => n ≤ f.length ∧ Sorted f.length st

theorem Sorted.mono {n m : Nat} {st} (h : Sorted n st) (hm : m ≤ n) : Sorted m st := by
  cases st with
  | nil => trivial
  | cons f st => exact ⟨Nat.le_trans hm h.1, h.2⟩

/-- frame invariant -/
structure Fr (L : Nat) (base : List Bytes) (n : Nat) (s : PS) : Prop where
  ex : ∃ extra, s.stk = extra ++ base ∧ n ≤ extra.length ∧ ∀ f ∈ extra, f.length ≤ L
  le : s.rest.length ≤ L
  srt : Sorted s.rest.length s.stk

theorem Fr.weaken {L base n s} (h : Fr L base (n+1) s) : Fr L base n s :=
  ⟨by obtain ⟨e, h1, h2, h3⟩ := h.ex; exact ⟨e, h1, by omega, h3⟩, h.le, h.srt⟩

variable {L : Nat} {base : List Bytes} {n : Nat} {s : PS}

theorem wp_push {Q} (h : Fr L base n s) (k : ∀ s', Fr L base (n+1) s' → Q (.ok ()) s') : WP push Q s := by
  apply k
  obtain ⟨e, h1, h2, h3⟩ := h.ex
  refine ⟨⟨s.rest :: e, ?_, ?_, ?_⟩, h.le, ?_⟩
  · show s.rest :: s.stk = _; rw [h1]; rfl
  · simp; omega
  · intro f hf; cases hf with
    | head => exact h.le
    | tail _ hf => exact h3 f hf
  · exact ⟨Nat.le_refl _, h.srt⟩

theorem wp_pop {Q} (h : Fr L base (n+1) s) (k : ∀ s', Fr L base n s' → Q (.ok ()) s') : WP pop Q s := by
  obtain ⟨e, h1, h2, h3⟩ := h.ex
  cases e with
  | nil => simp at h2
  | cons f e =>
    have hs : s.stk = f :: (e ++ base) := h1
    have : (pop.run' s) = (.ok (), { rest := f, stk := e ++ base }) := by
      simp [pop, P.run', getS, setS, hs, bind, ExceptT.bind, ExceptT.mk, ExceptT.run, StateT.bind, StateT.run, ExceptT.bindCont]
    unfold WP; rw [this]
    apply k
    have hsrt := h.srt; rw [hs] at hsrt
    refine ⟨⟨e, rfl, by simpa using h2, fun g hg => h3 g (List.mem_cons_of_mem _ hg)⟩, h3 f (List.mem_cons_self ..), hsrt.2⟩

end Gts.Pars
