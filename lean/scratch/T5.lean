import Gts.Lemmas.ParsSafe
open Gts Pars LocParse
#check @multiple.more
#print axioms multiple
example (f : Nat) : loc (f+1) = anyOf [range, between, ambiguous, complementOf f, joinOf f, orderOf f, point] := by
  rw [loc]
example (f k : Nat) (acc) : multiple.more f (k+1) acc = (do
        if ← delimiter then
          match ← attempt (loc f) with
          | some v => multiple.more f k (v :: acc)
          | none => do pop; fail
        else pure acc.reverse) := by
  rw [multiple.more]
#check @multiple.eq_2
#check @anyOf.go
