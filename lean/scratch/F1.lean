import Gts.Lemmas.ParsSafe2
namespace Gts.Pars
open LocParse ModParse

/-- `p` and `q` behave identically on every sorted state with at most `L` bytes left -/
def Agree {α} (L : Nat) (p q : P α) : Prop :=
  ∀ s : PS, Sorted s.rest.length s.stk → s.rest.length ≤ L → p.run' s = q.run' s

theorem run_pushed (s : PS) : pushed.run' s = (.ok (!s.stk.isEmpty), s) := rfl

theorem run_go_cons {α} (p : P α) (ps : List (P α)) (s : PS) :
    (anyOf.go (p :: ps)).run' s = match p.run' s with
      | (.ok v, s') => (.ok v, { s' with stk := s'.stk.drop 1 })
      | (.error .fail, s') => if s'.stk.isEmpty then (.error .fail, s') else (anyOf.go ps).run' s'
      | (.error .panic, s') => (.error .panic, s') := by
  rw [anyOf.go, run_bind, run_attempt]
  rcases p.run' s with ⟨r, s'⟩
  rcases r with e | v
  · cases e
    · dsimp only
      rw [run_bind, run_pushed]
      dsimp only
      cases h : s'.stk.isEmpty
      · simp
      · simp [run_bind, run_fail]
    · rfl
  · dsimp only
    rw [run_bind, run_drop]; rfl


inductive All2 {α β} (R : α → β → Prop) : List α → List β → Prop
  | nil : All2 R [] []
  | cons {a b as bs} : R a b → All2 R as bs → All2 R (a :: as) (b :: bs)

theorem anyOf_go_agree {α} {L} : ∀ (ps qs : List (P α)),
    All2 (fun p q => Agree L p q ∧ Safe p) ps qs →
    ∀ base n s, Fr L base (n+1) s → (anyOf.go ps).run' s = (anyOf.go qs).run' s
  | [], [], _ => fun _ _ _ _ => rfl
  | p :: ps, q :: qs, .cons ⟨hpq, hp⟩ hrest => by
    intro base n s h
    rw [run_go_cons, run_go_cons, ← hpq s h.srt h.le]
    have hs := hp L base (n+1) s h
    unfold WP Std at hs
    rcases hrun : p.run' s with ⟨r, s'⟩
    rw [hrun] at hs
    rcases r with e | v
    · cases e
      · dsimp only
        split
        · rfl
        · exact anyOf_go_agree ps qs hrest base n s' hs.2
      · rfl
    · rfl

theorem anyOf_agree {α} {L} (ps qs : List (P α))
    (h : All2 (fun p q => Agree L p q ∧ Safe p) ps qs) : Agree L (anyOf ps) (anyOf qs) := by
  intro s hs hL
  unfold anyOf
  rw [run_bind, run_bind, run_push]
  dsimp only
  refine anyOf_go_agree ps qs h s.stk 0 _ ⟨⟨[s.rest], rfl, by simp, ?_⟩, hL, ⟨Nat.le_refl _, hs⟩⟩
  intro f hf
  simp only [List.mem_singleton] at hf
  subst hf; exact hL

theorem Agree.refl {α} {L} (p : P α) : Agree L p p := fun _ _ _ => rfl

theorem complementWith_agree {L} (q q' : P Loc)
    (h : ∀ s : PS, Sorted s.rest.length s.stk → s.rest.length + 11 ≤ L → q.run' s = q'.run' s) :
    Agree L (complementWith q) (complementWith q') := by
  intro s hs hL
  unfold complementWith
  simp only [run_bind, run_push, run_attempt, run_request]
  by_cases hlt : s.rest.length < 11
  · simp only [hlt, if_true, run_bind, run_pop, run_fail]
  · simp only [hlt, if_false]
    by_cases hb : (s.rest.take 11 != str "complement(") = true
    · simp only [hb, if_true, run_bind, run_pop, run_fail]
    · simp only [hb, Bool.false_eq_true, if_false, run_bind, run_advanceN, run_attempt]
      rw [h]
      · exact ⟨by simp, hs⟩
      · show (s.rest.drop 11).length + 11 ≤ L
        rw [List.length_drop]; omega

end Gts.Pars
