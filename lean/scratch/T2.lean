import Gts.Model.Locator
namespace Gts.Pars

theorem run_bind {α β} (p : P α) (f : α → P β) (s : PS) :
    (p >>= f).run' s = match p.run' s with
      | (.ok a, s') => (f a).run' s'
      | (.error e, s') => (.error e, s') := by
  simp only [P.run', bind, ExceptT.bind, ExceptT.mk, ExceptT.run, StateT.bind, StateT.run, ExceptT.bindCont]
  cases h : p s with
  | mk r s' => cases r <;> rfl

theorem run_pure {α} (a : α) (s : PS) : (pure a : P α).run' s = (.ok a, s) := rfl

def WP {α} (p : P α) (Q : Except Err α → PS → Prop) (s : PS) : Prop :=
  Q (p.run' s).1 (p.run' s).2

theorem wp_bind {α β} (p : P α) (f : α → P β) (Q) (s : PS) :
    WP (p >>= f) Q s ↔ WP p (fun r s' => match r with
      | .ok a => WP (f a) Q s'
      | .error e => Q (.error e) s') s := by
  unfold WP
  rw [run_bind]
  cases h : p.run' s with
  | mk r s' => cases r <;> rfl

end Gts.Pars
