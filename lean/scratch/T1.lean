import Gts.Model.Locator
open Gts Pars LocParse
set_option pp.fieldNotation false
#print Gts.LocParse.between
#print Gts.LocParse.range
#print Gts.Pars.int
#print Gts.LocParse.anyOf
#print Gts.LocParse.anyOf.go
#print Gts.LocParse.multiple
