import Gts.Lemmas.ParsSafe
namespace Gts.Pars
open LocParse

macro "wp_close" : tactic => `(tactic| first
  | exact std_ok ‹_› | exact std_fail ‹_›
  | exact std_ok (Fr.weaken ‹_›) | exact std_fail (Fr.weaken ‹_›)
  | exact std_ok (Fr.weaken (Fr.weaken ‹_›)) | exact std_fail (Fr.weaken (Fr.weaken ‹_›)))

macro "wp_step" : tactic => `(tactic| first
  | dsimp only
  | rw [wp_bind]
  | rw [wp_pure]
  | rw [wp_fail]
  | (apply wp_push ‹_›; intro _ _)
  | (apply wp_pop ‹_›; intro _ _)
  | (apply wp_drop ‹_›; intro _ _)
  | (apply wp_trail ‹_›; intro _ _ _)
  | (apply wp_advance1 ‹_›; intro _ _)
  | (apply wp_advanceN _ ‹_›; intro _ _)
  | (apply wp_skipWhile _ ‹_›; intro _ _)
  | (apply wp_next ‹_› <;> intros)
  | (apply wp_request _ ‹_› <;> intros)
  | wp_close
  | split)

theorem int_safe : Safe int := by
  intro L base n s h
  unfold int
  repeat wp_step
  
end Gts.Pars
