import Gts.Model.OpsAll
open Gts

partial def loop (hin : IO.FS.Stream) (hout : IO.FS.Stream) : IO Unit := do
  let line ← hin.getLine
  if line.isEmpty then return ()
  hout.putStrLn (evalLine line)
  loop hin hout

def main : IO Unit := do
  let hin ← IO.getStdin
  let hout ← IO.getStdout
  loop hin hout
  hout.flush
