/-
  C04 — Rotate is a pure change of origin on circular sequences.
  Property theorems only.
-/
import Gts.Lemmas.Normalize
import Gts.Lemmas.Delete
import Gts.Lemmas.Table
import Gts.Model.Seq
import Gts.Lemmas.Record
import Gts.Lemmas.MarksOps
import Gts.Lemmas.MarksCoords
import Gts.Lemmas.MarkGuardOps
import Gts.Spec.Read
import Gts.Bridge.SeqRotate
namespace Gts.C04
open Gts Loc

/-- the amount by which `gts.Rotate` actually rotates: `n` reduced into `[0, L)` -/
def rotN (n L : Int) : Int := Int.tmod (if n < 0 then n + ((-n + L - 1) / L) * L else n) L

/-- the loop `for n < 0 { n += L }; n %= L` computes the mathematical residue, for every sign
and magnitude of `n` -/
theorem rotN_eq_emod (n L : Int) (hL : 0 < L) : rotN n L = n % L := by
  unfold rotN
  by_cases hn : n < 0
  · rw [if_pos hn]
    have h1 := Int.emod_add_ediv_mul (-n + L - 1) L
    have h2 := Int.emod_lt_of_pos (-n + L - 1) hL
    generalize hq : (-n + L - 1) / L = q at *
    generalize hqL : q * L = qL at *
    have : 0 ≤ n + qL := by omega
    rw [Int.tmod_eq_emod_of_nonneg this, ← hqL, Int.add_mul_emod_self_right]
  · rw [if_neg hn, Int.tmod_eq_emod_of_nonneg (by omega)]

theorem rotate_bytes_eq (s : Gts.Seq) (n : Int) :
    (s.rotate n).bytes = s.bytes.drop (s.len - rotN n s.len).toNat ++ s.bytes.take (s.len - rotN n s.len).toNat := rfl

/-- **residues**: rotating by any `n` moves residue `k` to position `(k + n) mod L` -/
theorem rotate_bytes_get (s : Gts.Seq) (n : Int) (k : Nat) (hk : k < s.bytes.length) :
    (s.rotate n).bytes[((k + n) % s.len).toNat]? = s.bytes[k]? := by
  have hL : 0 < s.len := by unfold Seq.len; omega
  rw [rotate_bytes_eq, rotN_eq_emod n s.len hL]
  have hr0 := Int.emod_nonneg n (show s.len ≠ 0 by omega)
  have hr1 := Int.emod_lt_of_pos n hL
  generalize hr : n % s.len = r at *
  have hlen : s.len = s.bytes.length := rfl
  -- (k + n) % L = (k + r) % L
  have hkn : (k + n) % s.len = (k + r) % s.len := by
    rw [← hr, Int.add_emod_emod]
  rw [hkn]
  generalize hm : (s.len - r).toNat = m
  have hmv : (m : Int) = s.len - r := by omega
  by_cases hc : (k : Int) + r < s.len
  · -- lands in the `take` part
    rw [Int.emod_eq_of_lt (by omega) hc]
    have hidx : ((k : Int) + r).toNat = (s.bytes.length - m) + k := by omega
    rw [hidx, List.getElem?_append_right (by simp only [List.length_drop]; omega)]
    simp only [List.length_drop]
    have : s.bytes.length - m + k - (s.bytes.length - m) = k := by omega
    rw [this, List.getElem?_take_of_lt]
    omega
  · -- wraps: lands in the `drop` part
    have hw : ((k : Int) + r) % s.len = k + r - s.len := by
      have e1 : (k : Int) + r = (k + r - s.len) + 1 * s.len := by omega
      have e2 : ((k : Int) + r - s.len + 1 * s.len) % s.len = k + r - s.len := by
        rw [Int.add_mul_emod_self_right, Int.emod_eq_of_lt (by omega) (by omega)]
      rw [← e2, ← e1]
    rw [hw]
    have hidx : ((k : Int) + r - s.len).toNat = k - m := by omega
    rw [hidx, List.getElem?_append_left (by simp; omega), List.getElem?_drop]
    congr 1; omega

/-- no feature is lost or duplicated; each is re-located by `Expand(0, n')` then `Normalize(L)` -/
theorem rotate_table_perm (s : Gts.Seq) (n : Int) :
    (s.rotate n).feats.Perm
      (s.feats.map fun f => { f with loc := (f.loc.expand 0 (rotN n s.len)).normalize s.len }) := by
  unfold Seq.rotate rotN
  simpa using Table.insertAll_perm [] _

/-- **features**: the re-located location denotes the same residues at their new positions
`(x + n) mod L`, in the same order and strand — for every well-formed location with
non-negative coordinates, every `0 ≤ n`, provided the translated location is in the domain of
the Normalize law (`normOk`: every range / ambiguous span SHORTER than `L` — this excludes the
bare whole-sequence range `source 1..L` too, for every `n`; its clause is `rotate_full_length` —
and no ambiguous span across the new origin) and rule K2 does not fire in either step.
FULL STATEMENT (without `normOk`): false, `rotate_den_full_refuted`. -/
theorem rotate_den_partial (l : Loc) (n L : Int) (hL : 0 < L) (hn : 0 ≤ n)
    (hw : wf l = true) (hnn : nonneg l = true)
    (hok : normOk L (expand l 0 n) = true)
    (h1 : expandAbs l 0 n = false) (h2 : normalizeAbs (expand l 0 n) L = false) :
    den (normalize (expand l 0 n) L) ≼ mapPos (rotMap n L) (den l) := by
  have a := guest_translate l n hw hnn hn h1
  have wfe : wf (expand l 0 n) = true := (expand_ins l 0 n hw hn).2
  have b := (normalize_mod (expand l 0 n) L hL wfe hok).1 h2
  have c := mapPos_refines (· % L) a
  have e : mapPos (· % L) (mapPos (· + n) (den l)) = mapPos (rotMap n L) (den l) := by
    simp [mapPos, rotMap, Function.comp_def]
  rw [e] at c
  exact b.trans c

/-- an origin-spanning range becomes `join(‹p5›[s,L), [0,e)‹p3›)`: partial markers stay on the
outer ends -/
theorem ranged_normalize_split (s e : Int) (p5 p3 : Bool) (L : Int) (h0 : 0 ≤ s) (h1 : s < L) (h2 : L < e)
    (h3 : e - s < L) :
    normalize (ranged s e p5 p3) L = joined [ranged s L p5 false, ranged 0 (e - L) false p3] := by
  have hs : Int.tmod s L = s := by rw [Int.tmod_eq_emod_of_nonneg h0, Int.emod_eq_of_lt h0 h1]
  have he : Int.tmod (e - 1) L = e - 1 - L := by
    rw [Int.tmod_eq_emod_of_nonneg (by omega)]
    exact mod_window L L (e - 1) 1 (by omega) (by omega) (by omega)
  have c1 : ¬ (e - s = L) := by omega
  have c2 : ¬ (s < e - L) := by omega
  have e3 : e - 1 - L + 1 = e - L := by omega
  have hne : L ≠ 0 := by omega
  simp only [normalize, rangedNormalize, hs, he, if_neg c1, e3, if_neg c2]
  exact join_two_ranged_ne s L 0 (e - L) p5 false false p3 hne

/-- a full-length range stays full-length (re-based to `[0, L)`) with its partial markers -/
theorem full_length (s : Int) (p5 p3 : Bool) (L : Int) (hL : 0 < L) (hs : 0 ≤ s) :
    normalize (ranged s (s + L) p5 p3) L = ranged 0 L p5 p3 := by
  simp only [normalize, rangedNormalize]
  rw [if_pos (by omega)]
  by_cases h0 : s = 0
  · subst h0; simp [rangedExpand]
  · rw [rangedExpand_del_eq _ _ _ _ _ _ (show 0 < s by omega)]
    have a1 : delStart s 0 s = 0 := by unfold delStart; split <;> omega
    have a2 : delEnd (s + L) 0 s = L := by unfold delEnd; split <;> omega
    rw [a1, a2, if_neg (by omega)]
    have f1 : ¬ (0 ≤ s ∧ s < 0 + s) := by omega
    have f2 : ¬ (0 < s + L ∧ s + L ≤ 0 + s) := by omega
    simp only [f1, f2, if_false]

/-- `Expand(0, n)` (`0 ≤ n`) translates the whole-sequence range as a block: no clipping, no marker set -/
theorem expand_full_length (p5 p3 : Bool) (n L : Int) (hL : 0 < L) (hn : 0 ≤ n) :
    expand (ranged 0 L p5 p3) 0 n = ranged n (n + L) p5 p3 := by
  simp only [expand, rangedExpand]
  by_cases h0 : n = 0
  · subst h0; simp
  · rw [if_neg h0]
    have c1 : (0 ≤ n ∧ (0:Int) ≤ 0) ∨ (n < 0 ∧ (0:Int) < 0) := Or.inl ⟨hn, by omega⟩
    have c2 : (0 ≤ n ∧ (0:Int) < L) ∨ (n < 0 ∧ (0:Int) ≤ L) := Or.inl ⟨hn, hL⟩
    have g1 : gmax 0 (0 + n) = n := by unfold gmax; split <;> omega
    have g2 : gmax 0 (L + n) = n + L := by unfold gmax; split <;> omega
    have f1 : ¬ (n < 0 ∧ (0:Int) ≤ 0 ∧ 0 < 0 - n) := by omega
    have f2 : ¬ (n < 0 ∧ (0:Int) < L ∧ L ≤ 0 - n) := by omega
    simp only [if_pos c1, if_pos c2, g1, g2, if_neg f1, if_neg f2]
    rw [if_neg (by omega)]

/-- **the full-length clause, both steps of Rotate** ("a full-length feature stays full-length"): the
whole-sequence range `[0, L)` — the `source 1..L` feature of every GenBank record, which `normOk`
excludes from `rotate_den_partial` for EVERY rotation amount — is, after `Expand(0, n)` and
`Normalize(L)`, the SAME location `[0, L)` with the same partial markers; for every `0 < L` and every
`0 ≤ n` (no other hypothesis, no K2 / marker guard). -/
theorem rotate_full_length (p5 p3 : Bool) (n L : Int) (hL : 0 < L) (hn : 0 ≤ n) :
    normalize (expand (ranged 0 L p5 p3) 0 n) L = ranged 0 L p5 p3 := by
  rw [expand_full_length p5 p3 n L hL hn, full_length n p5 p3 L hL hn]

/-- … and the complement-strand whole-sequence range `complement(1..L)` likewise -/
theorem rotate_full_length_compl (p5 p3 : Bool) (n L : Int) (hL : 0 < L) (hn : 0 ≤ n) :
    normalize (expand (compl (ranged 0 L p5 p3)) 0 n) L = compl (ranged 0 L p5 p3) := by
  have := rotate_full_length p5 p3 n L hL hn
  simp only [expand] at this
  simp only [expand, normalize, this]

/-- "is the whole-sequence range of a sequence of length `L`, on either strand" (decidable) -/
def fullLength (L : Int) : Loc → Bool
  | ranged s e _ _ => decide (s = 0) && decide (e = L)
  | compl (ranged s e _ _) => decide (s = 0) && decide (e = L)
  | _ => false

/-- the two theorems above in one: a whole-sequence range (either strand, any markers) is a fixed
point of the two steps of Rotate, for every `0 ≤ n` -/
theorem rotate_full_length_loc (l : Loc) (n L : Int) (hL : 0 < L) (hn : 0 ≤ n)
    (hf : fullLength L l = true) : normalize (expand l 0 n) L = l := by
  match l, hf with
  | ranged s e p5 p3, hf =>
      simp only [fullLength, Bool.and_eq_true, decide_eq_true_eq] at hf
      obtain ⟨rfl, rfl⟩ := hf
      exact rotate_full_length p5 p3 n _ hL hn
  | compl (ranged s e p5 p3), hf =>
      simp only [fullLength, Bool.and_eq_true, decide_eq_true_eq] at hf
      obtain ⟨rfl, rfl⟩ := hf
      exact rotate_full_length_compl p5 p3 n _ hL hn

/-- what the clause means for the residues: the rotated whole-sequence range denotes the same SET
of residues as the rotated positions `(x + n) mod L` of the original (all of `[0, L)`, forward
strand) — but read from position 0, not from `n mod L`: the reading start is lost, which is what
the property's own clause "a full-length feature stays full-length" prescribes (see
`rotate_den_full_refuted`: the ORDER law of `rotate_den_partial` fails here). -/
theorem rotate_full_length_same_set (p5 p3 : Bool) (n L : Int) (hL : 0 < L) (hn : 0 ≤ n) (p : Pos) :
    p ∈ den (normalize (expand (ranged 0 L p5 p3) 0 n) L) ↔
      p ∈ mapPos (rotMap n L) (den (ranged 0 L p5 p3)) := by
  rw [rotate_full_length p5 p3 n L hL hn]
  simp only [den_ranged, mapPos, fwd, List.map_map, List.mem_map, mem_irange, Function.comp]
  constructor
  · rintro ⟨x, ⟨h0, h1⟩, rfl⟩
    refine ⟨(x - n) % L, ⟨Int.emod_nonneg _ (by omega), ?_⟩, ?_⟩
    · have := Int.emod_lt_of_pos (x - n) hL; omega
    · simp only [rotMap]
      rw [Int.emod_add_emod, show x - n + n = x by omega, Int.emod_eq_of_lt h0 (by omega)]
  · rintro ⟨x, ⟨h0, h1⟩, rfl⟩
    refine ⟨rotMap n L x, ⟨Int.emod_nonneg _ (by omega), ?_⟩, rfl⟩
    have := Int.emod_lt_of_pos (x + n) hL
    simp only [rotMap]; omega

/-- FULL STATEMENT of `rotate_den_partial` without `normOk` (false on the model, and on the code):
"for every well-formed location with non-negative coordinates on which K2 does not fire, the
re-located location denotes the residues at `(x + n) mod L` IN THE SAME ORDER".  Witness: the
whole-sequence range `1..3` of a circle of 3 rotated by 1: the code answers `1..3` (residues
0,1,2) where the order law wants 1,2,0.  This is not a defect: it is what the property's own
clause "a full-length feature stays full-length" prescribes; the statements that DO hold for
this shape are `rotate_full_length` (same location) and `rotate_full_length_same_set` (same set
of residues). -/
theorem rotate_den_full_refuted :
    ¬ (∀ (l : Loc) (n L : Int), 0 < L → 0 ≤ n → wf l = true → nonneg l = true →
        expandAbs l 0 n = false → normalizeAbs (expand l 0 n) L = false →
        den (normalize (expand l 0 n) L) ≼ mapPos (rotMap n L) (den l)) := by
  intro h
  have := h (ranged 0 3 false false) 1 3 (by decide) (by decide) (by decide) (by decide) (by decide) (by decide)
  have hs := this.1
  revert hs
  decide

/-- non-vacuity: `source <1..12>` on a circle of 12, rotation by 5 — outside `normOk`, inside the
new clause; and `normOk` fails for this shape whatever the amount -/
example : fullLength 12 (ranged 0 12 true true) = true ∧ fullLength 12 (compl (ranged 0 12 false false)) = true ∧
    normOk 12 (expand (ranged 0 12 true true) 0 5) = false ∧
    (normalize (expand (ranged 0 12 true true) 0 5) 12).beq (ranged 0 12 true true) = true ∧
    (expand (ranged 0 12 true true) 0 5).beq (ranged 5 17 true true) = true := by decide
example (p5 p3 : Bool) (n L : Int) (hL : 0 < L) (hn : 0 ≤ n) :
    normOk L (expand (ranged 0 L p5 p3) 0 n) = false := by
  rw [expand_full_length p5 p3 n L hL hn]
  simp only [normOk, Bool.and_eq_false_iff, decide_eq_false_iff_not]
  right; omega

/-- composition of the position maps: rotations compose additively, a multiple of `L` is the
identity, `-n` undoes `n` (hence the same laws for residues and denotations) -/
theorem rotMap_add (a b L x : Int) : rotMap b L (rotMap a L x) = rotMap (a + b) L x := by
  unfold rotMap
  rw [Int.emod_add_emod]; congr 1; omega

theorem rotMap_mul (m L x : Int) (hL : 0 < L) (h0 : 0 ≤ x) (h1 : x < L) : rotMap (m * L) L x = x := by
  unfold rotMap
  rw [Int.add_mul_emod_self_right, Int.emod_eq_of_lt h0 h1]

theorem rotMap_neg (n L x : Int) (hL : 0 < L) (h0 : 0 ≤ x) (h1 : x < L) :
    rotMap (-n) L (rotMap n L x) = x := by
  rw [rotMap_add]
  have : n + -n = 0 * L := by omega
  rw [this, rotMap_mul 0 L x hL h0 h1]

/-- **rotations compose additively on every feature's denotation**: rotating by `a` and then by
`b` re-locates a location exactly as one rotation by `a + b` maps its residues (guards of both
steps as in `rotate_den_partial`). -/
theorem rotate_twice_den_partial (l : Loc) (a b L : Int) (hL : 0 < L) (ha : 0 ≤ a) (hb : 0 ≤ b)
    (hw : wf l = true) (hnn : nonneg l = true)
    (hok1 : normOk L (expand l 0 a) = true)
    (h11 : expandAbs l 0 a = false) (h12 : normalizeAbs (expand l 0 a) L = false)
    (hnn2 : nonneg (normalize (expand l 0 a) L) = true)
    (hok2 : normOk L (expand (normalize (expand l 0 a) L) 0 b) = true)
    (h21 : expandAbs (normalize (expand l 0 a) L) 0 b = false)
    (h22 : normalizeAbs (expand (normalize (expand l 0 a) L) 0 b) L = false) :
    den (normalize (expand (normalize (expand l 0 a) L) 0 b) L) ≼ mapPos (rotMap (a + b) L) (den l) := by
  have s1 := rotate_den_partial l a L hL ha hw hnn hok1 h11 h12
  have wf1 : wf (normalize (expand l 0 a) L) = true :=
    (normalize_mod (expand l 0 a) L hL (expand_ins l 0 a hw ha).2 hok1).2
  have s2 := rotate_den_partial (normalize (expand l 0 a) L) b L hL hb wf1 hnn2 hok2 h21 h22
  have s3 := mapPos_refines (rotMap b L) s1
  have e : mapPos (rotMap b L) (mapPos (rotMap a L) (den l)) = mapPos (rotMap (a + b) L) (den l) := by
    simp only [mapPos, List.map_map]
    apply List.map_congr_left
    intro p _
    simp only [Function.comp, rotMap_add]
  rw [e] at s3
  exact s2.trans s3

/-- non-vacuity: a complement-strand join that crosses the new origin -/
example : wf (compl (joined [ranged 1 3 true false, ranged 6 9 false true])) = true ∧
    nonneg (compl (joined [ranged 1 3 true false, ranged 6 9 false true])) = true ∧
    normOk 10 (expand (compl (joined [ranged 1 3 true false, ranged 6 9 false true])) 0 3) = true ∧
    expandAbs (compl (joined [ranged 1 3 true false, ranged 6 9 false true])) 0 3 = false ∧
    normalizeAbs (expand (compl (joined [ranged 1 3 true false, ranged 6 9 false true])) 0 3) 10 = false := by
  decide

/-! ### record level -/

/-- the re-mapping does not depend on which representative of `n` modulo `L` is used -/
theorem rotMap_emod (n L : Int) : rotMap (n % L) L = rotMap n L := by
  funext x; simp [rotMap, Int.add_emod_emod]

/-- **Rotate, record level**: for every `n` (any sign and magnitude) every feature of a non-empty
record is present in the rotated record with unchanged key and qualifiers and a location
denoting the same residues at `(x + n) mod L`, in the same order and strand (domain of the
Normalize law and K2 guards as in `rotate_den_partial`). -/
theorem rotate_feature_partial (s : Gts.Seq) (n : Int) (hL : 0 < s.len) (f : Feature) (hf : f ∈ s.feats)
    (hw : wf f.loc = true) (hnn : nonneg f.loc = true)
    (hok : normOk s.len (expand f.loc 0 (rotN n s.len)) = true)
    (h1 : expandAbs f.loc 0 (rotN n s.len) = false)
    (h2 : normalizeAbs (expand f.loc 0 (rotN n s.len)) s.len = false) :
    ∃ f' ∈ (s.rotate n).feats, f'.key = f.key ∧ f'.props = f.props ∧
      den f'.loc ≼ mapPos (rotMap n s.len) (den f.loc) := by
  refine ⟨{ f with loc := (f.loc.expand 0 (rotN n s.len)).normalize s.len },
    mem_of_perm_map (rotate_table_perm s n) hf, rfl, rfl, ?_⟩
  have hr : 0 ≤ rotN n s.len := by rw [rotN_eq_emod n s.len hL]; exact Int.emod_nonneg _ (by omega)
  have h := rotate_den_partial f.loc (rotN n s.len) s.len hL hr hw hnn hok h1 h2
  have e : mapPos (rotMap (rotN n s.len) s.len) (den f.loc) = mapPos (rotMap n s.len) (den f.loc) := by
    rw [rotN_eq_emod n s.len hL, rotMap_emod]
  rw [e] at h
  exact h

/-- nothing is lost or added -/
theorem rotate_feature_count (s : Gts.Seq) (n : Int) : (s.rotate n).feats.length = s.feats.length := by
  simpa using (rotate_table_perm s n).length_eq

/-- **Rotate, record level, the full-length clause**: for every `n` (any sign and magnitude) a
feature of a non-empty record whose location is the whole-sequence range (`source 1..L`, either
strand, any partial markers) is a feature of the rotated record UNCHANGED — same key, same
qualifiers, same location, same markers.  No guard: this is the clause that `normOk` keeps out of
`rotate_feature_partial`. -/
theorem rotate_full_length_feature (s : Gts.Seq) (n : Int) (hL : 0 < s.len) (f : Feature)
    (hf : f ∈ s.feats) (hfl : fullLength s.len f.loc = true) : f ∈ (s.rotate n).feats := by
  have hr : 0 ≤ rotN n s.len := by rw [rotN_eq_emod n s.len hL]; exact Int.emod_nonneg _ (by omega)
  have h := mem_of_perm_map (rotate_table_perm s n) hf
  rw [rotate_full_length_loc f.loc (rotN n s.len) s.len hL hr hfl] at h
  exact h

/-- non-vacuity: the `source` feature of a six-residue record, rotation by -8 -/
example : 0 < (⟨[⟨"source", ranged 0 6 false false, []⟩], [65, 67, 71, 84, 65, 67]⟩ : Gts.Seq).len ∧
    fullLength (⟨[⟨"source", ranged 0 6 false false, []⟩], [65, 67, 71, 84, 65, 67]⟩ : Gts.Seq).len
      (ranged 0 6 false false) = true ∧
    ((⟨[⟨"source", ranged 0 6 false false, []⟩], [65, 67, 71, 84, 65, 67]⟩ : Gts.Seq).rotate (-8)).bytes
      = [71, 84, 65, 67, 65, 67] := by decide

/-! ### partial markers stay on the outer ends; all coordinates lie in `[0, L]`

`outerMarks` / `coordsWithin` (`Gts/Spec/Marks.lean`) are the Lean restatements of the Go
oracles `harness/spec.go outerMarks`, `coordsWithin`. -/

/-- FULL STATEMENT for the markers (false on the model, and on the code): "rotating leaves the
outer 5'/3' markers of every well-formed location with non-negative coordinates unchanged".
Witness `join(4,<4..6)` (a literal that `Join` would reduce), rotation by 0 on length 10: both
steps rebuild the join, `Push` replaces the point by the range that starts at it, and `<4..6`
has a 5' marker where the unmarked point was. -/
theorem rotate_marks_full_refuted :
    ¬ (∀ (l : Loc) (n L : Int), 0 < L → 0 ≤ n → wf l = true → nonneg l = true →
        outerMarks (normalize (expand l 0 n) L) = outerMarks l) := by
  intro h
  have := h (joined [point 3, ranged 3 6 true false]) 0 10 (by decide) (by decide) (by decide) (by decide)
  revert this
  decide

/-- **Normalize keeps the partial markers on the same outer ends**: every kind and arity, also a
range that is split at the origin (`join(‹p5›[s,L), [0,e)‹p3›)`) and a full-length range (re-based
to `[0, L)`); ambiguous spans may cross the origin (they carry no marker).  Guard: no
marker-moving rule of `Push` fires (`normalizeMarkAbs`, `Gts/Spec/MarkGuard.lean`). -/
theorem normalize_marks_partial (l : Loc) (L : Int) (hL : 0 < L) (hw : wf l = true)
    (hnn : nonneg l = true) (hg : normalizeMarkAbs l L = false) :
    outerMarks (normalize l L) = outerMarks l :=
  outerMarks_of_marks ((normalize_marks_aux l L hL (rwf_of_wf l hw) hnn).1 hg)

/-- **Rotate keeps the partial markers on the same outer ends**: the two steps of `gts.Rotate`
on a location (`Expand(0, n)` then `Normalize(L)`), for every well-formed location with
non-negative coordinates, every `0 ≤ n` and `0 < L` — no `normOk` restriction: full-length parts
and origin-crossing ambiguous spans included.  Guards: no marker-moving rule of `Push` fires in
either step. -/
theorem rotate_marks_partial (l : Loc) (n L : Int) (hL : 0 < L) (hn : 0 ≤ n)
    (hw : wf l = true) (hnn : nonneg l = true)
    (h1 : expandMarkAbs l 0 n = false) (h2 : normalizeMarkAbs (expand l 0 n) L = false) :
    outerMarks (normalize (expand l 0 n) L) = outerMarks l := by
  have wfe : wf (expand l 0 n) = true := (expand_ins l 0 n hw hn).2
  have nne : nonneg (expand l 0 n) = true := expand0_nonneg' l n hn hw hnn
  rw [normalize_marks_partial (expand l 0 n) L hL wfe nne h2]
  exact outerMarks_of_marks (expand_ins_marks_aux l 0 n hw hn h1)

/-- … in particular under the hypotheses of `rotate_den_partial` plus duplicate-freeness and
positions inside the sequence — the conditions under which the Go oracle evaluates the clause -/
theorem rotate_marks_nodup_partial (l : Loc) (n L : Int) (hL : 0 < L) (hn : 0 ≤ n)
    (hw : wf l = true) (hnn : nonneg l = true)
    (hok : normOk L (expand l 0 n) = true)
    (h1 : expandAbs l 0 n = false) (h2 : normalizeAbs (expand l 0 n) L = false)
    (hin : denIn L (den l)) (hnd : (den l).Nodup) :
    outerMarks (normalize (expand l 0 n) L) = outerMarks l := by
  have a := guest_translate l n hw hnn hn h1
  have wfe : wf (expand l 0 n) = true := (expand_ins l 0 n hw hn).2
  have c := mapPos_refines (· % L) a
  have e : mapPos (· % L) (mapPos (· + n) (den l)) = mapPos (rotMap n L) (den l) := by
    simp [mapPos, rotMap, Function.comp_def]
  rw [e] at c
  have hnd2 : (mapPos (· % L) (den (expand l 0 n))).Nodup :=
    Refines.nodup c (nodup_mapPos_rotMap n L hL _ hin hnd)
  exact rotate_marks_partial l n L hL hn hw hnn
    (expand0MarkAbs_of_nodup l n hw hnn hn h1 hnd)
    (normalizeMarkAbs_of_nodup (expand l 0 n) L hL wfe hok h2 hnd2)

/-- FULL STATEMENT for the coordinates without the property's proviso on ambiguous spans (false
on the model, and on the code): `one-of(4.5)` on a circle of length 5 rotated by 1 becomes
`Ambiguous{4, 1}` — `Start > End`.  The property text excludes ambiguous spans that cross the
new origin; `ambOk` below is exactly that proviso. -/
theorem rotate_coords_full_refuted :
    ¬ (∀ (l : Loc) (n L : Int), 0 < L → 0 ≤ n → wf l = true → coordsWithin l L = true →
        coordsWithin (normalize (expand l 0 n) L) L = true) := by
  intro h
  have := h (ambiguous 3 5) 1 5 (by decide) (by decide) (by decide) (by decide)
  revert this
  decide

/-- **the carve-out, characterised** (audit follow-up, S3 tail): EVERY ambiguous span that lies across the
new origin comes back INVERTED.  For an ambiguous span `[s, e)` with `0 ≤ s < e`, not longer than the
circle, and a rotation amount `0 < n` whose new origin `L - n` lies strictly inside it
(`s + n < L < e + n`, i.e. `s < L - n < e`), `Normalize(Expand(·, 0, n), L)` — the two calls `gts.Rotate`
makes — is exactly `Ambiguous{s + n, e + n - L}`, and its end is not above its start
(`e + n - L ≤ s + n`; equal only for a span as long as the circle, which comes back EMPTY; a shorter one
fails `coordsWithin`, the oracle "all coordinates lie in [0, L]" of harness/spec.go).  So the property's proviso
"ambiguous spans only when they do not cross the new origin" (`ambOk` / the ambiguous clause of `normOk`)
is not a gap of the proof: outside it the code's answer is never a span of the rotated record
(`rotate_coords_full_refuted` is one instance; under a wrap-around `Slice` this is known finding K3A,
`C03.slice_wrap_ambiguous_coords_full_refuted`). -/
theorem rotate_ambiguous_across_origin (s e n L : Int) (hs : 0 ≤ s) (hse : s < e) (heL : e - s ≤ L)
    (hn : 0 < n) (h1 : s + n < L) (h2 : L < e + n) :
    normalize (expand (ambiguous s e) 0 n) L = ambiguous (s + n) (e + n - L) ∧
    e + n - L ≤ s + n ∧
    (e - s < L → coordsWithin (normalize (expand (ambiguous s e) 0 n) L) L = false) := by
  have hexp : expand (ambiguous s e) 0 n = ambiguous (s + n) (e + n) := by
    have c1 : (0 ≤ n ∧ (0 : Int) ≤ s ∨ n < 0 ∧ 0 < s) := Or.inl ⟨by omega, hs⟩
    have c2 : (0 ≤ n ∧ (0 : Int) < e ∨ n < 0 ∧ 0 ≤ e) := Or.inl ⟨by omega, by omega⟩
    simp only [expand, ambiguousExpand, gmax, if_neg (show ¬ n = 0 by omega), if_pos c1, if_pos c2,
      if_neg (show ¬ s + n < 0 by omega), if_neg (show ¬ e + n < 0 by omega),
      if_neg (show ¬ s + n = e + n by omega)]
  have hnorm : normalize (ambiguous (s + n) (e + n)) L = ambiguous (s + n) (e + n - L) := by
    simp only [normalize]
    rw [tmod_nonneg_eq _ _ (by omega), tmod_nonneg_eq _ _ (by omega),
      Int.emod_eq_of_lt (by omega) (by omega),
      mod_window L L (e + n - 1) 1 (by omega) (by omega) (by omega)]
    congr 1; omega
  rw [hexp, hnorm]
  refine ⟨rfl, by omega, fun hlt => ?_⟩
  have hinv : e + n - L < s + n := by omega
  simp [coordsWithin, leaves, leafWithin, leafSpan, hinv]

/-- non-vacuity: `one-of(4.5)` on a circle of 5 rotated by 1 (the witness of `rotate_coords_full_refuted`), and
`one-of(7.9)` on a circle of 10 rotated by 2 = the rotation step of `Slice(seq, 8, 4)` (known finding K3A) -/
example : (0 : Int) ≤ 3 ∧ (3 : Int) < 5 ∧ (5 : Int) - 3 ≤ 5 ∧ (0 : Int) < 1 ∧ (3 : Int) + 1 < 5 ∧ (5 : Int) < 5 + 1 ∧
    (normalize (expand (ambiguous 3 5) 0 1) 5).beq (ambiguous 4 1) = true ∧
    (normalize (expand (ambiguous 6 9) 0 2) 10).beq (ambiguous 8 1) = true := by decide

/-- **what the guard `normOk` asks of an ambiguous span, in the property's words** (audit follow-up, S3
tail): for an ambiguous span `[s, e)` inside the record (`0 ≤ s < e ≤ L`), shorter than the circle, and a
reduced rotation amount `0 ≤ n < L`, the guard `normOk L (expand · 0 n)` of the rotation theorems
(`rotate_den_partial`, `rotate_feature_partial`, C04Table, C03 `slice_wrap_*_partial`, C15
`rotate_features_partial`, C15Extract) holds EXACTLY when the span does not lie across the new origin
`L - n` — so for ambiguous spans the guard is the property's own proviso, nothing more.  (The harness
restates the right-hand side as `ambCrossesOrigin`, harness/props_loc.go.) -/
theorem normOk_ambiguous_iff (s e n L : Int) (hs : 0 ≤ s) (hse : s < e) (heL : e ≤ L) (hlen : e - s < L)
    (hn : 0 ≤ n) (hnL : n < L) :
    normOk L (expand (ambiguous s e) 0 n) = true ↔ ¬ (s + n < L ∧ L < e + n) := by
  have hexp : expand (ambiguous s e) 0 n = ambiguous (s + n) (e + n) := by
    by_cases h0 : n = 0
    · subst h0; simp [expand, ambiguousExpand]
    · have c1 : (0 ≤ n ∧ (0 : Int) ≤ s ∨ n < 0 ∧ 0 < s) := Or.inl ⟨hn, hs⟩
      have c2 : (0 ≤ n ∧ (0 : Int) < e ∨ n < 0 ∧ 0 ≤ e) := Or.inl ⟨hn, by omega⟩
      simp only [expand, ambiguousExpand, gmax, if_neg h0, if_pos c1, if_pos c2,
        if_neg (show ¬ s + n < 0 by omega), if_neg (show ¬ e + n < 0 by omega),
        if_neg (show ¬ s + n = e + n by omega)]
  rw [hexp]
  simp only [normOk, Bool.and_eq_true, decide_eq_true_eq]
  by_cases hc : s + n < L
  · rw [Int.emod_eq_of_lt (by omega) hc]; omega
  · rw [mod_window L L (s + n) 1 (by omega) (by omega) (by omega)]; omega

/-- non-vacuity, both sides: `one-of(3.5)` on a circle of 10 rotated by 2 stays inside (guard true), `one-of(7.9)`
rotated by 2 lies across the new origin 8 (guard false: the shape of known finding K3A) -/
example : normOk 10 (expand (ambiguous 2 5) 0 2) = true ∧ ¬ ((2 : Int) + 2 < 10 ∧ (10 : Int) < 5 + 2) ∧
    normOk 10 (expand (ambiguous 6 9) 0 2) = false ∧ ((6 : Int) + 2 < 10 ∧ (10 : Int) < 9 + 2) := by decide

/-- a location inside `[0, L]` has non-negative coordinates (so `coordsWithin l L` discharges
the hypothesis `nonneg l` of the theorems of this file) -/
theorem coordsWithin_nonneg (l : Loc) (L : Int) (h : coordsWithin l L = true) : nonneg l = true :=
  nonneg_of_coordsWithin l L h

/-- **all coordinates lie in `[0, L]` after Rotate**: for every well-formed location with
non-negative coordinates (in particular: `coordsWithin l L`), every `0 ≤ n` (in particular the
reduced `n mod L` that `gts.Rotate` uses, see `rotN_eq_emod`) and `0 < L`, every leaf of
`Normalize(Expand(l, 0, n), L)` has `0 ≤ start ≤ end ≤ L` — provided no ambiguous span crosses the
new origin (`ambOk`, the property's own proviso).  No K2 / marker guard: `Join` only copies or
merges leaves. -/
theorem rotate_coords (l : Loc) (n L : Int) (hL : 0 < L) (hn : 0 ≤ n)
    (hw : wf l = true) (hnn : nonneg l = true) (ha : ambOk L (expand l 0 n) = true) :
    coordsWithin (normalize (expand l 0 n) L) L = true :=
  normalize_coordsWithin (expand l 0 n) L hL (expand_ins l 0 n hw hn).2
    (expand0_nonneg' l n hn hw hnn) ha

/-- non-vacuity: a complement-strand join that crosses the new origin, with both outer markers;
its rotated form keeps them and lies inside `[0, 10]` -/
example : wf (compl (joined [ranged 1 3 true false, ranged 6 9 false true])) = true ∧
    nonneg (compl (joined [ranged 1 3 true false, ranged 6 9 false true])) = true ∧
    coordsWithin (compl (joined [ranged 1 3 true false, ranged 6 9 false true])) 10 = true ∧
    expandMarkAbs (compl (joined [ranged 1 3 true false, ranged 6 9 false true])) 0 3 = false ∧
    normalizeMarkAbs (expand (compl (joined [ranged 1 3 true false, ranged 6 9 false true])) 0 3) 10 = false ∧
    ambOk 10 (expand (compl (joined [ranged 1 3 true false, ranged 6 9 false true])) 0 3) = true ∧
    outerMarks (compl (joined [ranged 1 3 true false, ranged 6 9 false true])) = (true, true) ∧
    normOk 10 (expand (compl (joined [ranged 1 3 true false, ranged 6 9 false true])) 0 3) = true ∧
    expandAbs (compl (joined [ranged 1 3 true false, ranged 6 9 false true])) 0 3 = false ∧
    normalizeAbs (expand (compl (joined [ranged 1 3 true false, ranged 6 9 false true])) 0 3) 10 = false ∧
    denIn 10 (den (compl (joined [ranged 1 3 true false, ranged 6 9 false true]))) ∧
    (den (compl (joined [ranged 1 3 true false, ranged 6 9 false true]))).Nodup ∧
    (normalize (expand (compl (joined [ranged 1 3 true false, ranged 6 9 false true])) 0 3) 10).beq
      (compl (joined [ranged 4 6 true false, ranged 9 10 false false, ranged 0 2 false true])) = true := by
  decide

/-- **Rotate, record level (markers)**: for every `n` (any sign and magnitude) every feature of
a non-empty record is present in the rotated record with unchanged key and qualifiers and the
same outer partial markers. -/
theorem rotate_feature_marks_partial (s : Gts.Seq) (n : Int) (hL : 0 < s.len) (f : Feature)
    (hf : f ∈ s.feats) (hw : wf f.loc = true) (hnn : nonneg f.loc = true)
    (h1 : expandMarkAbs f.loc 0 (rotN n s.len) = false)
    (h2 : normalizeMarkAbs (expand f.loc 0 (rotN n s.len)) s.len = false) :
    ∃ f' ∈ (s.rotate n).feats, f'.key = f.key ∧ f'.props = f.props ∧
      outerMarks f'.loc = outerMarks f.loc := by
  refine ⟨{ f with loc := (f.loc.expand 0 (rotN n s.len)).normalize s.len },
    mem_of_perm_map (rotate_table_perm s n) hf, rfl, rfl, ?_⟩
  have hr : 0 ≤ rotN n s.len := by rw [rotN_eq_emod n s.len hL]; exact Int.emod_nonneg _ (by omega)
  exact rotate_marks_partial f.loc (rotN n s.len) s.len hL hr hw hnn h1 h2

/-- **Rotate, record level (coordinates)**: every feature of the rotated record that stems from
a well-formed feature with non-negative coordinates and no ambiguous span across the new origin
has all its coordinates in `[0, L]`. -/
theorem rotate_feature_coords (s : Gts.Seq) (n : Int) (hL : 0 < s.len) (f : Feature)
    (hf : f ∈ s.feats) (hw : wf f.loc = true) (hnn : nonneg f.loc = true)
    (ha : ambOk s.len (expand f.loc 0 (rotN n s.len)) = true) :
    ∃ f' ∈ (s.rotate n).feats, f'.key = f.key ∧ f'.props = f.props ∧
      coordsWithin f'.loc s.len = true := by
  refine ⟨{ f with loc := (f.loc.expand 0 (rotN n s.len)).normalize s.len },
    mem_of_perm_map (rotate_table_perm s n) hf, rfl, rfl, ?_⟩
  have hr : 0 ≤ rotN n s.len := by rw [rotN_eq_emod n s.len hL]; exact Int.emod_nonneg _ (by omega)
  exact rotate_coords f.loc (rotN n s.len) s.len hL hr hw hnn ha

/-! ### the statements above, for the code AS IT IS WRITTEN NOW

`Gts.Gen.seqRotate` is regenerated from sequence.go on every run (go2lean/gseq.go: the loop `for n < 0` literally,
with fuel); `Gts/Bridge/SeqRotate.lean` proves it equal to the model on every non-empty sequence. -/

/-- **`gts.Rotate` as written**: on a non-empty sequence it does not panic for any `n` (given `-n` units of fuel for
the normalisation loop), residue `k` moves to position `(k + n) mod L`, no feature is lost or duplicated, and the
metadata is untouched -/
theorem gen_rotate_spec {ι : Type} (fuel : Nat) (info : ι) (s : Gts.Seq) (n : Int) (hL : 0 < s.len) (hf : -n ≤ fuel) :
    ∃ ff p, Gen.seqRotate fuel info s.feats s.bytes n = .ok (info, ff, p) ∧
      (∀ k : Nat, k < s.bytes.length → p[((k + n) % s.len).toNat]? = s.bytes[k]?) ∧
      ff.Perm (s.feats.map fun f => { f with loc := (f.loc.expand 0 (rotN n s.len)).normalize s.len }) :=
  ⟨_, _, Bridge.seqRotate_eq fuel info s n hL hf, fun k hk => rotate_bytes_get s n k hk, rotate_table_perm s n⟩

/-- **`gts.Rotate` as written** panics on the empty sequence (`n %= 0`) -/
theorem gen_rotate_empty_panics {ι : Type} (fuel : Nat) (info : ι) (feats : List Feature) (n : Int) :
    Gen.seqRotate fuel info feats [] n = .error .panic :=
  Bridge.seqRotate_panic fuel info feats n

-- non-vacuity
example : 0 < (⟨[], [65, 67, 71]⟩ : Gts.Seq).len ∧ -(-7 : Int) ≤ (7 : Nat) := by decide

end Gts.C04
