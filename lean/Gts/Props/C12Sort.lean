/-
  C12 — `Repair` and the sorting algorithm.  Property theorems only (model:
  Gts/Model/RepairSort.lean `repairWith sort`; `SortedPerm`, `CorrectSort`, `PermSort`,
  `KeepsSorted` and the guards: Gts/Spec/RepairSortGuard.lean; helper lemmas:
  Gts/Lemmas/RepairSort*.lean).

  `Repair` calls `sort.Sort(Locations(locs))` on the members of every class.  Go's `sort.Sort` is
  pdqsort: not stable, and the insertion sort that the model's `repair` copies (`sortLocs`) only
  for at most 12 elements.  `LocationLess` is a strict weak order, not a total one (`Gts.C19.less_*`):
  a `Point` and the one-base `Ranged` at the same place, two ranges with the same span and one
  partial marker each (`<3..5`, `3..>5`), a location and its complement … are incomparable, so a
  class can have several sorted permutations and `sort.Sort` may return any of them.

  What is settled here:
  * `repair_sort_indep_full_refuted`, `repair_sort_indep_plain_refuted`: the result of `Repair`
    DOES depend on which sorted permutation the sort returns — even on plain tables.
    `pdqsort_witness`: a 13-member class on which Go's pdqsort (permutation recorded from the real
    `sort.Sort`, go1.23) and the insertion sort lead to different tables.
  * `repair_sort_indep_partial`: it does not when every class is tie-free or inert
    (`Table.sortIndep`, decidable).
  * the clauses of C12 hold for EVERY sort that permutes / is correct (`…_with…` theorems): order of
    the classes, never a panic, unchanged, chains, key and qualifiers, covered residues,
    restoration; the refuted full statements stay refuted for every correct sort.
  * idempotence needs more than a correct sort: `idempotent_with_full_refuted` (a correct sort
    that re-orders ties of an already sorted list un-does it), `idempotent_with_partial` (correct
    sorts that leave a sorted list alone: insertion sort, pdqsort).
  The real code is tied to `repairWith`: for classes of more than 12 members the harness records
  the permutation `sort.Sort` returns, the model checks that it is a sorted permutation and
  answers `repairWith (assocSort …)` (op `feat.repair.sorted`).
-/
import Gts.Lemmas.RepairSortProps
import Gts.Props.C12
namespace Gts.C12
open Gts Loc

/-! ### correct sorts -/

/-- The model's `repair` is `repairWith` at the model's insertion sort, and that sort is a
correct sort (returns a permutation of its argument in which no later element is `LocationLess`
than an earlier one) which leaves sorted lists alone. -/
theorem repair_is_repairWith :
    (∀ t, repairWith sortLocs t = repair t) ∧ CorrectSort sortLocs ∧ KeepsSorted sortLocs :=
  ⟨repairWith_sortLocs, sortLocs_correct, sortLocs_keepsSorted⟩

example : sortLocs [ranged 3 5 false true, point 1, ranged 3 5 true false, ranged 0 2 false false] =
    [ranged 0 2 false false, point 1, ranged 3 5 false true, ranged 3 5 true false] := by rfl

/-- The sort that the op `feat.repair.sorted` builds from the permutations recorded on the real
code (`assocSort tbl`: the recorded answer where it is a sorted permutation of the argument, the
insertion sort elsewhere) is a correct sort, whatever was recorded; so is the insertion sort of
the reversed list (which returns ties in the opposite order). -/
theorem recorded_sort_correct (tbl : List (List Loc × List Loc)) :
    CorrectSort (assocSort tbl) ∧ CorrectSort (fun xs => sortLocs xs.reverse) :=
  ⟨assocSort_correct tbl, sortLocs_reverse_correct⟩

/-- non-vacuity: a recorded answer that differs from the insertion sort is used -/
example : assocSort [([point 3, ranged 3 4 false false], [ranged 3 4 false false, point 3])]
      [point 3, ranged 3 4 false false] = [ranged 3 4 false false, point 3] ∧
    sortLocs [point 3, ranged 3 4 false false] = [point 3, ranged 3 4 false false] := ⟨by rfl, by rfl⟩

/-- **A tie-free list has exactly one sorted permutation**: when every two members of `xs` are
comparable under `LocationLess` or equal, any two sorted permutations of `xs` are the same list. -/
theorem sorted_perm_unique (xs ys zs : List Loc) (ht : tieFree xs = true)
    (h1 : SortedPerm less xs ys) (h2 : SortedPerm less xs zs) : ys = zs :=
  sortedPerm_unique h1 h2 ht

example : tieFree [ranged 3 6 true false, point 1, ranged 0 3 false true, point 1, compl (ranged 7 9 false false)] = true := by
  decide

/-! ### does `Repair` depend on the sorting algorithm?  Yes. -/

/-- FULL STATEMENT (false): for every correct sort, `repairWith sort t = repair t`.  A `Point` and
the one-base range at the same position are incomparable.  Sorted `[3, 3..4]` (what the stable
insertion sort makes of this table) `Push` lets the range absorb the point and the table loses
a feature; sorted `[3..4, 3]` (what the insertion sort of the reversed list returns — an equally
correct answer) nothing is absorbed and the table is unchanged. -/
theorem repair_sort_indep_full_refuted :
    ¬ (∀ sort : List Loc → List Loc, CorrectSort sort → ∀ t : Table, repairWith sort t = repair t) := by
  intro h
  have h1 := h (fun xs => sortLocs xs.reverse) sortLocs_reverse_correct
    [gene (point 3), gene (ranged 3 4 false false)]
  have h2 := congrArg (fun (o : RepairOutcome) => match o with | RepairOutcome.ok t => t.length | _ => 0) h1
  revert h2
  decide

/-- the two results, spelled out -/
example : repair [gene (point 3), gene (ranged 3 4 false false)] = .ok [gene (ranged 3 4 false false)] ∧
    repairWith (fun xs => sortLocs xs.reverse) [gene (point 3), gene (ranged 3 4 false false)] =
      .ok [gene (point 3), gene (ranged 3 4 false false)] := ⟨by rfl, by rfl⟩

/-- FULL STATEMENT restricted to plain tables of well-formed forward ranges (still false): `<3..5`
and `3..>5` are incomparable (same span, one partial marker each); only the one with the 3'
marker fuses with `<5..8`, and only when it is sorted last. -/
theorem repair_sort_indep_plain_refuted :
    ¬ (∀ sort : List Loc → List Loc, CorrectSort sort → ∀ t : Table, Table.plain t = true → Table.wfT t = true →
        repairWith sort t = repair t) := by
  intro h
  have h1 := h (fun xs => sortLocs xs.reverse) sortLocs_reverse_correct
    [gene (ranged 3 5 false true), gene (ranged 3 5 true false), gene (ranged 5 8 true false)] (by decide) (by decide)
  have h2 := congrArg (fun (o : RepairOutcome) => match o with | RepairOutcome.ok t => t.length | _ => 0) h1
  revert h2
  decide

/-- **A class beyond the insertion-sort threshold, sorted as Go's pdqsort sorts it.**  13 members
of one class, among them the incomparable pair `3` / `3..4`, in the table order below; `tbl`
records what the real `sort.Sort(Locations(…))` (go1.23.5) returns for them: `3..4` BEFORE `3`,
where the stable insertion sort keeps `3` first.  The recorded list is a sorted permutation;
with it `Repair` returns the table unchanged (that is what the real code does, op
`feat.repair.sorted` in the check), while the insertion-sort model drops the `Point` feature.
So for classes of more than 12 members with ties the model's `repair` is NOT the real `Repair`;
`repairWith (assocSort recorded)` is. -/
theorem pdqsort_witness :
    let locs := [point 3, ranged 14 15 false false, ranged 10 11 false false, ranged 3 4 false false,
      ranged 32 33 false false, ranged 12 13 false false, ranged 16 17 false false, ranged 20 21 false false,
      ranged 18 19 false false, ranged 22 23 false false, ranged 26 27 false false, ranged 30 31 false false,
      ranged 34 35 false false]
    let goSorted := [ranged 3 4 false false, point 3, ranged 10 11 false false, ranged 12 13 false false,
      ranged 14 15 false false, ranged 16 17 false false, ranged 18 19 false false, ranged 20 21 false false,
      ranged 22 23 false false, ranged 26 27 false false, ranged 30 31 false false, ranged 32 33 false false,
      ranged 34 35 false false]
    sortedPermB locs goSorted = true ∧
    repairWith (assocSort [(locs, goSorted)]) (locs.map gene) = .ok (locs.map gene) ∧
    repair (locs.map gene) ≠ .ok (locs.map gene) := by
  refine ⟨by decide, by rfl, ?_⟩
  intro h
  have h2 := congrArg (fun (o : RepairOutcome) => match o with | RepairOutcome.ok t => t.length | _ => 0) h
  revert h2
  decide

/-- **`Repair` does not depend on the sorting algorithm** on tables in which every class either
is tie-free (any two members comparable under `LocationLess`, or equal) or is inert under `Push`
(no `Joined` member, and no two members — in either order — match a rule of `Push`'s type
switch): for every correct sort the result is the result of the model's insertion sort. -/
theorem repair_sort_indep_partial (sort : List Loc → List Loc) (hs : CorrectSort sort) (t : Table)
    (hg : Table.sortIndep t = true) : repairWith sort t = repair t := by
  rw [← repairWith_sortLocs]
  exact repairWith_eq_of_sortIndep sort sortLocs hs sortLocs_correct t hg

/-- non-vacuity: a tie-free class in which two fragments are fused, and an inert class with ties
(a range and its complement; `<3..5` and `3..>5`) -/
example : Table.sortIndep [gene (ranged 0 3 false true), ⟨"CDS", compl (ranged 3 5 false false), []⟩,
      gene (ranged 3 6 true false), ⟨"CDS", ranged 3 5 false false, []⟩, gene (point 9),
      ⟨"CDS", ranged 3 5 true false, []⟩, ⟨"CDS", ranged 3 5 false true, []⟩] = true ∧
    tieFree [compl (ranged 3 5 false false), ranged 3 5 false false, ranged 3 5 true false, ranged 3 5 false true] = false := by
  decide

/-! ### the clauses of C12 for every sort -/

/-- **The map iteration order does not matter, whatever the sort**: for any function `sort` at all,
visiting the classes in any order `cs` gives the result of `repairWith sort`. -/
theorem repairWith_order_indep (sort : List Loc → List Loc) (t : Table) (cs : List (List Nat))
    (h : cs.Perm (Table.groups t)) : repairOrdWith sort t cs = repairWith sort t :=
  (repairOrd_permW sort t _ _ h.symm (Table.groups_flatten_nodup t)).symm

example : repairOrdWith (fun xs => sortLocs xs.reverse)
    [gene (ranged 0 2 false true), ⟨"CDS", point 1, []⟩, gene (ranged 2 4 true false)]
    [[1], [0, 2]] = .ok [gene (ranged 0 4 false false), ⟨"CDS", point 1, []⟩] := by rfl

/-- **`Repair` never panics, whatever `sort.Sort` returns** (any function `sort`, correct or not):
the result is the explicit table `specRepairW sort t`, or the `nil`-Location outcome. -/
theorem no_panic_with (sort : List Loc → List Loc) (t : Table) :
    repairWith sort t ≠ .panic ∧
    repairWith sort t = if (Table.groups t).any (classNilW sort t) then .nilLoc else .ok (specRepairW sort t) := by
  refine ⟨?_, repair_eqW sort t⟩
  rw [repair_eqW]
  split <;> simp

/-- … and a table is returned whenever no `nil` Location is written; for a sort that permutes,
on every plain table. -/
theorem no_panic_ok_with (sort : List Loc → List Loc) (t : Table) :
    (Table.noNilWith sort t = true → repairWith sort t = .ok (specRepairW sort t)) ∧
    (PermSort sort → Table.plain t = true → repairWith sort t = .ok (specRepairW sort t)) :=
  ⟨fun h => repair_eq_specW sort t ((noNil_iffW sort t).mp h),
   fun hp hpl => repair_eq_specW sort t (noNil_of_plainW sort hp t hpl)⟩

example : Table.noNilWith (fun xs => sortLocs xs.reverse) [gene (compl (ranged 0 3 false true)),
    gene (ordered [point 1, point 5]), gene (between 3), gene (joined [ranged 3 6 true false, point 9])] = true := by decide

/-- **Unchanged, every sort**: whenever no class is reduced by the push loop, `Repair` returns its
argument. -/
theorem unchanged_of_no_reduction_with (sort : List Loc → List Loc) (t : Table)
    (h : ∀ idx ∈ Table.groups t, idx.length ≤ classNW sort t idx) : repairWith sort t = .ok t :=
  repair_unchangedW' sort t h

/-- **Unchanged, every sort that permutes**: a plain table without a mergeable pair is returned as
it is. -/
theorem unchanged_with_partial (sort : List Loc → List Loc) (hp : PermSort sort) (t : Table)
    (hpl : Table.plain t = true) (hm : Table.noMergeablePair t = true) : repairWith sort t = .ok t :=
  repair_unchangedW' sort t (not_reduced_of_noMergeablePairW sort hp t hpl hm)

/-- non-vacuity: ties (`<1..2` / `1..>2`, duplicates), abutting but complete ranges -/
example : Table.plain [gene (ranged 0 3 false false), gene (ranged 3 6 false false), gene (ranged 1 2 true false),
      gene (ranged 1 2 false true), gene (ranged 1 2 true false)] = true ∧
    Table.noMergeablePair [gene (ranged 0 3 false false), gene (ranged 3 6 false false), gene (ranged 1 2 true false),
      gene (ranged 1 2 false true), gene (ranged 1 2 true false)] = true := by decide

/-- FULL STATEMENT (false for every correct sort, K12B): `noMergeablePair t → Repair returns t`.
The witness of `unchanged_full_refuted` is tie-free, so every correct sort fuses the two
complement-strand features. -/
theorem unchanged_with_full_refuted (sort : List Loc → List Loc) (hs : CorrectSort sort) :
    ¬ (∀ t : Table, Table.noMergeablePair t = true → repairWith sort t = .ok t) := by
  intro h
  have h1 := h [gene (compl (ranged 0 3 false false)), gene (compl (ranged 5 8 false false))] (by decide)
  rw [repair_sort_indep_partial sort hs _ (by decide)] at h1
  have h2 := congrArg (fun (o : RepairOutcome) => match o with | RepairOutcome.ok t => t.length | _ => 0) h1
  revert h2
  decide

/-- **Merges are chains, every sort that permutes**: on a plain table the locations of every class
after `Repair` are obtained from a partition of the class's locations into chains (a single
location, or consecutive forward ranges each ending where the next starts with the meeting ends
marked partial — any abutting ranges in a `source` class), each chain replaced by its span.
Which chains are formed may depend on the sort (`repair_sort_indep_plain_refuted`); that they
are chains does not. -/
theorem merge_chains_with_partial (sort : List Loc → List Loc) (hp : PermSort sort) (t t' : Table)
    (hpl : Table.plain t = true) (h : repairWith sort t = .ok t') (k : String) :
    ∃ gs, gs.flatten.Perm (Table.locsOf t k) ∧ ChainsOf (Table.forceOf t k) gs (Table.locsOf t' k) := by
  obtain ⟨hnil, rfl⟩ := repair_okW sort t t' h
  by_cases hk : k ∈ Table.classKeys t
  · have hidx : Table.memberIdx t k ∈ Table.groups t := List.mem_map.mpr ⟨k, hk, rfl⟩
    rw [locsOf_specRepairW sort t hnil k hk, ← classForce_eq, ← classLocs_memberIdx]
    simp only [classNewW]
    split
    · rename_i hlt
      rcases plain_class t hpl _ hidx with h1 | hr
      · have := classN_posW sort t (Table.memberIdx t k); omega
      · exact pushedOfWith_chains sort hp _ _ hr
    · exact ⟨_, by rw [flatten_singletons], chainsOf_singletons _ _⟩
  · rw [locsOf_specRepair_of_not_memW sort t k hk, locsOf_of_not_mem t k hk]
    exact ⟨[], by simp, trivial⟩

/-- non-vacuity: the plain table of `repair_sort_indep_plain_refuted`, on which two correct sorts
form different chains -/
example : Table.plain [gene (ranged 3 5 false true), gene (ranged 3 5 true false), gene (ranged 5 8 true false)] = true ∧
    repair [gene (ranged 3 5 false true), gene (ranged 3 5 true false), gene (ranged 5 8 true false)] =
      .ok [gene (ranged 3 5 false true), gene (ranged 3 5 true false), gene (ranged 5 8 true false)] ∧
    repairWith (fun xs => sortLocs xs.reverse)
      [gene (ranged 3 5 false true), gene (ranged 3 5 true false), gene (ranged 5 8 true false)] =
      .ok [gene (ranged 3 5 true false), gene (ranged 3 8 false false)] := ⟨by decide, by rfl, by rfl⟩

/-- FULL STATEMENT (false for every correct sort, K12B): chains on all tables. -/
theorem merge_chains_with_full_refuted (sort : List Loc → List Loc) (hs : CorrectSort sort) :
    ¬ (∀ (t t' : Table) (k : String), repairWith sort t = .ok t' →
        ∃ gs, gs.flatten.Perm (Table.locsOf t k) ∧ ChainsOf (Table.forceOf t k) gs (Table.locsOf t' k)) := by
  intro h
  obtain ⟨gs, h1, h2⟩ := h [gene (compl (ranged 0 3 false false)), gene (compl (ranged 5 8 false false))]
    [gene (compl (joined [ranged 5 8 false false, ranged 0 3 false false]))] "\"gene\":[]"
    (by rw [repair_sort_indep_partial sort hs _ (by decide)]; rfl)
  have e0 : Table.locsOf [gene (compl (ranged 0 3 false false)), gene (compl (ranged 5 8 false false))] "\"gene\":[]" =
      [compl (ranged 0 3 false false), compl (ranged 5 8 false false)] := by rfl
  have e1 : Table.locsOf [gene (compl (joined [ranged 5 8 false false, ranged 0 3 false false]))] "\"gene\":[]" =
      [compl (joined [ranged 5 8 false false, ranged 0 3 false false])] := by rfl
  rw [e0] at h1
  rw [e1] at h2
  match gs, h1, h2 with
  | [], _, h2 => simp [ChainsOf] at h2
  | [g], h1, ⟨hc, _⟩ =>
    have hl : g.length = 2 := by simpa using h1.length_eq
    cases hc with
    | single => simp at hl
  | _ :: _ :: _, _, h2 => simp [ChainsOf] at h2

/-- **Key and qualifiers are never invented or mixed, whatever the sort** (any function). -/
theorem result_keys_with (sort : List Loc → List Loc) (t t' : Table) (h : repairWith sort t = .ok t')
    (f' : Feature) (hf : f' ∈ t') : ∃ f ∈ t, f.key = f'.key ∧ f.props = f'.props := by
  obtain ⟨_, rfl⟩ := repair_okW sort t t' h
  obtain ⟨j, hj, hg⟩ := mem_specRepairW sort t f' hf
  have hkey := writeLocs_key t ((Table.groups t).flatMap (classWritesW sort t)) j
  simp only [specGGW] at hg
  rw [hg] at hkey
  cases ht : t[j]? with
  | none => rw [ht] at hkey; cases hkey
  | some f =>
    rw [ht] at hkey
    simp only [Option.map_some, Option.some.injEq, Prod.mk.injEq] at hkey
    exact ⟨f, List.mem_of_getElem? ht, hkey.1.symm, hkey.2.symm⟩

/-- **Cover preserved, every sort that permutes**: on well-formed tables, unless rule K2 fires in
the push loop of some class *for the order this sort returns* (`Table.k2With sort`), the set of
(stranded) residues covered by the features of each (key, qualifiers) class is the same before
and after.  (Whether K2 fires can depend on the sort: `k2_depends_on_sort`.) -/
theorem cover_with_partial (sort : List Loc → List Loc) (hp : PermSort sort) (t t' : Table)
    (hw : Table.wfT t = true) (hk2 : Table.k2With sort t = false) (h : repairWith sort t = .ok t')
    (k : String) (x : Pos) : x ∈ Table.classDen t' k ↔ x ∈ Table.classDen t k := by
  obtain ⟨hnil, rfl⟩ := repair_okW sort t t' h
  exact classDen_specRepairW sort hp t hw hnil hk2 k x

/-- non-vacuity, and: the K2 guard depends on the sort.  `0..3`, the base `4` and the one-base
range `4..4` (incomparable with the base): sorted `[0..3, 4, 4..4]` K2 fires (the base is
dropped after the range that ends there — here harmlessly, `4..4` covers it), sorted
`[0..3, 4..4, 4]` it does not. -/
theorem k2_depends_on_sort :
    Table.k2With sortLocs [gene (ranged 0 3 false false), gene (point 3), gene (ranged 3 4 false false)] = true ∧
    Table.k2With (fun xs => sortLocs xs.reverse)
      [gene (ranged 0 3 false false), gene (point 3), gene (ranged 3 4 false false)] = false ∧
    Table.wfT [gene (ranged 0 3 false false), gene (point 3), gene (ranged 3 4 false false)] = true := by
  decide

/-- FULL STATEMENT (false for every correct sort, K2): the covered residues of a class are
unchanged.  The witness of `cover_full_refuted` is tie-free. -/
theorem cover_with_full_refuted (sort : List Loc → List Loc) (hs : CorrectSort sort) :
    ¬ (∀ (t t' : Table) (k : String) (x : Pos), repairWith sort t = .ok t' →
        (x ∈ Table.classDen t' k ↔ x ∈ Table.classDen t k)) := by
  intro h
  have h1 := h [gene (ranged 0 3 false false), gene (point 3)] [gene (ranged 0 3 false false)] "\"gene\":[]" (3, false)
    (by rw [repair_sort_indep_partial sort hs _ (by decide)]; rfl)
  revert h1
  decide

/-! ### idempotence needs more than a correct sort -/

/-- FULL STATEMENT (false): for every correct sort, `Repair` is idempotent on plain tables of
well-formed locations.  `sort xs := insertion sort of the reversed list` is a correct sort.  On
the table below it sorts the class to `[3..>5, <3..5, <5..8, 10..>12, <12..15]`: the last two
are fused, the first three are not (`<3..5` has no 3' marker), and the four locations are
written back in that order.  Sorting THEM it returns the tie `3..>5` / `<3..5` in the
opposite order, `3..>5` now stands next to `<5..8`, and the second `Repair` fuses them. -/
theorem idempotent_with_full_refuted :
    ¬ (∀ sort : List Loc → List Loc, CorrectSort sort → ∀ t t' : Table, Table.plain t = true → Table.wfT t = true →
        repairWith sort t = .ok t' → repairWith sort t' = .ok t') := by
  intro h
  have h1 := h (fun xs => sortLocs xs.reverse) sortLocs_reverse_correct
    [gene (ranged 3 5 true false), gene (ranged 3 5 false true), gene (ranged 5 8 true false),
      gene (ranged 10 12 false true), gene (ranged 12 15 true false)]
    [gene (ranged 3 5 false true), gene (ranged 3 5 true false), gene (ranged 5 8 true false),
      gene (ranged 10 15 false false)] (by decide) (by decide) (by rfl)
  have h2 := congrArg (fun (o : RepairOutcome) => match o with | RepairOutcome.ok t => t.length | _ => 0) h1
  revert h2
  decide

/-- **Idempotent for correct sorts that leave a sorted list alone** (`KeepsSorted`: insertion sort;
Go's pdqsort), on plain tables of well-formed locations. -/
theorem idempotent_with_partial (sort : List Loc → List Loc) (hs : CorrectSort sort) (hk : KeepsSorted sort)
    (t t' : Table) (hp : Table.plain t = true) (hw : Table.wfT t = true)
    (h : repairWith sort t = .ok t') : repairWith sort t' = .ok t' := by
  obtain ⟨_, rfl⟩ := repair_okW sort t t' h
  exact repair_idemW sort hs hk t hp hw

/-- A recorded sort keeps sorted lists whenever no recorded argument that is already sorted has a
different recorded answer (in particular: when what was recorded comes from a sort that keeps
sorted lists, as pdqsort does). -/
theorem keepsSorted_assocSort (tbl : List (List Loc × List Loc))
    (h : ∀ p ∈ tbl, (p.1.Pairwise fun a b => less b a = false) → p.2 = p.1) : KeepsSorted (assocSort tbl) := by
  intro p hp
  simp only [assocSort]
  split
  · rename_i q hq
    have hmem := List.mem_of_find?_eq_some hq
    have hkey := List.find?_some hq
    have e : q.1 = p := (Loc.beqList_iff _ _).mp hkey
    split
    · rw [← e]; exact h q hmem (e ▸ hp)
    · exact sortLocs_of_sorted p hp
  · exact sortLocs_of_sorted p hp

/-- non-vacuity of `idempotent_with_partial`: a correct sort that keeps sorted lists and is not the
insertion sort (it returns the tie `3` / `3..4` in the other order) … -/
example : KeepsSorted (assocSort [([ranged 5 8 false false, point 3, ranged 3 4 false false],
      [ranged 3 4 false false, point 3, ranged 5 8 false false])]) ∧
    assocSort [([ranged 5 8 false false, point 3, ranged 3 4 false false],
      [ranged 3 4 false false, point 3, ranged 5 8 false false])]
      [ranged 5 8 false false, point 3, ranged 3 4 false false] ≠
    sortLocs [ranged 5 8 false false, point 3, ranged 3 4 false false] := by
  refine ⟨keepsSorted_assocSort _ ?_, ?_⟩
  · intro p hp hs
    simp only [List.mem_singleton] at hp
    subst hp
    have hlt : less (point 3) (ranged 5 8 false false) = false := (List.pairwise_cons.mp hs).1 (point 3) (by simp)
    exact absurd hlt (by decide)
  · intro h
    have h2 := congrArg (fun l : List Loc => l.head?.map Loc.isRanged) h
    revert h2
    decide

/-- … and the plain well-formed table of `idempotent_with_full_refuted`. -/
example : Table.plain [gene (ranged 3 5 true false), gene (ranged 3 5 false true), gene (ranged 5 8 true false),
      gene (ranged 10 12 false true), gene (ranged 12 15 true false)] = true ∧
    Table.wfT [gene (ranged 3 5 true false), gene (ranged 3 5 false true), gene (ranged 5 8 true false),
      gene (ranged 10 12 false true), gene (ranged 12 15 true false)] = true := by decide

/-! ### restoration does not depend on the sort -/

/-- **Restoration, one class, every correct sort**: the fragments of a forward range, standing in
the table in any order, are fused back into the one original range (they are strictly ordered
by their starts: no ties). -/
theorem restore_class_with_partial (sort : List Loc → List Loc) (hs : CorrectSort sort) (force m : Bool)
    (hm : (m || force) = true) (s e : Int) (p5 p3 : Bool)
    (cs : List Int) (hc : cutsOk s e cs) (q : List Loc) (hq : q.Perm (frags m s e p5 p3 cs)) :
    pushedOfWith sort force q = [ranged s e p5 p3] :=
  pushedOfWith_frags sort hs force m hm s e p5 p3 cs hc q hq

/-- **Restoration, every correct sort**: under `Restorable` (forward ranges inside the sequence,
table-unique classes, no `source`, increasing cuts) `slice;…;slice;concat;repair` is the same
for every correct sort — every class of the concatenated table is tie-free — and returns, class
by class, the original features. -/
theorem restore_with_partial (sort : List Loc → List Loc) (hs : CorrectSort sort) (s : Seq) (cuts : List Int)
    (h : Restorable s cuts) :
    roundTripWith sort s cuts = roundTrip s cuts ∧
    ∃ t', roundTripWith sort s cuts = .ok t' ∧ ∀ k, Table.featsOf t' k = Table.featsOf s.feats k := by
  have e := roundTripWith_eq sort hs s cuts h
  exact ⟨e, by rw [e]; exact roundTrip_restores s cuts h⟩

/-- non-vacuity: see `restore_partial`; the concatenated table of that example is tie-free -/
example : Table.tieFreeT (Seq.concat (cutPieces
    ⟨[⟨"gene", ranged 0 7 false true, [["id", "a"]]⟩, ⟨"CDS", ranged 2 5 true false, [["id", "b"]]⟩,
      ⟨"gene", ranged 4 8 false false, [["id", "c"]]⟩], [97, 99, 103, 116, 97, 99, 103, 116]⟩
    [0, 3, 4, 6, 8])).feats = true := by decide

end Gts.C12
