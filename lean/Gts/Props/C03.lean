/-
  C03 — Delete/Erase/Slice remove exactly the requested residues and features follow.
  Property theorems only.
-/
import Gts.Lemmas.Delete
import Gts.Model.Seq
import Gts.Model.GbSlice
import Gts.Model.GbSliceRec
import Gts.Lemmas.Bounds
import Gts.Lemmas.Window
import Gts.Lemmas.SliceWrap
import Gts.Lemmas.RefInfo
import Gts.Lemmas.GbSliceRefCompose
import Gts.Lemmas.Record
import Gts.Props.C04
import Gts.Lemmas.MarksDelAll
import Gts.Lemmas.MarkGuardOps
import Gts.Bridge.SeqDelete
import Gts.Bridge.SeqSlice
import Gts.Bridge.GbSlice
namespace Gts.C03
open Gts Loc

/-- residues after Delete: `seq[:i] + seq[i+n:]` -/
theorem delete_bytes (s : Seq) (i n : Int) :
    (s.delete i n).bytes = s.bytes.take i.toNat ++ s.bytes.drop (i + n).toNat := rfl

/-- Delete keeps every feature (key, qualifiers, order), re-locating each by `Expand(i, -n)` -/
theorem delete_feats (s : Seq) (i n : Int) :
    (s.delete i n).feats = s.feats.map fun f => { f with loc := f.loc.expand i (-n) } := rfl

/-- Erase drops exactly the non-`source` features lying wholly within the removed region, then
behaves like Delete -/
theorem erase_spec (s : Seq) (i n : Int) :
    s.erase i n =
      Seq.delete ⟨s.feats.filter fun f => f.key = "source" || !(f.loc.within i (i + n)), s.bytes⟩ i n := rfl

/-- residues of a forward slice: exactly the window -/
theorem slice_bytes_fwd (s : Seq) (a b : Int) (ha : 0 ≤ a) (hab : a ≤ b) :
    (s.slice a b).bytes = (s.bytes.drop a.toNat).take (b - a).toNat := by
  unfold Seq.slice
  simp only [show ¬ a < 0 by omega, show ¬ b < 0 by omega, show ¬ b < a by omega, if_false]
  rfl

/-- a forward slice keeps exactly the features overlapping the window, each re-located by
`Expand(end, end-L)` then `Expand(0, -start)`; `source` features lose their partial markers -/
theorem slice_feats_fwd (s : Seq) (a b : Int) (ha : 0 ≤ a) (hab : a ≤ b) :
    (s.slice a b).feats =
      (s.feats.filter fun f => f.loc.overlap a b).map fun f =>
        let loc := (f.loc.expand b (b - s.len)).expand 0 (-a)
        { f with loc := if f.key = "source" then loc.asComplete else loc } := by
  unfold Seq.slice
  simp only [show ¬ a < 0 by omega, show ¬ b < 0 by omega, show ¬ b < a by omega, if_false]
  rfl

/-- FULL STATEMENT (false today through known finding K2):
    `∀ l i k, wf l → 0 < k → den (expand l i (-k)) ≼ filterMapPos (delMap i k) (den l)`;
    witness: `join(4..6,9)` with `[6,8)` deleted loses base 9 (0-based 8). -/
theorem expand_del_full_refuted :
    ¬ (∀ (l : Loc) (i k : Int), wf l = true → 0 < k →
        den (expand l i (-k)) ≼ filterMapPos (delMap i k) (den l)) := by
  intro h
  have := (h (joined [ranged 3 6 false false, point 8]) 6 2 (by decide) (by decide)).2 (6, false) (by decide)
  revert this
  decide

/-- **Delete, every location kind**: the surviving location denotes exactly the former residues
minus the removed ones, re-based, in the same order and on the same strand — for every
well-formed location of any nesting, every `i` and every `k > 0` — provided K2 does not fire. -/
theorem expand_del_partial (l : Loc) (i k : Int) (hw : wf l = true) (hk : 0 < k)
    (hk2 : expandAbs l i (-k) = false) :
    den (expand l i (-k)) ≼ filterMapPos (delMap i k) (den l) := (expand_del l i k hw hk).1 hk2

/-- the contiguous kinds need no guard -/
theorem ranged_del_den (s e : Int) (p5 p3 : Bool) (i k : Int) (h : s < e) (hk : 0 < k) :
    den (expand (ranged s e p5 p3) i (-k)) = filterMapPos (delMap i k) (den (ranged s e p5 p3)) :=
  den_rangedExpand_del s e p5 p3 i k h hk

theorem point_del_den (p i k : Int) (hk : 0 < k) :
    den (expand (point p) i (-k)) = filterMapPos (delMap i k) (den (point p)) :=
  den_pointExpand_del p i k hk

/-- an end whose residue was cut off becomes partial: the 5' marker is set iff it was set or the
first residue `s` lies in `[i, i+k)`; the 3' marker iff it was set or the last residue `e-1`
lies in `[i, i+k)`; a range that lost all residues becomes a between-site. -/
theorem ranged_del_shape (s e : Int) (p5 p3 : Bool) (i k : Int) (hk : 0 < k) :
    expand (ranged s e p5 p3) i (-k) =
      if delStart s i k = delEnd e i k then between (delStart s i k)
      else ranged (delStart s i k) (delEnd e i k)
        (if i ≤ s ∧ s < i + k then true else p5) (if i < e ∧ e - 1 < i + k then true else p3) := by
  have : (i < e ∧ e - 1 < i + k) ↔ (i < e ∧ e ≤ i + k) := by constructor <;> intro h <;> omega
  simp only [expand, rangedExpand_del_eq s e p5 p3 i k hk, this]

/-- a range lying wholly inside the deletion collapses to the site at the cut -/
theorem ranged_del_collapse (s e : Int) (p5 p3 : Bool) (i k : Int) (h : s < e) (h1 : i ≤ s) (h2 : e ≤ i + k) :
    expand (ranged s e p5 p3) i (-k) = between i := by
  have hk : 0 < k := by omega
  rw [ranged_del_shape s e p5 p3 i k hk]
  have e1 : delStart s i k = i := by unfold delStart; split <;> omega
  have e2 : delEnd e i k = i := by unfold delEnd; split <;> omega
  rw [e1, e2, if_pos rfl]

/-- a point inside the deletion collapses to the site at the cut (repaired in commit c067f2d) -/
theorem point_del_collapse (p i k : Int) (h1 : i ≤ p) (h2 : p < i + k) :
    expand (point p) i (-k) = between i := by
  simp only [expand, pointExpand]
  rw [if_pos (by omega)]

/-- **no resulting location refers to a position outside the new sequence**: deleting `[i, i+k)`
from a sequence of length `L` maps every location whose coordinates lie in `[0, L]` to one whose
coordinates lie in `[0, L-k]` — every kind, nesting and arity, no guard (Join only copies
coordinates). -/
theorem expand_del_inside (L i k : Int) (hi : 0 ≤ i) (hk : 0 < k) (hL : i + k ≤ L) (l : Loc)
    (h : coordsAll (inB 0 L) l = true) : coordsAll (inB 0 (L - k)) (expand l i (-k)) = true :=
  expand_del_coords L i k hi hk hL l h

/-- **Slice, every location kind**: on a forward window `[a, b)` of a sequence of length `L` the
re-located feature (`Expand(b, b-L)` then `Expand(0, -a)`, see `slice_feats_fwd`) denotes exactly
its former residues inside the window, re-based to the window start, in the same order and on
the same strand — provided K2 does not fire in either step. -/
theorem slice_den_partial (l : Loc) (a b L : Int) (h0 : 0 ≤ a) (hab : a ≤ b) (hbL : b ≤ L)
    (hw : wf l = true) (hpos : ∀ p ∈ den l, 0 ≤ p.1 ∧ p.1 < L)
    (g1 : expandAbs l b (b - L) = false) (g2 : expandAbs (l.expand b (b - L)) 0 (-a) = false) :
    den ((l.expand b (b - L)).expand 0 (-a)) ≼ filterMapPos (winMap a b) (den l) :=
  (sliceLoc_den l a b L h0 hab hbL hw hpos g1 g2).1

/-- well-formedness is preserved -/
theorem expand_del_wf (l : Loc) (i k : Int) (hw : wf l = true) (hk : 0 < k) :
    wf (expand l i (-k)) = true := (expand_del l i k hw hk).2

/-- REFERENCE ranges: a range `[s,e)` overlapping the window `[a,b)` is replaced by exactly the
re-based intersection (clipped to the window, counted from the window start) -/
theorem clipRange_spec (a b s e : Int) (x : Int) :
    ((clipRange a b (s, e)).1 ≤ x ∧ x < (clipRange a b (s, e)).2) ↔
      (s ≤ x + a ∧ x + a < e ∧ a ≤ x + a ∧ x + a < b) := by
  simp only [clipRange, gmax, gmin]
  by_cases c1 : s - a < 0 <;> by_cases c2 : b - a < e - a <;> simp only [c1, c2, if_true, if_false] <;> omega

/-- a clipped overlapping range is non-empty and lies inside the new sequence `[0, b-a]` -/
theorem clipRange_inside (a b s e : Int) (hse : s < e) (hov : s < b ∧ a < e) (hab : a < b) :
    0 ≤ (clipRange a b (s, e)).1 ∧ (clipRange a b (s, e)).1 < (clipRange a b (s, e)).2 ∧
      (clipRange a b (s, e)).2 ≤ b - a := by
  simp only [clipRange, gmax, gmin]
  by_cases c1 : s - a < 0 <;> by_cases c2 : b - a < e - a <;> simp only [c1, c2, if_true, if_false] <;> omega

/-- references that survive are renumbered consecutively from 1 -/
theorem renumber_numbers (infos : List Pars.Bytes) :
    (renumber infos).map (·.number) = (List.range infos.length).map (fun (k : Nat) => (k : Int) + 1) := by
  unfold renumber
  apply List.ext_getElem
  · simp
  · intro i h1 h2
    simp

theorem sliceRefs_renumbered (pref : Pars.Bytes) (a b : Int) (refs : List Ref) :
    ∃ infos, sliceRefs pref a b refs = renumber infos := ⟨_, rfl⟩

/-- every range accepted by `parseReferenceInfo` is proper (`start < end`), so `gts.Range` never
panics while the metadata of a slice is clipped (an inverted range such as `(bases 5 to 2)` is a
parse error and the info is kept verbatim) -/
theorem parseRefInfo_proper (pref info : Pars.Bytes) (rs : List (Int × Int))
    (h : parseRefInfo pref info = some rs) : ∀ r ∈ rs, r.1 < r.2 :=
  RefInfo.parseRefInfo_proper pref info rs h

/-- an unparsable or inverted info is kept verbatim, a parsable one is clipped or dropped -/
theorem sliceRefInfo_verbatim (pref info : Pars.Bytes) (a b : Int)
    (h : parseRefInfo pref info = none) : sliceRefInfo pref a b info = some info := by
  simp [sliceRefInfo, h]

/-- non-vacuity -/
example : wf (compl (joined [ranged 2 5 true false, point 7, ranged 9 12 false true])) = true ∧
    expandAbs (compl (joined [ranged 2 5 true false, point 7, ranged 9 12 false true])) 4 (-4) = false := by
  decide

/-! ### partial markers after a deletion; the oracle's in-bounds predicate

`outerMarks`, `outerLeaves`, `coordsWithin` (`Gts/Spec/Marks.lean`) are the Lean restatements of
the Go oracles of `harness/spec.go`.  `remAt i k o` (`Gts/Lemmas/MarksDel.lean`): the residue `o`
(if any) lies in the removed span `[i, i+k)`. -/

/-- FULL STATEMENT (false on the model, and on the code): "after deleting `[i, i+k)` the 5'
marker is set iff it was set or the first residue read by `l` was removed, and likewise the 3'
marker with the last residue".  Witness `join(1..3,6..8)` with `[0, 3)` deleted: the first part
loses all its residues and collapses to the site `0^1`, which carries no marker; the result
`join(0^1,3..5)` has no 5' marker although the first residue read was removed.  (The property
only speaks of an END whose residues were cut off — a part that disappears altogether has no end
left; the Go oracle makes the same restriction, see `outer5Kept`.) -/
theorem expand_del_marks_full_refuted :
    ¬ (∀ (l : Loc) (i k : Int), wf l = true → 0 < k →
        outerMarks (expand l i (-k)) =
          ((outerMarks l).1 || remAt i k (den l).head?, (outerMarks l).2 || remAt i k (den l).getLast?)) := by
  intro h
  have := h (joined [ranged 0 3 false false, ranged 5 8 false false]) 0 3 (by decide) (by decide)
  revert this
  decide

/-- THE PROPERTY'S CLAUSE "an end whose residues were cut off becomes partial", 5' end, with exactly its own
hypothesis — the first residue read by `l` was removed and something of `l` survives — and NO guard on the shape
(`outer5Kept` is not assumed; `expandMarkAbs = false` is): false on the model and on the code, known finding K3M.
Witness `join(1..3,6..8)` minus `[0, 3)` = `join(0^1,3..5)`: the 5' residues `1..3` were cut off, residues `6..8`
survive, and the result carries no `<`.  The refutation is about the clause, not about a guard: what
`expand_del_marks5_partial` / `3_partial` prove is the clause for locations whose first (last) residue-bearing leaf
is a range that KEEPS a residue (`outer5Kept` / `outer3Kept`); a first / last part lying wholly inside the removed
span — "a feature straddling either edge", "a join whose middle part vanishes" of the quantifier — is outside them. -/
theorem expand_del_marks5_cut_full_refuted :
    ¬ (∀ (l : Loc) (i k : Int), wf l = true → 0 < k → expandMarkAbs l i (-k) = false →
        remAt i k (den l).head? = true → den (expand l i (-k)) ≠ [] →
        (outerMarks (expand l i (-k))).1 = true) := by
  intro h
  have := h (joined [ranged 0 3 false false, ranged 5 8 false false]) 0 3 (by decide) (by decide) (by decide)
    (by decide) (by decide)
  revert this
  decide

/-- … and the 3' end: `join(1..3,6..8)` minus `[5, 8)` = `join(1..3,5^6)`, no `>` -/
theorem expand_del_marks3_cut_full_refuted :
    ¬ (∀ (l : Loc) (i k : Int), wf l = true → 0 < k → expandMarkAbs l i (-k) = false →
        remAt i k (den l).getLast? = true → den (expand l i (-k)) ≠ [] →
        (outerMarks (expand l i (-k))).2 = true) := by
  intro h
  have := h (joined [ranged 0 3 false false, ranged 5 8 false false]) 5 3 (by decide) (by decide) (by decide)
    (by decide) (by decide)
  revert this
  decide

/-- **an end whose residues were cut off becomes partial (5' end)**: for every well-formed
location of any kind, arity, nesting and strand, if the first residue-bearing leaf in reading
order is a range that keeps at least one residue (guard `outer5Kept` — it excludes a first part lying
wholly inside the removed span, for which the property's clause FAILS: `expand_del_marks5_cut_full_refuted`,
known finding K3M), then after deleting `[i, i+k)` the 5' marker is set iff it was set before or the first
residue read by `l` (the head of `den l`) was among the removed ones.  Guard: no marker-moving
rule of `Push` fires in a `Join` of the evaluation (`expandMarkAbs`). -/
theorem expand_del_marks5_partial (l : Loc) (i k : Int) (hw : wf l = true) (hk : 0 < k)
    (hg : expandMarkAbs l i (-k) = false) (h5 : outer5Kept l i k = true) :
    (outerMarks (expand l i (-k))).1 = ((outerMarks l).1 || remAt i k (den l).head?) :=
  (expand_del_outer l i k hw hk hg).1 h5

/-- **… (3' end)**: if the last residue-bearing leaf is a range that keeps a residue (guard `outer3Kept`;
outside it `expand_del_marks3_cut_full_refuted`, K3M), the 3'
marker is set afterwards iff it was set or the last residue read by `l` was removed. -/
theorem expand_del_marks3_partial (l : Loc) (i k : Int) (hw : wf l = true) (hk : 0 < k)
    (hg : expandMarkAbs l i (-k) = false) (h3 : outer3Kept l i k = true) :
    (outerMarks (expand l i (-k))).2 = ((outerMarks l).2 || remAt i k (den l).getLast?) :=
  (expand_del_outer l i k hw hk hg).2 h3

/-- … both ends under the hypotheses of `expand_del_partial` (K2 guard) plus duplicate-freeness —
the conditions under which the Go oracle evaluates the two marker clauses -/
theorem expand_del_marks_nodup_partial (l : Loc) (i k : Int) (hw : wf l = true) (hk : 0 < k)
    (hk2 : expandAbs l i (-k) = false) (hnd : (den l).Nodup) :
    (outer5Kept l i k = true →
      (outerMarks (expand l i (-k))).1 = ((outerMarks l).1 || remAt i k (den l).head?)) ∧
    (outer3Kept l i k = true →
      (outerMarks (expand l i (-k))).2 = ((outerMarks l).2 || remAt i k (den l).getLast?)) :=
  expand_del_outer l i k hw hk (expandDelMarkAbs_of_nodup l i k hw hk hk2 hnd)

/-- **when every residue was removed** the result consists of zero-length sites only (every
leaf is a between-site), so it denotes nothing and carries no marker — every kind and arity, no
guard. -/
theorem expand_del_all_removed (l : Loc) (i k : Int) (hw : wf l = true) (hk : 0 < k)
    (hall : filterMapPos (delMap i k) (den l) = []) :
    (leaves (expand l i (-k))).all isBetween = true ∧
    outerMarks (expand l i (-k)) = (false, false) := by
  have h := expand_del_allBetween l i k hw hk hall
  refine ⟨by rw [← allLeaves_eq_all]; exact h, ?_⟩
  rw [outerMarks_eq, marks_of_allBetween _ h]
  rfl

/-- **no resulting location refers to a position outside the new sequence**, with the oracle's
own predicate: every leaf of a location inside `[0, L]` (not inverted) is, after deleting
`[i, i+k)`, inside `[0, L-k]` and not inverted — every kind, nesting and arity, no guard. -/
theorem expand_del_coordsWithin (L i k : Int) (hi : 0 ≤ i) (hk : 0 < k) (hL : i + k ≤ L) (l : Loc)
    (h : coordsWithin l L = true) : coordsWithin (expand l i (-k)) (L - k) = true := by
  rw [coordsWithin_eq] at *
  exact expand_del_within L i k hi hk hL l h

/-- non-vacuity: a complement-strand join read from position 11 down to 2; deleting `[10, 13)`
cuts off the first residues read (the 5' end, a range that keeps residue 9), deleting `[2, 4)` the
last ones; deleting `[0, 20)` leaves sites only -/
example :
    wf (compl (joined [ranged 2 5 false false, point 7, ranged 9 12 false false])) = true ∧
    expandMarkAbs (compl (joined [ranged 2 5 false false, point 7, ranged 9 12 false false])) 10 (-3) = false ∧
    outer5Kept (compl (joined [ranged 2 5 false false, point 7, ranged 9 12 false false])) 10 3 = true ∧
    outer3Kept (compl (joined [ranged 2 5 false false, point 7, ranged 9 12 false false])) 2 2 = true ∧
    remAt 10 3 (den (compl (joined [ranged 2 5 false false, point 7, ranged 9 12 false false]))).head? = true ∧
    outerMarks (compl (joined [ranged 2 5 false false, point 7, ranged 9 12 false false])) = (false, false) ∧
    outerMarks (expand (compl (joined [ranged 2 5 false false, point 7, ranged 9 12 false false])) 10 (-3)) = (true, false) ∧
    outerMarks (expand (compl (joined [ranged 2 5 false false, point 7, ranged 9 12 false false])) 2 (-2)) = (false, true) ∧
    filterMapPos (delMap 0 20) (den (compl (joined [ranged 2 5 false false, point 7, ranged 9 12 false false]))) = [] ∧
    coordsWithin (compl (joined [ranged 2 5 false false, point 7, ranged 9 12 false false])) 13 = true ∧
    expandAbs (compl (joined [ranged 2 5 false false, point 7, ranged 9 12 false false])) 10 (-3) = false ∧
    (den (compl (joined [ranged 2 5 false false, point 7, ranged 9 12 false false]))).Nodup := by
  decide

/-! ### record level: what `gts.Delete` / `gts.Erase` / `gts.Slice` do to every feature -/

/-- **Delete, record level**: every feature survives with unchanged key and qualifiers, and its
location denotes exactly its former residues minus the removed ones, re-based. -/
theorem delete_feature_partial (s : Seq) (i k : Int) (hk : 0 < k) (f : Feature) (hf : f ∈ s.feats)
    (hw : wf f.loc = true) (hk2 : expandAbs f.loc i (-k) = false) :
    ∃ f' ∈ (s.delete i k).feats, f'.key = f.key ∧ f'.props = f.props ∧
      den f'.loc ≼ filterMapPos (delMap i k) (den f.loc) := by
  refine ⟨{ f with loc := f.loc.expand i (-k) }, ?_, rfl, rfl, expand_del_partial f.loc i k hw hk hk2⟩
  rw [delete_feats]; exact List.mem_map_of_mem hf

/-- **Delete, record level (markers and bounds)**: the surviving feature's outer ends become
partial exactly when their residues were cut off (under the oracle's applicability tests), and
all its coordinates lie inside the shortened record. -/
theorem delete_feature_marks_partial (s : Seq) (i k : Int) (hi : 0 ≤ i) (hk : 0 < k)
    (hL : i + k ≤ s.len) (f : Feature) (hf : f ∈ s.feats)
    (hw : wf f.loc = true) (hg : expandMarkAbs f.loc i (-k) = false)
    (hc : coordsWithin f.loc s.len = true) :
    ∃ f' ∈ (s.delete i k).feats, f'.key = f.key ∧ f'.props = f.props ∧
      (outer5Kept f.loc i k = true →
        (outerMarks f'.loc).1 = ((outerMarks f.loc).1 || remAt i k (den f.loc).head?)) ∧
      (outer3Kept f.loc i k = true →
        (outerMarks f'.loc).2 = ((outerMarks f.loc).2 || remAt i k (den f.loc).getLast?)) ∧
      coordsWithin f'.loc (s.len - k) = true := by
  refine ⟨{ f with loc := f.loc.expand i (-k) }, ?_, rfl, rfl,
    expand_del_marks5_partial f.loc i k hw hk hg, expand_del_marks3_partial f.loc i k hw hk hg,
    expand_del_coordsWithin s.len i k hi hk hL f.loc hc⟩
  rw [delete_feats]; exact List.mem_map_of_mem hf

/-- **Erase, record level**: a feature is dropped iff it is not a `source` and lies wholly within
the removed region; every other feature behaves as under Delete. -/
theorem erase_feature_partial (s : Seq) (i k : Int) (hk : 0 < k) (f : Feature) (hf : f ∈ s.feats)
    (hkeep : f.key = "source" ∨ f.loc.within i (i + k) = false)
    (hw : wf f.loc = true) (hk2 : expandAbs f.loc i (-k) = false) :
    ∃ f' ∈ (s.erase i k).feats, f'.key = f.key ∧ f'.props = f.props ∧
      den f'.loc ≼ filterMapPos (delMap i k) (den f.loc) := by
  rw [erase_spec]
  apply delete_feature_partial _ i k hk f _ hw hk2
  simp only [List.mem_filter]
  refine ⟨hf, ?_⟩
  rcases hkeep with h | h <;> simp [h]

/-- … and nothing else is dropped or added -/
theorem erase_feature_count (s : Seq) (i k : Int) :
    (s.erase i k).feats.length =
      (s.feats.filter fun f => f.key = "source" || !(f.loc.within i (i + k))).length := by
  rw [erase_spec, delete_feats]; simp

/-- **Slice (forward window), record level**: a feature survives iff its location overlaps the
window; a surviving feature keeps key and qualifiers and denotes exactly its former residues
inside the window, re-based (`source` additionally loses its partial markers, which does not
change what it denotes). -/
theorem slice_fwd_feature_partial (s : Seq) (a b : Int) (h0 : 0 ≤ a) (hab : a ≤ b) (hbL : b ≤ s.len)
    (f : Feature) (hf : f ∈ s.feats) (hov : f.loc.overlap a b = true)
    (hw : wf f.loc = true) (hpos : ∀ p ∈ den f.loc, 0 ≤ p.1 ∧ p.1 < s.len)
    (g1 : expandAbs f.loc b (b - s.len) = false)
    (g2 : expandAbs (f.loc.expand b (b - s.len)) 0 (-a) = false) :
    ∃ f' ∈ (s.slice a b).feats, f'.key = f.key ∧ f'.props = f.props ∧
      den f'.loc ≼ filterMapPos (winMap a b) (den f.loc) := by
  rw [slice_feats_fwd s a b h0 hab]
  refine ⟨_, List.mem_map_of_mem (List.mem_filter.mpr ⟨hf, hov⟩), rfl, rfl, ?_⟩
  have h := slice_den_partial f.loc a b s.len h0 hab hbL hw hpos g1 g2
  by_cases hs : f.key = "source"
  · simp only [hs, if_true, den_asComplete]; exact h
  · simp only [hs, if_false]; exact h

/-- every feature of a forward slice comes from a feature overlapping the window -/
theorem slice_fwd_feature_origin (s : Seq) (a b : Int) (h0 : 0 ≤ a) (hab : a ≤ b)
    (f' : Feature) (hf' : f' ∈ (s.slice a b).feats) :
    ∃ f ∈ s.feats, f.loc.overlap a b = true ∧ f'.key = f.key ∧ f'.props = f.props := by
  rw [slice_feats_fwd s a b h0 hab] at hf'
  obtain ⟨f, hf, rfl⟩ := List.mem_map.mp hf'
  obtain ⟨hm, ho⟩ := List.mem_filter.mp hf
  exact ⟨f, hm, ho, rfl, rfl⟩

/-- **Slice, wrap-around window** (`end < start`): the record is first rotated so that the window
starts at 0, then cut forward … -/
theorem slice_wrap_eq (s : Seq) (a b : Int) (ha : 0 ≤ a) (hb : 0 ≤ b) (hba : b < a) :
    s.slice a b = Seq.sliceFwd (s.rotate (-a)) 0 (s.len - a + b) := by
  unfold Seq.slice
  simp only [show ¬ a < 0 by omega, show ¬ b < 0 by omega, hba, if_false, if_true]

/-- … so its residues are `seq[start:] ++ seq[:end]` -/
theorem slice_bytes_wrap (s : Seq) (a b : Int) (hb : 0 ≤ b) (hba : b < a) (haL : a ≤ s.len) :
    (s.slice a b).bytes = s.bytes.drop a.toNat ++ s.bytes.take b.toNat := by
  have hL : 0 < s.len := by omega
  rw [slice_wrap_eq s a b (by omega) hb hba]
  unfold Seq.sliceFwd
  simp only [C04.rotate_bytes_eq, C04.rotN_eq_emod _ _ hL]
  have hlen : (s.bytes.length : Int) = s.len := rfl
  by_cases haeq : a = s.len
  · subst haeq
    have : (-s.len) % s.len = 0 := by simp
    rw [this]
    simp only [Int.sub_zero, Int.toNat_zero, List.drop_zero]
    have h1 : s.len.toNat = s.bytes.length := by omega
    rw [h1]
    simp
  · have hr : (-a) % s.len = s.len - a := by
      have : -a = (s.len - a) + (-1) * s.len := by omega
      rw [this, Int.add_mul_emod_self_right, Int.emod_eq_of_lt (by omega) (by omega)]
    rw [hr]
    have e1 : (s.len - (s.len - a)).toNat = a.toNat := by congr 1; omega
    rw [e1]
    rw [Int.toNat_zero, List.drop_zero, List.take_append]
    have hdl : (List.drop a.toNat s.bytes).length = s.bytes.length - a.toNat := by simp
    have e2 : (s.len - a + b - 0).toNat - (List.drop a.toNat s.bytes).length = b.toNat := by
      rw [hdl]; omega
    rw [e2, List.take_of_length_le (by rw [hdl]; omega), List.take_take]
    congr 2
    omega

/-- the rotated record has the same length -/
theorem rotate_len (s : Seq) (n : Int) (hL : 0 < s.len) : (s.rotate n).len = s.len := by
  have h := C04.rotate_bytes_eq s n
  unfold Seq.len at *
  rw [h]
  have hr : 0 ≤ C04.rotN n ↑s.bytes.length := by
    rw [C04.rotN_eq_emod n _ hL]; exact Int.emod_nonneg _ (by omega)
  have hr2 : C04.rotN n ↑s.bytes.length < ↑s.bytes.length := by
    rw [C04.rotN_eq_emod n _ hL]; exact Int.emod_lt_of_pos _ hL
  simp only [List.length_append, List.length_drop, List.length_take]
  omega

/-- **Slice (wrap-around window), record level**: with `0 ≤ b < a ≤ L` the window is
`[a, L) ++ [0, b)`.  A feature whose rotated location `l'` (rotation by `-a`, C04) overlaps
`[0, L-a+b)` survives with unchanged key and qualifiers and denotes exactly its former residues
inside the window, in window coordinates: first the rotation re-maps `x ↦ (x - a) mod L`, then the
forward window `[0, L-a+b)` is cut.  Guards: the domain and K2 guards of the two steps. -/
theorem slice_wrap_feature_partial (s : Seq) (a b : Int) (hb : 0 ≤ b) (hba : b < a) (haL : a ≤ s.len)
    (f : Feature) (hf : f ∈ s.feats)
    (hw : wf f.loc = true) (hnn : nonneg f.loc = true)
    (hok : normOk s.len (expand f.loc 0 (C04.rotN (-a) s.len)) = true)
    (h1 : expandAbs f.loc 0 (C04.rotN (-a) s.len) = false)
    (h2 : normalizeAbs (expand f.loc 0 (C04.rotN (-a) s.len)) s.len = false)
    (hov : ((f.loc.expand 0 (C04.rotN (-a) s.len)).normalize s.len).overlap 0 (s.len - a + b) = true)
    (g1 : expandAbs ((f.loc.expand 0 (C04.rotN (-a) s.len)).normalize s.len)
            (s.len - a + b) (s.len - a + b - s.len) = false)
    (g2 : expandAbs (((f.loc.expand 0 (C04.rotN (-a) s.len)).normalize s.len).expand
            (s.len - a + b) (s.len - a + b - s.len)) 0 (-0) = false) :
    ∃ f' ∈ (s.slice a b).feats, f'.key = f.key ∧ f'.props = f.props ∧
      den f'.loc ≼ filterMapPos (winMap 0 (s.len - a + b)) (mapPos (rotMap (-a) s.len) (den f.loc)) := by
  have hL : 0 < s.len := by omega
  obtain ⟨fr, hfr, hk, hp, hden⟩ := C04.rotate_feature_partial s (-a) hL f hf hw hnn hok h1 h2
  -- the rotated feature is literally the re-located one
  have hm : ({ f with loc := (f.loc.expand 0 (C04.rotN (-a) s.len)).normalize s.len } : Feature)
      ∈ (s.rotate (-a)).feats := mem_of_perm_map (C04.rotate_table_perm s (-a)) hf
  have hr : 0 ≤ C04.rotN (-a) s.len := by
    rw [C04.rotN_eq_emod _ _ hL]; exact Int.emod_nonneg _ (by omega)
  have hwf' : wf ((f.loc.expand 0 (C04.rotN (-a) s.len)).normalize s.len) = true :=
    (normalize_mod _ s.len hL ((expand_ins f.loc 0 _ hw hr).2) hok).2
  have hd' := C04.rotate_den_partial f.loc (C04.rotN (-a) s.len) s.len hL hr hw hnn hok h1 h2
  have e : mapPos (rotMap (C04.rotN (-a) s.len) s.len) (den f.loc) = mapPos (rotMap (-a) s.len) (den f.loc) := by
    rw [C04.rotN_eq_emod _ _ hL, C04.rotMap_emod]
  rw [e] at hd'
  have hpos : ∀ p ∈ den ((f.loc.expand 0 (C04.rotN (-a) s.len)).normalize s.len),
      0 ≤ p.1 ∧ p.1 < (s.rotate (-a)).len := by
    intro p hp'
    have := hd'.1.subset hp'
    simp only [mapPos, List.mem_map] at this
    obtain ⟨q, _, rfl⟩ := this
    rw [rotate_len s (-a) hL]
    exact ⟨Int.emod_nonneg _ (by omega), Int.emod_lt_of_pos _ hL⟩
  rw [slice_wrap_eq s a b (by omega) hb hba]
  have hlen := rotate_len s (-a) hL
  have key := slice_fwd_feature_partial (s.rotate (-a)) 0 (s.len - a + b) (by omega) (by omega)
    (by rw [hlen]; omega) _ hm hov hwf' hpos (by rw [hlen]; exact g1) (by rw [hlen]; exact g2)
  obtain ⟨f', hf', k1, k2, k3⟩ := key
  refine ⟨f', ?_, k1, k2, ?_⟩
  · -- `slice` on a forward window `[0, W)` is `sliceFwd`
    have : (s.rotate (-a)).slice 0 (s.len - a + b) = Seq.sliceFwd (s.rotate (-a)) 0 (s.len - a + b) := by
      unfold Seq.slice
      simp only [show ¬ (0:Int) < 0 by omega, show ¬ (s.len - a + b) < 0 by omega, if_false]
    rw [← this]; exact hf'
  · exact k3.trans (filterMapPos_refines _ hd')

/-- non-vacuity of `slice_wrap_feature_partial`: a gene `3..9` on a 10-residue record, window
`Slice(seq, 8, 4)` — the feature crosses the new origin after the rotation and is cut by the window -/
example :
    let s : Seq := ⟨[⟨"gene", ranged 2 9 false false, []⟩], [97, 99, 103, 116, 97, 99, 103, 116, 97, 99]⟩
    let l := ranged 2 9 false false
    wf l = true ∧ nonneg l = true ∧ normOk s.len (expand l 0 (C04.rotN (-8) s.len)) = true ∧
    expandAbs l 0 (C04.rotN (-8) s.len) = false ∧
    normalizeAbs (expand l 0 (C04.rotN (-8) s.len)) s.len = false ∧
    ((l.expand 0 (C04.rotN (-8) s.len)).normalize s.len).overlap 0 (s.len - 8 + 4) = true ∧
    expandAbs ((l.expand 0 (C04.rotN (-8) s.len)).normalize s.len) (s.len - 8 + 4) (s.len - 8 + 4 - s.len) = false ∧
    expandAbs (((l.expand 0 (C04.rotN (-8) s.len)).normalize s.len).expand (s.len - 8 + 4) (s.len - 8 + 4 - s.len)) 0 (-0) = false := by
  decide

/-! ### the wrap-around window as ONE position map; negative indices; where the features come from

`wrapMap a b L` (`Gts/Lemmas/SliceWrap.lean`): a residue `x` inside `[a, L) ++ [0, b)` moves to
`(x - a) mod L`, every other residue is cut.  `Bridge.sliceNorm L x` is what `Slice` makes of an
index first (`if x < 0 { x += L }`). -/

/-- the window map, piecewise: the tail `[a, L)` comes first (`x - a`), the head `[0, b)` behind it
(`x + (L - a)`), in the order of the residues `seq[a:] ++ seq[:b]` of `slice_bytes_wrap` -/
theorem slice_wrap_map (a b L x : Int) (hb : 0 ≤ b) (hba : b < a) (haL : a ≤ L) :
    wrapMap a b L x =
      if a ≤ x ∧ x < L then some (x - a) else if 0 ≤ x ∧ x < b then some (x + (L - a)) else none :=
  wrapMap_cases a b L x hb hba haL

/-- FULL STATEMENT of the wrap-around feature law (no K2 guard; false on the model and on the code
through known finding K2 in the `Join` of the rotation step).  Witness: the feature
`join(3..4,5)` on ten residues, window `Slice(seq, 8, 5)` = residues `9,10,1..5`: the law demands the
window positions `4,5,6` (0-based), the code yields `5..6` — the point behind the range is dropped. -/
theorem slice_wrap_feature_full_refuted :
    ¬ (∀ (s : Seq) (a b : Int), 0 ≤ b → b < a → a ≤ s.len → ∀ f ∈ s.feats,
        wf f.loc = true → nonneg f.loc = true → denIn s.len (den f.loc) →
        normOk s.len (expand f.loc 0 (C04.rotN (-a) s.len)) = true →
        ((f.loc.expand 0 (C04.rotN (-a) s.len)).normalize s.len).overlap 0 (s.len - a + b) = true →
        ∃ f' ∈ (s.slice a b).feats, f'.key = f.key ∧ f'.props = f.props ∧
          den f'.loc ≼ filterMapPos (wrapMap a b s.len) (den f.loc)) := by
  intro h
  obtain ⟨f', hf', _, _, hden⟩ :=
    h ⟨[⟨"gene", joined [ranged 2 4 false false, point 4], []⟩], [97, 99, 103, 116, 97, 99, 103, 116, 97, 99]⟩
      8 5 (by decide) (by decide) (by decide) _ (List.mem_singleton.mpr rfl)
      (by decide) (by decide) (by decide) (by decide) (by decide)
  have hs : (Seq.slice ⟨[⟨"gene", joined [ranged 2 4 false false, point 4], []⟩],
      [97, 99, 103, 116, 97, 99, 103, 116, 97, 99]⟩ 8 5).feats = [⟨"gene", ranged 4 6 false false, []⟩] := by
    rfl
  rw [hs] at hf'
  obtain rfl := List.mem_singleton.mp hf'
  have := hden.2 (6, false) (by decide)
  revert this
  decide

/-- **Slice (wrap-around window), every surviving feature in window coordinates**: with
`0 ≤ b < a ≤ L` the window is `[a, L) ++ [0, b)`.  A feature inside the record whose rotated location
overlaps `[0, L-a+b)` is a feature of the slice with unchanged key and qualifiers, and its new
location denotes exactly its former residues inside the window, each at `(x - a) mod L`, in the same
order and on the same strands (`≼`: a residue read twice possibly once) — `wrapMap` is the rotation
of C04 followed by the forward cut.  Guards as in `slice_wrap_feature_partial`
(`C04.rotate_feature_partial` ∘ `slice_fwd_feature_partial`). -/
theorem slice_wrap_den_partial (s : Seq) (a b : Int) (hb : 0 ≤ b) (hba : b < a) (haL : a ≤ s.len)
    (f : Feature) (hf : f ∈ s.feats)
    (hw : wf f.loc = true) (hnn : nonneg f.loc = true) (hin : denIn s.len (den f.loc))
    (hok : normOk s.len (expand f.loc 0 (C04.rotN (-a) s.len)) = true)
    (h1 : expandAbs f.loc 0 (C04.rotN (-a) s.len) = false)
    (h2 : normalizeAbs (expand f.loc 0 (C04.rotN (-a) s.len)) s.len = false)
    (hov : ((f.loc.expand 0 (C04.rotN (-a) s.len)).normalize s.len).overlap 0 (s.len - a + b) = true)
    (g1 : expandAbs ((f.loc.expand 0 (C04.rotN (-a) s.len)).normalize s.len)
            (s.len - a + b) (s.len - a + b - s.len) = false)
    (g2 : expandAbs (((f.loc.expand 0 (C04.rotN (-a) s.len)).normalize s.len).expand
            (s.len - a + b) (s.len - a + b - s.len)) 0 (-0) = false) :
    ∃ f' ∈ (s.slice a b).feats, f'.key = f.key ∧ f'.props = f.props ∧
      den f'.loc ≼ filterMapPos (wrapMap a b s.len) (den f.loc) := by
  have h := slice_wrap_feature_partial s a b hb hba haL f hf hw hnn hok h1 h2 hov g1 g2
  rwa [filterMapPos_wrap a b s.len hb hba haL (den f.loc) hin] at h

/-- **a feature with a residue inside the wrap-around window survives**: the overlap test of the
code (on the rotated location) is implied by the meaning-level condition "some residue of the feature
lies in `[a, L) ++ [0, b)`", so under the rotation guards alone every such feature is kept -/
theorem slice_wrap_survives_partial (s : Seq) (a b : Int) (hb : 0 ≤ b) (hba : b < a) (haL : a ≤ s.len)
    (f : Feature) (hw : wf f.loc = true) (hnn : nonneg f.loc = true) (hin : denIn s.len (den f.loc))
    (hok : normOk s.len (expand f.loc 0 (C04.rotN (-a) s.len)) = true)
    (h1 : expandAbs f.loc 0 (C04.rotN (-a) s.len) = false)
    (h2 : normalizeAbs (expand f.loc 0 (C04.rotN (-a) s.len)) s.len = false)
    (p : Pos) (hp : p ∈ den f.loc) (hwin : (a ≤ p.1 ∧ p.1 < s.len) ∨ (0 ≤ p.1 ∧ p.1 < b)) :
    ((f.loc.expand 0 (C04.rotN (-a) s.len)).normalize s.len).overlap 0 (s.len - a + b) = true := by
  have hL : 0 < s.len := by omega
  have hr : 0 ≤ C04.rotN (-a) s.len := by
    rw [C04.rotN_eq_emod _ _ hL]; exact Int.emod_nonneg _ (by omega)
  have hwf' : wf ((f.loc.expand 0 (C04.rotN (-a) s.len)).normalize s.len) = true :=
    (normalize_mod _ s.len hL ((expand_ins f.loc 0 _ hw hr).2) hok).2
  have hd' := C04.rotate_den_partial f.loc (C04.rotN (-a) s.len) s.len hL hr hw hnn hok h1 h2
  have e : mapPos (rotMap (C04.rotN (-a) s.len) s.len) (den f.loc) = mapPos (rotMap (-a) s.len) (den f.loc) := by
    rw [C04.rotN_eq_emod _ _ hL, C04.rotMap_emod]
  rw [e] at hd'
  have hm : (rotMap (-a) s.len p.1, p.2) ∈ den ((f.loc.expand 0 (C04.rotN (-a) s.len)).normalize s.len) := by
    apply hd'.2
    simp only [mapPos, List.mem_map]
    exact ⟨p, hp, rfl⟩
  have hwm := winMap_rotMap a b s.len p.1 hb hba haL (hin p hp).1 (hin p hp).2
  have hsome : wrapMap a b s.len p.1 = some ((p.1 - a) % s.len) := by
    unfold wrapMap; rw [if_pos hwin]
  rw [hsome] at hwm
  unfold winMap at hwm
  split at hwm
  · rename_i hc
    exact overlap_of_mem_den _ 0 (s.len - a + b) hwf' _ hm hc.1 hc.2
  · cases hwm

/-- non-vacuity of `slice_wrap_survives_partial`: residue 9 of `complement(join(<2..3,6,9..10))` lies in
the tail `[8, 10)` of the window `Slice(seq, 8, 4)` (the other hypotheses: see the example below) -/
example : ((9, true) : Pos) ∈ den (compl (joined [ranged 1 3 true false, point 5, ranged 8 10 false false])) ∧
    (((8 : Int) ≤ 9 ∧ (9 : Int) < 10) ∨ ((0 : Int) ≤ 9 ∧ (9 : Int) < 4)) := by
  decide

/-- … and exactly those residues when the feature reads none twice -/
theorem slice_wrap_den_nodup_partial (s : Seq) (a b : Int) (hb : 0 ≤ b) (hba : b < a) (haL : a ≤ s.len)
    (f : Feature) (hf : f ∈ s.feats)
    (hw : wf f.loc = true) (hnn : nonneg f.loc = true) (hin : denIn s.len (den f.loc))
    (hnd : (filterMapPos (wrapMap a b s.len) (den f.loc)).Nodup)
    (hok : normOk s.len (expand f.loc 0 (C04.rotN (-a) s.len)) = true)
    (h1 : expandAbs f.loc 0 (C04.rotN (-a) s.len) = false)
    (h2 : normalizeAbs (expand f.loc 0 (C04.rotN (-a) s.len)) s.len = false)
    (hov : ((f.loc.expand 0 (C04.rotN (-a) s.len)).normalize s.len).overlap 0 (s.len - a + b) = true)
    (g1 : expandAbs ((f.loc.expand 0 (C04.rotN (-a) s.len)).normalize s.len)
            (s.len - a + b) (s.len - a + b - s.len) = false)
    (g2 : expandAbs (((f.loc.expand 0 (C04.rotN (-a) s.len)).normalize s.len).expand
            (s.len - a + b) (s.len - a + b - s.len)) 0 (-0) = false) :
    ∃ f' ∈ (s.slice a b).feats, f'.key = f.key ∧ f'.props = f.props ∧
      den f'.loc = filterMapPos (wrapMap a b s.len) (den f.loc) := by
  obtain ⟨f', m, k, p, d⟩ := slice_wrap_den_partial s a b hb hba haL f hf hw hnn hin hok h1 h2 hov g1 g2
  exact ⟨f', m, k, p, d.eq_of_nodup hnd⟩

/-- **where the features of a wrap-around slice come from**: every feature of `Slice(seq, a, b)` is a
feature of the record whose rotated location overlaps `[0, L-a+b)`, with its key and qualifiers,
re-located by the rotation (`Expand(0, n)`, `Normalize(L)`), the cut (`Expand(W, W-L)`, `Expand(0, 0)`)
and — `source` only — `asComplete` -/
theorem slice_wrap_feature_origin (s : Seq) (a b : Int) (hb : 0 ≤ b) (hba : b < a)
    (f' : Feature) (hf' : f' ∈ (s.slice a b).feats) :
    ∃ f ∈ s.feats,
      ((f.loc.expand 0 (C04.rotN (-a) s.len)).normalize s.len).overlap 0 (s.len - a + b) = true ∧
      f'.key = f.key ∧ f'.props = f.props ∧
      f'.loc = (if f.key = "source" then Loc.asComplete else id)
        (sliceLoc ((f.loc.expand 0 (C04.rotN (-a) s.len)).normalize s.len) 0 (s.len - a + b)
          (s.rotate (-a)).len) := by
  rw [slice_wrap_eq s a b (by omega) hb hba] at hf'
  unfold Seq.sliceFwd at hf'
  obtain ⟨fr, hfr, rfl⟩ := List.mem_map.mp hf'
  obtain ⟨hm, ho⟩ := List.mem_filter.mp hfr
  have := (C04.rotate_table_perm s (-a)).subset hm
  obtain ⟨f, hf, rfl⟩ := List.mem_map.mp this
  refine ⟨f, hf, ho, rfl, rfl, ?_⟩
  by_cases hs : f.key = "source" <;> simp [hs, sliceLoc]

/-- … and there are exactly as many as features whose rotated location overlaps the window -/
theorem slice_wrap_feature_count (s : Seq) (a b : Int) (hb : 0 ≤ b) (hba : b < a) :
    (s.slice a b).feats.length =
      (s.feats.filter fun f =>
        ((f.loc.expand 0 (C04.rotN (-a) s.len)).normalize s.len).overlap 0 (s.len - a + b)).length := by
  rw [slice_wrap_eq s a b (by omega) hb hba]
  unfold Seq.sliceFwd
  simp only [List.length_map]
  rw [((C04.rotate_table_perm s (-a)).filter _).length_eq, List.filter_map, List.length_map]
  rfl

/-! ### the full-length feature (`source 1..L`) under a wrap-around window

`normOk` keeps the whole-sequence range out of every `slice_wrap_*_partial` theorem above (it fails for
every rotation amount, see `C04.rotate_full_length`).  What the code does with it: the rotation leaves it
`[0, L)` (C04), the forward cut `[0, W)`, `W = L - a + b`, clips it to the whole window. -/

/-- the forward cut `Expand(W, W-L)`, `Expand(0, -0)` of the whole-sequence range is the whole window
`[0, W)`, the 5' marker kept, the 3' marker set (`0 < W < L`) -/
theorem cut_full_length (p5 p3 : Bool) (W L : Int) (h0 : 0 < W) (hWL : W < L) :
    ((ranged 0 L p5 p3).expand W (W - L)).expand 0 (-0) = ranged 0 W p5 true := by
  have hn : ¬ (W - L = 0) := by omega
  have f1 : ¬ (W - L < 0 ∧ W ≤ 0 ∧ 0 < W - (W - L)) := by omega
  have t2 : (W - L < 0 ∧ W < L ∧ L ≤ W - (W - L)) := by omega
  have c1 : ¬ ((0 ≤ W - L ∧ W ≤ 0) ∨ (W - L < 0 ∧ W < 0)) := by omega
  have c2 : (0 ≤ W - L ∧ W < L) ∨ (W - L < 0 ∧ W ≤ L) := by omega
  have g2 : gmax W (L + (W - L)) = W := by unfold gmax; split <;> omega
  simp only [expand, rangedExpand, if_neg hn, if_neg f1, if_pos t2, if_neg c1, if_pos c2, g2]
  rw [if_neg (by omega)]
  simp [expand, rangedExpand]

/-- **Slice (wrap-around window), the full-length feature**: with `0 ≤ b < a ≤ L` and a non-empty window
(`W = L - a + b > 0`) a feature whose location is the whole-sequence range (either strand) is a feature of
the slice, with unchanged key and qualifiers, located at the WHOLE window `[0, W)` (same strand): `source`
(the case of every GenBank record) completed — no partial marker; any other key with its 5' marker kept and
the 3' marker set.  No K2 / `normOk` guard.  So the new location denotes exactly the residues of the window
(the same SET as the feature's former residues inside `[a,L) ++ [0,b)` at `(x - a) mod L`), read from
window position 0: the reading start is lost as in `C04.rotate_full_length_same_set`, and for a non-`source`
full-length feature the marker goes to the 3' end whichever residues were cut (with `b = 0` the residues cut
off, `[0, a)`, are the 5' ones of the original reading) — a consequence of "a full-length feature stays
full-length" in the rotation step, noted here, not a recorded finding. -/
theorem slice_wrap_full_length_feature (s : Seq) (a b : Int) (hb : 0 ≤ b) (hba : b < a) (haL : a ≤ s.len)
    (hW : 0 < s.len - a + b) (f : Feature) (hf : f ∈ s.feats) (p5 p3 : Bool)
    (hloc : f.loc = ranged 0 s.len p5 p3 ∨ f.loc = compl (ranged 0 s.len p5 p3)) :
    ∃ f' ∈ (s.slice a b).feats, f'.key = f.key ∧ f'.props = f.props ∧
      f'.loc = (if f.key = "source" then Loc.asComplete else id)
        (match f.loc with
          | compl _ => compl (ranged 0 (s.len - a + b) p5 true)
          | _ => ranged 0 (s.len - a + b) p5 true) := by
  have hL : 0 < s.len := by omega
  have hfl : C04.fullLength s.len f.loc = true := by
    rcases hloc with h | h <;> rw [h] <;> simp [C04.fullLength]
  have hm := C04.rotate_full_length_feature s (-a) hL f hf hfl
  rw [slice_wrap_eq s a b (by omega) hb hba]
  unfold Seq.sliceFwd
  have hlen := rotate_len s (-a) hL
  have hcut := cut_full_length p5 p3 (s.len - a + b) s.len hW (by omega)
  have ro : rangeOverlap 0 s.len 0 (s.len - a + b) = true := by
    unfold rangeOverlap
    rw [if_neg (by omega), if_neg (by omega)]
    simp only [Bool.and_eq_true, decide_eq_true_eq]; omega
  have hov : f.loc.overlap 0 (s.len - a + b) = true := by
    rcases hloc with h | h <;> rw [h] <;> simp only [overlap] <;> exact ro
  refine ⟨_, List.mem_map_of_mem (List.mem_filter.mpr ⟨hm, hov⟩), rfl, rfl, ?_⟩
  simp only [hlen]
  rcases hloc with h | h
  · rw [h, hcut]; by_cases hs : f.key = "source" <;> simp [hs]
  · have hcut' : ((compl (ranged 0 s.len p5 p3)).expand (s.len - a + b) (s.len - a + b - s.len)).expand 0 (-0)
        = compl (ranged 0 (s.len - a + b) p5 true) := by
      show compl (((ranged 0 s.len p5 p3).expand (s.len - a + b) (s.len - a + b - s.len)).expand 0 (-0)) = _
      rw [hcut]
    rw [h, hcut']; by_cases hs : f.key = "source" <;> simp [hs]

/-- non-vacuity: `source 1..10` and a complement-strand full-length `misc_feature`, window `Slice(seq, 8, 4)` -/
example :
    let s : Seq := ⟨[⟨"source", ranged 0 10 false false, []⟩, ⟨"misc_feature", compl (ranged 0 10 true false), []⟩],
      [97, 99, 103, 116, 97, 99, 103, 116, 97, 99]⟩
    (0 : Int) ≤ 4 ∧ (4 : Int) < 8 ∧ 8 ≤ s.len ∧ 0 < s.len - 8 + 4 ∧
    normOk s.len (expand (ranged 0 10 false false) 0 (C04.rotN (-8) s.len)) = false ∧
    (s.slice 8 4).feats.map (fun f => (f.key, f.loc.den.map (·.1))) =
      [("source", [0, 1, 2, 3, 4, 5]), ("misc_feature", [5, 4, 3, 2, 1, 0])] := by decide

/-- FULL STATEMENT of "no resulting location refers to a position outside the new sequence" for a WRAP-AROUND
window without a proviso on ambiguous spans (false on the model and on the code; confirmed on the real code by
`seq.slice … (A 6 9) … 8 4`, which answers `(A 6 1)`): an ambiguous span across the window START — `one-of(7.9)` on
ten residues, window `Slice(seq, 8, 4)` = residues `9,10,1..4` — comes back INVERTED, `Ambiguous{6, 1}`, printed
`7.1` on a six-residue record.  It is the rotation step's `Ambiguous.Normalize` (C04 `rotate_coords_full_refuted`;
C04's quantifier carves the shape out: "ambiguous spans only when they do not cross the new origin"); C03's
quantifier has no such carve-out, so by C03's words this is a violation: KNOWN FINDING K3A (`known_findings.json`,
witness `seq.slice … (A 6 9) … 8 4`).  Since the audit follow-up `genFeature` (harness/gen.go) draws Ambiguous
features at sequence level; the wrap-around oracle of `propC03` skips the denotation law for exactly the shape
`slice_wrap_ambiguous_guard` below names (counted) and attributes the inverted span the code returns to K3A;
`C04.rotate_ambiguous_across_origin` shows that EVERY such span comes out of the rotation step inverted. -/
theorem slice_wrap_ambiguous_coords_full_refuted :
    ¬ (∀ (s : Seq) (a b : Int), 0 ≤ b → b < a → a ≤ s.len →
        (∀ f ∈ s.feats, wf f.loc = true ∧ coordsWithin f.loc s.len = true) →
        ∀ f' ∈ (s.slice a b).feats, coordsWithin f'.loc (s.slice a b).len = true) := by
  intro h
  have := h ⟨[⟨"misc", ambiguous 6 9, []⟩], [97, 99, 103, 116, 97, 99, 103, 116, 97, 99]⟩ 8 4
    (by decide) (by decide) (by decide) (by decide) ⟨"misc", ambiguous 6 1, []⟩
    (by
      have hs : (Seq.slice ⟨[⟨"misc", ambiguous 6 9, []⟩], [97, 99, 103, 116, 97, 99, 103, 116, 97, 99]⟩ 8 4).feats
          = [⟨"misc", ambiguous 6 1, []⟩] := by rfl
      rw [hs]; exact List.mem_singleton.mpr rfl)
  revert this
  decide

/-- **the `normOk` guard of the wrap-around theorems on an ambiguous span, in the property's words**: for an
ambiguous span `[s, e)` inside the record (`0 ≤ s < e ≤ L`, shorter than `L`) and a wrap-around window starting at
`0 < a ≤ L`, the guard `normOk L (expand · 0 (rotN (-a) L))` of `slice_wrap_feature_partial` /
`slice_wrap_den_partial` / `slice_wrap_survives_partial` / `slice_wrap_den_nodup_partial` /
`slice_wrap_neg_den_partial` holds EXACTLY when the span does not lie across the window start (`¬ (s < a < e)`):
every other ambiguous span is inside the theorems' quantifier, the excluded shape is exactly known finding K3A. -/
theorem slice_wrap_ambiguous_guard (s e a L : Int) (hs : 0 ≤ s) (hse : s < e) (heL : e ≤ L) (hlen : e - s < L)
    (ha : 0 < a) (haL : a ≤ L) :
    normOk L (expand (ambiguous s e) 0 (C04.rotN (-a) L)) = true ↔ ¬ (s < a ∧ a < e) := by
  have hL : 0 < L := by omega
  have hr : C04.rotN (-a) L = L - a := by
    rw [C04.rotN_eq_emod _ _ hL, mod_window L (-L) (-a) (-1) (by omega) (by omega) (by omega)]; omega
  rw [hr, C04.normOk_ambiguous_iff s e (L - a) L hs hse heL hlen (by omega) (by omega)]
  omega

/-- non-vacuity of `slice_wrap_ambiguous_guard`, and of `slice_wrap_feature_partial` ON A FEATURE WITH AN AMBIGUOUS
SPAN: `order(one-of(3.6), 9..10)` on ten residues, window `Slice(seq, 8, 4)` = residues `9,10,1..4`; the ambiguous
span is not across the window start 8, every guard holds, and the sliced feature denotes residues `9` (window
position 1) and `2, 3` (window positions 4, 5) — the span is cut by the window END, which no guard excludes -/
example :
    let s : Seq := ⟨[⟨"gene", ordered [ambiguous 2 6, ranged 9 10 false false], []⟩], [97, 99, 103, 116, 97, 99, 103, 116, 97, 99]⟩
    let l := ordered [ambiguous 2 6, ranged 9 10 false false]
    ¬ ((2 : Int) < 8 ∧ (8 : Int) < 6) ∧
    wf l = true ∧ nonneg l = true ∧ normOk s.len (expand l 0 (C04.rotN (-8) s.len)) = true ∧
    expandAbs l 0 (C04.rotN (-8) s.len) = false ∧
    normalizeAbs (expand l 0 (C04.rotN (-8) s.len)) s.len = false ∧
    ((l.expand 0 (C04.rotN (-8) s.len)).normalize s.len).overlap 0 (s.len - 8 + 4) = true ∧
    expandAbs ((l.expand 0 (C04.rotN (-8) s.len)).normalize s.len) (s.len - 8 + 4) (s.len - 8 + 4 - s.len) = false ∧
    expandAbs (((l.expand 0 (C04.rotN (-8) s.len)).normalize s.len).expand (s.len - 8 + 4) (s.len - 8 + 4 - s.len)) 0 (-0) = false ∧
    (s.slice 8 4).feats.map (fun f => (f.key, f.loc.den.map (·.1))) = [("gene", [4, 5, 1])] := by
  decide

/-- **negative indices, as the code treats them**: `Slice` first adds the length to a negative
`start` / `end` (once); from `-L` upwards that is all the sign does -/
theorem slice_neg_norm (s : Seq) (a b : Int) (ha : 0 ≤ Bridge.sliceNorm s.len a)
    (hb : 0 ≤ Bridge.sliceNorm s.len b) :
    s.slice a b = s.slice (Bridge.sliceNorm s.len a) (Bridge.sliceNorm s.len b) := by
  unfold Bridge.sliceNorm at *
  generalize hA : (if a < 0 then a + s.len else a) = A at *
  generalize hB : (if b < 0 then b + s.len else b) = B at *
  unfold Seq.slice
  simp only [hA, hB, if_neg (show ¬ A < 0 by omega), if_neg (show ¬ B < 0 by omega)]

/-- wrap-around window given by indices of any sign: with `A`, `B` the normalised indices and
`0 ≤ B < A ≤ L` the residues are `seq[A:] ++ seq[:B]` — `Slice(seq, -3, 2)` on ten residues is
`seq[7:] ++ seq[:2]`, `Slice(seq, 5, -8)` is `seq[5:] ++ seq[:2]` -/
theorem slice_wrap_neg_bytes (s : Seq) (a b A B : Int) (hA : Bridge.sliceNorm s.len a = A)
    (hB : Bridge.sliceNorm s.len b = B) (hB0 : 0 ≤ B) (hBA : B < A) (hAL : A ≤ s.len) :
    (s.slice a b).bytes = s.bytes.drop A.toNat ++ s.bytes.take B.toNat := by
  subst hA hB
  rw [slice_neg_norm s a b (by omega) hB0]
  exact slice_bytes_wrap s _ _ hB0 hBA hAL

/-- … and the feature law of `slice_wrap_den_partial` holds verbatim for the normalised indices -/
theorem slice_wrap_neg_den_partial (s : Seq) (a b A B : Int) (hA : Bridge.sliceNorm s.len a = A)
    (hB : Bridge.sliceNorm s.len b = B) (hB0 : 0 ≤ B) (hBA : B < A) (hAL : A ≤ s.len)
    (f : Feature) (hf : f ∈ s.feats)
    (hw : wf f.loc = true) (hnn : nonneg f.loc = true) (hin : denIn s.len (den f.loc))
    (hok : normOk s.len (expand f.loc 0 (C04.rotN (-A) s.len)) = true)
    (h1 : expandAbs f.loc 0 (C04.rotN (-A) s.len) = false)
    (h2 : normalizeAbs (expand f.loc 0 (C04.rotN (-A) s.len)) s.len = false)
    (hov : ((f.loc.expand 0 (C04.rotN (-A) s.len)).normalize s.len).overlap 0 (s.len - A + B) = true)
    (g1 : expandAbs ((f.loc.expand 0 (C04.rotN (-A) s.len)).normalize s.len)
            (s.len - A + B) (s.len - A + B - s.len) = false)
    (g2 : expandAbs (((f.loc.expand 0 (C04.rotN (-A) s.len)).normalize s.len).expand
            (s.len - A + B) (s.len - A + B - s.len)) 0 (-0) = false) :
    ∃ f' ∈ (s.slice a b).feats, f'.key = f.key ∧ f'.props = f.props ∧
      den f'.loc ≼ filterMapPos (wrapMap A B s.len) (den f.loc) := by
  subst hA hB
  rw [slice_neg_norm s a b (by omega) hB0]
  exact slice_wrap_den_partial s _ _ hB0 hBA hAL f hf hw hnn hin hok h1 h2 hov g1 g2

/-- non-vacuity: a complement-strand join `complement(join(<2..3,6,9..10))` on a 10-residue record, window
`Slice(seq, -2, 4)` = `Slice(seq, 8, 4)` = residues `9,10,1,2,3,4`: the last part wraps to the front,
the point is cut; and the wrap-around map itself -/
example :
    let s : Seq := ⟨[⟨"CDS", compl (joined [ranged 1 3 true false, point 5, ranged 8 10 false false]), []⟩],
      [97, 99, 103, 116, 97, 99, 103, 116, 97, 99]⟩
    let l := compl (joined [ranged 1 3 true false, point 5, ranged 8 10 false false])
    Bridge.sliceNorm s.len (-2) = 8 ∧ Bridge.sliceNorm s.len 4 = 4 ∧
    wf l = true ∧ nonneg l = true ∧ denIn s.len (den l) ∧
    normOk s.len (expand l 0 (C04.rotN (-8) s.len)) = true ∧
    expandAbs l 0 (C04.rotN (-8) s.len) = false ∧
    normalizeAbs (expand l 0 (C04.rotN (-8) s.len)) s.len = false ∧
    ((l.expand 0 (C04.rotN (-8) s.len)).normalize s.len).overlap 0 (s.len - 8 + 4) = true ∧
    expandAbs ((l.expand 0 (C04.rotN (-8) s.len)).normalize s.len) (s.len - 8 + 4) (s.len - 8 + 4 - s.len) = false ∧
    expandAbs (((l.expand 0 (C04.rotN (-8) s.len)).normalize s.len).expand (s.len - 8 + 4) (s.len - 8 + 4 - s.len)) 0 (-0) = false ∧
    filterMapPos (wrapMap 8 4 s.len) (den l) = [(1, true), (0, true), (4, true), (3, true)] ∧
    (filterMapPos (wrapMap 8 4 s.len) (den l)).Nodup ∧
    (s.slice (-2) 4).bytes = [97, 99, 97, 99, 103, 116] := by
  decide +kernel

/-! ### the statements above, for the code AS IT IS WRITTEN NOW

`Gts.Gen.seqDelete` / `seqErase` / `seqSlice` are regenerated from sequence.go on every run (go2lean/gseq.go);
`Gts/Bridge/SeqDelete.lean` and `SeqSlice.lean` prove them equal to the model wherever Go does not panic. -/

/-- **`gts.Delete` as written**: inside the sequence (`Bridge.deleteOk`) it does not panic, removes exactly the
residues `[i, i+n)`, keeps every feature re-located by `Expand(i, -n)`, and hands `tryExpand(info, i, -n)` on -/
theorem gen_delete_spec {ι : Type} (ops : Gen.InfoOps ι) (info : ι) (s : Seq) (i n : Int)
    (h : Bridge.deleteOk s.len i n) :
    Gen.seqDelete ops info s.feats s.bytes i n =
      .ok (ops.tryExpand info i (-n), s.feats.map (fun f => { f with loc := f.loc.expand i (-n) }),
        s.bytes.take i.toNat ++ s.bytes.drop (i + n).toNat) :=
  Bridge.seqDelete_eq ops info s i n h

/-- **`gts.Erase` as written**: Delete on the table without the non-`source` features wholly within `[i, i+n)` -/
theorem gen_erase_spec {ι : Type} (ops : Gen.InfoOps ι) (info : ι) (s : Seq) (i n : Int)
    (h : Bridge.deleteOk s.len i n) :
    Gen.seqErase ops info s.feats s.bytes i n =
      .ok (ops.tryExpand info i (-n),
        (s.feats.filter fun f => f.key = "source" || !(f.loc.within i (i + n))).map
          (fun f => { f with loc := f.loc.expand i (-n) }),
        s.bytes.take i.toNat ++ s.bytes.drop (i + n).toNat) :=
  Bridge.seqErase_eq ops info s i n h

/-- **`gts.Slice` as written**, forward window `0 ≤ a ≤ b ≤ L`: no panic, exactly the residues of the window, exactly
the overlapping features re-based (`source` completed), metadata through `trySlice` and `WithTopology(Linear)` -/
theorem gen_slice_fwd_spec {ι : Type} (ops : Gen.InfoOps ι) (fuel : Nat) (info : ι) (s : Seq) (a b : Int)
    (ha : 0 ≤ a) (hab : a ≤ b) (hb : b ≤ s.len) :
    Gen.seqSlice ops (fuel + 1) info s.feats s.bytes a b =
      .ok (ops.withTopology (ops.trySlice info a b) 0,
        (s.feats.filter fun f => f.loc.overlap a b).map (fun f =>
          let loc := (f.loc.expand b (b - s.len)).expand 0 (-a)
          { f with loc := if f.key = "source" then loc.asComplete else loc }),
        (s.bytes.drop a.toNat).take (b - a).toNat) := by
  have hn : Bridge.sliceNorm s.len a = a ∧ Bridge.sliceNorm s.len b = b := by
    simp only [Bridge.sliceNorm]; constructor <;> rw [if_neg (by omega)]
  have := Bridge.seqSlice_fwd ops fuel info s a b (by rw [hn.1, hn.2]; exact hab) (by rw [hn.1, hn.2]; exact ⟨ha, hb⟩)
  rw [this, hn.1, hn.2, slice_bytes_fwd s a b ha hab, slice_feats_fwd s a b ha hab]

/-- **`gts.Slice` as written**, wrap-around window `0 ≤ b < a ≤ L`: no panic and the residues are
`seq[a:] + seq[:b]` -/
theorem gen_slice_wrap_bytes {ι : Type} (ops : Gen.InfoOps ι) (fuel : Nat) (info : ι) (s : Seq) (a b : Int)
    (hb : 0 ≤ b) (hba : b < a) (haL : a ≤ s.len) (hf : a ≤ fuel + 1) :
    ∃ i' ff, Gen.seqSlice ops (fuel + 2) info s.feats s.bytes a b =
      .ok (i', ff, s.bytes.drop a.toNat ++ s.bytes.take b.toNat) := by
  have hn : Bridge.sliceNorm s.len a = a ∧ Bridge.sliceNorm s.len b = b := by
    simp only [Bridge.sliceNorm]; constructor <;> rw [if_neg (by omega)]
  have := Bridge.seqSlice_wrap ops fuel info s a b (by rw [hn.1, hn.2]; exact hba) (by omega)
    (by rw [hn.1, hn.2]; omega) (by rw [hn.1]; exact hf)
  exact ⟨_, _, by rw [this, slice_bytes_wrap s a b hb hba haL]⟩

/-- **`gts.Slice` as written**, wrap-around window given by indices of ANY sign whose normalised values
satisfy `0 ≤ B < A ≤ L`: no panic, the residues are `seq[A:] + seq[:B]`, the table is that of
`Seq.slice` (the subject of `slice_wrap_den_partial` / `slice_wrap_feature_origin`), the metadata goes
through `Rotate`'s and then `trySlice(·, 0, L-A+B)` and `WithTopology(Linear)` -/
theorem gen_slice_wrap_spec {ι : Type} (ops : Gen.InfoOps ι) (fuel : Nat) (info : ι) (s : Seq) (a b A B : Int)
    (hA : Bridge.sliceNorm s.len a = A) (hB : Bridge.sliceNorm s.len b = B)
    (hB0 : 0 ≤ B) (hBA : B < A) (hAL : A ≤ s.len) (hf : A ≤ fuel + 1) :
    Gen.seqSlice ops (fuel + 2) info s.feats s.bytes a b =
      .ok (ops.withTopology (ops.trySlice info 0 (s.len - A + B)) 0, (s.slice a b).feats,
        s.bytes.drop A.toNat ++ s.bytes.take B.toNat) := by
  have := Bridge.seqSlice_wrap ops fuel info s a b (by rw [hA, hB]; exact hBA) (by omega)
    (by rw [hA, hB]; omega) (by rw [hA]; exact hf)
  rw [this, hA, hB, slice_wrap_neg_bytes s a b A B hA hB hB0 hBA hAL]
/-! ### "except on source features after slicing" (finding F37, repaired in /repo e43d5f2)

`asComplete` had no case for `Complemented`: the `source` feature of a reverse-complemented record
(`complement(1..L)`) kept the markers `Slice` puts on the ends it cuts off. -/

/-- some contiguous leaf of the location carries a partial marker (harness `anyPartial`) -/
def anyPartial (l : Loc) : Bool :=
  l.leaves.any fun u => match u with
    | .ranged _ _ p5 p3 => p5 || p3
    | _ => false

mutual
theorem leaves_asComplete_noPartial : ∀ l : Loc, ∀ u ∈ (asComplete l).leaves,
    (match u with | .ranged _ _ p5 p3 => p5 || p3 | _ => false) = false
  | .ranged s e _ _ => by
    intro u hu; simp only [asComplete, leaves, List.mem_singleton] at hu; subst hu; rfl
  | .joined ls => by
    intro u hu; simp only [asComplete, leaves] at hu; exact leavesList_asComplete_noPartial ls u hu
  | .ordered ls => by
    intro u hu; simp only [asComplete, leaves] at hu; exact leavesList_asComplete_noPartial ls u hu
  | .compl l => by
    intro u hu; simp only [asComplete, leaves] at hu; exact leaves_asComplete_noPartial l u hu
  | .between _ => by
    intro u hu; simp only [asComplete, leaves, List.mem_singleton] at hu; subst hu; rfl
  | .point _ => by
    intro u hu; simp only [asComplete, leaves, List.mem_singleton] at hu; subst hu; rfl
  | .ambiguous _ _ => by
    intro u hu; simp only [asComplete, leaves, List.mem_singleton] at hu; subst hu; rfl
theorem leavesList_asComplete_noPartial : ∀ ls : List Loc, ∀ u ∈ leavesList (asCompleteList ls),
    (match u with | .ranged _ _ p5 p3 => p5 || p3 | _ => false) = false
  | [] => by intro u hu; simp only [asCompleteList, leavesList] at hu; cases hu
  | l :: ls => by
    intro u hu
    simp only [asCompleteList, leavesList, List.mem_append] at hu
    rcases hu with h | h
    · exact leaves_asComplete_noPartial l u h
    · exact leavesList_asComplete_noPartial ls u h
end

/-- `asComplete` leaves no partial marker anywhere: every kind, every nesting depth, either strand -/
theorem asComplete_noPartial (l : Loc) : anyPartial (asComplete l) = false := by
  unfold anyPartial
  rw [List.any_eq_false]
  intro u hu
  simp only [leaves_asComplete_noPartial l u hu, Bool.false_eq_true, not_false_eq_true]

/-- **a `source` feature never becomes (or stays) partial by slicing**: every `source` feature of a
forward slice is marker-free — for every record, every window and every location kind, the
complement strand included (the clause "except on source features after slicing"). -/
theorem slice_source_complete (s : Seq) (a b : Int) (ha : 0 ≤ a) (hab : a ≤ b) :
    ∀ g ∈ (s.slice a b).feats, g.key = "source" → anyPartial g.loc = false := by
  intro g hg hk
  rw [slice_feats_fwd s a b ha hab, List.mem_map] at hg
  obtain ⟨f, _, rfl⟩ := hg
  simp only at hk
  simp only [hk, if_true]
  exact asComplete_noPartial _

/-- the reading of `asComplete` before repair e43d5f2 (no clause for a complement) -/
def asCompleteOld : Loc → Loc
  | .compl l => .compl l
  | l => asComplete l

/-- with the old reading the statement is false: `source complement(3..10)` cut to its first residue
comes out as `complement(3..>3)` (finding F37; witness replayed on the real code every run) -/
theorem slice_source_complete_old_refuted :
    ¬ (∀ l : Loc, ∀ b L : Int, anyPartial (asCompleteOld ((l.expand b (b - L)).expand 0 0)) = false) := by
  intro h
  exact absurd (h (.compl (.ranged 2 10 false false)) 3 10) (by decide)

-- non-vacuity: the source of a reverse-complemented record of ten residues, cut to [0,3)
example : ((Seq.slice ⟨[⟨"source", .compl (.ranged 2 10 false false), []⟩], [97, 99, 103, 116, 97, 99, 103, 116, 97, 99]⟩ 0 3).feats.map
    fun f => f.loc.beq (.compl (.ranged 2 3 false false))) = [true] := by decide

-- non-vacuity: windows of a sequence of six residues
example : Bridge.deleteOk (⟨[], [65, 67, 71, 84, 65, 67]⟩ : Seq).len 2 3 := by decide
example : (0 : Int) ≤ 1 ∧ (1 : Int) ≤ 4 ∧ (4 : Int) ≤ (⟨[], [65, 67, 71, 84, 65, 67]⟩ : Seq).len := by decide
example : (0 : Int) ≤ 2 ∧ (2 : Int) < 5 ∧ (5 : Int) ≤ (⟨[], [65, 67, 71, 84, 65, 67]⟩ : Seq).len ∧ (5 : Int) ≤ (4 : Nat) + 1 := by decide
example : Bridge.sliceNorm (⟨[], [65, 67, 71, 84, 65, 67]⟩ : Seq).len (-1) = 5 ∧ Bridge.sliceNorm (⟨[], [65, 67, 71, 84, 65, 67]⟩ : Seq).len (-4) = 2 ∧
    (0 : Int) ≤ 2 ∧ (2 : Int) < 5 ∧ (5 : Int) ≤ (⟨[], [65, 67, 71, 84, 65, 67]⟩ : Seq).len ∧ (5 : Int) ≤ (4 : Nat) + 1 := by decide

/-! ### the REGENERATED `GenBankFields.Slice` (go2lean gwriter: `Gts/Gen/GbSlice.lean`, `Gts/Bridge/GbSlice.lean`) -/

/-- **`GenBankFields.Slice` as written**: for every value of the struct and every window the method does not
panic, the result's region is the window, and its references are numbered `1, 2, …, m` in order — whatever was
dropped. -/
theorem gen_slice_refs_numbered (gbf : Gen.GbFields.GenBankFields) (a b : Int) :
    ∃ g, Gen.GbSlice.genBankFieldsSlice intBytes Bridge.overlapModel Bridge.parseInfoModel gbf a b = some g ∧
      g.Region = some (a, b) ∧
      g.References.map (·.Number) = (List.range g.References.length).map (fun (k : Nat) => (k : Int) + 1) := by
  refine ⟨_, Bridge.genBankFieldsSlice_eq gbf a b, rfl, ?_⟩
  show (Bridge.sliceRefsFull _ a b gbf.References).map (·.Number) = _
  have hm := Bridge.sliceRefsFull_model (Gen.GbSlice.moleculeCounter gbf.Molecule) a b gbf.References
  have hn : (Bridge.sliceRefsFull (Gen.GbSlice.moleculeCounter gbf.Molecule) a b gbf.References).map (·.Number) =
      ((Bridge.sliceRefsFull (Gen.GbSlice.moleculeCounter gbf.Molecule) a b gbf.References).map Bridge.toRef).map (·.number) := by
    simp [Bridge.toRef, Function.comp_def]
  have hl := congrArg List.length hm
  unfold sliceRefs at hm hl
  rw [hn, hm, renumber_numbers]
  simp only [List.length_map] at hl
  have hr : (renumber (List.filterMap (fun r => sliceRefInfo (Gen.GbSlice.moleculeCounter gbf.Molecule) a b r.info)
      (List.map Bridge.toRef gbf.References))).length =
      (List.filterMap (fun r => sliceRefInfo (Gen.GbSlice.moleculeCounter gbf.Molecule) a b r.info)
        (List.map Bridge.toRef gbf.References)).length := by simp [renumber]
  rw [hl, hr]

/-- **a reference whose info is no range list survives `GenBankFields.Slice` verbatim** (as written): when every
info is unparsable, the references come back as they were, renumbered -/
theorem gen_slice_unparsable_kept (gbf : Gen.GbFields.GenBankFields) (a b : Int)
    (h : ∀ r ∈ gbf.References, parseRefInfo (Gen.GbSlice.moleculeCounter gbf.Molecule) r.Info = none) :
    ∃ g, Gen.GbSlice.genBankFieldsSlice intBytes Bridge.overlapModel Bridge.parseInfoModel gbf a b = some g ∧
      g.References.map (·.Info) = gbf.References.map (·.Info) := by
  refine ⟨_, Bridge.genBankFieldsSlice_eq gbf a b, ?_⟩
  show (Bridge.sliceRefsFull _ a b gbf.References).map (·.Info) = _
  unfold Bridge.sliceRefsFull
  have hk : gbf.References.filterMap (Bridge.sliceRefFull (Gen.GbSlice.moleculeCounter gbf.Molecule) a b) = gbf.References := by
    have : ∀ l : List Gen.GbFields.Reference, (∀ r ∈ l, parseRefInfo (Gen.GbSlice.moleculeCounter gbf.Molecule) r.Info = none) →
        l.filterMap (Bridge.sliceRefFull (Gen.GbSlice.moleculeCounter gbf.Molecule) a b) = l := by
      intro l
      induction l with
      | nil => intro _; rfl
      | cons r l ih =>
        intro hl
        have h1 := hl r (List.mem_cons_self ..)
        have h2 : Bridge.sliceRefFull (Gen.GbSlice.moleculeCounter gbf.Molecule) a b r = some r := by
          simp [Bridge.sliceRefFull, sliceRefInfo_verbatim _ _ a b h1]
        rw [List.filterMap_cons, h2, ih (fun x hx => hl x (List.mem_cons_of_mem _ hx))]
    exact this _ h
  rw [hk]
  have : ∀ (k : Nat) (l : List Gen.GbFields.Reference), (Bridge.renumberFrom k l).map (·.Info) = l.map (·.Info) := by
    intro k l
    induction l generalizing k with
    | nil => rfl
    | cons r l ih => simp [Bridge.renumberFrom, ih]
  exact this 0 _

/-! ### a slice OF A SLICE (composition; seeded change W35-1) -/

/-- **REFERENCE ranges under a slice of a slice** (model): for non-empty forward windows `[a, b)` and
`[c, d) ⊆ [0, b − a)`, slicing the references twice is slicing them once to `[a + c, a + d)`: each range is
clipped to the INNER window of the original record, re-based to it, dropped when disjoint from it, and the
survivors are renumbered `1..m`; an info that is no range list is kept verbatim by both.  (What the first
slice writes is read back by the second as the clipped ranges — `sliceRefInfo_reparse`.) -/
theorem slice_of_slice_refs (pref : Pars.Bytes) (a b c d : Int) (refs : List Ref) (hab : a < b)
    (hfit : b - a ≤ 9223372036854775807) (hc : 0 ≤ c) (hcd : c < d) (hd : d ≤ b - a) :
    sliceRefs pref c d (sliceRefs pref a b refs) = sliceRefs pref (a + c) (a + d) refs :=
  GbSliceRef.sliceRefs_compose pref a b c d refs hab hfit hc hcd hd

-- non-vacuity: `(bases 1 to 10; 12 to 14)` and a verbatim info under [2,8) then [1,4) = [3,6): `(bases 1 to 3)`
example : ((sliceRefs (Pars.str "bases") 1 4 (sliceRefs (Pars.str "bases") 2 8
      [⟨7, Pars.str "(bases 1 to 10; 12 to 14)"⟩, ⟨8, Pars.str "(sites)"⟩, ⟨9, Pars.str "(bases 9 to 20)"⟩])).map (·.info)) =
    [Pars.str "(bases 1 to 3)", Pars.str "(sites)"] ∧ (2 : Int) < 8 ∧ (0 : Int) ≤ 1 ∧ (1 : Int) < 4 ∧ (4 : Int) ≤ 8 - 2 := by
  decide +kernel

/-- **the same for `GenBankFields.Slice` as written** (regenerated): two applications of the method do not panic;
the result's references are (number and info) those of ONE application with the window `[a + c, a + d)`, and its
region is the second window as given, `[c, d)` — the method does not look at the region the value already has. -/
theorem gen_slice_of_slice_refs (gbf : Gen.GbFields.GenBankFields) (a b c d : Int) (hab : a < b)
    (hfit : b - a ≤ 9223372036854775807) (hc : 0 ≤ c) (hcd : c < d) (hd : d ≤ b - a) :
    ∃ g1 g2 g,
      Gen.GbSlice.genBankFieldsSlice intBytes Bridge.overlapModel Bridge.parseInfoModel gbf a b = some g1 ∧
      Gen.GbSlice.genBankFieldsSlice intBytes Bridge.overlapModel Bridge.parseInfoModel g1 c d = some g2 ∧
      Gen.GbSlice.genBankFieldsSlice intBytes Bridge.overlapModel Bridge.parseInfoModel gbf (a + c) (a + d) = some g ∧
      g2.References.map Bridge.toRef = g.References.map Bridge.toRef ∧ g2.Region = some (c, d) := by
  refine ⟨_, _, _, Bridge.genBankFieldsSlice_eq gbf a b, Bridge.genBankFieldsSlice_eq _ c d,
    Bridge.genBankFieldsSlice_eq gbf (a + c) (a + d), ?_, rfl⟩
  show (Bridge.sliceRefsFull (Gen.GbSlice.moleculeCounter gbf.Molecule) c d
      (Bridge.sliceRefsFull (Gen.GbSlice.moleculeCounter gbf.Molecule) a b gbf.References)).map Bridge.toRef =
    (Bridge.sliceRefsFull (Gen.GbSlice.moleculeCounter gbf.Molecule) (a + c) (a + d) gbf.References).map Bridge.toRef
  rw [Bridge.sliceRefsFull_model, Bridge.sliceRefsFull_model, Bridge.sliceRefsFull_model]
  exact GbSliceRef.sliceRefs_compose _ a b c d _ hab hfit hc hcd hd

section RecordRefs
open Gts.GenBank

/-! ### REFERENCE ranges at the RECORD level: forward windows (holds) and wrap-around windows (known finding K3R)

`GenBank.sliceHeader f L a b` (`Model/GbSliceRec.lean`) is the header `gts.Slice` gives a GenBank record of `L`
residues.  The property's clause — "REFERENCE base ranges are clipped to the window, re-based, dropped when disjoint
and renumbered consecutively", for "all windows (forward and wrap-around …)" — is stated against an independent
specification: `referencesSpec pieces f`, where `pieces r` lists what is left of the range `r = [s, e)` in window
coordinates. -/

/-- forward window `[a, b)`: the intersection, counted from `a` -/
def fwdPieces (a b : Int) (r : Int × Int) : List (Int × Int) :=
  if gmax r.1 a < gmin r.2 b then [(gmax r.1 a - a, gmin r.2 b - a)] else []

/-- wrap-around window `[a, L) ++ [0, b)`: the part of the range inside the tail `[a, L)` moves to `x - a`, the part
inside the head `[0, b)` to `x + (L - a)` (together `x ↦ (x - a) mod L`, the map of the residues, `slice_wrap_map`);
a range that runs across the origin of the record stays ONE range (its two pieces abut at window position `L - a`);
otherwise the pieces are listed in window order; a range disjoint from the window leaves nothing (same function as
`wrapRefSpec` of harness/props_c03_refs.go) -/
def wrapPieces (L a b : Int) (r : Int × Int) : List (Int × Int) :=
  let t := (gmax r.1 a, gmin r.2 L)
  let h := (gmax r.1 0, gmin r.2 b)
  if t.1 < t.2 then
    if h.1 < h.2 then
      if t.2 - a = h.1 + (L - a) then [(t.1 - a, h.2 + (L - a))]
      else [(t.1 - a, t.2 - a), (h.1 + (L - a), h.2 + (L - a))]
    else [(t.1 - a, t.2 - a)]
  else if h.1 < h.2 then [(h.1 + (L - a), h.2 + (L - a))] else []

/-- one reference info: unparsable = verbatim; no piece left = dropped; else the pieces, printed -/
def refInfoSpec (pieces : Int × Int → List (Int × Int)) (pref info : Pars.Bytes) : Option Pars.Bytes :=
  match parseRefInfo pref info with
  | none => some info
  | some rs => if (rs.flatMap pieces).isEmpty then none else some (fmtRanges pref (rs.flatMap pieces))

/-- the references the clause prescribes: clipped / dropped as above, the kept ones renumbered `1..m` -/
def referencesSpec (pieces : Int × Int → List (Int × Int)) (f : Fields) : List Reference :=
  renumberRefs (f.references.filterMap fun r =>
    (refInfoSpec pieces (counterWord f.molecule) r.info).map fun i => { r with info := i })

/-- the code's `filter overlap; map clipRange` IS the intersection list, for proper ranges and a non-empty window -/
theorem fwdPieces_eq (a b : Int) (hab : a < b) (rs : List (Int × Int)) (hp : ∀ r ∈ rs, r.1 < r.2) :
    (rs.filter fun r => rangeOverlap r.1 r.2 a b).map (clipRange a b) = rs.flatMap (fwdPieces a b) := by
  induction rs with
  | nil => rfl
  | cons r rs ih =>
    have h1 := hp r (List.mem_cons_self ..)
    have ih' := ih (fun x hx => hp x (List.mem_cons_of_mem _ hx))
    have ho : rangeOverlap r.1 r.2 a b = (decide (r.1 < b) && decide (a < r.2)) := by
      unfold rangeOverlap
      rw [if_neg (by omega), if_neg (by omega)]
    simp only [List.filter_cons, List.flatMap_cons, ho]
    by_cases c : r.1 < b ∧ a < r.2
    · have hlt : gmax r.1 a < gmin r.2 b := by unfold gmax gmin; split <;> split <;> omega
      have hc : clipRange a b r = (gmax r.1 a - a, gmin r.2 b - a) := by
        unfold clipRange gmax gmin
        ext <;> simp only <;> split <;> split <;> omega
      simp only [c.1, c.2, decide_true, Bool.and_self, if_true, List.map_cons, ih', fwdPieces, if_pos hlt, hc,
        List.cons_append, List.nil_append]
    · have hlt : ¬ (gmax r.1 a < gmin r.2 b) := by unfold gmax gmin; split <;> split <;> omega
      have hd : (decide (r.1 < b) && decide (a < r.2)) = false := by
        simp only [Bool.and_eq_false_iff, decide_eq_false_iff_not]; omega
      simp only [hd, fwdPieces, if_neg hlt, List.nil_append, Bool.false_eq_true, if_false]
      exact ih'

/-- **REFERENCE ranges, forward window** (`0 ≤ a < b`): the clause "clipped to the window, re-based, dropped
when disjoint, renumbered" HOLDS — the header of the slice carries exactly the references the
independent statement `referencesSpec (fwdPieces a b)` prescribes: an unparsable info verbatim; a parsed one
with, for each range, its intersection with `[a, b)` counted from `a` (`fwdPieces`; `clipRange_spec`,
`clipRange_inside` say the same of the code's `clipRange` position by position), dropped when no range meets
the window; numbers `1..m`. -/
theorem slice_fwd_refs (f : Fields) (L a b : Int) (ha : 0 ≤ a) (hab : a < b) :
    (sliceHeader f L a b).references = referencesSpec (fwdPieces a b) f := by
  have hw : sliceWindow L a b = (a, b) := by
    unfold sliceWindow sliceIndex
    rw [if_neg (by omega), if_neg (by omega), if_neg (by omega)]
  have hinfo : ∀ info, sliceRefInfo (counterWord f.molecule) a b info
      = refInfoSpec (fwdPieces a b) (counterWord f.molecule) info := by
    intro info
    unfold sliceRefInfo refInfoSpec
    cases hpr : parseRefInfo (counterWord f.molecule) info with
    | none => rfl
    | some rs =>
      simp only
      have hp := parseRefInfo_proper _ _ rs hpr
      rw [← fwdPieces_eq a b hab rs hp]
      by_cases hemp : (rs.filter fun r => rangeOverlap r.1 r.2 a b).isEmpty
      · simp [hemp]
      · simp [hemp]
  simp only [sliceHeader, hw, Fields.slice, Fields.withTopology, sliceReferences, referencesSpec]
  congr 1
  have hfun : (fun r : Reference => (sliceRefInfo (counterWord f.molecule) a b r.info).map fun i => { r with info := i })
      = (fun r : Reference => (refInfoSpec (fwdPieces a b) (counterWord f.molecule) r.info).map fun i => { r with info := i }) := by
    funext r
    congr 1
    exact hinfo r.info
  rw [hfun]

/-- the witness of K3R: ten residues, `REFERENCE 1 (bases 9 to 10)`, `REFERENCE 2 (bases 5 to 6)`; window `Slice(seq, 8, 4)`
= residues `9,10,1..4` -/
def witF : Fields :=
  { (default : Fields) with
    molecule := [68, 78, 65]
    references := [{ (default : Reference) with number := 1, info := [40, 98, 97, 115, 101, 115, 32, 57, 32, 116, 111, 32, 49, 48, 41] },
                   { (default : Reference) with number := 2, info := [40, 98, 97, 115, 101, 115, 32, 53, 32, 116, 111, 32, 54, 41] }] }


/-- what the model (and the code) answers at the witness: REFERENCE 1 `(bases 9 to 10)` — residues INSIDE the
window — is dropped, REFERENCE 2 `(bases 5 to 6)` — residues OUTSIDE it — is kept, un-rebased, as number 1 -/
theorem slice_wrap_refs_witness :
    (sliceHeader witF 10 8 4).references.map (fun r => (r.number, r.info)) = [(1, [40, 98, 97, 115, 101, 115, 32, 53, 32, 116, 111, 32, 54, 41])] := by
  decide +kernel

/-- what the property's clause demands there -/
theorem slice_wrap_refs_witness_spec :
    (referencesSpec (wrapPieces 10 8 4) witF).map (fun r => (r.number, r.info)) = [(1, [40, 98, 97, 115, 101, 115, 32, 49, 32, 116, 111, 32, 50, 41])] := by
  decide +kernel

/-- FULL STATEMENT of the REFERENCE clause for a WRAP-AROUND window (false on the model and on the code: known
finding K3R): "for every header and every window `0 ≤ b < a ≤ L` the references of the slice are the ranges clipped to
the window `[a, L) ++ [0, b)`, re-based by `(x - a) mod L`, dropped when disjoint, renumbered".  `gts.Slice` rotates
residues and table by `-a` but not the header (`GenBankFields` has no `Shift` / `Expand`), then clips the UN-rotated
ranges against `[0, L - a + b)`.  Witness `witF`, window `(8, 4)`: `(bases 9 to 10)` — inside the window, new
positions `1 to 2` — is DROPPED; `(bases 5 to 6)` — outside the window — is KEPT as `(bases 5 to 6)`.  Replayed on the
real code by op `gb.slice` (witness of K3R in known_findings.json), flagged by oracle `c03RefsWrap`.
The clause HOLDS for forward windows: `slice_fwd_refs`. -/
theorem slice_wrap_refs_full_refuted :
    ¬ (∀ (f : Fields) (L a b : Int), 0 ≤ b → b < a → a ≤ L →
        (sliceHeader f L a b).references = referencesSpec (wrapPieces L a b) f) := by
  intro h
  have := h witF 10 8 4 (by decide) (by decide) (by decide)
  have h2 := congrArg (List.map fun r => (r.number, r.info)) this
  rw [slice_wrap_refs_witness, slice_wrap_refs_witness_spec] at h2
  revert h2
  decide

/-- non-vacuity of `slice_fwd_refs`, and `wrapPieces` on the shapes the oracle names: a range inside the tail, one
across the origin of the record (stays one range), one meeting both parts without the junction (two ranges, window
order), one disjoint -/
example : (0 : Int) ≤ 2 ∧ (2 : Int) < 8 ∧
    (sliceHeader witF 10 2 8).references.map (fun r => r.number) = [1] ∧
    wrapPieces 10 8 4 (8, 10) = [(0, 2)] ∧ wrapPieces 10 8 4 (6, 10) = [(0, 2)] ∧
    wrapPieces 10 8 4 (0, 10) = [(0, 6)] ∧ wrapPieces 10 8 4 (2, 9) = [(0, 1), (4, 6)] ∧
    wrapPieces 10 8 4 (4, 6) = [] := by decide +kernel

end RecordRefs

/-- non-vacuity: `(sites)` is no range list under the counter word `bases` -/
example : parseRefInfo (Gen.GbSlice.moleculeCounter (Gen.GoStrings.wsLit "DNA")) (Gen.GoStrings.wsLit "(sites)") = none := by
  decide +kernel

end Gts.C03
