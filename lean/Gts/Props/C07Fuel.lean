/-
  C07 — parsers are total, "never hangs", second part: the REMAINING fuelled loops of the GenBank
  reader model, the reader with every fuel a parameter, and a step count.
  Property theorems only (helpers: Gts/Lemmas/GbFuel2Pure.lean, GbFuel2Table.lean, GbFuel2X.lean,
  GbFuel2Agree.lean, GbCost.lean).

  FUEL.  The model (Gts/Model/GenBankParse.lean, InsdcParse.lean, Origin.lean, LocText.lean) gives
  every loop of the Go code a fuel computed from the bytes left.  Gts/Props/C07.lean proves the fuel
  adequate for `bodyMore`, `taxonMore`, `dblinkMore`, `recordLoop`, `parseAll`, `LocParse.loc`.  Here:
  every other fuelled loop of the reader —

    `splitOn`        strings.Split behind FlatFileSplit / AsDate            `split_fuel_stable`
    `stripCont`      continuation prefix of a quoted qualifier value        `stripCont_fuel_stable`,
                                                                            `stripCont_exits_partial`
    `literalMore`    continuation lines of a literal qualifier value        `literalMore_fuel_stable`
    `qualifiers`     pars.Many(qualifierParser)                             `qualifiers_fuel_stable`
    `tableMore`      the key-line loop of INSDCTableParser                  `tableMore_fuel_stable`
    `refSubfields`   pars.Many(genbankReferenceSubfieldParser)              `refSubfields_fuel_stable`
    `walkChars`, `walkGroups`, `validateLines`, `slowLines`                 `origin_counters_fuel_stable`
                     the counter loops of the ORIGIN reader
    `digitsAux`, `natDigitsF`   Sprintf("%9d") / strconv.Itoa (library)     `decimal_fuel_stable`

  (`refAlts`, `blanks`, `scanQ`, `findSub`, `calcLine`, `tryList` recurse on a list or a counter and
  carry no fuel) — and the statement that puts them together: `genbankParser_fuel_free`,
  `readAll_fuel_free`.  `Gts.GenBank.Fuels` has one fuel policy per loop kind; `genbankParserX g` is
  the reader with `g.<loop> (model fuel)` passed wherever the model passes its fuel, at every level
  at once; for every `g` that lowers no fuel it IS `genbankParser`, as a term.  So no answer of the
  model — record, error, final state — is an artefact of a fuel.

  ONE loop's fuel stands for a hang of the Go code: `stripCont` with the EMPTY continuation prefix
  (`stripCont_exits_full_refuted`).  Not reachable from `INSDCTableParser("")` (the prefix is the
  indent of the first key line, at least one column: this is part of the proof of
  `genbankParser_fuel_free`); it is reachable through the exported `seqio.QualifierParser("")`.
-/
import Gts.Props.C07
import Gts.Lemmas.GbFuel2Agree
namespace Gts.C07
open Gts Pars GenBank

/-! ## the remaining loops, one by one -/

/-- `strings.Split(s, sep)` for a non-empty separator (`"; "` in `FlatFileSplit`, `"-"` in
`AsDate`): every step consumes a byte, so any two fuels above `len(s)` give the same fields. -/
theorem split_fuel_stable (sep : Bytes) (hsep : sep ≠ []) (n m : Nat) (cur s : Bytes)
    (hn : s.length < n) (hm : s.length < m) :
    GenBank.splitOn sep n cur s = GenBank.splitOn sep m cur s :=
  GenBank.splitOn_fuel sep hsep n m cur s hn hm

/-- non-vacuity: a keyword list split at fuel 13 = `len + 1` and at fuel 1000 -/
example : (GenBank.bs "; ") ≠ [] ∧ (GenBank.bs "a; bc; d.").length < 13 ∧
    GenBank.splitOn (GenBank.bs "; ") 13 [] (GenBank.bs "a; bc; d.") =
      [GenBank.bs "a", GenBank.bs "bc", GenBank.bs "d."] ∧
    GenBank.splitOn (GenBank.bs "; ") 1000 [] (GenBank.bs "a; bc; d.") =
      [GenBank.bs "a", GenBank.bs "bc", GenBank.bs "d."] := by decide +kernel

/-- the in-place loop of `quotedQualifierParser` (`for i >= 0 { delete the prefix behind "\n" }`)
for a NON-EMPTY continuation prefix: every round deletes `len(prefix) ≥ 1` bytes, so with at least
`len(token)` rounds (the model's fuel) the value does not depend on the fuel … -/
theorem stripCont_fuel_stable (pre : Bytes) (hpre : pre ≠ []) (n m : Nat) (t : Bytes)
    (hn : t.length ≤ n) (hm : t.length ≤ m) :
    GenBank.stripCont pre n t = GenBank.stripCont pre m t :=
  GenBank.stripCont_fuel pre hpre n m t hn hm

/-- … and the loop has ended BY ITS OWN CONDITION: `"\n" ++ prefix` no longer occurs in the value
(`bytes.Index(token, p) < 0`).
FULL statement (false, see `stripCont_exits_full_refuted`): the same for every prefix.
`_partial`: the guard `pre ≠ []` is what `INSDCTableParser` guarantees. -/
theorem stripCont_exits_partial (pre : Bytes) (hpre : pre ≠ []) (n : Nat) (t : Bytes)
    (hn : t.length ≤ n) :
    GenBank.findSub (10 :: pre) (GenBank.stripCont pre n t) 0 = none :=
  GenBank.stripCont_exits pre hpre n t hn

/-- the full statement is FALSE for the empty prefix: whatever the fuel, a token that begins with a
line feed comes back unchanged and the loop condition still holds — in Go `copy(token[i+1:],
token[i+len(p):])` copies the tail onto itself and `for i >= 0` never ends.  (An observation about
the exported `seqio.QualifierParser("")`; the GenBank reader never builds it.) -/
theorem stripCont_exits_full_refuted (n : Nat) (t : Bytes) :
    GenBank.stripCont [] n (10 :: t) = 10 :: t ∧
      GenBank.findSub (10 :: []) (GenBank.stripCont [] n (10 :: t)) 0 = some 0 := by
  rw [GenBank.stripCont_empty_prefix_steps]
  refine ⟨rfl, ?_⟩
  unfold GenBank.findSub; simp

/-- non-vacuity: a two-line `/note` value under a 21-column indent loses the indent at fuel
`len(token)` and at fuel 1000; with the empty prefix nothing happens at any fuel -/
example : GenBank.sp 21 ≠ [] ∧
    GenBank.stripCont (GenBank.sp 21) 26 (GenBank.bs "ab\n" ++ GenBank.sp 21 ++ GenBank.bs "cd") =
      GenBank.bs "ab\ncd" ∧
    GenBank.stripCont (GenBank.sp 21) 1000 (GenBank.bs "ab\n" ++ GenBank.sp 21 ++ GenBank.bs "cd") =
      GenBank.bs "ab\ncd" ∧
    (GenBank.bs "ab\n" ++ GenBank.sp 21 ++ GenBank.bs "cd").length = 26 ∧
    GenBank.stripCont [] 5 (GenBank.bs "\nab") = GenBank.bs "\nab" := by decide +kernel

/-- the continuation lines of `literalQualifierValueParser`: a round that goes on has read the
prefix, one byte that is not `/`, and a line — at least one byte, in ANY state.  Any two fuels above
the bytes left give the same value and the same final state. -/
theorem literalMore_fuel_stable (pre : Bytes) (n m : Nat) (p : Bytes) (s : PS)
    (hn : s.rest.length < n) (hm : s.rest.length < m) :
    (GenBank.literalMore pre n p).run' s = (GenBank.literalMore pre m p).run' s :=
  GenBank.literalMore_fuel pre n m p s hn hm

/-- non-vacuity: two continuation lines, then the next qualifier (the frame of
`literalQualifierParser` on the stack), fuels 20 and 1000 -/
example : let st : PS := ⟨GenBank.bs "  b\n  c\n  /x\n", [GenBank.bs "  b\n  c\n  /x\n"]⟩
    st.rest.length < 20 ∧
    ((GenBank.literalMore (GenBank.sp 2) 20 (GenBank.bs "a")).run' st).1 = .ok (GenBank.bs "a\nb\nc") ∧
    ((GenBank.literalMore (GenBank.sp 2) 1000 (GenBank.bs "a")).run' st).1 = .ok (GenBank.bs "a\nb\nc") ∧
    ((GenBank.literalMore (GenBank.sp 2) 20 (GenBank.bs "a")).run' st).2.rest = GenBank.bs "  /x\n" := by
  decide +kernel

/-- `pars.Many(qualifierParser)`: from a SORTED state (failing location parsers leak saved
positions, `pars.Any` pops) a qualifier that is read has consumed `prefix/`, and nothing goes back
behind the start of the round: at most bytes-left rounds. -/
theorem qualifiers_fuel_stable (pre : Bytes) (n m : Nat) (reg : GenBank.Registry)
    (acc : List (Bytes × Bytes)) (s : PS) (hs : Sorted s.rest.length s.stk)
    (hn : s.rest.length < n) (hm : s.rest.length < m) :
    (GenBank.qualifiers pre n reg acc).run' s = (GenBank.qualifiers pre m reg acc).run' s :=
  GenBank.qualifiers_fuel pre n m reg acc s hs hn hm

/-- non-vacuity: two qualifiers and the next key line, a leaked position on the stack; fuels
`bytes left + 1` and 1000 read the same two qualifiers -/
example : let txt := GenBank.bs "  /gene=\"x\"\n  /pseudo\n  CDS 1..2\n"
    let st : PS := ⟨txt, [GenBank.bs "gene 1\n" ++ txt]⟩
    Sorted st.rest.length st.stk ∧ st.rest.length < 36 ∧
    ((GenBank.qualifiers (GenBank.sp 2) 36 GenBank.Registry.default []).run' st).1.toOption.map (·.1) =
      some [(GenBank.bs "gene", GenBank.bs "x"), (GenBank.bs "pseudo", [])] ∧
    ((GenBank.qualifiers (GenBank.sp 2) 1000 GenBank.Registry.default []).run' st).1.toOption.map (·.1) =
      some [(GenBank.bs "gene", GenBank.bs "x"), (GenBank.bs "pseudo", [])] := by
  refine ⟨⟨by decide +kernel, trivial⟩, ?_⟩
  decide +kernel

/-- the key-line loop of `INSDCTableParser`: from a sorted state a key line that is read has
consumed its key and the qualifiers behind it do not go back. -/
theorem tableMore_fuel_stable (pre depth n m : Nat) (reg : GenBank.Registry)
    (acc : List GenBank.QFeature) (s : PS) (hs : Sorted s.rest.length s.stk)
    (hn : s.rest.length < n) (hm : s.rest.length < m) :
    (GenBank.tableMore pre depth n reg acc).run' s = (GenBank.tableMore pre depth m reg acc).run' s :=
  GenBank.tableMore_fuel pre depth n m reg acc s hs hn hm

/-- non-vacuity: the state behind the first feature of a table (positions leaked by the location
parser on the stack) is sorted, 48 bytes are left.  (The loop itself runs `LocParse.loc`, which the
kernel cannot evaluate; its results are correspondence-checked by `table.parse` / `gb.read`.) -/
example : let txt := GenBank.bs "     gene            1..2\n                     /gene=\"x\"\n"
    Sorted (PS.mk txt [txt, GenBank.bs "x" ++ txt]).rest.length (PS.mk txt [txt, GenBank.bs "x" ++ txt]).stk ∧
    (PS.mk txt [txt, GenBank.bs "x" ++ txt]).rest.length < 60 := by
  refine ⟨⟨Nat.le_refl _, by decide +kernel, trivial⟩, by decide +kernel⟩

/-- `pars.Many(genbankReferenceSubfieldParser)`: from a sorted state a sub-field that is read has
consumed its name (`AUTHORS`, `TITLE`, …), whichever alternative of the `pars.Any` took it. -/
theorem refSubfields_fuel_stable (depth n m stale : Nat) (r : GenBank.Reference) (s : PS)
    (hs : Sorted s.rest.length s.stk) (hn : s.rest.length < n) (hm : s.rest.length < m) :
    (GenBank.refSubfields depth n stale r).run' s = (GenBank.refSubfields depth m stale r).run' s :=
  GenBank.refSubfields_fuel depth n m stale r s hs hn hm

/-- non-vacuity: AUTHORS and TITLE, then the next field; fuels `bytes left + 1` and 1000 -/
example : let txt := GenBank.bs "  AUTHORS   A,B\n  TITLE     t\nCOMMENT     c\n"
    let r0 : GenBank.Reference := ⟨1, [], [], [], [], [], none, []⟩
    Sorted (PS.mk txt [txt]).rest.length (PS.mk txt [txt]).stk ∧ txt.length < 46 ∧
    ((GenBank.refSubfields 12 46 3 r0).run' ⟨txt, [txt]⟩).1.toOption.map
      (fun r => (r.authors, r.title)) = some (GenBank.bs "A,B", GenBank.bs "t") ∧
    ((GenBank.refSubfields 12 1000 3 r0).run' ⟨txt, [txt]⟩).1.toOption.map
      (fun r => (r.authors, r.title)) = some (GenBank.bs "A,B", GenBank.bs "t") := by
  refine ⟨⟨Nat.le_refl _, trivial⟩, ?_⟩
  decide +kernel

/-- the counter loops of the ORIGIN reader — `for k < 10` (`walkChars`), `for j < 60; j += 10`
(`walkGroups`), `for i < length; i += 60` (`validateLines` in `validateOrigin`, `slowLines` in
`slowGenBankOriginParser`): a fuel that covers the trip count can be replaced by any other such
fuel; in particular the model's own fuels 10, 6 and `length` by anything larger. -/
theorem origin_counters_fuel_stable (oob : Err) (length : Int) (cap i k j n m : Nat)
    (rest st acc : Bytes) :
    (10 ≤ k + n → 10 ≤ k + m →
      Origin.walkChars oob length i n k rest = Origin.walkChars oob length i m k rest) ∧
    (60 ≤ j + 10 * n → 60 ≤ j + 10 * m →
      Origin.walkGroups oob length i n j rest = Origin.walkGroups oob length i m j rest) ∧
    (length ≤ (i : Int) + 60 * (n : Int) → length ≤ (i : Int) + 60 * (m : Int) →
      Origin.validateLines length n i rest = Origin.validateLines length m i rest) ∧
    (length ≤ (i : Int) + 60 * (n : Int) → length ≤ (i : Int) + 60 * (m : Int) →
      GenBank.slowLines length cap n i st acc = GenBank.slowLines length cap m i st acc) :=
  ⟨GenBank.walkChars_fuel oob length i n m k rest, GenBank.walkGroups_fuel oob length i n m j rest,
    GenBank.validateLines_fuel length n m i rest, GenBank.slowLines_fuel length cap n m i st acc⟩

/-- … as `validateOrigin` runs its loop: the fuel `length` it passes gives what every larger fuel
gives -/
theorem validateOrigin_fuel (p : Bytes) (length : Int) (m : Nat) (hm : length.toNat ≤ m) :
    Origin.validateLines length m 0 p = Origin.validateOrigin p length := by
  unfold Origin.validateOrigin
  exact GenBank.validateLines_fuel length m length.toNat 0 p (by omega) (by omega)

/-- non-vacuity: the block of four residues at the fuels 4 (= `length`), 1 (one line) and 1000 -/
example : (4 : Int).toNat ≤ 1000 ∧ (4 : Int) ≤ ((0 : Nat) : Int) + 60 * ((1 : Nat) : Int) ∧
    Origin.validateLines 4 1000 0 (GenBank.bs "        1 acgt\n") = .ok () ∧
    Origin.validateLines 4 1 0 (GenBank.bs "        1 acgt\n") = .ok () ∧
    Origin.validateOrigin (GenBank.bs "        1 acgt\n") 4 = .ok () := by decide +kernel

/-- the decimal printers of the model (`fmt.Sprintf("%9d", ·)` in the ORIGIN reader, `strconv.Itoa`
in the REFERENCE parser — library calls): a number has fewer digits than its value plus one -/
theorem decimal_fuel_stable (n f f' : Nat) (hf : n < f) (hf' : n < f') :
    Origin.digitsAux f n = Origin.digitsAux f' n ∧ natDigitsF f n = natDigitsF f' n :=
  ⟨GenBank.digitsAux_fuel f f' n hf hf', GenBank.natDigitsF_fuel f f' n hf hf'⟩

example : (61 : Nat) < 62 ∧ Origin.digitsAux 62 61 = [54, 49] ∧ Origin.digitsAux 1000 61 = [54, 49] := by
  decide +kernel

/-! ## every level at once -/

/-- THE READER MODEL IS FREE OF FUEL ARTEFACTS.  `Gts.GenBank.Fuels` holds one fuel policy
(model fuel ↦ fuel used) for each of the eighteen loop kinds of the reader: `strings.Split`, the
two decimal printers, field-body / DBLINK / taxonomy continuation lines, REFERENCE sub-fields, the
quoted-value prefix loop, literal-value continuation lines, `pars.Many(qualifier)`, the key-line
loop, `ParseLocation` (recursion depth and list loop), the four ORIGIN counters, the record loop,
the scan loop.  `genbankParserX g` is `GenBankParser` with `g.<loop> (model fuel)` passed to every
loop at every level (Gts/Lemmas/GbFuel2X.lean repeats the model's definitions statement for
statement with that one change).  For EVERY policy that lowers no fuel (`g.Ge`) it is the model's
`genbankParser` — as a term, i.e. same outcome and same final state from every state, sorted or
not (the record loop starts behind `state.Clear()`).  Each per-loop theorem above, and those of
Gts/Props/C07.lean, is used exactly where the model calls the loop; the hypotheses they need
(indent `≥ 1`, non-empty continuation prefix, sorted state) are established on the way
(`locusParser_depth`, `firstKeyline_key`, `KeepS`). -/
theorem genbankParser_fuel_free (g : GenBank.Fuels) (hg : g.Ge) (reg : GenBank.Registry) :
    GenBank.genbankParserX g reg = GenBank.genbankParser reg :=
  GenBank.genbankParserX_eq g hg reg

/-- … and so is the scan of a whole stream (`seqio.Scanner` over `GenBankParser`), scan loop
included -/
theorem readAll_fuel_free (g : GenBank.Fuels) (hg : g.Ge) (reg : GenBank.Registry) (input : Bytes) :
    GenBank.readAllX g reg input = GenBank.readAll reg input :=
  GenBank.readAllX_eq g hg reg input

/-- the feature table reader on its own (`INSDCTableParser("")`, also what `gts` reads feature
files with), from every sorted state -/
theorem table_fuel_free (g : GenBank.Fuels) (hg : g.Ge) (reg : GenBank.Registry) (s : PS)
    (hs : Sorted s.rest.length s.stk) :
    (GenBank.tableX g reg).run' s = (GenBank.table reg).run' s :=
  GenBank.tableX_run g hg reg s hs

/-- a policy that LOWERS fuels: the record loop gets no round at all, the body loop none, `Split`
none, the scan loop none -/
def starve (which : Nat) : GenBank.Fuels :=
  let z : Nat → Nat := fun _ => 0
  match which with
  | 0 => { GenBank.Fuels.model with record := z }
  | 1 => { GenBank.Fuels.model with body := z }
  | 2 => { GenBank.Fuels.model with split := z }
  | _ => { GenBank.Fuels.model with scan := z }

/-- a record with a two-line DEFINITION -/
def sampleRecord2 : Bytes :=
  GenBank.bs "LOCUS       X 4 bp DNA linear UNA 01-JAN-2000\nDEFINITION  d\n            e.\nORIGIN      \n        1 acgt\n//\n"

/-- non-vacuity of `genbankParser_fuel_free` / `readAll_fuel_free`: the model's own policy and
"seven more rounds for every loop" lower no fuel, and the reader with seven more rounds reads the
sample; the hypothesis is NEEDED and every parameter tried is live: starving the record loop
(error), the body loop (the DEFINITION loses its second line and is kept as an unknown field),
`Split` (the LOCUS date is not read: error) or the scan loop (no record) changes the answer. -/
example : GenBank.Fuels.model.Ge ∧ (GenBank.Fuels.plus 7).Ge ∧
    ((GenBank.genbankParserX (GenBank.Fuels.plus 7) GenBank.Registry.default).run' ⟨sampleRecord2, []⟩).1.toOption.map
      (fun r => r.1.fields.definition) = some (GenBank.bs "d\ne") ∧
    ((GenBank.genbankParser GenBank.Registry.default).run' ⟨sampleRecord2, []⟩).1.toOption.map
      (fun r => r.1.fields.definition) = some (GenBank.bs "d\ne") ∧
    cls ((GenBank.genbankParserX (starve 0) GenBank.Registry.default).run' ⟨sampleRecord2, []⟩).1 = 1 ∧
    ((GenBank.genbankParserX (starve 1) GenBank.Registry.default).run' ⟨sampleRecord2, []⟩).1.toOption.map
      (fun r => (r.1.fields.definition, r.1.fields.extra)) =
      some ([], [(GenBank.bs "DEFINITION", GenBank.bs "d")]) ∧
    cls ((GenBank.genbankParserX (starve 2) GenBank.Registry.default).run' ⟨sampleRecord2, []⟩).1 = 1 ∧
    (GenBank.readAllX (starve 3) GenBank.Registry.default sampleRecord2).map (fun r => (r.1.length, r.2.2)) =
      some (0, false) ∧
    (GenBank.readAll GenBank.Registry.default sampleRecord2).map (fun r => (r.1.length, r.2.2)) =
      some (1, true) := by
  refine ⟨GenBank.Fuels.model_ge, GenBank.Fuels.plus_ge 7, ?_⟩
  decide +kernel

end Gts.C07
