/-
  C15 — the multi-site edit commands act on exactly the located regions, in the INPUT's
  coordinates: the scan-loop bodies of `gts delete`, `insert`, `infix`, `split`, `rotate`,
  `extract` (`Gts/Model/Cli.lean`), for EVERY locator `loc : Seq → List Reg`.
  Property theorems only (helper lemmas live in Gts/Lemmas/Cli.lean).

  Residue-level statements are proved in full, against specs that mention positions of the
  input only:
    delete   removes exactly the union of the located regions (`keepUncovered`), whatever their
             order, strand, nesting, overlap — because the cuts are minimised (C09) and applied
             rightmost first; applied leftmost first the result is wrong (`…_ascending_refuted`);
    insert   (and infix) puts one guest copy per located region before the residue that had the
             region's 5' position in the input (`insertSpec`) — because the indices are applied
             in descending order; ascending order is wrong (`…_ascending_refuted`);
    split    linear: the pieces concatenate to the input; circular with at least two distinct
             cuts: to the input re-origined at the last cut; circular with ONE distinct cut
             (one region, or several sharing it): the record rotated to that position;
             together `split_concat_circular_any`, for every non-empty collection;
    rotate   the head of the first located region becomes position 0;
    extract  the emitted regions are the first occurrences of the located ones (or, with `-v`,
             exactly the maximal unlocated stretches, by C09), filtered by length.
  Feature-level statements ("features in every output denote the residues they denoted in the
  input"), for the whole loops (helper lemmas in Gts/Lemmas/CliFeatures.lean):
    delete   every feature kept in table order (`delete_feats`); its location denotes its former
             residues re-mapped by `Cli.unionDelMap` of the minimised located regions
             (`delete_features_partial`, `=` under `Nodup`), which is where the residues went
             (`delete_residue_at`), hence it READS the same residues (`…_residues_partial`);
             `-e`: exactly the features failing `Cli.eraseKeep` are dropped, never one that keeps
             a residue, always a plain range inside one located stretch;
    insert   table = host features + one guest copy per region (`insert_feats_perm`); host
             features re-mapped by `Cli.multiInsMap` (`insert_host_features_partial`), guest
             copies offset by their position in the OUTPUT (`guest_den_partial`,
             `guest_copy_bytes`); infix: the same outside the guest copies;
    rotate / linear split   C04 / C03 lifted to the loops (`rotate_features_partial`,
             `split_features_partial`: the windows partition the record and every residue of a
             feature is denoted by the feature's piece in exactly one window);
    circular split / extract   in `Gts/Props/C15Extract.lean` (same namespace).
  All under the K2 guards of the single steps folded along the loop (`Cli.delAbs`, `Cli.insAbs`);
  the unguarded statements are refuted (`…_full_refuted`).
-/
import Gts.Lemmas.Cli
import Gts.Lemmas.CliFeatures
import Gts.Props.C02
import Gts.Props.C03
import Gts.Props.C04
import Gts.Props.C09
namespace Gts.C15
open Gts Reg
open Gts.Cli (keepOff keepRange covB insOff insRange)

/-! ## delete -/

/-- SPEC: the residues of `bs` at the positions `k` (`0 ≤ k < bs.length`) that the region `r`
does not cover, in order. -/
def keepUncovered (r : Reg) (bs : List UInt8) : List UInt8 :=
  (List.range bs.length).filterMap fun (k : Nat) => if cover r (k : Int) then none else bs[k]?

/-- the spec, read as a left-to-right scan of the residues with a position counter -/
theorem keepUncovered_eq (r : Reg) (bs : List UInt8) :
    keepUncovered r bs = keepOff (fun k => decide (cover r (k : Int))) 0 bs := by
  rw [← Cli.keepRange_eq_keepOff]
  unfold keepUncovered keepRange
  simp

/-- **delete removes exactly the union of the located regions**, whatever their order, strand,
nesting and overlap, with or without `-e` (`erase`): for every locator whose regions lie inside
the record (`within`: every end of every leaf in `[0, len]`), the residues of the result are the
residues of the input at the positions no located region covers. -/
theorem delete_bytes (loc : Seq → List Reg) (erase : Bool) (s : Seq)
    (hw : within s.len (many (loc s))) :
    (Cli.delete loc erase s).bytes = keepUncovered (many (loc s)) s.bytes := by
  unfold Cli.delete
  rw [Cli.deleteSegs_bytes,
    Cli.foldr_cutB _ _ (minimize_fwd _) ((minimize_pairwise _).imp (fun h => Int.le_of_lt h))
      (minimize_within _ _ hw),
    keepUncovered_eq]
  apply Cli.keepOff_congr
  intro k _ _
  simp only [covB]
  exact decide_eq_decide.mpr (minimize_segsCover _ _)

/-- … hence the result is shorter by exactly the number of covered positions. -/
theorem delete_length (loc : Seq → List Reg) (erase : Bool) (s : Seq)
    (hw : within s.len (many (loc s))) :
    (Cli.delete loc erase s).bytes.length +
      ((List.range s.bytes.length).filter fun (k : Nat) => decide (cover (many (loc s)) (k : Int))).length =
      s.bytes.length := by
  rw [delete_bytes loc erase s hw, keepUncovered_eq, List.range_eq_range']
  exact Cli.keepOff_length _ 0 _

/-- Without any located region nothing is deleted. -/
theorem delete_none (loc : Seq → List Reg) (erase : Bool) (s : Seq) (h : loc s = []) :
    Cli.delete loc erase s = s := by
  unfold Cli.delete
  rw [h, minimize_nil_of _ (by simp)]
  rfl

/-- One step of the loop (the cuts run from the rightmost segment to the leftmost: `flip.Flip`):
the segment `a` is cut from the sequence from which everything to its right is already gone, by
`gts.Delete` or `gts.Erase` — whose effect on residues and features is C03 (`C03.delete_bytes`,
`C03.delete_feats`, `C03.erase_spec`). -/
theorem delete_step (erase : Bool) (a : Seg) (ss : List Seg) (s : Seq) :
    Cli.deleteSegs erase (a :: ss) s =
      if erase then (Cli.deleteSegs erase ss s).erase a.1 (Reg.gabs (a.2 - a.1))
      else (Cli.deleteSegs erase ss s).delete a.1 (Reg.gabs (a.2 - a.1)) := by
  unfold Cli.deleteSegs
  simp only [List.reverse_cons, List.foldl_append, List.foldl_cons, List.foldl_nil]

/-- `-e` only changes the feature table: the residues are the same. -/
theorem delete_erase_same_bytes (loc : Seq → List Reg) (s : Seq) :
    (Cli.delete loc true s).bytes = (Cli.delete loc false s).bytes := by
  unfold Cli.delete
  rw [Cli.deleteSegs_bytes, Cli.deleteSegs_bytes]

/-- the loop WITHOUT `flip.Flip`: the minimised segments are cut leftmost first -/
def deleteAscending (loc : Seq → List Reg) (erase : Bool) (s : Seq) : Seq :=
  (Reg.many (loc s)).minimize.foldl (fun acc sg =>
    let i := sg.1
    let n := Reg.gabs (sg.2 - sg.1)
    if erase then acc.erase i n else acc.delete i n) s

/-- The flip is needed: cutting in ASCENDING order is wrong, because every cut shifts the
coordinates to its right.  Deleting `[0,1)` and `[3,4)` from `ACGTA` must give `CGA`; ascending
order gives `CGT`. -/
theorem delete_ascending_refuted :
    ¬ (∀ (loc : Seq → List Reg) (erase : Bool) (s : Seq), within s.len (many (loc s)) →
        (deleteAscending loc erase s).bytes = keepUncovered (many (loc s)) s.bytes) := by
  intro h
  have := h (fun _ => [seg 0 1, seg 3 4]) false ⟨[], [65, 67, 71, 84, 65]⟩ (by decide)
  revert this
  unfold deleteAscending
  rw [minimize_eq]
  decide

/-! ## insert / infix -/

/-- SPEC: for every position `p = 0 … bs.length`, as many copies of the guest `g` as `p` occurs
in the index list, then the residue `bs[p]` (if `p < bs.length`). -/
def insertSpec (idx : List Int) (g bs : List UInt8) : List UInt8 :=
  (List.range (bs.length + 1)).flatMap fun (p : Nat) =>
    (List.replicate (idx.count (p : Int)) g).flatten ++ bs[p]?.toList

/-- The model's `sort.Sort(sort.Reverse(sort.IntSlice(indices)))` returns a permutation of its
input in descending order — what any correct sort returns (ties are equal integers). -/
theorem sortDesc_sorted_perm (l : List Int) :
    (Cli.sortDesc l).Perm l ∧ (Cli.sortDesc l).Pairwise (fun a b => b ≤ a) :=
  ⟨Cli.sortDesc_perm l, Cli.sortDesc_sorted l⟩

/-- **insert / infix put one guest copy per located region, at that region's 5' position
measured in the INPUT's coordinates** (`Cli.insert` is the loop body of both `gts insert` and
`gts infix` for one host and one guest record; `embed` is the `-e` flag: `gts.Embed` instead of
`gts.Insert`): if the head `h` of every located region satisfies
`0 ≤ h ≤ len`, the residues of the result are `insertSpec` of the list of heads.  Regions with
the same head give several copies at the same place. -/
theorem insert_bytes (loc : Seq → List Reg) (embed : Bool) (host guest : Seq)
    (hw : ∀ h ∈ (loc host).map Reg.head, 0 ≤ h ∧ h ≤ host.len) :
    (Cli.insert loc embed host guest).bytes =
      insertSpec ((loc host).map Reg.head) guest.bytes host.bytes := by
  unfold Cli.insert
  rw [Cli.insertAt_bytes,
    Cli.foldl_splice _ _ _ (Cli.sortDesc_sorted _) (fun i hi => hw i ((Cli.sortDesc_perm _).subset hi)),
    Cli.insOff_congr _ (fun k => ((loc host).map Reg.head).count (k : Int)) _ _ _
      (fun k _ _ => (Cli.sortDesc_perm _).count_eq _)]
  exact (Cli.insRange_eq_insOff (fun k => ((loc host).map Reg.head).count (k : Int)) guest.bytes 0
    host.bytes).symm

/-- … and the result grows by one guest length per located region (wherever the heads lie). -/
theorem insert_length (loc : Seq → List Reg) (embed : Bool) (host guest : Seq) :
    (Cli.insert loc embed host guest).bytes.length =
      host.bytes.length + (loc host).length * guest.bytes.length := by
  unfold Cli.insert
  rw [Cli.insertAt_bytes, Cli.foldl_splice_length, (Cli.sortDesc_perm _).length_eq, List.length_map]

/-- Without any located region the host is written unchanged. -/
theorem insert_none (loc : Seq → List Reg) (embed : Bool) (host guest : Seq) (h : loc host = []) :
    Cli.insert loc embed host guest = host := by
  unfold Cli.insert
  rw [h]
  rfl

/-- with and without `-e` (`gts.Embed` instead of `gts.Insert`) the residues are the same: the flag
only changes how host features spanning a site are re-located. -/
theorem insert_infix_same_bytes (loc : Seq → List Reg) (host guest : Seq) :
    (Cli.insert loc true host guest).bytes = (Cli.insert loc false host guest).bytes := by
  unfold Cli.insert
  rw [Cli.insertAt_bytes, Cli.insertAt_bytes]

/-- One step of the loop is `gts.Insert` (or `gts.Embed`) at the largest remaining index, whose
effect on residues and features is C02 (`C02.insert_bytes`, `C02.insert_table_perm`,
`C02.embed_table_perm`, `C02.shift_den_partial`, …). -/
theorem insert_step (embed : Bool) (i : Int) (idx : List Int) (host guest : Seq) :
    Cli.insertAt embed (i :: idx) host guest =
      Cli.insertAt embed idx (if embed then host.embed i guest else host.insert i guest) guest := rfl

/-- the loop WITHOUT the descending sort: ascending indices -/
def insertAscending (loc : Seq → List Reg) (embed : Bool) (host guest : Seq) : Seq :=
  Cli.insertAt embed (Cli.sortDesc ((loc host).map Reg.head)).reverse host guest

/-- The descending order is needed: in ASCENDING order every insertion shifts the later ones.
Inserting `N` at positions 1 and 3 of `ACGT` must give `ANCGNT`; ascending order gives `ANCNGT`. -/
theorem insert_ascending_refuted :
    ¬ (∀ (loc : Seq → List Reg) (embed : Bool) (host guest : Seq),
        (∀ h ∈ (loc host).map Reg.head, 0 ≤ h ∧ h ≤ host.len) →
        (insertAscending loc embed host guest).bytes =
          insertSpec ((loc host).map Reg.head) guest.bytes host.bytes) := by
  intro h
  have := h (fun _ => [seg 1 2, seg 3 4]) false ⟨[], [65, 67, 71, 84]⟩ ⟨[], [78]⟩ (by decide)
  revert this
  decide

/-! ## split -/

/-- The model's `sort.Ints` over the keys of the `unique` map returns the distinct cuts in
strictly ascending order. -/
theorem sortAscU_sorted_mem (l : List Int) :
    (Cli.sortAscU l).Pairwise (fun a b => a < b) ∧ ∀ x, x ∈ Cli.sortAscU l ↔ x ∈ l :=
  ⟨Cli.sortAscU_sorted l, fun x => Cli.mem_sortAscU x l⟩

/-- no located region: the record is written as it is (one piece) -/
theorem split_nil (loc : Seq → List Reg) (circular : Bool) (s : Seq) (h : loc s = []) :
    Cli.split loc circular s = [s] := by
  simp only [Cli.split, h]

/-- at least one located region: one rotation (circular and exactly one region: at its head;
circular and exactly one distinct cut: at that cut), else the pieces between consecutive cuts —
linear: `0, cuts…, len`; circular: `last cut, cuts…` -/
theorem split_cons (loc : Seq → List Reg) (circular : Bool) (s : Seq) (r0 : Reg) (rest : List Reg)
    (h : loc s = r0 :: rest) :
    Cli.split loc circular s =
      if (r0 :: rest).length = 1 ∧ circular then [s.rotate (-(r0.head))]
      else if circular ∧ (Cli.sortAscU ((r0 :: rest).map Cli.cutOf)).length = 1 then
        [s.rotate (-((Cli.sortAscU ((r0 :: rest).map Cli.cutOf)).headD 0))]
      else Cli.pieces s (if circular
        then (Cli.sortAscU ((r0 :: rest).map Cli.cutOf)).getLast?.toList ++
          Cli.sortAscU ((r0 :: rest).map Cli.cutOf)
        else (0 : Int) :: Cli.sortAscU ((r0 :: rest).map Cli.cutOf) ++ [s.len]) := by
  simp only [Cli.split, h]

/-- **linear split**: when every cut lies in `[0, len]`, the pieces, concatenated in the order
they are written, are the input — for any number of located regions, also none, also repeated
or unordered cuts (empty pieces are possible: a cut at 0, at `len`). -/
theorem split_concat_linear (loc : Seq → List Reg) (s : Seq)
    (hw : ∀ r ∈ loc s, 0 ≤ Cli.cutOf r ∧ Cli.cutOf r ≤ s.len) :
    ((Cli.split loc false s).map (·.bytes)).flatten = s.bytes := by
  cases hl : loc s with
  | nil => rw [split_nil loc false s hl]; simp
  | cons r0 rest =>
    rw [split_cons loc false s r0 rest hl]
    simp only [Bool.false_eq_true, and_false, if_false]
    have hlen : s.len = s.bytes.length := rfl
    have hmem : ∀ x ∈ Cli.sortAscU ((r0 :: rest).map Cli.cutOf), 0 ≤ x ∧ x ≤ s.len := by
      intro x hx
      obtain ⟨r, hr, rfl⟩ := List.mem_map.mp ((Cli.mem_sortAscU x _).mp hx)
      exact hw r (hl ▸ hr)
    have hs : ((0 : Int) :: (Cli.sortAscU ((r0 :: rest).map Cli.cutOf) ++ [s.len])).Pairwise
        (fun x y => x ≤ y) := by
      refine List.pairwise_cons.mpr ⟨?_, List.pairwise_append.mpr ⟨?_, by simp, ?_⟩⟩
      · intro b hb
        rcases List.mem_append.mp hb with hb | hb
        · exact (hmem b hb).1
        · rw [List.mem_singleton.mp hb]; omega
      · exact (Cli.sortAscU_sorted _).imp (fun h => Int.le_of_lt h)
      · intro a ha b hb
        rw [List.mem_singleton.mp hb]; exact (hmem a ha).2
    show ((Cli.pieces s ((0 : Int) :: (Cli.sortAscU ((r0 :: rest).map Cli.cutOf) ++ [s.len]))).map
      (·.bytes)).flatten = s.bytes
    rw [Cli.pieces_bytes s 0 _ hs (by omega), Cli.lastFrom_append]
    simp only [Int.toNat_zero, List.drop_zero, Int.sub_zero]
    apply List.take_of_length_le
    omega

/-- **circular split, one located region**: the record is rotated so that the region's head
becomes position 0 (one piece). -/
theorem split_circular_single (loc : Seq → List Reg) (s : Seq) (r : Reg) (h : loc s = [r]) :
    Cli.split loc true s = [s.rotate (-(r.head))] := by
  rw [split_cons loc true s r [] h]
  simp

/-- … whose residues are the input re-origined at that head (`0 ≤ head ≤ len`, `0 < len`). -/
theorem split_circular_single_bytes (loc : Seq → List Reg) (s : Seq) (r : Reg) (h : loc s = [r])
    (hL : 0 < s.len) (h0 : 0 ≤ r.head) (h1 : r.head ≤ s.len) :
    (Cli.split loc true s).map (·.bytes) = [s.bytes.drop r.head.toNat ++ s.bytes.take r.head.toNat] := by
  rw [split_circular_single loc s r h, List.map_singleton, Cli.rotate_neg_bytes s r.head h0 h1 hL]

/-- the byte-level behaviour of `gts.Slice(seq, a, b)` in its wrap-around branch (`0 ≤ b < a ≤
len`: rotate by `-a`, then slice forward): from `a` to the end, then from the start to `b` -/
theorem slice_bytes_wrap (s : Seq) (a b : Int) (hb : 0 ≤ b) (hab : b < a) (ha : a ≤ s.len) :
    (s.slice a b).bytes = s.bytes.drop a.toNat ++ s.bytes.take b.toNat :=
  Cli.slice_bytes_wrap s a b hb hab ha

/-- **circular split, at least two distinct cuts**, all inside `[0, len]`: the pieces,
concatenated in the order they are written, are the input re-origined at the LAST (largest) cut
`c`; the first piece runs across the origin, from `c` to the smallest cut. -/
theorem split_concat_circular (loc : Seq → List Reg) (s : Seq)
    (hw : ∀ r ∈ loc s, 0 ≤ Cli.cutOf r ∧ Cli.cutOf r ≤ s.len)
    (h2 : 2 ≤ (Cli.sortAscU ((loc s).map Cli.cutOf)).length) :
    ∃ c, (Cli.sortAscU ((loc s).map Cli.cutOf)).getLast? = some c ∧
      (∀ r ∈ loc s, Cli.cutOf r ≤ c) ∧
      ((Cli.split loc true s).map (·.bytes)).flatten =
        s.bytes.drop c.toNat ++ s.bytes.take c.toNat := by
  cases hl : loc s with
  | nil => rw [hl] at h2; simp [Cli.sortAscU] at h2
  | cons r0 rest =>
    rw [hl] at h2
    have hne : ¬ ((r0 :: rest).length = 1 ∧ true = true) := by
      rintro ⟨h1, _⟩
      cases rest with
      | nil => simp [Cli.sortAscU, Cli.insertAscU] at h2
      | cons _ _ => simp at h1
    have hmem : ∀ x ∈ Cli.sortAscU ((r0 :: rest).map Cli.cutOf), 0 ≤ x ∧ x ≤ s.len := by
      intro x hx
      obtain ⟨r, hr, rfl⟩ := List.mem_map.mp ((Cli.mem_sortAscU x _).mp hx)
      exact hw r (hl ▸ hr)
    have hsorted := Cli.sortAscU_sorted ((r0 :: rest).map Cli.cutOf)
    have hmax : ∀ c, (Cli.sortAscU ((r0 :: rest).map Cli.cutOf)).getLast? = some c →
        ∀ r ∈ r0 :: rest, Cli.cutOf r ≤ c := by
      intro c hc r hr
      have hin : Cli.cutOf r ∈ Cli.sortAscU ((r0 :: rest).map Cli.cutOf) :=
        (Cli.mem_sortAscU _ _).mpr (List.mem_map.mpr ⟨r, hr, rfl⟩)
      obtain ⟨ini, hini⟩ : ∃ ini, Cli.sortAscU ((r0 :: rest).map Cli.cutOf) = ini ++ [c] := by
        have := List.getLast?_eq_some_iff.mp hc
        exact this
      rw [hini] at hin hsorted
      rcases List.mem_append.mp hin with h | h
      · exact Int.le_of_lt ((List.pairwise_append.mp hsorted).2.2 _ h c (by simp))
      · rw [List.mem_singleton.mp h]; exact Int.le_refl _
    rw [split_cons loc true s r0 rest hl, if_neg hne]
    simp only [if_true]
    revert hmem hsorted hmax h2
    generalize Cli.sortAscU ((r0 :: rest).map Cli.cutOf) = heads
    intro h2 hmem hsorted hmax
    match heads, h2 with
    | a :: b :: t, _ =>
      have hc := Cli.getLast?_lastFrom a (b :: t)
      refine ⟨Cli.lastFrom a (b :: t), hc, hmax _ hc, ?_⟩
      rw [hc]
      have hp := List.pairwise_cons.mp hsorted
      have hcm : Cli.lastFrom a (b :: t) ∈ b :: t := Cli.lastFrom_mem b t
      have hac : a < Cli.lastFrom a (b :: t) := hp.1 _ hcm
      have hcl := (hmem _ (List.mem_cons_of_mem _ hcm)).2
      have ha0 := (hmem a (List.mem_cons_self ..)).1
      show ((Cli.pieces s (Cli.lastFrom a (b :: t) :: a :: b :: t)).map (·.bytes)).flatten = _
      simp only [Cli.pieces, List.map_cons, List.flatten_cons]
      have hpb := Cli.pieces_bytes s a (b :: t) (hsorted.imp (fun h => Int.le_of_lt h)) ha0
      simp only [Cli.pieces, List.map_cons, List.flatten_cons] at hpb
      rw [hpb, Cli.slice_bytes_wrap s _ a ha0 hac hcl, List.append_assoc]
      congr 1
      generalize Cli.lastFrom a (b :: t) = c at *
      have e : c.toNat = a.toNat + (c - a).toNat := by omega
      rw [e, List.take_add]

/-- **circular split, several located regions sharing ONE distinct cut** `c` (e.g. a gene and its
CDS): the circle is opened at `c` — one piece, the record rotated so that `c` becomes position 0
(split.go after repair 78dc8d4; before it the output was ONE EMPTY record). -/
theorem split_circular_one_cut (loc : Seq → List Reg) (s : Seq) (r0 r1 : Reg) (rest : List Reg)
    (h : loc s = r0 :: r1 :: rest) (c : Int)
    (hc : Cli.sortAscU ((loc s).map Cli.cutOf) = [c]) :
    Cli.split loc true s = [s.rotate (-c)] := by
  rw [split_cons loc true s r0 (r1 :: rest) h, ← h, hc]
  simp [h]

/-- … whose residues are the input re-origined at that cut. -/
theorem split_circular_one_cut_bytes (loc : Seq → List Reg) (s : Seq) (r0 r1 : Reg) (rest : List Reg)
    (h : loc s = r0 :: r1 :: rest) (c : Int)
    (hc : Cli.sortAscU ((loc s).map Cli.cutOf) = [c])
    (hL : 0 < s.len) (h0 : 0 ≤ c) (h1 : c ≤ s.len) :
    (Cli.split loc true s).map (·.bytes) = [s.bytes.drop c.toNat ++ s.bytes.take c.toNat] := by
  rw [split_circular_one_cut loc s r0 r1 rest h c hc, List.map_singleton,
    Cli.rotate_neg_bytes s c h0 h1 hL]

/-- the witness of the repaired defect F24: `ACGTAC`, circular, two regions with head 2 -/
theorem split_circular_one_cut_example :
    (Cli.split (fun _ => [seg 2 4, seg 2 5]) true ⟨[], [65, 67, 71, 84, 65, 67]⟩).map (·.bytes)
      = [[71, 84, 65, 67, 65, 67]] := by
  decide

/-- **circular split, at full strength**: for ANY non-empty collection of located regions on a
non-empty circular record, with every head and every cut inside `[0, len]`, the pieces,
concatenated in the order they are written, are the input re-origined at a located position `c`
— the head of the only region, the only distinct cut, or the last of several distinct cuts. -/
theorem split_concat_circular_any (loc : Seq → List Reg) (s : Seq) (hne : loc s ≠ [])
    (hL : 0 < s.len)
    (hw : ∀ r ∈ loc s, 0 ≤ Cli.cutOf r ∧ Cli.cutOf r ≤ s.len ∧ 0 ≤ r.head ∧ r.head ≤ s.len) :
    ∃ c, (∃ r ∈ loc s, c = Cli.cutOf r ∨ c = r.head) ∧
      ((Cli.split loc true s).map (·.bytes)).flatten =
        s.bytes.drop c.toNat ++ s.bytes.take c.toNat := by
  cases hl : loc s with
  | nil => exact absurd hl hne
  | cons r0 rest =>
    cases rest with
    | nil =>
      have hr := hw r0 (by rw [hl]; simp)
      refine ⟨r0.head, ⟨r0, by simp, Or.inr rfl⟩, ?_⟩
      rw [split_circular_single_bytes loc s r0 hl hL hr.2.2.1 hr.2.2.2]
      simp
    | cons r1 rest =>
      have hcut : ∀ x ∈ Cli.sortAscU ((loc s).map Cli.cutOf), ∃ r ∈ loc s, x = Cli.cutOf r := by
        intro x hx
        obtain ⟨r, hr, rfl⟩ := List.mem_map.mp ((Cli.mem_sortAscU x _).mp hx)
        exact ⟨r, hr, rfl⟩
      rw [← hl]
      by_cases h1 : (Cli.sortAscU ((loc s).map Cli.cutOf)).length = 1
      · obtain ⟨c, hc⟩ := List.length_eq_one_iff.mp h1
        obtain ⟨r, hr, hrc⟩ := hcut c (by rw [hc]; simp)
        have hb := hw r hr
        refine ⟨c, ⟨r, hr, Or.inl hrc⟩, ?_⟩
        rw [split_circular_one_cut_bytes loc s r0 r1 rest hl c hc hL (by omega) (by omega)]
        simp
      · have h2 : 2 ≤ (Cli.sortAscU ((loc s).map Cli.cutOf)).length := by
          have : (Cli.sortAscU ((loc s).map Cli.cutOf)).length ≠ 0 := by
            intro h0
            have hnil := List.eq_nil_of_length_eq_zero h0
            have : Cli.cutOf r0 ∈ Cli.sortAscU ((loc s).map Cli.cutOf) :=
              (Cli.mem_sortAscU _ _).mpr (List.mem_map.mpr ⟨r0, by rw [hl]; simp, rfl⟩)
            rw [hnil] at this; cases this
          omega
        obtain ⟨c, hlast, _, hcat⟩ := split_concat_circular loc s
          (fun r hr => ⟨(hw r hr).1, (hw r hr).2.1⟩) h2
        obtain ⟨r, hr, hrc⟩ := hcut c (List.mem_of_getLast? hlast)
        exact ⟨c, ⟨r, hr, Or.inl hrc⟩, hcat⟩

/-! ## rotate -/

/-- **rotate**: the head of the FIRST located region becomes position 0 (the other located
regions are ignored); the residues are a pure change of origin (C04 for the features:
`C04.rotate_table_perm`, `C04.rotate_den_partial`). -/
theorem rotate_first_head (loc : Seq → List Reg) (s : Seq) (r : Reg) (rest : List Reg)
    (h : loc s = r :: rest) (hL : 0 < s.len) (h0 : 0 ≤ r.head) (h1 : r.head ≤ s.len) :
    (Cli.rotate loc s).bytes = s.bytes.drop r.head.toNat ++ s.bytes.take r.head.toNat := by
  simp only [Cli.rotate, h]
  exact Cli.rotate_neg_bytes s r.head h0 h1 hL

/-- no located region: the record is unchanged -/
theorem rotate_none (loc : Seq → List Reg) (s : Seq) (h : loc s = []) : Cli.rotate loc s = s := by
  simp only [Cli.rotate, h]

/-- rotate and the one-region circular split do the same thing -/
theorem rotate_eq_split_single (loc : Seq → List Reg) (s : Seq) (r : Reg) (h : loc s = [r]) :
    Cli.split loc true s = [Cli.rotate loc s] := by
  rw [split_circular_single loc s r h]
  simp only [Cli.rotate, h]

/-! ## extract -/

/-- `reflect.DeepEqual` on regions, modelled by the derived-by-hand `==`, is equality. -/
theorem region_beq_iff_eq (a b : Reg) : (a == b) = true ↔ a = b := Cli.reg_beq_iff a b

/-- **de-duplication** (`containsRegion` + append): the result has no two `==`-equal elements,
has exactly the elements of the input, keeps the input's order (it is a sublist), and leaves an
input without repetitions untouched. -/
theorem extract_dedup (l : List Reg) :
    (Cli.dedupRegs [] l).Pairwise (fun a b => (a == b) = false) ∧
    (∀ x, x ∈ Cli.dedupRegs [] l ↔ x ∈ l) ∧
    (Cli.dedupRegs [] l).Sublist l ∧
    (l.Pairwise (fun a b => (a == b) = false) → Cli.dedupRegs [] l = l) := by
  refine ⟨?_, ?_, ?_, ?_⟩
  · have := Cli.dedupRegs_nodup [] l List.nodup_nil
    exact this.imp (fun h => (Cli.reg_beq_false_iff _ _).mpr h)
  · intro x; simpa using Cli.mem_dedupRegs [] l x
  · obtain ⟨l', h1, h2⟩ := Cli.dedupRegs_sublist [] l
    rw [h1]; simpa using h2
  · intro h
    have hn : l.Nodup := h.imp (fun h => (Cli.reg_beq_false_iff _ _).mp h)
    have := Cli.dedupRegs_of_nodup [] l (by simpa using hn)
    simpa using this

/-- … and it is the list of FIRST occurrences: one more region at the end is appended iff it
did not occur before. -/
theorem extract_dedup_snoc (l : List Reg) (r : Reg) :
    Cli.dedupRegs [] (l ++ [r]) =
      if l.any (· == r) then Cli.dedupRegs [] l else Cli.dedupRegs [] l ++ [r] := by
  rw [Cli.dedupRegs_snoc]
  have : (Cli.dedupRegs [] l).any (· == r) = l.any (· == r) := by
    rw [Bool.eq_iff_iff, Cli.any_beq_iff, Cli.any_beq_iff]
    simpa using Cli.mem_dedupRegs [] l r
  rw [this]

/-- **what is emitted**: the de-duplicated located regions (or, with `-v`, their linear
inversion), of which — unless there is exactly one — only those whose length differs from the
record's; each is then cut out by `Locate`. -/
theorem extract_regs_filter (locs : List (Seq → List Reg)) (invert : Bool) (s : Seq) :
    let rr0 := Cli.dedupRegs [] (locs.flatMap fun l => l s)
    let rr := if invert then invertLinear (many rr0) s.len else rr0
    (∀ r, r ∈ Cli.extractRegs locs invert s ↔ r ∈ rr ∧ (rr.length = 1 ∨ r.len ≠ s.len)) ∧
    (Cli.extractRegs locs invert s).Sublist rr ∧
    (rr.length = 1 → Cli.extractRegs locs invert s = rr) ∧
    Cli.extract locs invert s = (Cli.extractRegs locs invert s).map fun r => r.locate s := by
  intro rr0 rr
  have hdef : Cli.extractRegs locs invert s = rr.filter fun r => rr.length == 1 || r.len != s.len := rfl
  refine ⟨?_, ?_, ?_, rfl⟩
  · intro r
    rw [hdef, List.mem_filter]
    simp
  · rw [hdef]; exact List.filter_sublist
  · intro h1
    rw [hdef, List.filter_eq_self]
    intro a _
    simp [h1]

/-- **residues of an extracted forward segment** `h..t` (`0 ≤ h ≤ t`): exactly the window. -/
theorem extract_forward_bytes (s : Seq) (h t : Int) (h0 : 0 ≤ h) (ht : h ≤ t) :
    (Reg.locate (seg h t) s).bytes = (s.bytes.drop h.toNat).take (t - h).toNat := by
  simp only [Reg.locate, show ¬ t < h by omega, if_false]
  exact C03.slice_bytes_fwd s h t h0 ht

/-- **residues of an extracted backward segment** (`0 ≤ t < h`): the reverse complement of the
window `[t, h)`. -/
theorem extract_backward_bytes (s : Seq) (h t : Int) (h0 : 0 ≤ t) (ht : t < h) :
    (Reg.locate (seg h t) s).bytes =
      (((s.bytes.drop t.toNat).take (h - t).toNat).map Nuc.complementByte).reverse := by
  simp only [Reg.locate, ht, if_true]
  show ((s.slice t h).bytes.map Nuc.complementByte).reverse = _
  rw [C03.slice_bytes_fwd s t h h0 (by omega)]

/-- **residues of an extracted compound region**: the parts, in the order they are listed. -/
theorem extract_many_bytes (s : Seq) (rs : List Reg) :
    (Reg.locate (many rs) s).bytes = (rs.map fun r => (Reg.locate r s).bytes).flatten := by
  simp only [Reg.locate]
  rw [Cli.concat_bytes, Cli.locateList_eq_map, List.map_map]
  rfl

/-- **`-v`**: when every located region lies inside the record, the inverted regions are plain
forward segments, non-empty, inside `[0, len]`, increasing and pairwise disjoint, and inside
`[0, len)` they cover exactly the positions that NO located region covers; when no located leaf
is zero-length they do not abut either — they are exactly the maximal unlocated stretches
(C09 `invertLinear_partition`, `invertLinear_cover`, `invertLinear_nonabutting`). -/
theorem extract_invert_cover (locs : List (Seq → List Reg)) (s : Seq)
    (hw : within s.len (many (locs.flatMap fun l => l s))) :
    let located := locs.flatMap fun l => l s
    let inv := invertLinear (many (Cli.dedupRegs [] located)) s.len
    inv = (leaves (many inv)).map (fun g => seg g.1 g.2) ∧
    (∀ g ∈ leaves (many inv), 0 ≤ g.1 ∧ g.1 < g.2 ∧ g.2 ≤ s.len) ∧
    (leaves (many inv)).Pairwise (fun a b => a.2 ≤ b.1) ∧
    (∀ x, 0 ≤ x → x < s.len → (cover (many inv) x ↔ ¬ cover (many located) x)) ∧
    (nonEmpty (many located) → (leaves (many inv)).Pairwise (fun a b => a.2 < b.1)) := by
  intro located inv
  have hlen : (0 : Int) ≤ s.len := by unfold Seq.len; omega
  have hmem : ∀ x, x ∈ Cli.dedupRegs [] located ↔ x ∈ located := by
    intro x; simpa using Cli.mem_dedupRegs [] located x
  have hw' : within s.len (many (Cli.dedupRegs [] located)) := by
    rw [Cli.within_many_iff] at hw ⊢
    intro r hr; exact hw r ((hmem r).mp hr)
  have hcov : ∀ x, cover (many (Cli.dedupRegs [] located)) x ↔ cover (many located) x := by
    intro x
    rw [Cli.cover_many_iff, Cli.cover_many_iff]
    constructor
    · rintro ⟨r, hr, h⟩; exact ⟨r, (hmem r).mp hr, h⟩
    · rintro ⟨r, hr, h⟩; exact ⟨r, (hmem r).mpr hr, h⟩
  obtain ⟨hb, hp, _, _⟩ := C09.invertLinear_partition _ s.len hlen hw'
  refine ⟨?_, hb, hp, ?_, ?_⟩
  · show inv = _
    rw [leaves_invertLinear]
    rfl
  · intro x h0 h1
    rw [← hcov]
    exact C09.invertLinear_cover _ s.len hlen hw' x h0 h1
  · intro hne
    apply C09.invertLinear_nonabutting _ s.len hlen hw'
    rw [Cli.nonEmpty_many_iff] at hne ⊢
    intro r hr; exact hne r ((hmem r).mp hr)

/-! ## delete: what happens to the FEATURES (multi-site) -/

/-- **composition lemma (delete)**, pure arithmetic: for forward, increasing, pairwise disjoint
segments, folding the single-cut re-mappings `delMap s (e-s)` over the segments in DESCENDING
order (`Cli.composeDel`, the order of the loop) is `Cli.unionDelMap`, a re-mapping of the
INPUT's positions: a position inside some segment is removed, any other position `x` moves left
by the total length of the segments that end at or before `x`. -/
theorem delete_remap_compose_segs (ss : List Seg) (hf : ∀ o ∈ ss, o.1 ≤ o.2)
    (hp : ss.Pairwise (fun a b => a.2 ≤ b.1)) (x : Int) :
    Cli.composeDel ss x = Cli.unionDelMap ss x :=
  Cli.composeDel_eq_unionDelMap ss hf hp x

/-- … in particular for the minimised segments of ANY region (C09: forward, strictly increasing,
never abutting) — no hypothesis. -/
theorem delete_remap_compose (r : Reg) (x : Int) :
    Cli.composeDel (minimize r) x = Cli.unionDelMap (minimize r) x :=
  Cli.composeDel_eq_unionDelMap _ (minimize_fwd r) ((minimize_pairwise r).imp Int.le_of_lt) x

/-- the positions `unionDelMap` removes are exactly the positions some located region covers -/
theorem unionDelMap_removed_iff (r : Reg) (x : Int) :
    Cli.unionDelMap (minimize r) x = none ↔ cover r x := by
  unfold Cli.unionDelMap
  rw [← minimize_segsCover r x]
  split <;> simp [*]

/-- a position left of every located region stays where it is -/
theorem unionDelMap_left (r : Reg) (x : Int) (h : ∀ o ∈ minimize r, x < o.1) :
    Cli.unionDelMap (minimize r) x = some x := by
  unfold Cli.unionDelMap
  rw [if_neg, Cli.delOffset_zero_of_lt _ (minimize_fwd r) x h]
  · simp
  · rintro ⟨o, ho, h1, _⟩
    have := h o ho; omega

/-- **`unionDelMap` in words of the INPUT only**: a position `x ≥ 0` that no located region covers
moves left by the NUMBER OF COVERED POSITIONS below it (located regions at non-negative
positions) — the re-mapping does not depend on how the regions are presented. -/
theorem unionDelMap_eq_count (r : Reg) (hw : ∀ o ∈ minimize r, 0 ≤ o.1) (x : Int) (hx : 0 ≤ x)
    (hc : ¬ cover r x) :
    Cli.unionDelMap (minimize r) x =
      some (x - ((List.range x.toNat).countP fun (k : Nat) => decide (cover r (k : Int)) : Nat)) := by
  have hcs : ¬ segsCover (minimize r) x := fun h => hc ((minimize_segsCover r x).mp h)
  unfold Cli.unionDelMap
  rw [if_neg hcs, Cli.delOffset_eq_count _ (minimize_fwd r) ((minimize_pairwise r).imp Int.le_of_lt)
    hw x hx hcs]
  congr 3
  apply List.countP_congr
  intro k _
  simp only [Cli.covB]
  rw [decide_eq_decide.mpr (minimize_segsCover r _)]

/-- `unionDelMap` is injective where it is defined (two surviving residues never collide) -/
theorem unionDelMap_inj (r : Reg) (x x' y : Int) (h : Cli.unionDelMap (minimize r) x = some y)
    (h' : Cli.unionDelMap (minimize r) x' = some y) : x = x' := by
  rw [← delete_remap_compose] at h h'
  exact Cli.composeDel_inj _ x x' y h h'

/-- **`gts delete` keeps every feature**: the same number, in the same table order, with
unchanged key and qualifiers; each is re-located by `Cli.delLoc` — `Expand(head, -len)` for
every minimised segment, from the rightmost to the leftmost. -/
theorem delete_feats (loc : Seq → List Reg) (s : Seq) :
    (Cli.delete loc false s).feats =
      s.feats.map fun f => { f with loc := Cli.delLoc (minimize (many (loc s))) f.loc } :=
  Cli.deleteSegs_feats _ _

/-- FULL STATEMENT (false today through known finding K2 inside `Join`):
`∀ loc s, ∀ f ∈ s.feats, wf f.loc → ∃ f' ∈ (Cli.delete loc false s).feats, f'.key = f.key ∧
 f'.props = f.props ∧ den f'.loc ≼ filterMapPos (unionDelMap (minimize (many (loc s)))) (den f.loc)`;
witness: `join(4..6,9)` on a 10-residue record with `[6,8)` deleted loses base 9. -/
theorem delete_features_full_refuted :
    ¬ (∀ (loc : Seq → List Reg) (s : Seq) (f : Feature), f ∈ s.feats → f.loc.wf = true →
        ∃ f' ∈ (Cli.delete loc false s).feats, f'.key = f.key ∧ f'.props = f.props ∧
          f'.loc.den ≼ filterMapPos (Cli.unionDelMap (minimize (many (loc s)))) f.loc.den) := by
  intro h
  obtain ⟨f', hf', _, _, hden⟩ := h (fun _ => [seg 6 8])
    ⟨[⟨"gene", .joined [.ranged 3 6 false false, .point 8], []⟩], [97, 99, 103, 116, 97, 99, 103, 116, 97, 99]⟩
    ⟨"gene", .joined [.ranged 3 6 false false, .point 8], []⟩ (by simp) (by decide)
  rw [delete_feats] at hf'
  simp only [List.map_cons, List.map_nil, List.mem_singleton] at hf'
  subst hf'
  have := hden.2 (6, false) (by rw [minimize_eq]; decide)
  revert this
  rw [minimize_eq]
  decide

/-- **`gts delete`, every feature, every locator** (last sentence of the property): for every
feature `f` of the input record with a well-formed location of any kind, nesting and strand, and
every locator, the record written by `gts delete` contains a feature with the same key and
qualifiers whose location denotes exactly the residues `f` denoted in the INPUT that no located
region covers, at their new positions (`Cli.unionDelMap` of the minimised located regions), in
the same order and on the same strand (duplicate occurrences may be merged) — provided rule K2
fires in no `Join` of any step of the loop (`Cli.delAbs`, the conjunction of the single-step
guards `expandAbs`, decidable).  The located regions may overlap, nest, lie on either strand,
have zero length, or reach outside the record. -/
theorem delete_features_partial (loc : Seq → List Reg) (s : Seq) (f : Feature) (hf : f ∈ s.feats)
    (hw : f.loc.wf = true) (hk2 : Cli.delAbs (minimize (many (loc s))) f.loc = false) :
    ∃ f' ∈ (Cli.delete loc false s).feats, f'.key = f.key ∧ f'.props = f.props ∧
      f'.loc.den ≼ filterMapPos (Cli.unionDelMap (minimize (many (loc s)))) f.loc.den := by
  refine ⟨{ f with loc := Cli.delLoc (minimize (many (loc s))) f.loc }, ?_, rfl, rfl, ?_⟩
  · rw [delete_feats]; exact List.mem_map_of_mem hf
  · have h := (Cli.delLoc_den (minimize (many (loc s))) f.loc hw).1 hk2
    rw [show Cli.composeDel (minimize (many (loc s))) = Cli.unionDelMap (minimize (many (loc s))) from
      funext (delete_remap_compose _)] at h
    exact h

/-- … with EQUALITY for duplicate-free locations (every real feature). -/
theorem delete_features_eq_partial (loc : Seq → List Reg) (s : Seq) (f : Feature) (hf : f ∈ s.feats)
    (hw : f.loc.wf = true) (hk2 : Cli.delAbs (minimize (many (loc s))) f.loc = false)
    (hnd : f.loc.den.Nodup) :
    ∃ f' ∈ (Cli.delete loc false s).feats, f'.key = f.key ∧ f'.props = f.props ∧
      f'.loc.den = filterMapPos (Cli.unionDelMap (minimize (many (loc s)))) f.loc.den := by
  obtain ⟨f', h1, h2, h3, h4⟩ := delete_features_partial loc s f hf hw hk2
  exact ⟨f', h1, h2, h3, h4.eq_of_nodup
    (Cli.nodup_filterMapPos _ _ (unionDelMap_inj (many (loc s))) hnd)⟩

/-- the re-located features stay well-formed (so the theorems apply again to the output) -/
theorem delete_features_wf (loc : Seq → List Reg) (s : Seq) (f : Feature) (hw : f.loc.wf = true) :
    (Cli.delLoc (minimize (many (loc s))) f.loc).wf = true :=
  (Cli.delLoc_den _ f.loc hw).2

/-- **`gts delete -e`, which features are dropped**: exactly those failing `Cli.eraseKeep` — at
some cut of the loop the feature is not a `source` and its CURRENT location (after the cuts to
the right) lies wholly within the segment being cut (`gts.Erase`, C03 `erase_spec`); the others
survive in table order with unchanged key and qualifiers, re-located as under plain delete. -/
theorem delete_erase_feats (loc : Seq → List Reg) (s : Seq) :
    (Cli.delete loc true s).feats =
      (s.feats.filter (Cli.eraseKeep (minimize (many (loc s))))).map fun f =>
        { f with loc := Cli.delLoc (minimize (many (loc s))) f.loc } :=
  Cli.deleteSegs_erase_feats _ _

/-- a `source` feature is never dropped -/
theorem delete_erase_keeps_source (ss : List Seg) (f : Feature) (h : f.key = "source") :
    Cli.eraseKeep ss f = true := by
  induction ss with
  | nil => rfl
  | cons a ss ih => simp [Cli.eraseKeep, ih, h]

/-- without any located region nothing is dropped; a feature is dropped at the first (rightmost)
cut at which its current location lies within the cut -/
theorem delete_erase_keep_iff (a : Seg) (ss : List Seg) (f : Feature) :
    Cli.eraseKeep (a :: ss) f = true ↔
      Cli.eraseKeep ss f = true ∧
        (f.key = "source" ∨ (Cli.delLoc ss f.loc).within a.1 (a.1 + Reg.gabs (a.2 - a.1)) = false) := by
  simp [Cli.eraseKeep]

/-- **`gts delete -e`, surviving features** denote their former residues like under plain delete -/
theorem delete_erase_features_partial (loc : Seq → List Reg) (s : Seq) (f : Feature) (hf : f ∈ s.feats)
    (hkeep : Cli.eraseKeep (minimize (many (loc s))) f = true)
    (hw : f.loc.wf = true) (hk2 : Cli.delAbs (minimize (many (loc s))) f.loc = false) :
    ∃ f' ∈ (Cli.delete loc true s).feats, f'.key = f.key ∧ f'.props = f.props ∧
      f'.loc.den ≼ filterMapPos (Cli.unionDelMap (minimize (many (loc s)))) f.loc.den := by
  refine ⟨{ f with loc := Cli.delLoc (minimize (many (loc s))) f.loc }, ?_, rfl, rfl, ?_⟩
  · rw [delete_erase_feats]; exact List.mem_map_of_mem (List.mem_filter.mpr ⟨hf, hkeep⟩)
  · have h := (Cli.delLoc_den (minimize (many (loc s))) f.loc hw).1 hk2
    rw [show Cli.composeDel (minimize (many (loc s))) = Cli.unionDelMap (minimize (many (loc s))) from
      funext (delete_remap_compose _)] at h
    exact h

/-- … and every feature of the `-e` output comes from a kept feature of the input -/
theorem delete_erase_feature_origin (loc : Seq → List Reg) (s : Seq) (f' : Feature)
    (hf' : f' ∈ (Cli.delete loc true s).feats) :
    ∃ f ∈ s.feats, Cli.eraseKeep (minimize (many (loc s))) f = true ∧ f'.key = f.key ∧
      f'.props = f.props ∧ f'.loc = Cli.delLoc (minimize (many (loc s))) f.loc := by
  rw [delete_erase_feats] at hf'
  obtain ⟨f, hf, rfl⟩ := List.mem_map.mp hf'
  obtain ⟨hm, hk⟩ := List.mem_filter.mp hf
  exact ⟨f, hm, hk, rfl, rfl, rfl⟩

/-- **`gts delete -e` never drops a feature that keeps a residue** (safety, in terms of the
INPUT): if a feature with a well-formed location is dropped, every residue it denoted is covered
by a located region — provided K2 fires in no step before the drop. -/
theorem delete_erase_dropped_covered_partial (loc : Seq → List Reg) (s : Seq) (f : Feature)
    (hw : f.loc.wf = true) (hk2 : Cli.delAbs (minimize (many (loc s))) f.loc = false)
    (hd : Cli.eraseKeep (minimize (many (loc s))) f = false) :
    ∀ p ∈ f.loc.den, cover (many (loc s)) p.1 := by
  intro p hp
  rw [← unionDelMap_removed_iff, ← delete_remap_compose]
  exact Cli.composeDel_none_of_dropped _ f hw hk2 hd p hp

/-- … equivalently: a feature one of whose residues survives is kept (with that residue). -/
theorem delete_erase_kept_of_survivor_partial (loc : Seq → List Reg) (s : Seq) (f : Feature)
    (hw : f.loc.wf = true) (hk2 : Cli.delAbs (minimize (many (loc s))) f.loc = false)
    (p : Pos) (hp : p ∈ f.loc.den) (hs : ¬ cover (many (loc s)) p.1) :
    Cli.eraseKeep (minimize (many (loc s))) f = true := by
  cases h : Cli.eraseKeep (minimize (many (loc s))) f with
  | true => rfl
  | false => exact absurd (delete_erase_dropped_covered_partial loc s f hw hk2 h p hp) hs

/-- **`gts delete -e` drops every plain range lying within one maximal located stretch**
(liveness for the contiguous kind, in terms of the INPUT): a non-`source` feature `s..e` with
`[s, e)` inside one minimised segment of the located regions fails `eraseKeep`, so it is not
written (`delete_erase_feats`).  No guard: a range is never `Join`ed. -/
theorem delete_erase_drops_ranged (loc : Seq → List Reg) (s : Seq) (f : Feature)
    (st e : Int) (p5 p3 : Bool) (hloc : f.loc = .ranged st e p5 p3) (hse : st < e)
    (hns : f.key ≠ "source") (a : Seg) (ha : a ∈ minimize (many (loc s)))
    (hin : a.1 ≤ st ∧ e ≤ a.2) :
    Cli.eraseKeep (minimize (many (loc s))) f = false := by
  obtain ⟨pre, post, hsplit⟩ := List.append_of_mem ha
  have hp := minimize_pairwise (many (loc s))
  rw [hsplit] at hp ⊢
  have hpost := (List.pairwise_cons.mp (List.pairwise_append.mp hp).2.1).1
  exact Cli.eraseKeep_false_of_ranged_within pre a post f st e p5 p3 hloc hse hns hin
    (fun b hb => by have := hpost b hb; omega)

/-! ## insert / infix: what happens to the FEATURES (multi-site) -/

/-- **composition lemma (insert)**, pure arithmetic: folding the single-insertion re-mappings
`insMap h g` over the heads in DESCENDING order (`Cli.composeIns`, the order of the loop;
duplicates allowed) is `Cli.multiInsMap`, a re-mapping of the INPUT's positions: `x` moves right
by `g · #{h ∈ heads | h ≤ x}` (the boundary convention of `insMap`: the residue AT a head moves). -/
theorem insert_remap_compose (heads : List Int) (g : Int) (hg : 0 ≤ g) (x : Int) :
    Cli.composeIns g (Cli.sortDesc heads) x = Cli.multiInsMap heads g x := by
  rw [Cli.composeIns_eq_multiInsMap g hg _ (Cli.sortDesc_sorted heads),
    Cli.multiInsMap_perm (Cli.sortDesc_perm heads)]

/-- `multiInsMap` is injective (two host residues never collide) and monotone bounds -/
theorem multiInsMap_inj (heads : List Int) (g : Int) (hg : 0 ≤ g) (x x' : Int)
    (h : Cli.multiInsMap heads g x = Cli.multiInsMap heads g x') : x = x' := by
  rw [← insert_remap_compose heads g hg, ← insert_remap_compose heads g hg] at h
  exact Cli.composeIns_inj g hg _ x x' h

/-- **feature table after `gts insert` / `gts infix`**: every host feature exactly once
(re-located by `Cli.insLoc`: `Shift(i, n)` — infix: `Expand(i, n)` — for every head, descending)
and one copy of every guest feature per located region (`Cli.guestCopies`: `Expand(0, i)`, then
re-located like a host feature by the later insertions); keys and qualifiers unchanged. -/
theorem insert_feats_perm (loc : Seq → List Reg) (embed : Bool) (host guest : Seq) :
    (Cli.insert loc embed host guest).feats.Perm
      (host.feats.map (Cli.relocate embed guest.len (Cli.sortDesc ((loc host).map Reg.head))) ++
        Cli.guestCopies embed guest.len guest.feats (Cli.sortDesc ((loc host).map Reg.head))) :=
  Cli.insertAt_feats_perm embed _ host guest

/-- … hence `|host| + #regions · |guest|` features -/
theorem insert_feature_count (loc : Seq → List Reg) (embed : Bool) (host guest : Seq) :
    (Cli.insert loc embed host guest).feats.length =
      host.feats.length + (loc host).length * guest.feats.length := by
  rw [(insert_feats_perm loc embed host guest).length_eq, List.length_append, List.length_map,
    Cli.guestCopies_length, (Cli.sortDesc_perm _).length_eq, List.length_map]

/-- FULL STATEMENT (false today through known finding K2 inside `Join`): the same without the
guard; witness: `join(4..6,7)` with an empty guest inserted at 0 (C02 `shift_den_full_refuted`). -/
theorem insert_host_features_full_refuted :
    ¬ (∀ (loc : Seq → List Reg) (host guest : Seq) (f : Feature), f ∈ host.feats → f.loc.wf = true →
        ∃ f' ∈ (Cli.insert loc false host guest).feats, f'.key = f.key ∧ f'.props = f.props ∧
          f'.loc.den ≼ mapPos (Cli.multiInsMap ((loc host).map Reg.head) guest.len) f.loc.den) := by
  intro h
  obtain ⟨f', hf', _, _, hden⟩ := h (fun _ => [seg 0 1])
    ⟨[⟨"gene", .joined [.ranged 3 6 false false, .point 6], []⟩], [97, 99, 103, 116, 97, 99, 103, 116, 97, 99]⟩
    ⟨[], []⟩ ⟨"gene", .joined [.ranged 3 6 false false, .point 6], []⟩ (by simp) (by decide)
  have hp : f' ∈ [Cli.relocate false 0 [0]
      ⟨"gene", .joined [.ranged 3 6 false false, .point 6], []⟩] :=
    (insert_feats_perm _ false _ _).subset hf'
  rw [List.mem_singleton] at hp
  subst hp
  have := hden.2 (6, false) (by decide)
  revert this
  decide

/-- **`gts insert`, host features, every locator** (last sentence of the property): for every
host feature `f` with a well-formed location of any kind, nesting and strand, the record written
by `gts insert` contains a feature with the same key and qualifiers whose location denotes
exactly the residues `f` denoted in the INPUT, at their new positions (`Cli.multiInsMap` of the
heads of the located regions: one guest length per head at or before the residue), same order
and strand — provided K2 fires in no `Join` of any step (`Cli.insAbs false`, the conjunction of
the single-step guards `shiftAbs`).  Heads may repeat, be unordered, or lie outside the record. -/
theorem insert_host_features_partial (loc : Seq → List Reg) (host guest : Seq) (f : Feature)
    (hf : f ∈ host.feats) (hw : f.loc.wf = true)
    (hk2 : Cli.insAbs false guest.len (Cli.sortDesc ((loc host).map Reg.head)) f.loc = false) :
    ∃ f' ∈ (Cli.insert loc false host guest).feats, f'.key = f.key ∧ f'.props = f.props ∧
      f'.loc.den ≼ mapPos (Cli.multiInsMap ((loc host).map Reg.head) guest.len) f.loc.den := by
  refine ⟨Cli.relocate false guest.len (Cli.sortDesc ((loc host).map Reg.head)) f, ?_, rfl, rfl, ?_⟩
  · exact (insert_feats_perm loc false host guest).symm.subset
      (List.mem_append_left _ (List.mem_map_of_mem hf))
  · have h := (Cli.insLoc_den guest.len guest.len_nonneg _ f.loc hw).1 hk2
    rw [show Cli.composeIns guest.len (Cli.sortDesc ((loc host).map Reg.head)) =
        Cli.multiInsMap ((loc host).map Reg.head) guest.len from
      funext (insert_remap_compose _ _ guest.len_nonneg)] at h
    exact h

/-- … with EQUALITY for duplicate-free locations (every real feature). -/
theorem insert_host_features_eq_partial (loc : Seq → List Reg) (host guest : Seq) (f : Feature)
    (hf : f ∈ host.feats) (hw : f.loc.wf = true)
    (hk2 : Cli.insAbs false guest.len (Cli.sortDesc ((loc host).map Reg.head)) f.loc = false)
    (hnd : f.loc.den.Nodup) :
    ∃ f' ∈ (Cli.insert loc false host guest).feats, f'.key = f.key ∧ f'.props = f.props ∧
      f'.loc.den = mapPos (Cli.multiInsMap ((loc host).map Reg.head) guest.len) f.loc.den := by
  obtain ⟨f', h1, h2, h3, h4⟩ := insert_host_features_partial loc host guest f hf hw hk2
  exact ⟨f', h1, h2, h3, h4.eq_of_nodup
    (Cli.nodup_mapPos _ _ (multiInsMap_inj _ _ guest.len_nonneg) hnd)⟩

/-- **`gts infix` (`Embed`), host features**: `Expand` stretches a part that spans a head over
the guest copy there (that is the point of infix), so the law is stated like C02
`expand_den_partial`: OUTSIDE the guest copies (`Cli.stripGuests` removes the residues of every
copy, whose output positions are `Cli.copyStarts`) the location denotes exactly the residues
`f` denoted in the input, at their new positions — under the folded guard `Cli.insAbs true`. -/
theorem infix_host_features_partial (loc : Seq → List Reg) (host guest : Seq) (f : Feature)
    (hf : f ∈ host.feats) (hw : f.loc.wf = true)
    (hk2 : Cli.insAbs true guest.len (Cli.sortDesc ((loc host).map Reg.head)) f.loc = false) :
    ∃ f' ∈ (Cli.insert loc true host guest).feats, f'.key = f.key ∧ f'.props = f.props ∧
      Cli.stripGuests (Cli.copyStarts guest.len (Cli.sortDesc ((loc host).map Reg.head))) guest.len
          f'.loc.den ≼
        mapPos (Cli.multiInsMap ((loc host).map Reg.head) guest.len) f.loc.den := by
  refine ⟨Cli.relocate true guest.len (Cli.sortDesc ((loc host).map Reg.head)) f, ?_, rfl, rfl, ?_⟩
  · exact (insert_feats_perm loc true host guest).symm.subset
      (List.mem_append_left _ (List.mem_map_of_mem hf))
  · have h := (Cli.embLoc_den guest.len guest.len_nonneg _ (Cli.sortDesc_sorted _) f.loc hw).1 hk2
    rw [show Cli.composeIns guest.len (Cli.sortDesc ((loc host).map Reg.head)) =
        Cli.multiInsMap ((loc host).map Reg.head) guest.len from
      funext (insert_remap_compose _ _ guest.len_nonneg)] at h
    exact h

/-- the descending head list, cut at one of its elements: what follows is descending and `≤` it -/
theorem sortDesc_split (heads pre post : List Int) (i : Int)
    (h : Cli.sortDesc heads = pre ++ i :: post) :
    post.Pairwise (fun a b => b ≤ a) ∧ (∀ a ∈ post, a ≤ i) ∧ i ∈ heads ∧ (∀ a ∈ post, a ∈ heads) := by
  have hs := Cli.sortDesc_sorted heads
  rw [h] at hs
  have h2 := List.pairwise_cons.mp (List.pairwise_append.mp hs).2.1
  have hm : ∀ a ∈ pre ++ i :: post, a ∈ heads := fun a ha =>
    (Cli.sortDesc_perm heads).subset (h ▸ ha)
  exact ⟨h2.2, h2.1, hm i (by simp), fun a ha => hm a (by simp [ha])⟩

/-- **guest features, every copy** (`gts insert`): let the descending head list be
`pre ++ i :: post`.  The copy inserted at `i` ends up at position `i + |guest| · |post|` of the
OUTPUT (it is moved by the `|post|` later insertions), and each of its features — same key and
qualifiers as in the guest — denotes the guest's residues offset by exactly that position.
Hypotheses: `0 ≤ i`, guest location well-formed with non-negative coordinates, K2 guards of
`Expand(0, i)` and of the later steps. -/
theorem guest_den_partial (loc : Seq → List Reg) (host guest : Seq) (pre post : List Int) (i : Int)
    (hsplit : Cli.sortDesc ((loc host).map Reg.head) = pre ++ i :: post) (hi : 0 ≤ i)
    (f : Feature) (hf : f ∈ guest.feats) (hw : f.loc.wf = true) (hnn : f.loc.nonneg = true)
    (g1 : Loc.expandAbs f.loc 0 i = false)
    (g2 : Cli.insAbs false guest.len post (f.loc.expand 0 i) = false) :
    ∃ f' ∈ (Cli.insert loc false host guest).feats, f'.key = f.key ∧ f'.props = f.props ∧
      f'.loc.den ≼ mapPos (· + (i + guest.len * post.length)) f.loc.den := by
  obtain ⟨hs, hpost, _, _⟩ := sortDesc_split _ pre post i hsplit
  refine ⟨Cli.relocate false guest.len post { f with loc := f.loc.expand 0 i }, ?_, rfl, rfl, ?_⟩
  · apply (insert_feats_perm loc false host guest).symm.subset
    rw [hsplit]
    exact List.mem_append_right _ (Cli.mem_guestCopies false guest.len guest.feats pre i post f hf)
  · exact Cli.guestLoc_den guest.len guest.len_nonneg i hi post hs hpost f.loc hw hnn g1 g2

/-- **guest features, every copy** (`gts infix`): the same outside the LATER guest copies
(`Expand` of a later insertion at an index `≤ i` only translates the copy; the statement keeps
the form of C02 `expand_den_partial`). -/
theorem infix_guest_den_partial (loc : Seq → List Reg) (host guest : Seq) (pre post : List Int) (i : Int)
    (hsplit : Cli.sortDesc ((loc host).map Reg.head) = pre ++ i :: post) (hi : 0 ≤ i)
    (f : Feature) (hf : f ∈ guest.feats) (hw : f.loc.wf = true) (hnn : f.loc.nonneg = true)
    (g1 : Loc.expandAbs f.loc 0 i = false)
    (g2 : Cli.insAbs true guest.len post (f.loc.expand 0 i) = false) :
    ∃ f' ∈ (Cli.insert loc true host guest).feats, f'.key = f.key ∧ f'.props = f.props ∧
      Cli.stripGuests (Cli.copyStarts guest.len post) guest.len f'.loc.den ≼
        mapPos (· + (i + guest.len * post.length)) f.loc.den := by
  obtain ⟨hs, hpost, _, _⟩ := sortDesc_split _ pre post i hsplit
  refine ⟨Cli.relocate true guest.len post { f with loc := f.loc.expand 0 i }, ?_, rfl, rfl, ?_⟩
  · apply (insert_feats_perm loc true host guest).symm.subset
    rw [hsplit]
    exact List.mem_append_right _ (Cli.mem_guestCopies true guest.len guest.feats pre i post f hf)
  · exact Cli.guestLoc_emb_den guest.len guest.len_nonneg i hi post hs hpost f.loc hw hnn g1 g2

/-- **… and that position is where the copy's residues are**: with every head in `[0, len]`, the
output of `gts insert` / `gts infix` reads the guest's residues at
`[i + |guest| · |post|, i + |guest| · |post| + |guest|)`. -/
theorem guest_copy_bytes (loc : Seq → List Reg) (embed : Bool) (host guest : Seq)
    (hw : ∀ h ∈ (loc host).map Reg.head, 0 ≤ h ∧ h ≤ host.len) (pre post : List Int) (i : Int)
    (hsplit : Cli.sortDesc ((loc host).map Reg.head) = pre ++ i :: post) :
    ((Cli.insert loc embed host guest).bytes.drop (i + guest.len * post.length).toNat).take
      guest.bytes.length = guest.bytes := by
  obtain ⟨_, hpost, hi, hpm⟩ := sortDesc_split _ pre post i hsplit
  have hi' := hw i hi
  unfold Cli.insert
  rw [Cli.insertAt_bytes, hsplit]
  have e : (i + guest.len * post.length).toNat = i.toNat + post.length * guest.bytes.length := by
    have : guest.len * (post.length : Int) = ((post.length * guest.bytes.length : Nat) : Int) := by
      unfold Seq.len; rw [Int.natCast_mul, Int.mul_comm]
    rw [this]; omega
  rw [e]
  exact Cli.foldl_splice_copy pre i post guest.bytes host.bytes hi'
    (fun a ha => ⟨(hw a (hpm a ha)).1, hpost a ha⟩)

/-! ## non-vacuity -/

/-- `ACGTAC` -/
def s0 : Seq := ⟨[], [65, 67, 71, 84, 65, 67]⟩

/-- a backward segment and a nested, overlapping compound region -/
def loc0 : Seq → List Reg := fun _ => [seg 4 1, many [seg 0 2, seg 1 3]]

example : within s0.len (many (loc0 s0)) := by decide
example : keepUncovered (many (loc0 s0)) s0.bytes = [65, 67] := by decide
example : (Cli.delete loc0 false s0).bytes = [65, 67] := by
  unfold Cli.delete; rw [minimize_eq]; decide
example : (Cli.delete loc0 true s0).bytes = [65, 67] := by
  unfold Cli.delete; rw [minimize_eq]; decide

example : ∀ h ∈ (loc0 s0).map Reg.head, 0 ≤ h ∧ h ≤ s0.len := by decide
example : insertSpec ((loc0 s0).map Reg.head) [78, 78] s0.bytes = [78, 78, 65, 67, 71, 84, 78, 78, 65, 67] := by
  decide
example : (Cli.insert loc0 false s0 ⟨[], [78, 78]⟩).bytes = [78, 78, 65, 67, 71, 84, 78, 78, 65, 67] := by
  decide
/-- two regions with the same head: two copies at the same place -/
example : (Cli.insert (fun _ => [seg 2 3, seg 2 5]) true s0 ⟨[], [78]⟩).bytes = [65, 67, 78, 78, 71, 84, 65, 67] := by
  decide

example : ∀ r ∈ loc0 s0, 0 ≤ Cli.cutOf r ∧ Cli.cutOf r ≤ s0.len := by decide
example : (Cli.split loc0 false s0).map (·.bytes) = [[], [65], [67, 71, 84, 65, 67]] := by decide
example : 2 ≤ (Cli.sortAscU ((loc0 s0).map Cli.cutOf)).length := by decide
example : (Cli.split loc0 true s0).map (·.bytes) = [[67, 71, 84, 65, 67], [65]] := by decide
example : (Cli.split (fun _ => [seg 4 1]) true s0).map (·.bytes) = [[65, 67, 65, 67, 71, 84]] := by decide

example : (Cli.rotate loc0 s0).bytes = [65, 67, 65, 67, 71, 84] := by decide

example : (Cli.extract [loc0, loc0] false s0).map (·.bytes) = [[65, 67, 71], [65, 67, 67, 71]] := by decide
example : (Cli.extract [loc0] true s0).map (·.bytes) = [[65, 67]] := by
  simp only [Cli.extract, Cli.extractRegs, invertLinear_eq, minimize_eq]; decide
example : within s0.len (many ([loc0].flatMap fun l => l s0)) ∧ nonEmpty (many ([loc0].flatMap fun l => l s0)) := by
  decide

/-! ## the re-mappings are what the loops do to the RESIDUES, hence: features read the same residues -/

/-- **`unionDelMap` is where `gts delete` puts the residues**: the surviving residue that was at
position `x ≥ 0` of the input is at position `unionDelMap … x` of the output (located regions
inside the record). -/
theorem delete_residue_at (loc : Seq → List Reg) (erase : Bool) (s : Seq)
    (hw : within s.len (many (loc s))) (x y : Int) (hx : 0 ≤ x)
    (h : Cli.unionDelMap (minimize (many (loc s))) x = some y) :
    0 ≤ y ∧ (Cli.delete loc erase s).bytes[y.toNat]? = s.bytes[x.toNat]? := by
  unfold Cli.delete
  rw [Cli.deleteSegs_bytes]
  rw [← delete_remap_compose] at h
  exact Cli.foldr_cutB_get _ _
    (fun o ho => ⟨(minimize_within _ _ hw o ho).1, minimize_fwd _ o ho⟩) x y hx h

/-- **`multiInsMap` is where `gts insert` / `gts infix` put the host's residues**: the residue at
position `x` of the host (`0 ≤ x < len`) is at position `multiInsMap heads |guest| x` of the
output (every head `≥ 0`). -/
theorem insert_residue_at (loc : Seq → List Reg) (embed : Bool) (host guest : Seq)
    (hw : ∀ h ∈ (loc host).map Reg.head, 0 ≤ h) (x : Int) (hx : 0 ≤ x) (hxl : x < host.len) :
    (Cli.insert loc embed host guest).bytes[(Cli.multiInsMap ((loc host).map Reg.head) guest.len x).toNat]? =
      host.bytes[x.toNat]? := by
  unfold Cli.insert
  rw [Cli.insertAt_bytes, ← insert_remap_compose _ _ guest.len_nonneg]
  exact Cli.foldl_splice_get _ guest.bytes host.bytes
    (fun i hi => hw i ((Cli.sortDesc_perm _).subset hi)) x hx hxl

/-- a residue as a feature reads it: the byte at the position (if any) and the strand -/
def readAt (bs : List UInt8) (p : Pos) : Option UInt8 × Bool := (bs[p.1.toNat]?, p.2)

/-- **`gts delete`: every feature reads, in the output, the residues it read in the input** — the
last sentence of the property, literally: for a feature `f` with a well-formed, duplicate-free
location on non-negative positions, the written record has a feature with the same key and
qualifiers whose location reads (`readAt`: byte and strand, in order) from the OUTPUT residues
exactly what `f`'s location read from the INPUT residues at the positions no located region
covers.  Guards: located regions inside the record, K2 in no step (`Cli.delAbs`). -/
theorem delete_features_residues_partial (loc : Seq → List Reg) (s : Seq) (f : Feature)
    (hf : f ∈ s.feats) (hwr : within s.len (many (loc s)))
    (hw : f.loc.wf = true) (hk2 : Cli.delAbs (minimize (many (loc s))) f.loc = false)
    (hnd : f.loc.den.Nodup) (hpos : ∀ p ∈ f.loc.den, 0 ≤ p.1) :
    ∃ f' ∈ (Cli.delete loc false s).feats, f'.key = f.key ∧ f'.props = f.props ∧
      f'.loc.den.map (readAt (Cli.delete loc false s).bytes) =
        (f.loc.den.filter fun p => !decide (cover (many (loc s)) p.1)).map (readAt s.bytes) := by
  obtain ⟨f', h1, h2, h3, h4⟩ := delete_features_eq_partial loc s f hf hw hk2 hnd
  refine ⟨f', h1, h2, h3, ?_⟩
  rw [h4]
  apply Cli.map_filterMapPos_eq
  intro p hp
  cases hy : Cli.unionDelMap (minimize (many (loc s))) p.1 with
  | none =>
    left
    exact ⟨rfl, by simp [(unionDelMap_removed_iff _ _).mp hy]⟩
  | some y =>
    right
    refine ⟨y, rfl, ?_, ?_⟩
    · have : ¬ cover (many (loc s)) p.1 := by
        intro hc
        rw [(unionDelMap_removed_iff _ _).mpr hc] at hy
        cases hy
      simp [this]
    · have := (delete_residue_at loc false s hwr p.1 y (hpos p hp) hy).2
      simp only [readAt, this]

/-- **`gts insert`: every host feature reads, in the output, the residues it read in the host**
(location well-formed, duplicate-free, on positions of the host; every head `≥ 0`; K2 in no
step). -/
theorem insert_host_features_residues_partial (loc : Seq → List Reg) (host guest : Seq) (f : Feature)
    (hf : f ∈ host.feats) (hwh : ∀ h ∈ (loc host).map Reg.head, 0 ≤ h) (hw : f.loc.wf = true)
    (hk2 : Cli.insAbs false guest.len (Cli.sortDesc ((loc host).map Reg.head)) f.loc = false)
    (hnd : f.loc.den.Nodup) (hpos : ∀ p ∈ f.loc.den, 0 ≤ p.1 ∧ p.1 < host.len) :
    ∃ f' ∈ (Cli.insert loc false host guest).feats, f'.key = f.key ∧ f'.props = f.props ∧
      f'.loc.den.map (readAt (Cli.insert loc false host guest).bytes) =
        f.loc.den.map (readAt host.bytes) := by
  obtain ⟨f', h1, h2, h3, h4⟩ := insert_host_features_eq_partial loc host guest f hf hw hk2 hnd
  refine ⟨f', h1, h2, h3, ?_⟩
  rw [h4]
  unfold mapPos
  rw [List.map_map]
  apply List.map_congr_left
  intro p hp
  have := insert_residue_at loc false host guest hwh p.1 (hpos p hp).1 (hpos p hp).2
  simp only [Function.comp, readAt, this]

/-- **`gts infix`: every host feature reads, in the output and OUTSIDE the guest copies, the
residues it read in the host** (`Expand` stretches a part spanning a head over the guest copy
there; those additional residues are the copy's). -/
theorem infix_host_features_residues_partial (loc : Seq → List Reg) (host guest : Seq) (f : Feature)
    (hf : f ∈ host.feats) (hwh : ∀ h ∈ (loc host).map Reg.head, 0 ≤ h) (hw : f.loc.wf = true)
    (hk2 : Cli.insAbs true guest.len (Cli.sortDesc ((loc host).map Reg.head)) f.loc = false)
    (hnd : f.loc.den.Nodup) (hpos : ∀ p ∈ f.loc.den, 0 ≤ p.1 ∧ p.1 < host.len) :
    ∃ f' ∈ (Cli.insert loc true host guest).feats, f'.key = f.key ∧ f'.props = f.props ∧
      (Cli.stripGuests (Cli.copyStarts guest.len (Cli.sortDesc ((loc host).map Reg.head))) guest.len
          f'.loc.den).map (readAt (Cli.insert loc true host guest).bytes) =
        f.loc.den.map (readAt host.bytes) := by
  obtain ⟨f', h1, h2, h3, h4⟩ := infix_host_features_partial loc host guest f hf hw hk2
  refine ⟨f', h1, h2, h3, ?_⟩
  rw [h4.eq_of_nodup (Cli.nodup_mapPos _ _ (multiInsMap_inj _ _ guest.len_nonneg) hnd)]
  unfold mapPos
  rw [List.map_map]
  apply List.map_congr_left
  intro p hp
  have := insert_residue_at loc true host guest hwh p.1 (hpos p hp).1 (hpos p hp).2
  simp only [Function.comp, readAt, this]

/-- **`gts insert`: every feature of every guest copy reads, in the output, the residues it read
in the guest** (descending head list `pre ++ i :: post`, the copy inserted at `i`; every head in
`[0, len]`; guest location well-formed, duplicate-free, on positions of the guest; K2 in no
step). -/
theorem guest_features_residues_partial (loc : Seq → List Reg) (host guest : Seq)
    (hwh : ∀ h ∈ (loc host).map Reg.head, 0 ≤ h ∧ h ≤ host.len) (pre post : List Int) (i : Int)
    (hsplit : Cli.sortDesc ((loc host).map Reg.head) = pre ++ i :: post)
    (f : Feature) (hf : f ∈ guest.feats) (hw : f.loc.wf = true) (hnn : f.loc.nonneg = true)
    (g1 : Loc.expandAbs f.loc 0 i = false)
    (g2 : Cli.insAbs false guest.len post (f.loc.expand 0 i) = false)
    (hnd : f.loc.den.Nodup) (hpos : ∀ p ∈ f.loc.den, p.1 < guest.len) :
    ∃ f' ∈ (Cli.insert loc false host guest).feats, f'.key = f.key ∧ f'.props = f.props ∧
      f'.loc.den.map (readAt (Cli.insert loc false host guest).bytes) =
        f.loc.den.map (readAt guest.bytes) := by
  obtain ⟨_, _, hi, _⟩ := sortDesc_split _ pre post i hsplit
  have hi0 := (hwh i hi).1
  obtain ⟨f', h1, h2, h3, h4⟩ := guest_den_partial loc host guest pre post i hsplit hi0 f hf hw hnn g1 g2
  refine ⟨f', h1, h2, h3, ?_⟩
  have h5 := h4.eq_of_nodup (Cli.nodup_mapPos _ _ (fun x x' h => by omega) hnd)
  rw [h5]
  unfold mapPos
  rw [List.map_map]
  apply List.map_congr_left
  intro p hp
  have hp0 := Loc.den_nonneg f.loc hw hnn p hp
  have hpl := hpos p hp
  have hcb := guest_copy_bytes loc false host guest hwh pre post i hsplit
  have hc0 : 0 ≤ i + guest.len * post.length :=
    Int.add_nonneg hi0 (Int.mul_nonneg guest.len_nonneg (by omega))
  have hlen : guest.len = guest.bytes.length := rfl
  have e : (p.1 + (i + guest.len * post.length)).toNat =
      (i + guest.len * post.length).toNat + p.1.toNat := by omega
  simp only [Function.comp, readAt, e]
  congr 1
  have h6 : ((List.drop (i + guest.len * post.length).toNat (Cli.insert loc false host guest).bytes).take
      guest.bytes.length)[p.1.toNat]? = guest.bytes[p.1.toNat]? := by rw [hcb]
  rw [List.getElem?_take, if_pos (by omega), List.getElem?_drop] at h6
  exact h6

/-! ## rotate and (linear) split: features -/

/-- **`gts rotate`, every feature**: C04 `rotate_feature_partial` lifted to the scan loop — with at
least one located region, every feature of a non-empty record is present in the output with
unchanged key and qualifiers and denotes the same residues at `(x - head) mod L`, where `head`
is the head of the FIRST located region (domain of the `Normalize` law and K2 guards as in C04:
`normOk` excludes every range of length ≥ L, in particular the whole-sequence `source` feature, for
which `rotate_full_length_feature` below is the statement). -/
theorem rotate_features_partial (loc : Seq → List Reg) (s : Seq) (r : Reg) (rest : List Reg)
    (h : loc s = r :: rest) (hL : 0 < s.len) (f : Feature) (hf : f ∈ s.feats)
    (hw : f.loc.wf = true) (hnn : f.loc.nonneg = true)
    (hok : Loc.normOk s.len (f.loc.expand 0 (C04.rotN (-(r.head)) s.len)) = true)
    (h1 : Loc.expandAbs f.loc 0 (C04.rotN (-(r.head)) s.len) = false)
    (h2 : Loc.normalizeAbs (f.loc.expand 0 (C04.rotN (-(r.head)) s.len)) s.len = false) :
    ∃ f' ∈ (Cli.rotate loc s).feats, f'.key = f.key ∧ f'.props = f.props ∧
      f'.loc.den ≼ mapPos (rotMap (-(r.head)) s.len) f.loc.den := by
  simp only [Cli.rotate, h]
  exact C04.rotate_feature_partial s (-(r.head)) hL f hf hw hnn hok h1 h2

/-- **`gts rotate`, the full-length feature** (`source 1..L` of every record; either strand, any markers —
`C04.fullLength`): it fails `normOk` for every rotation amount, so `rotate_features_partial` is silent on
it; what holds is that it is a feature of the output UNCHANGED (key, qualifiers, location, markers),
whatever the locator finds (also when it finds nothing).  No guard. -/
theorem rotate_full_length_feature (loc : Seq → List Reg) (s : Seq) (hL : 0 < s.len) (f : Feature)
    (hf : f ∈ s.feats) (hfl : C04.fullLength s.len f.loc = true) : f ∈ (Cli.rotate loc s).feats := by
  unfold Cli.rotate
  split
  · exact hf
  · exact C04.rotate_full_length_feature s _ hL f hf hfl

/-- **circular `gts split` with one distinct cut, the full-length feature**: the single piece (the record
opened at the cut, `split_circular_single`) carries it unchanged.  (With two or more distinct cuts the
pieces are `gts.Slice` windows, the first one across the origin: `C03.slice_wrap_full_length_feature` /
`C03.slice_fwd_feature_partial` say what each piece carries.) -/
theorem split_circular_single_full_length_feature (loc : Seq → List Reg) (s : Seq) (r : Reg)
    (h : loc s = [r]) (hL : 0 < s.len) (f : Feature) (hf : f ∈ s.feats)
    (hfl : C04.fullLength s.len f.loc = true) :
    ∀ pc ∈ Cli.split loc true s, f ∈ pc.feats := by
  rw [split_circular_single loc s r h]
  intro pc hpc
  rw [List.mem_singleton.mp hpc]
  exact C04.rotate_full_length_feature s _ hL f hf hfl

/-- non-vacuity: the `source` feature of a six-residue record, a locator with head 4 -/
example :
    let s : Seq := ⟨[⟨"source", .ranged 0 6 false false, []⟩], [65, 67, 71, 84, 65, 67]⟩
    0 < s.len ∧ C04.fullLength s.len (.ranged 0 6 false false) = true ∧
    Loc.normOk s.len ((Loc.ranged 0 6 false false).expand 0 (C04.rotN (-4) s.len)) = false ∧
    (Cli.rotate (fun _ => [seg 4 1]) s).bytes = [65, 67, 65, 67, 71, 84] := by decide

/-- … nothing is lost or added -/
theorem rotate_feature_count (loc : Seq → List Reg) (s : Seq) :
    (Cli.rotate loc s).feats.length = s.feats.length := by
  unfold Cli.rotate
  split
  · rfl
  · exact C04.rotate_feature_count s _

/-- **`rotMap (-head)` is where `gts rotate` puts the residues** (`0 ≤ head ≤ len`, `0 ≤ x < len`) -/
theorem rotate_residue_at (loc : Seq → List Reg) (s : Seq) (r : Reg) (rest : List Reg)
    (h : loc s = r :: rest) (h0 : 0 ≤ r.head) (h1 : r.head ≤ s.len) (x : Int) (hx : 0 ≤ x)
    (hxl : x < s.len) :
    (Cli.rotate loc s).bytes[(rotMap (-(r.head)) s.len x).toNat]? = s.bytes[x.toNat]? := by
  have hL : 0 < s.len := by omega
  have hlen : s.len = s.bytes.length := rfl
  rw [rotate_first_head loc s r rest h hL h0 h1]
  unfold rotMap
  rw [List.getElem?_append, List.getElem?_drop, List.getElem?_take, List.length_drop]
  by_cases hc : r.head ≤ x
  · have e : (x + -r.head) % s.len = x - r.head := Int.emod_eq_of_lt (by omega) (by omega)
    rw [e, if_pos (by omega)]
    congr 1; omega
  · have e : (x + -r.head) % s.len = x - r.head + s.len := by
      have : x + -r.head = (x - r.head + s.len) + (-1) * s.len := by omega
      rw [this, Int.add_mul_emod_self_right, Int.emod_eq_of_lt (by omega) (by omega)]
    rw [e, if_neg (by omega), if_pos (by omega)]
    congr 1; omega

/-- **linear `gts split`, the pieces**: with at least one located region the pieces are the
slices of the record over the windows between consecutive cuts `0, cuts…, len`
(`Cli.windows`: consecutive pairs). -/
theorem split_linear_windows (loc : Seq → List Reg) (s : Seq) (hne : loc s ≠ []) :
    Cli.split loc false s =
      (Cli.windows ((0 : Int) :: Cli.sortAscU ((loc s).map Cli.cutOf) ++ [s.len])).map
        fun w => s.slice w.1 w.2 := by
  cases hl : loc s with
  | nil => exact absurd hl hne
  | cons r0 rest =>
    rw [split_cons loc false s r0 rest hl, ← Cli.pieces_eq_map]
    simp

/-- the cut list `0, cuts…, len` is non-decreasing when every cut lies in `[0, len]` -/
theorem split_linear_cuts_sorted (loc : Seq → List Reg) (s : Seq)
    (hw : ∀ r ∈ loc s, 0 ≤ Cli.cutOf r ∧ Cli.cutOf r ≤ s.len) :
    ((0 : Int) :: Cli.sortAscU ((loc s).map Cli.cutOf) ++ [s.len]).Pairwise (fun x y => x ≤ y) := by
  have hmem : ∀ x ∈ Cli.sortAscU ((loc s).map Cli.cutOf), 0 ≤ x ∧ x ≤ s.len := by
    intro x hx
    obtain ⟨r, hr, rfl⟩ := List.mem_map.mp ((Cli.mem_sortAscU x _).mp hx)
    exact hw r hr
  have hlen : (0 : Int) ≤ s.len := by unfold Seq.len; omega
  rw [List.cons_append]
  refine List.pairwise_cons.mpr ⟨?_, List.pairwise_append.mpr ⟨?_, by simp, ?_⟩⟩
  · intro b hb
    rcases List.mem_append.mp hb with hb | hb
    · exact (hmem b hb).1
    · rw [List.mem_singleton.mp hb]; exact hlen
  · exact (Cli.sortAscU_sorted _).imp (fun h => Int.le_of_lt h)
  · intro a ha b hb
    rw [List.mem_singleton.mp hb]; exact (hmem a ha).2

/-- **the windows partition the record**: every position `0 ≤ x < len` lies in exactly one window,
and every window is a forward window inside `[0, len]`. -/
theorem split_linear_windows_partition (loc : Seq → List Reg) (s : Seq)
    (hw : ∀ r ∈ loc s, 0 ≤ Cli.cutOf r ∧ Cli.cutOf r ≤ s.len) :
    (∀ x, 0 ≤ x → x < s.len →
      ∃ w ∈ Cli.windows ((0 : Int) :: Cli.sortAscU ((loc s).map Cli.cutOf) ++ [s.len]),
        (w.1 ≤ x ∧ x < w.2) ∧
        ∀ w' ∈ Cli.windows ((0 : Int) :: Cli.sortAscU ((loc s).map Cli.cutOf) ++ [s.len]),
          w'.1 ≤ x ∧ x < w'.2 → w' = w) ∧
    (∀ w ∈ Cli.windows ((0 : Int) :: Cli.sortAscU ((loc s).map Cli.cutOf) ++ [s.len]),
      0 ≤ w.1 ∧ w.1 ≤ w.2 ∧ w.2 ≤ s.len) := by
  have hs := split_linear_cuts_sorted loc s hw
  have hlen : (0 : Int) ≤ s.len := by unfold Seq.len; omega
  have hall : ∀ x ∈ (0 : Int) :: Cli.sortAscU ((loc s).map Cli.cutOf) ++ [s.len], 0 ≤ x ∧ x ≤ s.len := by
    intro x hx
    rw [List.cons_append] at hx
    rcases List.mem_cons.mp hx with rfl | hx
    · exact ⟨Int.le_refl _, hlen⟩
    · rcases List.mem_append.mp hx with hx | hx
      · obtain ⟨r, hr, rfl⟩ := List.mem_map.mp ((Cli.mem_sortAscU x _).mp hx)
        exact hw r hr
      · rw [List.mem_singleton.mp hx]; exact ⟨hlen, Int.le_refl _⟩
  constructor
  · intro x h0 h1
    obtain ⟨w, hwm, hwx⟩ := Cli.window_exists 0 (Cli.sortAscU ((loc s).map Cli.cutOf) ++ [s.len]) s.len x
      (by rw [← List.cons_append, List.getLast?_append]; simp) h0 h1
    rw [← List.cons_append] at hwm
    exact ⟨w, hwm, hwx, fun w' hw' hx' => Cli.window_unique _ hs w' w hw' hwm x hx' hwx⟩
  · intro w hwm
    have hm := Cli.mem_windows _ w hwm
    exact ⟨(hall _ hm.1).1, Cli.window_bounds _ hs w hwm, (hall _ (List.mem_of_mem_tail hm.2)).2⟩

/-- **linear `gts split`, a feature in a piece**: C03 `slice_fwd_feature_partial` lifted to the
scan loop — for every window `w` of the cut list, a feature overlapping `w` is present in the
piece `s.slice w.1 w.2` (which IS one of the written pieces) with unchanged key and qualifiers
and denotes exactly its former residues inside the window, re-based to the window start. -/
theorem split_piece_feature_partial (loc : Seq → List Reg) (s : Seq) (hne : loc s ≠ [])
    (hw : ∀ r ∈ loc s, 0 ≤ Cli.cutOf r ∧ Cli.cutOf r ≤ s.len)
    (w : Int × Int)
    (hwm : w ∈ Cli.windows ((0 : Int) :: Cli.sortAscU ((loc s).map Cli.cutOf) ++ [s.len]))
    (f : Feature) (hf : f ∈ s.feats) (hov : f.loc.overlap w.1 w.2 = true)
    (hwf : f.loc.wf = true) (hpos : ∀ p ∈ f.loc.den, 0 ≤ p.1 ∧ p.1 < s.len)
    (g1 : Loc.expandAbs f.loc w.2 (w.2 - s.len) = false)
    (g2 : Loc.expandAbs (f.loc.expand w.2 (w.2 - s.len)) 0 (-w.1) = false) :
    s.slice w.1 w.2 ∈ Cli.split loc false s ∧
    ∃ f' ∈ (s.slice w.1 w.2).feats, f'.key = f.key ∧ f'.props = f.props ∧
      f'.loc.den ≼ filterMapPos (winMap w.1 w.2) f.loc.den := by
  obtain ⟨h0, h1, h2⟩ := (split_linear_windows_partition loc s hw).2 w hwm
  refine ⟨?_, C03.slice_fwd_feature_partial s w.1 w.2 h0 h1 h2 f hf hov hwf hpos g1 g2⟩
  rw [split_linear_windows loc s hne]
  exact List.mem_map_of_mem (f := fun w => s.slice w.1 w.2) hwm

/-- … and every feature of a piece comes from a feature of the record overlapping its window -/
theorem split_piece_feature_origin (loc : Seq → List Reg) (s : Seq)
    (hw : ∀ r ∈ loc s, 0 ≤ Cli.cutOf r ∧ Cli.cutOf r ≤ s.len)
    (w : Int × Int)
    (hwm : w ∈ Cli.windows ((0 : Int) :: Cli.sortAscU ((loc s).map Cli.cutOf) ++ [s.len]))
    (f' : Feature) (hf' : f' ∈ (s.slice w.1 w.2).feats) :
    ∃ f ∈ s.feats, f.loc.overlap w.1 w.2 = true ∧ f'.key = f.key ∧ f'.props = f.props := by
  obtain ⟨h0, h1, _⟩ := (split_linear_windows_partition loc s hw).2 w hwm
  exact C03.slice_fwd_feature_origin s w.1 w.2 h0 h1 f' hf'

/-- **linear `gts split`: the pieces of a feature together denote its residues** — every residue
`p` a feature denotes (location well-formed, positions inside the record)
lies in exactly one window `w`; the piece written for `w` contains the feature (same key and
qualifiers), its location there denotes only former residues of the feature inside `w`, re-based,
and among them `p` at `p - w.1` on the same strand.  Guards: K2 in neither `Expand` of the
`Slice` of any window. -/
theorem split_features_partial (loc : Seq → List Reg) (s : Seq) (hne : loc s ≠ [])
    (hw : ∀ r ∈ loc s, 0 ≤ Cli.cutOf r ∧ Cli.cutOf r ≤ s.len)
    (f : Feature) (hf : f ∈ s.feats) (hwf : f.loc.wf = true)
    (hpos : ∀ p ∈ f.loc.den, 0 ≤ p.1 ∧ p.1 < s.len)
    (hg : ∀ w ∈ Cli.windows ((0 : Int) :: Cli.sortAscU ((loc s).map Cli.cutOf) ++ [s.len]),
      Loc.expandAbs f.loc w.2 (w.2 - s.len) = false ∧
      Loc.expandAbs (f.loc.expand w.2 (w.2 - s.len)) 0 (-w.1) = false)
    (p : Pos) (hp : p ∈ f.loc.den) :
    ∃ w ∈ Cli.windows ((0 : Int) :: Cli.sortAscU ((loc s).map Cli.cutOf) ++ [s.len]),
      (w.1 ≤ p.1 ∧ p.1 < w.2) ∧
      (∀ w' ∈ Cli.windows ((0 : Int) :: Cli.sortAscU ((loc s).map Cli.cutOf) ++ [s.len]),
          w'.1 ≤ p.1 ∧ p.1 < w'.2 → w' = w) ∧
      s.slice w.1 w.2 ∈ Cli.split loc false s ∧
      ∃ f' ∈ (s.slice w.1 w.2).feats, f'.key = f.key ∧ f'.props = f.props ∧
        f'.loc.den ≼ filterMapPos (winMap w.1 w.2) f.loc.den ∧ (p.1 - w.1, p.2) ∈ f'.loc.den := by
  obtain ⟨w, hwm, hwx, huniq⟩ := (split_linear_windows_partition loc s hw).1 p.1 (hpos p hp).1 (hpos p hp).2
  have hov : f.loc.overlap w.1 w.2 = true :=
    Cli.overlap_of_den f.loc w.1 w.2 hwf p hp hwx.1 hwx.2
  obtain ⟨hmem, f', hf', hk, hpr, hden⟩ := split_piece_feature_partial loc s hne hw w hwm f hf hov hwf hpos
    (hg w hwm).1 (hg w hwm).2
  refine ⟨w, hwm, hwx, huniq, hmem, f', hf', hk, hpr, hden, ?_⟩
  apply hden.2
  unfold filterMapPos
  rw [List.mem_filterMap]
  refine ⟨p, hp, ?_⟩
  simp [winMap, hwx]

/-! ### non-vacuity of the feature theorems -/

/-- a complement-strand join with partial ends, spanning both cuts / all insertion sites -/
def gene1 : Feature :=
  ⟨"gene", .compl (.joined [.ranged 1 4 true false, .point 6, .ranged 8 11 false true]), []⟩

/-- `ACGTACGTACGT` with a `source`, the join above and a feature equal to the first cut -/
def s1 : Seq :=
  ⟨[⟨"source", .ranged 0 12 false false, []⟩, gene1, ⟨"misc_feature", .ranged 2 5 false false, []⟩],
   [65, 67, 71, 84, 65, 67, 71, 84, 65, 67, 71, 84]⟩

/-- a backward segment, a nested compound region and a zero-length leaf -/
def loc1 : Seq → List Reg := fun _ => [seg 5 2, many [seg 9 10, seg 3 4], seg 7 7]

example : gene1 ∈ s1.feats := List.mem_cons_of_mem _ (List.mem_cons_self ..)
example : minimize (many (loc1 s1)) = [(2, 5), (7, 7), (9, 10)] := by rw [minimize_eq]; decide
/-- hypotheses of `delete_features_partial` / `delete_features_eq_partial` -/
example : gene1.loc.wf = true ∧ Cli.delAbs (minimize (many (loc1 s1))) gene1.loc = false ∧
    gene1.loc.den.Nodup := by
  rw [minimize_eq]; decide
/-- … and what they give: of the residues 10,9,8 | 6 | 3,2,1 (complement strand) 9 and 3,2 are cut;
the survivors 10, 8, 6, 1 move left by 4, 3, 3 and 0 -/
example : filterMapPos (Cli.unionDelMap (minimize (many (loc1 s1)))) gene1.loc.den =
    [(6, true), (5, true), (3, true), (1, true)] := by
  rw [minimize_eq]; decide
example : (Cli.delete loc1 false s1).feats.map (·.loc.den) =
    [fwd [0, 1, 2, 3, 4, 5, 6, 7], [(6, true), (5, true), (3, true), (1, true)], []] := by
  unfold Cli.delete; rw [minimize_eq]; decide
/-- `-e`: the feature lying within the first cut is dropped, `source` and the join survive -/
example : (s1.feats.map (Cli.eraseKeep (minimize (many (loc1 s1))))) = [true, true, false] ∧
    (Cli.delete loc1 true s1).feats.map (·.key) = ["source", "gene"] := by
  unfold Cli.delete; rw [minimize_eq]; decide

/-- hypotheses of `delete_erase_drops_ranged` for the `misc_feature` `3..5` (0-based `[2,5)`) -/
example : (2, 5) ∈ minimize (many (loc1 s1)) := by rw [minimize_eq]; decide

/-- guest `NN` with one feature over both residues -/
def guest1 : Seq := ⟨[⟨"misc_feature", .ranged 0 2 false false, []⟩], [78, 78]⟩

/-- three regions, two of them with the same head: heads 5, 3, 5 -/
def loc2 : Seq → List Reg := fun _ => [seg 5 2, seg 3 4, seg 5 9]

example : Cli.sortDesc ((loc2 s1).map Reg.head) = [5, 5, 3] := by decide
/-- hypotheses of `insert_host_features_partial` / `…_eq_partial` and of `infix_host_features_partial` -/
example : gene1.loc.wf = true ∧
    Cli.insAbs false guest1.len (Cli.sortDesc ((loc2 s1).map Reg.head)) gene1.loc = false ∧
    Cli.insAbs true guest1.len (Cli.sortDesc ((loc2 s1).map Reg.head)) gene1.loc = false ∧
    gene1.loc.den.Nodup := by decide
/-- … and what they give: residues 1,2 stay, 3 moves by one guest, 6 and 8..10 by three -/
example : mapPos (Cli.multiInsMap ((loc2 s1).map Reg.head) guest1.len) gene1.loc.den =
    [(16, true), (15, true), (14, true), (12, true), (5, true), (2, true), (1, true)] := by decide
example : ((Cli.insert loc2 false s1 guest1).feats.filter (·.key = "gene")).map (·.loc.den) =
    [[(16, true), (15, true), (14, true), (12, true), (5, true), (2, true), (1, true)]] := by decide
/-- infix stretches the part `2..4` over the guest copy at 3 (output residues 3, 4) -/
example : ((Cli.insert loc2 true s1 guest1).feats.filter (·.key = "gene")).map (·.loc.den) =
    [[(16, true), (15, true), (14, true), (12, true), (5, true), (4, true), (3, true), (2, true), (1, true)]] ∧
    Cli.copyStarts guest1.len (Cli.sortDesc ((loc2 s1).map Reg.head)) = [9, 7, 3] := by decide
/-- hypotheses of `guest_den_partial` / `infix_guest_den_partial` / `guest_copy_bytes` for the
FIRST copy (inserted at 5, then moved by two later insertions to 9) -/
example : Cli.sortDesc ((loc2 s1).map Reg.head) = [] ++ 5 :: [5, 3] ∧
    (∀ h ∈ (loc2 s1).map Reg.head, 0 ≤ h ∧ h ≤ s1.len) ∧
    (∀ f ∈ guest1.feats, f.loc.wf = true ∧ f.loc.nonneg = true ∧ Loc.expandAbs f.loc 0 5 = false ∧
      Cli.insAbs false guest1.len [5, 3] (f.loc.expand 0 5) = false ∧
      Cli.insAbs true guest1.len [5, 3] (f.loc.expand 0 5) = false) := by decide
example : ((Cli.insert loc2 false s1 guest1).feats.filter (·.key = "misc_feature")).map (·.loc.den) =
    [fwd [2, 5, 6], fwd [3, 4], fwd [7, 8], fwd [9, 10]] ∧
    (Cli.insert loc2 false s1 guest1).bytes =
      [65, 67, 71, 78, 78, 84, 65, 78, 78, 78, 78, 67, 71, 84, 65, 67, 71, 84] := by decide

/-- hypotheses of the `…_residues_partial` theorems (positions inside the records) and the
residues the join reads before and after `gts delete`: `GT A G C` → complement strand of
positions 10,8,6,1 -/
example : within s1.len (many (loc1 s1)) ∧ (∀ p ∈ gene1.loc.den, 0 ≤ p.1 ∧ p.1 < s1.len) ∧
    (∀ h ∈ (loc2 s1).map Reg.head, 0 ≤ h ∧ h ≤ s1.len) ∧
    (∀ f ∈ guest1.feats, f.loc.den.Nodup ∧ ∀ p ∈ f.loc.den, p.1 < guest1.len) := by decide
example : (gene1.loc.den.filter fun p => !decide (cover (many (loc1 s1)) p.1)).map (readAt s1.bytes) =
    [(some 71, true), (some 65, true), (some 71, true), (some 67, true)] := by decide

/-- hypotheses of `rotate_features_partial` / `rotate_residue_at` (first head 5: rotation by 7) -/
example : loc2 s1 = seg 5 2 :: [seg 3 4, seg 5 9] ∧ 0 < s1.len ∧
    gene1.loc.wf = true ∧ gene1.loc.nonneg = true ∧
    Loc.normOk s1.len (gene1.loc.expand 0 (C04.rotN (-5) s1.len)) = true ∧
    Loc.expandAbs gene1.loc 0 (C04.rotN (-5) s1.len) = false ∧
    Loc.normalizeAbs (gene1.loc.expand 0 (C04.rotN (-5) s1.len)) s1.len = false := ⟨rfl, by decide⟩
example : mapPos (rotMap (-5) s1.len) gene1.loc.den =
    [(5, true), (4, true), (3, true), (1, true), (10, true), (9, true), (8, true)] := by decide
/-- hypotheses of `split_features_partial` (cuts 2, 3, 5: windows `[0,2) [2,3) [3,5) [5,12)`) -/
example : loc2 s1 ≠ [] ∧ (∀ r ∈ loc2 s1, 0 ≤ Cli.cutOf r ∧ Cli.cutOf r ≤ s1.len) ∧
    Cli.windows ((0 : Int) :: Cli.sortAscU ((loc2 s1).map Cli.cutOf) ++ [s1.len]) =
      [(0, 2), (2, 3), (3, 5), (5, 12)] ∧
    (∀ w ∈ Cli.windows ((0 : Int) :: Cli.sortAscU ((loc2 s1).map Cli.cutOf) ++ [s1.len]),
      Loc.expandAbs gene1.loc w.2 (w.2 - s1.len) = false ∧
      Loc.expandAbs (gene1.loc.expand w.2 (w.2 - s1.len)) 0 (-w.1) = false) :=
  ⟨by simp [loc2], by decide⟩
/-- the join in the four pieces: residue 1 | 2 | 3 | 6, 8, 9, 10 (re-based to 1, 3, 4, 5) -/
example : (Cli.split loc2 false s1).map (fun pc => (pc.feats.filter (·.key = "gene")).map (·.loc.den)) =
    [[[(1, true)]], [[(0, true)]], [[(0, true)]], [[(5, true), (4, true), (3, true), (1, true)]]] := by
  decide

end Gts.C15
