/-
  C17 — FASTA output reads back identically; conversion to FASTA keeps residues.
  Property theorems only (helper lemmas live in Gts/Lemmas/Fasta.lean).

  Domains (decidable predicates of `Gts.Fasta`):
    `descOk d`  — the description contains neither `\n` nor `\r`
    `noCR d`    — the description contains no `\r` (line feeds allowed: the writer turns them into blanks)
    `resOk r`   — the residues contain none of `>`, `\n`, `\r` (any other byte, any length incl. 0)
    `recEnd t`  — `t` is empty or starts with `>` (what may follow a record)
  The full statement of the property holds on the current tree (with repair 646f789); there is
  no `_partial` theorem and no known finding for C17.

  AUTO-DETECTION WITH THE REAL GenBank READER (section "the real auto scanner" below; model
  `Gts/Model/AutoScan.lean`, lemmas `Gts/Lemmas/FastaAuto.lean`, `FastaAutoMixed.lean`):
  `Gts.Fasta.scanFirstAuto` stands in "fails in place unless the input begins with LOCUS" for
  `GenBankParser`.  `genbankParser_rejects_fasta` proves that of the real reader model
  `Gts.GenBank.genbankParser` (every state, every registry), `auto_real_eq_standin` discharges the
  stand-in, the `…_real` theorems restate the stream theorems for `Gts.Auto.scanAll`, and
  `scan_auto_sticks_to_first_format`, `scan_genbank_then_fasta`, `scan_fasta_then_genbank` say what the
  scanner does with a stream that changes format.
-/
import Gts.Lemmas.Fasta
import Gts.Bridge.FastaWrite
import Gts.Bridge.FastaRead
import Gts.Lemmas.FastaAutoMixed
import Gts.Spec.CliWriters
namespace Gts.C17
open Gts Gts.Pars Gts.Fasta

/-! ### one record -/

/-- **Write, then parse, one record.**  For every description on one line, all residues (every
length, including none and exact multiples of 70) and every backtracking stack: `FastaParser`
applied to the output of `Fasta.WriteTo`, followed by nothing or by the next record, returns
exactly `(d, r)`, stops exactly in front of what follows and leaves the stack as it was. -/
theorem parse_write_one (d r rest : Bytes) (stk : List Bytes)
    (hd : descOk d = true) (hr : resOk r = true) (hrest : recEnd rest = true) :
    fastaParse.run' ⟨fastaWrite d r ++ rest, stk⟩ = (.ok (d, r), ⟨rest, stk⟩) := by
  have := parse_write d r rest stk (descOk_noCR d hd) hr hrest
  rwa [nl2sp_id d hd] at this

/-- … and for a description that does contain line feeds (e.g. a multi-line GenBank
DEFINITION) the description read back is the written one with every `\n` replaced by a blank;
the residues are still identical.  `noCR` is the exact remaining requirement. -/
theorem parse_write_one_nl (d r rest : Bytes) (stk : List Bytes)
    (hd : noCR d = true) (hr : resOk r = true) (hrest : recEnd rest = true) :
    fastaParse.run' ⟨fastaWrite d r ++ rest, stk⟩ = (.ok (nl2sp d, r), ⟨rest, stk⟩) :=
  parse_write d r rest stk hd hr hrest

/-- **CRLF.**  The same record after every `\n` of the written text became `\r\n`. -/
theorem parse_write_one_crlf (d r rest : Bytes) (stk : List Bytes)
    (hd : descOk d = true) (hr : resOk r = true) (hrest : recEnd rest = true) :
    fastaParse.run' ⟨crlf (fastaWrite d r) ++ rest, stk⟩ = (.ok (d, r), ⟨rest, stk⟩) := by
  have := parse_write_crlf d r rest stk (descOk_noCR d hd) hr hrest
  rwa [nl2sp_id d hd] at this

/-- **No residues.**  A record without residues is written as `>d`, newline, empty line, and is
read back as `(d, [])` — the property's "every residue count including 0" holds. -/
theorem write_empty (d : Bytes) : fastaWrite d [] = 62 :: nl2sp d ++ [10, 10] := by
  simp [fastaWrite, wrapForce, wrapGo]

/-- see `write_empty` -/
theorem parse_write_empty (d rest : Bytes) (stk : List Bytes) (hd : descOk d = true)
    (hrest : recEnd rest = true) :
    fastaParse.run' ⟨62 :: d ++ [10, 10] ++ rest, stk⟩ = (.ok (d, []), ⟨rest, stk⟩) := by
  have := parse_write_one d [] rest stk hd (by rfl) hrest
  rwa [write_empty, nl2sp_id d hd] at this

/-- `FastaParser` fails exactly when the input is empty or does not start with `>`; it then
consumes nothing (so the scanner's error position is the start of the record, and the error is
the reader's `io.EOF` exactly when the input is empty). -/
theorem parse_fails_iff (t : Bytes) (stk : List Bytes) :
    (fastaParse.run' ⟨t, stk⟩).1 = .error .fail ↔ (t = [] ∨ ∃ c t', t = c :: t' ∧ c ≠ 62) := by
  rw [run'_eq, fastaParse_run]
  cases t with
  | nil => simp
  | cons c t' => by_cases h : c = 62 <;> simp [h]

/-- … and it never panics. -/
theorem parse_never_panics (t : Bytes) (stk : List Bytes) :
    (fastaParse.run' ⟨t, stk⟩).1 ≠ .error .panic := by
  rw [run'_eq, fastaParse_run]
  cases t with
  | nil => simp
  | cons c t' => by_cases h : c = 62 <;> simp [h]

/-! ### streams of records -/

/-- the text of a stream of records, as `FastaWriter.WriteSeq` calls write it one after another -/
def writeAll (rs : List (Bytes × Bytes)) : Bytes := (rs.map fun p => fastaWrite p.1 p.2).flatten

/-- all records of a stream are in the property's domain -/
def recsOk (rs : List (Bytes × Bytes)) : Bool := rs.all fun p => descOk p.1 && resOk p.2

/-- **N records read back as the same N records, in order, without error** — for every record
count (0 included), by `seqio.NewAutoScanner` (`auto = true`: the first `Scan` tries
`GenBankParser`, which fails in place, then `FastaParser`) and by
`seqio.NewScanner(seqio.FastaParser, …)` (`auto = false`); `Scanner.Err()` is `nil` at the end. -/
theorem scan_write_all (auto : Bool) (rs : List (Bytes × Bytes)) (h : recsOk rs = true) :
    scanAll auto (writeAll rs) = .done rs true := by
  have hg : ∀ p ∈ rs.map (fun p : Bytes × Bytes => (fastaWrite p.1 p.2, p)), GoodEnc p := by
    intro q hq
    obtain ⟨p, hp, rfl⟩ := List.mem_map.1 hq
    have hp' := (List.all_eq_true.1 h) p hp
    simp only [Bool.and_eq_true] at hp'
    refine ⟨⟨_, rfl⟩, fun rest stk hrest => ?_⟩
    exact parse_write_one p.1 p.2 rest stk hp'.1 hp'.2 hrest
  have := scanAll_records auto _ hg
  simpa [writeAll, List.map_map, Function.comp_def] using this

/-- **CRLF streams.**  Replacing every `\n` of the written stream by `\r\n` yields the same
records (this is what repair 646f789 established). -/
theorem scan_write_all_crlf (auto : Bool) (rs : List (Bytes × Bytes)) (h : recsOk rs = true) :
    scanAll auto (crlf (writeAll rs)) = .done rs true := by
  have hg : ∀ p ∈ rs.map (fun p : Bytes × Bytes => (crlf (fastaWrite p.1 p.2), p)), GoodEnc p := by
    intro q hq
    obtain ⟨p, hp, rfl⟩ := List.mem_map.1 hq
    have hp' := (List.all_eq_true.1 h) p hp
    simp only [Bool.and_eq_true] at hp'
    refine ⟨⟨_, by rw [crlf_fastaWrite]⟩, fun rest stk hrest => ?_⟩
    exact parse_write_one_crlf p.1 p.2 rest stk hp'.1 hp'.2 hrest
  have := scanAll_records auto _ hg
  have e : crlf (writeAll rs) = (rs.map fun p => crlf (fastaWrite p.1 p.2)).flatten := by
    simp [writeAll, crlf, List.flatMap_def, List.map_map, Function.comp_def, List.map_flatten,
      List.flatten_flatten]
  rw [e]
  simpa [List.map_map, Function.comp_def] using this

/-- streams whose descriptions contain line feeds: the descriptions come back with blanks -/
theorem scan_write_all_nl (auto : Bool) (rs : List (Bytes × Bytes))
    (h : (rs.all fun p => noCR p.1 && resOk p.2) = true) :
    scanAll auto (writeAll rs) = .done (rs.map fun p => (nl2sp p.1, p.2)) true := by
  have hg : ∀ p ∈ rs.map (fun p : Bytes × Bytes => (fastaWrite p.1 p.2, (nl2sp p.1, p.2))),
      GoodEnc p := by
    intro q hq
    obtain ⟨p, hp, rfl⟩ := List.mem_map.1 hq
    have hp' := (List.all_eq_true.1 h) p hp
    simp only [Bool.and_eq_true] at hp'
    refine ⟨⟨_, rfl⟩, fun rest stk hrest => ?_⟩
    exact parse_write_one_nl p.1 p.2 rest stk hp'.1 hp'.2 hrest
  have := scanAll_records auto _ hg
  simpa [writeAll, List.map_map, Function.comp_def] using this

/-! ### `wrap.Force` (70-column wrapping) -/

/-- removing the line feeds of the wrapped text gives back the input (any input, any width) -/
theorem wrap_strip (s : Bytes) (n : Nat) :
    (wrapForce s n).filter isNotNL = s.filter isNotNL := wrapGo_filter _ s n

/-- … so for residues without line feeds the wrapped text is the residues plus line feeds -/
theorem wrap_strip_res (r : Bytes) (hr : resOk r = true) :
    (wrapForce r width).filter isNotNL = r := (wrapped_facts r hr).2.2

/-- every line of the wrapped text has at most `n` bytes, every line but the last exactly `n`,
and no line is empty unless there are no residues — in particular an exact multiple of `n`
does not produce an empty last line. -/
theorem wrap_lines (s : Bytes) (n : Nat) (hn : 0 < n) (h : ∀ c ∈ s, c ≠ 10) :
    (∀ l ∈ splitLines (wrapForce s n), l.length ≤ n) ∧
    (∀ l ∈ (splitLines (wrapForce s n)).dropLast, l.length = n) ∧
    (s ≠ [] → ∀ l ∈ splitLines (wrapForce s n), l ≠ []) :=
  wrapGo_lines s.length s n hn (Nat.le_refl _) h

/-- the same for the residues of a record at the writer's width: at most 70 bytes per line,
70 in every line but the last, no empty line unless the record has no residues -/
theorem wrap_lines_res (r : Bytes) (hr : resOk r = true) :
    (∀ l ∈ splitLines (wrapForce r 70), l.length ≤ 70) ∧
    (∀ l ∈ (splitLines (wrapForce r 70)).dropLast, l.length = 70) ∧
    (r ≠ [] → ∀ l ∈ splitLines (wrapForce r 70), l ≠ []) := by
  refine wrap_lines r 70 (by decide) ?_
  intro c hc
  have := (List.all_eq_true.1 hr) c hc
  simp at this
  exact this.1.2

/-- the wrapped text never ends in a line feed (the single `\n` after it comes from `WriteTo`) -/
theorem wrap_no_trailing_newline (s : Bytes) (n : Nat) (h : ∀ c ∈ s, c ≠ 10) :
    (wrapForce s n).getLast? ≠ some 10 := wrapGo_getLast _ s n h

/-- no residues, no text -/
theorem wrap_empty (n : Nat) : wrapForce [] n = [] := rfl

/-- wrapping adds nothing but line feeds -/
theorem wrap_mem (s : Bytes) (n : Nat) (c : UInt8) (h : c ∈ wrapForce s n) : c ∈ s ∨ c = 10 :=
  wrapGo_mem _ s n c h

/-! ### the writer's metadata cases; GenBank → FASTA -/

/-- `FastaWriter.WriteSeq`: a `Fasta`, a `*Fasta`, and any sequence whose metadata is a `string`
or a `fmt.Stringer` are all written as `Fasta{description, seq.Bytes()}`; every other metadata
type is refused. -/
theorem writer_cases (d b : Bytes) :
    fastaWriteSeq (.fasta d b) = some (fastaWrite d b) ∧
    fastaWriteSeq (.fastaPtr d b) = some (fastaWrite d b) ∧
    fastaWriteSeq (.generic (.str d) b) = some (fastaWrite d b) ∧
    fastaWriteSeq (.generic (.stringer d) b) = some (fastaWrite d b) ∧
    fastaWriteSeq (.generic .other b) = none := ⟨rfl, rfl, rfl, rfl, rfl⟩

/-- `GenBankFields.String()`: version, blank, definition for a whole record … -/
theorem genbank_desc_whole (version definition : Bytes) :
    fastaDescOfGenBank version definition none = version ++ [32] ++ definition := by
  simp [fastaDescOfGenBank]

/-- … and `version:head+1-tail definition` for a slice (`Region = Segment{head, tail}`) -/
theorem genbank_desc_slice (version definition : Bytes) (head tail : Int) :
    fastaDescOfGenBank version definition (some (head, tail)) =
      version ++ [58] ++ str (toString (head + 1)) ++ [45] ++ str (toString tail) ++ [32] ++ definition := by
  simp [fastaDescOfGenBank, itoaBytes, itoa]

/-- **GenBank → FASTA (model level).**  Writing a GenBank record (whole or sliced) through the
FASTA writer writes `Fasta{GenBankFields.String(), residues}`; read back, the residues are the
GenBank record's residues and the description is `version[:head+1-tail] definition` (line
feeds of a multi-line DEFINITION as blanks). -/
theorem genbank_to_fasta (auto : Bool) (version definition bytes : Bytes) (region : Option (Int × Int))
    (hd : noCR (fastaDescOfGenBank version definition region) = true) (hr : resOk bytes = true) :
    ∃ text, fastaWriteSeq (.generic (.genbank version definition region) bytes) = some text ∧
      scanAll auto text = .done [(nl2sp (fastaDescOfGenBank version definition region), bytes)] true := by
  refine ⟨_, rfl, ?_⟩
  have := scan_write_all_nl auto [(fastaDescOfGenBank version definition region, bytes)]
    (by simp [hd, hr])
  simpa [writeAll] using this

/-- with a one-line description the description read back is exactly `GenBankFields.String()` -/
theorem genbank_to_fasta_one_line (auto : Bool) (version definition bytes : Bytes)
    (region : Option (Int × Int))
    (hd : descOk (fastaDescOfGenBank version definition region) = true) (hr : resOk bytes = true) :
    ∃ text, fastaWriteSeq (.generic (.genbank version definition region) bytes) = some text ∧
      scanAll auto text = .done [(fastaDescOfGenBank version definition region, bytes)] true := by
  have := genbank_to_fasta auto version definition bytes region (descOk_noCR _ hd) hr
  rwa [nl2sp_id _ hd] at this

/-- `NewWriter(w, DefaultFile)`: a GenBank record is *not* converted (GenBank writer);
`Fasta`, `*Fasta`, `string` and `Stringer` metadata select the FASTA writer. -/
theorem detect_writer_cases (v d b : Bytes) (reg : Option (Int × Int)) :
    detectWriter (.generic (.genbank v d reg) b) = .genbank ∧
    detectWriter (.fasta d b) = .fasta ∧ detectWriter (.fastaPtr d b) = .fasta ∧
    detectWriter (.generic (.str d) b) = .fasta ∧ detectWriter (.generic (.stringer d) b) = .fasta ∧
    detectWriter (.generic .other b) = .error := ⟨rfl, rfl, rfl, rfl, rfl, rfl⟩

/-! ### what repair 646f789 changed; the domain is tight -/

/-- before repair 646f789 (`bytes.Join(bytes.Split(body, "\n"), nil)`) a CRLF body kept a
carriage return after every line; the repaired mapping drops it.  Body of `">a\r\nAC\r\nGT\r\n"`. -/
theorem crlf_repair_witness :
    fastaBodyUnrepaired [65, 67, 13, 10, 71, 84, 13, 10] = [65, 67, 13, 71, 84, 13] ∧
    fastaBody [65, 67, 13, 10, 71, 84, 13, 10] = [65, 67, 71, 84] := by decide +kernel

/-- the recorded witness of F5 on the current model: `">a\r\nAC\r\nGT\r\n"` is one record `a`/`ACGT` -/
theorem crlf_witness_scan :
    scanAll true [62, 97, 13, 10, 65, 67, 13, 10, 71, 84, 13, 10] = .done [([97], [65, 67, 71, 84])] true := by
  decide +kernel

/-- non-vacuity of the hypotheses: a two-record stream with an empty description, a `>` inside a
description, an empty record and a 71-residue record satisfies `recsOk` -/
example : recsOk [([], []), ([62, 32, 97], List.replicate 71 65)] = true := by decide +kernel

/-- non-vacuity of the conclusions on concrete data (empty record, then a record) -/
example : scanAll true (writeAll [([100], []), ([101], [65, 67])]) = .done [([100], []), ([101], [65, 67])] true := by
  decide +kernel

/-- the domain is tight (1): a carriage return inside a description ends the description line -/
example : descOk [97, 13, 98] = false ∧
    scanAll true (writeAll [([97, 13, 98], [65])]) = .done [([97], [98, 65])] true := by decide +kernel

/-- the domain is tight (2): a line feed inside a description is written as a blank -/
example : scanAll true (writeAll [([97, 10, 98], [65])]) = .done [([97, 32, 98], [65])] true := by
  decide +kernel

/-- the domain is tight (3): a `>` inside the residues starts a new record -/
example : resOk [65, 62, 67] = false ∧
    scanAll true (writeAll [([97], [65, 62, 67])]) = .done [([97], [65]), ([67], [])] true := by decide +kernel

/-- the domain is tight (4): a carriage return at the end of the residues is stripped -/
example : resOk [65, 13] = false ∧
    scanAll true (writeAll [([97], [65, 13])]) = .done [([97], [65])] true := by decide +kernel

/-- non-vacuity at an exact multiple of the width, CRLF, two full lines: 140 residues -/
example : scanAll false (crlf (writeAll [([97], List.replicate 140 65)])) =
    .done [([97], List.replicate 140 65)] true := by decide +kernel

/-! ### the REGENERATED writer (go2lean gwriter: `Gts/Gen/FastaWrite.lean`, `Gts/Gen/GbFields.lean`, `Gts/Bridge/FastaWrite.lean`)

The round trip restated for `Fasta.WriteTo`, `FastaWriter.WriteSeq` and `GenBankFields.String` as they are re-read
from seqio/fasta.go and seqio/genbank.go on every run (`wrap.Force` = the model's `wrapForce`, `%d` = `itoaBytes`). -/

/-- **Write, then parse, one record — the code of the tree.**  `FastaParser` applied to the text the
regenerated `Fasta.WriteTo` hands to its writer, followed by nothing or by the next record, returns exactly
`(d, r)` and stops in front of what follows. -/
theorem gen_parse_write_one (d r rest : Bytes) (stk : List Bytes)
    (hd : descOk d = true) (hr : resOk r = true) (hrest : recEnd rest = true) :
    fastaParse.run' ⟨Gen.FastaWrite.fastaWriteTo Bridge.wrapForceModel { Desc := d, Data := r } ++ rest, stk⟩ =
      (.ok (d, r), ⟨rest, stk⟩) := by
  rw [Bridge.fastaWriteTo_eq]
  exact parse_write_one d r rest stk hd hr hrest

/-- **GenBank → FASTA — the code of the tree.**  A sequence whose metadata is a `GenBankFields` value (a
`fmt.Stringer`), handed to the regenerated `FastaWriter.WriteSeq` with the regenerated `String()`, is written
as one FASTA record that both scanners read back as (description with line feeds as blanks, residues). -/
theorem gen_genbank_to_fasta (auto : Bool) (gbf : Gen.GbFields.GenBankFields) (bytes : Bytes)
    (hd : noCR (Gen.GbFields.genBankFieldsString itoaBytes gbf) = true) (hr : resOk bytes = true) :
    ∃ text, Gen.FastaWrite.fastaWriterWriteSeq Bridge.wrapForceModel
        (.other (.stringer (Gen.GbFields.genBankFieldsString itoaBytes gbf)) bytes) = some text ∧
      scanAll auto text = .done [(nl2sp (Gen.GbFields.genBankFieldsString itoaBytes gbf), bytes)] true := by
  rw [Bridge.fastaWriterWriteSeq_genbank]
  rw [Bridge.genBankFieldsString_eq] at hd ⊢
  exact genbank_to_fasta auto gbf.Version gbf.Definition bytes gbf.Region hd hr

/-- non-vacuity: a description on one line, residues without `>`, the next record behind; a sliced record -/
example : descOk [105, 100] = true ∧ resOk (List.replicate 71 65) = true ∧ recEnd [62, 120, 10] = true ∧
    noCR (fastaDescOfGenBank [86] [100, 10, 101] (some (2, 9))) = true := by decide +kernel

/-! ### the REGENERATED Map function of the reader (go2lean gfastard.go: `Gts/Gen/FastaRead.lean`, `Gts/Bridge/FastaRead.lean`) -/

/-- **`FastaParser` is the sequence followed by the Map function of the tree.**  On every input, every
backtracking stack and whatever token the `'>'` child carries: the model's `fastaParse` does what the model's
sequence `fastaSeq` (`pars.Seq('>', pars.Line, pars.Until(pars.Any('>', pars.End)))`) does, and on success
returns what the REGENERATED Map function stores for the children (`'>'`, description line, body); that function
never panics there. -/
theorem gen_parse_eq_seq_map (t gtTok : Bytes) (stk : List Bytes) :
    fastaParse.run' ⟨t, stk⟩ =
      match fastaSeq.run' ⟨t, stk⟩ with
      | (.ok (desc, body), s') =>
        (match Gen.FastaRead.fastaMap [gtTok, desc, body] with
         | some v => (.ok v, s')
         | none => (.error .panic, s'))
      | (.error e, s') => (.error e, s') := by
  rw [run'_eq, run'_eq, fastaParse_run, fastaSeq_run]
  cases t with
  | nil => rfl
  | cons c t' =>
    by_cases hc : (c == 62) = true
    · simp only [hc, if_true, Bridge.fastaMap_seq]
    · simp only [hc, if_false, Bool.false_eq_true]

/-- **Write, then read, one record — the Map function of the tree.**  On the output of `Fasta.WriteTo` followed
by nothing or by the next record, the sequence of `FastaParser` stops exactly in front of what follows with the
description and a body token on which the regenerated Map function stores exactly `Fasta{d, r}`. -/
theorem gen_map_parse_write_one (d r rest gtTok : Bytes) (stk : List Bytes)
    (hd : descOk d = true) (hr : resOk r = true) (hrest : recEnd rest = true) :
    ∃ body, fastaSeq.run' ⟨fastaWrite d r ++ rest, stk⟩ = (.ok (d, body), ⟨rest, stk⟩) ∧
      Gen.FastaRead.fastaMap [gtTok, d, body] = some (d, r) := by
  have h := parse_write_one d r rest stk hd hr hrest
  rw [gen_parse_eq_seq_map _ gtTok] at h
  generalize fastaSeq.run' ⟨fastaWrite d r ++ rest, stk⟩ = o at h
  obtain ⟨res, s'⟩ := o
  cases res with
  | error e => simp at h
  | ok v =>
    obtain ⟨desc, body⟩ := v
    simp only [Bridge.fastaMap_seq, Prod.mk.injEq, Except.ok.injEq] at h
    obtain ⟨⟨h1, h2⟩, h3⟩ := h
    subst h1 h3
    exact ⟨body, rfl, by rw [Bridge.fastaMap_seq, h2]⟩

/-- non-vacuity: the regenerated Map function on a CRLF body with a `>`-free tail; the hypotheses of
`gen_map_parse_write_one` are those of `parse_write_one` (instance above) -/
example : Gen.FastaRead.fastaMap [[62], [105, 100], [65, 67, 13, 10, 71, 13, 10]] = some ([105, 100], [65, 67, 71]) ∧
    Gen.FastaRead.fastaMap [[62], [105, 100]] = none := by decide +kernel

/-! ### the real auto scanner (`seqio.NewAutoScanner` with the whole GenBank reader) -/

open Gts.Auto (Rec Out faRecs startsLocus) in
/-- **`GenBankParser` rejects FASTA input in place.**  On every input that does not begin with the five
bytes `LOCUS` — every FASTA text, which begins with `>`, and the empty input — the real reader model
`genbankParser` FAILS (no panic), consumes nothing and leaves the stack of saved positions exactly
as it found it; from every parser state (the fresh one of a scanner included) and for every
qualifier registry.  (`genbankLocusParser`'s first literal fails; `Seq` and `Map` pop their two frames.) -/
theorem genbankParser_rejects_fasta (reg : GenBank.Registry) (s : PS)
    (h : startsLocus s.rest = false) :
    (GenBank.genbankParser reg).run' s = (.error .fail, s) :=
  Auto.genbankParser_not_locus reg s h

/-- … in particular on a text whose first byte is `>`, from the initial state of a scanner and from
the state the auto scanner's `Push` makes -/
theorem genbankParser_rejects_gt (reg : GenBank.Registry) (t : Bytes) (stk : List Bytes) :
    (GenBank.genbankParser reg).run' ⟨62 :: t, stk⟩ = (.error .fail, ⟨62 :: t, stk⟩) :=
  Auto.genbankParser_not_locus reg ⟨62 :: t, stk⟩ rfl

/-- non-vacuity: `>a`, `LOCU`, `xLOCUS` and the empty input do not begin with `LOCUS`; `LOCUS X` does -/
example : Auto.startsLocus [62, 97] = false ∧ Auto.startsLocus [76, 79, 67, 85] = false ∧
    Auto.startsLocus [120, 76, 79, 67, 85, 83] = false ∧ Auto.startsLocus [] = false ∧
    Auto.startsLocus [76, 79, 67, 85, 83, 32, 88] = true := by decide

open Gts.Auto (Rec Out faRecs startsLocus) in
/-- **The stand-in is discharged.**  For every text that does not begin with `LOCUS` and every
registry, the auto scanner with the REAL GenBank reader (`Gts.Auto.scanAll`: `Push`, `GenBankParser`,
`Pop`, `Push`, `FastaParser`, `Drop`, then `FastaParser` for every later `Scan`) returns exactly what the
stand-in model `scanAll true` returns: the same FASTA records in the same order, the same `Err()`
verdict, the registry untouched — and the stand-in's answer is a `done`, never `unmodelled` or a panic. -/
theorem auto_real_eq_standin (reg : GenBank.Registry) (text : Bytes) (h : startsLocus text = false) :
    ∃ rs c, scanAll true text = .done rs c ∧ Auto.scanAll reg text = .done (faRecs rs) reg c :=
  Auto.scanAll_not_locus reg text h

/-- a written stream never begins with `LOCUS` (it is empty or begins with `>`) -/
theorem writeAll_not_locus (rs : List (Bytes × Bytes)) :
    Auto.startsLocus (writeAll rs) = false ∧ Auto.startsLocus (crlf (writeAll rs)) = false := by
  cases rs with
  | nil => exact ⟨rfl, rfl⟩
  | cons p rs =>
    have e : writeAll (p :: rs) = 62 :: (nl2sp p.1 ++ 10 :: wrapForce p.2 width ++ [10] ++ writeAll rs) := by
      simp [writeAll, fastaWrite]
    rw [e]
    have e2 : ∀ t : Bytes, crlf (62 :: t) = 62 :: crlf t := fun t => by simp [crlf]
    rw [e2]
    exact ⟨rfl, rfl⟩

open Gts.Auto (Rec Out faRecs) in
/-- **N records read back as the same N records — real auto scanner.**  `scan_write_all` with the
stand-in replaced by the real GenBank reader: for every registry and every stream of records in the
property's domain (every count, 0 included) `seqio.NewAutoScanner` returns the records in order as
`seqio.Fasta` values, `Err()` is `nil`, and the qualifier registry is unchanged. -/
theorem scan_write_all_real (reg : GenBank.Registry) (rs : List (Bytes × Bytes)) (h : recsOk rs = true) :
    Auto.scanAll reg (writeAll rs) = .done (faRecs rs) reg true := by
  obtain ⟨rs', c, h1, h2⟩ := auto_real_eq_standin reg _ (writeAll_not_locus rs).1
  rw [scan_write_all true rs h] at h1
  injection h1 with h3 h4
  rw [h2, ← h3, ← h4]

open Gts.Auto (Rec Out faRecs) in
/-- **CRLF streams — real auto scanner** (`scan_write_all_crlf` with the real GenBank reader) -/
theorem scan_write_all_crlf_real (reg : GenBank.Registry) (rs : List (Bytes × Bytes))
    (h : recsOk rs = true) :
    Auto.scanAll reg (crlf (writeAll rs)) = .done (faRecs rs) reg true := by
  obtain ⟨rs', c, h1, h2⟩ := auto_real_eq_standin reg _ (writeAll_not_locus rs).2
  rw [scan_write_all_crlf true rs h] at h1
  injection h1 with h3 h4
  rw [h2, ← h3, ← h4]

open Gts.Auto (Rec Out faRecs) in
/-- **descriptions with line feeds — real auto scanner** (`scan_write_all_nl` with the real GenBank reader) -/
theorem scan_write_all_nl_real (reg : GenBank.Registry) (rs : List (Bytes × Bytes))
    (h : (rs.all fun p => noCR p.1 && resOk p.2) = true) :
    Auto.scanAll reg (writeAll rs) = .done (faRecs (rs.map fun p => (nl2sp p.1, p.2))) reg true := by
  obtain ⟨rs', c, h1, h2⟩ := auto_real_eq_standin reg _ (writeAll_not_locus rs).1
  rw [scan_write_all_nl true rs h] at h1
  injection h1 with h3 h4
  rw [h2, ← h3, ← h4]

open Gts.Auto (Rec Out faRecs) in
/-- **GenBank → FASTA, read back by the real auto scanner** (`genbank_to_fasta` with the real GenBank
reader): the text `FastaWriter.WriteSeq` writes for a GenBank record is read back by
`seqio.NewAutoScanner` as ONE `seqio.Fasta` value with the record's residues and the description
`version[:head+1-tail] definition` (line feeds as blanks) — it is not mistaken for a GenBank file. -/
theorem genbank_to_fasta_real (reg : GenBank.Registry) (version definition bytes : Bytes)
    (region : Option (Int × Int))
    (hd : noCR (fastaDescOfGenBank version definition region) = true) (hr : resOk bytes = true) :
    ∃ text, fastaWriteSeq (.generic (.genbank version definition region) bytes) = some text ∧
      Auto.scanAll reg text =
        .done [.fa (nl2sp (fastaDescOfGenBank version definition region)) bytes] reg true := by
  refine ⟨_, rfl, ?_⟩
  have := scan_write_all_nl_real reg [(fastaDescOfGenBank version definition region, bytes)]
    (by simp [hd, hr])
  simpa [writeAll, faRecs] using this

open Gts.Auto (Rec Out) in
/-- **GenBank → FASTA — the code of the tree, read back by the real auto scanner** (`gen_genbank_to_fasta`
with the real GenBank reader in front of `FastaParser`) -/
theorem gen_genbank_to_fasta_real (reg : GenBank.Registry) (gbf : Gen.GbFields.GenBankFields) (bytes : Bytes)
    (hd : noCR (Gen.GbFields.genBankFieldsString itoaBytes gbf) = true) (hr : resOk bytes = true) :
    ∃ text, Gen.FastaWrite.fastaWriterWriteSeq Bridge.wrapForceModel
        (.other (.stringer (Gen.GbFields.genBankFieldsString itoaBytes gbf)) bytes) = some text ∧
      Auto.scanAll reg text =
        .done [.fa (nl2sp (Gen.GbFields.genBankFieldsString itoaBytes gbf)) bytes] reg true := by
  rw [Bridge.fastaWriterWriteSeq_genbank]
  rw [Bridge.genBankFieldsString_eq] at hd ⊢
  exact genbank_to_fasta_real reg gbf.Version gbf.Definition bytes gbf.Region hd hr

/-- non-vacuity of the `…_real` theorems on concrete data: the default registry, an empty record and a
71-residue record; the summary lists (is GenBank, length) per record and the `Err() == nil` verdict -/
example : (Auto.scanAll GenBank.Registry.default (writeAll [([100], []), ([101], List.replicate 71 65)])).summary =
    some ([(false, 0), (false, 71)], true) := by decide +kernel

/-! ### streams that change format: the parser is chosen once -/

open Gts.Auto (Rec Out) in
/-- **The auto scanner never panics**, for every byte string and every registry (`Push` / `Drop` /
`Pop` of the scanner around `GenBankParser_nopanic` and `parse_never_panics`). -/
theorem scan_auto_never_panics (reg : GenBank.Registry) (text : Bytes) :
    Auto.scanAll reg text ≠ .panic :=
  Auto.scanFirst_ne_panic reg ⟨text, []⟩ trivial

open Gts.Auto (Rec Out) in
/-- **The auto scanner sticks to the format of the first record.**  `Scanner.Scan` chooses its
parser ONCE — the first of `GenBankParser`, `FastaParser` that accepts the first record, there is no
peeking and no re-detection — so for every byte string and every registry the scan ends with a list
of records of ONE kind: when `GenBankParser` accepts the first record (run on the state the scanner's
`Push` made) every record returned is a `seqio.GenBank` (at least that one); when it does not, every
record returned is a `seqio.Fasta` and the qualifier registry is untouched. -/
theorem scan_auto_sticks_to_first_format (reg : GenBank.Registry) (text : Bytes) :
    ∃ rs rg c, Auto.scanAll reg text = .done rs rg c ∧
      match ((GenBank.genbankParser reg).run' ⟨text, [text]⟩).1 with
      | .ok _ => rs.all Rec.isGb = true ∧ rs ≠ []
      | .error _ => rs.all Rec.isFa = true ∧ rg = reg :=
  Auto.scanFirst_sticks reg ⟨text, []⟩ trivial

open Gts.Auto (Rec Out startsLocus) in
/-- **With `GenBankParser` kept, a `Scan` in front of anything but a LOCUS line fails.**  Whatever
is left of the input, if it is not empty and does not begin with `LOCUS` (a FASTA record, for one),
the next `Scan` returns false with `Err() != nil`; nothing is consumed and nothing registered. -/
theorem gb_scan_stops_at_fasta (fuel : Nat) (reg : GenBank.Registry) (s : PS)
    (hne : s.rest.isEmpty = false) (h : startsLocus s.rest = false) :
    Auto.gbLoop (fuel + 1) reg s = .done [] reg false :=
  Auto.gbLoop_stops fuel reg s hne h

open Gts.Auto (Rec Out startsLocus) in
/-- **GenBank record, then FASTA.**  If `GenBankParser` reads the record `r` from the front of the
text and stops in front of `f` — `f` not empty and not beginning with `LOCUS`: the `>` of a FASTA
record — then the auto scanner returns exactly that one GenBank record and ends with an ERROR
(`Err() != nil`): the FASTA records behind it are not read (and not silently dropped either). -/
theorem scan_genbank_then_fasta (reg reg' : GenBank.Registry) (g f : Bytes) (r : GenBank.Record)
    (stk' : List Bytes) (hf : f.isEmpty = false) (hl : startsLocus f = false)
    (hg : (GenBank.genbankParser reg).run' ⟨g ++ f, [g ++ f]⟩ = (.ok (r, reg'), ⟨f, stk'⟩)) :
    Auto.scanAll reg (g ++ f) = .done [.gb r] reg' false := by
  have hne : (PS.mk (g ++ f) []).rest.isEmpty = false := by
    show (g ++ f).isEmpty = false
    cases g with
    | nil => exact hf
    | cons c g => rfl
  have := Auto.scanFirst_first_ok reg reg' ⟨g ++ f, []⟩ ⟨f, stk'⟩ r hne hg
  unfold Auto.scanAll
  rw [this]
  show (Auto.gbLoop (f.length + 1) reg' ⟨f, stk'.drop 1⟩).cons (.gb r) = _
  rw [Auto.gbLoop_stops f.length reg' ⟨f, stk'.drop 1⟩ hf hl]
  rfl

/-- a minimal GenBank record (`LOCUS` line and `//`) -/
def miniGenBank : Bytes :=
  GenBank.bs "LOCUS       X                  0 bp    DNA     linear   UNA 01-JAN-2000\n//\n"

/-- non-vacuity of `scan_genbank_then_fasta` and of the GenBank case of
`scan_auto_sticks_to_first_format`: a GenBank record followed by the FASTA record `>a / AC` scans as
one GenBank record and an error; two GenBank records scan as two, without error -/
example : (Auto.scanAll GenBank.Registry.default (miniGenBank ++ [62, 97, 10, 65, 67, 10])).summary =
      some ([(true, 0)], false) ∧
    (Auto.scanAll GenBank.Registry.default (miniGenBank ++ miniGenBank)).summary =
      some ([(true, 0), (true, 0)], true) := by decide +kernel

/-- non-vacuity of the hypotheses of `gb_scan_stops_at_fasta` and `scan_genbank_then_fasta`: `>a / AC` is
not empty and does not begin with `LOCUS`, and `GenBankParser` (default registry, on the state the
scanner's `Push` made) reads the minimal record from the front of `record ++ ">a\nAC\n"` and stops
exactly in front of the `>` -/
example : ([62, 97, 10, 65, 67, 10] : Bytes).isEmpty = false ∧
    Auto.startsLocus [62, 97, 10, 65, 67, 10] = false ∧
    ∃ r reg' stk', (GenBank.genbankParser GenBank.Registry.default).run'
        ⟨miniGenBank ++ [62, 97, 10, 65, 67, 10], [miniGenBank ++ [62, 97, 10, 65, 67, 10]]⟩ =
      (.ok (r, reg'), ⟨[62, 97, 10, 65, 67, 10], stk'⟩) := by
  refine ⟨rfl, rfl, ?_⟩
  have h : (match (GenBank.genbankParser GenBank.Registry.default).run'
        ⟨miniGenBank ++ [62, 97, 10, 65, 67, 10], [miniGenBank ++ [62, 97, 10, 65, 67, 10]]⟩ with
      | (.ok _, s') => s'.rest == [62, 97, 10, 65, 67, 10]
      | _ => false) = true := by decide +kernel
  rcases hrun : (GenBank.genbankParser GenBank.Registry.default).run'
      ⟨miniGenBank ++ [62, 97, 10, 65, 67, 10], [miniGenBank ++ [62, 97, 10, 65, 67, 10]]⟩ with ⟨res, s'⟩
  rw [hrun] at h
  rcases res with e | ⟨r, reg'⟩
  · cases h
  · obtain ⟨rest, stk⟩ := s'
    have h' : rest = [62, 97, 10, 65, 67, 10] := by simpa using h
    subst h'
    exact ⟨r, reg', stk, rfl⟩

open Gts.Auto (Rec Out) in
/-- **FASTA record, then GenBank (or any text without `>`).**  With `FastaParser` kept, a record's
body runs to the next `>` or the end of input: a written FASTA record followed by a text `g` without
`>` scans — for every registry — as ONE FASTA record whose residues are the record's residues
followed by `g` with its line breaks removed; `Err()` is `nil`.  The GenBank record is neither
recognised nor reported: it is silently read as residues. -/
theorem scan_fasta_then_genbank (reg : GenBank.Registry) (d r g : Bytes) (hd : noCR d = true)
    (hr : resOk r = true) (hg : g.all notGt = true) :
    Auto.scanAll reg (fastaWrite d r ++ g) = .done [.fa (nl2sp d) (r ++ fastaBody g)] reg true := by
  have hpar := Auto.parse_write_swallow d r g [fastaWrite d r ++ g] hd hr hg
  have e : fastaWrite d r ++ g = 62 :: (nl2sp d ++ 10 :: wrapForce r width ++ [10] ++ g) := by
    simp [fastaWrite]
  have hl : Auto.startsLocus (fastaWrite d r ++ g) = false := by rw [e]; rfl
  obtain ⟨rs', c, h1, h2⟩ := auto_real_eq_standin reg _ hl
  have hs : scanAll true (fastaWrite d r ++ g) = .done [(nl2sp d, r ++ fastaBody g)] true := by
    have hne0 : (fastaWrite d r ++ g).isEmpty = false := by rw [e]; rfl
    have hne : ¬ ((fastaWrite d r ++ g).take 5 == [76, 79, 67, 85, 83]) = true := by
      have : Auto.startsLocus (fastaWrite d r ++ g) = ((fastaWrite d r ++ g).take 5 == [76, 79, 67, 85, 83]) := rfl
      rw [← this, hl]; exact Bool.false_ne_true
    simp only [scanAll, scanFirstAuto, if_true, hne, hne0]
    generalize fastaWrite d r ++ g = T at *
    simp [run'_eq, bind_run, attempt_run, hpar, scanLoop]
  have h5 : ScanOut.done rs' c = .done [(nl2sp d, r ++ fastaBody g)] true := h1.symm.trans hs
  obtain ⟨h3, h4⟩ := ScanOut.done.inj h5
  rw [h2, h3, h4]
  simp only [Auto.faRecs, List.map]

/-- non-vacuity of `scan_fasta_then_genbank`: `>d / AC` followed by the minimal GenBank record is one
FASTA record whose residues are `AC` and the record's text without its two line feeds -/
example : noCR [100] = true ∧ resOk [65, 67] = true ∧ miniGenBank.all notGt = true ∧
    (Auto.scanAll GenBank.Registry.default (fastaWrite [100] [65, 67] ++ miniGenBank)).summary =
      some ([(false, (miniGenBank.length : Int))], true) := by decide +kernel

/-- **The fuels of the two scan loops are adequate** (so no theorem above is true because a loop ran
out of fuel): a record that `GenBankParser` returns has consumed its LOCUS keyword, one that
`FastaParser` returns its `>`, hence any two fuels above the number of bytes left give the same
result — `Gts.Auto.scanFirst` passes `len + 1`. -/
theorem gbLoop_fuel_stable (reg : GenBank.Registry) (s : PS) (hs : Sorted s.rest.length s.stk)
    (n m : Nat) (hn : s.rest.length < n) (hm : s.rest.length < m) :
    Auto.gbLoop n reg s = Auto.gbLoop m reg s :=
  Auto.gbLoop_fuel n m reg s hs hn hm

/-- see `gbLoop_fuel_stable` -/
theorem faLoop_fuel_stable (reg : GenBank.Registry) (s : PS)
    (n m : Nat) (hn : s.rest.length < n) (hm : s.rest.length < m) :
    Auto.faLoop n reg s = Auto.faLoop m reg s :=
  Auto.faLoop_fuel reg n m s hn hm

/-- non-vacuity: the fresh state of a scanner is sorted, and 3 bytes are fewer than 4 and than 9 -/
example : Sorted (PS.mk [62, 97, 10] []).rest.length (PS.mk [62, 97, 10] []).stk ∧
    (PS.mk [62, 97, 10] []).rest.length < 4 ∧ (PS.mk [62, 97, 10] []).rest.length < 9 :=
  ⟨trivial, by decide, by decide⟩

/-- **Where the first `Scan` does NOT restore the position (a property of the code, confirmed on
/repo by the op `auto.scan`).**  `GenBankParser` calls `state.Clear()` behind the LOCUS line, which
also discards the position the scanner pushed; when the record fails after that, the scanner's `Pop`
finds an empty stack and `FastaParser` is tried where `GenBankParser` gave up.  Witness: a LOCUS line
with the unknown molecule `XNA`, then `>a / AC`: the scan returns the FASTA record `a / AC` without
error, the LOCUS line is skipped silently. -/
theorem auto_skips_broken_locus_witness :
    (Auto.scanAll GenBank.Registry.default
      (GenBank.bs "LOCUS       X                  0 bp    XNA     linear   UNA 01-JAN-2000\n>a\nAC\n")).summary =
      some ([(false, 2)], true) := by decide +kernel

/-! ### the CLI path `gts <cmd> -F fasta` (generated table `Gts/Gen/CliWriters.lean`, re-read from
cmd/gts/*.go, seqio/filetype.go and seqio/writer.go on every run) -/

/-- **Every subcommand that writes sequences declares `-F` / `--format` and hands it to
`seqio.NewWriter`.**  For every function of cmd/gts that calls `seqio.NewWriter` or `WriteSeq` (facts
from the AST): the option is `opt.String('F', "format", "", …)`; the file type given to every
`NewWriter` call is one variable, assigned from `seqio.Detect(*output)` and then, under
`if *format != ""`, from `seqio.ToFileType(*format)`, both before the writer is made; every `WriteSeq`
goes to such a writer.  So a non-empty `-F` value decides the writer, whatever the output path says. -/
theorem cli_format_reaches_writer :
    ∀ w ∈ Gen.CliWriters.writers, CliWriters.declaresFormat w = true ∧ CliWriters.formatReachesWriter w = true := by
  decide

/-- the same as a report (what `bin/check` would print): nothing is missing -/
theorem cli_format_report : CliWriters.report = [] := by decide

/-- **`-F fasta` selects the FASTA writer, `-F gb` / `genbank` the GenBank writer, no `-F` and no
known extension auto-detection** (the string switch of `seqio.ToFileType` and the FileType switch of
`seqio.NewWriter`, as tables): the writer whose output the theorems above are about
(`fastaWriteSeq`, `writer_cases`, `genbank_to_fasta_real`) is the one the command uses. -/
theorem cli_fasta_selects_fasta_writer :
    CliWriters.writerOf (CliWriters.fileTypeOf "fasta") = "FastaWriter" ∧
    CliWriters.writerOf (CliWriters.fileTypeOf "gb") = "GenBankWriter" ∧
    CliWriters.writerOf (CliWriters.fileTypeOf "genbank") = "GenBankWriter" ∧
    CliWriters.writerOf (CliWriters.fileTypeOf "") = "AutoWriter" := by decide

/-- non-vacuity: the table is not empty; it holds the subcommands the harness oracle `cli.fasta` runs -/
example : (Gen.CliWriters.writers.map (·.name)).length ≥ 5 ∧
    (["clear", "complement", "repair", "reverse", "sort"].all
      (Gen.CliWriters.writers.map (·.name)).contains) = true := by decide

end Gts.C17
