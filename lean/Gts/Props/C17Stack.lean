/-
  C17 — the auto scanner and the saved positions `GenBankParser` is entered with.
  Property theorems only (lemmas: `Gts/Lemmas/ParsIndep.lean` — a relational reading of the `pars` state
  model —, `GbStackIndep.lean`, `GbAutoStream.lean`).

  `Gts.C17.scan_genbank_then_fasta` (Props/C17.lean) takes "GenBankParser reads the first record behind the
  scanner's Push" as a HYPOTHESIS, because C01's `read_write` is stated on the empty stack of saved positions.
  `genbankParser_stack_indep` is the missing piece — what the parser does does not depend on the saved
  positions it finds, and `state.Clear()` behind the LOCUS line decides what is left of them —, and
  `scan_written_genbank_then_fasta` is the statement without a hypothesis about any parse.
-/
import Gts.Props.C17
import Gts.Lemmas.GbAutoStream
import Gts.Lemmas.GbLocRT
namespace Gts.C17
open Gts Gts.Pars Gts.Fasta

/-- **`GenBankParser` does not depend on the saved positions it is entered with.**  For every registry,
every input `t` and EVERY list `st` of saved positions (no sortedness, no bound):

* if `genbankLocusParser` accepts the LOCUS line at the head of `t`, the outcome of `GenBankParser` — record
  and registry, failure, or panic — and its final state, position AND saved positions, are exactly those of
  the run on the empty stack: `state.Clear()` behind the LOCUS line discards all of `st`, nothing survives
  (also when the record fails further down);
* if it rejects the line, `GenBankParser` fails the same way at the same position, and the saved positions are
  those the run on the empty stack leaves — none, or the single frame `pars.Int` leaks when the input ends
  in front of the length — with ALL of `st` underneath, untouched.

(The LOCUS parser pushes two frames and takes back at most what it pushed; it has no `Pushed` test and no
`Clear`: `Gts.GenBank.locusParser_indep`.) -/
theorem genbankParser_stack_indep (reg : GenBank.Registry) (t : Bytes) (st : List Bytes) :
    (GenBank.genbankParser reg).run' ⟨t, st⟩ =
      if (GenBank.locusParser.run' ⟨t, []⟩).1.toBool then (GenBank.genbankParser reg).run' ⟨t, []⟩
      else (((GenBank.genbankParser reg).run' ⟨t, []⟩).1,
        ⟨((GenBank.genbankParser reg).run' ⟨t, []⟩).2.rest,
         ((GenBank.genbankParser reg).run' ⟨t, []⟩).2.stk ++ st⟩) :=
  GenBank.genbankParser_stack_indep reg t st

/-- … so a record that is READ from the empty stack is read from every stack: same record, same registry,
same position, and the saved positions of the empty-stack run (C01's `read_write` says: none) -/
theorem genbankParser_reads_on_every_stack (reg : GenBank.Registry) (t : Bytes) (st : List Bytes)
    (x : GenBank.Record × GenBank.Registry) (s' : PS)
    (h : (GenBank.genbankParser reg).run' ⟨t, []⟩ = (.ok x, s')) :
    (GenBank.genbankParser reg).run' ⟨t, st⟩ = (.ok x, s') :=
  GenBank.genbankParser_stack_indep_ok reg t st x s' h

/-- non-vacuity, both branches.  (1) The minimal record followed by `>a`, entered with two saved positions:
LOCUS accepted, the record is read, the position is in front of `>a` and NO saved position is left.
(2) `LOCUS X ` and the end of the input, entered with the same two: the LOCUS parser fails inside `pars.Int`,
which leaks its frame; `locusBack` pops that one and one of its own two, so ONE frame of the LOCUS parser (the
entry position) stays, on top of the two older ones, which are untouched. -/
example :
    let st : List Bytes := [[1, 2, 3], [4]]
    (GenBank.locusParser.run' ⟨miniGenBank ++ [62, 97], []⟩).1.toBool = true ∧
    ((GenBank.genbankParser GenBank.Registry.default).run' ⟨miniGenBank ++ [62, 97], st⟩).1.toBool = true ∧
    ((GenBank.genbankParser GenBank.Registry.default).run' ⟨miniGenBank ++ [62, 97], st⟩).2.rest = [62, 97] ∧
    ((GenBank.genbankParser GenBank.Registry.default).run' ⟨miniGenBank ++ [62, 97], st⟩).2.stk = [] ∧
    (GenBank.locusParser.run' ⟨GenBank.bs "LOCUS X ", []⟩).1.toBool = false ∧
    ((GenBank.genbankParser GenBank.Registry.default).run' ⟨GenBank.bs "LOCUS X ", []⟩).2.stk =
      [GenBank.bs "LOCUS X "] ∧
    ((GenBank.genbankParser GenBank.Registry.default).run' ⟨GenBank.bs "LOCUS X ", st⟩).2.stk =
      GenBank.bs "LOCUS X " :: st ∧
    ((GenBank.genbankParser GenBank.Registry.default).run' ⟨GenBank.bs "LOCUS X ", st⟩).2.rest =
      GenBank.bs "LOCUS X " := by
  decide +kernel

/-- the decidable domain of one record of a written stream: its residues are `p`, it is in the domain of C01's
round trip (`Writable`, canonical locations: `Gts.C01.WritableRecord`), and every qualifier name of its table
is registered (the hypothesis of C01's `read_stream`: the registry is the same for every record) -/
def StreamRecord (reg : GenBank.Registry) (x : GenBank.Record × Bytes) : Prop :=
  x.1.origin = .residues x.2 ∧ GenBank.Writable reg x.1 x.2 = true ∧
    (x.1.table.all fun f => Loc.canonP f.loc) = true ∧ GenBank.learnTable reg x.1.table = reg

open Gts.Auto (Rec Out startsLocus) in
/-- **Written GenBank records, then anything that is not a LOCUS line.**  For every registry, every stream of
one or more records of the domain of C01's round trip written with `GenBank.String`, and every `tail` that is
not empty and does not begin with `LOCUS`: the text is written, and `seqio.NewAutoScanner` on it returns exactly
those records in order — each as `readBack`, what C01 says `GenBankParser` returns for the written text — as
`seqio.GenBank` values and ends with an ERROR (`Err() != nil`); the registry is unchanged.  No hypothesis about
any parse. -/
theorem scan_written_genbank_then (reg : GenBank.Registry) (x : GenBank.Record × Bytes)
    (rs : List (GenBank.Record × Bytes)) (hall : ∀ y ∈ x :: rs, StreamRecord reg y)
    (tail : Bytes) (hne : tail.isEmpty = false) (hl : startsLocus tail = false) :
    ∃ t, GenBank.writeAll reg ((x :: rs).map (·.1)) = .ok t ∧
      Auto.scanAll reg (t ++ tail) =
        .done ((x :: rs).map fun y => .gb (GenBank.readBack reg y.1 y.2)) reg false :=
  Auto.scanAll_written_then reg x rs (fun y hy => by
    obtain ⟨h1, h2, h3, h4⟩ := hall y hy
    exact ⟨h1, h2, fun f hf => GenBank.locRT_of_canon f.loc (List.all_eq_true.mp h3 f hf), h4⟩) tail hne hl

open Gts.Auto (Rec Out) in
/-- **Written GenBank stream, then a written FASTA stream.**  One or more GenBank records (domain of C01's
round trip) written with `GenBank.String`, followed by one or more FASTA records written with `Fasta.WriteTo`
— ANY descriptions and residues —: the auto scanner returns exactly the GenBank records, in order, and then an
error; not one FASTA record is read, and none is silently dropped either (`Err() != nil`).
`scan_genbank_then_fasta` without its hypothesis about the first parse. -/
theorem scan_written_genbank_then_fasta (reg : GenBank.Registry) (x : GenBank.Record × Bytes)
    (rs : List (GenBank.Record × Bytes)) (hall : ∀ y ∈ x :: rs, StreamRecord reg y)
    (f : Bytes × Bytes) (fs : List (Bytes × Bytes)) :
    ∃ t, GenBank.writeAll reg ((x :: rs).map (·.1)) = .ok t ∧
      Auto.scanAll reg (t ++ writeAll (f :: fs)) =
        .done ((x :: rs).map fun y => .gb (GenBank.readBack reg y.1 y.2)) reg false := by
  have e : writeAll (f :: fs) = 62 :: (nl2sp f.1 ++ 10 :: wrapForce f.2 width ++ [10] ++ writeAll fs) := by
    simp [writeAll, fastaWrite]
  exact scan_written_genbank_then reg x rs hall _ (by rw [e]; rfl) (writeAll_not_locus (f :: fs)).1

/-- a record with a feature table: a `source` and a complement-strand `CDS` with registered qualifiers -/
def streamSample : GenBank.Record :=
  ⟨{ GenBank.Fields.empty with
     locusName := GenBank.bs "S1", molecule := GenBank.bs "DNA", topology := 1, division := GenBank.bs "PHG",
     date := ⟨2018, 7, 6⟩, definition := GenBank.bs "sample", accession := GenBank.bs "S1", version := GenBank.bs "S1.1" },
   [⟨GenBank.bs "source", .ranged 0 12 false false, [[GenBank.bs "organism", GenBank.bs "x"]]⟩,
    ⟨GenBank.bs "CDS", .compl (.joined [.ranged 1 4 true false, .ranged 6 9 false false]),
      [[GenBank.bs "gene", GenBank.bs "a"], [GenBank.bs "pseudo", []]]⟩],
   .residues (List.replicate 12 97)⟩

/-- non-vacuity: that record and the record with nothing but a LOCUS line are stream records under the default
registry -/
example : StreamRecord GenBank.Registry.default (streamSample, List.replicate 12 97) ∧
    StreamRecord GenBank.Registry.default
      (⟨{ GenBank.Fields.empty with locusName := GenBank.bs "X", molecule := GenBank.bs "DNA", date := ⟨1, 1, 1⟩ }, [],
        .residues []⟩, []) := by
  refine ⟨⟨rfl, by decide +kernel, by decide +kernel, by decide +kernel⟩, ⟨rfl, by decide +kernel, rfl, rfl⟩⟩

/-- … and the scan of such a text, computed: two minimal GenBank records and the FASTA records `>a / AC`, `>b`
scan as two GenBank records and an error -/
example : (Auto.scanAll GenBank.Registry.default
      (miniGenBank ++ miniGenBank ++ writeAll [([97], [65, 67]), ([98], [])])).summary =
    some ([(true, 0), (true, 0)], false) := by decide +kernel

end Gts.C17
