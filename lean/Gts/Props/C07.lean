/-
  C07 — parsers are total: malformed input gives an error, never a panic or hang.
  Property theorems only (helpers: Gts/Lemmas/ParsSafe*.lean, Fuel.lean, Date.lean, SelShift.lean;
  regenerated tables: Gts/Bridge/Tables.lean; panic-site inventory: Gts/Bridge/PanicSites.lean).

  What is proved here, for ALL byte strings, about the hand-written models of the STRING parsers
  (`gts.AsLocation` / `ParseLocation`, `AsModifier`, `tryLocation` / `AsLocator`,
  `shiftSelector` / `Selector`, `seqio.AsDate`, `gts.AsMolecule`, `gts.AsTopology`):

  * NO PANIC.  The `pars` model has one run-time panic, the slice expression of `pars.Trail`
    when a saved position lies behind the current one; several gts parsers leak stack frames or
    return without `Pop`.  The invariant `Pars.Sorted` (every saved position is at or before every
    younger one and the current one) is kept by every primitive, and the frame invariant `Pars.Fr`
    shows that parsers only ever leak frames, never pop one of their caller's: the panic branch is
    unreachable — from the empty stack, and from any sorted state (the state in which the feature
    table parser calls `ParseLocation`).
  * NO HANG.  All model functions are total Lean definitions (structural or well-founded
    recursion).  The location parsers carry recursion fuel; `*_fuel_stable` is the explicit
    measure argument: every recursive call and every loop iteration has consumed input, so with
    fuel greater than the number of bytes left the outcome does not depend on the fuel ("out of
    fuel" never shows up as a spurious error).
  * ERRORS ARE VALUES.  `asDate` accepts exactly calendar dates and reads back every date stamp
    the writer prints.

  THE RECORD SCANNERS (`seqio.GenBankParser` with `genbankLocusParser`, every field sub-parser,
  `tryAllParsers`, the ORIGIN reader, `INSDCTableParser`; model: Gts/Model/GenBankParse.lean,
  InsdcParse.lean, Origin.lean; lemmas: Gts/Lemmas/ParsSorted.lean, GbSafe*.lean, ParsProgress.lean,
  GbProgress.lean, GbFuel.lean, GbOriginDecode.lean, FastaScan.lean):

  * NO PANIC, for EVERY byte string and every registry, from every sorted state
    (`genbankParser_nopanic`, `readAll_nopanic`, `table_nopanic`, `originField_nopanic`,
    `validateOrigin_nopanic`; the `_partial` forms with the former bound of 10^9 bytes are kept as
    corollaries).  The field parsers `Clear` the stack and `Pop` on a possibly empty one, so the
    frame invariant `Fr` of the string parsers is replaced by the S-invariant "all saved positions
    sorted and bounded" (`Fr L [] 0`); `patchFrames` (the DEFINITION body joined in place) keeps
    every frame's length because the LOCUS parser reports an indent of at least five columns.  The
    ORIGIN reader's three panic sites need the range check of `GenBankParser` and the guard
    `length ≤ 1000000020` of be672b0, which is EXACTLY the largest length whose line indices fit
    nine columns (`validateOrigin_nopanic` for `≤ 1000000020`, `validateOrigin_wide_index_panics`
    at 1000000021).
  * INTERNAL CONSISTENCY (`genbank_length_consistent`, `genbank_sequence_decodes`,
    `originField_decodes`, `accepted_block_is_written`): a returned record has
    declared length = `Origin.Len()` = number of residues `Origin.Bytes()` decodes (no panic), or
    no sequence at all next to a CONTIG line — for every declared length.
  * FUEL (`bodyMore_fuel_stable`, `taxonMore_fuel_stable`, `dblinkMore_fuel_stable`,
    `parseAll_fuel_stable`, `recordLoop_fuel_stable`, `recordLoop_fuel_full`,
    `genbankParser_loop_fuel`, `recordLoop_fuel_partial`): the record loop makes at most
    `bytes left + 1` iterations from any sorted state (since 66de3a0; the forward invariant
    `Pars.Fw`: no sub-parser pops a saved position that is older than its own entry).

  PARTIAL, named as such (DESIGN.md section 6, C07):
  * "time proportional to the input" is NOT a Lean theorem.  What is proved is termination with an
    explicit measure and a linear bound on the ITERATIONS of the record loop and of the scan loop;
    the work inside one iteration (eleven sub-parsers, each of which may read ahead over
    continuation lines and restore) is not counted here (Gts/Props/C07Fuel.lean counts it and finds
    it super-linear).
  * stack exhaustion of the Go run time on deeply nested `complement(` and the memory held by
    leaked `Push` frames are below the level of the model; they are covered by the depth sweep of
    the harness (recorded in the evidence), not by a theorem.
  * the loops of the qualifier and feature-table readers (`qualifiers`, `tableMore`,
    `literalMore`), `refSubfields` and every other fuelled loop have their fuel theorems in
    Gts/Props/C07Fuel.lean, with `genbankParser_fuel_free` (every fuel of the reader at once) and
    the cost-counting reading that REFUTES linear time (`steps_linear_full_refuted`).
  * the FASTA scanner is covered on its modelled fragment (`fasta_scan_nopanic`); K7C is about
    content, not panics.
-/
import Gts.Lemmas.Fuel
import Gts.Lemmas.Date
import Gts.Lemmas.SelShift
import Gts.Model.MolTop
import Gts.Bridge.Tables
import Gts.Bridge.PanicSites
import Gts.Lemmas.GbFuel
import Gts.Lemmas.GbOriginDecode
import Gts.Lemmas.FastaScan
namespace Gts.C07
open Gts Pars

/-- verdict class of an outcome: 0 = value, 1 = error value, 2 = panic -/
def cls {α} : Except Err α → Nat
  | .ok _ => 0
  | .error .fail => 1
  | .error .panic => 2

/-! ## locations -/

/-- `ParseLocation`, entered in any state whose saved positions are sorted (in particular with an
empty stack), at any fuel: never the `Trail` panic; the final state is sorted again and not
before the entry position. -/
theorem loc_total (fuel : Nat) (s : PS) (hs : Sorted s.rest.length s.stk) :
    ((LocParse.loc fuel).run' s).1 ≠ .error .panic ∧
      Sorted ((LocParse.loc fuel).run' s).2.rest.length ((LocParse.loc fuel).run' s).2.stk ∧
      ((LocParse.loc fuel).run' s).2.rest.length ≤ s.rest.length :=
  let h := loc_safe fuel _ _ _ s (Fr.init hs)
  ⟨h.1, h.2.srt, h.2.le⟩

/-- `AsLocation(s)` / `ParseLocation` on a fresh state never panics, for every byte string. -/
theorem parseLocation_nopanic (bs : Bytes) : parseLocation bs ≠ .error .panic := by
  have h := (loc_safe (bs.length + 2)).fresh bs
  unfold parseLocation
  cases hr : (LocParse.loc (bs.length + 2)).run' ⟨bs, []⟩ with
  | mk r s =>
    rw [hr] at h
    cases r with
    | ok l => intro h'; cases h'
    | error e =>
      cases e with
      | fail => intro h'; cases h'
      | panic => exact absurd rfl h

/-- Fuel adequacy of `ParseLocation` (termination measure = bytes left): with more fuel than bytes
left, any larger fuel gives the same outcome and the same final state. -/
theorem loc_fuel_stable (s : PS) (hs : Sorted s.rest.length s.stk) (n m : Nat)
    (hn : s.rest.length < n) (hnm : n ≤ m) :
    (LocParse.loc n).run' s = (LocParse.loc m).run' s :=
  Pars.loc_fuel_stable s hs n m hn hnm

/-- the fuel `length + 2` that `parseLocation` uses is adequate: no larger fuel changes the answer -/
theorem parseLocation_fuel (bs : Bytes) (m : Nat) (hm : bs.length + 2 ≤ m) :
    (LocParse.loc m).run' ⟨bs, []⟩ = (LocParse.loc (bs.length + 2)).run' ⟨bs, []⟩ :=
  (Pars.loc_fuel_stable ⟨bs, []⟩ trivial (bs.length + 2) m (by show bs.length < _; omega) hm).symm

/-- `multipleLocationParser` never returns an empty list, so the explicit
`panic("Join without arguments is not allowed")` / `panic("Order without …")` of `Join` / `Order`
is not reachable from `parseJoin` / `parseOrder` (the model's `Loc.join []` stands for that panic). -/
theorem multiple_nonempty (fuel : Nat) (s s' : PS) (ls : List Loc)
    (h : (LocParse.multiple fuel).run' s = (.ok ls, s')) : ls ≠ [] :=
  Pars.multiple_nonempty fuel s s' ls h

/-! ## modifiers -/

/-- `AsModifier(s)` never panics. -/
theorem asModifier_nopanic (bs : Bytes) : asModifier bs ≠ .error .panic := by
  unfold asModifier
  exact (exact_safe _ parseModifier_safe).fresh bs

/-! ## locators -/

/-- `tryLocation(s)` never panics. -/
theorem tryLocation_nopanic (bs : Bytes) : tryLocation bs ≠ .error .panic := by
  unfold tryLocation
  exact (exact_safe _ (tryLoc_safe _)).fresh bs

/-- fuel adequacy of the recursive parser of `tryLocation` (each `complement(` consumes 11 bytes) -/
theorem tryLoc_fuel_stable (s : PS) (hs : Sorted s.rest.length s.stk) (n m : Nat)
    (hn : s.rest.length < n) (hnm : n ≤ m) :
    (LocParse.tryLoc n).run' s = (LocParse.tryLoc m).run' s :=
  Pars.tryLoc_fuel_stable s hs n m hn hnm

/-- the locator description is the `panic` outcome -/
def isPanic : LocatorDesc → Bool
  | .panic => true
  | _ => false

theorem asLocatorBare_nopanic (selOk : Bytes → Bool) (s : Bytes) :
    isPanic (asLocatorBare selOk s) = false := by
  unfold asLocatorBare
  have hm := asModifier_nopanic s
  have hl := tryLocation_nopanic s
  generalize asModifier s = rm at hm ⊢
  generalize tryLocation s = rl at hl ⊢
  rcases rm with (_ | _) | m
  · dsimp only
    rcases rl with (_ | _) | l
    · dsimp only; cases selOk s <;> rfl
    · exact absurd rfl hl
    · rfl
  · exact absurd rfl hm
  · rfl

/-- `AsLocator(s)` never panics (whatever `regexp.Compile` says about the selector's queries: a
compile error makes `Selector`, hence `AsLocator`, return an error). -/
theorem asLocator_nopanic (selOk : Bytes → Bool) (s : Bytes) :
    isPanic (asLocator selOk s) = false := by
  unfold asLocator
  generalize splitAt s = sp
  rcases sp with ⟨hd, _ | tl⟩
  · dsimp only
    exact asLocatorBare_nopanic selOk s
  · have hm := asModifier_nopanic tl
    cases hd with
    | nil =>
      dsimp only
      generalize asModifier tl = rm at hm ⊢
      rcases rm with (_ | _) | m
      · rfl
      · exact absurd rfl hm
      · rfl
    | cons c hd =>
      dsimp only
      have hb := asLocatorBare_nopanic selOk (c :: hd)
      generalize asModifier tl = rm at hm ⊢
      generalize asLocatorBare selOk (c :: hd) = d at hb ⊢
      cases d <;> first
        | rfl
        | exact absurd hb (by decide)
        | (rcases rm with (_ | _) | m
           · rfl
           · exact absurd rfl hm
           · rfl)

/-! ## selectors -/

/-- `shiftSelector(s)` with its index expression `s[i]` and slice expressions `s[:i]`, `s[i+1:]`
made explicit never panics and is the structural model used by C08 / C19. -/
theorem shiftSelector_total (s : Bytes) : shiftIdx s 0 false = .ok (shiftSelectorB s) :=
  shiftIdx_ok s

/-- the loop `for tail != ""` of `Selector` terminates: the tail gets strictly shorter … -/
theorem selector_tail_shrinks (c : UInt8) (r : Bytes) :
    (shiftSelectorB (c :: r)).2.length < (c :: r).length := shiftSelectorB_tail_lt c r

/-- … so the fuel `tail.length + 1` of the model is adequate -/
theorem selector_fuel (n m : Nat) (tl : Bytes) (hn : tl.length < n) (hm : tl.length < m) :
    selectorParts n tl = selectorParts m tl := selectorParts_fuel n m tl hn hm

/-! ## dates -/

/-- `AsDate(s)` never panics: `parts[0]`, `parts[1]`, `parts[2]` sit behind `len(parts) != 3`. -/
theorem asDate_nopanic (s : Bytes) : Date.asDate s ≠ .error .panic := Date.asDate_nopanic s

/-- `AsDate` returns a date only if it is a calendar date (month 1..12, day within the month,
29 February only in leap years); everything else is an error value. -/
theorem asDate_valid (s : Bytes) (d : Date.DateV) (h : Date.asDate s = .ok d) : Date.validDate d :=
  Date.asDate_valid s d h

/-- Every date stamp the GenBank writer prints for a calendar date is read back as the same date:
for ALL years `0 ≤ year ≤ 2^63 - 1` (arithmetic, not enumeration). -/
theorem date_roundtrip_int (d : Date.DateV) (hv : Date.validDate d) (hy0 : 0 ≤ d.year)
    (hy1 : d.year ≤ 9223372036854775807) : Date.asDate (Date.fmtDate d) = .ok d :=
  Date.asDate_fmtDate d hv hy0 hy1

/-- … in particular for the four-digit years of the flat-file format -/
theorem date_roundtrip (d : Date.DateV) (hv : Date.validDate d) (hy : 1 ≤ d.year ∧ d.year ≤ 9999) :
    Date.asDate (Date.fmtDate d) = .ok d :=
  Date.asDate_fmtDate d hv (by omega) (by omega)

/-- `isLeapYear` is the Gregorian rule. -/
theorem leap_year_gregorian (y : Int) :
    Date.isLeapYear y = true ↔ (4 ∣ y ∧ (¬ 100 ∣ y ∨ 400 ∣ y)) := Date.isLeapYear_gregorian y

/-- non-vacuity: 29 February 2000 is valid and round-trips, 29 February 1900 is refused,
`1-JAN-2000-` (four fields) and `x` are errors, not panics -/
example : Date.validDate ⟨2000, 2, 29⟩ ∧ Date.fmtDate ⟨2000, 2, 29⟩ = [50, 57, 45, 70, 69, 66, 45, 50, 48, 48, 48] ∧
    (Date.asDate ([50, 57, 45, 70, 69, 66, 45, 50, 48, 48, 48])).toOption = some ⟨2000, 2, 29⟩ ∧
    cls (Date.asDate ([50, 57, 45, 70, 69, 66, 45, 49, 57, 48, 48])) = 1 ∧
    cls (Date.asDate ([49, 45, 74, 65, 78, 45, 50, 48, 48, 48, 45])) = 1 ∧
    cls (Date.asDate ([120])) = 1 ∧
    Date.fmtDate ⟨7, 3, 1⟩ = [48, 49, 45, 77, 65, 82, 45, 48, 48, 48, 55] ∧
    Date.fmtDate ⟨12345, 12, 31⟩ = [51, 49, 45, 68, 69, 67, 45, 49, 50, 51, 52, 53] := by decide

/-! ## molecule and topology -/

/-- `AsMolecule(s)`: one of the five case strings is returned unchanged, everything else is an
error value; there is no panic outcome. -/
theorem asMolecule_total (s : Bytes) :
    (MolTop.asMolecule s = .ok s ∧ s ∈ MolTop.moleculeCases) ∨
      (MolTop.asMolecule s = .error .fail ∧ s ∉ MolTop.moleculeCases) := by
  unfold MolTop.asMolecule
  by_cases h : MolTop.moleculeCases.contains s = true
  · left; rw [if_pos h]; exact ⟨rfl, by simpa using h⟩
  · right; rw [if_neg h]; exact ⟨rfl, by simpa using h⟩

theorem asMolecule_nopanic (s : Bytes) : MolTop.asMolecule s ≠ .error .panic := by
  rcases asMolecule_total s with h | h <;> rw [h.1] <;> intro h' <;> cases h'

/-- `AsTopology(s)`: `Linear` (0), `Circular` (1) or an error value; no panic outcome. -/
theorem asTopology_total (s : Bytes) :
    MolTop.asTopology s = .ok 0 ∨ MolTop.asTopology s = .ok 1 ∨ MolTop.asTopology s = .error .fail := by
  unfold MolTop.asTopology
  cases h : MolTop.topologyCases.lookup (MolTop.lowerFold s) with
  | none => right; right; rfl
  | some t =>
    have hall : ∀ p ∈ MolTop.topologyCases, p.2 = 0 ∨ p.2 = 1 := by decide
    rcases hall _ (Date.mem_of_lookup _ _ _ h) with h0 | h1
    · left; dsimp only at h0 ⊢; rw [h0]
    · right; left; dsimp only at h1 ⊢; rw [h1]

theorem asTopology_nopanic (s : Bytes) : MolTop.asTopology s ≠ .error .panic := by
  rcases asTopology_total s with h | h | h <;> rw [h] <;> intro h' <;> cases h'

/-- non-vacuity: case-insensitive topology, exact molecule -/
example : (MolTop.asTopology ([67, 73, 82, 67, 85, 76, 65, 82])).toOption = some 1 ∧
    (MolTop.asTopology ([76, 105, 110, 101, 97, 114])).toOption = some 0 ∧
    (MolTop.asTopology [108, 0xC4, 0xB0, 110, 101, 97, 114]).toOption = some 0 ∧
    cls (MolTop.asTopology ([114, 105, 110, 103])) = 1 ∧
    (MolTop.asMolecule ([115, 115, 45, 68, 78, 65])).toOption = some ([115, 115, 45, 68, 78, 65]) ∧
    cls (MolTop.asMolecule ([100, 110, 97])) = 1 := by decide

/-! ## the GenBank record scanner (`seqio.GenBankParser`, `INSDCTableParser`, the ORIGIN reader) -/

open GenBank in
/-- `INSDCTableParser("")` (with `gts.ParseLocation`, the qualifier parsers and the learning of
unknown qualifier names), entered in ANY state whose saved positions are sorted, for ANY bytes and
any registry: never a panic, and the final state is sorted again. -/
theorem table_nopanic (reg : GenBank.Registry) (s : PS) (hs : Sorted s.rest.length s.stk) :
    ((GenBank.table reg).run' s).1 ≠ .error .panic ∧
      Sorted ((GenBank.table reg).run' s).2.rest.length ((GenBank.table reg).run' s).2.stk := by
  obtain ⟨L, h⟩ := GenBank.exists_bound s hs
  have := GenBank.table_safeS (L := L) reg s h
  exact ⟨this.1, this.2.srt⟩

/-- non-vacuity of `table_nopanic`: a state in the middle of a record, with a saved position at the
start of the FEATURES line, is sorted (the table parser itself runs `LocParse.loc`, which the
kernel cannot evaluate; its results on concrete tables are correspondence-checked by `table.parse`) -/
example : let rest := GenBank.bs "     source          1..4\n                     /mol_type=\"genomic DNA\"\n"
    Sorted (PS.mk rest [GenBank.bs "FEATURES             Location/Qualifiers\n" ++ rest]).rest.length
      (PS.mk rest [GenBank.bs "FEATURES             Location/Qualifiers\n" ++ rest]).stk := by
  refine ⟨?_, trivial⟩
  decide +kernel

/-- `validateOrigin(p, length)` indexes `p` without bounds checks.  For a declared length of at
most 1000000020 (`maxOriginResidues`, the guard of `makeGenbankOriginParser` since be672b0) and a
buffer of at least `toOriginLength(length)` bytes (the reader hands it exactly that many) no index
is out of range, whatever the bytes are: the lines start at residue `i + 1` with `i` a multiple of
60 below `length`, so `i ≤ 999999960` and the `%9d` index is nine columns wide.  (Was stated for
`length < 10^9`; the constant of the Go code is exactly the largest for which this holds, see
`validateOrigin_wide_index_panics`.) -/
theorem validateOrigin_nopanic (p : Bytes) (length : Nat) (hL : length ≤ 1000000020)
    (hp : (Origin.toOriginLength (length : Int)).toNat ≤ p.length) :
    Origin.validateOrigin p (length : Int) ≠ .error .panic :=
  Origin.validateOrigin_ne_panic_le p length hL (by rwa [Origin.toNat_tl] at hp)

/-- the bound `length ≤ 1000000020` of `validateOrigin_nopanic` cannot be raised by a single
residue: for a declared length of 1000000021 the last line index has ten digits; in its last round
(`i = 1000000020`, one residue to go) the loop of `validateOrigin` stands before the last
`toOriginLength(1) = 12` bytes of its buffer, and on the well-formed line `1000000021 a` (ten
digits, a blank, the residue: twelve bytes) `p[offset] != '\n'` indexes one byte past the end: a
run-time panic.  This is about `validateOrigin` itself; since be672b0 the ORIGIN reader refuses
such a length before it calls `validateOrigin` (`originField_nopanic`). -/
theorem validateOrigin_wide_index_panics :
    Origin.validateLines 1000000021 1 1000000020 (GenBank.bs "1000000021 a") = .error .panic ∧
      (GenBank.bs "1000000021 a").length = (Origin.toOriginLength (1000000021 - 1000000020)).toNat := by
  decide +kernel

/-- the ORIGIN reader `makeGenbankOriginParser(length)` for a declared length that passed the
range check of `GenBankParser` (`0 ≤ length`), from ANY sorted state, for any bytes: never a panic
(not the negative `Request`, not `validateOrigin`'s indexing — a length above 1000000020 is
refused first —, not the slow path's `p[offset] = '\n'`), and the final state is sorted.  (Before
be672b0 this needed fewer than 10^9 bytes left.) -/
theorem originField_nopanic (length : Int) (depth : Nat) (h0 : 0 ≤ length) (s : PS)
    (hs : Sorted s.rest.length s.stk) :
    ((GenBank.originField length depth).run' s).1 ≠ .error .panic ∧
      Sorted ((GenBank.originField length depth).run' s).2.rest.length
        ((GenBank.originField length depth).run' s).2.stk := by
  obtain ⟨L, h⟩ := GenBank.exists_bound s hs
  have := GenBank.originField_safeS (L := L) length depth h0 s h
  exact ⟨this.1, this.2.srt⟩

/-- non-vacuity of the three statements above: the block of the four-residue sample is long
enough for `validateOrigin`; the ORIGIN reader accepts it from a sorted state with a saved
position; a declared length of 1000000021 is refused (class 1 = error value) before anything is
indexed, 1000000020 fails at the `Request` -/
example : (Origin.toOriginLength ((4 : Nat) : Int)).toNat ≤ (GenBank.bs "        1 acgt\n").length ∧
    Sorted (PS.mk (GenBank.bs "ORIGIN      \n        1 acgt\n//\n")
      [GenBank.bs "ORIGIN      \n        1 acgt\n//\n"]).rest.length
      [GenBank.bs "ORIGIN      \n        1 acgt\n//\n"] ∧
    ((GenBank.originField 4 12).run' ⟨GenBank.bs "ORIGIN      \n        1 acgt\n//\n",
      [GenBank.bs "ORIGIN      \n        1 acgt\n//\n"]⟩).1 = .ok (GenBank.bs "        1 acgt\n") ∧
    cls ((GenBank.originField 1000000021 12).run' ⟨GenBank.bs "ORIGIN      \n        1 acgt\n//\n", []⟩).1 = 1 ∧
    cls ((GenBank.originField 1000000020 12).run' ⟨GenBank.bs "ORIGIN      \n        1 acgt\n//\n", []⟩).1 = 1 := by
  refine ⟨by decide +kernel, ⟨Nat.le_refl _, trivial⟩, ?_⟩
  decide +kernel

/-- `seqio.GenBankParser`, entered in ANY state whose saved positions are sorted (in particular
the fresh state of a scanner), for ANY bytes and any qualifier registry: never a panic — neither
the `Trail` slice panic (LOCUS line, field names and bodies, `tryAllParsers` with its Push / Pop /
Drop / Clear traffic, the in-place joined DEFINITION body, the feature table) nor one of the ORIGIN
reader's — and the final state is sorted and not before the entry position.
(The FULL statement; before be672b0 it was false — `validateOrigin` panicked on a well-formed
block of more than 1000000020 residues — and only the `_partial` form below was proved.) -/
theorem genbankParser_nopanic (reg : GenBank.Registry) (s : PS)
    (hs : Sorted s.rest.length s.stk) :
    ((GenBank.genbankParser reg).run' s).1 ≠ .error .panic ∧
      Sorted ((GenBank.genbankParser reg).run' s).2.rest.length
        ((GenBank.genbankParser reg).run' s).2.stk ∧
      ((GenBank.genbankParser reg).run' s).2.rest.length ≤ s.rest.length :=
  GenBank.genbankParser_wp reg s hs

/-- corollary kept under its old name: the same with fewer than 10^9 bytes left (the hypothesis
is no longer used) -/
theorem genbankParser_nopanic_partial (reg : GenBank.Registry) (s : PS)
    (hs : Sorted s.rest.length s.stk) (_hlen : s.rest.length < 10 ^ 9) :
    ((GenBank.genbankParser reg).run' s).1 ≠ .error .panic ∧
      Sorted ((GenBank.genbankParser reg).run' s).2.rest.length
        ((GenBank.genbankParser reg).run' s).2.stk ∧
      ((GenBank.genbankParser reg).run' s).2.rest.length ≤ s.rest.length :=
  genbankParser_nopanic reg s hs

/-- … in particular on the fresh state of `pars.FromBytes(input)`, for EVERY byte string. -/
theorem genbankParser_fresh_nopanic (reg : GenBank.Registry) (input : Bytes) :
    ((GenBank.genbankParser reg).run' ⟨input, []⟩).1 ≠ .error .panic :=
  (GenBank.genbankParser_wp reg ⟨input, []⟩ trivial).1

/-- corollary kept under its old name (byte strings shorter than 10^9 bytes) -/
theorem genbankParser_fresh_nopanic_partial (reg : GenBank.Registry) (input : Bytes)
    (_hlen : input.length < 10 ^ 9) :
    ((GenBank.genbankParser reg).run' ⟨input, []⟩).1 ≠ .error .panic :=
  genbankParser_fresh_nopanic reg input

/-- Scanning ANY byte stream as GenBank (record after record until the input is used up or a
record fails) never panics.  (The FULL statement, for every byte string and every registry.) -/
theorem readAll_nopanic (reg : GenBank.Registry) (input : Bytes) : GenBank.readAll reg input ≠ none :=
  GenBank.parseAll_ne_none _ reg input []

/-- corollary kept under its old name (byte streams shorter than 10^9 bytes) -/
theorem readAll_nopanic_partial (reg : GenBank.Registry) (input : Bytes)
    (_hlen : input.length < 10 ^ 9) : GenBank.readAll reg input ≠ none :=
  readAll_nopanic reg input

/-- the LOCUS length of the record that starts at `s`, as `genbankLocusParser` reads it
(specification helper: re-reads the LOCUS line, nothing else) -/
def declaredLength (s : PS) : Option Int :=
  match (GenBank.locusParser.run' s).1 with
  | .ok l => some l.length
  | .error _ => none

/-- INTERNAL CONSISTENCY: whenever `GenBankParser` returns a record, the LOCUS line was readable,
the declared length is not negative, and the sequence returned has exactly the declared number of
residues (`Origin.Len()`), or there is no sequence at all next to a CONTIG line.  A truncated,
over-long or otherwise inconsistent ORIGIN block is never returned as a shortened sequence. -/
theorem genbank_length_consistent (reg : GenBank.Registry) (s : PS) (r : GenBank.Record)
    (reg' : GenBank.Registry) (s' : PS)
    (h : (GenBank.genbankParser reg).run' s = (.ok (r, reg'), s')) :
    ∃ n, declaredLength s = some n ∧ 0 ≤ n ∧
      (r.origin.len = n ∨ (r.origin.len = 0 ∧ r.fields.contigAcc ≠ [])) := by
  obtain ⟨l, s1, hl, h0, hc⟩ := GenBank.genbankParser_length reg s r reg' s' h
  refine ⟨l.length, ?_, h0, hc⟩
  unfold declaredLength
  rw [hl]

/-- a four-residue record, used below -/
def sampleRecord : Bytes :=
  GenBank.bs "LOCUS       X 4 bp DNA linear UNA 01-JAN-2000\nDEFINITION  d.\nORIGIN      \n        1 acgt\n//\n"

/-- non-vacuity: the sample record (fresh state: sorted, 88 bytes) is accepted with `Len() = 4`
= the declared length; with one residue missing, one too many, a negative length or a length the
nine column index cannot number (1000000021) the same text is an error value (class 1), not a
panic and not a shorter sequence; two records in one stream are both read -/
example : Sorted (PS.mk sampleRecord []).rest.length (PS.mk sampleRecord []).stk ∧
    sampleRecord.length < 10 ^ 9 ∧
    ((GenBank.genbankParser GenBank.Registry.default).run' ⟨sampleRecord, []⟩).1.toOption.map
      (fun r => r.1.origin.len) = some 4 ∧
    declaredLength ⟨sampleRecord, []⟩ = some 4 ∧
    cls ((GenBank.genbankParser GenBank.Registry.default).run' ⟨GenBank.bs
      "LOCUS       X 4 bp DNA linear UNA 01-JAN-2000\nORIGIN      \n        1 acg\n//\n", []⟩).1 = 1 ∧
    cls ((GenBank.genbankParser GenBank.Registry.default).run' ⟨GenBank.bs
      "LOCUS       X 4 bp DNA linear UNA 01-JAN-2000\nORIGIN      \n        1 acgta\n//\n", []⟩).1 = 1 ∧
    cls ((GenBank.genbankParser GenBank.Registry.default).run' ⟨GenBank.bs
      "LOCUS       X -4 bp DNA linear UNA 01-JAN-2000\nORIGIN      \n        1 acgt\n//\n", []⟩).1 = 1 ∧
    cls ((GenBank.genbankParser GenBank.Registry.default).run' ⟨GenBank.bs
      "LOCUS       X 4 bp DNA linear UNA 01-JAN-2000\n//\n", []⟩).1 = 1 ∧
    cls ((GenBank.genbankParser GenBank.Registry.default).run' ⟨GenBank.bs
      "LOCUS       X 1000000021 bp DNA linear UNA 01-JAN-2000\nORIGIN      \n        1 acgt\n//\n", []⟩).1 = 1 ∧
    (GenBank.readAll GenBank.Registry.default (sampleRecord ++ sampleRecord)).map
      (fun r => (r.1.length, r.2.2)) = some (2, true) := by
  refine ⟨trivial, ?_⟩
  decide +kernel

/-! ## the sequence of an accepted record decodes to the declared number of residues -/

/-- `validateOrigin` accepts nothing but written blocks: a buffer of `toOriginLength(L)` bytes
that it accepts (`L ≤ 1000000020`, the guard of the reader; was `L < 10^9`) is byte for byte the
block `NewOrigin` writes for `L` printable residues … -/
theorem accepted_block_is_written (b : Bytes) (L : Nat) (hL : L ≤ 1000000020)
    (hb : b.length = (Origin.toOriginLength (L : Int)).toNat)
    (h : Origin.validateOrigin b (L : Int) = .ok ()) :
    ∃ p, b = Origin.originStream p ∧ (∀ c ∈ p, Origin.isBase c = true) ∧ p.length = L :=
  Origin.validateOrigin_inv_le b L hL (by rw [hb, Origin.toNat_tl]) h

/-- … and whatever the ORIGIN reader `makeGenbankOriginParser(length)` returns (fast or slow
path, any `0 ≤ length`: a length above 1000000020 returns nothing) is such a block:
`Origin.Bytes()` on it does not panic and yields exactly `length` printable residues. -/
theorem originField_decodes (length : Nat) (depth : Nat) (s s' : PS)
    (b : Bytes) (h : (GenBank.originField (length : Int) depth).run' s = (.ok b, s')) :
    ∃ p, Origin.originBytes b = .ok p ∧ p.length = length ∧ (∀ c ∈ p, Origin.isBase c = true) ∧
      b = Origin.originStream p := by
  have := GenBank.originField_accepted length depth s
  unfold WP at this
  rw [h] at this
  obtain ⟨hL, hv, hl⟩ := this b rfl
  exact Origin.accepted_decodes_le b length hL hl hv

/-- INTERNAL CONSISTENCY, residues: every record `GenBankParser` returns (whatever its LOCUS line
declares; the restriction to fewer than 10^9 residues is gone with be672b0) carries a sequence
that `Origin.Bytes()` decodes WITHOUT a panic to exactly `Origin.Len()` residues, all printable —
together with `genbank_length_consistent`: declared length = `Len()` = number of residues (or no
sequence next to a CONTIG line). -/
theorem genbank_sequence_decodes (reg : GenBank.Registry) (s : PS) (r : GenBank.Record)
    (reg' : GenBank.Registry) (s' : PS)
    (h : (GenBank.genbankParser reg).run' s = (.ok (r, reg'), s')) :
    ∃ n, declaredLength s = some n ∧
      ∃ p, r.origin.bytes = .ok p ∧ (p.length : Int) = r.origin.len ∧
        ∀ c ∈ p, Origin.isBase c = true := by
  obtain ⟨l, s1, hl, hd⟩ := GenBank.genbankParser_decodes reg s r reg' s' h
  refine ⟨l.length, ?_, hd⟩
  unfold declaredLength
  rw [hl]

/-- non-vacuity: the sample record's sequence decodes to `acgt`; the block of the sample is
accepted by `validateOrigin` for `L = 4` and has `toOriginLength 4 = 15` bytes -/
example : ((GenBank.genbankParser GenBank.Registry.default).run' ⟨sampleRecord, []⟩).1.toOption.map
      (fun r => r.1.origin.bytes) = some (.ok [97, 99, 103, 116]) ∧
    Origin.validateOrigin (GenBank.bs "        1 acgt\n") 4 = .ok () ∧
    (GenBank.bs "        1 acgt\n").length = (Origin.toOriginLength 4).toNat ∧
    ((GenBank.originField 4 12).run' ⟨GenBank.bs "ORIGIN      \n        1 acgt\n//\n", []⟩).1 =
      .ok (GenBank.bs "        1 acgt\n") := by
  decide +kernel

/-! ## the loops of the GenBank reader: fuel ("never hangs") -/

/-- THE OUTCOME OF THE RECORD LOOP DOES NOT DEPEND ON ITS FUEL (the loop of `GenBankParser`; docstring
corrected after audit finding S4: this statement ALONE does not say "never loops forever" — the model's
loop answers `fail` when its fuel is used up, which a malformed record gives as well, so a loop that
spins on an error path satisfies it too.  That each round consumes and that the loop ends BY ITSELF
within `bytes left + 1` rounds are `recordLoop_round_consumes` / `recordLoop_iterations_le` in
Props/C07Fuel.lean, about a copy of the loop with a distinguishable fuel-out.)  The proof goes:
from ANY state whose saved positions are sorted — also with positions on the stack that earlier
parsers leaked — every iteration either ends the loop (end mark, hard failure, end of input) or
leaves strictly fewer bytes: a parsed field has consumed its name, a skipped line at least one
byte, and no sub-parser ever goes back behind the position where the iteration began.  Hence the
fuel is an iteration counter that is never used up once it exceeds the number of bytes left: any
two such fuels give the same outcome and the same final state (the statement).  (`depth ≥ 1`: `genbankLocusParser` reports an indent of at least 5, see
`genbankParser_loop_fuel`.)

Before 66de3a0 this was FALSE and its negation was the theorem `recordLoop_fuel_full_refuted`
(removed): a SOURCE field without ORGANISM popped the frame of `tryAllParsers` AND one more saved
position; with frames leaked by a failing location parser on the stack the scan went back and read
the lines in between again, once per leaked frame — quadratically often (F34: 7 KB took 1.6 s,
28 KB 42 s on the real code).  The parser now clears the stack there and fails the record. -/
theorem recordLoop_fuel_stable (length : Int) (depth : Nat) (hd : 1 ≤ depth) (sub : GenBank.Sub)
    (s : PS) (hs : Sorted s.rest.length s.stk) (n m : Nat) (hn : s.rest.length < n)
    (hm : s.rest.length < m) :
    (GenBank.recordLoop length depth n sub).run' s = (GenBank.recordLoop length depth m sub).run' s :=
  GenBank.recordLoop_fuel length depth hd n m sub s hs hn hm

/-- the statement in the shape it was refuted in (fuel `2·bytes + 2` as in `GenBankParser`, and
any larger fuel) -/
theorem recordLoop_fuel_full (length : Int) (depth : Nat) (hd : 1 ≤ depth) (sub : GenBank.Sub)
    (s : PS) (hs : Sorted s.rest.length s.stk) (n m : Nat) (hn : 2 * s.rest.length + 2 ≤ n)
    (hnm : n ≤ m) :
    (GenBank.recordLoop length depth n sub).run' s = (GenBank.recordLoop length depth m sub).run' s :=
  recordLoop_fuel_stable length depth hd sub s hs n m (by omega) (by omega)

/-- … as `GenBankParser` runs it: behind a LOCUS line that was read (its indent is the `depth`),
on the cleared stack, the fuel `2n+2` it passes gives what every fuel above the `n` bytes left
gives — in particular `n + 1`.  (That the loop makes at most `n + 1` iterations is
`genbankParser_loop_ends`, Props/C07Fuel.lean.) -/
theorem genbankParser_loop_fuel (s s1 : PS) (l : GenBank.Locus)
    (h : GenBank.locusParser.run' s = (.ok l, s1)) (sub : GenBank.Sub) (m : Nat)
    (hm : s1.rest.length < m) :
    (GenBank.recordLoop l.length l.depth (2 * s1.rest.length + 2) sub).run' ⟨s1.rest, []⟩ =
      (GenBank.recordLoop l.length l.depth m sub).run' ⟨s1.rest, []⟩ := by
  have hd := GenBank.locusParser_depth s
  unfold WP at hd
  rw [h] at hd
  have := hd l rfl
  exact recordLoop_fuel_stable l.length l.depth (by omega) sub ⟨s1.rest, []⟩ trivial _ _
    (by show s1.rest.length < _; omega) hm

/-- the weaker statement that was all that held before 66de3a0 (kept; it needs neither the sorted
state nor `depth ≥ 1`): running out of fuel can only ever show up as the error value.  An outcome
other than that error — a record, or a panic — and its final state are the same for every larger
fuel: no record is ever lost or altered by the fuel. -/
theorem recordLoop_fuel_partial (length : Int) (depth : Nat) (k m : Nat) (sub : GenBank.Sub)
    (s s' : PS) (r : Except Err GenBank.Sub)
    (h : (GenBank.recordLoop length depth k sub).run' s = (r, s')) (hr : r ≠ .error .fail)
    (hkm : k ≤ m) : (GenBank.recordLoop length depth m sub).run' s = (r, s') :=
  GenBank.recordLoop_mono length depth k sub s r s' h hr m hkm

/-- the continuation-line loop of `genbankFieldBodyParser` (indent `depth ≥ 1`; the LOCUS parser
reports `depth ≥ 5`): every iteration consumes the indent, so with more fuel than bytes left the
outcome and the final state do not depend on the fuel -/
theorem bodyMore_fuel_stable (depth : Nat) (sep : UInt8) (hd : 1 ≤ depth) (n m : Nat)
    (acc : Bytes) (k : Nat) (s : PS) (hn : s.rest.length < n) (hm : s.rest.length < m) :
    (GenBank.bodyMore depth sep n acc k).run' s = (GenBank.bodyMore depth sep m acc k).run' s :=
  GenBank.bodyMore_fuel depth sep hd n m acc k s hn hm

/-- the taxonomy lines of SOURCE / ORGANISM: same measure -/
theorem taxonMore_fuel_stable (depth : Nat) (hd : 1 ≤ depth) (n m : Nat) (acc : Bytes) (s : PS)
    (hn : s.rest.length < n) (hm : s.rest.length < m) :
    (GenBank.taxonMore depth n acc).run' s = (GenBank.taxonMore depth m acc).run' s :=
  GenBank.taxonMore_fuel depth hd n m acc s hn hm

/-- the further lines of DBLINK: same measure -/
theorem dblinkMore_fuel_stable (depth : Nat) (hd : 1 ≤ depth) (n m : Nat) (f : GenBank.Fields)
    (s : PS) (hn : s.rest.length < n) (hm : s.rest.length < m) :
    (GenBank.dblinkMore depth n f).run' s = (GenBank.dblinkMore depth m f).run' s :=
  GenBank.dblinkMore_fuel depth hd n m f s hn hm

/-- a record that `GenBankParser` returns has consumed at least the five bytes of `LOCUS`
(from any sorted state) … -/
theorem genbankParser_consumes (reg : GenBank.Registry) (s : PS) (hs : Sorted s.rest.length s.stk)
    (v : GenBank.Record × GenBank.Registry)
    (h : ((GenBank.genbankParser reg).run' s).1 = .ok v) :
    ((GenBank.genbankParser reg).run' s).2.rest.length + 5 ≤ s.rest.length :=
  GenBank.genbankParser_consumes reg s hs v h

/-- … so the scan loop's fuel `len(input) + 1` is adequate: any two fuels above the number of
bytes give the same records, for every byte string. -/
theorem parseAll_fuel_stable (reg : GenBank.Registry) (input : Bytes)
    (acc : List GenBank.Record) (n m : Nat) (hn : input.length < n) (hm : input.length < m) :
    GenBank.parseAll reg n input acc = GenBank.parseAll reg m input acc :=
  GenBank.parseAll_fuel n m reg input acc hn hm

/-- corollary kept under its old name (input shorter than 10^9 bytes) -/
theorem parseAll_fuel_stable_partial (reg : GenBank.Registry) (input : Bytes)
    (acc : List GenBank.Record) (n m : Nat) (_hlen : input.length < 10 ^ 9)
    (hn : input.length < n) (hm : input.length < m) :
    GenBank.parseAll reg n input acc = GenBank.parseAll reg m input acc :=
  parseAll_fuel_stable reg input acc n m hn hm

/-- non-vacuity: the state that used to refute the fuel statement (37 bytes left: twenty empty
lines and a SOURCE field without ORGANISM; three saved copies of that position) is sorted, the
fuels 38, 76 = 2·37+2 and 200 are above the bytes left, and all three now end in the same state,
3 bytes before the end (the first reading of the SOURCE line fails the record; it used to be 21
resp. 17 bytes for the fuels 76 and 200); the LOCUS line of the sample is read with `depth = 12`;
in the sample record the body loop runs with that depth, and the scan loop on two records agrees
for the fuels 177 and 1000 -/
example : Sorted GenBank.rescanState.rest.length GenBank.rescanState.stk ∧
    GenBank.rescanState.rest.length < 38 ∧ 2 * GenBank.rescanState.rest.length + 2 ≤ 76 ∧
    ((GenBank.recordLoop 0 12 38 GenBank.sub0).run' GenBank.rescanState).2.rest.length = 3 ∧
    ((GenBank.recordLoop 0 12 76 GenBank.sub0).run' GenBank.rescanState).2.rest.length = 3 ∧
    ((GenBank.recordLoop 0 12 200 GenBank.sub0).run' GenBank.rescanState).2.rest.length = 3 ∧
    cls ((GenBank.recordLoop 0 12 38 GenBank.sub0).run' GenBank.rescanState).1 = 1 ∧
    (GenBank.locusParser.run' ⟨sampleRecord, []⟩).1.toOption.map (·.depth) = some 12 ∧
    (GenBank.parseAll GenBank.Registry.default 177 (sampleRecord ++ sampleRecord) []).map
      (fun r => r.1.length) = some 2 ∧
    (GenBank.parseAll GenBank.Registry.default 1000 (sampleRecord ++ sampleRecord) []).map
      (fun r => r.1.length) = some 2 := by
  refine ⟨⟨Nat.le_refl _, Nat.le_refl _, Nat.le_refl _, trivial⟩, ?_⟩
  decide +kernel

/-! ## FASTA streams -/

/-- `seqio.NewScanner(seqio.FastaParser, r)` over ANY byte string, and `seqio.NewAutoScanner(r)`
over any byte string that does not begin with `LOCUS` (the modelled fragment of the auto scanner;
on `LOCUS…` it continues with `GenBankParser`, see `genbankParser_fresh_nopanic_partial`): the scan
never reports a panic.  (Every single `FastaParser` call: `Gts.C17.parse_never_panics`.) -/
theorem fasta_scan_nopanic (auto : Bool) (text : Bytes) : Fasta.scanAll auto text ≠ .panic :=
  Fasta.scanAll_ne_panic auto text

/-- non-vacuity: an arbitrary byte salad is scanned to an error, a two-record stream to its records -/
example : Fasta.scanAll true [0, 255, 62, 10, 13] = .done [] false ∧
    Fasta.scanAll false [62, 97, 10, 65, 67, 10, 62, 98, 10, 71, 10] =
      .done [([97], [65, 67]), ([98], [71])] true := by decide +kernel

end Gts.C07
