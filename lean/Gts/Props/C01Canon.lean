/-
  C01 — closure of the WHOLE round-trip domain (`WritableRecord` = `Writable` AND canonical locations,
  the decidable domain of `read_write_canon`) under the edit operations, next to
  `writable_record_complement` of `Gts/Props/C01.lean`.  Property theorems only (helper lemmas:
  `Gts/Lemmas/Canon*.lean`; the location-level statements are C06's: `Gts.C06.shift_canon`,
  `expand_canon_partial`, `reverse_canon_partial`, `normalize_canon_partial`).

  `Writable` is closed under every edit (`writable_insert` … in `Props/C01.lean`).  The canonical
  locations are not: `Location.Expand / Reverse / Normalize` re-apply `Join` to the mapped parts of
  a `Joined`, and `Join` is not idempotent (known finding K3 of C06).  The guards `Seq.deleteK3`,
  `Seq.reverseK3`, `Seq.rotateK3` (`Gts/Lemmas/CanonRecord.lean`, folded from `Loc.expandK3` …,
  `Gts/Spec/CanonGuard.lean`) say that the K3 shape `… p, p^p+1, p …` arises in one of those `Join`s;
  outside them the edited record is again in the domain, so `read_write_canon` and
  `write_read_write_partial` apply to it: gts reads back what it wrote.

    gts.Insert    `writable_record_insert_partial`   no K3 guard (an insertion fires no rule); guest
                                                     features well-formed
    gts.Delete    `writable_record_delete_partial`   guard `deleteK3`; FULL statement refuted:
                                                     `writable_record_delete_full_refuted`
    gts.Reverse   `writable_record_reverse_partial`  guards `reverseK3`, `reverseIn` (K1)
    gts.Rotate    `writable_record_rotate_partial`   guard `rotateK3`
    gts.Embed / gts.Concat / gts.Erase   `writable_record_embed_partial`, `_concat_partial` (no K3 guard),
                                         `_erase_partial` (guard `deleteK3` of the features it keeps)
    read back     `delete_read_back_partial`, `insert_read_back_partial`
-/
import Gts.Props.C01
import Gts.Lemmas.CanonRecord
namespace Gts.C01
open Gts Gts.Pars Gts.GenBank

theorem writableRecord_iff (reg : Registry) (F : Fields) (s : Seq) :
    WritableRecord reg (ofSeq F s) s.bytes = true ↔
      Writable reg (ofSeq F s) s.bytes = true ∧ s.locsCanon = true := by
  simp only [WritableRecord, Bool.and_eq_true, ofSeq_locs]

/-- **`gts.Delete`, the whole round-trip domain**: a record of `WritableRecord` (writable, canonical
locations) stays in it under `gts.Delete(seq, offset, length)` — `0 ≤ offset`, `0 ≤ length`, residues
remain or no CONTIG — unless the K3 shape arises in the `Join` of one of its locations
(`s.deleteK3 offset length = false`). -/
theorem writable_record_delete_partial (reg : Registry) (F : Fields) (s : Seq) (offset length : Int)
    (ho : 0 ≤ offset) (hlen0 : 0 ≤ length) (hw : WritableRecord reg (ofSeq F s) s.bytes = true)
    (hne : 0 < (s.delete offset length).bytes.length ∨ F.contigAcc.isEmpty = true)
    (hk3 : s.deleteK3 offset length = false) :
    WritableRecord reg (ofSeq F (s.delete offset length)) (s.delete offset length).bytes = true := by
  rw [writableRecord_iff] at hw ⊢
  exact ⟨GenBank.writable_delete reg F s offset length hlen0 hw.1 hne,
    locsCanon_delete s offset length hw.2 ho hlen0 hk3⟩

/-- the witness of the refuted full statement: twelve residues, a feature `join(7,4..5,7..9)` -/
def deleteK3Witness : Seq :=
  ⟨[⟨"source", .ranged 0 12 false false, [["organism", "Homo sapiens"]]⟩,
    ⟨"misc_feature", .joined [.point 6, .ranged 3 5 false false, .ranged 6 9 false false], [["note", "k3"]]⟩],
   bs "acgtacgtacgt"⟩

/-- FULL STATEMENT (false; root cause = known finding K3, reached through an edit): "`WritableRecord` is
closed under `gts.Delete`".  `gts delete 4..6` on the witness writes the feature as `join(4,4..6)`
(`Gts.C06.expand_canon_witness_read_back`); the next gts command reads that text as `4..6` and writes
`4..6`: the record gts wrote is not read back identically, and write → read → write is not a fixed
point (checked on the `gts` binary and replayed through the harness ops `loc.expand` / `loc.print` /
`loc.parse`). -/
theorem writable_record_delete_full_refuted :
    ¬ (∀ (reg : Registry) (F : Fields) (s : Seq) (offset length : Int), 0 ≤ offset → 0 ≤ length →
        WritableRecord reg (ofSeq F s) s.bytes = true →
        0 < (s.delete offset length).bytes.length →
        WritableRecord reg (ofSeq F (s.delete offset length)) (s.delete offset length).bytes = true) := by
  intro h
  have := h Registry.default locusWitness deleteK3Witness 3 3 (by decide) (by decide) (by decide +kernel)
    (by decide +kernel)
  rw [writableRecord_iff] at this
  have h2 := this.2
  revert h2
  decide +kernel

/-- non-vacuity of `writable_record_delete_partial`: the same record, another deletion (the middle part
of the join vanishes, no K3 shape) -/
example : WritableRecord Registry.default (ofSeq locusWitness deleteK3Witness) deleteK3Witness.bytes = true ∧
    0 < (deleteK3Witness.delete 3 2).bytes.length ∧ deleteK3Witness.deleteK3 3 2 = false ∧
    deleteK3Witness.deleteK3 3 3 = true := by
  refine ⟨by decide +kernel, by decide +kernel, by decide +kernel, by decide +kernel⟩

/-- **`gts.Insert`, the whole round-trip domain**: host and guest in `WritableRecord`, features inside
their sequences (`featsWithin`), `0 ≤ index ≤ Len(host)`, fewer than 10^9 residues together: the
result is in `WritableRecord`.  NO K3 guard: `Shift(index, n)` of the host's locations never fires a
reduction rule (`Gts.C06.shift_canon`).  The guest's locations go through `Expand(0, index)`, for
which the same is proved for well-formed features (`featsWf`: every span non-empty — the missing
part of the full statement: an empty `Ranged` of the guest turns into a between-site). -/
theorem writable_record_insert_partial (reg : Registry) (F G : Fields) (host guest : Seq) (index : Int)
    (hi0 : 0 ≤ index) (hi : index ≤ host.len)
    (hw : WritableRecord reg (ofSeq F host) host.bytes = true)
    (hg : WritableRecord reg (ofSeq G guest) guest.bytes = true)
    (hin : host.featsWithin = true) (hgin : guest.featsWithin = true) (hgw : guest.featsWf = true)
    (hsum : host.bytes.length + guest.bytes.length < 10 ^ 9) :
    WritableRecord reg (ofSeq F (host.insert index guest)) (host.insert index guest).bytes = true := by
  rw [writableRecord_iff] at hw hg ⊢
  refine ⟨GenBank.writable_insert reg F G host guest index hw.1 hg.1 hsum,
    locsCanon_insert host guest index hw.2 hg.2 hgw hin hgin hi0 hi ?_⟩
  simp only [Seq.len]
  omega

/-- **`gts.Reverse`, the whole round-trip domain**: unless the K3 shape arises (`s.reverseK3 = false`),
for features whose mirror images have non-negative coordinates (`s.reverseIn`: no between-site at the
very end of the sequence — `Between.Reverse` is off by one, known finding K1). -/
theorem writable_record_reverse_partial (reg : Registry) (F : Fields) (s : Seq)
    (hw : WritableRecord reg (ofSeq F s) s.bytes = true) (hin : s.reverseIn = true)
    (hk3 : s.reverseK3 = false) :
    WritableRecord reg (ofSeq F s.reverse) s.reverse.bytes = true := by
  rw [writableRecord_iff] at hw ⊢
  have hl := (writable_parts reg (ofSeq F s) s.bytes hw.1).2.2.2.2.2.2.2
  refine ⟨GenBank.writable_reverse reg F s hw.1, locsCanon_reverse s hw.2 ?_ hin hk3⟩
  simp only [Seq.len]
  omega

/-- **`gts.Rotate`, the whole round-trip domain**: a non-empty sequence with well-formed features
inside it, unless the K3 shape arises in the `Normalize` step (`s.rotateK3 n = false`; the
`Expand(0, n)` step is an insertion and needs no guard). -/
theorem writable_record_rotate_partial (reg : Registry) (F : Fields) (s : Seq) (n : Int)
    (hw : WritableRecord reg (ofSeq F s) s.bytes = true) (hL0 : 0 < s.len) (hin : s.featsWithin = true)
    (hwf : s.featsWf = true) (hk3 : s.rotateK3 n = false) :
    WritableRecord reg (ofSeq F (s.rotate n)) (s.rotate n).bytes = true := by
  rw [writableRecord_iff] at hw ⊢
  have hl := (writable_parts reg (ofSeq F s) s.bytes hw.1).2.2.2.2.2.2.2
  refine ⟨GenBank.writable_rotate reg F s n hw.1, locsCanon_rotate s n hw.2 hwf hin hL0 ?_ hk3⟩
  simp only [Seq.len]
  omega

/-- **`gts.Embed`, the whole round-trip domain**: like Insert, but the host's locations go through
`Expand(index, n)` as well (a feature around the insertion point is extended over the guest): host
and guest features well-formed and inside their sequences; no K3 guard. -/
theorem writable_record_embed_partial (reg : Registry) (F G : Fields) (host guest : Seq) (index : Int)
    (hi0 : 0 ≤ index) (hi : index ≤ host.len)
    (hw : WritableRecord reg (ofSeq F host) host.bytes = true)
    (hg : WritableRecord reg (ofSeq G guest) guest.bytes = true)
    (hin : host.featsWithin = true) (hgin : guest.featsWithin = true) (hhw : host.featsWf = true)
    (hgw : guest.featsWf = true) (hsum : host.bytes.length + guest.bytes.length < 10 ^ 9) :
    WritableRecord reg (ofSeq F (host.embed index guest)) (host.embed index guest).bytes = true := by
  rw [writableRecord_iff] at hw hg ⊢
  refine ⟨GenBank.writable_embed reg F G host guest index hw.1 hg.1 hsum,
    locsCanon_embed host guest index hw.2 hg.2 hhw hgw hin hgin hi0 hi ?_⟩
  simp only [Seq.len]
  omega

/-- **`gts.Concat`** of two records: the second record's features well-formed and inside it; no K3 guard. -/
theorem writable_record_concat_partial (reg : Registry) (F G : Fields) (a b : Seq)
    (hw : WritableRecord reg (ofSeq F a) a.bytes = true) (hg : WritableRecord reg (ofSeq G b) b.bytes = true)
    (hgin : b.featsWithin = true) (hgw : b.featsWf = true)
    (hsum : a.bytes.length + b.bytes.length < 10 ^ 9) :
    WritableRecord reg (ofSeq F (Seq.concat2 a b)) (Seq.concat2 a b).bytes = true := by
  rw [writableRecord_iff] at hw hg ⊢
  refine ⟨GenBank.writable_concat2 reg F G a b hw.1 hg.1 hsum, locsCanon_concat2 a b hw.2 hg.2 hgw hgin ?_⟩
  simp only [Seq.len]
  omega

/-- **`gts.Erase`** = `gts.Delete` on the features it keeps (`eraseKept`): guard `deleteK3` of those. -/
theorem writable_record_erase_partial (reg : Registry) (F : Fields) (s : Seq) (offset length : Int)
    (ho : 0 ≤ offset) (hlen0 : 0 ≤ length) (hw : WritableRecord reg (ofSeq F s) s.bytes = true)
    (hne : 0 < (s.erase offset length).bytes.length ∨ F.contigAcc.isEmpty = true)
    (hk3 : (eraseKept s offset length).deleteK3 offset length = false) :
    WritableRecord reg (ofSeq F (s.erase offset length)) (s.erase offset length).bytes = true := by
  rw [writableRecord_iff] at hw ⊢
  exact ⟨GenBank.writable_erase reg F s offset length hlen0 hw.1 hne,
    locsCanon_erase s offset length hw.2 ho hlen0 hk3⟩

/-- non-vacuity: the edit host / guest of `Props/C01.lean` meet every guard; the edits change the table -/
example : WritableRecord Registry.default (ofSeq locusWitness editHost) editHost.bytes = true ∧
    WritableRecord Registry.default (ofSeq sampleRecord.fields editGuest) editGuest.bytes = true ∧
    editHost.featsWithin = true ∧ editGuest.featsWithin = true ∧ editGuest.featsWf = true ∧
    editHost.featsWf = true ∧ editHost.reverseIn = true ∧ editHost.reverseK3 = false ∧
    editHost.rotateK3 5 = false ∧ editHost.deleteK3 2 5 = false ∧ 0 < editHost.len ∧
    (editHost.rotate 5).locsCanon = true ∧ (editHost.insert 3 editGuest).feats.length = 3 ∧
    (eraseKept editHost 0 10).deleteK3 0 10 = false ∧ (editHost.erase 0 10).feats.length = 1 := by
  refine ⟨by decide +kernel, by decide +kernel, by decide +kernel, by decide +kernel, by decide +kernel,
    by decide +kernel, by decide +kernel, by decide +kernel, by decide +kernel, by decide +kernel,
    by decide +kernel, by decide +kernel, by decide +kernel, by decide +kernel, by decide +kernel⟩

/-! ## the edited record is read back identically -/

/-- **`gts.Delete`, then write, then read.**  Under the guards of `writable_record_delete_partial` the
record `gts.Delete` returns is written, and `GenBankParser` reads that text (followed by any `rest'`)
back as `readBack` of the edited record: in particular every feature comes back with the key and the
LOCATION the deletion gave it (`expand offset (-length)` of the old one), and the registry only
learns.  (`readBack` is the record itself up to K1A; the qualifiers come back as themselves under
`tableFaithful`: `read_write_faithful_partial`.) -/
theorem delete_read_back_partial (reg : Registry) (F : Fields) (s : Seq) (offset length : Int)
    (ho : 0 ≤ offset) (hlen0 : 0 ≤ length) (hw : WritableRecord reg (ofSeq F s) s.bytes = true)
    (hne : 0 < (s.delete offset length).bytes.length ∨ F.contigAcc.isEmpty = true)
    (hk3 : s.deleteK3 offset length = false) (rest' : Bytes) :
    ∃ t, write reg (ofSeq F (s.delete offset length)) = .ok t ∧
      genbankParser reg ⟨t ++ rest', []⟩ =
        (.ok (readBack reg (ofSeq F (s.delete offset length)) (s.delete offset length).bytes,
          learnTable reg (ofSeq F (s.delete offset length)).table), ⟨rest', []⟩) ∧
      (readBack reg (ofSeq F (s.delete offset length)) (s.delete offset length).bytes).table.map
          (fun f => (f.key, f.loc)) =
        s.feats.map (fun f => (bs f.key, f.loc.expand offset (-length))) := by
  obtain ⟨t, h1, h2⟩ := read_write_canon reg (ofSeq F (s.delete offset length)) (s.delete offset length).bytes rfl
    (writable_record_delete_partial reg F s offset length ho hlen0 hw hne hk3) rest'
  refine ⟨t, h1, h2, ?_⟩
  simp [readBack, ofSeq, Seq.delete, readFeature, qfeature, List.map_map, Function.comp_def]

/-- **`gts.Insert`, then write, then read.**  Under the guards of `writable_record_insert_partial` the
record `gts.Insert` returns is written and read back as `readBack` of itself: the same features in
the same order, each with the key and the location the insertion gave it. -/
theorem insert_read_back_partial (reg : Registry) (F G : Fields) (host guest : Seq) (index : Int)
    (hi0 : 0 ≤ index) (hi : index ≤ host.len)
    (hw : WritableRecord reg (ofSeq F host) host.bytes = true)
    (hg : WritableRecord reg (ofSeq G guest) guest.bytes = true)
    (hin : host.featsWithin = true) (hgin : guest.featsWithin = true) (hgw : guest.featsWf = true)
    (hsum : host.bytes.length + guest.bytes.length < 10 ^ 9) (rest' : Bytes) :
    ∃ t, write reg (ofSeq F (host.insert index guest)) = .ok t ∧
      genbankParser reg ⟨t ++ rest', []⟩ =
        (.ok (readBack reg (ofSeq F (host.insert index guest)) (host.insert index guest).bytes,
          learnTable reg (ofSeq F (host.insert index guest)).table), ⟨rest', []⟩) ∧
      (readBack reg (ofSeq F (host.insert index guest)) (host.insert index guest).bytes).table.map
          (fun f => (f.key, f.loc)) =
        (host.insert index guest).feats.map (fun f => (bs f.key, f.loc)) := by
  obtain ⟨t, h1, h2⟩ := read_write_canon reg (ofSeq F (host.insert index guest)) (host.insert index guest).bytes rfl
    (writable_record_insert_partial reg F G host guest index hi0 hi hw hg hin hgin hgw hsum) rest'
  refine ⟨t, h1, h2, ?_⟩
  simp [readBack, ofSeq, readFeature, qfeature, List.map_map, Function.comp_def]

/-- non-vacuity of the two corollaries: `editHost` with five residues deleted, `editGuest` inserted -/
example : (0 : Int) ≤ 2 ∧ (0 : Int) ≤ 5 ∧ 0 < (editHost.delete 2 5).bytes.length ∧ editHost.deleteK3 2 5 = false ∧
    (0 : Int) ≤ 3 ∧ 3 ≤ editHost.len ∧ editHost.bytes.length + editGuest.bytes.length < 10 ^ 9 := by
  refine ⟨by decide, by decide, by decide +kernel, by decide +kernel, by decide, by decide +kernel, by decide +kernel⟩

end Gts.C01
