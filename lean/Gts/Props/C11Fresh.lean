/-
  C11 — `Expand` never returns a slice of its receiver: a THEOREM about the heap programs of the
  location methods (Gts/Model/MemLoc.lean), not an oracle.

  `Joined.Expand`, `Ordered.Expand`, `Complemented.Expand` are written as the heap programs the Go
  code is (`make` + element loop + `Join` / `Order`, i.e. `LocationList.Push`, `LocationList.Slice()`,
  `flattenLocations`, every `append` with its capacity policy `g`).  For EVERY heap, EVERY receiver
  (well formed or not, sharing arrays with other values or with itself), every position / amount,
  every capacity policy and every fuel `k` (nesting depth the program is allowed to descend):

    * FRESH       `expand_fresh`    — if the program has a result, every array that existed is
                                      unchanged and the result refers only to arrays allocated by
                                      the call (`RefsAbove h.length`), which in turn refer only to
                                      such arrays (`Closed`);
    * REFINEMENT  `expand_refines`  — if the receiver reads as the location value `l`, the result
                                      reads as `Loc.expand l i n` (the pure model of Gts/Model/Loc.lean);
    * TOTAL       `expand_total`    — a receiver that reads as a value has a result for all
                                      sufficiently large `k` (`none` only ever means "descend further").

  `Shift`, `Normalize` (same shape) and `Reverse` (a loop from both ends) have the same three
  theorems; `Complement` allocates
  nothing and SHARES the receiver's slices (`complement_shares`).  `asComplete` itself refines
  `Loc.asComplete` on EVERY readable argument and changes nothing in the heap but partial markers
  (`asComplete_refines`, `asComplete_only_erases`).

  The call site of `asComplete` (`gts.Slice`, sequence.go:276-279) is the program `sliceLocMem` =
  `Expand`, `Expand`, `asComplete`; `sliceLoc_frame` / `sliceLoc_refines_feature` / `sliceLoc_total`
  replace the stand-in `allocLoc` of `C11.asComplete_fresh_frame`: nothing about `Slice` rests on
  the oracle `expand-fresh` any more.  Helper lemmas: Gts/Lemmas/MemLoc*.lean.
-/
import Gts.Lemmas.MemLocTotal
import Gts.Lemmas.MemLocComplete
import Gts.Lemmas.MemLocReverse
namespace Gts.C11
open Gts Gts.Mem Gts.Mem.Heap

/-! ### `Expand` -/

/-- **`Expand` is fresh.**  In any heap `h`, for any receiver `m` (no hypothesis: it may be ill
formed, share arrays with anything, lie anywhere), any `i`, `n`, capacity policy `g` and fuel `k`:
if the heap program `Location.Expand(i, n)` has a result `r`, then every array of `h` exists
unchanged in the heap it leaves (`h <+: r.2`), every slice header inside the returned location
points at an array allocated by the call (`RefsAbove h.length r.1`), and the arrays allocated by
the call refer only to arrays allocated by the call (`Closed h.length r.2`) — so nothing reachable
from the result is an array of the receiver, at any nesting depth. -/
theorem expand_fresh (g : Grow) (i n : Int) (k : Nat) (h : LHeap) (m : MLoc) {r : MLoc × LHeap}
    (he : expandMem g i n k h m = some r) :
    h <+: r.2 ∧ RefsAbove h.length r.1 ∧ Closed h.length r.2 :=
  have p := expandMem_fresh g i n k h m r he
  ⟨p.pre, p.refs, p.closed⟩

/-- **`Expand` on memory is `Loc.expand` on values.**  If the receiver `m` reads in `h` as the
location value `l` (every slice header on the way well formed), the result of the heap program
reads, in the heap the program leaves, as `Loc.expand l i n` — for every nesting depth. -/
theorem expand_refines (g : Grow) (i n : Int) (k : Nat) {h : LHeap} {m : MLoc} {l : Loc}
    (hl : Reads h l m) {r : MLoc × LHeap} (he : expandMem g i n k h m = some r) :
    Reads r.2 (l.expand i n) r.1 :=
  expandMem_refines g i n k h m r l he hl

/-- … and every other value that was readable before the call — the receiver itself, another
feature's location sharing its arrays — reads the same afterwards. -/
theorem expand_keeps (g : Grow) (i n : Int) (k : Nat) {h : LHeap} {m : MLoc} {r : MLoc × LHeap}
    (he : expandMem g i n k h m = some r) {l' : Loc} {m' : MLoc} (hl : Reads h l' m') :
    Reads r.2 l' m' :=
  Reads.mono (expand_fresh g i n k h m he).1 l' m' hl

/-- **`Expand` is total on readable receivers.**  If `m` reads in `h` as a location value, the heap
program has a result for some fuel `k0` and the SAME result for every `k ≥ k0`: `none` never means
anything but "allow a deeper descent", and the result does not depend on the fuel. -/
theorem expand_total (g : Grow) (i n : Int) {h : LHeap} {m : MLoc} {l : Loc} (hl : Reads h l m) :
    ∃ k0 r, ∀ k, k0 ≤ k → expandMem g i n k h m = some r := by
  obtain ⟨k0, r, e⟩ := expandMem_total g i n l h m hl
  exact ⟨k0, r, fun k hk => expandMem_le g i n k0 k hk h m r e⟩

/-- `join(<2..3, order(8..>9, 6), complement(join(13, 15..16)), complement(21..22))`: nested,
with two adjacent `complement(…)` that `Push` merges through a second `Join` -/
def exLoc : Loc :=
  .joined [.ranged 1 3 true false, .ordered [.ranged 7 9 false true, .point 5],
    .compl (.joined [.point 12, .ranged 14 16 false false]), .compl (.ranged 20 22 false false)]

/-- the example laid out in memory behind an unrelated array -/
def exMem : MLoc × LHeap := allocLoc exLoc [[.leaf (.point 99)]]

/-- non-vacuity: the receiver is readable (`allocLoc_reads`: EVERY location value has a readable
layout), the program has a result for fuel 4 and for two capacity policies, the result reads as
the pure `Loc.expand`, and refers to none of the arrays `0..3` of the receiver -/
example : Reads exMem.2 exLoc exMem.1 := (allocLoc_reads exLoc _).2
example : ∀ g ∈ [(fun _ _ => 0 : Grow), fun _ n => n],
    ((expandMem g 4 (-2) 4 exMem.2 exMem.1).map fun r =>
      (readLoc 8 r.2 r.1).beq (exLoc.expand 4 (-2)) && (sliceArrs r.2 8 r.1).all (4 ≤ ·) &&
      (sliceArrs r.2 8 r.1).length == 3) = some true := by decide +kernel

example : ∃ k0 r, ∀ k, k0 ≤ k → expandMem (fun _ n => n) 4 (-2) k exMem.2 exMem.1 = some r :=
  expand_total _ 4 (-2) (allocLoc_reads exLoc _).2

/-- fuel 2 is not enough for this value: no result (and nothing is claimed) -/
example : (expandMem (fun _ _ => 0) 4 (-2) 2 exMem.2 exMem.1).isNone = true := by decide +kernel

/-! ### `Join`, `Order` -/

/-- `Join(locs...)` on memory: for a slice `locs` of readable locations the result reads as
`Loc.join` of their values; nothing that existed is written. -/
theorem join_refines (g : Grow) (k : Nat) {h : LHeap} {locs : Slice} (hs : WF h locs) {xs : List Loc}
    (hx : ReadsList h xs (read h locs)) {r : MLoc × LHeap} (he : joinLocs g k h locs = some r) :
    h <+: r.2 ∧ Reads r.2 (Loc.join xs) r.1 :=
  joinLocs_refines g k hs hx he

/-- `Order(locs...)` on memory: the result reads as `Loc.order` of the values; nothing that existed
is written. -/
theorem order_refines (g : Grow) (k : Nat) {h : LHeap} {locs : Slice} (hs : WF h locs) {xs : List Loc}
    (hx : ReadsList h xs (read h locs)) {r : MLoc × LHeap} (he : orderLocs g k h locs = some r) :
    h <+: r.2 ∧ Reads r.2 (Loc.order xs) r.1 :=
  orderLocs_refines g k hs hx he

/-- `Join` / `Order` of a slice that was allocated after mark `n`, in a heap whose arrays `≥ n`
refer only to arrays `≥ n`: the result is again at level `n` (a single part is returned as it is —
it is one of the arguments; otherwise the slice is new) -/
theorem join_order_fresh (g : Grow) (k : Nat) {n : Nat} {h : LHeap} {locs : Slice} (hs : n ≤ locs.arr)
    (hn : n ≤ h.length) (hc : Closed n h) :
    (∀ r, joinLocs g k h locs = some r → h <+: r.2 ∧ RefsAbove n r.1 ∧ Closed n r.2) ∧
    (∀ r, orderLocs g k h locs = some r → h <+: r.2 ∧ RefsAbove n r.1 ∧ Closed n r.2) :=
  ⟨fun _ he => have p := joinLocs_fresh g k hs he hn hc; ⟨p.pre, p.refs, p.closed⟩,
   fun _ he => have p := orderLocs_fresh g k hs he hn hc; ⟨p.pre, p.refs, p.closed⟩⟩

/-- non-vacuity: `Join` of the one-element slice `[<2..3]` returns the element itself (no new
array), `Join` of `[<2..3, 4..5]` merges into one `Ranged` value, `Order` of the example's parts
flattens the inner `order(…)` into a new five-element array -/
example :
    (joinLocs (fun _ _ => 0) 4 [[.leaf (.ranged 1 3 true false)]] ⟨0, 0, 1, 1⟩).map
      (fun r => (readLoc 8 r.2 r.1).beq (.ranged 1 3 true false) && r.2.length == 1) = some true ∧
    (joinLocs (fun _ _ => 0) 4 [[.leaf (.ranged 1 3 true false), .leaf (.ranged 3 5 false false)]]
      ⟨0, 0, 2, 2⟩).map (fun r => (readLoc 8 r.2 r.1).beq (.ranged 1 5 true false)) = some true ∧
    (orderLocs (fun _ _ => 0) 4 exMem.2 ⟨3, 0, 4, 4⟩).map
      (fun r => (sliceArrs r.2 8 r.1).head? == some 9 && (read r.2 ⟨9, 0, 5, 5⟩).length == 5) = some true := by
  decide +kernel

/-! ### `Shift`, `Normalize`, `Complement` -/

/-- **`Shift` and `Normalize` are fresh, refine `Loc.shift` / `Loc.normalize`, and are total** —
the same three statements as for `Expand` (they have the same shape: `make`, element loop, `Join` /
`Order`; a `Ranged` / `Ambiguous` that is split by an insertion inside it, and a `Ranged` that
wraps around the origin, come back as `Join(left, right)` / `Order(left, right)` over a new
two-element slice).  For every heap, receiver, argument, capacity policy and fuel. -/
theorem shift_normalize_fresh (g : Grow) (i n len : Int) (k : Nat) (h : LHeap) (m : MLoc) :
    (∀ r, shiftMem g i n k h m = some r → h <+: r.2 ∧ RefsAbove h.length r.1 ∧ Closed h.length r.2) ∧
    (∀ r, normalizeMem g len k h m = some r → h <+: r.2 ∧ RefsAbove h.length r.1 ∧ Closed h.length r.2) :=
  ⟨fun r he => have p := shiftMem_fresh g i n k h m r he; ⟨p.pre, p.refs, p.closed⟩,
   fun r he => have p := normalizeMem_fresh g len k h m r he; ⟨p.pre, p.refs, p.closed⟩⟩

theorem shift_normalize_refines (g : Grow) (i n len : Int) (k : Nat) {h : LHeap} {m : MLoc} {l : Loc}
    (hl : Reads h l m) :
    (∀ r, shiftMem g i n k h m = some r → Reads r.2 (l.shift i n) r.1) ∧
    (∀ r, normalizeMem g len k h m = some r → Reads r.2 (l.normalize len) r.1) :=
  ⟨fun r he => shiftMem_refines g i n k h m r l he hl,
   fun r he => normalizeMem_refines g len k h m r l he hl⟩

theorem shift_normalize_total (g : Grow) (i n len : Int) {h : LHeap} {m : MLoc} {l : Loc}
    (hl : Reads h l m) :
    (∃ k0 r, ∀ k, k0 ≤ k → shiftMem g i n k h m = some r) ∧
    (∃ k0 r, ∀ k, k0 ≤ k → normalizeMem g len k h m = some r) := by
  obtain ⟨k1, r1, e1⟩ := shiftMem_total g i n l h m hl
  obtain ⟨k2, r2, e2⟩ := normalizeMem_total g len l h m hl
  exact ⟨⟨k1, r1, fun k hk => shiftMem_le g i n k1 k hk h m r1 e1⟩,
    ⟨k2, r2, fun k hk => normalizeMem_le g len k2 k hk h m r2 e2⟩⟩

/-- non-vacuity: `5..12` shifted by an insertion of 3 at 8 is split into a NEW two-part join;
`join(3..9, 15..22)` normalized to length 20 wraps its second part: a new three-part array -/
example :
    ((shiftMem (fun _ _ => 0) 8 3 3 [] (.leaf (.ranged 4 12 true false))).map fun r =>
      (readLoc 8 r.2 r.1).beq (.joined [.ranged 4 8 true false, .ranged 11 15 false false]) &&
      sliceArrs r.2 8 r.1 == [2]) = some true ∧
    ((normalizeMem (fun _ _ => 0) 20 3 [[.leaf (.ranged 2 9 false false), .leaf (.ranged 14 22 false false)]]
        (.joined ⟨0, 0, 2, 2⟩)).map fun r =>
      (readLoc 8 r.2 r.1).beq (Loc.normalize (.joined [.ranged 2 9 false false, .ranged 14 22 false false]) 20) &&
      (sliceArrs r.2 8 r.1).all (1 ≤ ·)) = some true := by
  decide +kernel

/-- **`Reverse` is fresh, refines `Loc.reverse`, and is total.**  Its element loop runs from both
ends (`ll[l], ll[r] = v[r].Reverse(n), v[l].Reverse(n)`: two calls, then two stores; the middle
element of an odd length is reversed twice and the second store wins) into a `make`d slice, then
`Join` / `Order`: for every heap, receiver, length, capacity policy and fuel the result lies in
arrays allocated by the call and nothing that existed is written (the seeded change "`Ordered.Reverse`
reverses the receiver's parts in place" is what this excludes); on a readable receiver the result
reads as `Loc.reverse l len`; a readable receiver has a result, the same for all large fuels. -/
theorem locReverse_fresh (g : Grow) (len : Int) (k : Nat) (h : LHeap) (m : MLoc) {r : MLoc × LHeap}
    (he : reverseMem g len k h m = some r) :
    h <+: r.2 ∧ RefsAbove h.length r.1 ∧ Closed h.length r.2 :=
  have p := reverseMem_fresh g len k h m r he
  ⟨p.pre, p.refs, p.closed⟩

theorem locReverse_refines (g : Grow) (len : Int) (k : Nat) {h : LHeap} {m : MLoc} {l : Loc}
    (hl : Reads h l m) {r : MLoc × LHeap} (he : reverseMem g len k h m = some r) :
    Reads r.2 (l.reverse len) r.1 :=
  reverseMem_refines g len k h m r l he hl

theorem locReverse_total (g : Grow) (len : Int) {h : LHeap} {m : MLoc} {l : Loc} (hl : Reads h l m) :
    ∃ k0 r, ∀ k, k0 ≤ k → reverseMem g len k h m = some r := by
  obtain ⟨k0, r, e⟩ := reverseMem_total g len l h m hl
  exact ⟨k0, r, fun k hk => reverseMem_le g len k0 k hk h m r e⟩

/-- non-vacuity: the example reversed on a sequence of length 24 (an even and an odd number of
parts at the two levels): a result with fuel 4, equal to the pure `Loc.reverse`, in new arrays -/
example :
    ((reverseMem (fun _ n => n) 24 4 exMem.2 exMem.1).map fun r =>
      (readLoc 8 r.2 r.1).beq (exLoc.reverse 24) && (sliceArrs r.2 8 r.1).all (4 ≤ ·) &&
      (readLoc 8 r.2 exMem.1).beq exLoc) = some true := by decide +kernel

/-- **`Complement` allocates nothing and SHARES**: the result reads as `Loc.complement`, in the
same heap; wrapping a `Joined` / `Ordered` keeps the receiver's own slice header inside the result
(`Complemented{joined}`), unwrapping returns the inner location itself.  So `Complement` is pure
(it writes nothing) but its result is NOT fresh — which is harmless only because the one writer,
`asComplete`, runs on the result of `Expand`. -/
theorem complement_shares {h : LHeap} {l : Loc} {m : MLoc} (hl : Reads h l m) :
    Reads h l.complement (complementMem m) ∧
    (∀ s, complementMem (.joined s) = .compl (.joined s)) ∧
    (∀ s, complementMem (.ordered s) = .compl (.ordered s)) ∧
    (∀ m', complementMem (.compl m') = m') :=
  ⟨complementMem_refines hl, fun _ => rfl, fun _ => rfl, fun _ => rfl⟩

/-- … not fresh: the complement of the example refers to array 3 of the receiver -/
example : Reads exMem.2 exLoc.complement (complementMem exMem.1) ∧
    ¬ RefsAbove exMem.2.length (complementMem exMem.1) :=
  ⟨(complement_shares (allocLoc_reads exLoc _).2).1, by show ¬ ((4 : Nat) ≤ 3); decide⟩

/-! ### `asComplete` itself -/

/-- **`asComplete` on memory is `Loc.asComplete` on values** — for EVERY readable argument, fresh or
not, whatever it shares with other values or with itself (two windows over one array, a part that
occurs twice): with fuel at least the nesting depth, the value returned reads as `l.asComplete` in
the heap `asCompleteMem` leaves, and that heap is the old one with some cells COMPLETED
(`Erased`: same arrays, same lengths, every cell as it was or with its partial markers erased). -/
theorem asComplete_refines {k : Nat} {h : LHeap} {m : MLoc} {l : Loc} (hk : mdepth l ≤ k)
    (hl : Reads h l m) :
    Reads (asCompleteMem k h m).2 l.asComplete (asCompleteMem k h m).1 ∧
    Erased h (asCompleteMem k h m).2 :=
  have sp := asCompleteMem_spec k l h m hk hl
  ⟨sp.2.1, sp.1⟩

/-- … so what its impurity can do to ANY other value that was readable — the feature's own
location, had it been passed — is to erase partial markers: the value still reads, as `l'` with
some of its contiguous parts completed (`Er`), in particular with the same completion. -/
theorem asComplete_only_erases {k : Nat} {h : LHeap} {m : MLoc} {l : Loc} (hk : mdepth l ≤ k)
    (hl : Reads h l m) {l' : Loc} {m' : MLoc} (hl' : Reads h l' m') :
    ∃ l'', Reads (asCompleteMem k h m).2 l'' m' ∧ Er l' l'' ∧ l''.asComplete = l'.asComplete := by
  obtain ⟨l'', h1, h2⟩ := Reads.erased (asCompleteMem_spec k l h m hk hl).1 l' m' m' hl' (CellE.refl _)
  exact ⟨l'', h1, h2, Er.asComplete_eq _ _ h2⟩

/-- non-vacuity: the argument of `C11.asComplete_impure` (`join(<2..3, order(8..>9, 6))`, depth 3) is
readable, and a value with a part that occurs TWICE (one slice, two cells) is handled as well -/
example : mdepth (.joined [.ranged 1 3 true false, .ordered [.ranged 7 9 false true, .point 5]]) ≤ 3 ∧
    Reads [[.leaf (.ranged 7 9 false true)], [.ordered ⟨0, 0, 1, 1⟩, .ordered ⟨0, 0, 1, 1⟩]]
      (.joined [.ordered [.ranged 7 9 false true], .ordered [.ranged 7 9 false true]]) (.joined ⟨1, 0, 2, 2⟩) := by
  refine ⟨by decide, ?_⟩
  simp [Reads, ReadsList, WF, Heap.read, Heap.get]

/-! ### the call site of `asComplete` -/

/-- **FRAME at the only call site of `asComplete`** (`gts.Slice`, sequence.go:276-279), with the
real `Expand` programs in place of the stand-in `allocLoc`: for every heap `h`, every feature
location `m` in it (no hypothesis), every window, `source` or not, every capacity policy and fuel —
if the program `f.Loc.Expand(end, end-L).Expand(0, -start)` (+ `asComplete` for a `source`) has a
result, every array that existed before is unchanged: the feature's own location, the locations of
other features sharing its slices, anything else.  `asComplete` writes, but only into arrays the
two `Expand` calls allocated. -/
theorem sliceLoc_frame (g : Grow) (k : Nat) (L start end_ : Int) (source : Bool) (h : LHeap) (m : MLoc)
    {r : MLoc × LHeap} (he : sliceLocMem g k L start end_ source h m = some r) :
    h <+: r.2 ∧ RefsAbove h.length r.1 := by
  unfold sliceLocMem at he
  obtain ⟨r1, h1, h2⟩ := Option.bind_eq_some_iff.1 he
  obtain ⟨r2, h3, h4⟩ := Option.bind_eq_some_iff.1 h2
  have p1 := expandMem_fresh g _ _ k h m r1 h1
  have p2 := expandMem_fresh g _ _ k r1.2 r1.1 r2 h3
  simp only [Option.some.injEq] at h4
  subst h4
  cases source with
  | false => exact ⟨p1.pre.trans p2.pre, RefsAbove.mono p1.pre.length_le p2.refs⟩
  | true =>
    have a := asCompleteMem_closed (h0 := r1.2) k r2.2 r2.1 p2.pre p2.closed p2.refs
    exact ⟨p1.pre.trans a.1, RefsAbove.mono p1.pre.length_le a.2.2⟩

/-- every value readable before the call site ran — in particular the feature's own location, which
`asComplete` would have rewritten had `Expand` returned a slice of its receiver — reads the same
afterwards -/
theorem sliceLoc_keeps (g : Grow) (k : Nat) (L start end_ : Int) (source : Bool) {h : LHeap} {m : MLoc}
    {r : MLoc × LHeap} (he : sliceLocMem g k L start end_ source h m = some r) {l' : Loc} {m' : MLoc}
    (hl : Reads h l' m') : Reads r.2 l' m' :=
  Reads.mono (sliceLoc_frame g k L start end_ source h m he).1 l' m' hl

/-- REFINEMENT at the call site, feature other than `source`: the new location reads as
`(l.expand end (end-L)).expand 0 (-start)`, the location `Mem.sliceLoc` / `Seq.sliceFwd` give the
feature. -/
theorem sliceLoc_refines (g : Grow) (k : Nat) (L start end_ : Int) {h : LHeap} {m : MLoc} {l : Loc}
    (hl : Reads h l m) {r : MLoc × LHeap} (he : sliceLocMem g k L start end_ false h m = some r) :
    Reads r.2 ((l.expand end_ (end_ - L)).expand 0 (-start)) r.1 := by
  unfold sliceLocMem at he
  obtain ⟨r1, h1, h2⟩ := Option.bind_eq_some_iff.1 he
  obtain ⟨r2, h3, h4⟩ := Option.bind_eq_some_iff.1 h2
  simp only [Bool.false_eq_true, if_false, Option.some.injEq] at h4
  subst h4
  exact expandMem_refines g _ _ k _ _ _ _ h3 (expandMem_refines g _ _ k _ _ _ _ h1 hl)

/-- the call site has a result for every readable feature location, the same for every
sufficiently large fuel -/
theorem sliceLoc_total (g : Grow) (L start end_ : Int) (source : Bool) {h : LHeap} {m : MLoc} {l : Loc}
    (hl : Reads h l m) : ∃ k0, ∀ k, k0 ≤ k → ∃ r, sliceLocMem g k L start end_ source h m = some r := by
  obtain ⟨k1, r1, e1⟩ := expandMem_total g end_ (end_ - L) l h m hl
  have hl1 := expandMem_refines g _ _ k1 h m r1 l e1 hl
  obtain ⟨k2, r2, e2⟩ := expandMem_total g 0 (-start) _ r1.2 r1.1 hl1
  refine ⟨max k1 k2, fun k hk => ?_⟩
  unfold sliceLocMem
  rw [expandMem_le g _ _ k1 k (by omega) h m r1 e1]
  simp only [Option.bind_some]
  rw [expandMem_le g _ _ k2 k (by omega) r1.2 r1.1 r2 e2]
  exact ⟨_, rfl⟩

/-- **REFINEMENT at the call site for every feature**, `source` or not: the location the program
leaves reads as the location `Mem.sliceLoc` — the table-level model that `slice_refines` /
`Seq.sliceFwd` use — gives the feature.  (For a `source` the fuel has to cover the depth of the
expanded location, because `asCompleteMem` stops silently when it runs out; `sliceLoc_total` says a
sufficient fuel exists.) -/
theorem sliceLoc_refines_feature (g : Grow) (k : Nat) (L start end_ : Int) (f : Feature) {h : LHeap}
    {m : MLoc} (hl : Reads h f.loc m) {r : MLoc × LHeap}
    (he : sliceLocMem g k L start end_ (decide (f.key = "source")) h m = some r)
    (hk : mdepth ((f.loc.expand end_ (end_ - L)).expand 0 (-start)) ≤ k) :
    Reads r.2 (Mem.sliceLoc L start end_ f).loc r.1 := by
  unfold sliceLocMem at he
  obtain ⟨r1, h1, h2⟩ := Option.bind_eq_some_iff.1 he
  obtain ⟨r2, h3, h4⟩ := Option.bind_eq_some_iff.1 h2
  have hr2 := expandMem_refines g _ _ k _ _ _ _ h3 (expandMem_refines g _ _ k _ _ _ _ h1 hl)
  simp only [Option.some.injEq] at h4
  subst h4
  by_cases hs : f.key = "source"
  · simp only [hs, decide_true, if_true, Mem.sliceLoc]
    exact (asComplete_refines hk hr2).1
  · simp only [hs, decide_false, Mem.sliceLoc, if_false, Bool.false_eq_true]
    exact hr2

/-- non-vacuity: the `source`-style location `join(<2..3, order(8..>9, 6), …)` of `exMem`, window
`[2, 18)` of a sequence of length 24: fuel 6 covers the depth of the expanded location, the program
has a result, the result is complete at every depth and is what `Mem.sliceLoc` computes, and the
feature's own location still reads `exLoc` -/
example :
    mdepth ((exLoc.expand 18 (18 - 24)).expand 0 (-2)) ≤ 6 ∧
    ((sliceLocMem (fun _ _ => 0) 6 24 2 18 true exMem.2 exMem.1).map fun r =>
      (readLoc 8 r.2 r.1).beq (Mem.sliceLoc 24 2 18 ⟨"source", exLoc, []⟩).loc &&
      (readLoc 8 r.2 exMem.1).beq exLoc) = some true := by decide +kernel

end Gts.C11
