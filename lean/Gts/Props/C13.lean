/-
  C13 — a cache entry is returned only if it is exactly what was written.
  Property theorems over `Gts/Model/CacheFile.lean`, for ALL byte lists, an arbitrary digest `H`
  of size `d` and an arbitrary `deflate/inflate` pair.  Collision freedom of `H` is never assumed:
  where two bodies must hash differently this is a hypothesis of the theorem.
-/
import Gts.Model.CacheFile
import Gts.Lemmas.CacheFault
namespace Gts.C13
open Gts.Cache

variable {H : Bytes → Bytes} {d : Nat}

/-! ### helper facts (local) -/

private theorem length_zeros (n : Nat) : (zeros n).length = n := by simp [zeros]

private theorem drop_len {a b : Bytes} {n : Nat} (h : a.length = n) : (a ++ b).drop n = b := by
  subst h; exact List.drop_left

private theorem take_len {a b : Bytes} {n : Nat} (h : a.length = n) : (a ++ b).take n = a := by
  subst h; exact List.take_left

private theorem readHeader_ok_iff (f : Bytes) (hd : Header) :
    readHeader d f = .ok hd ↔
      ((f.take (3 * d)).length = 3 * d ∧
        hd = ⟨(f.take (3 * d)).take d, ((f.take (3 * d)).drop d).take d,
              (f.take (3 * d)).drop (2 * d)⟩) := by
  unfold readHeader
  generalize f.take (3 * d) = p
  dsimp only
  split
  · rename_i h
    constructor
    · intro h'; cases h'
    · rintro ⟨h1, -⟩; omega
  · split
    · rename_i h1
      constructor
      · intro h'; cases h'
      · rintro ⟨h2, -⟩; exact absurd h2 h1
    · rename_i h1
      constructor
      · intro h'
        injection h' with h'
        exact ⟨Decidable.not_not.1 h1, h'.symm⟩
      · rintro ⟨-, rfl⟩; rfl

private theorem validate_ok_iff (hd : Header) (r q b : Bytes) :
    hd.validate r q b = .ok () ↔ (r = hd.root ∧ q = hd.data ∧ b = hd.body) := by
  unfold Header.validate
  split
  · rename_i h; constructor
    · intro h'; cases h'
    · rintro ⟨h1, -⟩; exact absurd h1 h
  · split
    · rename_i h; constructor
      · intro h'; cases h'
      · rintro ⟨-, h1, -⟩; exact absurd h1 h
    · split
      · rename_i h; constructor
        · intro h'; cases h'
        · rintro ⟨-, -, h1⟩; exact absurd h1 h
      · rename_i h1 h2 h3
        exact ⟨fun _ => ⟨Decidable.not_not.1 h1, Decidable.not_not.1 h2, Decidable.not_not.1 h3⟩,
          fun _ => rfl⟩

private theorem openf_ok_iff (f r q x : Bytes) :
    openf H d f r q = .ok x ↔
      ((f.take (3 * d)).length = 3 * d ∧ r = (f.take (3 * d)).take d
        ∧ q = ((f.take (3 * d)).drop d).take d ∧ H (f.drop (3 * d)) = (f.take (3 * d)).drop (2 * d)
        ∧ x = f.drop (3 * d)) := by
  unfold openf
  cases hrh : readHeader d f with
  | error e =>
    constructor
    · intro h'; cases h'
    · rintro ⟨h1, -⟩
      have := (readHeader_ok_iff (d := d) f _).2 ⟨h1, rfl⟩
      rw [hrh] at this; cases this
  | ok hd =>
    obtain ⟨h1, hhd⟩ := (readHeader_ok_iff f hd).1 hrh
    have hroot : hd.root = (f.take (3 * d)).take d := by rw [hhd]
    have hdata : hd.data = ((f.take (3 * d)).drop d).take d := by rw [hhd]
    have hbody : hd.body = (f.take (3 * d)).drop (2 * d) := by rw [hhd]
    dsimp only
    cases hv : hd.validate r q (H (f.drop (3 * d))) with
    | error e =>
      constructor
      · intro h'; cases h'
      · rintro ⟨-, h2, h3, h4, -⟩
        have := (validate_ok_iff hd r q _).2
          ⟨h2.trans hroot.symm, h3.trans hdata.symm, h4.trans hbody.symm⟩
        rw [hv] at this; cases this
    | ok u =>
      obtain ⟨h2, h3, h4⟩ := (validate_ok_iff hd r q _).1 hv
      constructor
      · intro h'; injection h' with h'
        exact ⟨h1, h2.trans hroot, h3.trans hdata, h4.trans hbody, h'.symm⟩
      · rintro ⟨-, -, -, -, rfl⟩; rfl

/-- whatever `Open` accepts, it hands the bytes after the header to the reader -/
theorem open_ok_drop {f r q x : Bytes} (h : openf H d f r q = .ok x) : x = f.drop (3 * d) :=
  ((openf_ok_iff f r q x).1 h).2.2.2.2

/-- **Soundness of `Open`** (no hypothesis at all): if `Open` succeeds on file contents `f` for the
caller's sums `r, q`, then `f` is byte for byte `r ‖ q ‖ H body ‖ body`, where `body` is what
the reader is given. -/
theorem open_sound {f r q body : Bytes} (h : openf H d f r q = .ok body) :
    f = r ++ q ++ H body ++ body := by
  obtain ⟨_, hr, hq, hb, hx⟩ := (openf_ok_iff f r q body).1 h
  subst hx
  rw [hb, hr, hq]
  have e1 : (List.take (3 * d) f).drop (2 * d) = ((List.take (3 * d) f).drop d).drop d := by
    rw [List.drop_drop]; congr 1; omega
  rw [e1, List.append_assoc (List.take d _), List.take_append_drop, List.take_append_drop,
    List.take_append_drop]

/-- **Completeness of `Open`**: a file of the shape `r ‖ q ‖ H body ‖ body` with sums of the
digest's size is accepted, and the reader is given `body`. -/
theorem open_complete (hH : ∀ x, (H x).length = d) {r q : Bytes}
    (hr : r.length = d) (hq : q.length = d) (body : Bytes) :
    openf H d (finished H r q body) r q = .ok body := by
  have hb := hH body
  have hlen : (r ++ q ++ H body).length = 3 * d := by simp [hr, hq, hb]; omega
  have htake : (finished H r q body).take (3 * d) = r ++ q ++ H body := take_len hlen
  have hdrop : (finished H r q body).drop (3 * d) = body := drop_len hlen
  rw [openf_ok_iff, htake, hdrop]
  refine ⟨hlen, ?_, ?_, ?_, rfl⟩
  · rw [List.append_assoc]; exact (take_len hr).symm
  · rw [List.append_assoc, drop_len hr]; exact (take_len hq).symm
  · have : (r ++ q).length = 2 * d := by simp [hr, hq]; omega
    exact (drop_len this).symm

/-- `Open f r q` succeeds **iff** `f = r ‖ q ‖ H body ‖ body` (for sums of the digest's size) -/
theorem open_ok_iff (hH : ∀ x, (H x).length = d) {r q : Bytes}
    (hr : r.length = d) (hq : q.length = d) (f body : Bytes) :
    openf H d f r q = .ok body ↔ f = finished H r q body :=
  ⟨open_sound, fun h => h ▸ open_complete hH hr hq body⟩

/-- `Create; Write…; Close` leaves exactly `r ‖ q ‖ H (deflate w) ‖ deflate w` on disk -/
theorem finish_eq (hH : ∀ x, (H x).length = d) (deflate : Bytes → Bytes) {r q : Bytes}
    (hr : r.length = d) (hq : q.length = d) (w : Bytes) :
    finish H d deflate r q w = finished H r q (deflate w) := by
  have hz : (zeros (3 * d) ++ deflate w).drop (3 * d) = deflate w :=
    drop_len (length_zeros _)
  have hlen : (r ++ q ++ H (deflate w)).length = 3 * d := by simp [hr, hq, hH]; omega
  simp only [finish, close, write, create, List.nil_append, overwrite, finished, hz, hlen]

/-- the same for any sequence of `Write` calls: only the concatenation matters -/
theorem finish_chunks_eq (hH : ∀ x, (H x).length = d) (deflate : Bytes → Bytes) {r q : Bytes}
    (hr : r.length = d) (hq : q.length = d) (ws : List Bytes) :
    close H d deflate (ws.foldl write (create d r q)) = finished H r q (deflate ws.flatten) := by
  have hfold : ∀ (ws : List Bytes) (w : Writer), ws.foldl write w
      = { w with plain := w.plain ++ ws.flatten } := by
    intro ws
    induction ws with
    | nil => intro w; simp
    | cons a t ih => intro w; simp [ih, write, List.append_assoc]
  have := finish_eq hH deflate hr hq ws.flatten
  simp only [finish, write, create, List.nil_append] at this
  rw [hfold]; simpa [create] using this

/-! ### the property -/

/-- **What is written is what is read**: with a correct codec, `Create; Write w; Close` followed
by `Open` with the same sums and reading to EOF yields exactly `w`. -/
theorem open_close (hH : ∀ x, (H x).length = d)
    (deflate : Bytes → Bytes) (inflate : Bytes → Option Bytes) {r q : Bytes}
    (hr : r.length = d) (hq : q.length = d) (w : Bytes)
    (hcodec : inflate (deflate w) = some w) :
    openRead H d inflate (finish H d deflate r q w) r q = .ok w := by
  simp [openRead, finish_eq hH deflate hr hq, open_complete hH hr hq, readAll, hcodec]

/-- **Header corruption** (unconditional): replacing any single byte inside the header of a
finished file by a different value makes `Open` fail — for the root and data parts because they
are compared with the caller's sums, for the body-sum part because the body is unchanged. -/
theorem corrupt_header (hH : ∀ x, (H x).length = d) {r q : Bytes}
    (hr : r.length = d) (hq : q.length = d) (body : Bytes) (i : Nat) (v : UInt8)
    (hi : i < 3 * d) (hv : (finished H r q body)[i]? ≠ some v) :
    ∃ e, openf H d ((finished H r q body).set i v) r q = .error e := by
  cases hres : openf H d ((finished H r q body).set i v) r q with
  | error e => exact ⟨e, rfl⟩
  | ok x =>
    exfalso
    have hlen : (r ++ q ++ H body).length = 3 * d := by simp [hr, hq, hH]; omega
    have hx := open_ok_drop hres
    have hdrop : ((finished H r q body).set i v).drop (3 * d) = body := by
      rw [List.drop_set_of_lt hi]
      exact drop_len hlen
    rw [hdrop] at hx; subst hx
    have hs := open_sound hres
    apply hv
    have : ((finished H r q x).set i v)[i]? = (finished H r q x)[i]? := by
      conv => lhs; rw [hs]
      rfl
    rw [← this]
    have hil : i < (finished H r q x).length := by
      simp only [finished, List.length_append] at hlen ⊢; omega
    simp [hil]

/-- **Body corruption**: a finished file whose body is replaced by ANY other byte list `body'`
(a flipped byte, a shorter or a longer body) is rejected, provided the two bodies do not collide
under `H` (hypothesis; the header still carries `H body`). -/
theorem corrupt_body_general {r q : Bytes} (body body' : Bytes)
    (hne : H body' ≠ H body) (hH : ∀ x, (H x).length = d)
    (hr : r.length = d) (hq : q.length = d) :
    ∃ e, openf H d (r ++ q ++ H body ++ body') r q = .error e := by
  cases hres : openf H d (r ++ q ++ H body ++ body') r q with
  | error e => exact ⟨e, rfl⟩
  | ok x =>
    exfalso
    have hlen : (r ++ q ++ H body).length = 3 * d := by simp [hr, hq, hH]; omega
    have hx := open_ok_drop hres
    have hdrop : (r ++ q ++ H body ++ body').drop (3 * d) = body' := drop_len hlen
    rw [hdrop] at hx; subst hx
    have hs := open_sound hres
    have h1 := List.append_cancel_right hs
    have h2 : H body = H x := by
      have := congrArg (List.drop (2 * d)) h1
      have hl : (r ++ q).length = 2 * d := by simp [hr, hq]; omega
      rw [drop_len hl, drop_len hl] at this
      exact this
    exact hne h2.symm

/-- **Single-byte body corruption**: changing the byte at body offset `i` to `v` is detected
under the hypothesis that the changed body does not collide with the original. -/
theorem corrupt_body (hH : ∀ x, (H x).length = d) {r q : Bytes}
    (hr : r.length = d) (hq : q.length = d) (body : Bytes) (i : Nat) (v : UInt8)
    (hne : H (body.set i v) ≠ H body) :
    ∃ e, openf H d ((finished H r q body).set (3 * d + i) v) r q = .error e := by
  have hlen : (r ++ q ++ H body).length = 3 * d := by simp [hr, hq, hH]; omega
  have : (finished H r q body).set (3 * d + i) v = r ++ q ++ H body ++ body.set i v := by
    unfold finished
    rw [List.set_append_right _ _ (by omega), hlen]
    congr 2; omega
  rw [this]
  exact corrupt_body_general body _ hne hH hr hq

/-- **Truncation**: every proper prefix of a finished file is rejected — unconditionally when the
cut is inside the header (short read / EOF), and under the no-collision hypothesis for the
truncated body otherwise. -/
theorem truncate (hH : ∀ x, (H x).length = d) {r q : Bytes}
    (hr : r.length = d) (hq : q.length = d) (body : Bytes) (n : Nat)
    (hn : n < (finished H r q body).length)
    (hne : 3 * d ≤ n → H (body.take (n - 3 * d)) ≠ H body) :
    ∃ e, openf H d ((finished H r q body).take n) r q = .error e := by
  have hlen : (r ++ q ++ H body).length = 3 * d := by simp [hr, hq, hH]; omega
  by_cases hcut : n < 3 * d
  · cases hres : openf H d ((finished H r q body).take n) r q with
    | error e => exact ⟨e, rfl⟩
    | ok x =>
      exfalso
      have := ((openf_ok_iff _ r q x).1 hres).1
      simp only [List.length_take] at this
      omega
  · have hge : 3 * d ≤ n := by omega
    have : (finished H r q body).take n = r ++ q ++ H body ++ body.take (n - 3 * d) := by
      unfold finished
      rw [List.take_append, hlen, List.take_of_length_le (by omega)]
    rw [this]
    exact corrupt_body_general body _ (hne hge) hH hr hq

/-- **Extension**: a finished file with a non-empty tail appended is rejected under the hypothesis
that the extended body does not collide with the original (flate itself would ignore the tail). -/
theorem extend (hH : ∀ x, (H x).length = d) {r q : Bytes}
    (hr : r.length = d) (hq : q.length = d) (body tail : Bytes)
    (hne : H (body ++ tail) ≠ H body) :
    ∃ e, openf H d (finished H r q body ++ tail) r q = .error e := by
  have : finished H r q body ++ tail = r ++ q ++ H body ++ (body ++ tail) := by
    simp [finished, List.append_assoc]
  rw [this]
  exact corrupt_body_general body _ hne hH hr hq

/-- **Any single-byte corruption of a finished file** (header part unconditional, body part under
the no-collision hypothesis for that one changed body). -/
theorem corrupt_byte (hH : ∀ x, (H x).length = d) {r q : Bytes}
    (hr : r.length = d) (hq : q.length = d) (body : Bytes) (i : Nat) (v : UInt8)
    (hv : (finished H r q body)[i]? ≠ some v)
    (hne : 3 * d ≤ i → H (body.set (i - 3 * d) v) ≠ H body) :
    ∃ e, openf H d ((finished H r q body).set i v) r q = .error e := by
  by_cases hi : i < 3 * d
  · exact corrupt_header hH hr hq body i v hi hv
  · have : i = 3 * d + (i - 3 * d) := by omega
    rw [this]
    exact corrupt_body hH hr hq body _ v (hne (by omega))

/-- **Wrong key** (unconditional): a file finished for `(r, q)` presented to `Open` with different
sums `(r', q')` is rejected, whatever the digest. -/
theorem wrong_key {r q r' q' : Bytes}
    (hr : r.length = d) (hq : q.length = d) (hr' : r'.length = d) (hq' : q'.length = d)
    (body : Bytes) (hkey : (r', q') ≠ (r, q)) :
    ∃ e, openf H d (finished H r q body) r' q' = .error e := by
  cases hres : openf H d (finished H r q body) r' q' with
  | error e => exact ⟨e, rfl⟩
  | ok x =>
    exfalso
    have hs := open_sound hres
    unfold finished at hs
    simp only [List.append_assoc] at hs
    have h1 := List.append_inj hs (hr.trans hr'.symm)
    have h2 := List.append_inj h1.2 (hq.trans hq'.symm)
    exact hkey (by rw [h1.1, h2.1])

/-- … and through the directory: the real `Open` derives the file NAME from the sums, so a file
finished for `(r, q)` can be reached with `(r', q')` only when it sits under the other name
(name collision `H (r ‖ q) = H (r' ‖ q')`, copy, rename).  Even then it is rejected. -/
theorem wrong_key_store {r q r' q' : Bytes}
    (hr : r.length = d) (hq : q.length = d) (hr' : r'.length = d) (hq' : q'.length = d)
    (body : Bytes) (hkey : (r', q') ≠ (r, q)) (s : Store)
    (hs : s (name H r' q') = some (finished H r q body)) :
    ∃ e, openAt H d s r' q' = .error e := by
  simp only [openAt, hs]
  exact wrong_key hr hq hr' hq' body hkey

/-- an entry that does not exist is not found -/
theorem open_missing (s : Store) (r q : Bytes) (hs : s (name H r q) = none) :
    openAt H d s r q = .error .notFound := by
  simp [openAt, hs]

/-! ### interrupted writers -/

private theorem crash_cases {r q body s : Bytes} (hs : s ∈ crashStates H d r q body) :
    (∃ k, k < 3 * d ∧ s = zeros k)
    ∨ (∃ k, k ≤ body.length ∧ s = zeros (3 * d) ++ body.take k)
    ∨ (∃ k, k ≤ (r ++ q ++ H body).length ∧
        s = overwrite (zeros (3 * d) ++ body) ((r ++ q ++ H body).take k)) := by
  simp only [crashStates, List.mem_append, List.mem_map, List.mem_range] at hs
  rcases hs with (⟨k, hk, rfl⟩ | ⟨k, hk, rfl⟩) | ⟨k, hk, rfl⟩
  · exact .inl ⟨k, hk, rfl⟩
  · exact .inr (.inl ⟨k, by omega, rfl⟩)
  · exact .inr (.inr ⟨k, by omega, rfl⟩)

/-- **Torn header writes are harmless** (no hypothesis on `H`, `r`, `q`): once the whole body is
on disk, whatever part of the final header has been written over the placeholder, `Open` either
fails or returns the complete body. -/
theorem crash_header_safe (hH : ∀ x, (H x).length = d) {r q : Bytes}
    (hr : r.length = d) (hq : q.length = d) (body : Bytes) (k : Nat) (x : Bytes)
    (h : openf H d (overwrite (zeros (3 * d) ++ body) ((r ++ q ++ H body).take k)) r q = .ok x) :
    x = body := by
  have hlen : (r ++ q ++ H body).length = 3 * d := by simp [hr, hq, hH]; omega
  have hm : ((r ++ q ++ H body).take k).length ≤ 3 * d := by
    rw [List.length_take, hlen]; exact Nat.min_le_right _ _
  generalize (r ++ q ++ H body).take k = t at h hm
  rw [open_ok_drop h]
  unfold overwrite
  have e : (zeros (3 * d) ++ body).drop t.length = (zeros (3 * d)).drop t.length ++ body :=
    List.drop_append_of_le_length (by rw [length_zeros]; exact hm)
  rw [e, ← List.append_assoc]
  exact drop_len (by rw [List.length_append, List.length_drop, length_zeros]; omega)

/-- **Crash safety, exact form.**  For sums of the digest's size: *every* state an interrupted
writer can leave behind is either rejected by `Open` or yields the complete compressed body
**if and only if** it is not the case that `r` and `q` are all-zero AND some proper prefix of the
body hashes to all-zero.  (Only the states "placeholder + proper body prefix" can go wrong, and
only by the placeholder being mistaken for a real header.) -/
theorem crash_safe_iff (hH : ∀ x, (H x).length = d) {r q : Bytes}
    (hr : r.length = d) (hq : q.length = d) (body : Bytes) :
    (∀ s ∈ crashStates H d r q body, ∀ x, openf H d s r q = .ok x → x = body)
    ↔ ¬ (r = zeros d ∧ q = zeros d ∧ ∃ k, k < body.length ∧ H (body.take k) = zeros d) := by
  have hz3 : zeros (3 * d) = zeros d ++ zeros d ++ zeros d := by
    simp only [zeros, List.replicate_append_replicate]; congr 1; omega
  constructor
  · rintro hall ⟨hrz, hqz, k, hk, hHk⟩
    have hmem : zeros (3 * d) ++ body.take k ∈ crashStates H d r q body := by
      simp only [crashStates, List.mem_append, List.mem_map, List.mem_range]
      exact .inl (.inr ⟨k, by omega, rfl⟩)
    have hopen : openf H d (zeros (3 * d) ++ body.take k) r q = .ok (body.take k) := by
      have := open_complete hH hr hq (body.take k)
      rw [finished, hHk] at this
      rw [hz3]
      subst hrz hqz
      exact this
    have hbad := congrArg List.length (hall _ hmem _ hopen)
    rw [List.length_take] at hbad
    omega
  · intro hno s hs x hx
    rcases crash_cases hs with ⟨k, hk, rfl⟩ | ⟨k, hk, rfl⟩ | ⟨k, hk, rfl⟩
    · exfalso
      have := ((openf_ok_iff _ r q x).1 hx).1
      rw [List.length_take, length_zeros] at this
      omega
    · have hx' := open_ok_drop hx
      have hdrop : (zeros (3 * d) ++ body.take k).drop (3 * d) = body.take k :=
        drop_len (length_zeros _)
      rw [hdrop] at hx'
      subst hx'
      have hsnd := open_sound hx
      rw [hz3] at hsnd
      have h0 := List.append_cancel_right hsnd
      simp only [List.append_assoc] at hsnd
      have h1 := List.append_inj hsnd (by rw [length_zeros, hr])
      have h2 := List.append_inj h1.2 (by rw [length_zeros, hq])
      have h3 := List.append_cancel_right h2.2
      by_cases hkl : k < body.length
      · exact absurd ⟨h1.1.symm, h2.1.symm, k, hkl, h3.symm⟩ hno
      · exact List.take_of_length_le (by omega)
    · exact crash_header_safe hH hr hq body k x hx

/-- **Crash safety.**  If the caller's root sum or data sum is not all-zero — or no proper prefix of
the compressed body hashes to all-zero — then every state an interrupted writer can leave behind
(placeholder partly written; placeholder + any body prefix; whole body + any prefix of the final
header over the placeholder) is either rejected by `Open` or yields the complete body.
By `crash_safe_iff` this hypothesis is the weakest possible.  In `gts`, `r` is the SHA-1 of the
input file and `q` the SHA-1 of the arguments, so the hypothesis fails only for SHA-1 preimages
of `0²⁰`. -/
theorem crash_safe (hH : ∀ x, (H x).length = d) {r q : Bytes}
    (hr : r.length = d) (hq : q.length = d) (body : Bytes)
    (hkey : r ≠ zeros d ∨ q ≠ zeros d ∨ ∀ k, k < body.length → H (body.take k) ≠ zeros d)
    (s : Bytes) (hs : s ∈ crashStates H d r q body) (x : Bytes)
    (hx : openf H d s r q = .ok x) : x = body := by
  refine (crash_safe_iff hH hr hq body).2 ?_ s hs x hx
  rintro ⟨h1, h2, k, hk, h3⟩
  rcases hkey with h | h | h
  · exact h h1
  · exact h h2
  · exact h k hk h3

/-- … and such an accepted crash state IS the finished file, byte for byte. -/
theorem crash_safe_file (hH : ∀ x, (H x).length = d) {r q : Bytes}
    (hr : r.length = d) (hq : q.length = d) (body : Bytes)
    (hkey : r ≠ zeros d ∨ q ≠ zeros d ∨ ∀ k, k < body.length → H (body.take k) ≠ zeros d)
    (s : Bytes) (hs : s ∈ crashStates H d r q body) (x : Bytes)
    (hx : openf H d s r q = .ok x) : s = finished H r q body := by
  have := crash_safe hH hr hq body hkey s hs x hx
  subst this
  exact open_sound hx

/-- Crash safety stated on the writer: whatever is read back from an interrupted
`Create; Write w; Close` is exactly `w`. -/
theorem crash_safe_read (hH : ∀ x, (H x).length = d)
    (deflate : Bytes → Bytes) (inflate : Bytes → Option Bytes) {r q : Bytes}
    (hr : r.length = d) (hq : q.length = d) (w : Bytes)
    (hcodec : inflate (deflate w) = some w) (hkey : r ≠ zeros d ∨ q ≠ zeros d)
    (s : Bytes) (hs : s ∈ crashStatesOf H d deflate r q w) (y : Bytes)
    (hy : openRead H d inflate s r q = .ok y) : y = w := by
  unfold openRead at hy
  cases hx : openf H d s r q with
  | error e => rw [hx] at hy; cases hy
  | ok x =>
    rw [hx] at hy
    have hkey' : r ≠ zeros d ∨ q ≠ zeros d ∨
        ∀ k, k < (deflate w).length → H ((deflate w).take k) ≠ zeros d := by
      rcases hkey with h | h
      · exact .inl h
      · exact .inr (.inl h)
    have := crash_safe hH hr hq (deflate w) hkey' s hs x hx
    subst this
    simp only [readAll, hcodec] at hy
    injection hy with hy
    exact hy.symm

/-- the finished file is itself the last crash state (the enumeration is not empty and reaches the
end of the protocol) -/
theorem finished_mem_crashStates (hH : ∀ x, (H x).length = d) {r q : Bytes}
    (hr : r.length = d) (hq : q.length = d) (body : Bytes) :
    finished H r q body ∈ crashStates H d r q body := by
  have hlen : (r ++ q ++ H body).length = 3 * d := by simp [hr, hq, hH]; omega
  simp only [crashStates, List.mem_append, List.mem_map, List.mem_range]
  refine .inr ⟨(r ++ q ++ H body).length, by omega, ?_⟩
  rw [List.take_length, overwrite, hlen, drop_len (length_zeros _)]
  rfl

/-! ### I/O faults of a writer that lives on (`Gts/Model/CacheFault.lean`)

`crashStates` is a process that dies.  Here the process lives and individual I/O steps fail: the
placeholder write of `CreateLevel`, the file writes flate performs during `File.Write`, and in
`File.Close` the final flush, the seek behind the header, the read that hashes the body, the seek
to 0 and the header write (`Session` = one fault entry per step; a failed write has written a
prefix).  `runSession` follows file.go: every step of `Close` runs, `ret` keeps the FIRST error.
The regenerated `CreateLevel` / `Write` / `Close`, run on the model's machine, are proved equal to
`createF` / `writeF` / `closeF` in `Gts/Bridge/CacheFile.lean`. -/

/-- **`Close` returns the FIRST error, in statement order**: a flate writer that is broken (an
earlier `Write` failed) or whose final flush fails gives the flate error; else the seek behind the
header; else the read that hashes the body; else the seek to 0; else the header write; else `nil`
— for every writer state and every fault pattern. -/
theorem close_first_error (deflate : Bytes → Bytes) (w : FWriter) (cf : CloseFaults) :
    (closeF H d deflate w cf).2 = closeErrSpec w cf :=
  closeF_err H d deflate w cf

/-- **A failed final flush is reported**: whatever else happens in `Close` (the later steps still
run and may all succeed), if `f.wr.Close()` fails then `Close` returns an error — the flate
error, because nothing precedes it.  (The clause seeded change C13-g drops.) -/
theorem close_reports_flush_failure (deflate : Bytes → Bytes) (w : FWriter) (cf : CloseFaults)
    (k : Nat) (hflush : cf.flush = some k) :
    (closeF H d deflate w cf).2 = some .flate := by
  rw [closeF_err]
  simp [closeErrSpec, hflush]

/-- … stated on a whole session -/
theorem session_reports_flush_failure (deflate : Bytes → Bytes) (r q : Bytes) (s : Session)
    (k : Nat) (hflush : s.close.flush = some k) :
    (runSession H d deflate r q s).closeErr = some .flate := by
  simp only [runSession]
  exact close_reports_flush_failure deflate _ _ k hflush

/-- **A failed `Write` is reported again by `Close`** (flate's write error is sticky): if any
`Write` of the session returned an error, `Close` returns an error too. -/
theorem write_failure_reported_by_close (deflate : Bytes → Bytes) (r q : Bytes) (s : Session)
    (hw : ∃ e ∈ (runSession H d deflate r q s).writeErrs, e ≠ none) :
    (runSession H d deflate r q s).closeErr = some .flate := by
  simp only [runSession] at hw ⊢
  rw [closeF_err]
  have := writesF_err_broken deflate s.writes _ hw
  simp [closeErrSpec, this]

/-- **An error-free writer leaves a faithful entry.**  For EVERY fault pattern: if `CreateLevel`,
every `Write` and `Close` returned no error, then the file on disk is exactly
`finish r q w` for `w` = everything that was written — `r ‖ q ‖ H (deflate w) ‖ deflate w` by
`finish_eq`.  Arbitrary digest and codec; no hypothesis on them. -/
theorem close_ok_roundtrip (deflate : Bytes → Bytes) (r q : Bytes) (s : Session)
    (hclean : (runSession H d deflate r q s).clean = true) :
    (runSession H d deflate r q s).disk = finish H d deflate r q s.written := by
  simp only [runSession, SessionResult.clean, Bool.and_eq_true, Option.isNone_iff_eq_none,
    List.all_eq_true] at hclean ⊢
  obtain ⟨⟨hc, hw⟩, hcl⟩ := hclean
  -- CreateLevel returned nil: the placeholder is on disk
  have hcreate : s.create = none := by
    cases h : s.create with
    | none => rfl
    | some k => rw [h] at hc; simp [createF] at hc
  rw [hcreate] at hw hcl ⊢
  simp only [createF] at hw hcl ⊢
  -- every Write returned nil: the writer only collected the bytes
  have hws := writesF_clean deflate s.writes ⟨zeros (3 * d), 3 * d, r, q, [], false⟩ rfl hw
  rw [hws] at hcl ⊢
  -- Close returned nil: no step failed
  rw [closeF_err] at hcl
  obtain ⟨-, hcf⟩ := closeErrSpec_none hcl
  rw [hcf, closeF_nofault H d deflate _ (by simp [zeros]) rfl]
  simp [finish, write, create, Session.written]

/-- … so it opens and reads back exactly what was written (`open_close`) -/
theorem close_ok_reads_back (hH : ∀ x, (H x).length = d)
    (deflate : Bytes → Bytes) (inflate : Bytes → Option Bytes) {r q : Bytes}
    (hr : r.length = d) (hq : q.length = d) (s : Session)
    (hcodec : inflate (deflate s.written) = some s.written)
    (hclean : (runSession H d deflate r q s).clean = true) :
    openRead H d inflate (runSession H d deflate r q s).disk r q = .ok s.written := by
  rw [close_ok_roundtrip deflate r q s hclean]
  exact open_close hH deflate inflate hr hq _ hcodec

/-- **What is on disk after a reported failure.**  If `CreateLevel` worked and, in `Close`, the two
seeks, the hashing read and the header write work, then — WHATEVER happened to the body writes and
the final flush — `Close` leaves a well-formed entry `r ‖ q ‖ H body' ‖ body'` over whatever part
`body'` of the compressed stream reached the disk: `Open` ACCEPTS it.  So a failure reported by
`Write` or `Close` must be acted upon by the caller (cmd/gts/io.go `ioDelegate.Close` removes the
entry when `d.cache.Close()` returns an error: `Gts.Bridge.CacheFile.ioClose_discards_on_error`);
the file itself does not show it (`failed_close_may_verify`). -/
theorem failed_close_entry_verifies (hH : ∀ x, (H x).length = d)
    (deflate : Bytes → Bytes) {r q : Bytes} (hr : r.length = d) (hq : q.length = d) (s : Session)
    (hcreate : s.create = none)
    (htail : s.close.seekBody = none ∧ s.close.copy = none ∧ s.close.seekStart = none
      ∧ s.close.header = none) :
    ∃ body', (runSession H d deflate r q s).disk = finished H r q body'
      ∧ openf H d (runSession H d deflate r q s).disk r q = .ok body' := by
  obtain ⟨h2, h3, h4, h5⟩ := htail
  simp only [runSession, hcreate, createF]
  generalize hw0 : (⟨zeros (3 * d), 3 * d, r, q, [], false⟩ : FWriter) = w0
  have hend0 : w0.atEnd := by subst hw0; simp [FWriter.atEnd, zeros]
  have hend := writesF_atEnd deflate s.writes w0 hend0
  obtain ⟨t, hdata⟩ := writesF_data deflate s.writes w0 hend0
  obtain ⟨hr1, hq1⟩ := writesF_rq deflate s.writes w0
  generalize (writesF deflate w0 s.writes).1 = w1 at hend hdata hr1 hq1
  have hd0 : w0.data = zeros (3 * d) := by subst hw0; rfl
  have hr0 : w0.r = r := by subst hw0; rfl
  have hq0 : w0.q = q := by subst hw0; rfl
  rw [hd0] at hdata
  rw [hr0] at hr1
  rw [hq0] at hq1
  unfold FWriter.atEnd at hend
  -- what the flush step leaves on disk is the placeholder followed by some bytes
  have key : ∀ body', (w1.data ++ body').drop (3 * d) = t ++ body' := by
    intro b
    rw [hdata, List.append_assoc]
    exact drop_len (length_zeros _)
  have hfin : ∀ body', writeAt (w1.data ++ body') 0 (w1.r ++ w1.q ++ H (t ++ body'))
      = finished H r q (t ++ body') := by
    intro b
    have hlen : (r ++ q ++ H (t ++ b)).length = 3 * d := by simp [hr, hq, hH]; omega
    rw [writeAt_zero, overwrite, hr1, hq1, hlen, key]
    rfl
  refine ⟨t ++ flushed deflate w1 s.close, ?_⟩
  have hdisk : (closeF H d deflate w1 s.close).1 = finished H r q (t ++ flushed deflate w1 s.close) := by
    rw [closeF_tail_ok H d deflate w1 s.close hend h2 h3 h4 h5, key]
    exact hfin _
  rw [hdisk]
  exact ⟨rfl, open_complete hH hr hq _⟩

/-! ### non-vacuity, and the hypotheses cannot be dropped

A toy digest of size 1 (sum of the bytes mod 256) and the identity codec instantiate every
hypothesis; the same toy digest has collisions and zero values, which gives concrete accepted
corruptions as soon as the corresponding hypothesis is dropped. -/

/-- toy digest: one byte, the sum of the input -/
def toyH (x : Bytes) : Bytes := [x.foldl (· + ·) 0]

theorem toyH_size : ∀ x, (toyH x).length = 1 := fun _ => rfl

/-- the finished file for `r = [7]`, `q = [9]`, body `[1, 2, 3]` -/
example : finish toyH 1 id [7] [9] [1, 2, 3] = [7, 9, 6, 1, 2, 3] := by decide

/-- `open_close` instantiated -/
example : openRead toyH 1 some (finish toyH 1 id [7] [9] [1, 2, 3]) [7] [9] = .ok [1, 2, 3] :=
  open_close toyH_size id some rfl rfl [1, 2, 3] rfl

/-- `corrupt_body` instantiated: `[1, 2, 4]` does not collide with `[1, 2, 3]` -/
example : ∃ e, openf toyH 1 ((finished toyH [7] [9] [1, 2, 3]).set (3 * 1 + 2) 4) [7] [9] = .error e :=
  corrupt_body toyH_size rfl rfl [1, 2, 3] 2 4 (by decide)

/-- the no-collision hypothesis of `corrupt_body` cannot be dropped: with the toy digest the
bodies `[1, 2]` and `[2, 1]` collide and the corrupted file is accepted. -/
example : openf toyH 1 ([7] ++ [9] ++ toyH [1, 2] ++ [2, 1]) [7] [9] = .ok [2, 1] := by decide

/-- the hypothesis of `truncate` cannot be dropped either (`[5, 0]` cut to `[5]`) … -/
example : openf toyH 1 ((finished toyH [7] [9] [5, 0]).take 4) [7] [9] = .ok [5] := by decide

/-- … nor the one of `extend` -/
example : openf toyH 1 (finished toyH [7] [9] [5] ++ [0]) [7] [9] = .ok [5, 0] := by decide

/-- `crash_safe` instantiated (non-zero root sum): all 12 crash states of body `[1, 255, 7]` -/
example : ∀ s ∈ crashStates toyH 1 [7] [0] [1, 255, 7], ∀ x,
    openf toyH 1 s [7] [0] = .ok x → x = [1, 255, 7] :=
  crash_safe toyH_size rfl rfl _ (.inl (by decide))

/-- a torn header that happens to equal the final header is accepted and is the finished file:
root sum `[7]` written, data sum `[0]` and body sum `[0]` (of body `[3, 253]`) still placeholder -/
example : openf toyH 1 (overwrite (zeros 3 ++ [3, 253]) (([7] ++ [0] ++ toyH [3, 253]).take 1))
    [7] [0] = .ok [3, 253] := by decide

/-- **The hypothesis of `crash_safe` cannot be dropped**: with all-zero sums and a body whose
proper prefix `[1, 255]` hashes to zero, the crash state "placeholder + first two body bytes"
is accepted and a truncated body is returned. -/
theorem crash_unsafe_without_hypothesis :
    ¬ (∀ s ∈ crashStates toyH 1 [0] [0] [1, 255, 7], ∀ x,
        openf toyH 1 s [0] [0] = .ok x → x = [1, 255, 7]) := by
  intro h
  have := h [0, 0, 0, 1, 255] (by decide) [1, 255] (by decide)
  revert this
  decide

/-! ### I/O faults: non-vacuity and witnesses (toy digest, identity codec) -/

/-- `close_ok_roundtrip` instantiated: two `Write` calls, no fault — the caller sees no error and
the entry is the finished file -/
example : (runSession toyH 1 id [7] [9] ⟨none, [([1, 2], none), ([3], none)], {}⟩).clean = true
    ∧ (runSession toyH 1 id [7] [9] ⟨none, [([1, 2], none), ([3], none)], {}⟩).disk = [7, 9, 6, 1, 2, 3] := by
  decide

example : openRead toyH 1 some (runSession toyH 1 id [7] [9] ⟨none, [([1, 2], none), ([3], none)], {}⟩).disk
    [7] [9] = .ok [1, 2, 3] :=
  close_ok_reads_back toyH_size id some rfl rfl _ rfl (by decide)

/-- `close_reports_flush_failure` instantiated: the flush fails after 2 of 3 bytes, every later step
of `Close` works -/
example : (closeF toyH 1 id ⟨zeros 3, 3, [7], [9], [1, 2, 3], false⟩ { flush := some 2 }).2 = some .flate :=
  close_reports_flush_failure id _ _ 2 rfl

/-- `session_reports_flush_failure` instantiated -/
example : (runSession toyH 1 id [7] [9] ⟨none, [([1, 2, 3], none)], { flush := some 2 }⟩).closeErr = some .flate :=
  session_reports_flush_failure id [7] [9] _ 2 rfl

/-- `write_failure_reported_by_close` instantiated: the second `Write` fails -/
example : (runSession toyH 1 id [7] [9] ⟨none, [([1], none), ([2, 3], some 1)], {}⟩).closeErr = some .flate :=
  write_failure_reported_by_close id [7] [9] _ ⟨some .flate, by decide, by decide⟩

/-- `close_first_error`: a failed seek to 0 makes `Close` report the seek error, and the header is
APPENDED behind the body (the offset stayed at the end of the file) -/
example : closeF toyH 1 id ⟨zeros 3, 3, [7], [9], [1, 2, 3], false⟩ { seekStart := some 0 }
    = ([0, 0, 0, 1, 2, 3, 7, 9, 6], some .seek) := by decide

/-- **A reported failure can leave an entry that verifies and holds a prefix.**  The final flush
fails after 2 of the 3 body bytes; `Write` returned `nil`, `Close` returns the flate error — and the
file on disk is a well-formed entry which `Open` accepts and from which exactly the PREFIX
`[1, 2]` is read back.  Nothing in the file shows the failure: the caller has to discard the entry
when `Close` fails (cmd/gts/io.go `ioDelegate.Close` does; seeded change C13-g makes `Close`
return `nil` here). -/
theorem failed_close_may_verify :
    (runSession toyH 1 id [7] [9] ⟨none, [([1, 2, 3], none)], { flush := some 2 }⟩).writeErrs = [none]
    ∧ (runSession toyH 1 id [7] [9] ⟨none, [([1, 2, 3], none)], { flush := some 2 }⟩).closeErr = some .flate
    ∧ openRead toyH 1 some
        (runSession toyH 1 id [7] [9] ⟨none, [([1, 2, 3], none)], { flush := some 2 }⟩).disk [7] [9]
        = .ok [1, 2] := by
  decide

/-- `failed_close_entry_verifies` instantiated on the same session -/
example : ∃ body', (runSession toyH 1 id [7] [9] ⟨none, [([1, 2, 3], none)], { flush := some 2 }⟩).disk
      = finished toyH [7] [9] body'
    ∧ openf toyH 1 (runSession toyH 1 id [7] [9] ⟨none, [([1, 2, 3], none)], { flush := some 2 }⟩).disk
      [7] [9] = .ok body' :=
  failed_close_entry_verifies toyH_size id rfl rfl _ rfl ⟨rfl, rfl, rfl, rfl⟩

/-- **The error of `CreateLevel` has to be heeded too** (why `clean` includes it): the placeholder
write fails after 1 of 3 bytes, every `Write` and `Close` then return `nil` — and the entry verifies
and yields `[3]` instead of `[1, 2, 3]`.  (`TryCache` removes the entry's name when `CreateLevel`
returns an error.) -/
theorem create_error_must_be_heeded :
    (runSession toyH 1 id [7] [9] ⟨some 1, [([1, 2, 3], none)], {}⟩).createErr = some .write
    ∧ (runSession toyH 1 id [7] [9] ⟨some 1, [([1, 2, 3], none)], {}⟩).writeErrs = [none]
    ∧ (runSession toyH 1 id [7] [9] ⟨some 1, [([1, 2, 3], none)], {}⟩).closeErr = none
    ∧ openRead toyH 1 some (runSession toyH 1 id [7] [9] ⟨some 1, [([1, 2, 3], none)], {}⟩).disk [7] [9]
        = .ok [3] := by
  decide

end Gts.C13
