/-
  C02 — Insert/Embed place the guest exactly and every feature keeps its residues.
  Property theorems only.
-/
import Gts.Lemmas.Guest
import Gts.Lemmas.Table
import Gts.Lemmas.Record
import Gts.Lemmas.MarksOps
import Gts.Lemmas.MarkGuardOps
import Gts.Lemmas.MarkGuardEmbed
import Gts.Lemmas.EmbedExact
import Gts.Bridge.SeqInsert
namespace Gts.C02
open Gts Loc

/-- residues: `host[:i] + guest + host[i:]` (Insert) -/
theorem insert_bytes (host guest : Seq) (i : Int) :
    (host.insert i guest).bytes = host.bytes.take i.toNat ++ guest.bytes ++ host.bytes.drop i.toNat := rfl

/-- residues: `host[:i] + guest + host[i:]` (Embed) -/
theorem embed_bytes (host guest : Seq) (i : Int) :
    (host.embed i guest).bytes = host.bytes.take i.toNat ++ guest.bytes ++ host.bytes.drop i.toNat := rfl

/-- every host feature (shifted) and every guest feature (offset by `i`) is present exactly once,
with unchanged key and qualifiers -/
theorem insert_table_perm (host guest : Seq) (i : Int) :
    (host.insert i guest).feats.Perm
      (host.feats.map (fun f => { f with loc := f.loc.shift i guest.len }) ++
       guest.feats.map (fun f => { f with loc := f.loc.expand 0 i })) := by
  unfold Seq.insert
  exact (Table.insertAll_perm _ _).trans ((Table.insertAll_perm [] _).append_right _)

theorem embed_table_perm (host guest : Seq) (i : Int) :
    (host.embed i guest).feats.Perm
      (host.feats.map (fun f => { f with loc := f.loc.expand i guest.len }) ++
       guest.feats.map (fun f => { f with loc := f.loc.expand 0 i })) := by
  unfold Seq.embed
  exact (Table.insertAll_perm _ _).trans ((Table.insertAll_perm [] _).append_right _)

/-- FULL STATEMENT (false today through known finding K2 inside `Join`):
    `∀ l i n, wf l → 0 ≤ n → den (shift l i n) ≼ mapPos (insMap i n) (den l)`. -/
theorem shift_den_full_refuted :
    ¬ (∀ (l : Loc) (i n : Int), wf l = true → 0 ≤ n →
        den (shift l i n) ≼ mapPos (insMap i n) (den l)) := by
  intro h
  have := (h (joined [ranged 3 6 false false, point 6]) 0 0 (by decide) (by decide)).2 (6, false) (by decide)
  revert this
  decide

/-- **Insert, host features**: for every well-formed location of any kind, nesting and strand,
every index `i` and guest length `n ≥ 0`, the shifted location denotes exactly the re-mapped
residues (same order and strand; duplicate occurrences may be merged), provided rule K2 does
not fire in any `Join` of the evaluation. -/
theorem shift_den_partial (l : Loc) (i n : Int) (hw : wf l = true) (hn : 0 ≤ n)
    (hk2 : shiftAbs l i n = false) :
    den (shift l i n) ≼ mapPos (insMap i n) (den l) := (shift_ins l i n hw hn).1 hk2

/-- … with equality for duplicate-free locations (every real feature) -/
theorem shift_den_eq_partial (l : Loc) (i n : Int) (hw : wf l = true) (hn : 0 ≤ n)
    (hk2 : shiftAbs l i n = false) (hnd : (den l).Nodup) :
    den (shift l i n) = mapPos (insMap i n) (den l) := by
  apply (shift_den_partial l i n hw hn hk2).eq_of_nodup
  unfold mapPos
  apply hnd.map
  intro a b hne hab
  apply hne
  have h1 : insMap i n a.1 = insMap i n b.1 := (Prod.mk.inj hab).1
  have h2 : a.2 = b.2 := (Prod.mk.inj hab).2
  have : a.1 = b.1 := by
    unfold insMap at h1
    split at h1 <;> split at h1 <;> omega
  exact Prod.ext this h2

/-- the contiguous kinds need no guard: a range spanning `i` becomes exactly
`join(left‹p5›, right‹p3›)` around the guest, anything else is translated or untouched -/
theorem ranged_shift_den (s e : Int) (p5 p3 : Bool) (i n : Int) (h : s < e) (hn : 0 ≤ n) :
    den (shift (ranged s e p5 p3) i n) = mapPos (insMap i n) (den (ranged s e p5 p3)) :=
  den_rangedShift_ins s e p5 p3 i n h hn

theorem ranged_shift_split (s e : Int) (p5 p3 : Bool) (i n : Int) (h1 : s < i) (h2 : i < e) (hn : 0 < n) :
    shift (ranged s e p5 p3) i n = joined [ranged s i p5 false, ranged (i + n) (e + n) false p3] := by
  simp only [shift, rangedShift]
  rw [if_neg (by omega), if_neg (by omega), if_pos ⟨h1, h2⟩, join_two_ranged_ne _ _ _ _ _ _ _ _ (by omega)]

/-- **Embed, host features**: Expand with `n ≥ 0` behaves like Insert on the host's residues;
a part spanning `i` additionally covers the guest `[i, i+n)` (which `stripGuest` removes). -/
theorem expand_den_partial (l : Loc) (i n : Int) (hw : wf l = true) (hn : 0 ≤ n)
    (hk2 : expandAbs l i n = false) :
    stripGuest i n (den (expand l i n)) ≼ mapPos (insMap i n) (den l) := (expand_ins l i n hw hn).1 hk2

/-- **Guest features** denote, in the result, the residues they denoted in the guest
(translated by the insertion index). -/
theorem guest_den_partial (l : Loc) (i : Int) (hw : wf l = true) (hnn : nonneg l = true) (hi : 0 ≤ i)
    (hk2 : expandAbs l 0 i = false) :
    den (expand l 0 i) ≼ mapPos (· + i) (den l) := guest_translate l i hw hnn hi hk2

/-- well-formedness is preserved (so the theorems apply again to the result) -/
theorem shift_wf (l : Loc) (i n : Int) (hw : wf l = true) (hn : 0 ≤ n) : wf (shift l i n) = true :=
  (shift_ins l i n hw hn).2

theorem expand_wf (l : Loc) (i n : Int) (hw : wf l = true) (hn : 0 ≤ n) : wf (expand l i n) = true :=
  (expand_ins l i n hw hn).2

/-- non-vacuity: a complement-strand join spanning the insertion point satisfies the hypotheses -/
example : wf (compl (joined [ranged 2 5 true false, point 7, ranged 9 12 false true])) = true ∧
    shiftAbs (compl (joined [ranged 2 5 true false, point 7, ranged 9 12 false true])) 4 3 = false ∧
    expandAbs (compl (joined [ranged 2 5 true false, point 7, ranged 9 12 false true])) 4 3 = false ∧
    (den (compl (joined [ranged 2 5 true false, point 7, ranged 9 12 false true]))).Nodup := by decide

/-! ### record level: what `gts.Insert` / `gts.Embed` do to every feature of a record -/

/-- **Insert, record level**: every host feature is present in the result with unchanged key
and qualifiers and a location denoting its former residues at their new positions. -/
theorem insert_host_feature_partial (host guest : Seq) (i : Int) (f : Feature) (hf : f ∈ host.feats)
    (hw : wf f.loc = true) (hk2 : shiftAbs f.loc i guest.len = false) :
    ∃ f' ∈ (host.insert i guest).feats, f'.key = f.key ∧ f'.props = f.props ∧
      den f'.loc ≼ mapPos (insMap i guest.len) (den f.loc) :=
  ⟨{ f with loc := f.loc.shift i guest.len },
   mem_of_perm_map_append_left (insert_table_perm host guest i) hf, rfl, rfl,
   shift_den_partial f.loc i guest.len hw guest.len_nonneg hk2⟩

/-- **Embed, record level** (a part spanning `i` additionally covers the guest) -/
theorem embed_host_feature_partial (host guest : Seq) (i : Int) (f : Feature) (hf : f ∈ host.feats)
    (hw : wf f.loc = true) (hk2 : expandAbs f.loc i guest.len = false) :
    ∃ f' ∈ (host.embed i guest).feats, f'.key = f.key ∧ f'.props = f.props ∧
      stripGuest i guest.len (den f'.loc) ≼ mapPos (insMap i guest.len) (den f.loc) :=
  ⟨{ f with loc := f.loc.expand i guest.len },
   mem_of_perm_map_append_left (embed_table_perm host guest i) hf, rfl, rfl,
   expand_den_partial f.loc i guest.len hw guest.len_nonneg hk2⟩

/-- **guest features, record level** (Insert and Embed treat them alike) -/
theorem insert_guest_feature_partial (host guest : Seq) (i : Int) (hi : 0 ≤ i) (f : Feature)
    (hf : f ∈ guest.feats) (hw : wf f.loc = true) (hnn : nonneg f.loc = true)
    (hk2 : expandAbs f.loc 0 i = false) :
    (∃ f' ∈ (host.insert i guest).feats, f'.key = f.key ∧ f'.props = f.props ∧
      den f'.loc ≼ mapPos (· + i) (den f.loc)) ∧
    (∃ f' ∈ (host.embed i guest).feats, f'.key = f.key ∧ f'.props = f.props ∧
      den f'.loc ≼ mapPos (· + i) (den f.loc)) :=
  ⟨⟨{ f with loc := f.loc.expand 0 i },
    mem_of_perm_map_append_right (insert_table_perm host guest i) hf, rfl, rfl,
    guest_den_partial f.loc i hw hnn hi hk2⟩,
   ⟨{ f with loc := f.loc.expand 0 i },
    mem_of_perm_map_append_right (embed_table_perm host guest i) hf, rfl, rfl,
    guest_den_partial f.loc i hw hnn hi hk2⟩⟩

/-- nothing else appears: the result has exactly `|host| + |guest|` features -/
theorem insert_feature_count (host guest : Seq) (i : Int) :
    (host.insert i guest).feats.length = host.feats.length + guest.feats.length ∧
    (host.embed i guest).feats.length = host.feats.length + guest.feats.length := by
  constructor
  · simpa using (insert_table_perm host guest i).length_eq
  · simpa using (embed_table_perm host guest i).length_eq

/-! ### Embed WITHOUT stripping the guest (audit finding S6)

`expand_den_partial` compares after `stripGuest`, so it is also met by Insert's split and by an
`Expand` that stretches a range merely ending / starting at `i`.  The statements below pin the guest
residues `[i, i+n)`: they are denoted exactly inside the leaves that span `i` (`s < i < e`), in
strand order, between the left part and the translated right part. -/

/-- **the coordinate rule of `Ranged.Expand` for `n > 0`** (Embed): the start moves iff `i ≤ start`, the
end moves iff `i < end`; so a range ENDING at `i` is untouched, a range STARTING at `i` is translated
as a whole, a range spanning `i` grows by `n`; partial markers are kept.  (For Insert the same two
rules hold outside the spanning case, `rangedShift`: "otherwise behaves identically".) -/
theorem ranged_expand_extend (s e : Int) (p5 p3 : Bool) (i n : Int) (h : s < e) (hn : 0 < n) :
    expand (ranged s e p5 p3) i n =
      ranged (if i ≤ s then s + n else s) (if i < e then e + n else e) p5 p3 := by
  simp only [expand]; exact rangedExpand_ins_eq s e p5 p3 i n h hn

/-- **Embed, a leaf spanning `i`** (`s < i < e`, guest length `n ≥ 0`), as an equation on residue lists:
the expanded range denotes the left part `[s, i)`, then the guest block `[i, i+n)`, then the right
part translated by `n` — where the insert image `mapPos (insMap i n) (den leaf)` is exactly left part ++
right part (the place where Insert splits).  On the complement strand the same list read backwards
with the strand flag set. -/
theorem expand_embed_span (s e : Int) (p5 p3 : Bool) (i n : Int) (h1 : s < i) (h2 : i < e) (hn : 0 ≤ n) :
    den (expand (ranged s e p5 p3) i n) =
        fwd (irange s (i - s).toNat) ++ fwd (irange i n.toNat) ++ fwd (irange (i + n) (e - i).toNat) ∧
    mapPos (insMap i n) (den (ranged s e p5 p3)) =
        fwd (irange s (i - s).toNat) ++ fwd (irange (i + n) (e - i).toNat) ∧
    den (expand (compl (ranged s e p5 p3)) i n) =
        flipDen (fwd (irange s (i - s).toNat) ++ fwd (irange i n.toNat) ++ fwd (irange (i + n) (e - i).toNat)) := by
  have hd := den_rangedExpand_embed s e p5 p3 i n (by omega) hn
  have hs := embedSeg_span s e i n h1 h2 hn
  refine ⟨?_, ?_, ?_⟩
  · simp only [expand]; rw [hd, hs.1]
  · rw [den_ranged]; exact hs.2
  · simp only [expand, den_compl]; rw [hd, hs.1]

/-- the same for an `Ambiguous` leaf (`one-of(s..e)`) spanning `i` -/
theorem expand_embed_span_ambiguous (s e i n : Int) (h1 : s < i) (h2 : i < e) (hn : 0 ≤ n) :
    den (expand (ambiguous s e) i n) =
        fwd (irange s (i - s).toNat) ++ fwd (irange i n.toNat) ++ fwd (irange (i + n) (e - i).toNat) := by
  simp only [expand]
  rw [den_ambiguousExpand_embed s e i n (by omega) hn, (embedSeg_span s e i n h1 h2 hn).1]

/-- **Embed, a leaf that does not span `i`** (`e ≤ i` or `i ≤ s`, INCLUDING the boundary cases `e = i` and
`s = i` the property's quantifier names): the expanded range denotes exactly the insert image — what
`Shift` (Insert) denotes for the same leaf — and NO residue of the guest `[i, i+n)`; both strands.
(`Ranged.Expand` with `i == end`: the end stays; with `i == start`: the whole range moves by `n`.) -/
theorem expand_embed_outside (s e : Int) (p5 p3 : Bool) (i n : Int) (h : s < e) (hn : 0 ≤ n)
    (ho : e ≤ i ∨ i ≤ s) :
    den (expand (ranged s e p5 p3) i n) = mapPos (insMap i n) (den (ranged s e p5 p3)) ∧
    den (expand (ranged s e p5 p3) i n) = den (shift (ranged s e p5 p3) i n) ∧
    den (expand (compl (ranged s e p5 p3)) i n) = mapPos (insMap i n) (den (compl (ranged s e p5 p3))) ∧
    (∀ p ∈ den (expand (ranged s e p5 p3) i n), p.1 < i ∨ i + n ≤ p.1) ∧
    (∀ p ∈ den (expand (compl (ranged s e p5 p3)) i n), p.1 < i ∨ i + n ≤ p.1) := by
  have hd : den (expand (ranged s e p5 p3) i n) = mapPos (insMap i n) (den (ranged s e p5 p3)) := by
    simp only [expand]
    rw [den_rangedExpand_embed s e p5 p3 i n h hn, embedSeg_outside s e i n ho, den_ranged]
  have hout : ∀ p ∈ mapPos (insMap i n) (den (ranged s e p5 p3)), p.1 < i ∨ i + n ≤ p.1 := by
    intro p hp
    simp only [mapPos, List.mem_map] at hp
    obtain ⟨q, _, rfl⟩ := hp
    simp only [insMap]; split <;> omega
  refine ⟨hd, ?_, ?_, ?_, ?_⟩
  · rw [hd]; exact (den_rangedShift_ins s e p5 p3 i n h hn).symm
  · simp only [expand, den_compl, mapPos_flipDen]
    have := hd; simp only [expand] at this; rw [this]
  · rw [hd]; exact hout
  · intro p hp
    simp only [expand, den_compl] at hp
    have h' := hd; simp only [expand] at h'
    rw [h'] at hp
    simp only [flipDen, List.mem_map, List.mem_reverse] at hp
    obtain ⟨q, hq, rfl⟩ := hp
    exact hout q hq

/-- FULL STATEMENT (false today through known finding K2 inside `Join`):
    `∀ l i n, wf l → 0 ≤ n → den (expand l i n) ≼ embedDen l i n`. -/
theorem expand_embed_den_full_refuted :
    ¬ (∀ (l : Loc) (i n : Int), wf l = true → 0 ≤ n → den (expand l i n) ≼ embedDen l i n) := by
  intro h
  have := (h (joined [ranged 3 6 false false, point 6]) 0 0 (by decide) (by decide)).2 (6, false) (by decide)
  revert this
  decide

/-- **Embed, host features, un-stripped**: for every well-formed location of any kind, nesting and
strand, every index `i` and guest length `n ≥ 0`, the expanded location denotes `embedDen l i n` = the
host image with the guest block `[i, i+n)` inserted exactly inside the leaves that span `i` (same order
and strand; duplicate occurrences may be merged), provided rule K2 does not fire in any `Join` of the
evaluation.  `embedDen` (`Gts/Lemmas/EmbedExact.lean`) is defined from the ORIGINAL location: per leaf
`embedSeg` (`expand_embed_span` / `expand_embed_outside`), concatenated through join / order, read
backwards under complement. -/
theorem expand_embed_den_partial (l : Loc) (i n : Int) (hw : wf l = true) (hn : 0 ≤ n)
    (hk2 : expandAbs l i n = false) :
    den (expand l i n) ≼ embedDen l i n := expand_embed l i n hw hn hk2

/-- **Embed, record level, un-stripped**: every host feature is present in the result with unchanged
key and qualifiers and a location denoting its former residues at their new positions plus the guest
block inside exactly the parts that spanned `i`. -/
theorem embed_host_feature_exact_partial (host guest : Seq) (i : Int) (f : Feature) (hf : f ∈ host.feats)
    (hw : wf f.loc = true) (hk2 : expandAbs f.loc i guest.len = false) :
    ∃ f' ∈ (host.embed i guest).feats, f'.key = f.key ∧ f'.props = f.props ∧
      den f'.loc ≼ embedDen f.loc i guest.len :=
  ⟨{ f with loc := f.loc.expand i guest.len },
   mem_of_perm_map_append_left (embed_table_perm host guest i) hf, rfl, rfl,
   expand_embed_den_partial f.loc i guest.len hw guest.len_nonneg hk2⟩

/-- non-vacuity, and the law DISTINGUISHES: a complement-strand join with a part spanning `i = 4`, a part
ending at `4` and a part starting at `4` meets the hypotheses; its Embed image has the guest block in the
spanning part only; Insert's image (`shift`) of the same location does NOT meet the conclusion, and
neither does a range ending at `i` stretched over the guest. -/
example : wf (compl (joined [ranged 0 4 true false, ranged 6 9 false false, ranged 2 6 false false, ranged 4 5 false true])) = true ∧
    expandAbs (compl (joined [ranged 0 4 true false, ranged 6 9 false false, ranged 2 6 false false, ranged 4 5 false true])) 4 3 = false ∧
    embedDen (joined [ranged 0 4 true false, ranged 6 9 false false, ranged 2 6 false false, ranged 4 5 false true]) 4 3 =
      fwd [0, 1, 2, 3] ++ fwd [9, 10, 11] ++ fwd [2, 3, 4, 5, 6, 7, 8] ++ fwd [7] ∧
    den (expand (ranged 2 6 false false) 4 3) = embedDen (ranged 2 6 false false) 4 3 ∧
    den (shift (ranged 2 6 false false) 4 3) ≠ embedDen (ranged 2 6 false false) 4 3 ∧
    den (ranged 0 7 true false) ≠ embedDen (ranged 0 4 true false) 4 3 := by decide

/-! ### partial markers stay on the same outer ends

`outerMarks` (`Gts/Spec/Marks.lean`) is the Lean restatement of the Go oracle
`harness/spec.go outerMarks`. -/

/-- FULL STATEMENT (false on the model, and on the code): "Insert leaves the outer 5'/3' markers
of every well-formed location unchanged".  Witness `join(4,<4..6)` (a literal that `Join` would
reduce), any index, guest length 0: `Shift` rebuilds the join, `Push` replaces the point by the
range that starts at it, and the result `<4..6` has a 5' marker where the unmarked point was. -/
theorem shift_marks_full_refuted :
    ¬ (∀ (l : Loc) (i n : Int), wf l = true → 0 ≤ n → outerMarks (shift l i n) = outerMarks l) := by
  intro h
  have := h (joined [point 3, ranged 3 6 true false]) 0 0 (by decide) (by decide)
  revert this
  decide

/-- **Insert keeps the partial markers on the same outer ends**: for every well-formed location
of any kind, arity, nesting and strand, every index `i` and guest length `n ≥ 0`, the 5' marker
(before the first residue read) and the 3' marker (behind the last residue read) of the shifted
location are those of the original — also when a range is split around the guest — provided no
marker-moving rule of `Push` fires in a `Join` of the evaluation (`shiftMarkAbs`). -/
theorem shift_marks_partial (l : Loc) (i n : Int) (hw : wf l = true) (hn : 0 ≤ n)
    (hg : shiftMarkAbs l i n = false) :
    outerMarks (shift l i n) = outerMarks l :=
  outerMarks_of_marks (shift_marks_aux l i n hw hn hg)

/-- … in particular under the hypotheses of `shift_den_eq_partial` (K2 guard, duplicate-free
denotation) — the conditions under which the Go oracle evaluates the marker clause -/
theorem shift_marks_nodup_partial (l : Loc) (i n : Int) (hw : wf l = true) (hn : 0 ≤ n)
    (hk2 : shiftAbs l i n = false) (hnd : (den l).Nodup) :
    outerMarks (shift l i n) = outerMarks l :=
  shift_marks_partial l i n hw hn (shiftMarkAbs_of_nodup l i n hw hn hk2 hnd)

/-- **Embed keeps the partial markers on the same outer ends** (`Expand` with `n ≥ 0`; also the
guest features, which are translated by `Expand(0, i)`) -/
theorem expand_marks_partial (l : Loc) (i n : Int) (hw : wf l = true) (hn : 0 ≤ n)
    (hg : expandMarkAbs l i n = false) :
    outerMarks (expand l i n) = outerMarks l :=
  outerMarks_of_marks (expand_ins_marks_aux l i n hw hn hg)

/-- … Embed under the hypotheses of `expand_den_partial` (K2 guard) plus duplicate-freeness (the
embedded location is duplicate-free again: a guest residue enters a part only if that part spans
`i`, `Gts/Lemmas/MarkGuardEmbed.lean`) -/
theorem expand_marks_nodup_partial (l : Loc) (i n : Int) (hw : wf l = true) (hn : 0 ≤ n)
    (hk2 : expandAbs l i n = false) (hnd : (den l).Nodup) :
    outerMarks (expand l i n) = outerMarks l :=
  expand_marks_partial l i n hw hn (expandInsMarkAbs_of_nodup l i n hw hn hk2 hnd)

/-- non-vacuity: a complement-strand join with both outer markers, split by the insertion -/
example : wf (compl (joined [ranged 2 5 true false, point 7, ranged 9 12 false true])) = true ∧
    shiftMarkAbs (compl (joined [ranged 2 5 true false, point 7, ranged 9 12 false true])) 4 3 = false ∧
    expandMarkAbs (compl (joined [ranged 2 5 true false, point 7, ranged 9 12 false true])) 4 3 = false ∧
    outerMarks (compl (joined [ranged 2 5 true false, point 7, ranged 9 12 false true])) = (true, true) ∧
    shiftAbs (compl (joined [ranged 2 5 true false, point 7, ranged 9 12 false true])) 4 3 = false ∧
    (den (compl (joined [ranged 2 5 true false, point 7, ranged 9 12 false true]))).Nodup ∧
    (shift (compl (joined [ranged 2 5 true false, point 7, ranged 9 12 false true])) 4 3).beq
      (compl (joined [ranged 2 4 true false, ranged 7 8 false false, point 10, ranged 12 15 false true])) = true := by
  decide

/-- **Insert / Embed, record level**: every host feature is present in the result with unchanged
key and qualifiers and the same outer partial markers; so is every guest feature. -/
theorem insert_host_feature_marks_partial (host guest : Seq) (i : Int) (f : Feature) (hf : f ∈ host.feats)
    (hw : wf f.loc = true) (hg : shiftMarkAbs f.loc i guest.len = false) :
    ∃ f' ∈ (host.insert i guest).feats, f'.key = f.key ∧ f'.props = f.props ∧
      outerMarks f'.loc = outerMarks f.loc :=
  ⟨{ f with loc := f.loc.shift i guest.len },
   mem_of_perm_map_append_left (insert_table_perm host guest i) hf, rfl, rfl,
   shift_marks_partial f.loc i guest.len hw guest.len_nonneg hg⟩

theorem embed_host_feature_marks_partial (host guest : Seq) (i : Int) (f : Feature) (hf : f ∈ host.feats)
    (hw : wf f.loc = true) (hg : expandMarkAbs f.loc i guest.len = false) :
    ∃ f' ∈ (host.embed i guest).feats, f'.key = f.key ∧ f'.props = f.props ∧
      outerMarks f'.loc = outerMarks f.loc :=
  ⟨{ f with loc := f.loc.expand i guest.len },
   mem_of_perm_map_append_left (embed_table_perm host guest i) hf, rfl, rfl,
   expand_marks_partial f.loc i guest.len hw guest.len_nonneg hg⟩

theorem insert_guest_feature_marks_partial (host guest : Seq) (i : Int) (hi : 0 ≤ i) (f : Feature)
    (hf : f ∈ guest.feats) (hw : wf f.loc = true) (hg : expandMarkAbs f.loc 0 i = false) :
    (∃ f' ∈ (host.insert i guest).feats, f'.key = f.key ∧ f'.props = f.props ∧
      outerMarks f'.loc = outerMarks f.loc) ∧
    (∃ f' ∈ (host.embed i guest).feats, f'.key = f.key ∧ f'.props = f.props ∧
      outerMarks f'.loc = outerMarks f.loc) :=
  ⟨⟨{ f with loc := f.loc.expand 0 i },
    mem_of_perm_map_append_right (insert_table_perm host guest i) hf, rfl, rfl,
    expand_marks_partial f.loc 0 i hw hi hg⟩,
   ⟨{ f with loc := f.loc.expand 0 i },
    mem_of_perm_map_append_right (embed_table_perm host guest i) hf, rfl, rfl,
    expand_marks_partial f.loc 0 i hw hi hg⟩⟩

/-! ### the statements above, for the code AS IT IS WRITTEN NOW

`Gts.Gen.seqInsert` / `seqEmbed` are regenerated from sequence.go on every run (go2lean/gseq.go) and
`Gts/Bridge/SeqInsert.lean` proves them equal to the model wherever Go does not panic. -/

/-- **`gts.Insert` as written**: for an index inside the host the function does not panic, its residues are
`host[:i] + guest + host[i:]`, its table is a permutation of the shifted host features and the re-based guest
features, and the host's metadata went through `tryShift(info, i, Len(guest))` -/
theorem gen_insert_spec {ι : Type} (ops : Gen.InfoOps ι) (hi gi : ι) (host guest : Seq) (i : Int)
    (h : 0 ≤ i ∧ i ≤ host.len) :
    ∃ ff p, Gen.seqInsert ops hi host.feats host.bytes i gi guest.feats guest.bytes =
        .ok (ops.tryShift hi i guest.len, ff, p) ∧
      p = host.bytes.take i.toNat ++ guest.bytes ++ host.bytes.drop i.toNat ∧
      ff.Perm (host.feats.map (fun f => { f with loc := f.loc.shift i guest.len }) ++
        guest.feats.map (fun f => { f with loc := f.loc.expand 0 i })) :=
  ⟨_, _, Bridge.seqInsert_eq ops hi gi host guest i h, insert_bytes host guest i, insert_table_perm host guest i⟩

/-- **`gts.Insert` as written** panics (slice bounds out of range) for every index outside the host -/
theorem gen_insert_panics {ι : Type} (ops : Gen.InfoOps ι) (hi gi : ι) (host guest : Seq) (i : Int)
    (h : ¬ (0 ≤ i ∧ i ≤ host.len)) :
    Gen.seqInsert ops hi host.feats host.bytes i gi guest.feats guest.bytes = .error .panic :=
  Bridge.seqInsert_panic ops hi gi host guest i h

/-- **`gts.Embed` as written**: the same residues, the host features re-located by `Expand(i, Len(guest))` -/
theorem gen_embed_spec {ι : Type} (ops : Gen.InfoOps ι) (hi gi : ι) (host guest : Seq) (i : Int)
    (h : 0 ≤ i ∧ i ≤ host.len) :
    ∃ ff p, Gen.seqEmbed ops hi host.feats host.bytes i gi guest.feats guest.bytes =
        .ok (ops.tryExpand hi i guest.len, ff, p) ∧
      p = host.bytes.take i.toNat ++ guest.bytes ++ host.bytes.drop i.toNat ∧
      ff.Perm (host.feats.map (fun f => { f with loc := f.loc.expand i guest.len }) ++
        guest.feats.map (fun f => { f with loc := f.loc.expand 0 i })) :=
  ⟨_, _, Bridge.seqEmbed_eq ops hi gi host guest i h, embed_bytes host guest i, embed_table_perm host guest i⟩

-- non-vacuity: an index inside (and one outside) a host of four residues
example : (0 : Int) ≤ 2 ∧ (2 : Int) ≤ (⟨[⟨"gene", .ranged 1 3 false false, []⟩], [65, 67, 71, 84]⟩ : Seq).len := by decide
example : ¬ ((0 : Int) ≤ 5 ∧ (5 : Int) ≤ (⟨[], [65, 67, 71, 84]⟩ : Seq).len) := by decide

end Gts.C02
