/-
  C11 — library operations are pure: arguments are never modified.

  Property theorems over the memory model `Gts/Model/Mem.lean` (a heap of arrays, Go slice
  headers, every operation written as the heap program the Go code is), for ALL heaps, offsets,
  lengths, capacities (spare capacity, sub-slices of larger buffers, shared tables) and ALL
  capacity policies `g` of `append`.

  For every operation `op`:
    * FRAME       `op_frame`    — no hypothesis at all: every array that existed before the call
                                  exists unchanged after it (`Frame w w'`, whole backing arrays);
    * REFINEMENT  `op_refines`  — for well-formed slice headers and in-range indices: the result
                                  read out of the new heap is the value the pure model
                                  (`Gts/Model/Seq.lean`) computes, and it is well formed;
    * PROGRAMS    `prog_*`      — any sequence of operations applied to the same original value:
                                  each sees the same arguments and returns the pure result.
  The pre-repair statements (`…Old`) violate FRAME on concrete heaps (`*_old_breaks_frame`).
  Helper lemmas live in Gts/Lemmas/Mem.lean.
-/
import Gts.Lemmas.Mem
namespace Gts.C11
open Gts Gts.Mem Gts.Mem.Heap

/-! ### what FRAME gives a caller -/

/-- FRAME is about whole backing arrays: every cell of every array that existed — visible part,
spare capacity, the enclosing buffer a slice was cut from — holds the same element afterwards. -/
theorem frame_arrays {φ : Type} {w w' : World φ} (hf : Frame w w') :
    (∀ a, a < w.B.length → w'.B.get a = w.B.get a) ∧ (∀ a, a < w.T.length → w'.T.get a = w.T.get a) :=
  ⟨fun _ ha => get_prefix hf.1 ha, fun _ ha => get_prefix hf.2 ha⟩

/-- … hence every sequence that was readable before (host, guest, or any other value sharing
their tables or buffers) reads the same and is still well formed -/
theorem frame_reads {w w' : World Feature} (hf : Frame w w') {s : MSeq} (hs : WFSeq w s) :
    readSeq w' s = readSeq w s ∧ WFSeq w' s := ⟨readSeq_mono hf hs, hs.mono hf⟩

/-! ### FRAME — unconditional -/

variable (g : Grow)

theorem spliceSeq_frame (Th Tg : Loc → Loc) (w : World Feature) (host : MSeq) (index : Int) (guest : MSeq) :
    Frame w (spliceSeq g Th Tg w host index guest).2 :=
  ⟨spliceMem_frame g (List.prefix_refl _) _ _ _,
   insertLoop_frame _ _ _ _ _ _ _ (insertLoop_frame _ _ _ _ _ _ _ (List.prefix_refl _))⟩

/-- `Insert` leaves every existing array unchanged -/
theorem insert_frame (w : World Feature) (host : MSeq) (index : Int) (guest : MSeq) :
    Frame w (insertSeq g w host index guest).2 := spliceSeq_frame g _ _ w host index guest

/-- `Embed` leaves every existing array unchanged -/
theorem embed_frame (w : World Feature) (host : MSeq) (index : Int) (guest : MSeq) :
    Frame w (embedSeq g w host index guest).2 := spliceSeq_frame g _ _ w host index guest

/-- `Delete` leaves every existing array unchanged -/
theorem delete_frame (w : World Feature) (s : MSeq) (offset length : Int) :
    Frame w (deleteSeq w s offset length).2 :=
  ⟨cutMem_frame (List.prefix_refl _) _ _ _,
   mapLoop_frame _ (tabCopy_frame (List.prefix_refl _) s.tab).2 _ _ _
     (tabCopy_frame (List.prefix_refl _) s.tab).1⟩

/-- `Erase` leaves every existing array unchanged -/
theorem erase_frame (w : World Feature) (s : MSeq) (offset length : Int) :
    Frame w (eraseSeq w s offset length).2 := by
  unfold eraseSeq
  simp only []
  refine Frame.trans (b := ⟨w.B, (tabFilter _ w.T s.tab).2⟩) ?_ (delete_frame _ _ _ _)
  exact ⟨List.prefix_refl _, (tabFilter_frame _ (List.prefix_refl _) s.tab).1⟩

/-- `Rotate` leaves every existing array unchanged -/
theorem rotate_frame (w : World Feature) (s : MSeq) (n : Int) : Frame w (rotateSeq g w s n).2 :=
  ⟨rotMem_frame g (List.prefix_refl _) _ _, insertLoop_frame _ _ _ _ _ _ _ (List.prefix_refl _)⟩

theorem sliceFwd_frame (w : World Feature) (s : MSeq) (start end_ : Int) :
    Frame w (sliceFwdSeq w s start end_).2 :=
  ⟨subMem_frame (List.prefix_refl _) _ _ _,
   mapLoop_frame _ (tabFilter_frame _ (List.prefix_refl _) s.tab).2 _ _ _
     (tabFilter_frame _ (List.prefix_refl _) s.tab).1⟩

/-- `Slice` (both the forward and the origin-crossing case) leaves every existing array unchanged -/
theorem slice_frame (w : World Feature) (s : MSeq) (start end_ : Int) :
    Frame w (sliceSeq g w s start end_).2 := by
  unfold sliceSeq
  simp only []
  generalize (if start < 0 then start + s.len else start) = st
  generalize (if end_ < 0 then end_ + s.len else end_) = en
  by_cases h : en < st
  · rw [if_pos h]; exact (rotate_frame g w s _).trans (sliceFwd_frame _ _ _ _)
  · rw [if_neg h]; exact sliceFwd_frame _ _ _ _

theorem concatFold_frame (tail : List MSeq) (st : MSeq × World Feature) {w : World Feature}
    (hf : Frame w st.2) (hfr : Fresh w.B.length st.1.dat) :
    Frame w (tail.foldl (concatStep g ins) st).2 := by
  induction tail generalizing st with
  | nil => exact hf
  | cons q tail ih =>
    have a := frame_append g hf.1 hfr (read st.2.B q.dat)
    exact ih _ ⟨a.1, insertLoop_frame _ _ _ _ _ _ _ hf.2⟩ a.2

/-- `Concat` leaves every existing array unchanged -/
theorem concat_frame (w : World Feature) (ss : List MSeq) : Frame w (concatSeq g w ss).2 := by
  match ss with
  | [] => exact Frame.refl w
  | [s] => exact Frame.refl w
  | head :: q :: tail =>
    have a := frame_append g (List.prefix_refl w.B) (Or.inr rfl : Fresh w.B.length Slice.nil)
      (read w.B head.dat)
    exact concatFold_frame g (q :: tail) _ ⟨a.1, List.prefix_refl _⟩ a.2

/-- `Reverse` leaves every existing array unchanged -/
theorem reverse_frame (w : World Feature) (s : MSeq) : Frame w (reverseSeq w s).2 :=
  ⟨revMem_frame (List.prefix_refl _) _, insertLoop_frame _ _ _ _ _ _ _ (List.prefix_refl _)⟩

/-- `Complement` leaves every existing array unchanged -/
theorem complement_frame (w : World Feature) (s : MSeq) : Frame w (complementSeq w s).2 :=
  ⟨replMem_frame _ (List.prefix_refl _) _, tabMapFresh_frame _ (List.prefix_refl _) _⟩

/-- `Transcribe` leaves every existing array unchanged -/
theorem transcribe_frame (w : World Feature) (s : MSeq) : Frame w (transcribeSeq w s).2 :=
  ⟨replMem_frame _ (List.prefix_refl _) _, List.prefix_refl _⟩

/-- `FeatureSlice.Insert` leaves every existing array unchanged -/
theorem tabInsert_frame (w : World Feature) (s : MSeq) (f : Feature) : Frame w (tabInsertSeq w s f).2 :=
  ⟨List.prefix_refl _, (Mem.tabInsert_frame _ (List.prefix_refl _) _ _).1⟩

/-- `FeatureSlice.Filter` leaves every existing array unchanged -/
theorem filter_frame (p : Feature → Bool) (w : World Feature) (s : MSeq) : Frame w (filterSeq p w s).2 :=
  ⟨List.prefix_refl _, (tabFilter_frame _ (List.prefix_refl _) _).1⟩

/-- `WithFeatures` / `WithBytes` / `WithInfo` / `Copy`: the world is literally the same -/
theorem with_frame (w : World Feature) (s : MSeq) (x : Slice) :
    (withFeaturesSeq w s x).2 = w ∧ (withBytesSeq w s x).2 = w ∧ (copySeq w s).2 = w := ⟨rfl, rfl, rfl⟩

/-- `Repair` works on a copy of the table: whatever it stores where, the argument's table array
(and every other array) is unchanged -/
theorem repair_frame {φ : Type} [Inhabited φ] (h : Heap φ) (ff : Slice) (stores : List (Nat × φ)) (keep : Nat) :
    h <+: (repairMem h ff stores keep).2 := by
  have c := tabCopy_frame (List.prefix_refl h) ff
  unfold repairMem
  simp only []
  generalize (tabCopy h ff).2 = h1 at c
  induction stores generalizing h1 with
  | nil => exact c.1
  | cons st stores ih => exact ih _ ⟨frame_store c.1 c.2 _ _, c.2⟩

/-- **FRAME for every operation**, no hypothesis: whatever the heap, the slice headers (spare
capacity, sub-slices, shared tables, even ill-formed ones), the indices and the capacity policy,
no array that existed before the call is changed by it -/
theorem runOp_frame (w : World Feature) (s : MSeq) (op : Op) : Frame w (runOp g w s op).2 := by
  cases op with
  | insert i guest => exact insert_frame g w s i guest
  | embed i guest => exact embed_frame g w s i guest
  | delete i n => exact delete_frame w s i n
  | erase i n => exact erase_frame w s i n
  | slice a b => exact slice_frame g w s a b
  | rotate n => exact rotate_frame g w s n
  | reverse => exact reverse_frame w s
  | complement => exact complement_frame w s
  | transcribe => exact transcribe_frame w s
  | concat before after => exact concat_frame g w _
  | tabInsert f => exact tabInsert_frame w s f
  | filterOverlap lo hi => exact filter_frame _ w s


/-! ### REFINEMENT — the result read out of the new heap is the pure model's result

`Spec w r v` = `Frame w r.2` ∧ the result `r.1` is well formed in `r.2` ∧ `readSeq r.2 r.1 = v`.
Hypotheses: the slice headers are well formed (true of every Go slice value) and the indices are
in the range in which the Go code does not panic. -/

theorem spliceSeq_refines (Th Tg : Loc → Loc) {w : World Feature} {host guest : MSeq} {index : Int}
    (hh : WFSeq w host) (hg : WFSeq w guest) (h0 : 0 ≤ index) (h1 : index ≤ host.len) :
    Spec w (spliceSeq g Th Tg w host index guest)
      ⟨Table.insertAll (Table.insertAll [] ((readSeq w host).feats.map (withLoc Th)))
          ((readSeq w guest).feats.map (withLoc Tg)),
        Seq.spliceBytes (readSeq w host).bytes index.toNat (readSeq w guest).bytes⟩ := by
  have p1 := insertLoop_all insertPos insertPos_le (withLoc Th) hh.1 (List.prefix_refl _) (wf_nil _)
  have p2 := insertLoop_all insertPos insertPos_le (withLoc Tg) hg.1 p1.pre p1.wf
  have pb := (spliceMem_owned g hh.2 hg.2 (pos := index.toNat) (by unfold MSeq.len at h1; omega)).part
  refine (Spec.ofParts p2 pb).cast ?_
  rw [p1.rd, read_nil, insPure_insertPos]
  rfl

/-- `Insert`: the result is `Seq.insert` of the values of host and guest -/
theorem insert_refines {w : World Feature} {host guest : MSeq} {index : Int} (hh : WFSeq w host)
    (hg : WFSeq w guest) (h0 : 0 ≤ index) (h1 : index ≤ host.len) :
    Spec w (insertSeq g w host index guest) (Seq.insert (readSeq w host) index (readSeq w guest)) := by
  refine (spliceSeq_refines g _ _ hh hg h0 h1).cast ?_
  simp only [Seq.insert, len_readSeq hg]
  rfl

/-- `Embed`: the result is `Seq.embed` of the values of host and guest -/
theorem embed_refines {w : World Feature} {host guest : MSeq} {index : Int} (hh : WFSeq w host)
    (hg : WFSeq w guest) (h0 : 0 ≤ index) (h1 : index ≤ host.len) :
    Spec w (embedSeq g w host index guest) (Seq.embed (readSeq w host) index (readSeq w guest)) := by
  refine (spliceSeq_refines g _ _ hh hg h0 h1).cast ?_
  simp only [Seq.embed, len_readSeq hg]
  rfl

/-- `Delete`: the result is `Seq.delete` of the value -/
theorem delete_refines {w : World Feature} {s : MSeq} {offset length : Int} (hs : WFSeq w s)
    (h0 : 0 ≤ offset) (h1 : 0 ≤ length) (h2 : offset + length ≤ s.len) :
    Spec w (deleteSeq w s offset length) (Seq.delete (readSeq w s) offset length) := by
  have pt := (mapLoop_all (withLoc fun l => l.expand offset (-length)) (tabCopy_owned hs.1)).part
    (r := ((tabCopy w.T s.tab).1, _))
  have pb := (cutMem_owned hs.2 (offset := offset.toNat) (length := length.toNat)
    (by unfold MSeq.len at h2; omega)).part
  refine (Spec.ofParts pt pb).cast ?_
  simp only [Seq.delete, readSeq, World.readTab, World.readDat, Int.toNat_add h0 h1]
  rfl

/-- `Erase`: the result is `Seq.erase` of the value -/
theorem erase_refines {w : World Feature} {s : MSeq} {offset length : Int} (hs : WFSeq w s)
    (h0 : 0 ≤ offset) (h1 : 0 ≤ length) (h2 : offset + length ≤ s.len) :
    Spec w (eraseSeq w s offset length) (Seq.erase (readSeq w s) offset length) := by
  have o := tabFilter_owned (fun f => f.key = "source" || !(f.loc.within offset (offset + length)))
    (h := w.T) (ff := s.tab)
  have fr : Frame w ⟨w.B, (tabFilter (fun f => f.key = "source" || !(f.loc.within offset (offset + length))) w.T s.tab).2⟩ :=
    ⟨List.prefix_refl _, o.pre⟩
  have hs' : WFSeq ⟨w.B, (tabFilter (fun f => f.key = "source" || !(f.loc.within offset (offset + length))) w.T s.tab).2⟩
      ⟨(tabFilter (fun f => f.key = "source" || !(f.loc.within offset (offset + length))) w.T s.tab).1, s.dat⟩ :=
    ⟨o.wf, hs.2⟩
  have d := delete_refines hs' h0 h1 h2
  refine ⟨fr.trans d.frame, d.wf, ?_⟩
  have := d.rd
  unfold eraseSeq
  simp only []
  rw [this]
  simp only [Seq.erase, readSeq, World.readTab, World.readDat, o.rd]

/-- `Rotate` of a non-empty sequence: the result is `Seq.rotate` of the value -/
theorem rotate_refines {w : World Feature} {s : MSeq} (n : Int) (hs : WFSeq w s) (hL : 0 < s.len) :
    Spec w (rotateSeq g w s n) (Seq.rotate (readSeq w s) n) := by
  have hn := rotAmount_nonneg s.len n hL
  have pt := insertLoop_all insertPos insertPos_le
    (withLoc fun l => (l.expand 0 (rotAmount s.len n)).normalize s.len) hs.1 (List.prefix_refl _) (wf_nil _)
  have pb := (rotMem_owned g hs.2 (m := (s.len - rotAmount s.len n).toNat)
    (by unfold MSeq.len at hn ⊢; omega)).part
  refine (Spec.ofParts pt pb).cast ?_
  rw [read_nil, insPure_insertPos]
  simp only [Seq.rotate, len_readSeq hs]
  rfl

theorem sliceFwd_refines {w : World Feature} {s : MSeq} {start end_ : Int} (hs : WFSeq w s)
    (h0 : 0 ≤ start) (h1 : start ≤ end_) (h2 : end_ ≤ s.len) :
    Spec w (sliceFwdSeq w s start end_) (Seq.sliceFwd (readSeq w s) start end_) := by
  have pt := (mapLoop_all (sliceLoc s.len start end_)
    (tabFilter_owned (fun f => f.loc.overlap start end_) (h := w.T) (ff := s.tab))).part
    (r := ((tabFilter (fun f => f.loc.overlap start end_) w.T s.tab).1, _))
  have pb := (subMem_owned hs.2 (start := start.toNat) (end_ := end_.toNat) (by omega)
    (by unfold MSeq.len at h2; omega)).part
  refine (Spec.ofParts pt pb).cast ?_
  have e : end_.toNat - start.toNat = (end_ - start).toNat := by omega
  simp only [Seq.sliceFwd, len_readSeq hs, e]
  rfl

/-- `Slice`, forward (`start ≤ end`) and origin-crossing (`end < start`), negative indices
counted from the end: the result is `Seq.slice` of the value -/
theorem slice_refines {w : World Feature} {s : MSeq} {start end_ : Int} (hs : WFSeq w s)
    (hs0 : 0 ≤ (if start < 0 then start + s.len else start))
    (hs1 : (if start < 0 then start + s.len else start) ≤ s.len)
    (he0 : 0 ≤ (if end_ < 0 then end_ + s.len else end_))
    (he1 : (if end_ < 0 then end_ + s.len else end_) ≤ s.len) (hL : 0 < s.len) :
    Spec w (sliceSeq g w s start end_) (Seq.slice (readSeq w s) start end_) := by
  unfold sliceSeq Seq.slice
  simp only [len_readSeq hs]
  generalize (if start < 0 then start + s.len else start) = st at hs0 hs1
  generalize (if end_ < 0 then end_ + s.len else end_) = en at he0 he1
  by_cases h : en < st
  · rw [if_pos h, if_pos h]
    have r := rotate_refines g (-st) hs hL
    have hlen : (rotateSeq g w s (-st)).1.len = s.len := by
      have := len_readSeq r.wf
      rw [r.rd] at this
      rw [← this]
      simp only [Seq.len, Seq.rotate, List.length_append, List.length_drop, List.length_take]
      have := length_read hs.2
      simp only [readSeq, World.readDat, MSeq.len] at *
      omega
    have f := sliceFwd_refines (w := (rotateSeq g w s (-st)).2) (s := (rotateSeq g w s (-st)).1)
      (start := 0) (end_ := s.len - st + en) r.wf (Int.le_refl 0) (by omega) (by rw [hlen]; omega)
    exact ⟨r.frame.trans f.frame, f.wf, by rw [f.rd, r.rd]⟩
  · rw [if_neg h, if_neg h]
    exact sliceFwd_refines hs hs0 (by omega) he1

theorem concatFold_refines (tail : List MSeq) {w : World Feature} (htail : ∀ q ∈ tail, WFSeq w q) :
    ∀ (st : MSeq × World Feature) (v : Seq), Frame w st.2 → WFSeq st.2 st.1 →
      Fresh w.B.length st.1.dat → readSeq st.2 st.1 = v →
      Spec w (tail.foldl (concatStep g ins) st) ((tail.map (readSeq w)).foldl Seq.concat2 v) := by
  induction tail with
  | nil => intro st v hf hw _ hr; exact ⟨hf, hw, hr⟩
  | cons q tail ih =>
    intro st v hf hw hfr hr
    have hq := htail q (List.mem_cons_self ..)
    have o : Owned w.B st.2.B st.1.dat v.bytes :=
      ⟨hf.1, hfr, hw.2, by rw [← hr]; rfl⟩
    have ob := append_old g o hq.2
    have pt := insertLoop_all insertPos insertPos_le (withLoc fun l => l.expand 0 st.1.dat.len)
      hq.1 hf.2 hw.1
    have hlen : ((st.1.dat.len : Nat) : Int) = v.len := by
      rw [← hr]; exact (len_readSeq hw).symm
    refine ih (fun q' hq' => htail q' (List.mem_cons_of_mem _ hq')) _ _ ⟨ob.pre, pt.pre⟩
      ⟨pt.wf, ob.wf⟩ ob.fresh ?_
    simp only [concatStep, readSeq, World.readTab, World.readDat]
    rw [pt.rd, ob.rd, insPure_insertPos, hlen]
    simp only [Seq.concat2, Table.insertAll]
    congr 1
    rw [← hr]; rfl

/-- `Concat`: the result is `Seq.concat` of the values -/
theorem concat_refines {w : World Feature} (ss : List MSeq) (hss : ∀ q ∈ ss, WFSeq w q) :
    Spec w (concatSeq g w ss) (Seq.concat (ss.map (readSeq w))) := by
  match ss, hss with
  | [], _ =>
    show Spec w (⟨Slice.nil, Slice.nil⟩, w) ⟨[], []⟩
    exact ⟨Frame.refl w, ⟨wf_nil _, wf_nil _⟩, by simp [readSeq, World.readTab, World.readDat, read_nil]⟩
  | [s], hss =>
    show Spec w (s, w) (readSeq w s)
    exact ⟨Frame.refl w, hss s (List.mem_cons_self ..), rfl⟩
  | head :: q :: tail, hss =>
    have hh := hss head (List.mem_cons_self ..)
    have o := append_old g (nil_owned (List.prefix_refl w.B)) hh.2
    rw [List.nil_append] at o
    exact concatFold_refines g (q :: tail) (fun q' hq' => hss q' (List.mem_cons_of_mem _ hq'))
      _ _ ⟨o.pre, List.prefix_refl _⟩ ⟨hh.1, o.wf⟩ o.fresh
      (by simp only [readSeq, World.readTab, World.readDat, o.rd])

/-- `Reverse`: the result is `Seq.reverse` of the value -/
theorem reverse_refines {w : World Feature} {s : MSeq} (hs : WFSeq w s) :
    Spec w (reverseSeq w s) (Seq.reverse (readSeq w s)) := by
  have pt := insertLoop_all insertPos insertPos_le (withLoc fun l => l.reverse s.len) hs.1
    (List.prefix_refl _) (wf_nil _)
  have pb := (revMem_owned hs.2).part
  refine (Spec.ofParts pt pb).cast ?_
  rw [read_nil, insPure_insertPos]
  simp only [Seq.reverse, len_readSeq hs]
  rfl

/-- `Complement`: complemented locations, byte-wise complemented residues -/
theorem complement_refines {w : World Feature} {s : MSeq} (hs : WFSeq w s) :
    Spec w (complementSeq w s)
      ⟨(readSeq w s).feats.map (withLoc Loc.complement), (readSeq w s).bytes.map Nuc.complementByte⟩ :=
  Spec.ofParts (tabMapFresh_owned _ hs.1).part (replMem_owned _ hs.2).part

/-- `Transcribe`: the same table (shared with the argument), byte-wise transcribed residues -/
theorem transcribe_refines {w : World Feature} {s : MSeq} (hs : WFSeq w s) :
    Spec w (transcribeSeq w s) ⟨(readSeq w s).feats, (readSeq w s).bytes.map Nuc.transcribeByte⟩ :=
  Spec.ofParts (t := (s.tab, w.T)) ⟨List.prefix_refl _, hs.1, rfl⟩ (replMem_owned _ hs.2).part

/-- `FeatureSlice.Insert`: the table the pure `Table.insert` computes -/
theorem tabInsert_refines {w : World Feature} {s : MSeq} (f : Feature) (hs : WFSeq w s) :
    Spec w (tabInsertSeq w s f) ⟨Table.insert (readSeq w s).feats f, (readSeq w s).bytes⟩ := by
  have pt := (tabInsert_owned insertPos insertPos_le f hs.1).part
  rw [insPure_insertPos] at pt
  exact Spec.ofParts (b := (s.dat, w.B)) pt ⟨List.prefix_refl _, hs.2, rfl⟩

/-- `FeatureSlice.Filter`: the filtered table -/
theorem filter_refines (p : Feature → Bool) {w : World Feature} {s : MSeq} (hs : WFSeq w s) :
    Spec w (filterSeq p w s) ⟨(readSeq w s).feats.filter p, (readSeq w s).bytes⟩ :=
  Spec.ofParts (b := (s.dat, w.B)) (tabFilter_owned p).part ⟨List.prefix_refl _, hs.2, rfl⟩


/-- **REFINEMENT for every operation**: well-formed arguments, in-range indices ⟹ FRAME, a
well-formed result, and the result reads as the pure model's value -/
theorem runOp_refines {w : World Feature} {s : MSeq} (hs : WFSeq w s) (op : Op) (hop : OpOK w s op) :
    Spec w (runOp g w s op) (pureOp w (readSeq w s) op) := by
  cases op with
  | insert i guest => exact insert_refines g hs hop.1 hop.2.1 hop.2.2
  | embed i guest => exact embed_refines g hs hop.1 hop.2.1 hop.2.2
  | delete i n => exact delete_refines hs hop.1 hop.2.1 hop.2.2
  | erase i n => exact erase_refines hs hop.1 hop.2.1 hop.2.2
  | slice a b => exact slice_refines g hs hop.1.1 hop.1.2 hop.2.1.1 hop.2.1.2 hop.2.2
  | rotate n => exact rotate_refines g n hs hop
  | reverse => exact reverse_refines hs
  | complement => exact complement_refines hs
  | transcribe => exact transcribe_refines hs
  | concat before after =>
    have := concat_refines g (w := w) (before ++ s :: after) (by
      intro q hq
      rcases List.mem_append.1 hq with h | h
      · exact hop.1 q h
      · rcases List.mem_cons.1 h with h | h
        · exact h ▸ hs
        · exact hop.2 q h)
    simpa [runOp, pureOp] using this
  | tabInsert f => exact tabInsert_refines f hs
  | filterOverlap lo hi => exact filter_refines _ hs

/-! ### PROGRAMS — any number of operations applied to the same original value -/

theorem OpOK.mono {w w' : World Feature} (hf : Frame w w') {s : MSeq} {op : Op} (h : OpOK w s op) :
    OpOK w' s op := by
  cases op with
  | insert i guest => exact ⟨h.1.mono hf, h.2⟩
  | embed i guest => exact ⟨h.1.mono hf, h.2⟩
  | concat before after => exact ⟨fun q hq => (h.1 q hq).mono hf, fun q hq => (h.2 q hq).mono hf⟩
  | _ => exact h

theorem pureOp_mono {w w' : World Feature} (hf : Frame w w') {s : MSeq} (v : Seq) {op : Op}
    (h : OpOK w s op) : pureOp w' v op = pureOp w v op := by
  cases op with
  | insert i guest => simp only [pureOp, readSeq_mono hf h.1]
  | embed i guest => simp only [pureOp, readSeq_mono hf h.1]
  | concat before after =>
    simp only [pureOp]
    congr 2
    · exact List.map_congr_left fun q hq => readSeq_mono hf (h.1 q hq)
    · congr 1
      exact List.map_congr_left fun q hq => readSeq_mono hf (h.2 q hq)
  | _ => rfl

/-- FRAME for programs, no hypothesis: a whole program leaves every existing array unchanged -/
theorem prog_frame (s : MSeq) (ops : List Op) : ∀ w : World Feature, Frame w (runProg g w s ops).2 := by
  induction ops with
  | nil => intro w; exact Frame.refl w
  | cons op ops ih => intro w; exact (runOp_frame g w s op).trans (ih _)

/-- … so after any program every argument (the original value, the guests, any sequence sharing
their arrays) reads as before: each further operation sees the same arguments -/
theorem prog_args_same {w : World Feature} (s : MSeq) (ops : List Op) {a : MSeq} (ha : WFSeq w a) :
    readSeq (runProg g w s ops).2 a = readSeq w a := readSeq_mono (prog_frame g s ops w) ha

/-- **PROGRAMS**: for any sequence of operations applied to the same original value `s` (each
with acceptable arguments in the ORIGINAL world `w0`), the k-th result — read in the final
world, after all later operations have run — is the pure k-th operation applied to the ORIGINAL
value of `s` (and of the guests); all results are well formed. -/
theorem prog_results {w0 : World Feature} {s : MSeq} (hs : WFSeq w0 s) (ops : List Op)
    (hops : ∀ op ∈ ops, OpOK w0 s op) :
    ∀ w, Frame w0 w →
      (runProg g w s ops).1.map (readSeq (runProg g w s ops).2) = ops.map (pureOp w0 (readSeq w0 s)) ∧
      ∀ r ∈ (runProg g w s ops).1, WFSeq (runProg g w s ops).2 r := by
  induction ops with
  | nil => intro w _; exact ⟨rfl, fun r hr => by cases hr⟩
  | cons op ops ih =>
    intro w hf
    have hop : OpOK w0 s op := hops op (List.mem_cons_self ..)
    have sp := runOp_refines g (hs.mono hf) op (OpOK.mono hf hop)
    have hf' : Frame w0 (runOp g w s op).2 := hf.trans sp.frame
    have rest := ih (fun o ho => hops o (List.mem_cons_of_mem _ ho)) _ hf'
    have fr := prog_frame g s ops (runOp g w s op).2
    constructor
    · simp only [runProg, List.map_cons]
      rw [rest.1, readSeq_mono fr sp.wf, sp.rd, pureOp_mono hf _ hop, readSeq_mono hf hs]
    · intro r hr
      simp only [runProg] at hr ⊢
      rcases List.mem_cons.1 hr with h | h
      · exact h ▸ sp.wf.mono fr
      · exact rest.2 r h


/-! ### `Origin.Bytes` — replace-and-flag on the `*Origin`

`(*Origin).Bytes()` rewrites the cell it is called on (`o.Buffer = q; o.Parsed = true`), and every
operation calls it through `GenBank.Bytes()`.  What is observable through the accessors: -/

/-- the text buffer the `Origin` was built over — and every other byte array — is never written
(the residues go into a fresh array) -/
theorem originBytes_frame (de : List UInt8 → List UInt8) (w : OWorld) (o : Nat) :
    w.B <+: (originBytes de w o).2.B := by
  unfold originBytes
  split
  · exact List.prefix_refl _
  · split
    · exact List.prefix_refl _
    · split
      · exact List.prefix_refl _
      · exact prefix_write (prefix_snoc (List.prefix_refl _) _) (Nat.le_refl _) _ _

/-- no other `*Origin` is touched -/
theorem originBytes_others (de : List UInt8 → List UInt8) (w : OWorld) {o o' : Nat} (h : o ≠ o') :
    (originBytes de w o).2.O[o']? = w.O[o']? := by
  unfold originBytes
  split
  · rfl
  · split
    · rfl
    · split
      · rfl
      · simp [List.getElem?_set_ne h]

/-- `Bytes()` returns the value `Bytes()` would have returned before, and keeps returning it:
the conversion is not observable through `Bytes()` -/
theorem originBytes_obs (de : List UInt8 → List UInt8) (w : OWorld) (o : Nat) :
    read (originBytes de w o).2.B (originBytes de w o).1 = obsBytes de w o ∧
    obsBytes de (originBytes de w o).2 o = obsBytes de w o := by
  unfold originBytes obsBytes
  cases hc : w.O[o]? with
  | none => simp [hc, read_nil]
  | some c =>
    by_cases hp : c.parsed = true
    · simp [hc, hp]
    · by_cases hl : c.buffer.len < 12
      · simp [hc, hp, hl, read_nil]
      · have ho : o < w.O.length := by
          apply Decidable.byContradiction
          intro hn
          rw [List.getElem?_eq_none (by omega)] at hc
          cases hc
        have hrd : read (write (mk w.B (de (read w.B c.buffer)).length (de (read w.B c.buffer)).length).2
            (mk w.B (de (read w.B c.buffer)).length (de (read w.B c.buffer)).length).1.arr
            (mk w.B (de (read w.B c.buffer)).length (de (read w.B c.buffer)).length).1.off
            (de (read w.B c.buffer)))
            (mk w.B (de (read w.B c.buffer)).length (de (read w.B c.buffer)).length).1
            = de (read w.B c.buffer) := by
          have o0 := mk_owned (α := UInt8) (List.prefix_refl w.B) (Nat.le_refl (de (read w.B c.buffer)).length)
          have o1 := write_owned o0 0 (de (read w.B c.buffer)) (by simp [mk])
          rw [Nat.add_zero, overwrite_full _ _ (by simp)] at o1
          exact o1.rd
        simp only [hp, hl, if_false, Bool.false_eq_true]
        refine ⟨hrd, ?_⟩
        simp only [List.getElem?_set_self ho, if_true]
        exact hrd

/-- a second call returns the same slice and changes nothing -/
theorem originBytes_idem (de : List UInt8 → List UInt8) (w : OWorld) (o : Nat) :
    originBytes de (originBytes de w o).2 o = ((originBytes de w o).1, (originBytes de w o).2) := by
  cases hc : w.O[o]? with
  | none => simp [originBytes, hc]
  | some c =>
    by_cases hp : c.parsed = true
    · simp [originBytes, hc, hp]
    · by_cases hl : c.buffer.len < 12
      · simp [originBytes, hc, hp, hl]
      · have ho : o < w.O.length := by
          apply Decidable.byContradiction
          intro hn
          rw [List.getElem?_eq_none (by omega)] at hc
          cases hc
        have e : originBytes de w o =
            ((mk w.B (de (read w.B c.buffer)).length (de (read w.B c.buffer)).length).1,
             ⟨write (mk w.B (de (read w.B c.buffer)).length (de (read w.B c.buffer)).length).2
                (mk w.B (de (read w.B c.buffer)).length (de (read w.B c.buffer)).length).1.arr
                (mk w.B (de (read w.B c.buffer)).length (de (read w.B c.buffer)).length).1.off
                (de (read w.B c.buffer)),
              w.O.set o ⟨(mk w.B (de (read w.B c.buffer)).length (de (read w.B c.buffer)).length).1, true⟩⟩) := by
          simp [originBytes, hc, hp, hl]
        rw [e]
        simp [originBytes, List.getElem?_set_self ho]

/-- `Len()` reads the same before and after, given that the decoder produces
`fromOriginLength(len(text))` residues (it fills `make([]byte, length)`) -/
theorem originBytes_len (de : List UInt8 → List UInt8)
    (hde : ∀ t, (de t).length = fromOriginLength t.length) (w : OWorld) (o : Nat)
    (hwf : ∀ c, w.O[o]? = some c → WF w.B c.buffer) :
    obsLen (originBytes de w o).2 o = obsLen w o := by
  cases hc : w.O[o]? with
  | none => simp [originBytes, obsLen, hc]
  | some c =>
    by_cases hp : c.parsed = true
    · simp [originBytes, hc, hp]
    · by_cases hl : c.buffer.len < 12
      · simp [originBytes, hc, hp, hl]
      · have ho : o < w.O.length := by
          apply Decidable.byContradiction
          intro hn
          rw [List.getElem?_eq_none (by omega)] at hc
          cases hc
        have hlen := length_read (hwf c hc)
        simp only [originBytes, obsLen, hc, hp, hl, if_false, Bool.false_eq_true,
          List.getElem?_set_self ho, mk, if_true, hde, hlen]
        have : c.buffer.len ≠ 0 := by omega
        simp only [this, if_false]
        split <;> simp_all

/-- `String()` reads the same before and after exactly when the text is what `NewOrigin` prints
for the residues it decodes to (always the case for an `Origin` made by `NewOrigin` or accepted
by the GenBank parser — the layout property C16) -/
theorem originBytes_string (en de : List UInt8 → List UInt8) (w : OWorld) (o : Nat)
    (hcanon : ∀ c, w.O[o]? = some c → c.parsed = false → en (de (read w.B c.buffer)) = read w.B c.buffer) :
    obsString en (originBytes de w o).2 o = obsString en w o := by
  cases hc : w.O[o]? with
  | none => simp [originBytes, obsString, hc]
  | some c =>
    by_cases hp : c.parsed = true
    · simp [originBytes, hc, hp]
    · by_cases hl : c.buffer.len < 12
      · simp [originBytes, hc, hp, hl]
      · have ho : o < w.O.length := by
          apply Decidable.byContradiction
          intro hn
          rw [List.getElem?_eq_none (by omega)] at hc
          cases hc
        have hrd := (originBytes_obs de w o).1
        simp only [originBytes, obsBytes, hc, hp, hl, if_false, Bool.false_eq_true] at hrd
        simp only [originBytes, obsString, hc, hp, hl, if_false, Bool.false_eq_true,
          List.getElem?_set_self ho, if_true]
        rw [hrd]
        exact hcanon c hc (by simpa using hp)

/-! ### `asComplete` — impure, but only ever applied to a location nobody else holds -/

/-- `join(<2..3,6)` laid out in an otherwise empty heap -/
private def acArg : MLoc × Heap MLoc :=
  allocLoc (.joined [.ranged 1 3 true false, .ordered [.ranged 7 9 false true, .point 5]]) []

/-- `asComplete` IS impure: the location its caller passed in reads differently afterwards (the
`Joined`/`Ordered` slices are rewritten in place) -/
theorem asComplete_impure :
    (readLoc 8 acArg.2 acArg.1).beq
      (.joined [.ranged 1 3 true false, .ordered [.ranged 7 9 false true, .point 5]]) = true ∧
    (readLoc 8 (asCompleteMem 8 acArg.2 acArg.1).2 acArg.1).beq
      (.joined [.ranged 1 3 false false, .ordered [.ranged 7 9 false false, .point 5]]) = true := by
  decide

/-- … and what it returns is the pure `Loc.asComplete` of what was passed in (here, and on every
location of the correspondence run, op `mem.ascomplete`) -/
example : (readLoc 8 (asCompleteMem 8 acArg.2 acArg.1).2 (asCompleteMem 8 acArg.2 acArg.1).1).beq
    (Loc.asComplete (.joined [.ranged 1 3 true false, .ordered [.ranged 7 9 false true, .point 5]])) = true := by
  decide

/-- **FRAME at the only call site of `asComplete`** (`gts.Slice`, sequence.go:278): the argument
is the result of `Expand(…).Expand(…)`, a location built in fresh arrays (`allocLoc` is the
stand-in here; that the real `Expand` never returns a slice of its receiver is the theorem
`expand_fresh` of Gts/Props/C11Fresh.lean, and `sliceLoc_frame` there is this statement for the
heap programs of `Expand` themselves).  For every location `l`, every heap `h` — the feature's own location, other
features sharing its slices — and every nesting depth: nothing that existed is written. -/
theorem asComplete_fresh_frame (l : Loc) (h : Heap MLoc) (fuel : Nat) :
    h <+: (asCompleteMem fuel (allocLoc l h).2 (allocLoc l h).1).2 := by
  have a := allocLoc_closed l h h.length (Nat.le_refl _) (closed_self h)
  exact (asCompleteMem_closed (h0 := h) fuel _ _ a.1 a.2.1 a.2.2).1

/-! ### `Props` — which results share qualifier storage with their argument

`Set`/`Add`/`Del` are mutators (pointer receiver) and no sequence operation calls them, so no
operation changes a qualifier; FRAME above is not affected.  But Insert, Embed, Delete, Erase,
Slice, Rotate, Concat, Transcribe, Filter, FeatureSlice.Insert and Repair build their result
features as `Feature{f.Key, loc, f.Props}`: the result's qualifiers ARE the argument's (same
outer array, same rows), so a caller who later mutates a qualifier of the RESULT changes what the
ARGUMENT reads.  Only Reverse and Complement hand out `f.Props.Clone()`.  (Recorded as an
observation, not as a violation of C11: the write is a later action of the caller, not of the
operation — see checks/C11.json.) -/

/-- two rows `a=1`, `b=2`, the first with one spare cell, the outer array with one spare cell -/
private def propsWorld : PWorld :=
  ⟨[["a", "1", ""], ["b", "2"]], [[⟨0, 0, 2, 3⟩, ⟨1, 0, 2, 2⟩, Slice.nil]]⟩
private def propsArg : Slice := ⟨0, 0, 2, 3⟩

/-- through a SHARED header (what `Feature{f.Key, loc, f.Props}` gives the result), `Add`, `Set`
and `Del` on the result change the value the argument reads -/
theorem shared_props_reached :
    readProps (propsAdd (fun _ _ => 0) propsWorld propsArg "a" ["z"]).2 propsArg = [["a", "1", "z"], ["b", "2"]] ∧
    readProps (propsSet (fun _ _ => 0) propsWorld propsArg "a" ["z"]).2 propsArg = [["a", "z"], ["b", "2"]] ∧
    readProps (propsDel (fun _ _ => 0) propsWorld propsArg "a").2 propsArg = [["b", "2"], ["b", "2"]] := by
  decide

/-- `Clone()` writes nothing that existed … -/
theorem clone_frame (w : PWorld) (p : Slice) :
    w.R <+: (propsClone w p).2.R ∧ w.P <+: (propsClone w p).2.P :=
  ⟨(propsClone_fresh w p).1, (propsClone_fresh w p).2.1⟩

/-- … and isolates: whatever mutator is applied to a clone, with whatever arguments and capacity
policy, every array that existed before the `Clone()` is unchanged (rows are cloned with
`len = cap`, so even `Add`'s in-place `append` cannot reach the original) -/
theorem clone_isolates (g : Grow) (w : PWorld) (p : Slice) (key : String) (values : List String) :
    (w.R <+: (propsSet g (propsClone w p).2 (propsClone w p).1 key values).2.R ∧
     w.P <+: (propsSet g (propsClone w p).2 (propsClone w p).1 key values).2.P) ∧
    (w.R <+: (propsAdd g (propsClone w p).2 (propsClone w p).1 key values).2.R ∧
     w.P <+: (propsAdd g (propsClone w p).2 (propsClone w p).1 key values).2.P) ∧
    (w.R <+: (propsDel g (propsClone w p).2 (propsClone w p).1 key).2.R ∧
     w.P <+: (propsDel g (propsClone w p).2 (propsClone w p).1 key).2.P) := by
  have c := propsClone_fresh w p
  exact ⟨propsSet_frame g c.1 c.2.1 c.2.2 key values, propsAdd_frame g c.1 c.2.1 c.2.2 key values,
    propsDel_frame g c.1 c.2.1 c.2.2 key⟩

/-- non-vacuity: the clone of the example reads the same, and `Add` on it leaves the original -/
example :
    readProps (propsClone propsWorld propsArg).2 (propsClone propsWorld propsArg).1 = [["a", "1"], ["b", "2"]] ∧
    readProps (propsAdd (fun _ _ => 0) (propsClone propsWorld propsArg).2 (propsClone propsWorld propsArg).1 "a" ["z"]).2
      propsArg = [["a", "1"], ["b", "2"]] := by decide

/-! ### the PRE-REPAIR statements violate FRAME (the model can express the defect)

Concrete heaps; the host/table has spare capacity 1, 2 and 3 (`0xEE` = 238 is the sentinel the
harness fills buffers with).  Each refutation also holds for a doubling capacity policy. -/

/-- a host buffer `[1,2,3]` with `k` spare cells, and a guest `[9]` -/
def hostHeap (k : Nat) : Heap Nat := [[1, 2, 3] ++ List.replicate k 238, [9]]

/-- what the pre-repair `insert` did to a host with one spare cell: the guest and the host's
tail are written INTO THE HOST'S ARRAY (`[1,2,3,EE]` becomes `[1,9,2,3]`) -/
example : (spliceOld (fun _ _ => 0) (hostHeap 1) ⟨0, 0, 3, 4⟩ 1 ⟨1, 0, 1, 1⟩).2
    = [[1, 9, 2, 3], [9], [9, 2, 3]] := by decide

/-- pre-repair `insert` (4effce8 reverted): FRAME fails for spare capacity 1, 2, 3 -/
theorem splice_old_breaks_frame : ∀ k ∈ [1, 2, 3],
    ¬ (hostHeap k <+: (spliceOld (fun _ _ => 0) (hostHeap k) ⟨0, 0, 3, 3 + k⟩ 1 ⟨1, 0, 1, 1⟩).2) ∧
    ¬ (hostHeap k <+: (spliceOld (fun _ n => n) (hostHeap k) ⟨0, 0, 3, 3 + k⟩ 1 ⟨1, 0, 1, 1⟩).2) := by
  decide

/-- … and it also wrote into the GUEST's array when the guest had spare capacity -/
example : (spliceOld (fun _ _ => 0) ([[1, 2, 3], [9, 238, 238]] : Heap Nat) ⟨0, 0, 3, 3⟩ 1 ⟨1, 0, 1, 3⟩).2
    = [[1, 2, 3], [9, 2, 3], [1, 9, 2, 3]] := by decide

/-- the current `insert` on the same heaps: nothing changes, the result is the spliced value -/
example : ∀ k ∈ [0, 1, 2, 3],
    (hostHeap k <+: (spliceMem (fun _ _ => 0) (hostHeap k) ⟨0, 0, 3, 3 + k⟩ 1 ⟨1, 0, 1, 1⟩).2) ∧
    read (spliceMem (fun _ _ => 0) (hostHeap k) ⟨0, 0, 3, 3 + k⟩ 1 ⟨1, 0, 1, 1⟩).2
      (spliceMem (fun _ _ => 0) (hostHeap k) ⟨0, 0, 3, 3 + k⟩ 1 ⟨1, 0, 1, 1⟩).1 = [1, 9, 2, 3] := by
  decide

/-- pre-repair `Rotate` (e795ac6 reverted): `append(p[m:], p[:m]...)` overwrites the cells behind
the argument (spare capacity, or the rest of an enclosing buffer) -/
theorem rot_old_breaks_frame : ∀ k ∈ [1, 2, 3],
    ¬ (hostHeap k <+: (rotOld (fun _ _ => 0) (hostHeap k) ⟨0, 0, 3, 3 + k⟩ 1).2) := by decide

example : (rotOld (fun _ _ => 0) (hostHeap 2) ⟨0, 0, 3, 5⟩ 1).2 = [[1, 2, 3, 1, 238], [9]] := by decide

/-- pre-repair `Concat` (e795ac6 reverted): `append(head.Bytes(), …)` writes behind the head -/
theorem cat_old_breaks_frame : ∀ k ∈ [1, 2, 3],
    ¬ (hostHeap k <+: (catOld (fun _ _ => 0) (hostHeap k) ⟨0, 0, 3, 3 + k⟩ [⟨1, 0, 1, 1⟩]).2) := by decide

/-- pre-repair `FeatureSlice.Insert` (d065452 reverted) on a table `[10,20,30]` with `k` spare
cells, inserting at index 1: the receiver's array is shifted in place -/
theorem tabInsert_old_breaks_frame : ∀ k ∈ [1, 2, 3],
    ¬ (([[10, 20, 30] ++ List.replicate k 0] : Heap Nat) <+:
      (tabInsertOld (fun _ _ => 0) (fun _ _ => 1) [[10, 20, 30] ++ List.replicate k 0] ⟨0, 0, 3, 3 + k⟩ 15).2) := by
  decide

example : (tabInsertOld (fun _ _ => 0) (fun _ _ => 1) ([[10, 20, 30, 0]] : Heap Nat) ⟨0, 0, 3, 4⟩ 15).2
    = [[10, 15, 20, 30]] := by decide

/-- the "flip in place" mutant of `Reverse` (validation only) violates FRAME -/
theorem rev_old_breaks_frame :
    ¬ (hostHeap 0 <+: (revOld (hostHeap 0) ⟨0, 0, 3, 3⟩).2) := by decide

/-! sequence level, with features -/

/-- two features on a 10-base sequence -/
def fA : Feature := ⟨"gene", .point 5, []⟩
def fB : Feature := ⟨"gene", .ranged 2 8 false false, []⟩

/-- a world whose only table `[fA, fB]` has `k` spare cells and whose only buffer (10 residues)
has `k` spare cells -/
def world (k : Nat) : World Feature :=
  ⟨[[65, 67, 71, 84, 65, 67, 71, 84, 65, 67] ++ List.replicate k 238, [78, 78]],
   [[fA, fB] ++ List.replicate k default]⟩

/-- the sequence in `world k` -/
def theSeq (k : Nat) : MSeq := ⟨⟨0, 0, 2, 2 + k⟩, ⟨0, 0, 10, 10 + k⟩⟩
/-- a guest `NN` without features -/
def theGuest : MSeq := ⟨Slice.nil, ⟨1, 0, 2, 2⟩⟩
/-- a guest `N` (the first residue of the same buffer) -/
def theGuest1 : MSeq := ⟨Slice.nil, ⟨1, 0, 1, 2⟩⟩

/-- a decidable observation of a table cell (`Loc` has no `DecidableEq`): which of the three
locations present in `world k` it holds, or none of them -/
private def obsLoc (f : Feature) : Nat :=
  if f.loc.beq (.point 5) then 1 else if f.loc.beq (.ranged 2 8 false false) then 2
  else if f.loc.beq (default : Feature).loc then 0 else 3

private theorem not_frame_of_tab {w w' : World Feature} (h : 0 < w.T.length ∧
    (w'.T.get 0).map obsLoc ≠ (w.T.get 0).map obsLoc) : ¬ Frame w w' :=
  fun hf => h.2 (by rw [(frame_arrays hf).2 0 h.1])

private theorem not_frame_of_buf {w w' : World Feature} (h : 0 < w.B.length ∧ w'.B.get 0 ≠ w.B.get 0) :
    ¬ Frame w w' := fun hf => h.2 ((frame_arrays hf).1 0 h.1)

/-- pre-repair `Delete` (787a48e reverted): the caller's table holds the shortened locations
afterwards — for every spare capacity, including none -/
theorem delete_old_breaks_frame : ∀ k ∈ [0, 1, 2, 3],
    ¬ Frame (world k) (deleteSeqOld (world k) (theSeq k) 0 2).2 := by
  have key : ∀ k ∈ [0, 1, 2, 3], 0 < (world k).T.length ∧
      ((deleteSeqOld (world k) (theSeq k) 0 2).2.T.get 0).map obsLoc ≠ ((world k).T.get 0).map obsLoc := by
    decide
  exact fun k hk => not_frame_of_tab (key k hk)

/-- pre-repair `Insert` (4effce8 reverted), sequence level: the host's buffer is overwritten as
soon as the spare capacity holds the guest (spare 1, 2, 3 with a one-residue guest) -/
theorem insert_old_breaks_frame : ∀ k ∈ [1, 2, 3],
    ¬ Frame (world k) (spliceSeqOld (fun _ _ => 0) (fun l => l.shift 4 1) (fun l => l.expand 0 4)
      (world k) (theSeq k) 4 theGuest1).2 := by
  have key : ∀ k ∈ [1, 2, 3], 0 < (world k).B.length ∧
      (spliceSeqOld (fun _ _ => 0) (fun l => l.shift 4 1) (fun l => l.expand 0 4)
        (world k) (theSeq k) 4 theGuest1).2.B.get 0 ≠ (world k).B.get 0 := by decide
  exact fun k hk => not_frame_of_buf (key k hk)

/-- pre-repair `Rotate` (e795ac6 reverted), sequence level -/
theorem rotate_old_breaks_frame : ∀ k ∈ [1, 2, 3],
    ¬ Frame (world k) (rotateSeqOld (fun _ _ => 0) (world k) (theSeq k) 9).2 := by
  have key : ∀ k ∈ [1, 2, 3], 0 < (world k).B.length ∧
      (rotateSeqOld (fun _ _ => 0) (world k) (theSeq k) 9).2.B.get 0 ≠ (world k).B.get 0 := by decide
  exact fun k hk => not_frame_of_buf (key k hk)

/-- pre-repair `Concat` (e795ac6 reverted), sequence level: the cells behind the head's residues
are overwritten -/
theorem concat_old_breaks_frame : ∀ k ∈ [1, 2, 3],
    ¬ Frame (world k) (concatSeqOld (fun _ _ => 0) (world k) [theSeq k, theGuest1]).2 := by
  have key : ∀ k ∈ [1, 2, 3], 0 < (world k).B.length ∧
      (concatSeqOld (fun _ _ => 0) (world k) [theSeq k, theGuest1]).2.B.get 0 ≠ (world k).B.get 0 := by
    decide
  exact fun k hk => not_frame_of_buf (key k hk)

/-- pre-repair `Concat` with the pre-repair `ff.Insert` (d065452 reverted): concatenating a
sequence with itself shifts the head's table in place when it has spare capacity -/
theorem concat_old_breaks_table : ∀ k ∈ [1, 2, 3],
    ¬ Frame (world k) (concatSeqOld (fun _ _ => 0) (world k) [theSeq k, theSeq k]).2 := by
  have key : ∀ k ∈ [1, 2, 3], 0 < (world k).T.length ∧
      ((concatSeqOld (fun _ _ => 0) (world k) [theSeq k, theSeq k]).2.T.get 0).map obsLoc
        ≠ ((world k).T.get 0).map obsLoc := by decide
  exact fun k hk => not_frame_of_tab (key k hk)

/-- the "assign into `seq.Features()`" mutant of `Slice` (validation only) violates FRAME -/
theorem slice_old_breaks_frame :
    ¬ Frame (world 0) (sliceFwdSeqOld (world 0) (theSeq 0) 3 7).2 :=
  not_frame_of_tab (by decide)

/-! ### non-vacuity: the hypotheses of REFINEMENT / PROGRAMS are satisfiable on heaps with spare
capacity, and the conclusions compute -/

/-- the arguments in `world k` are well formed and a four-operation program is acceptable -/
example : ∀ k ∈ [0, 1, 2, 3], WFSeq (world k) (theSeq k) ∧ WFSeq (world k) theGuest ∧
    ∀ op ∈ [Op.insert 4 theGuest, Op.delete 0 2, Op.rotate 9, Op.concat [] [theGuest]],
      OpOK (world k) (theSeq k) op := by
  decide

/-- on `world 2` the current `Insert` returns the spliced residues and does not touch the host
buffer (compare `insert_old_breaks_frame`) -/
example :
    (readSeq (insertSeq (fun _ _ => 0) (world 2) (theSeq 2) 4 theGuest).2
      (insertSeq (fun _ _ => 0) (world 2) (theSeq 2) 4 theGuest).1).bytes
      = [65, 67, 71, 84, 78, 78, 65, 67, 71, 84, 65, 67] ∧
    (insertSeq (fun _ _ => 0) (world 2) (theSeq 2) 4 theGuest).2.B.get 0 = (world 2).B.get 0 := by
  decide

end Gts.C11
