/-
  C18 at the CLI step — `gts search` (second lean target of C18; a module of its own so that a change of
  cmd/gts/search.go does not stop the checks that import Props/C18.lean — C05 — from building).
  Property theorems only, namespace `Gts.C18`; helper lemmas: Gts/Lemmas/CmdSearch.lean.
-/
import Gts.Props.C18
import Gts.Bridge.CmdSearch
namespace Gts.C18
open Gts Gts.Reg Gts.Nuc Gts.Iupac

/-! ## the CLI glue: `gts search`

`Gts.Gen.searchStep` is the scan-loop body of cmd/gts/search.go, regenerated on every run (go2lean/cmdsteps.go): per query
the hits of `Match` (`-e`: `Search`) on the record and — unless `--no-complement` — on its reverse complement, one
feature each; `Gts/Bridge/CmdSearch.lean` proves it equal to `Cli.searchStep` for every input.  The theorems below say
what the COMMAND reports, in the terms of `search_sound` / `search_complete` / `match_sound`. -/

/-- **`gts search`, the command as written, adds exactly the hits**: one record is written, its residues are those of
the input, and its table is a permutation of the input table followed by — per query, in order — one feature per
segment the matcher reports on the record and (unless `--no-complement`) one per segment it reports on the reverse
complement.  No feature of the record is lost or altered; `gts.Range` and the `.(gts.Ranged)` assertion never panic. -/
theorem search_cli_step (key : String) (exact nocomplement : Bool) (queries : List Seq) (props : Props) (s : Seq) :
    ∃ out, Gen.searchStep key exact nocomplement queries props s = some [out] ∧ out.bytes = s.bytes ∧
      out.feats.Perm (s.feats ++ queries.flatMap (Cli.searchHits exact nocomplement key props s)) :=
  ⟨_, Bridge.searchStep_eq key exact nocomplement queries props s, rfl, Cli.searchStep_perm _ _ _ _ _ _⟩

/-- **Soundness of `gts search -e`**: every feature of the written record is a feature of the input record, or a
forward range `[i, i+|q|)` at which a query `q` OCCURS (case folded), or — unless `--no-complement` —
`complement([L−i−|q|, L−i))` for an offset `i` at which `q` occurs in the reverse complement of the residues; the
added features carry the `-k` key and the `-q` qualifiers. -/
theorem search_cli_step_sound (key : String) (nocomplement : Bool) (queries : List Seq) (props : Props) (s out : Seq)
    (h : Gen.searchStep key true nocomplement queries props s = some [out]) :
    ∀ f ∈ out.feats, f ∈ s.feats ∨
      (∃ q ∈ queries, ∃ i : Nat, Occurs s.bytes q.bytes i ∧
        f = ⟨key, .ranged (i : Int) ((i + q.bytes.length : Nat) : Int) false false, props⟩) ∨
      (nocomplement = false ∧ ∃ q ∈ queries, ∃ i : Nat,
        Occurs ((s.bytes.map complementByte).reverse) q.bytes i ∧
        f = ⟨key, .compl (.ranged (s.len - ((i + q.bytes.length : Nat) : Int)) (s.len - (i : Int)) false false), props⟩) := by
  obtain ⟨out', h', _, hperm⟩ := search_cli_step key true nocomplement queries props s
  rw [h] at h'
  obtain rfl : out = out' := by simpa using h'
  intro f hf
  rcases List.mem_append.1 (hperm.mem_iff.1 hf) with hf | hf
  · exact Or.inl hf
  obtain ⟨q, hq, hfq⟩ := List.mem_flatMap.1 hf
  rcases List.mem_append.1 hfq with hfq | hfq
  · obtain ⟨sg, hsg, rfl⟩ := List.mem_map.1 hfq
    obtain ⟨i, rfl, hocc⟩ := search_sound s.bytes q.bytes sg (by simpa [Cli.matcher, Cli.seqSearch] using hsg)
    exact Or.inr (Or.inl ⟨q, hq, i, hocc, rfl⟩)
  · cases nocomplement
    · simp only [Bool.false_eq_true, if_false] at hfq
      obtain ⟨sg, hsg, rfl⟩ := List.mem_map.1 hfq
      obtain ⟨i, rfl, hocc⟩ := search_sound (Cli.revcompOf s).bytes q.bytes sg
        (by simpa [Cli.matcher, Cli.seqSearch] using hsg)
      exact Or.inr (Or.inr ⟨rfl, q, hq, i, hocc, rfl⟩)
    · simp at hfq

/-- **Completeness of `gts search -e`**: for every non-empty query, EVERY occurrence in the record — overlapping ones
included — is reported as a forward feature, and unless `--no-complement` every occurrence in the reverse complement
as a complement-strand feature. -/
theorem search_cli_step_complete (key : String) (nocomplement : Bool) (queries : List Seq) (props : Props) (s out : Seq)
    (h : Gen.searchStep key true nocomplement queries props s = some [out])
    (q : Seq) (hq : q ∈ queries) (hne : q.bytes ≠ []) (i : Nat) :
    (Occurs s.bytes q.bytes i →
      (⟨key, .ranged (i : Int) ((i + q.bytes.length : Nat) : Int) false false, props⟩ : Feature) ∈ out.feats) ∧
    (nocomplement = false → Occurs ((s.bytes.map complementByte).reverse) q.bytes i →
      (⟨key, .compl (.ranged (s.len - ((i + q.bytes.length : Nat) : Int)) (s.len - (i : Int)) false false), props⟩ : Feature)
        ∈ out.feats) := by
  obtain ⟨out', h', _, hperm⟩ := search_cli_step key true nocomplement queries props s
  rw [h] at h'
  obtain rfl : out = out' := by simpa using h'
  constructor
  · intro hocc
    refine hperm.mem_iff.2 (List.mem_append.2 (Or.inr (List.mem_flatMap.2 ⟨q, hq, List.mem_append.2 (Or.inl ?_)⟩)))
    exact List.mem_map.2 ⟨toSeg q.bytes.length i,
      by simpa [Cli.matcher, Cli.seqSearch] using search_complete s.bytes q.bytes hne i hocc, rfl⟩
  · intro hnc hocc
    subst hnc
    refine hperm.mem_iff.2 (List.mem_append.2 (Or.inr (List.mem_flatMap.2 ⟨q, hq, List.mem_append.2 (Or.inr ?_)⟩)))
    simp only [Bool.false_eq_true, if_false]
    exact List.mem_map.2 ⟨toSeg q.bytes.length i,
      by simpa [Cli.matcher, Cli.seqSearch] using search_complete (Cli.revcompOf s).bytes q.bytes hne i hocc, rfl⟩

/-- **Soundness of `gts search` (IUPAC matching, no `-e`)**: every added feature sits on a window that the query
MATCHES position by position (`MatchesAt`), on the record or on its reverse complement. -/
theorem match_cli_step_sound (key : String) (nocomplement : Bool) (queries : List Seq) (props : Props) (s out : Seq)
    (h : Gen.searchStep key false nocomplement queries props s = some [out]) :
    ∀ f ∈ out.feats, f ∈ s.feats ∨
      (∃ q ∈ queries, ∃ i : Nat, MatchesAt s.bytes q.bytes i ∧
        f = ⟨key, .ranged (i : Int) ((i + q.bytes.length : Nat) : Int) false false, props⟩) ∨
      (nocomplement = false ∧ ∃ q ∈ queries, ∃ i : Nat,
        MatchesAt ((s.bytes.map complementByte).reverse) q.bytes i ∧
        f = ⟨key, .compl (.ranged (s.len - ((i + q.bytes.length : Nat) : Int)) (s.len - (i : Int)) false false), props⟩) := by
  obtain ⟨out', h', _, hperm⟩ := search_cli_step key false nocomplement queries props s
  rw [h] at h'
  obtain rfl : out = out' := by simpa using h'
  intro f hf
  rcases List.mem_append.1 (hperm.mem_iff.1 hf) with hf | hf
  · exact Or.inl hf
  obtain ⟨q, hq, hfq⟩ := List.mem_flatMap.1 hf
  rcases List.mem_append.1 hfq with hfq | hfq
  · obtain ⟨sg, hsg, rfl⟩ := List.mem_map.1 hfq
    obtain ⟨i, rfl, hocc⟩ := match_sound s.bytes q.bytes sg (by simpa [Cli.matcher, Cli.seqMatch] using hsg)
    exact Or.inr (Or.inl ⟨q, hq, i, hocc, rfl⟩)
  · cases nocomplement
    · simp only [Bool.false_eq_true, if_false] at hfq
      obtain ⟨sg, hsg, rfl⟩ := List.mem_map.1 hfq
      obtain ⟨i, rfl, hocc⟩ := match_sound (Cli.revcompOf s).bytes q.bytes sg
        (by simpa [Cli.matcher, Cli.seqMatch] using hsg)
      exact Or.inr (Or.inr ⟨rfl, q, hq, i, hocc, rfl⟩)
    · simp at hfq

/-- non-vacuity: `gts search -e @ac` on `ACGT`: one forward hit at 0 and one hit `ac` at offset 0 of the reverse
complement `ACGT` (the sequence is its own reverse complement), reported as `complement(3..4)` -/
example : ∃ out, Gen.searchStep "misc_feature" true false [⟨[], [97, 99]⟩] [] ⟨[], [65, 67, 71, 84]⟩ = some [out] ∧
    (⟨"misc_feature", .ranged ((0 : Nat) : Int) ((0 + 2 : Nat) : Int) false false, []⟩ : Feature) ∈ out.feats ∧
    (⟨"misc_feature", .compl (.ranged (4 - ((0 + 2 : Nat) : Int)) (4 - ((0 : Nat) : Int)) false false), []⟩ : Feature) ∈ out.feats := by
  refine ⟨_, Bridge.searchStep_eq _ _ _ _ _ _, ?_⟩
  have := search_cli_step_complete "misc_feature" false [⟨[], [97, 99]⟩] [] ⟨[], [65, 67, 71, 84]⟩ _
    (Bridge.searchStep_eq _ _ _ _ _ _) ⟨[], [97, 99]⟩ (by simp) (by simp) 0
  exact ⟨this.1 (by decide +kernel), this.2 rfl (by decide +kernel)⟩

/-- non-vacuity of `match_cli_step_sound`: `gts search @rn` on `cgtAC` (IUPAC matching): the hypothesis holds for the
record the command writes, and the window `AC` at 3 is one the query matches -/
example : Gen.searchStep "misc_feature" false true [⟨[], [114, 110]⟩] [] ⟨[], [99, 103, 116, 65, 67]⟩ =
      some [Cli.searchStep false true "misc_feature" [] [⟨[], [114, 110]⟩] ⟨[], [99, 103, 116, 65, 67]⟩] ∧
    MatchesAt [99, 103, 116, 65, 67] [114, 110] 3 :=
  ⟨Bridge.searchStep_eq _ _ _ _ _ _, by decide⟩

example : Occurs [65, 67, 71, 84] [97, 99] 0 ∧ Occurs (([65, 67, 71, 84] : List UInt8).map complementByte).reverse [97, 99] 0 := by
  decide +kernel

end Gts.C18
