/-
  C19 — feature selection and sorted insertion behave as documented for every table.
  Property theorems only (helper lemmas live in Gts/Lemmas/Select.lean and Gts/Lemmas/Order.lean;
  the declarative selector grammar in Gts/Spec/Selector.lean).

  Findings (known_findings.json):
  * F8    (fixed in /repo 76e7391) an *unnamed* selector clause used to test the qualifier
          **names** as well (`/=note` accepted every feature with a `note` qualifier).  On the
          repaired code `selector_spec` holds at full strength.
  * K19B  `Or()` with no filters is `TrueFilter` (pinned by TestFeatureFilter), not the neutral
          element of `Or`.  `or_spec_full_refuted`, `or_spec_partial`.
  `LocationLess` turned out to be a strict weak order on **all** locations (no guard needed).
-/
import Gts.Lemmas.Select
import Gts.Lemmas.LessOrder
import Gts.Lemmas.SelectEsc
import Gts.Bridge.FeatSelector
import Gts.Bridge.CmdSelect
import Gts.Bridge.CmdSort
namespace Gts.C19
open Gts Loc SelSpec

/-! ## selectors -/

/-- A selector errs exactly when one of its clauses carries an invalid regexp
(selector strings without backslash). -/
theorem selector_error_iff (valid : String → Bool) (mtch : String → String → Bool) (s : String)
    (hs : '\\' ∉ s.toList) :
    selector valid mtch s = none ↔ ∃ c ∈ clauses s, valid c.2 = false := by
  unfold selector
  rw [parseSelector_spec s hs]
  have h := compile_fold valid mtch (clauses s) (keyF (key s))
  constructor
  · intro hn
    apply Classical.byContradiction
    intro hne
    have hall : ∀ c ∈ clauses s, valid c.2 = true := by
      intro c hc
      cases hv : valid c.2 with
      | true => rfl
      | false => exact absurd ⟨c, hc, hv⟩ hne
    obtain ⟨g, hg, _⟩ := h.2 hall
    simp only [Selector.compile] at hn
    rw [hn] at hg; cases hg
  · intro he; exact h.1 he

/-- **The selection clause of C19.**  For every selector string without backslash, every regexp
oracle and every feature (with `Props` as `Props.Add` builds them), `Selector(s)` accepts the
feature iff the key (when given) is equal and every clause of the grammar
`[key][/[name][=regexp]]...` is satisfied — named: some value of that qualifier matches the
regexp (any value when the regexp is empty); unnamed: some value of any qualifier matches. -/
theorem selector_spec (valid : String → Bool) (mtch : String → String → Bool) (s : String)
    (hs : '\\' ∉ s.toList) (flt : Filter) (hflt : selector valid mtch s = some flt)
    (f : Feature) (hwf : wfProps f.props) :
    flt f = true ↔ accepts mtch s f := by
  unfold selector at hflt
  rw [parseSelector_spec s hs] at hflt
  have h := compile_fold valid mtch (clauses s) (keyF (key s))
  have hall : ∀ c ∈ clauses s, valid c.2 = true := by
    intro c hc
    cases hv : valid c.2 with
    | true => rfl
    | false =>
      have := h.1 ⟨c, hc, hv⟩
      simp only [Selector.compile] at hflt
      rw [this] at hflt; cases hflt
  obtain ⟨g, hg, hgf⟩ := h.2 hall
  simp only [Selector.compile] at hflt
  rw [hg] at hflt
  cases hflt
  rw [hgf f, Bool.and_eq_true, keyF_iff, List.all_eq_true]
  unfold accepts
  constructor
  · rintro ⟨h1, h2⟩
    exact ⟨h1, fun c hc => (qualEval_iff mtch c f hwf).mp (h2 c hc)⟩
  · rintro ⟨h1, h2⟩
    exact ⟨h1, fun c hc => (qualEval_iff mtch c f hwf).mpr (h2 c hc)⟩

/-- the witness of the repaired defect F8 (an unnamed clause used to match qualifier *names*):
`/=note` on a `gene` feature whose only qualifier is `note="x"` is now rejected, as the
property demands -/
example :
    (selector (fun _ => true) (fun q w => q == w) "/=note").map
        (fun p => p ⟨"gene", ranged 0 3 false false, [["note", "x"]]⟩) = some false ∧
      ¬ accepts (fun q w => q == w) "/=note" ⟨"gene", ranged 0 3 false false, [["note", "x"]]⟩ := by
  decide

/-- non-vacuity: a three-clause selector with trailing slash on a multi-valued feature meets
all hypotheses of `selector_spec`, compiles, and is accepted on both sides -/
example :
    let m : String → String → Bool := fun q w => q == w
    let f : Feature := ⟨"CDS", point 3, [["gene", "thrL", "b"], ["note", "a=b"]]⟩
    '\\' ∉ "CDS/gene=b/note=a=b/=thrL/".toList ∧ wfProps f.props ∧
      (selector (fun _ => true) m "CDS/gene=b/note=a=b/=thrL/").map (fun p => p f) = some true ∧
      accepts m "CDS/gene=b/note=a=b/=thrL/" f ∧
      clauses "CDS/gene=b/note=a=b/=thrL/" = [("gene", "b"), ("note", "a=b"), ("", "thrL")] := by
  decide

/-- the reading of a trailing `/`: `"gene/"` has no clause, `"gene//"` has the one clause `""` -/
example : clauses "gene/" = [] ∧ clauses "gene//" = [("", "")] ∧ key "gene//" = "gene" := by decide

/-- outside `wfProps` (rows that `Props.Add` cannot build) the code deviates from the reading
"some value of that qualifier": `Get` only sees the first row of a repeated name, and `Has`
accepts a row without values. -/
example :
    let m : String → String → Bool := fun q w => q == w
    let v : String → Bool := fun _ => true
    (selector v m "/note=b").map (fun p => p ⟨"gene", point 0, [["note", "a"], ["note", "b"]]⟩)
        = some false ∧
      accepts m "/note=b" ⟨"gene", point 0, [["note", "a"], ["note", "b"]]⟩ ∧
    (selector v m "/pseudo").map (fun p => p ⟨"gene", point 0, [["pseudo"]]⟩) = some true ∧
      ¬ accepts m "/pseudo" ⟨"gene", point 0, [["pseudo"]]⟩ := by
  decide

/-! ## selectors with backslashes; qualifier tables as they are

`SelSpec.escSplit bs sl` (`Gts/Spec/SelectorEsc.lean`) is the declarative split: a separator splits
unless the TEXT in front of it ends in a backslash followed by zero or more slashes; nothing is
removed from the segments.  `selectorSegments` = the segments, a trailing empty one behind the key
dropped (`for tail != ""`).  /repo documents no escape convention (neither the doc comment of
`Selector` nor the man pages); what the code does differs from the conventional reading "a `/`
immediately preceded by a backslash does not split" exactly on strings containing `\//`, backslashes
do not pair (`\\/` does not split either) and are never removed. -/

/-- **the split with escapes, every byte string**: the key `shiftSelector` returns and the parts the
loop `for tail != ""` of `Selector` goes through (`selectorParts`, iterating `shiftSelector`) are the
segments of the declarative split -/
theorem selector_parts_spec (s : Pars.Bytes) :
    (shiftSelectorB s).1 :: selectorParts ((shiftSelectorB s).2.length + 1) (shiftSelectorB s).2 =
      selectorSegments (92 : UInt8) 47 s := selectorParts_segments s

/-- **… for the code AS IT IS WRITTEN NOW** (`Gts.Gen.selector`, regenerated from feature.go on every
run; `Key` / `And` / `FalseFilter` / `Qualifier` abstract): for every byte string `Selector` never
panics, applies `Key` to the first segment of the declarative split and folds `And(·, Qualifier(name,
regexp))` over the further segments in order (each split at its first `=`), the first error ending it -/
theorem gen_selector_segments {φ ε : Type} (key : Pars.Bytes → φ) (false_ : φ) (and_ : φ → φ → φ)
    (qual : Pars.Bytes → Pars.Bytes → φ × Option ε) (s : Pars.Bytes) (fuel : Nat) (h : s.length ≤ fuel) :
    ∃ k parts, selectorSegments (92 : UInt8) 47 s = k :: parts ∧
      Gen.selector fuel key false_ and_ qual s = some (Bridge.selectorGo false_ and_ qual parts (key k)) :=
  ⟨_, _, (selector_parts_spec s).symm, Bridge.selector_eq key false_ and_ qual s fuel h⟩

/-- **reassembly, one way**: the segments of ANY string, joined by single slashes, are the string -/
theorem selector_split_join (s : Pars.Bytes) : joinSep 47 (escSplit (92 : UInt8) 47 s) = s := by
  rw [escSplit_eq (92 : UInt8) 47 (by decide), joinSep_splitSt]; rfl

/-- **reassembly, the other way**: joining parts by single slashes and splitting gives the parts
back, provided every part is `sealed` (decidable): it holds no separator of its own and does not end
in a backslash followed by slashes -/
theorem selector_join_split_partial (ps : List Pars.Bytes) (hne : ps ≠ [])
    (hs : ∀ p ∈ ps, sealed (92 : UInt8) 47 p = true) :
    escSplit (92 : UInt8) 47 (joinSep 47 ps) = ps := by
  rw [escSplit_eq (92 : UInt8) 47 (by decide)]
  exact splitSt_joinSep (92 : UInt8) 47 (by decide) ps hne hs

/-- FULL STATEMENT of the escape round trip (false on the model, and on the code): "writing a
backslash in front of every slash of every part, joining and splitting gives the escaped parts
back".  Witness: the parts `a/` and `b` — `a\//b` is ONE segment, the separator behind an escaped
slash is swallowed (a part that ends in a slash cannot be followed by another part). -/
theorem selector_escape_full_refuted :
    ¬ (∀ ps : List Pars.Bytes, ps ≠ [] →
        escSplit (92 : UInt8) 47 (joinSep 47 (ps.map (escapeSep 92 47))) = ps.map (escapeSep 92 47)) := by
  intro h
  have := h [[97, 47], [98]] (by decide)
  revert this
  decide

/-- **escape round trip**: for parts none of which ends in a slash or a backslash, writing a
backslash in front of every slash, joining by slashes and splitting gives the escaped parts back
(the backslashes stay: nothing un-escapes a key or a qualifier name) -/
theorem selector_escape_partial (ps : List Pars.Bytes) (hne : ps ≠ [])
    (hl : ∀ p ∈ ps, p.getLast? ≠ some 92 ∧ p.getLast? ≠ some 47) :
    escSplit (92 : UInt8) 47 (joinSep 47 (ps.map (escapeSep 92 47))) = ps.map (escapeSep 92 47) := by
  apply selector_join_split_partial _ (by simpa using hne)
  intro p hp
  obtain ⟨q, hq, rfl⟩ := List.mem_map.mp hp
  exact sealed_escapeSep (92 : UInt8) 47 (by decide) q (hl q hq).1 (hl q hq).2

/-- FULL STATEMENT of the conventional reading (false on the model, and on the code): "a `/` splits
unless it is immediately preceded by a backslash".  Witness `\//`: the conventional reading yields
the segments `\/` and `` (empty), the code one segment `\//`. -/
theorem selector_intent_full_refuted :
    ¬ (∀ s : Pars.Bytes, escSplit (92 : UInt8) 47 s = intentSplit 92 47 s) := by
  intro h
  have := h [92, 47, 47]
  revert this
  decide

/-- **the conventional reading holds on every string that does not contain `\//`** — two
backslashes included: in `a\\/b` the slash does not split under either reading -/
theorem selector_intent_partial (s : Pars.Bytes) (h : hasSticky (92 : UInt8) 47 s = false) :
    escSplit (92 : UInt8) 47 s = intentSplit 92 47 s :=
  escSplit_intent (92 : UInt8) 47 (by decide) s h

/-- non-vacuity and the three peculiarities: `gene\/x/note=a\/b/` has the key `gene\/x` (backslash
kept) and the one clause `note=a\/b`; `a\\/b` is one segment; `a\//b` is one segment; sealed parts;
an escapable list of parts -/
example :
    selectorSegments (92 : UInt8) 47 "gene\\/x/note=a\\/b/".toUTF8.toList =
      ["gene\\/x".toUTF8.toList, "note=a\\/b".toUTF8.toList] ∧
    escSplit (92 : UInt8) 47 "a\\\\/b".toUTF8.toList = ["a\\\\/b".toUTF8.toList] ∧
    escSplit (92 : UInt8) 47 "a\\//b".toUTF8.toList = ["a\\//b".toUTF8.toList] ∧
    hasSticky (92 : UInt8) 47 "gene\\/x/note=a\\/b/".toUTF8.toList = false ∧
    (∀ p ∈ ["gene\\/x".toUTF8.toList, "note=a\\/b".toUTF8.toList, []], sealed (92 : UInt8) 47 p = true) ∧
    (∀ p ∈ ["a/b".toUTF8.toList, "c\\d".toUTF8.toList, []], p.getLast? ≠ some 92 ∧ p.getLast? ≠ some 47) := by
  decide +kernel

/-- **the syntactic half of `Selector` on strings, EVERY string** (the character-level model the
protocol op `sel.eval` answers with): key and clauses of the grammar with escapes -/
theorem parse_selector_esc (s : String) : parseSelector s = ⟨keyEsc s, clausesEsc s⟩ :=
  parseSelector_esc s

/-- without a backslash the grammar with escapes is the plain one -/
example : keyEsc "CDS/gene=b/note=a=b/=thrL/" = key "CDS/gene=b/note=a=b/=thrL/" ∧
    clausesEsc "CDS/gene=b/note=a=b/=thrL/" = clauses "CDS/gene=b/note=a=b/=thrL/" ∧
    keyEsc "gene\\/x/note=a\\/b" = "gene\\/x" ∧ clausesEsc "gene\\/x/note=a\\/b" = [("note", "a\\/b")] := by
  decide

/-- **what a clause tests on ANY qualifier table** (repeated names, rows without values — tables
`Props.Add` cannot build but a caller can; every row has a name: `props[i][0]` panics otherwise).
`/=regexp`: every value of every row, never a name.  `/name`: is there a row of that name, with or
without values.  `/name=regexp`: the values of the FIRST row of that name only — `Props.Get` — so a
later row of the same name is never looked at (the writer, since repair 7b61a9a, writes every row). -/
theorem qualifier_rows_spec (mtch : String → String → Bool) (name query : String) (f : Feature)
    (_hrows : Props.rowsOk f.props = true) :
    qualEval mtch name query f = true ↔ clauseSatRows mtch (name, query) f :=
  qualEval_rows mtch (name, query) f

/-- FULL STATEMENT of the property's reading on raw tables (false on the model, and on the code):
"a named clause is satisfied iff some value of that qualifier matches" with `valuesOf` = the values
of EVERY row of that name.  Witness `/note=b` on the rows `note=a`, `note=b`: only the first row is
read. -/
theorem selector_spec_rows_full_refuted :
    ¬ (∀ (valid : String → Bool) (mtch : String → String → Bool) (s : String) (flt : Filter),
        selector valid mtch s = some flt → ∀ f : Feature, Props.rowsOk f.props = true →
        (flt f = true ↔ accepts mtch s f)) := by
  intro h
  have hs : ∃ flt, selector (fun _ => true) (fun q w => q == w) "/note=b" = some flt ∧
      flt ⟨"gene", point 0, [["note", "a"], ["note", "b"]]⟩ = false := by
    cases hsel : selector (fun _ => true) (fun q w => q == w) "/note=b" with
    | none => revert hsel; decide
    | some flt =>
      refine ⟨flt, rfl, ?_⟩
      have : (selector (fun _ => true) (fun q w => q == w) "/note=b").map
          (fun p => p ⟨"gene", point 0, [["note", "a"], ["note", "b"]]⟩) = some false := by decide
      rw [hsel] at this
      simpa using this
  obtain ⟨flt, hflt, hf⟩ := hs
  have := (h _ _ _ flt hflt ⟨"gene", point 0, [["note", "a"], ["note", "b"]]⟩ (by decide)).mpr (by decide)
  rw [hf] at this
  cases this

/-- **The selection clause for EVERY selector string and EVERY qualifier table.**  Whatever the
string (backslashes included) and whatever the rows (as long as each has a name), `Selector(s)`
accepts the feature iff the key of the grammar with escapes is empty or equal and every clause is
satisfied in the row-by-row reading `clauseSatRows`.  On strings without backslash and tables
`Props.Add` builds this is `selector_spec`. -/
theorem selector_rows_spec (valid : String → Bool) (mtch : String → String → Bool) (s : String)
    (flt : Filter) (hflt : selector valid mtch s = some flt)
    (f : Feature) (_hrows : Props.rowsOk f.props = true) :
    flt f = true ↔ acceptsRows mtch s f := by
  unfold selector at hflt
  rw [parseSelector_esc s] at hflt
  have h := compile_fold valid mtch (clausesEsc s) (keyF (keyEsc s))
  have hall : ∀ c ∈ clausesEsc s, valid c.2 = true := by
    intro c hc
    cases hv : valid c.2 with
    | true => rfl
    | false =>
      have := h.1 ⟨c, hc, hv⟩
      simp only [Selector.compile] at hflt
      rw [this] at hflt; cases hflt
  obtain ⟨g, hg, hgf⟩ := h.2 hall
  simp only [Selector.compile] at hflt
  rw [hg] at hflt
  cases hflt
  rw [hgf f, Bool.and_eq_true, keyF_iff, List.all_eq_true]
  unfold acceptsRows
  constructor
  · rintro ⟨h1, h2⟩
    exact ⟨h1, fun c hc => (qualEval_rows mtch c f).mp (h2 c hc)⟩
  · rintro ⟨h1, h2⟩
    exact ⟨h1, fun c hc => (qualEval_rows mtch c f).mpr (h2 c hc)⟩

/-- … and it errs exactly when a clause of the grammar with escapes carries an invalid regexp -/
theorem selector_error_iff_esc (valid : String → Bool) (mtch : String → String → Bool) (s : String) :
    selector valid mtch s = none ↔ ∃ c ∈ clausesEsc s, valid c.2 = false := by
  unfold selector
  rw [parseSelector_esc s]
  have h := compile_fold valid mtch (clausesEsc s) (keyF (keyEsc s))
  constructor
  · intro hn
    apply Classical.byContradiction
    intro hne
    have hall : ∀ c ∈ clausesEsc s, valid c.2 = true := by
      intro c hc
      cases hv : valid c.2 with
      | true => rfl
      | false => exact absurd ⟨c, hc, hv⟩ hne
    obtain ⟨g, hg, _⟩ := h.2 hall
    simp only [Selector.compile] at hn
    rw [hn] at hg; cases hg
  · intro he; exact h.1 he

/-- non-vacuity: an escaped selector on a raw table (a repeated name, a row without value) — accepted
on both sides; and the first-row reading: `/note=b` sees only `note=a` -/
example :
    let m : String → String → Bool := fun q w => q == w
    let f : Feature := ⟨"CDS", point 3, [["note", "a/b"], ["pseudo"], ["note", "b"]]⟩
    Props.rowsOk f.props = true ∧
    (selector (fun _ => true) m "CDS/note=a/b").map (fun p => p f) = some false ∧
    (selector (fun _ => true) m "CDS/=a\\/b/pseudo").map (fun p => p f) = some false ∧
    (selector (fun _ => true) m "CDS/=b/pseudo/note=a\\/b").map (fun p => p f) = some false ∧
    acceptsRows m "CDS/=b/pseudo" f ∧ ¬ acceptsRows m "/note=b" f ∧
    clausesEsc "CDS/=b/pseudo/note=a\\/b" = [("", "b"), ("pseudo", ""), ("note", "a\\/b")] := by
  decide

/-! ## filter combinators -/

/-- `And(fs...)` is the conjunction of its arguments — for every arity, `And()` included. -/
theorem and_spec (fs : List Filter) (f : Feature) : andF fs f = fs.all fun p => p f := by
  unfold andF
  cases fs with
  | nil => rfl
  | cons p ps => simp

/-- what the code does: `Or()` accepts everything -/
theorem or_nil (f : Feature) : orF [] f = true := rfl

/-- FULL STATEMENT (false today, known finding K19B, pinned by TestFeatureFilter `{Or(), …}`):
"`Or(fs...)` is the disjunction of its arguments".  Refuted by `Or()`. -/
theorem or_spec_full_refuted : ¬ (∀ (fs : List Filter) (f : Feature), orF fs f = fs.any fun p => p f) := by
  intro h
  have := h [] ⟨"gene", point 0, []⟩
  simp [orF, trueFilter] at this

/-- `Or(fs...)` is the disjunction of its arguments for every arity ≥ 1. -/
theorem or_spec_partial (fs : List Filter) (hne : fs ≠ []) (f : Feature) :
    orF fs f = fs.any fun p => p f := by
  unfold orF
  cases fs with
  | nil => exact absurd rfl hne
  | cons p ps => simp

/-- consequently `Or()` is not neutral: `Or(Or(), p)` is not `p` -/
theorem or_nil_not_neutral : ¬ (∀ (p : Filter) (f : Feature), orF [orF [], p] f = p f) := by
  intro h
  have := h falseFilter ⟨"gene", point 0, []⟩
  simp [orF, trueFilter, falseFilter] at this

/-- `Not` -/
theorem not_spec (p : Filter) (f : Feature) : notF p f = !p f := rfl

/-- De Morgan, for every arity ≥ 1 (at arity 0 both fail because of K19B: `Not(And())` rejects
everything while `Or()` accepts everything, and `Not(Or())` rejects while `And()` accepts). -/
theorem de_morgan_and_partial (fs : List Filter) (hne : fs ≠ []) (f : Feature) :
    notF (andF fs) f = orF (fs.map notF) f := by
  rw [or_spec_partial _ (by simpa using hne), not_spec, and_spec]
  clear hne
  induction fs with
  | nil => rfl
  | cons p ps ih => simp only [List.all_cons, List.map_cons, List.any_cons, Bool.not_and, ih, notF]

theorem de_morgan_or_partial (fs : List Filter) (hne : fs ≠ []) (f : Feature) :
    notF (orF fs) f = andF (fs.map notF) f := by
  rw [and_spec, not_spec, or_spec_partial _ hne]
  clear hne
  induction fs with
  | nil => rfl
  | cons p ps ih => simp only [List.all_cons, List.map_cons, List.any_cons, Bool.not_or, ih, notF]

theorem de_morgan_full_refuted :
    ¬ (∀ (fs : List Filter) (f : Feature), notF (andF fs) f = orF (fs.map notF) f) ∧
    ¬ (∀ (fs : List Filter) (f : Feature), notF (orF fs) f = andF (fs.map notF) f) := by
  constructor <;> intro h <;> have := h [] ⟨"gene", point 0, []⟩ <;>
    simp [notF, andF, orF, trueFilter] at this

/-- `Key(k)`: the empty key accepts everything, otherwise equality -/
theorem key_spec (k : String) (f : Feature) : keyF k f = true ↔ (k = "" ∨ f.key = k) := keyF_iff k f

/-- `Within(lo, hi)` accepts iff **every** contiguous leaf of the location lies in the bounds -/
theorem within_spec (lo hi : Int) (f : Feature) :
    withinF lo hi f = true ↔
      ∀ x ∈ leaves f.loc, rangeWithin (leafSpan x).1 (leafSpan x).2 lo hi = true :=
  within_iff_leaves f.loc lo hi

/-- `Overlap(lo, hi)` accepts iff **some** contiguous leaf of the location overlaps the bounds -/
theorem overlap_spec (lo hi : Int) (f : Feature) :
    overlapF lo hi f = true ↔
      ∃ x ∈ leaves f.loc, rangeOverlap (leafSpan x).1 (leafSpan x).2 lo hi = true :=
  overlap_iff_leaves f.loc lo hi

/-- … over the denoted residues: when every leaf denotes at least one residue and `lo ≤ hi`,
`Within(lo, hi)` accepts iff all residues the location denotes lie in `[lo, hi)`. -/
theorem within_den (lo hi : Int) (f : Feature) (hp : ProperLeaves f.loc) (hb : lo ≤ hi) :
    withinF lo hi f = true ↔ ∀ q b, (q, b) ∈ den f.loc → lo ≤ q ∧ q < hi :=
  within_iff_den f.loc lo hi hp hb

/-- … and `Overlap(lo, hi)`, `lo < hi`, accepts iff some denoted residue lies in `[lo, hi)`. -/
theorem overlap_den (lo hi : Int) (f : Feature) (hp : ProperLeaves f.loc) (hb : lo < hi) :
    overlapF lo hi f = true ↔ ∃ q b, (q, b) ∈ den f.loc ∧ lo ≤ q ∧ q < hi :=
  overlap_iff_den f.loc lo hi hp hb

/-- the strand filters exclude each other -/
theorem strand_exclusive (f : Feature) : ¬ (forwardStrand f = true ∧ reverseStrand f = true) := by
  simp only [forwardStrand, reverseStrand, beq_iff_eq]
  omega

/-- a complement is on the reverse strand, a contiguous location on the forward strand, a
multi-part location is forward iff all parts are and reverse iff it has parts and all are -/
theorem strand_spec :
    (∀ l, strand (compl l) = 2) ∧
    (∀ l, isLeaf l = true → strand l = 1) ∧
    (∀ ls, strand (joined ls) = 1 ↔ ∀ l ∈ ls, strand l = 1) ∧
    (∀ ls, strand (ordered ls) = 1 ↔ ∀ l ∈ ls, strand l = 1) ∧
    (∀ ls, strand (joined ls) = 2 ↔ ls ≠ [] ∧ ∀ l ∈ ls, strand l = 2) ∧
    (∀ ls, strand (ordered ls) = 2 ↔ ls ≠ [] ∧ ∀ l ∈ ls, strand l = 2) := by
  have hne : ∀ ls : List Loc, strands ls ≠ [] ↔ ls ≠ [] := by
    intro ls; cases ls <;> simp [strands]
  refine ⟨fun l => by simp [strand], ?_, ?_, ?_, ?_, ?_⟩
  · intro l hl
    cases l <;> simp_all [strand, isLeaf, span?]
  · intro ls
    simp only [strand, strandList_forward, mem_strands]
    exact ⟨fun h l hl => h _ ⟨l, hl, rfl⟩, fun h s ⟨l, hl, e⟩ => e ▸ h l hl⟩
  · intro ls
    simp only [strand, strandList_forward, mem_strands]
    exact ⟨fun h l hl => h _ ⟨l, hl, rfl⟩, fun h s ⟨l, hl, e⟩ => e ▸ h l hl⟩
  · intro ls
    simp only [strand, strandList_reverse, mem_strands, hne]
    exact ⟨fun ⟨h0, h⟩ => ⟨h0, fun l hl => h _ ⟨l, hl, rfl⟩⟩,
      fun ⟨h0, h⟩ => ⟨h0, fun s ⟨l, hl, e⟩ => e ▸ h l hl⟩⟩
  · intro ls
    simp only [strand, strandList_reverse, mem_strands, hne]
    exact ⟨fun ⟨h0, h⟩ => ⟨h0, fun l hl => h _ ⟨l, hl, rfl⟩⟩,
      fun ⟨h0, h⟩ => ⟨h0, fun s ⟨l, hl, e⟩ => e ▸ h l hl⟩⟩

/-- non-vacuity of the residue reading: a complemented join of two ranges -/
example : ProperLeaves (compl (joined [ranged 2 5 false true, point 7])) ∧
    withinF 2 8 ⟨"gene", compl (joined [ranged 2 5 false true, point 7]), []⟩ = true ∧
    overlapF 5 7 ⟨"gene", compl (joined [ranged 2 5 false true, point 7]), []⟩ = false := by
  refine ⟨?_, by decide, by decide⟩
  intro x hx
  simp [leaves, leavesList] at hx
  rcases hx with rfl | rfl <;> simp [leafSpan, span?]

/-! ## `FeatureSlice.Filter` -/

/-- Filtering returns exactly the accepted features, in table order, unaltered. -/
theorem filter_spec (p : Filter) (t : Table) : Table.filterTable p t = t.filter p := by
  have := Table.filterIndices_spec p t []
  simpa [Table.filterTable] using this

/-! ## the location order -/

/-- `LocationLess(a, b)` in closed form: some contiguous leaf of `a` is below every contiguous
leaf of `b`, leaves being compared by (normalised start, normalised end, number of partial
markers). -/
theorem less_iff_leaves (a b : Loc) :
    less a b = true ↔ ∃ la ∈ leaves a, ∀ lb ∈ leaves b, lexLt (nkey la) (nkey lb) := by
  rw [less_iff]
  constructor
  · rintro ⟨la, hla, h⟩
    exact ⟨la, hla, fun lb hlb =>
      (contigLess_iff (leaves_isLeaf a la hla) (leaves_isLeaf b lb hlb)).mp (h lb hlb)⟩
  · rintro ⟨la, hla, h⟩
    exact ⟨la, hla, fun lb hlb =>
      (contigLess_iff (leaves_isLeaf a la hla) (leaves_isLeaf b lb hlb)).mpr (h lb hlb)⟩

/-- `LocationLess` is irreflexive — on **every** location (any nesting, multi-leaf, even the
empty `Joined{}`), no guard. -/
theorem less_irrefl (a : Loc) : less a a = false := Loc.less_irrefl a

/-- `LocationLess` is transitive on every location. -/
theorem less_trans (a b c : Loc) (h₁ : less a b = true) (h₂ : less b c = true) :
    less a c = true := Loc.less_trans h₁ h₂

/-- `LocationLess` is asymmetric on every location. -/
theorem less_asymm (a b : Loc) (h : less a b = true) : less b a = false := Loc.less_asymm h

/-- Incomparability under `LocationLess` is transitive on every location: the order is a
strict **weak** order (which is what makes binary-search insertion well defined). -/
theorem less_incomp_trans (a b c : Loc) (hab : less a b = false) (hba : less b a = false)
    (hbc : less b c = false) (hcb : less c b = false) :
    less a c = false ∧ less c a = false := Loc.less_incomp_trans hab hba hbc hcb

/-- non-vacuity: the order is not total and not trivial — two multi-leaf locations with the
same minimal leaf are incomparable, and a join is ordered by its *minimal* leaf wherever that
leaf stands -/
example :
    less (joined [ranged 4 6 false false, ranged 1 2 false false]) (ranged 1 3 false false) = true ∧
    less (joined [ranged 1 2 false false, point 9]) (ordered [point 5, ranged 1 2 false false]) = false ∧
    less (ordered [point 5, ranged 1 2 false false]) (joined [ranged 1 2 false false, point 9]) = false ∧
    less (ranged 1 3 false false) (ranged 1 3 true false) = true := by decide

/-! ## `sort.Search` -/

/-- For a monotone predicate (`false … false true … true` on `[0, n)`) `sort.Search(n, f)`
returns the partition point. -/
theorem sortSearch_spec (n : Nat) (f : Nat → Bool) (hm : MonotoneUpTo n f) :
    sortSearch n f ≤ n ∧ (∀ k, k < sortSearch n f → f k = false) ∧
      (∀ k, sortSearch n f ≤ k → k < n → f k = true) := sortSearch_partition n f hm

/-- For an arbitrary predicate it returns some `i ≤ n` with `f i` (or `i = n`) and `¬ f (i-1)`
(or `i = 0`). -/
theorem sortSearch_any (n : Nat) (f : Nat → Bool) :
    sortSearch n f ≤ n ∧ (sortSearch n f = n ∨ f (sortSearch n f) = true) ∧
      (sortSearch n f = 0 ∨ f (sortSearch n f - 1) = false) := sortSearch_general n f

example : sortSearch 7 (fun k => decide (4 ≤ k)) = 4 ∧ sortSearch 0 (fun _ => true) = 0 ∧
    sortSearch 5 (fun _ => false) = 5 := by decide

/-! ## sorted insertion -/

/-- `Insert` returns the same features plus the new one (a permutation of `f :: t`; nothing is
altered) — for **every** table, sorted or not. -/
theorem insert_perm (t : Table) (f : Feature) : (Table.insert t f).Perm (f :: t) :=
  Table.insert_perm' t f

/-- If the table has its `source` features first, so has the table after `Insert`. -/
theorem insert_sources_first (t : Table) (f : Feature) (h : Table.Ok t) :
    ∀ g ∈ (Table.insert t f).drop (Table.sourceCount (Table.insert t f)), g.key ≠ "source" :=
  (Table.insert_ok t f h).1

/-- If moreover the non-`source` features are in non-decreasing location order (no later one is
`LocationLess` than an earlier one), so are they after `Insert`. -/
theorem insert_sorted (t : Table) (f : Feature) (h : Table.Ok t) :
    Table.NonDecreasing ((Table.insert t f).drop (Table.sourceCount (Table.insert t f))) :=
  (Table.insert_ok t f h).2

/-- The invariant over **all insertion sequences**: starting from any table that satisfies it
(in particular the empty one), every sequence of `Insert`s yields a table with the `source`
features first and all others in non-decreasing location order … -/
theorem insertAll_inv (t : Table) (fs : List Feature) (h : Table.Ok t) :
    Table.Ok (Table.insertAll t fs) := Table.insertAll_ok fs t h

theorem insertAll_inv_nil (fs : List Feature) : Table.Ok (Table.insertAll [] fs) :=
  Table.insertAll_ok fs [] Table.ok_nil

/-- … holding exactly the inserted features. -/
theorem insertAll_perm (t : Table) (fs : List Feature) :
    (Table.insertAll t fs).Perm (fs.reverse ++ t) := Table.insertAll_perm fs t

/-- non-vacuity: an insertion sequence with two sources, equal spans and a multi-leaf location;
the equal-span `CDS` lands *after* the `gene` inserted before it (insertion is stable). -/
example :
    (Table.insertAll [] [⟨"gene", ranged 1 3 false false, []⟩, ⟨"source", ranged 0 9 false false, []⟩,
        ⟨"exon", joined [ranged 4 6 false false, ranged 0 2 false false], []⟩,
        ⟨"CDS", ranged 1 3 false false, []⟩, ⟨"source", ranged 2 4 false false, []⟩]).map (·.key)
      = ["source", "source", "exon", "gene", "CDS"] := by decide

/-! ## the CLI glue: `gts select`, `gts clear`, `gts define`, `gts annotate`, `gts sort`

What the COMMANDS do with the library functions above.  `Cli.selectFilter`, `Cli.selectStep` … (Gts/Model/CliGlue.lean)
are the statements of cmd/gts/select.go …; `Gts.Gen.selectFilter`, `Gts.Gen.selectStep` … are REGENERATED from those files
on every run (go2lean/cmdsteps.go) and `Gts/Bridge/CmdSelect.lean`, `CmdSort.lean` prove them equal to the model — so the
`…_cli_step` theorems are statements about the code as it is written now. -/

/-- the strand condition `-s` asks for: `forward` = `ForwardStrand`, `reverse` = `ReverseStrand`, any other word (the
default `both`) = no condition -/
def strandOk (strand : String) (f : Feature) : Bool :=
  if strand = "forward" then forwardStrand f else if strand = "reverse" then reverseStrand f else true

/-- FULL STATEMENT (false today, known finding K19B): "a feature is kept iff (its key is `source` or (SOME selector
accepts it) ≠ `-v`) and it meets the strand condition", for every list of selectors.  With NO selector `Or()` is
`TrueFilter`: `gts select` without selectors keeps every feature (and `gts select -v` only the source features), where
"some selector accepts" is false. -/
theorem select_spec_full_refuted :
    ¬ (∀ (sels : List Filter) (invert : Bool) (strand : String) (f : Feature),
        Cli.selectFilter sels invert strand f =
          ((decide (f.key = "source") || ((sels.any fun p => p f) != invert)) && strandOk strand f)) := by
  intro h
  exact absurd (h [] false "both" ⟨"gene", .point 1, []⟩) (by decide)

/-- **the filter of `gts select`** (guard: at least one selector — K19B): a feature is kept iff
(its key is `source` ∨ (some selector accepts it) ≠ `-v`) ∧ the `-s` strand condition.  The negation of `-v` covers
the selectors only: not the `source` exemption, not the strand condition (seeded W10-1 moved the strand condition
inside it). -/
theorem select_spec_partial (sels : List Filter) (hne : sels ≠ []) (invert : Bool) (strand : String) (f : Feature) :
    Cli.selectFilter sels invert strand f =
      ((decide (f.key = "source") || ((sels.any fun p => p f) != invert)) && strandOk strand f) := by
  have hor : orF sels f = sels.any fun p => p f := or_spec_partial sels hne f
  have hk : keyF "source" f = decide (f.key = "source") := by simp [keyF]
  have ho2 : ∀ p q : Filter, orF [p, q] f = (p f || q f) := fun p q => by simp [orF]
  have ha2 : ∀ p q : Filter, andF [p, q] f = (p f && q f) := fun p q => by simp [andF]
  simp only [Cli.selectFilter, strandOk]
  by_cases h1 : strand = "forward"
  · rw [if_pos h1, if_pos h1, ha2, ho2, hk]
    cases invert
    · simp [hor]
    · simp [notF, hor]
  · rw [if_neg h1, if_neg h1]
    by_cases h2 : strand = "reverse"
    · rw [if_pos h2, if_pos h2, ha2, ho2, hk]
      cases invert
      · simp [hor]
      · simp [notF, hor]
    · rw [if_neg h2, if_neg h2, ho2, hk]
      cases invert
      · simp [hor]
      · simp [notF, hor]

/-- without a selector (K19B): everything passes the selector part unless `-v`, which then leaves the source features -/
theorem select_spec_nil (invert : Bool) (strand : String) (f : Feature) :
    Cli.selectFilter [] invert strand f = ((decide (f.key = "source") || !invert) && strandOk strand f) := by
  have hor : orF [] f = true := rfl
  have hk : keyF "source" f = decide (f.key = "source") := by simp [keyF]
  have ho2 : ∀ p q : Filter, orF [p, q] f = (p f || q f) := fun p q => by simp [orF]
  have ha2 : ∀ p q : Filter, andF [p, q] f = (p f && q f) := fun p q => by simp [andF]
  simp only [Cli.selectFilter, strandOk]
  by_cases h1 : strand = "forward"
  · rw [if_pos h1, if_pos h1, ha2, ho2, hk]
    cases invert
    · simp [hor]
    · simp [notF, hor]
  · rw [if_neg h1, if_neg h1]
    by_cases h2 : strand = "reverse"
    · rw [if_pos h2, if_pos h2, ha2, ho2, hk]
      cases invert
      · simp [hor]
      · simp [notF, hor]
    · rw [if_neg h2, if_neg h2, ho2, hk]
      cases invert
      · simp [hor]
      · simp [notF, hor]

/-- non-vacuity, and the case W10-1 changes: `-v -s forward` with a selector that accepts a REVERSE-strand gene — the
gene is not kept (it fails the strand condition), although it is "not (selected and forward)" -/
example :
    let sel : Filter := keyF "gene"
    let g : Feature := ⟨"CDS", .compl (.ranged 1 4 false false), []⟩
    Cli.selectFilter [sel] true "forward" g = false ∧
      ((decide (g.key = "source") || (([sel].any fun p => p g) != true)) && strandOk "forward" g) = false := by
  decide

/-- **`gts select`, the command as written**: for at least one selector the regenerated filter-building statements
yield a filter (no panic) and the regenerated scan-loop body writes exactly one record: the features with
(`source` ∨ selected ≠ `-v`) ∧ strand, in table order, residues as they are. -/
theorem select_cli_step (sels : List Filter) (hne : sels ≠ []) (invert : Bool) (strand : String) (s : Seq) :
    ∃ flt, Gen.selectFilter sels strand invert = some flt ∧
      Gen.selectStep flt s = some [⟨s.feats.filter fun f =>
        (decide (f.key = "source") || ((sels.any fun p => p f) != invert)) && strandOk strand f, s.bytes⟩] := by
  refine ⟨_, Bridge.selectFilter_eq sels strand invert, ?_⟩
  rw [Bridge.selectStep_eq]
  have : Cli.selectFilter sels invert strand = fun f =>
      (decide (f.key = "source") || ((sels.any fun p => p f) != invert)) && strandOk strand f :=
    funext fun f => select_spec_partial sels hne invert strand f
  simp [Cli.selectStep, Cli.withFeats, this]

example : ∃ flt, Gen.selectFilter [keyF "gene"] "reverse" true = some flt ∧
    Gen.selectStep flt ⟨[⟨"source", .ranged 0 9 false false, []⟩, ⟨"gene", .compl (.point 1), []⟩], [65]⟩ =
      some [⟨[⟨"source", .ranged 0 9 false false, []⟩, ⟨"gene", .compl (.point 1), []⟩].filter fun f =>
        (decide (f.key = "source") || (([keyF "gene"].any fun p => p f) != true)) && strandOk "reverse" f, [65]⟩] :=
  select_cli_step _ (by simp) _ _ _

/-- **`gts clear`, the command as written**: exactly the `source` features stay, in table order -/
theorem clear_cli_step (s : Seq) :
    Gen.clearStep s = some [⟨s.feats.filter fun f => decide (f.key = "source"), s.bytes⟩] := by
  rw [Bridge.clearStep_eq]
  have : keyF "source" = fun f => decide (f.key = "source") := by funext f; simp [keyF]
  simp [Cli.clearStep, Cli.withFeats, this]

example : Gen.clearStep ⟨[⟨"source", .point 0, []⟩, ⟨"gene", .point 1, []⟩], [65, 67]⟩ =
    some [⟨[⟨"source", .point 0, []⟩, ⟨"gene", .point 1, []⟩].filter fun f => decide (f.key = "source"), [65, 67]⟩] :=
  clear_cli_step _

/-- **`gts define`, the command as written**: the record gets the new feature and loses none (a permutation of
`f :: table`), and a table with its sources first and the rest in location order stays one -/
theorem define_cli_step (f : Feature) (s : Seq) :
    ∃ t, Gen.defineStep f s = some [⟨t, s.bytes⟩] ∧ t.Perm (f :: s.feats) ∧ (Table.Ok s.feats → Table.Ok t) :=
  ⟨Table.insert s.feats f, Bridge.defineStep_eq f s, insert_perm _ _, fun h => Table.insert_ok _ _ h⟩

example : ∃ t, Gen.defineStep ⟨"gene", .ranged 1 3 false false, []⟩ ⟨[⟨"source", .point 0, []⟩, ⟨"CDS", .point 4, []⟩], [65, 67, 71, 84, 65]⟩
      = some [⟨t, [65, 67, 71, 84, 65]⟩] ∧
    t.Perm (⟨"gene", .ranged 1 3 false false, []⟩ :: [⟨"source", .point 0, []⟩, ⟨"CDS", .point 4, []⟩]) ∧
    (Table.Ok [⟨"source", .point 0, []⟩, ⟨"CDS", .point 4, []⟩] → Table.Ok t) := define_cli_step _ _

/-- **`gts annotate`, the command as written**: the record gets every feature of the table file and loses none, and
the table invariant is kept -/
theorem annotate_cli_step (featin : List Feature) (s : Seq) :
    ∃ t, Gen.annotateStep featin s = some [⟨t, s.bytes⟩] ∧ t.Perm (featin.reverse ++ s.feats) ∧
      (Table.Ok s.feats → Table.Ok t) :=
  ⟨Table.insertAll s.feats featin, Bridge.annotateStep_eq featin s, insertAll_perm _ _, fun h => insertAll_inv _ _ h⟩

example : ∃ t, Gen.annotateStep [⟨"gene", .point 1, []⟩] ⟨[⟨"source", .point 0, []⟩], [65, 67]⟩ = some [⟨t, [65, 67]⟩] ∧
    t.Perm ([⟨"gene", .point 1, []⟩].reverse ++ [⟨"source", .point 0, []⟩]) ∧
    (Table.Ok [⟨"source", .point 0, []⟩] → Table.Ok t) := annotate_cli_step _ _

/-- **`gts sort`, the order as written**: whatever `sort.Sort` does beyond its contract, a result in which no later
record is `Less` — the REGENERATED `byLength.Less`, behind `-r` with its arguments swapped by `sort.Reverse` — than an
earlier one has its lengths in DESCENDING order (`-r`: ascending).  (Records of one length are ties: their order is
not determined, `sort.Sort` is not stable.) -/
theorem sort_cli_step (reverse : Bool) (out : List Seq)
    (hsorted : ∀ i j : Nat, i < j → j < out.length →
      (if reverse then Gen.byLengthLess out i j else Gen.byLengthLess out j i) = some false) :
    ∀ (i j : Nat) (_ : i < j) (hj : j < out.length),
      if reverse then (out[i]'(by omega)).len ≤ out[j].len else out[j].len ≤ (out[i]'(by omega)).len := by
  intro i j hij hj
  have hi : i < out.length := by omega
  have h := hsorted i j hij hj
  cases reverse
  · simp only [Bool.false_eq_true, if_false] at h ⊢
    rw [Bridge.byLengthLess_eq out j i _ _ (List.getElem?_eq_getElem hj) (List.getElem?_eq_getElem hi)] at h
    simp only [Cli.lenLess, Bool.false_eq_true, if_false, Option.some.injEq, decide_eq_false_iff_not] at h
    omega
  · simp only [if_true] at h ⊢
    rw [Bridge.byLengthLess_eq out i j _ _ (List.getElem?_eq_getElem hi) (List.getElem?_eq_getElem hj)] at h
    simp only [Cli.lenLess, Bool.false_eq_true, if_false, Option.some.injEq, decide_eq_false_iff_not] at h
    omega

/-- non-vacuity: three records, longest first, meet the hypothesis for `reverse = false` -/
example : ∀ i j : Nat, i < j → j < ([⟨[], [1, 2, 3]⟩, ⟨[], [1, 2]⟩, ⟨[], [1, 2]⟩] : List Seq).length →
    Gen.byLengthLess [⟨[], [1, 2, 3]⟩, ⟨[], [1, 2]⟩, ⟨[], [1, 2]⟩] j i = some false := by
  intro i j hij hj
  have hj3 : j < 3 := hj
  obtain ⟨rfl, rfl⟩ | ⟨rfl, rfl⟩ | ⟨rfl, rfl⟩ : (i = 0 ∧ j = 1) ∨ (i = 0 ∧ j = 2) ∨ (i = 1 ∧ j = 2) := by omega
  all_goals decide +kernel

end Gts.C19
