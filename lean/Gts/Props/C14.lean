/-
  C14 — caching is transparent: cached runs equal uncached runs.
  Property theorems only.

  Two kinds of statements.

  (A) about the REGENERATED table `Gts.Gen.Cli` (go2lean reads every cmd/gts/*.go that calls
      `TryCache`, and io.go, on every run): every declared option and positional reaches the
      payload (`payload_complete`), the key of a secondary input file is the digest of its raw
      bytes (`secondary_digest_raw`), every cached command commits exactly before its one
      successful return (`commit_last`), `Close` removes what was not committed
      (`close_removes_uncommitted`).  They are closed by `decide`: a changed source changes the
      table and the kernel re-checks them.

  (B) about the protocol model `Gts/Model/CacheProto.lean` (over the C13 file model): for ALL
      histories of runs over a shared cache directory, every run shows the bytes and the status
      of the uncached run (`transparent`), under hypotheses that are written out:
        `hkey`    key-equal runs behave alike — determinism of the command given (input, options,
                  secondary inputs), completeness of the payload, no collision of the digest on
                  the inputs and payloads in play;
        `hcommit` `Commit()` is reached only by successful runs (what (A) `commit_last` ties to
                  the source);
        `hcodec`  inflate ∘ deflate = id;   `hH` the digest has a fixed size.
      Without `hkey` (an option missing from the payload: F4) and without `hcommit` (entries
      finalised by failed runs: F12) the statement is refuted by concrete two-run histories.

  (C) about the ENCODING of the payload into the bytes that are hashed (`Gts/Model/KeyEnc.lean`:
      io.go `exact` / `encodePayload`, strconv.QuoteToASCII, encoding/json on the payload shapes):
      the quoted form of a string is pure ASCII and determines the string
      (`quoteToASCII_ascii`, `quoteToASCII_injective`), the encoded payload determines the list of
      tuples (`encodePayload_injective`), whereas marshalling the raw strings — the encoder before
      1c2c272 — does not (`old_encoding_not_injective`, the witness of F32).  With that, `hkey` is
      a CONSEQUENCE of three hypotheses that say one thing each (`hkey_of_parts`): the command body
      is a function of the bytes of the primary input, it depends on the command line and the
      secondary inputs only through the payload tuples, the digest does not collide on the
      inputs and payloads in play.

  (D) about the protocol when the cache-file WRITER fails (`Gts/Model/CacheProtoFault.lean` = the
      protocol of (B) joined with the C13 fault model): for all histories and all fault schedules
      in which no `os.Remove` fails, every run shows the uncached bytes and status EXCEPT a run
      whose tee `Write` fails — io.go fails the command's own write — and the invariant of (B)
      survives (`transparent_under_faults_partial`, `no_bad_entry_under_faults_partial`); with a
      failing `os.Remove` both are refuted by a two-run history (`…_full_refuted`), which the
      harness replays on the binary.
-/
import Gts.Gen.Cli
import Gts.Spec.CliTable
import Gts.Model.CacheProto
import Gts.Props.C13
import Gts.Lemmas.KeyEncJson
import Gts.Lemmas.CacheProtoFault
namespace Gts.C14
open Gts.Cache Gts.CacheProto Gts.Gen.Cli Gts.CliTable

/-! ## (A) the generated command table -/

/-- **The cached subcommands are the nineteen the property names** (a new cached command must be
added to the harness generators, a vanished one is a changed surface). -/
theorem cached_commands : commands.map (·.name) =
    ["annotate", "clear", "complement", "define", "delete", "extract", "infix", "insert", "join",
     "pick", "query", "repair", "reverse", "rotate", "search", "select", "sort", "split",
     "summary"] := by decide

/-- **Payload completeness** (generated table): every declared option and positional of every
cached command is read by some payload tuple — directly or through a derived variable such as
`filetype ← seqoutPath, format`, `guestSum ← guestPath`, `loc ← locstr`, `comma ← sepstr` —
except the exempt `no-cache`, `output` and the primary input. -/
theorem payload_complete : ∀ c ∈ commands, ∀ d ∈ c.decls, covered c d = true ∨ exempt c d = true := by
  decide

/-- the same as a list: nothing is uncovered -/
theorem payload_complete_list : commands.flatMap uncovered = [] := by decide

/-- **Every payload value is written into the key in a form that determines it** (generated
table): a dereferenced command-line variable, a `String()` text, a digest, the file type, … — never
a parsed value marshalled by its structure (`Joined` / `Ordered`, `Point` / `Between` would share
a key: seeded change C14-f). -/
theorem payload_value_forms : valueFormReport = [] := by decide

/-- **Every payload value has one of the five kinds the encoding model covers** (generated table):
string, `[]string`, bool, integer, `[]byte` (`Gts.KeyEnc.Kind`) — so `encodePayload_injective` below
speaks about the payloads of all nineteen commands.  (A `float64`, a map or a struct handed to
`encodePayload` is outside the model and shows up here.) -/
theorem payload_value_kinds : valueKindReport = [] := by decide

/-- the kinds that occur, e.g. `gts infix`: strings, a digest, a bool, the file type -/
example : (commands.find? (·.name == "infix")).map (fun c => c.payload.map fun t => (t.key, valueKind c t)) =
    some [("command", some .str), ("version", some .str), ("locator", some .str), ("host", some .bytes),
      ("embed", some .bool), ("filetype", some .int)] := by decide

/-- **No payload variable is re-ordered or overwritten in place** anywhere in its command
(generated table: no use of a declared variable that reaches the payload sits in `sort.*`, `copy`,
…): the key describes what the command line said (seeded change C14-e: sorting the locators of
`gts extract` for the key while the output keeps their order). -/
theorem payload_vars_not_mutated : mutatedReport = [] := by decide

/-- **The key of a secondary input is the digest of its RAW content** (generated table): the
payload variables bound to `h.Sum(nil)` are exactly `featsum`, `hostSum`, `guestSum`, `querySum`;
each is read by a payload tuple; everything written into the hash between the preceding
`h.Reset()` and the `Sum` is either the bytes of the file opened from a declared positional
(`attach(h, f)` with `f, err := os.Open(*V)`: every byte the parser reads goes through the hash)
or the literal argument itself (`h.Write([]byte(*V))`) — nothing parsed, nothing derived; and
every declared variable that is opened as a file is hashed that way.  (A key computed from the
PARSED guest — residues only — lets two guest files that differ in annotation share an entry.) -/
theorem secondary_digest_raw :
    (commands.filterMap fun c =>
        if c.digests.isEmpty then none else some (c.name, c.digests.map (·.1))) =
      [("annotate", ["featsum"]), ("infix", ["hostSum"]), ("insert", ["guestSum"]),
       ("search", ["querySum"])] ∧
    (∀ c ∈ commands, ∀ d ∈ c.digests,
      d.2 ≠ [] ∧ (c.payload.any fun t => t.direct.contains d.1) = true ∧
      ∀ f ∈ d.2, (f.1 = "file" ∨ f.1 = "literal") ∧
        (c.decls.any fun x => x.var == f.2 && x.cls == "pos" && x.kind == "String") = true) ∧
    (∀ c ∈ commands, ∀ x ∈ c.decls, x.uses.contains "os.Open" = true →
      (c.digests.any fun d => d.2.contains ("file", x.var)) = true) := by decide

/-- every cached command has the `--no-cache` switch and the ``-o`, `--output`` option, and every
payload carries the command name and the version first -/
theorem payload_header : ∀ c ∈ commands,
    (c.decls.any fun d => d.cls == "opt" && d.long == "no-cache" && d.kind == "Switch") = true ∧
    (c.decls.any fun d => d.cls == "opt" && d.long == "output" && d.var == c.output) = true ∧
    (c.payload.take 2).map (·.key) = ["command", "version"] := by decide

/-- **Commit is last** (generated table): every cached command defers `d.Close()` right after
`newIODelegate`, has exactly one `d.Commit()` and exactly one `return nil`, the commit
immediately precedes that return, and they are the last two statements of the function.  So
`Commit` is reached only on the path that returns success, and nothing can fail or panic between
the two. -/
theorem commit_last : ∀ c ∈ commands,
    c.deferClose = true ∧ c.commits = 1 ∧ c.nilReturns = 1 ∧ c.commitThenReturnNil = 1 ∧
    c.endsWithCommitReturn = true := by decide

/-- **`Close` removes what was not committed** (io.go, literally): `Commit` sets `d.done`, the
entry being written is removed when `cache.Close()` fails or `d.done` is false, a hit removes
the entry exactly when the output is not stdout, and a miss arms `d.cache`. -/
theorem close_removes_uncommitted :
    commitBody = "d.done = true" ∧ closeRemoveCond = "err != nil || !d.done" ∧
    hitRemoveCond = "d.outfile != os.Stdout" ∧ missArms = "d.cache = f" := by decide

/-! ## (B) the protocol -/

variable {Cmd Input : Type} (W : World Cmd Input)

/-- the invariant: **every valid entry is the complete output of a successful run with that
key** -/
def Inv (σ : Store) : Prop :=
  ∀ rs qs body, rs.length = W.d → qs.length = W.d → openAt W.H W.d σ rs qs = .ok body →
    ∃ c i, rs = W.rsum i ∧ qs = W.dsum c ∧ (W.exec c i).status = 0 ∧ (W.exec c i).early = false ∧
      W.inflate body = some (W.exec c i).out

/-- the hypotheses of transparency, as one structure -/
structure Hyp : Prop where
  /-- the digest has a fixed size -/
  hH : ∀ x, (W.H x).length = W.d
  /-- what flate wrote, flate reads back -/
  hcodec : ∀ w, W.inflate (W.deflate w) = some w
  /-- **determinism / payload completeness / no collision**, stated on the sums: two runs whose
  root sums and data sums agree behave alike -/
  hkey : ∀ c c' i i', W.rsum i = W.rsum i' → W.dsum c = W.dsum c' → W.exec c i = W.exec c' i'
  /-- **entries are finalised only by successful runs**: `Commit()` is reached only with exit
  status 0 (`commit_last`) -/
  hcommit : ∀ c i, (W.exec c i).committed = true → (W.exec c i).status = 0

private theorem openAt_set_ne (σ : Store) (n : String) (v : Option Bytes) (rs qs : Bytes)
    (h : name W.H rs qs ≠ n) : openAt W.H W.d (Store.set σ n v) rs qs = openAt W.H W.d σ rs qs := by
  simp [openAt, Store.set, h]

private theorem openAt_set_none (σ : Store) (rs qs : Bytes) :
    openAt W.H W.d (Store.set σ (name W.H rs qs) none) rs qs = .error .notFound := by
  simp [openAt, Store.set]

/-- removing an entry keeps the invariant -/
theorem inv_remove {σ : Store} (hi : Inv W σ) (n : String) : Inv W (Store.set σ n none) := by
  intro rs qs body hr hq ho
  by_cases hn : name W.H rs qs = n
  · subst hn; rw [openAt_set_none] at ho; cases ho
  · rw [openAt_set_ne W σ n none rs qs hn] at ho; exact hi rs qs body hr hq ho

/-- the empty directory satisfies the invariant -/
theorem inv_empty : Inv W emptyStore := by
  intro rs qs body _ _ ho
  simp [openAt, emptyStore] at ho

/-- **The invariant is preserved by every run.** -/
theorem step_inv (hy : Hyp W) {σ : Store} (hi : Inv W σ) (r : Run Cmd Input) :
    Inv W (step W σ r).1 := by
  unfold step
  simp only
  by_cases hb : (r.nocache || !r.usable || (W.exec r.cmd r.input).early) = true
  · rw [if_pos hb]; exact hi
  · rw [if_neg hb]
    have hearly : (W.exec r.cmd r.input).early = false := by
      cases h : (W.exec r.cmd r.input).early
      · rfl
      · exact absurd (by simp [h]) hb
    split
    · split
      · split
        · exact inv_remove W hi _
        · exact hi
      · exact hi
    · -- miss
      split
      · rename_i hkeep
        intro rs qs body hr hq ho
        by_cases hn : name W.H rs qs = name W.H (W.rsum r.input) (W.dsum r.cmd)
        · have hrl : (W.rsum r.input).length = W.d := hy.hH _
          have hql : (W.dsum r.cmd).length = W.d := hy.hH _
          simp only [openAt, Store.set, hn, if_true] at ho
          rw [C13.finish_eq hy.hH W.deflate hrl hql] at ho
          have hs := C13.open_sound ho
          unfold finished at hs
          simp only [List.append_assoc] at hs
          have h1 := List.append_inj hs (hrl.trans hr.symm)
          have h2 := List.append_inj h1.2 (hql.trans hq.symm)
          have hbl : (W.H (W.deflate (W.exec r.cmd r.input).out)).length = (W.H body).length := by
            rw [hy.hH, hy.hH]
          have h3 := List.append_inj h2.2 hbl
          have hcm : (W.exec r.cmd r.input).committed = true := by
            cases h : (W.exec r.cmd r.input).committed
            · simp [h] at hkeep
            · rfl
          refine ⟨r.cmd, r.input, h1.1.symm, h2.1.symm, hy.hcommit _ _ hcm, hearly, ?_⟩
          rw [← h3.2]; exact hy.hcodec _
        · rw [openAt_set_ne W σ _ _ rs qs hn] at ho; exact hi rs qs body hr hq ho
      · exact inv_remove W hi _

/-- **One run is transparent**: in a directory satisfying the invariant, what a run shows is
exactly what the command body produces — whether it was a hit, a miss or a bypass. -/
theorem step_transparent (hy : Hyp W) {σ : Store} (hi : Inv W σ) (r : Run Cmd Input) :
    (step W σ r).2 = (W.exec r.cmd r.input).observed := by
  unfold step
  simp only
  split
  · rfl
  · split
    · rename_i body ho
      obtain ⟨c, i, hrs, hqs, hst, _, hinf⟩ := hi _ _ body (hy.hH _) (hy.hH _) ho
      have he : W.exec c i = W.exec r.cmd r.input := hy.hkey c r.cmd i r.input hrs.symm hqs.symm
      split
      · rename_i w hw
        rw [hinf] at hw
        cases hw
        simp [Outcome.observed, ← he, hst]
      · rename_i hw
        rw [hinf] at hw; cases hw
    · rfl

/-- the invariant holds after every history -/
theorem history_inv (hy : Hyp W) : ∀ (runs : List (Run Cmd Input)) {σ : Store}, Inv W σ →
    Inv W (history W σ runs).1
  | [], _, hi => hi
  | r :: rs, _, hi => history_inv hy rs (step_inv W hy hi r)

/-- **Transparency**: for ALL histories of runs over a shared cache directory that starts in a
state satisfying the invariant (e.g. empty), EVERY run of the history shows the output bytes and
the exit status of the command body — the observations of the cached history are those of the
uncached one. -/
theorem transparent (hy : Hyp W) : ∀ (runs : List (Run Cmd Input)) {σ : Store}, Inv W σ →
    (history W σ runs).2 = runs.map fun r => (W.exec r.cmd r.input).observed
  | [], _, _ => rfl
  | r :: rs, σ, hi => by
    simp only [history, List.map_cons]
    rw [step_transparent W hy hi r, transparent hy rs (step_inv W hy hi r)]

/-- … in particular from the empty directory -/
theorem transparent_from_empty (hy : Hyp W) (runs : List (Run Cmd Input)) :
    (history W emptyStore runs).2 = runs.map fun r => (W.exec r.cmd r.input).observed :=
  transparent W hy runs (inv_empty W)

/-- `--no-cache` shows the command body whatever the directory holds, and leaves it alone -/
theorem nocache_step (σ : Store) (r : Run Cmd Input) (h : r.nocache = true) :
    step W σ r = (σ, (W.exec r.cmd r.input).observed) := by
  simp [step, h]

/-- **Cached = uncached**: after any history, a run and the same run with `--no-cache` show the
same bytes and the same status. -/
theorem cached_eq_nocache (hy : Hyp W) (runs : List (Run Cmd Input)) (r : Run Cmd Input) :
    (step W (history W emptyStore runs).1 r).2 =
      (step W (history W emptyStore runs).1 { r with nocache := true }).2 := by
  rw [step_transparent W hy (history_inv W hy runs (inv_empty W)) r, nocache_step W _ _ rfl]

/-- **A failed run leaves no entry**: after a run that went past `TryCache` and did not exit 0,
`cache.Open` for its key fails — a later identical run misses and fails in the same way. -/
theorem failed_run_leaves_no_entry (hy : Hyp W) {σ : Store} (hi : Inv W σ) (r : Run Cmd Input)
    (hfail : (W.exec r.cmd r.input).status ≠ 0) :
    ∃ e, openAt W.H W.d (step W σ r).1 (W.rsum r.input) (W.dsum r.cmd) = .error e := by
  cases ho : openAt W.H W.d (step W σ r).1 (W.rsum r.input) (W.dsum r.cmd) with
  | error e => exact ⟨e, rfl⟩
  | ok body =>
    exfalso
    obtain ⟨c, i, hrs, hqs, hst, _, _⟩ := step_inv W hy hi r _ _ body (hy.hH _) (hy.hH _) ho
    rw [hy.hkey c r.cmd i r.input hrs.symm hqs.symm] at hst
    exact hfail hst

/-- **A successful cached run seeds a hit**: after a committed run (miss), the entry opens and
replays exactly the bytes of that run. -/
theorem committed_run_seeds_entry (hy : Hyp W) (σ : Store) (r : Run Cmd Input)
    (hmiss : verdict W σ r = .miss) (hc : (W.exec r.cmd r.input).committed = true)
    (hclose : r.closeOk = true) :
    openRead W.H W.d W.inflate
      ((step W σ r).1 (W.entry r.cmd r.input)).get! (W.rsum r.input) (W.dsum r.cmd)
      = .ok (W.exec r.cmd r.input).out := by
  have hrl : (W.rsum r.input).length = W.d := hy.hH _
  have hql : (W.dsum r.cmd).length = W.d := hy.hH _
  unfold verdict at hmiss
  unfold step
  simp only
  split at hmiss
  · cases hmiss
  · rename_i hb
    rw [if_neg hb]
    split at hmiss
    · split at hmiss <;> cases hmiss
    · rename_i e he
      simp only [hc, hclose, Bool.and_self, if_true, World.entry, Store.set, Option.get!]
      exact C13.open_close hy.hH W.deflate W.inflate hrl hql _ (hy.hcodec _)

/-- **A run creates no entry that opens under another key**: if `cache.Open` fails for the sums `(rs, qs)` before a
run whose own sums differ from them in the root sum or in the data sum, it still fails after it — whatever the run
did (bypass, hit, `-o` hit that removes, broken hit, miss kept or removed), even when the two keys share a FILE NAME
(the entry the run wrote carries its own sums in the header and fails validation under the other key).  Needs only
the fixed digest size. -/
theorem step_other_key_stays_missing (hH : ∀ x, (W.H x).length = W.d) (σ : Store) (r : Run Cmd Input)
    {rs qs : Bytes} (hr : rs.length = W.d) (hq : qs.length = W.d)
    (hne : rs ≠ W.rsum r.input ∨ qs ≠ W.dsum r.cmd)
    (he : ∃ e, openAt W.H W.d σ rs qs = .error e) :
    ∃ e, openAt W.H W.d (step W σ r).1 rs qs = .error e := by
  have hset : ∀ v : Option Bytes,
      (v = none ∨ v = some (finish W.H W.d W.deflate (W.rsum r.input) (W.dsum r.cmd) (W.exec r.cmd r.input).out)) →
      ∃ e, openAt W.H W.d (Store.set σ (name W.H (W.rsum r.input) (W.dsum r.cmd)) v) rs qs = .error e := by
    intro v hv
    by_cases hn : name W.H rs qs = name W.H (W.rsum r.input) (W.dsum r.cmd)
    · rcases hv with rfl | rfl
      · exact ⟨.notFound, by simp [openAt, Store.set, hn]⟩
      · cases ho : openAt W.H W.d (Store.set σ (name W.H (W.rsum r.input) (W.dsum r.cmd))
            (some (finish W.H W.d W.deflate (W.rsum r.input) (W.dsum r.cmd) (W.exec r.cmd r.input).out))) rs qs with
        | error e => exact ⟨e, rfl⟩
        | ok body =>
          exfalso
          have hrl : (W.rsum r.input).length = W.d := hH _
          have hql : (W.dsum r.cmd).length = W.d := hH _
          simp only [openAt, Store.set, hn, if_true] at ho
          rw [C13.finish_eq hH W.deflate hrl hql] at ho
          have hs := C13.open_sound ho
          unfold finished at hs
          simp only [List.append_assoc] at hs
          have h1 := List.append_inj hs (hrl.trans hr.symm)
          have h2 := List.append_inj h1.2 (hql.trans hq.symm)
          rcases hne with h | h
          · exact h h1.1.symm
          · exact h h2.1.symm
    · obtain ⟨e, he⟩ := he
      exact ⟨e, by simp only [openAt, Store.set, if_neg hn] at he ⊢; exact he⟩
  unfold step
  simp only
  split
  · exact he
  · split
    · split
      · split
        · exact hset none (.inl rfl)
        · exact he
      · exact he
    · split
      · exact hset _ (.inr rfl)
      · exact hset none (.inl rfl)
/-- … hence through every history none of whose runs has the key `(rs, qs)` -/
theorem history_other_key_stays_missing (hH : ∀ x, (W.H x).length = W.d) {rs qs : Bytes}
    (hr : rs.length = W.d) (hq : qs.length = W.d) :
    ∀ (runs : List (Run Cmd Input)) (σ : Store),
      (∀ r ∈ runs, rs ≠ W.rsum r.input ∨ qs ≠ W.dsum r.cmd) →
      (∃ e, openAt W.H W.d σ rs qs = .error e) →
      ∃ e, openAt W.H W.d (history W σ runs).1 rs qs = .error e
  | [], _, _, he => he
  | r :: rest, σ, hall, he =>
    history_other_key_stays_missing hH hr hq rest (step W σ r).1
      (fun r' hr' => hall r' (List.mem_cons_of_mem _ hr'))
      (step_other_key_stays_missing W hH σ r hr hq (hall r (List.mem_cons_self ..)) he)

/-- **A changed input (or option) misses the cache and recomputes** — the clause of the property, for ALL
histories from the empty directory: a run that goes past `TryCache` and whose key differs from the key of EVERY
earlier run of the history — in the root sum (a changed primary input) or in the data sum (a changed option or
secondary input) — is a MISS, and it shows the bytes and the status of its own command body.  No hypothesis about
the bodies, the payload or collisions: `hkey` is what makes the HITS right, the misses need only the digest size.
(That a changed input HAS a different root sum is `hcollC`: `changed_content_misses`.) -/
theorem changed_key_misses (hH : ∀ x, (W.H x).length = W.d) (runs : List (Run Cmd Input)) (r : Run Cmd Input)
    (hlive : (r.nocache || !r.usable || (W.exec r.cmd r.input).early) = false)
    (hnew : ∀ r' ∈ runs, W.rsum r.input ≠ W.rsum r'.input ∨ W.dsum r.cmd ≠ W.dsum r'.cmd) :
    verdict W (history W emptyStore runs).1 r = .miss ∧
    (step W (history W emptyStore runs).1 r).2 = (W.exec r.cmd r.input).observed := by
  have he' : ∃ e, openAt W.H W.d (history W emptyStore runs).1 (W.rsum r.input) (W.dsum r.cmd) = .error e :=
    history_other_key_stays_missing W hH (hH _) (hH _) runs emptyStore hnew
      ⟨.notFound, by simp [openAt, emptyStore]⟩
  obtain ⟨e, he⟩ := he'
  constructor
  · unfold verdict
    rw [hlive, he]; rfl
  · unfold step
    simp only [hlive, he]; rfl

/-- … stated on the input BYTES: under collision-freeness of the digest on the primary inputs in play (`hcollC` of
`KeyParts`), a run whose primary input differs in content from the input of every earlier run misses and recomputes -/
theorem changed_content_misses (hH : ∀ x, (W.H x).length = W.d)
    (hcollC : ∀ i i', W.H (W.content i) = W.H (W.content i') → W.content i = W.content i')
    (runs : List (Run Cmd Input)) (r : Run Cmd Input)
    (hlive : (r.nocache || !r.usable || (W.exec r.cmd r.input).early) = false)
    (hnew : ∀ r' ∈ runs, W.content r.input ≠ W.content r'.input) :
    verdict W (history W emptyStore runs).1 r = .miss ∧
    (step W (history W emptyStore runs).1 r).2 = (W.exec r.cmd r.input).observed :=
  changed_key_misses W hH runs r hlive fun r' h => .inl fun heq => hnew r' h (hcollC _ _ heq)

/-! ## the hypotheses cannot be dropped: two-run histories

A toy world: digest `toyH` of C13 (one byte: the sum), identity codec, `Cmd = Bool × Bool`
(`(invert, fail)`), one input. -/

/-- the body: output `[1]` or, inverted, `[2]`; a failing run emits nothing and exits 1 -/
def toyExec (commitOnFailure : Bool) (c : Bool × Bool) (_ : Unit) : Outcome :=
  if c.2 then ⟨[], 1, commitOnFailure, false⟩ else ⟨if c.1 then [2] else [1], 0, true, false⟩

/-- `payloadHasInvert = false`: the payload forgets the first option (extract before 4f58328) -/
def toyWorld (payloadHasInvert commitOnFailure : Bool) : World (Bool × Bool) Unit where
  H := C13.toyH
  d := 1
  deflate := id
  inflate := some
  inflatePrefix := fun _ => []
  exec := toyExec commitOnFailure
  payload := fun c => [if payloadHasInvert && c.1 then 1 else 0, if c.2 then 7 else 0]
  content := fun _ => [9]

def toyRun (invert fail : Bool) : Run (Bool × Bool) Unit :=
  ⟨(invert, fail), (), false, false, true, true⟩

/-- **F4** (`gts extract` then `gts extract -v`, payload without `invert`): the second run is a
hit on the first run's entry and shows the NON-inverted output `[1]`; the uncached run shows
`[2]`.  So `hkey` cannot be dropped. -/
theorem transparent_needs_payload_refuted :
    (history (toyWorld false false) emptyStore [toyRun false false, toyRun true false]).2
      = [⟨[1], 0⟩, ⟨[1], 0⟩] ∧
    ((toyWorld false false).exec (true, false) ()).observed = ⟨[2], 0⟩ := by
  refine ⟨?_, rfl⟩
  have hn : name C13.toyH (C13.toyH [9]) (C13.toyH [0, 0]) = "09" := by decide
  simp [history, step, toyWorld, toyRun, toyExec, World.rsum, World.dsum, Outcome.observed, openAt,
    emptyStore, Store.set, hn]
  decide

/-- **… and `hkey` is the ONLY hypothesis that fails in that witness world** (audit C14a F6): the history above
is not transparent, and `toyWorld false false` satisfies the digest size, the codec round trip and `hcommit`
(`Commit()` only on success); what fails is `hkey` — the commands `(false, false)` and `(true, false)` have the
same sums and different outcomes.  So the refutation is tight: it is the missing option in the payload, nothing
else, that breaks transparency. -/
theorem transparent_needs_payload_refuted_tight :
    ((history (toyWorld false false) emptyStore [toyRun false false, toyRun true false]).2
        = [⟨[1], 0⟩, ⟨[1], 0⟩] ∧
      ((toyWorld false false).exec (true, false) ()).observed = ⟨[2], 0⟩) ∧
    (∀ x, ((toyWorld false false).H x).length = (toyWorld false false).d) ∧
    (∀ w, (toyWorld false false).inflate ((toyWorld false false).deflate w) = some w) ∧
    (∀ c i, ((toyWorld false false).exec c i).committed = true → ((toyWorld false false).exec c i).status = 0) ∧
    ¬ (∀ c c' i i', (toyWorld false false).rsum i = (toyWorld false false).rsum i' →
        (toyWorld false false).dsum c = (toyWorld false false).dsum c' →
        (toyWorld false false).exec c i = (toyWorld false false).exec c' i') := by
  refine ⟨transparent_needs_payload_refuted, C13.toyH_size, fun _ => rfl, ?_, ?_⟩
  · intro c i h
    rcases c with ⟨a, b⟩
    cases b <;> simp_all [toyWorld, toyExec]
  · intro h
    exact absurd (h (false, false) (true, false) () () rfl rfl) (by decide)

/-- … and with the complete payload the same history is transparent -/
example : (history (toyWorld true false) emptyStore [toyRun false false, toyRun true false]).2
    = [⟨[1], 0⟩, ⟨[2], 0⟩] := by
  have hn : name C13.toyH (C13.toyH [9]) (C13.toyH [0, 0]) = "09" := by decide
  have hm : name C13.toyH (C13.toyH [9]) (C13.toyH [1, 0]) = "0a" := by decide
  simp [history, step, toyWorld, toyRun, toyExec, World.rsum, World.dsum, Outcome.observed, openAt,
    emptyStore, Store.set, hn, hm]

/-- **F12** (a failing run, then the identical run; `Close` finalising unconditionally =
`committed` although the run failed): the second run is a hit on the entry the failed run left
and exits 0 with the partial output; the uncached run exits 1.  So `hcommit` cannot be dropped. -/
theorem transparent_needs_commit_refuted :
    (history (toyWorld true true) emptyStore [toyRun false true, toyRun false true]).2
      = [⟨[], 1⟩, ⟨[], 0⟩] ∧
    ((toyWorld true true).exec (false, true) ()).observed = ⟨[], 1⟩ := by
  refine ⟨?_, rfl⟩
  have hn : name C13.toyH (C13.toyH [9]) (C13.toyH [0, 7]) = "10" := by decide
  simp [history, step, toyWorld, toyRun, toyExec, World.rsum, World.dsum, Outcome.observed, openAt,
    emptyStore, Store.set, hn]
  decide

/-- **… and `hcommit` is the ONLY hypothesis that fails in that witness world** (audit C14a F6): the history
above is not transparent, and `toyWorld true true` satisfies the digest size, the codec round trip and `hkey` (the
four commands have four different data sums); what fails is `hcommit` — the failing command is `committed` with
status 1. -/
theorem transparent_needs_commit_refuted_tight :
    ((history (toyWorld true true) emptyStore [toyRun false true, toyRun false true]).2
        = [⟨[], 1⟩, ⟨[], 0⟩] ∧
      ((toyWorld true true).exec (false, true) ()).observed = ⟨[], 1⟩) ∧
    (∀ x, ((toyWorld true true).H x).length = (toyWorld true true).d) ∧
    (∀ w, (toyWorld true true).inflate ((toyWorld true true).deflate w) = some w) ∧
    (∀ c c' i i', (toyWorld true true).rsum i = (toyWorld true true).rsum i' →
        (toyWorld true true).dsum c = (toyWorld true true).dsum c' →
        (toyWorld true true).exec c i = (toyWorld true true).exec c' i') ∧
    ¬ (∀ c i, ((toyWorld true true).exec c i).committed = true → ((toyWorld true true).exec c i).status = 0) := by
  refine ⟨transparent_needs_commit_refuted, C13.toyH_size, fun _ => rfl, ?_, ?_⟩
  · intro c c' i i' _ h
    have : c = c' := by
      rcases c with ⟨a, b⟩; rcases c' with ⟨a', b'⟩
      revert h; cases a <;> cases b <;> cases a' <;> cases b' <;> decide
    subst this; rfl
  · intro h
    exact absurd (h (false, true) () rfl) (by decide)

/-- … with `Commit` only on success the failed run leaves nothing and the second run fails too -/
example : (history (toyWorld true false) emptyStore [toyRun false true, toyRun false true]).2
    = [⟨[], 1⟩, ⟨[], 1⟩] := by
  have hn : name C13.toyH (C13.toyH [9]) (C13.toyH [0, 7]) = "10" := by decide
  simp [history, step, toyWorld, toyRun, toyExec, World.rsum, World.dsum, Outcome.observed, openAt,
    emptyStore, Store.set, hn]

/-- non-vacuity: the toy world with the complete payload and commit-on-success satisfies every
hypothesis of `transparent` except digest injectivity in general — `hkey` holds because the four
commands have four different data sums -/
example : Hyp (toyWorld true false) where
  hH := C13.toyH_size
  hcodec := fun _ => rfl
  hkey := by
    intro c c' i i' _ h
    have : c = c' := by
      rcases c with ⟨a, b⟩; rcases c' with ⟨a', b'⟩
      revert h; cases a <;> cases b <;> cases a' <;> cases b' <;> decide
    subst this; rfl
  hcommit := by
    intro c i h
    rcases c with ⟨a, b⟩
    cases b <;> simp_all [toyWorld, toyExec]

/-- non-vacuity of `step_other_key_stays_missing` / `history_other_key_stays_missing` / `changed_key_misses`: in the
toy world, after the base run and a failing run, the run with the CHANGED OPTION (`invert`) has a data sum that differs
from both, goes past `TryCache`, and is a miss that shows its own output `[2]` (the inputs of this world do not vary:
for a changed INPUT see `sortWorld` in `Props/C14Gen.lean`) -/
example : verdict (toyWorld true false) (history (toyWorld true false) emptyStore [toyRun false false, toyRun false true]).1
      (toyRun true false) = .miss ∧
    (step (toyWorld true false) (history (toyWorld true false) emptyStore [toyRun false false, toyRun false true]).1
      (toyRun true false)).2 = ⟨[2], 0⟩ :=
  changed_key_misses (toyWorld true false) C13.toyH_size [toyRun false false, toyRun false true] (toyRun true false) rfl
    (by decide)

/-! ## (C) the encoding of the payload -/

section encoding
open Gts.KeyEnc

/-- **The quoted form is pure ASCII**: every byte of `strconv.QuoteToASCII(s)`, for an arbitrary
byte string `s` (valid UTF-8 or not), is below 128 — so encoding/json copies or escapes it byte by
byte and never replaces anything by U+FFFD. -/
theorem quoteToASCII_ascii (s : List UInt8) : ∀ c ∈ quoteToASCII s, c.toNat < 128 :=
  quoteToASCII_lt s

/-- … in fact printable: no control byte, no DEL -/
theorem quoteToASCII_printable (s : List UInt8) : ∀ c ∈ quoteToASCII s, 0x20 ≤ c.toNat ∧ c.toNat ≤ 0x7E := by
  intro c hc
  simp only [quoteToASCII, List.mem_cons, List.mem_append, List.not_mem_nil, or_false] at hc
  rcases hc with rfl | hc | rfl
  · decide
  · exact quoteBody_ascii s.length s (Nat.le_refl _) c hc
  · decide

/-- **The quoted form determines the string**: two byte strings — arbitrary ones, valid UTF-8 or
not — with the same `strconv.QuoteToASCII` text are equal. -/
theorem quoteToASCII_injective {s₁ s₂ : List UInt8} (h : quoteToASCII s₁ = quoteToASCII s₂) : s₁ = s₂ :=
  quoteToASCII_inj h

/-- non-vacuity, and the F32 pair: `a\xffb` and `a\xfeb` are quoted differently, an invalid byte
and the well-formed U+FFFD are quoted differently (`\xff` / `\ufffd`) -/
example : quoteToASCII [0x61, 0xFF, 0x62] = ascii "\"a\\xffb\"" ∧
    quoteToASCII [0x61, 0xFE, 0x62] = ascii "\"a\\xfeb\"" ∧
    quoteToASCII [0xEF, 0xBF, 0xBD] = ascii "\"\\ufffd\"" ∧
    quoteToASCII [0xC3, 0xA9, 0x22, 0x0A, 0xF0, 0x9F, 0x98, 0x80] =
      ascii "\"\\u00e9\\\"\\n\\U0001f600\"" := by decide

/-- the shape of a payload: its keys and the kinds of its values — what the source text of a
command fixes (`Gts.Gen.Cli` `Tuple.key / form / prov`), whatever the arguments are -/
def shape (p : Payload) : List (List UInt8 × Kind) := p.map fun t => (t.1, t.2.kind)

/-- **The encoded payload determines the payload**: `encodePayload p₁ = encodePayload p₂ → p₁ = p₂`,
for ALL lists of tuples over the value kinds that occur (string, `[]string`, bool, integer,
`[]byte`) — in particular for two payloads of one command, which have the same keys and the same
value kinds (`encodePayload_injective_shape`); no shape hypothesis is needed, because the encoding
is self-delimiting and the first two bytes of a value tell its kind (a quoted string starts `"\"`,
base64 never contains a backslash).  Two runs with different option values, different list
elements, a different element ORDER, or strings that differ in any byte have different key bytes. -/
theorem encodePayload_injective {p₁ p₂ : Payload} (h : encodePayload p₁ = encodePayload p₂) : p₁ = p₂ :=
  (encodePayload_prefix p₁ p₂ [] [] (by rw [List.append_nil, List.append_nil]; exact h)).1

/-- the statement for two payloads of the same shape (same keys, same value kinds, position by
position): what `hkey` needs within one command -/
theorem encodePayload_injective_shape {p₁ p₂ : Payload} (_ : shape p₁ = shape p₂)
    (h : encodePayload p₁ = encodePayload p₂) : p₁ = p₂ := encodePayload_injective h

/-- … and the encoding determines the shape -/
theorem encodePayload_shape {p₁ p₂ : Payload} (h : encodePayload p₁ = encodePayload p₂) :
    shape p₁ = shape p₂ := by rw [encodePayload_injective h]

/-- the key of the F32 witness: `gts rotate` with the locator `a\xffb` … -/
def f32a : Payload :=
  [(ascii "command", .str (ascii "gts-rotate")), (ascii "locator", .str [0x61, 0xFF, 0x62]),
   (ascii "filetype", .int 0)]
/-- … and with `a\xfeb` -/
def f32b : Payload :=
  [(ascii "command", .str (ascii "gts-rotate")), (ascii "locator", .str [0x61, 0xFE, 0x62]),
   (ascii "filetype", .int 0)]

/-- non-vacuity of `encodePayload_injective_shape`: the two payloads have one shape, they differ,
and so do their encodings -/
example : shape f32a = shape f32b ∧ f32a ≠ f32b ∧ encodePayload f32a ≠ encodePayload f32b := by decide

/-- what the encoder writes for a payload with every kind of value -/
example : encodePayload [(ascii "k", .strs [ascii "a\"", [0xFF]]), (ascii "b", .bool true),
      (ascii "i", .int (-12)), (ascii "d", .bytes [1, 2, 3, 4, 255])] =
    ascii "[[\"\\\"k\\\"\",[\"\\\"a\\\\\\\"\\\"\",\"\\\"\\\\xff\\\"\"]],[\"\\\"b\\\"\",true],[\"\\\"i\\\"\",-12],[\"\\\"d\\\"\",\"AQIDBP8=\"]]" := by
  decide

/-- **The encoder before 1c2c272 was NOT injective** (F32): `json.Marshal` applied to the raw
tuples writes every invalid UTF-8 byte as `\ufffd`, so the two payloads `f32a` / `f32b` — one
command, one shape, locators `a\xffb` and `a\xfeb` — had the same key bytes, and the second run
replayed the first run's output.  (Full statement that fails: `∀ p₁ p₂, jsonOfPayload p₁ =
jsonOfPayload p₂ → p₁ = p₂`.) -/
theorem old_encoding_not_injective :
    ¬ (∀ p₁ p₂ : Payload, shape p₁ = shape p₂ → jsonOfPayload p₁ = jsonOfPayload p₂ → p₁ = p₂) := by
  intro h
  exact absurd (h f32a f32b (by decide) (by decide)) (by decide)

/-- the shared key text of the witness -/
example : jsonOfPayload f32a = jsonOfPayload f32b ∧
    jsonOfPayload f32a =
      ascii "[[\"command\",\"gts-rotate\"],[\"locator\",\"a\\ufffdb\"],[\"filetype\",0]]" := by
  decide

end encoding

/-! ### `hkey` from its parts -/

/-- the parts of `hkey`, for a world whose payload bytes are `encodePayload` of a list of tuples
`pl c` (the tuples of the command's `encodePayload([]tuple{…})` call, values filled in) -/
structure KeyParts (pl : Cmd → KeyEnc.Payload) : Prop where
  /-- the payload handed to `TryCache` is io.go `encodePayload` of the tuples -/
  henc : ∀ c, W.payload c = KeyEnc.encodePayload (pl c)
  /-- **determinism**: the command body is a function of the BYTES of the primary input -/
  hdet : ∀ c i i', W.content i = W.content i' → W.exec c i = W.exec c i'
  /-- **sufficiency of the payload**: the command body depends on the command line and on the
  secondary inputs only through the values of the payload tuples (the syntactic half is
  `payload_complete` / `secondary_digest_raw` / `payload_value_forms` on the generated table) -/
  hsuff : ∀ c c' i, pl c = pl c' → W.exec c i = W.exec c' i
  /-- **no collision** of the digest on the payloads in play … -/
  hcollP : ∀ c c', W.H (W.payload c) = W.H (W.payload c') → W.payload c = W.payload c'
  /-- … and on the primary inputs in play -/
  hcollC : ∀ i i', W.H (W.content i) = W.H (W.content i') → W.content i = W.content i'

/-- **`hkey` is a consequence of determinism, sufficiency of the payload tuples, injectivity of the
encoding (a theorem: `encodePayload_injective`) and collision-freeness of the digest on the keys in
play.** -/
theorem hkey_of_parts {pl : Cmd → KeyEnc.Payload} (hp : KeyParts W pl) :
    ∀ c c' i i', W.rsum i = W.rsum i' → W.dsum c = W.dsum c' → W.exec c i = W.exec c' i' := by
  intro c c' i i' hr hd
  have hc : W.content i = W.content i' := hp.hcollC i i' hr
  have hb : W.payload c = W.payload c' := hp.hcollP c c' hd
  rw [hp.henc c, hp.henc c'] at hb
  rw [hp.hdet c i i' hc]
  exact hp.hsuff c c' i' (encodePayload_injective hb)

/-- the hypotheses of transparency from the parts -/
theorem hyp_of_parts {pl : Cmd → KeyEnc.Payload} (hH : ∀ x, (W.H x).length = W.d)
    (hcodec : ∀ w, W.inflate (W.deflate w) = some w) (hp : KeyParts W pl)
    (hcommit : ∀ c i, (W.exec c i).committed = true → (W.exec c i).status = 0) : Hyp W :=
  ⟨hH, hcodec, hkey_of_parts W hp, hcommit⟩

/-- **Transparency with `hkey` taken apart**: for all histories from a directory satisfying the
invariant, every run shows the bytes and the status of the command body — under the digest size,
the codec round trip, `Commit` only on success, and the three parts of `KeyParts` (determinism,
sufficiency of the payload tuples, no digest collision on the keys in play); that the key BYTES
determine the tuples is no longer assumed. -/
theorem transparent_of_parts {pl : Cmd → KeyEnc.Payload} (hH : ∀ x, (W.H x).length = W.d)
    (hcodec : ∀ w, W.inflate (W.deflate w) = some w) (hp : KeyParts W pl)
    (hcommit : ∀ c i, (W.exec c i).committed = true → (W.exec c i).status = 0)
    (runs : List (Run Cmd Input)) {σ : Store} (hi : Inv W σ) :
    (history W σ runs).2 = runs.map fun r => (W.exec r.cmd r.input).observed :=
  transparent W (hyp_of_parts W hH hcodec hp hcommit) runs hi

/-- the tuples of the toy command `(invert, fail)` -/
def encTuples (c : Bool × Bool) : KeyEnc.Payload :=
  [(KeyEnc.ascii "invert", .bool c.1), (KeyEnc.ascii "fail", .int (if c.2 then 7 else 0))]

/-- the toy world with the real encoder: the payload bytes are `encodePayload` of the tuples -/
def encWorld : World (Bool × Bool) Unit :=
  { toyWorld true false with payload := fun c => KeyEnc.encodePayload (encTuples c) }

/-- non-vacuity of `hkey_of_parts` / `transparent_of_parts`: the toy world with the real encoder
meets every part (the four commands have four different data sums under the toy digest) -/
theorem encWorld_parts : KeyParts encWorld encTuples where
  henc := fun _ => rfl
  hdet := fun _ _ _ _ => rfl
  hsuff := by
    intro c c' i h
    have : c = c' := by
      rcases c with ⟨a, b⟩; rcases c' with ⟨a', b'⟩
      revert h; cases a <;> cases b <;> cases a' <;> cases b' <;> decide
    rw [this]
  hcollP := by
    intro c c' h
    have : c = c' := by
      rcases c with ⟨a, b⟩; rcases c' with ⟨a', b'⟩
      revert h; cases a <;> cases b <;> cases a' <;> cases b' <;> decide
    rw [this]
  hcollC := fun _ _ _ => rfl

/-- … and a three-run history over it (base, inverted, base) is transparent -/
example : (history encWorld emptyStore [toyRun false false, toyRun true false, toyRun false false]).2
    = [toyRun false false, toyRun true false, toyRun false false].map
        fun r => (encWorld.exec r.cmd r.input).observed :=
  transparent_of_parts encWorld C13.toyH_size (fun _ => rfl) encWorld_parts
    (by
      intro c i h
      rcases c with ⟨a, b⟩
      cases b <;> simp_all [encWorld, toyWorld, toyExec])
    _ (inv_empty _)

/-! ## (D) Writer faults

`Gts/Model/CacheProtoFault.lean`: the protocol joined with the C13 fault model of the cache-file
writer.  A run carries a fault schedule `Faults` — `os.Create` or the placeholder write of
`CreateLevel`, the n-th `Write` of the tee, each of the five steps of `cache.File.Close`, and the three
`os.Remove` calls whose result io.go ignores.  What the code defines (io.go, bug for bug):

  * a failed `d.cache.Write` FAILS THE COMMAND'S OWN WRITE (`ioDelegate.Write` returns the error before
    it touches the output; flate's error is sticky, so nothing reaches the output afterwards): the
    user sees the chunks written before the failing call and the exit status of a body whose
    writer failed (1 for all nineteen commands) although `--no-cache` exits 0;
  * every other fault is SWALLOWED: `os.Create` failing (no tee), the placeholder write failing (the
    name is removed, the tee goes on into the unlinked file), every error of `cache.Close()` (the
    entry is removed) — output and status are those of the uncached run;
  * the entry is discarded by `os.Remove`, whose result is ignored: when that fails too, a
    finalised entry over a PREFIX of the stream stays (C13 `failed_close_entry_verifies`) and the
    next run serves wrong bytes (`no_bad_entry_under_faults_full_refuted`; replayed on the binary by
    the harness case `cli.faulthist … unremovable`).
-/

section faults

/-- **What io.go does with the errors of the cache writer** (generated, literally): the tee hands
`p` to the cache FIRST and returns its error without writing `p` to the output
(`stepF`: a failed `Write` of the tee fails the command's write); after a failed `cache.Open`,
`TryCache` removes the entry's NAME when `CreateLevel` returned a file and an error, arms the tee
with whatever `CreateLevel` returned — `nil` when `os.Create` failed — and reports a plain miss;
no result of `os.Remove` is looked at.  (With `close_removes_uncommitted`: the error of
`cache.Close()` only decides about the removal.) -/
theorem writer_errors_handling :
    teeBody = ["if d.cache != nil { n, err := d.cache.Write(p); if err != nil { return n, err } }",
      "n, err := d.outfile.Write(p)", "return n, err"] ∧
    missBlock = ["f, err := cache.CreateLevel(dir, h, rsum, dsum, flate.BestSpeed)",
      "if err != nil && f != nil { os.Remove(f.Name()) }", "d.cache = f", "return false, nil"] := by
  decide

variable (V : FWorld Cmd Input)

/-- the hypotheses under faults: those of `transparent`, and the chunks of the body are its output -/
structure FHyp : Prop where
  base : Hyp V.toWorld
  /-- the arguments of the body's `Write` calls, concatenated, are the bytes it writes -/
  hchunks : ∀ c i, (V.chunks c i).flatten = (V.exec c i).out

/-- **Without faults the model is the protocol of `CacheProto.lean`** (`closeOk = true`). -/
theorem stepF_nofault (hc : ∀ c i, (V.chunks c i).flatten = (V.exec c i).out) (σ : Store)
    (r : FRun Cmd Input) (hf : r.faults = {}) :
    stepF V σ r = step V.toWorld σ (r.toRun true) := by
  obtain ⟨cmd, input, toFile, nocache, usable, faults⟩ := r
  simp only at hf
  subst hf
  have hm := missF_nofault V ⟨cmd, input, toFile, nocache, usable, {}⟩ rfl
  simp only at hm
  show stepF V σ ⟨cmd, input, toFile, nocache, usable, {}⟩
    = step V.toWorld σ ⟨cmd, input, toFile, nocache, usable, true⟩
  unfold stepF step
  simp only
  by_cases hb : (nocache || !usable || (V.exec cmd input).early) = true
  · rw [if_pos hb, if_pos hb]
  · rw [if_neg hb, if_neg hb]
    cases ho : openAt V.H V.d σ (V.rsum input) (V.dsum cmd) with
    | ok body => cases hw : V.inflate body <;> simp [hw]
    | error e => simp only [hm, hc, Bool.and_true]

/-- what a run shows **as the code defines**: the uncached observation, except for a run that tees
into a cache file (`armed`) and whose schedule makes a `Write` of the tee fail — that run shows
the chunks before the failing call and the status of the body whose write failed -/
def expectF (σ : Store) (r : FRun Cmd Input) : Observed :=
  if armed V σ r then
    match surfaced V r with
    | some k => faultObserved V r k
    | none => (V.exec r.cmd r.input).observed
  else (V.exec r.cmd r.input).observed

/-- `expectF` along a history -/
def expectHistF : Store → List (FRun Cmd Input) → List Observed
  | _, [] => []
  | σ, r :: rs => expectF V σ r :: expectHistF (stepF V σ r).1 rs

/-- **One run under ANY fault schedule, in a directory satisfying the invariant**, shows exactly
what the code defines (`expectF`): no hypothesis on the schedule — `os.Remove` may fail, too; the
schedule of THIS run never makes it show anything but the uncached bytes or a surfaced write
failure. -/
theorem step_transparent_under_faults (hy : FHyp V) {σ : Store} (hi : Inv V.toWorld σ)
    (r : FRun Cmd Input) : (stepF V σ r).2 = expectF V σ r := by
  unfold stepF expectF armed
  simp only
  by_cases hb : (r.nocache || !r.usable || (V.exec r.cmd r.input).early) = true
  · simp [hb]
  · rw [if_neg hb]
    cases ho : openAt V.H V.d σ (V.rsum r.input) (V.dsum r.cmd) with
    | ok body =>
      obtain ⟨c, i, hrs, hqs, hst, _, hinf⟩ := hi _ _ body (hy.base.hH _) (hy.base.hH _) ho
      have he : V.exec c i = V.exec r.cmd r.input := hy.base.hkey c r.cmd i r.input hrs.symm hqs.symm
      simp only [Bool.and_false, Bool.false_and, Bool.false_eq_true, if_false]
      rw [hinf]
      simp [Outcome.observed, ← he, hst]
    | error e =>
      cases hc : r.faults.create <;> simp [hb, missF_obs] <;> cases surfaced V r <;> rfl

/-- **The invariant survives every fault schedule in which no `os.Remove` fails**: whatever fails
in `CreateLevel`, in any `Write`, in any step of `Close`. -/
theorem step_inv_under_faults (hy : FHyp V) {σ : Store} (hi : Inv V.toWorld σ) (r : FRun Cmd Input)
    (hrm : r.faults.removeWorks = true) : Inv V.toWorld (stepF V σ r).1 := by
  have key : (V.exec r.cmd r.input).early = false →
      ∀ cf, Inv V.toWorld (Store.set σ (name V.H (V.rsum r.input) (V.dsum r.cmd)) (missF V r cf).1) := by
    intro hearly cf
    cases hm : (missF V r cf).1 with
    | none => exact inv_remove V.toWorld hi _
    | some disk =>
      obtain ⟨hdisk, hcm, -⟩ := missF_kept V r cf hrm hm
      intro rs qs body hr hq ho
      by_cases hn : name V.H rs qs = name V.H (V.rsum r.input) (V.dsum r.cmd)
      · have hrl : (V.rsum r.input).length = V.d := hy.base.hH _
        have hql : (V.dsum r.cmd).length = V.d := hy.base.hH _
        simp only [openAt, Store.set, hn, if_true] at ho
        rw [hdisk, hy.hchunks, C13.finish_eq hy.base.hH V.deflate hrl hql] at ho
        have hs := C13.open_sound ho
        unfold finished at hs
        simp only [List.append_assoc] at hs
        have h1 := List.append_inj hs (hrl.trans hr.symm)
        have h2 := List.append_inj h1.2 (hql.trans hq.symm)
        have hbl : (V.H (V.deflate (V.exec r.cmd r.input).out)).length = (V.H body).length := by
          rw [hy.base.hH, hy.base.hH]
        have h3 := List.append_inj h2.2 hbl
        refine ⟨r.cmd, r.input, h1.1.symm, h2.1.symm, hy.base.hcommit _ _ hcm, hearly, ?_⟩
        rw [← h3.2]; exact hy.base.hcodec _
      · rw [openAt_set_ne V.toWorld σ _ _ rs qs hn] at ho; exact hi rs qs body hr hq ho
  unfold stepF
  simp only
  by_cases hb : (r.nocache || !r.usable || (V.exec r.cmd r.input).early) = true
  · rw [if_pos hb]; exact hi
  · rw [if_neg hb]
    have hearly : (V.exec r.cmd r.input).early = false := by
      cases h : (V.exec r.cmd r.input).early
      · rfl
      · exact absurd (by simp [h]) hb
    split
    · split
      · split
        · exact inv_remove V.toWorld hi _
        · exact hi
      · exact hi
    · split
      · exact hi
      · exact key hearly none
      · exact key hearly (some _)

/-- the guard of the `…_partial` theorems on a history: no `os.Remove` of an entry being written fails -/
def removesWork (runs : List (FRun Cmd Input)) : Bool := runs.all fun r => r.faults.removeWorks

/-- **`no_bad_entry_under_faults`, the part that holds**: for ALL histories with ANY fault schedules
in which no `os.Remove` fails (guard `removesWork`: `os.Create`, the placeholder write, every
`Write` of the tee, the final flush, both seeks, the hashing read and the header write may fail, in
any run, in any combination), the invariant "every valid entry is the complete output of a
successful run with that key" holds after the history.

Full statement (FALSE, `no_bad_entry_under_faults_full_refuted`): the same without `removesWork`.
Missing: io.go ignores the result of `os.Remove`; when the removal of a discarded entry fails, the
finalised prefix stays. -/
theorem no_bad_entry_under_faults_partial (hy : FHyp V) : ∀ (runs : List (FRun Cmd Input)) {σ : Store},
    Inv V.toWorld σ → removesWork runs = true → Inv V.toWorld (historyF V σ runs).1
  | [], _, hi, _ => hi
  | r :: rs, _, hi, hg => by
    simp only [removesWork, List.all_cons, Bool.and_eq_true] at hg
    exact no_bad_entry_under_faults_partial hy rs (step_inv_under_faults V hy hi r hg.1) hg.2

/-- **`transparent_under_faults`, the part that holds**: for ALL histories of runs over a shared
cache directory with ANY fault schedules in which no `os.Remove` fails, EVERY run shows the output
bytes and the exit status of the command body run without cache, EXCEPT as the code defines
(`expectF`): a run that tees into a cache file and whose `k`-th `Write` of the tee is the first
with a fault shows the chunks before that call and exits with the status of a body whose write
failed.  No other fault is visible in any run.

Full statement (FALSE, `transparent_under_faults_full_refuted`): the same without `removesWork`. -/
theorem transparent_under_faults_partial (hy : FHyp V) : ∀ (runs : List (FRun Cmd Input)) {σ : Store},
    Inv V.toWorld σ → removesWork runs = true → (historyF V σ runs).2 = expectHistF V σ runs
  | [], _, _, _ => rfl
  | r :: rs, σ, hi, hg => by
    simp only [removesWork, List.all_cons, Bool.and_eq_true] at hg
    simp only [historyF, expectHistF]
    rw [step_transparent_under_faults V hy hi r,
      transparent_under_faults_partial hy rs (step_inv_under_faults V hy hi r hg.1) hg.2]

/-- `expectHistF` when no write fault is scheduled among the calls the bodies make -/
theorem expectHistF_no_write_fault : ∀ (runs : List (FRun Cmd Input)) (σ : Store),
    (∀ r ∈ runs, surfaced V r = none) →
    expectHistF V σ runs = runs.map fun r => (V.exec r.cmd r.input).observed
  | [], _, _ => rfl
  | r :: rs, σ, h => by
    simp only [expectHistF, List.map_cons]
    rw [expectHistF_no_write_fault rs _ (fun x hx => h x (List.mem_cons_of_mem _ hx))]
    simp [expectF, h r (List.mem_cons_self ..)]

/-- **Only a failed `Write` of the tee shows**: in a history whose schedules make no `Write` call of
a body fail (and no `os.Remove`), every run shows the bytes and the status of the uncached run —
whatever fails in `CreateLevel` (`os.Create`, the placeholder write) and in `Close` (the final
flush, the seeks, the hashing read, the header write), in any run. -/
theorem transparent_unless_write_fault (hy : FHyp V) (runs : List (FRun Cmd Input)) {σ : Store}
    (hi : Inv V.toWorld σ) (hg : removesWork runs = true) (hw : ∀ r ∈ runs, surfaced V r = none) :
    (historyF V σ runs).2 = runs.map fun r => (V.exec r.cmd r.input).observed := by
  rw [transparent_under_faults_partial V hy runs hi hg, expectHistF_no_write_fault V runs σ hw]

/-- **Which faults surface as a non-zero exit**: exactly a fault of a `Write` call the body makes,
in a run that tees.  If the `k`-th `Write` is the first with a fault entry, the run shows the first
`k` chunks — a prefix of the uncached output that lacks at least the `k`-th chunk — and the status
of the body whose write failed; when the body heeds write errors (`hheed`: all nineteen commands
return the error) that status is not 0, although the uncached run may exit 0. -/
theorem write_fault_surfaces (hy : FHyp V) {σ : Store} (hi : Inv V.toWorld σ) (r : FRun Cmd Input)
    (ha : armed V σ r = true) {k : Nat} (hk : surfaced V r = some k)
    (hheed : ∀ c i j, j < (V.chunks c i).length → (V.onWriteError c i j).status ≠ 0) :
    (stepF V σ r).2 = faultObserved V r k ∧ (stepF V σ r).2.status ≠ 0 ∧
      k < (V.chunks r.cmd r.input).length ∧
      (stepF V σ r).2.out ++ ((V.chunks r.cmd r.input).drop k).flatten = (V.exec r.cmd r.input).out := by
  have h := step_transparent_under_faults V hy hi r
  simp only [expectF, ha, hk, if_true] at h
  have hlt : k < (V.chunks r.cmd r.input).length := firstFault_lt hk
  refine ⟨h, ?_, hlt, ?_⟩
  · rw [h]; exact hheed _ _ _ hlt
  · rw [h, ← hy.hchunks]
    simp only [faultObserved]
    rw [← List.flatten_append, List.take_append_drop]

/-- **A run whose write failed leaves no entry** (when `os.Remove` works): after it, `cache.Open`
for its key fails — the next identical run starts over. -/
theorem write_fault_leaves_no_entry (σ : Store) (r : FRun Cmd Input)
    (ha : armed V σ r = true) {k : Nat} (hk : surfaced V r = some k)
    (hrm : r.faults.removeWorks = true) :
    openAt V.H V.d (stepF V σ r).1 (V.rsum r.input) (V.dsum r.cmd) = .error .notFound := by
  have hnone : ∀ cf, (missF V r cf).1 = none := by
    intro cf
    cases hm : (missF V r cf).1 with
    | none => rfl
    | some disk =>
      obtain ⟨-, -, hs⟩ := missF_kept V r cf hrm hm
      rw [hs] at hk; cases hk
  unfold armed at ha
  unfold stepF
  simp only
  by_cases hb : (r.nocache || !r.usable || (V.exec r.cmd r.input).early) = true
  · simp [hb] at ha
  · rw [if_neg hb]
    cases ho : openAt V.H V.d σ (V.rsum r.input) (V.dsum r.cmd) with
    | ok body => simp [ho] at ha
    | error e =>
      cases hc : r.faults.create with
      | osCreate => simp [hc] at ha
      | works => simp only [hnone]; exact openAt_set_none V.toWorld σ _ _
      | placeholder j => simp only [hnone]; exact openAt_set_none V.toWorld σ _ _

/-! ### a toy world with chunks; the refutation

Digest `toyH` (one byte: the sum), root sum `[7]`, data sum `[9]`, entry name `"10"`.  The body
writes `[1, 2]` and `[3]` and exits 0; when a write fails it exits 1 without `Commit`.  Codec:
`marker = true` — the stream of `w` is `w ++ [255]` and a stream without the end marker does not
inflate (what a truncated deflate stream does: the reader delivers what it can decode, then fails);
`marker = false` — the identity codec of the C13 witnesses. -/

/-- toy `deflate`: the bytes followed by an end marker -/
def markDeflate (w : Bytes) : Bytes := w ++ [255]

/-- toy `inflate`: a stream that does not end in the marker is corrupt -/
def markInflate (s : Bytes) : Option Bytes := if s.getLast? = some 255 then some s.dropLast else none

def faultWorld (marker : Bool) : FWorld Unit Unit where
  H := C13.toyH
  d := 1
  deflate := if marker then markDeflate else id
  inflate := if marker then markInflate else some
  inflatePrefix := fun s => if marker then s else []
  exec := fun _ _ => ⟨[1, 2, 3], 0, true, false⟩
  payload := fun _ => [9]
  content := fun _ => [7]
  chunks := fun _ _ => [[1, 2], [3]]
  onWriteError := fun _ _ _ => ⟨1, false⟩

/-- a run of the toy command under a schedule -/
def faultRun (f : Faults) : FRun Unit Unit := ⟨(), (), false, false, true, f⟩

/-- non-vacuity: both toy worlds meet every hypothesis of the fault theorems -/
theorem faultWorld_hyp (marker : Bool) : FHyp (faultWorld marker) where
  base := {
    hH := C13.toyH_size
    hcodec := by
      intro w
      cases marker
      · rfl
      · simp [faultWorld, markInflate, markDeflate]
    hkey := fun _ _ _ _ _ _ => rfl
    hcommit := fun _ _ _ => rfl }
  hchunks := fun _ _ => rfl

/-- … and the bodies heed write errors -/
theorem faultWorld_heeds (marker : Bool) :
    ∀ c i j, j < ((faultWorld marker).chunks c i).length → ((faultWorld marker).onWriteError c i j).status ≠ 0 := by
  intro _ _ _ _; simp [faultWorld]

/-- the schedule of the refutation: the second `Write` fails with 2 bytes of the stream on disk,
and the `os.Remove` in `Close` fails -/
def badSchedule : Faults := { writes := [none, some 2], rmClose := true }

/-- what the faulty run leaves: `r ‖ q ‖ H [1,2] ‖ [1,2]` — a finalised entry over a prefix -/
example : (stepF (faultWorld true) emptyStore (faultRun badSchedule)).1 "10" = some [7, 9, 3, 1, 2] := by
  decide

/-- **`no_bad_entry_under_faults` is FALSE when `os.Remove` can fail** (full statement: for all
histories and ALL fault schedules the invariant holds afterwards).  One run: the second `Write` of
the tee fails (2 of the 4 stream bytes are on disk), `cache.Close()` reports it — and still writes a
header that verifies over the prefix (C13 `failed_close_entry_verifies`) —, `Close` calls `os.Remove`,
which fails.  The entry `cache.Open` accepts afterwards is not the output of any run. -/
theorem no_bad_entry_under_faults_full_refuted :
    ¬ (∀ runs : List (FRun Unit Unit),
        Inv (faultWorld true).toWorld (historyF (faultWorld true) emptyStore runs).1) := by
  intro h
  obtain ⟨c, i, -, -, -, -, hinf⟩ := h [faultRun badSchedule] [7] [9] [1, 2] rfl rfl (by decide)
  cases c; cases i
  revert hinf
  decide

/-- **`transparent_under_faults` is FALSE when `os.Remove` can fail**: the two-run history "fault in
run 1, wrong bytes served in run 2".  Run 1 (schedule `badSchedule`) shows `[1, 2]` and exits 1 — as
the code defines.  Run 2 has NO fault at all, so the code defines the uncached observation
`[1, 2, 3]`, status 0 — but `cache.Open` accepts the entry run 1 left, the copy delivers `[1, 2]` and
fails on the truncated stream, the body then runs uncached: `[1, 2, 1, 2, 3]`, status 0.
(Replayed on the binary: harness case `unremovable` of `cli.faulthist`.) -/
theorem transparent_under_faults_full_refuted :
    (historyF (faultWorld true) emptyStore [faultRun badSchedule, faultRun {}]).2
      = [⟨[1, 2], 1⟩, ⟨[1, 2, 1, 2, 3], 0⟩] ∧
    expectHistF (faultWorld true) emptyStore [faultRun badSchedule, faultRun {}]
      = [⟨[1, 2], 1⟩, ⟨[1, 2, 3], 0⟩] ∧
    ¬ (∀ runs : List (FRun Unit Unit),
        (historyF (faultWorld true) emptyStore runs).2 = expectHistF (faultWorld true) emptyStore runs) := by
  have h1 : (historyF (faultWorld true) emptyStore [faultRun badSchedule, faultRun {}]).2
      = [⟨[1, 2], 1⟩, ⟨[1, 2, 1, 2, 3], 0⟩] := by decide
  have h2 : expectHistF (faultWorld true) emptyStore [faultRun badSchedule, faultRun {}]
      = [⟨[1, 2], 1⟩, ⟨[1, 2, 3], 0⟩] := by decide
  refine ⟨h1, h2, fun h => ?_⟩
  have := h [faultRun badSchedule, faultRun {}]
  rw [h1, h2] at this
  revert this
  decide

/-- with a codec whose prefixes inflate (identity) the second run is a plain HIT on the prefix:
`[1, 2]`, status 0 -/
example : (historyF (faultWorld false) emptyStore [faultRun badSchedule, faultRun {}]).2
    = [⟨[1, 2], 1⟩, ⟨[1, 2], 0⟩] := by decide

/-- a fault of the final flush instead of a `Write` (C13 `failed_close_may_verify`): run 1 is
transparent (`[1, 2, 3]`, status 0: the error of `cache.Close()` is swallowed), run 2 is not -/
example : (historyF (faultWorld true) emptyStore
      [faultRun { close := { flush := some 2 }, rmClose := true }, faultRun {}]).2
    = [⟨[1, 2, 3], 0⟩, ⟨[1, 2, 1, 2, 3], 0⟩] := by decide

/-- the other ignored `os.Remove` (C13 `create_error_must_be_heeded`): the placeholder write fails
after 1 byte and the `os.Remove` in `TryCache` fails; every `Write` and `Close` return nil, the run
commits, the entry stays — run 2 is a hit that shows `[3]` -/
example : (historyF (faultWorld true) emptyStore
      [faultRun { create := .placeholder 1, rmCreate := true }, faultRun {}]).2
    = [⟨[1, 2, 3], 0⟩, ⟨[3], 0⟩] := by decide

/-- the same schedules with a working `os.Remove`: both runs show the uncached bytes, except the
run whose write failed — `transparent_under_faults_partial` instantiated -/
example : (historyF (faultWorld true) emptyStore
      [faultRun { writes := [none, some 2] }, faultRun { close := { flush := some 2 } },
       faultRun { create := .placeholder 1 }, faultRun { create := .osCreate }, faultRun {}, faultRun {}]).2
    = [⟨[1, 2], 1⟩, ⟨[1, 2, 3], 0⟩, ⟨[1, 2, 3], 0⟩, ⟨[1, 2, 3], 0⟩, ⟨[1, 2, 3], 0⟩, ⟨[1, 2, 3], 0⟩] := by
  rw [transparent_under_faults_partial (faultWorld true) (faultWorld_hyp true) _ (inv_empty _) (by decide)]
  decide

/-- non-vacuity of `no_bad_entry_under_faults_partial`: after these six runs the directory holds the
entry of the fifth, the first with no fault at all (the sixth is a hit) -/
example : (historyF (faultWorld true) emptyStore
      [faultRun { writes := [none, some 2] }, faultRun { close := { flush := some 2 } },
       faultRun { create := .placeholder 1 }, faultRun { create := .osCreate }, faultRun {}, faultRun {}]).1 "10"
    = some [7, 9, 5, 1, 2, 3, 255] := by decide

/-- non-vacuity of `write_fault_surfaces` / `write_fault_leaves_no_entry`: the first run of that
history tees, its second `Write` is the first to fail -/
example : armed (faultWorld true) emptyStore (faultRun { writes := [none, some 2] }) = true ∧
    surfaced (faultWorld true) (faultRun { writes := [none, some 2] }) = some 1 ∧
    (faultRun { writes := [none, some 2] } : FRun Unit Unit).faults.removeWorks = true := by decide

/-- non-vacuity of `transparent_unless_write_fault`: faults in `CreateLevel` and `Close` only -/
example : (historyF (faultWorld true) emptyStore
      [faultRun { close := { header := some 1 } }, faultRun { create := .placeholder 0, close := { seekStart := some 0 } }]).2
    = [⟨[1, 2, 3], 0⟩, ⟨[1, 2, 3], 0⟩] :=
  transparent_unless_write_fault (faultWorld true) (faultWorld_hyp true) _ (inv_empty _) (by decide)
    (by decide)

/-- a write fault surfaces even when the entry has been given up already: the placeholder write
fails (the name is removed), the tee goes on into the unlinked file, its first `Write` fails — the
command fails with no output, and nothing is left (harness case "placeholder fails, then a write") -/
example : (stepF (faultWorld true) emptyStore (faultRun { create := .placeholder 1, writes := [some 0] })).2
    = ⟨[], 1⟩ := by decide

example : (stepF (faultWorld true) emptyStore (faultRun { create := .placeholder 1, writes := [some 0] })).1 "10"
    = none := by decide

/-- non-vacuity of `stepF_nofault` -/
example : stepF (faultWorld true) emptyStore (faultRun {})
    = step (faultWorld true).toWorld emptyStore ((faultRun {}).toRun true) :=
  stepF_nofault (faultWorld true) (fun _ _ => rfl) _ _ rfl

end faults

end Gts.C14
