/-
  C01 — GenBank records written by gts read back identically (closure + fidelity).
  Property theorems only (models: Gts/Model/GenBank.lean, InsdcParse.lean, GenBankParse.lean;
  helper lemmas: Gts/Lemmas/Gb*.lean, ParsRun.lean).

  Every theorem is a statement about the executable models of the WRITER (`GenBank.String`,
  `INSDCFormatter`, `QualifierIO.String`) and of the READER (`GenBankParser` and its sub-parsers on
  the `Gts.Pars` state model), which the check ties to /repo by the correspondence ops `gb.*`.
  Shape of a statement: the sub-parser, run on the text the writer produces for a value of the
  stated decidable domain, followed by ANY text that does not look like a continuation, returns
  the value, leaves exactly that following text and the backtracking stack as it found it.

  The location column of the feature table is taken from C06: `LocRT l` (the printed location is
  read back by `ParseLocation` in front of a line feed) holds for every canonical location
  (`Loc.canonP`, C06 `parse_print_fuel`): `locations_from_C06`.  The `_canon` theorems use that and
  have only decidable hypotheses.

  Known findings (each: the refuted full statement at a witness, and the `_partial` theorem whose
  guard excludes exactly the finding's shape):
    K1A  the ` REGION: a..b` suffix is read back into Accession        (accession_*)
    K1E  a double quote inside a quoted value ends the value           (quote_*)
  Repaired in /repo and therefore plain positive theorems now: the organism name (F27, repo 69bb3bf:
  written unwrapped), the SOURCE text (F28, repo 3d74d27: written as it is), toggle qualifiers (F29,
  repo 2dd2956: the value reads back empty) — `source_roundtrip`, `toggle_roundtrip`.

  Beyond read ∘ write (sections at the end of the file):
    byte fixed point     write reg' (readBack reg r p) = write reg r, per field group and composed
                         (`write_read_write_partial`, guard `namesAdjacent`; full statement refuted at a
                         hand-built `Props` with a repeated, NON-adjacent row name: order only, since
                         repo 7b61a9a no value is lost — `write_keeps_every_value`), second generation without guard
                         (`reread_fixed_point`, `read_back_idempotent`)
    learning             reading under a registry that has learned names, streams in which records
                         teach the registry names (`read_stream_learning`), learning never changes what
                         is written (`write_learned_same`, `write_pipeline_same`)
    closure              `Writable` under reverse / complement / rotate / delete / erase / insert /
                         embed / concat (`writable_*`), `WritableRecord` under complement; `WritableRecord`
                         (canonical locations included) under the other edits: `Gts/Props/C01Canon.lean`
    CRLF input           the CRLF translation of the written text (every line feed replaced by CR LF) read
                         by `GenBankParser`: exactly `readBackC` (`read_write_crlf_exact`) — the record of the
                         LF reading except that a value written between quotes comes back with CR LF where it
                         had a line feed (finding F36: `read_write_crlf_full_refuted`, witness replayed on the
                         real code); the same record, registry and rest as the LF reading under the guard
                         `quotedOneLine` (`read_write_crlf_partial`); streams (`read_stream_crlf_*`)
-/
import Gts.Lemmas.GbReadWrite
import Gts.Lemmas.GbFixed
import Gts.Lemmas.GbLearn
import Gts.Lemmas.GbSecond
import Gts.Lemmas.GbEdit
import Gts.Lemmas.GbLocRT
import Gts.Lemmas.GbProps
import Gts.Lemmas.GbCrlfReadWrite
import Gts.Bridge.GenBankWrite
namespace Gts.C01
open Gts Gts.Pars Gts.GenBank

/-! ## qualifiers -/

/-- **Qualifier round trip (quoted / literal / toggle / unknown, continuation lines at the indent).**
`QualifierParser(prefix)` on the text of `QualifierIO.Format(prefix)`: the same name and the same
value; the registry only grows: an unknown name is learned as quoted.
Domain `WritableQualifier`: a snake-case name; quoted/unknown: the value survives the quote scan of
`pars.Quoted` and no line feed in it is followed by the whole indent; literal: no carriage return, no
continuation line starting with `/`; toggle: the empty value (a toggle has none: the writer writes
`/name`). -/
theorem qualifier_roundtrip (reg : Registry) (d : Nat) (name value rest : Bytes) (stk : List Bytes)
    (hw : WritableQualifier reg d name value = true) (hstop : litStop d rest) :
    qualifier (sp d) reg ⟨qualifierFmt reg (sp d) name value ++ 10 :: rest, stk⟩ =
      (.ok ((name, value), learn reg name), ⟨rest, stk⟩) ∧
    reg.le (learn reg name) := by
  refine ⟨?_, learn_le reg name⟩
  have := GenBank.qualifier_roundtrip reg d name value rest stk hw hstop
  rwa [readValue_eq reg d name value hw] at this

/-- non-vacuity: a three-line quoted value (with a line starting with a slash and one starting with
20 blanks), a literal value with a continuation line, a toggle, and an unknown name are in the
domain under the initial registry -/
example :
    WritableQualifier Registry.default 21 (bs "note") (bs "first\n/second\n                    third \\\" x") = true ∧
    WritableQualifier Registry.default 21 (bs "transl_except") (bs "(pos:1..3,\n aa:Met)") = true ∧
    WritableQualifier Registry.default 21 (bs "pseudo") [] = true ∧
    WritableQualifier Registry.default 21 (bs "my_tag") (bs "v") = true ∧
    Registry.default.typeOf (bs "my_tag") = .unknown := by decide +kernel

/-- **Toggle qualifiers** (formerly known finding K1D, repaired by repo 2dd2956): a toggle is
written as `/name` and reads back with the empty value — under every registry that lists the name
as a toggle, whatever follows. -/
theorem toggle_roundtrip (reg : Registry) (d : Nat) (name rest : Bytes) (stk : List Bytes)
    (hn : nameOk name = true) (ht : reg.typeOf name = .toggle) (hstop : litStop d rest) :
    qualifier (sp d) reg ⟨qualifierFmt reg (sp d) name [] ++ 10 :: rest, stk⟩ =
      (.ok ((name, []), reg), ⟨rest, stk⟩) := by
  have hw : WritableQualifier reg d name [] = true := by simp [WritableQualifier, hn, ht]
  have := (qualifier_roundtrip reg d name [] rest stk hw hstop).1
  simpa [learn, ht] using this

/-- … and what the writer cannot represent: a value given to a toggle through the API is not
written, so it comes back empty (this is the domain clause `value = []` of `WritableQualifier`,
not a defect of the reader). -/
theorem toggle_value_not_written (reg : Registry) (name value : Bytes) (ht : reg.typeOf name = .toggle) :
    qualifierText reg name value = qualifierText reg name [] := by
  simp [qualifierText, ht]

/-- K1E, FULL STATEMENT (false): "every value of a quoted qualifier reads back".  Witness: `/note`
with the value `a"b` reads back as `a` (and what follows is no longer read as this feature's). -/
theorem quote_full_refuted :
    ((qualifier (sp 21) Registry.default).run'
        ⟨qualifierFmt Registry.default (sp 21) (bs "note") (bs "a\"b") ++ [10], []⟩).1 =
      .ok ((bs "note", bs "a"), Registry.default) ∧
    quotedOk 21 (bs "a\"b") = false := by
  decide +kernel

/-- **Qualifier lines of a feature** (`pars.Many(QualifierParser)`): all items in order, the registry
threaded from item to item: names learned on the way do not change how the rest of the text —
written under the initial registry — is read. -/
theorem qualifier_lines_roundtrip (reg : Registry) (d : Nat) (items : List (Bytes × Bytes)) (rest : Bytes)
    (stk : List Bytes) (hw : ∀ kv ∈ items, WritableQualifier reg d kv.1 kv.2 = true)
    (hrest : (sp d).isPrefixOf rest = false) :
    qualifiers (sp d) (items.length + 1) reg [] ⟨qualLines reg d items ++ rest, stk⟩ =
      (.ok (items, learnAll reg items), ⟨rest, stk⟩) ∧
    reg.le (learnAll reg items) := by
  refine ⟨?_, learnAll_le reg items⟩
  have := qualifiers_roundtrip reg d items rest stk reg [] (items.length + 1) (sameText_refl reg) hw hrest (by omega)
  have hid : items.map (fun kv => (kv.1, readValue reg kv.1 kv.2)) = items := by
    have : ∀ kv ∈ items, (kv.1, readValue reg kv.1 kv.2) = kv := fun kv hkv => by
      rw [readValue_eq reg d kv.1 kv.2 (hw kv hkv)]
    exact (List.map_congr_left this).trans (List.map_id _)
  rw [hid] at this
  simpa using this

/-! ## feature table -/

/-- **FEATURES round trip.**  The section `GenBank.String` writes for a non-empty table (header
line, key lines with the 5+16 column layout, qualifier lines at column 21, final line feed), read by
`genbankFeatureParser`: THE SAME TABLE — keys, locations, qualifier names, values and their order —
and the registry only grows.  Domain `tableFaithful`: keys are snake-case words of 1..15 bytes,
every `Props` is what `Props.Add` builds (rows `name :: value :: …` with pairwise distinct names),
every written item is a `WritableQualifier`; locations satisfy `LocRT` (C06).  The text behind the
table must not start with five blanks. -/
theorem features_roundtrip (reg : Registry) (ft : QFeature) (fs : List QFeature) (rest : Bytes)
    (stk : List Bytes) (hw : tableFaithful reg (ft :: fs) = true) (hloc : ∀ x ∈ ft :: fs, LocRT x.loc)
    (hrest : (sp 5).isPrefixOf rest = false) :
    (∃ t, tableText reg (ft :: fs) = .ok t ∧
      featuresField reg ⟨bs "FEATURES             Location/Qualifiers\n" ++ (t ++ 10 :: rest), stk⟩ =
        (.ok (ft :: fs, learnTable reg (ft :: fs)), ⟨rest, []⟩)) ∧
    reg.le (learnTable reg (ft :: fs)) := by
  refine ⟨?_, learnTable_le reg _⟩
  have hw' := hw
  simp only [tableFaithful, Bool.and_eq_true] at hw'
  have := GenBank.features_roundtrip reg ft fs rest stk hw'.1 hloc hrest
  rwa [readTable_eq reg (ft :: fs) hw] at this

/-- non-vacuity of the Boolean part of the table domain -/
example : tableFaithful Registry.default
    [⟨bs "source", .ranged 0 10 false false, [[bs "organism", bs "Homo sapiens"], [bs "focus", bs ""]]⟩,
     ⟨bs "x23456789012345", .point 3, [[bs "zzz", bs "learned"], [bs "codon_start", bs "1"]]⟩] = true := by
  decide +kernel

/-! ## LOCUS line and date -/

/-- **Date round trip**: `AsDate` of `strings.ToUpper(Format("02-Jan-2006"))` is the date, for every
valid calendar date of the years 0..9999 (by arithmetic on the digits, not by enumeration). -/
theorem date_roundtrip (d : Date) (h : d.valid = true) : asDate d.text = some d :=
  GenBank.date_roundtrip d h

example : (⟨2000, 2, 29⟩ : Date).valid = true ∧ (⟨1900, 2, 29⟩ : Date).valid = false ∧
    (⟨0, 1, 1⟩ : Date).valid = true ∧ (⟨9999, 12, 31⟩ : Date).valid = true := by decide

/-- **LOCUS line round trip**: `genbankLocusParser` on the written line: field depth 12, name,
length, molecule, topology word, division, date.  Domain `locusOk`: name and molecule are non-empty
words without white space, topology 0/1, division empty or three upper-case letters, a valid date,
`0 ≤ length ≤ 2^63-1`. -/
theorem locus_roundtrip (f : Fields) (length : Int) (rest : Bytes) (stk : List Bytes)
    (h : locusOk f length = true) :
    locusParser ⟨locusLine f length ++ 10 :: rest, stk⟩ =
      (.ok ⟨12, f.locusName, length, f.molecule, topologyText f.topology, f.division, f.date⟩, ⟨rest, stk⟩) :=
  GenBank.locus_roundtrip f length rest stk h

def locusWitness : Fields :=
  { Fields.empty with locusName := bs "NC_000913", molecule := bs "ss-DNA", topology := 1, division := bs "CON", date := ⟨2018, 10, 11⟩ }

example : locusOk locusWitness 4641652 = true ∧
    locusOk { Fields.empty with locusName := bs "X", molecule := bs "AA", date := ⟨1, 1, 1⟩ } 0 = true := by
  decide +kernel

/-! ## header fields -/

/-- **DEFINITION**: every text without carriage return (continuation lines may start with any
number of blanks; the final period is the writer's). -/
theorem definition_roundtrip (f : Fields) (v rest : Bytes) (stk : List Bytes) (hv : noCR v = true)
    (hrest : (sp 12).isPrefixOf rest = false) :
    definitionField 12 f ⟨bs "DEFINITION  " ++ (addPrefix indent v ++ (bs ".\n" ++ rest)), stk⟩ =
      (.ok ({ f with definition := v }, true), ⟨rest, stk⟩) :=
  GenBank.definition_roundtrip f v rest stk hv hrest

/-- **ACCESSION**: the LINE comes back (one line, no CR/LF). -/
theorem accession_line_roundtrip (f : Fields) (l rest : Bytes) (stk : List Bytes) (hl : noEOL l = true)
    (hrest : (sp 12).isPrefixOf rest = false) :
    accessionField 12 f ⟨bs "ACCESSION   " ++ (l ++ 10 :: rest), stk⟩ =
      (.ok ({ f with accession := l }, true), ⟨rest, stk⟩) :=
  GenBank.accession_roundtrip f l rest stk hl hrest

/-- K1A, FULL STATEMENT (false): "the accession reads back".  For EVERY record with a region the
re-read accession is longer than the written one. -/
theorem accession_region_full_refuted (f g : Fields) (rest : Bytes) (stk : List Bytes) (h t : Int)
    (hr : f.region = some (h, t)) (hht : h < t) (hl : noEOL (accessionLine f) = true)
    (hrest : (sp 12).isPrefixOf rest = false) :
    ∃ g', accessionField 12 g ⟨bs "ACCESSION   " ++ (accessionLine f ++ 10 :: rest), stk⟩ =
        (.ok (g', true), ⟨rest, stk⟩) ∧ g'.accession ≠ f.accession := by
  refine ⟨_, GenBank.accession_roundtrip g _ rest stk hl hrest, ?_⟩
  have hnot : ¬ t ≤ h := by omega
  simp only [accessionLine, hr, hnot, if_false]
  intro e
  have := congrArg List.length e
  simp [bs] at this

/-- K1A, proved part: without a region (`noRegion`) the accession reads back. -/
theorem accession_partial (f g : Fields) (rest : Bytes) (stk : List Bytes) (noRegion : f.region = none)
    (hl : noEOL f.accession = true) (hrest : (sp 12).isPrefixOf rest = false) :
    accessionField 12 g ⟨bs "ACCESSION   " ++ (accessionLine f ++ 10 :: rest), stk⟩ =
      (.ok ({ g with accession := f.accession }, true), ⟨rest, stk⟩) := by
  have e : accessionLine f = f.accession := by simp [accessionLine, noRegion]
  rw [e]
  exact GenBank.accession_roundtrip g _ rest stk hl hrest

/-- **VERSION** (one line). -/
theorem version_roundtrip (f : Fields) (l rest : Bytes) (stk : List Bytes) (hl : noEOL l = true)
    (hrest : (sp 12).isPrefixOf rest = false) :
    versionField 12 f ⟨bs "VERSION     " ++ (l ++ 10 :: rest), stk⟩ =
      (.ok ({ f with version := l }, true), ⟨rest, stk⟩) :=
  GenBank.version_roundtrip f l rest stk hl hrest

/-- **DBLINK**: pairs on one line each, no colon in the key, non-empty value; they are `Set` into
the dictionary in order — for pairwise distinct keys that is the list itself. -/
theorem dblink_roundtrip (f : Fields) (p : Bytes × Bytes) (ps : List (Bytes × Bytes)) (rest : Bytes)
    (stk : List Bytes) (hps : ∀ q ∈ p :: ps, pairOk q = true) (hd : distinctKeys (p :: ps) = true)
    (hf : f.dblink = []) (hrest : (sp 12).isPrefixOf rest = false) :
    dblinkField 12 f ⟨dblinkText (p :: ps) true ++ rest, stk⟩ =
      (.ok ({ f with dblink := p :: ps }, true), ⟨rest, stk⟩) := by
  have := GenBank.dblink_roundtrip f p ps rest stk hps hrest
  rw [hf, dictSetAll_distinct [] (p :: ps) hd (by simp)] at this
  simpa using this

/-- **KEYWORDS** with `wrap.Space(…, 67)`: domain `listOk` — the joined list has no carriage
return, survives wrapping + re-joining with blanks, and `FlatFileSplit` gives the list back
(decidable; true for every list whose joined text fits one line and whose entries are free of
`; `). -/
theorem keywords_roundtrip (f : Fields) (kws : List Bytes) (rest : Bytes) (stk : List Bytes)
    (h : listOk kws = true) (hrest : (sp 12).isPrefixOf rest = false) :
    keywordsField 12 f
        ⟨bs "KEYWORDS    " ++ (addPrefix indent (wrapSpace (joinWith (bs "; ") kws ++ [46])) ++ 10 :: rest), stk⟩ =
      (.ok ({ f with keywords := kws }, true), ⟨rest, stk⟩) :=
  GenBank.keywords_roundtrip f kws rest stk h hrest

/-- non-vacuity, including a list that is wrapped onto three lines and one with an empty list -/
example : listOk [bs "RefSeq", bs "complete genome"] = true ∧ listOk [] = true ∧
    listOk [bs "aaaaaaaaa bbbbbbbbb ccccccccc ddddddddd eeeeeeeee fffffffff ggggggggg hhhhhhhhh",
      bs "iiiiiiiii jjjjjjjjj kkkkkkkkk lllllllll mmmmmmmmm nnnnnnnnn ooooooooo ppppppppp qqqqqqqqq"] = true := by
  decide +kernel

/-- **SOURCE / ORGANISM / taxonomy.**  The species text (any text without carriage return, of any
length, with or without line feeds — written as it is since repo 3d74d27, formerly known finding
K1C), the organism name (domain `organismOk`: one line that does not start with a blank; written
unwrapped since repo 69bb3bf, formerly known finding K1B) and the taxonomy list (domain `taxonOk`)
come back. -/
theorem source_roundtrip (f : Fields) (species name : Bytes) (taxon : List Bytes) (rest : Bytes)
    (stk : List Bytes) (hs : noCR species = true) (hn : organismOk name = true)
    (ht : taxonOk taxon = true) (hrest : (sp 12).isPrefixOf rest = false) :
    sourceField 12 f
        ⟨bs "SOURCE      " ++ (addPrefix indent species ++ 10 ::
          (bs "  ORGANISM  " ++ (addPrefix indent name ++ 10 ::
          (indent ++ (addPrefix indent (wrapSpace (joinWith (bs "; ") taxon ++ [46])) ++ 10 :: rest))))), stk⟩ =
      (.ok ({ f with species := species, organism := name, taxon := taxon }, true), ⟨rest, stk⟩) :=
  GenBank.source_roundtrip f species name taxon rest stk hs hn ht hrest

/-- the witness of the former findings K1B / K1C: a text that `wrap.Space(…, 67)` would break -/
def wrapWitness : Bytes := List.replicate 40 97 ++ [32] ++ List.replicate 40 98

/-- non-vacuity: the texts on which K1B and K1C failed are in the domain now, and so is a species
text with line feeds -/
example : wrapSpace wrapWitness ≠ wrapWitness ∧ organismOk wrapWitness = true ∧ noCR wrapWitness = true ∧
    noCR (bs "Escherichia coli\n  str. K-12") = true := by
  decide +kernel

/-- **REFERENCE**: head line (number, padding, info) and the sub-fields AUTHORS, CONSRTM, TITLE,
JOURNAL, PUBMED, REMARK that are present.  Domain `referenceOk`: `0 ≤ number`, info on one line and
not starting with a digit when the number has three or more digits (761240c: no padding then),
sub-field values without carriage return that do not start with a blank, PUBMED on one line.  What
follows must start neither with a blank nor with a sub-field name (`refStop`). -/
theorem reference_roundtrip (f : Fields) (r : Reference) (more : Bytes) (stk : List Bytes)
    (h : referenceOk r = true) (hstop : refStop more = true) :
    (∃ t, referenceText r = .ok t ∧ t = refHead r ++ 10 :: subLinesText (presentLines r)) ∧
    referenceField 12 f ⟨refHead r ++ 10 :: (subLinesText (presentLines r) ++ more), stk⟩ =
      (.ok ({ f with references := f.references ++ [r] }, true), ⟨more, stk⟩) := by
  refine ⟨⟨_, referenceText_eq r ?_, rfl⟩, GenBank.reference_roundtrip f r more stk h hstop⟩
  intro v hv
  simp only [referenceOk, Bool.and_eq_true] at h
  have := h.1.2
  rw [hv] at this; exact this

example : referenceOk ⟨1, bs "(bases 1 to 5386)", bs "Sanger,F.\nand others", [], bs "Nucleotide sequence", bs "J. Mol. Biol.",
    some (bs "731693"), []⟩ = true ∧ referenceOk ⟨1000, [], [], [], [], [], none, []⟩ = true := by
  decide +kernel

/-- **COMMENT**: every text without carriage return; comments accumulate in order. -/
theorem comment_roundtrip (f : Fields) (v rest : Bytes) (stk : List Bytes) (hv : noCR v = true)
    (hrest : (sp 12).isPrefixOf rest = false) :
    commentField 12 f ⟨bs "COMMENT     " ++ (addPrefix indent v ++ 10 :: rest), stk⟩ =
      (.ok ({ f with comments := f.comments ++ [v] }, true), ⟨rest, stk⟩) :=
  GenBank.comment_roundtrip f v rest stk hv hrest

/-- **extra field** (default formatter): domain `WritableExtra`. -/
theorem extra_roundtrip (f : Fields) (name value rest : Bytes) (stk : List Bytes)
    (hw : WritableExtra name value = true) (hrest : (sp 12).isPrefixOf rest = false) :
    extraField 12 f ⟨extraText name value ++ 10 :: rest, stk⟩ =
      (.ok ({ f with extra := f.extra ++ [(name, value)] }, true), ⟨rest, stk⟩) :=
  GenBank.extra_roundtrip f name value rest stk hw hrest

/-- **CONTIG**: domain `contigOk`. -/
theorem contig_roundtrip (f g : Fields) (rest : Bytes) (stk : List Bytes) (h : contigOk g = true) :
    contigField 12 f ⟨bs "CONTIG      " ++ (contigText g ++ rest), stk⟩ =
      (.ok ({ f with contigAcc := g.contigAcc, contigHead := g.contigHead, contigTail := g.contigTail }, true),
        ⟨rest, stk⟩) :=
  GenBank.contig_roundtrip f g rest stk h

/-- **ORIGIN**: printable residues (fewer than 10^9) are read on the fast path; the reader keeps the
written block, which decodes to the residues (C16 `bytes_roundtrip`). -/
theorem origin_roundtrip (p rest : Bytes) (stk : List Bytes) (hp : ∀ c ∈ p, Origin.isBase c = true)
    (hlen : p.length < 10 ^ 9) (hrest : rest.head? ≠ some 32) :
    originField (p.length : Int) 12 ⟨bs "ORIGIN      \n" ++ (Origin.originStream p ++ rest), stk⟩ =
      (.ok (Origin.originStream p), ⟨rest, []⟩) ∧
    Origin.newOrigin p = .ok (Origin.originStream p) ∧ Origin.originBytes (Origin.originStream p) = .ok p :=
  ⟨GenBank.origin_roundtrip p rest stk hp hlen hrest, Origin.newOrigin_ok p hlen, Origin.originBytes_originStream p hlen⟩

/-! ## dispatch and framing -/

/-- **One pass of the record loop**: a DEFINITION section is taken by its own sub-parser (the same
holds for every section; `SecOK`), and `//` + line feed ends the record, leaving the rest of the
stream untouched. -/
theorem definition_section (length : Int) (v : Bytes) (hv : noCR v = true) : SecOK length (secDefinition v) :=
  secDefinition_ok length v hv

theorem record_end (length : Int) (k : Nat) (s : Sub) (rest : Bytes) :
    recordLoop length 12 (k + 1) s ⟨bs "//\n" ++ rest, []⟩ = (.ok s, ⟨rest, []⟩) :=
  loop_end length k s rest

/-- **C06 → C01**: the printed form of every canonical location is read back by `ParseLocation` at
the end of a key line. -/
theorem locations_from_C06 (l : Loc) (h : Loc.canonP l = true) : LocRT l := locRT_of_canon l h

/-- the FEATURES round trip with decidable hypotheses only -/
theorem features_roundtrip_canon (reg : Registry) (ft : QFeature) (fs : List QFeature) (rest : Bytes)
    (stk : List Bytes) (hw : tableWritable reg (ft :: fs) = true)
    (hloc : (ft :: fs).all (fun x => Loc.canonP x.loc) = true) (hrest : (sp 5).isPrefixOf rest = false) :
    ∃ t, tableText reg (ft :: fs) = .ok t ∧
      featuresField reg ⟨bs "FEATURES             Location/Qualifiers\n" ++ (t ++ 10 :: rest), stk⟩ =
        (.ok ((ft :: fs).map (readFeature reg), learnTable reg (ft :: fs)), ⟨rest, []⟩) :=
  GenBank.features_roundtrip reg ft fs rest stk hw
    (fun x hx => locRT_of_canon x.loc (List.all_eq_true.mp hloc x hx)) hrest

/-! ## the composition -/

/-- **read (write r).**  For a record of the decidable domain `Writable reg r p` (`p` its residues;
locations satisfy `LocRT`), `GenBank.String` succeeds and `GenBankParser`, run on that text followed
by ANY further text `rest'`, returns `readBack reg r p`, consumes exactly the record's text, and
ends with the registry `learnTable reg r.table ⊇ reg`.  `readBack` is the record itself except for
the accession, which carries the REGION suffix while the region is gone (known finding K1A); the
table comes back feature by feature as `readFeature` (the written items added back one by one: the
feature itself under `tableFaithful`); the residues are kept as the written block. -/
theorem read_write (reg : Registry) (r : Record) (p : Bytes) (ho : r.origin = .residues p)
    (hw : Writable reg r p = true) (hloc : ∀ x ∈ r.table, LocRT x.loc) (rest' : Bytes) :
    (∃ t, write reg r = .ok t ∧ t ≠ [] ∧
      genbankParser reg ⟨t ++ rest', []⟩ = (.ok (readBack reg r p, learnTable reg r.table), ⟨rest', []⟩)) ∧
    reg.le (learnTable reg r.table) :=
  ⟨GenBank.read_write reg r p ho hw hloc rest', learnTable_le reg r.table⟩

/-- the decidable domain of the whole round trip: `Writable` and canonical locations (C06) -/
def WritableRecord (reg : Registry) (r : Record) (p : Bytes) : Bool :=
  Writable reg r p && r.table.all fun f => Loc.canonP f.loc

/-- **read (write r)** with decidable hypotheses only. -/
theorem read_write_canon (reg : Registry) (r : Record) (p : Bytes) (ho : r.origin = .residues p)
    (hw : WritableRecord reg r p = true) (rest' : Bytes) :
    ∃ t, write reg r = .ok t ∧
      genbankParser reg ⟨t ++ rest', []⟩ = (.ok (readBack reg r p, learnTable reg r.table), ⟨rest', []⟩) := by
  simp only [WritableRecord, Bool.and_eq_true] at hw
  obtain ⟨t, h1, _, h2⟩ := GenBank.read_write reg r p ho hw.1
    (fun x hx => locRT_of_canon x.loc (List.all_eq_true.mp hw.2 x hx)) rest'
  exact ⟨t, h1, h2⟩

/-- **fidelity**, proved part: with no region (`noRegion`, known finding K1A) the header fields that
come back are the fields that were written; a table of the domain `tableFaithful` comes back as the
same table; the residues decode to the residues (C16). -/
theorem read_write_faithful_partial (reg : Registry) (r : Record) (p : Bytes)
    (noRegion : r.fields.region = none) (htab : tableFaithful reg r.table = true)
    (hlen : p.length < 10 ^ 9) :
    (readBack reg r p).fields = r.fields ∧ (readBack reg r p).table = r.table ∧
    (readBack reg r p).origin.bytes = .ok p := by
  obtain ⟨f, t, o⟩ := r
  simp only at noRegion htab
  refine ⟨?_, readTable_eq reg t htab, ?_⟩
  · obtain ⟨a1, a2, a3, a4, a5, a6, a7, a8, a9, a10, a11, a12, a13, a14, a15, a16, a17, a18, a19, a20⟩ := f
    simp only at noRegion
    simp [readBack, accessionLine, noRegion]
  · by_cases hp : p.isEmpty = true
    · have : p = [] := by simpa using hp
      subst this
      simp [readBack, OriginV.bytes, Origin.originBytes]
    · simp [readBack, hp, OriginV.bytes, Origin.originBytes_originStream p hlen]

/-- non-vacuity of `Writable`: a record with every header field, two references, a comment, an
extra field, a CONTIG and 70 residues; and a record with nothing but a LOCUS line -/
def sampleRecord : Record :=
  ⟨{ Fields.empty with
     locusName := bs "NC_001422", molecule := bs "ss-DNA", topology := 1, division := bs "PHG", date := ⟨2018, 7, 6⟩,
     definition := bs "Coliphage phi-X174,\n  complete genome", accession := bs "NC_001422", version := bs "NC_001422.1",
     dblink := [(bs "BioProject", bs "PRJNA14015"), (bs "KEGG BRITE", bs " NC_001422")],
     keywords := [bs "RefSeq"], species := bs "Escherichia virus phiX174", organism := bs "Escherichia virus phiX174",
     taxon := [bs "Viruses", bs "ssDNA viruses", bs "Microviridae"],
     references := [⟨1, bs "(bases 1 to 70)", bs "Sanger,F.", [], bs "Nucleotide sequence", bs "J. Mol. Biol.", some (bs "731693"), []⟩,
                    ⟨2, [], [], bs "NCBI", [], [], none, bs "REVIEWED REFSEQ"⟩],
     comments := [bs "line one\n    indented line two"], extra := [(bs "PRIMARY", bs "x")],
     contigAcc := bs "J02482.1", contigHead := 0, contigTail := 70 },
   [], .residues (List.replicate 70 97)⟩

example : Writable Registry.default sampleRecord (List.replicate 70 97) = true ∧
    Writable Registry.default ⟨{ Fields.empty with locusName := bs "X", molecule := bs "DNA", date := ⟨1, 1, 1⟩ }, [], .residues []⟩ [] = true := by
  decide +kernel

/-- **Framing of multi-record streams**: every record is read from exactly its own text; a stream of
`Writable` records (all qualifier names registered, so the registry does not change between the
records) written with `WriteSeq` and read until the input is used up yields exactly the records, each
as `readBack`, without error. -/
theorem read_stream (reg : Registry) (rs : List (Record × Bytes))
    (hall : ∀ x ∈ rs, x.1.origin = .residues x.2 ∧ Writable reg x.1 x.2 = true ∧ (∀ f ∈ x.1.table, LocRT f.loc) ∧
      learnTable reg x.1.table = reg) :
    ∃ t, writeAll reg (rs.map (·.1)) = .ok t ∧
      readAll reg t = some (rs.map (fun x => readBack reg x.1 x.2), reg, true) :=
  GenBank.read_stream reg rs hall

/-! ## the byte fixed point: write → read → write -/

/-- **FEATURES, fixed point.**  The table that was read back (`readFeature`: the written items
added back one by one with `Props.Add`, a toggle's value empty), written by `INSDCFormatter` under
any registry `reg'` that writes the same text as `reg` (`sameText`: `reg` plus some of its unknown
names learned as quoted — `learnTable reg fs` is one), is byte for byte the table text that was
read.  Needs only that in every `Props` the rows have names and the written qualifiers of one name
are consecutive (`propsAdjacent`: rows of one name adjacent, rows without a value not counting —
weaker than pairwise distinct names, `names_distinct_adjacent`); no clause on values: the writer
looks up the NAMES of the table only, and learning keeps every earlier answer except
unknown → quoted, which are written alike. -/
theorem features_fixed_point (reg reg' : Registry) (hs : sameText reg reg') (fs : List QFeature)
    (hd : tableAdjacent fs = true) :
    tableText reg' (fs.map (readFeature reg)) = tableText reg fs :=
  tableText_readFeature reg reg' hs fs (by simpa [tableAdjacent, List.all_eq_true] using hd)

/-- pairwise distinct row names (what `Props.Add` / `Props.Set` build) are the special case of the
guard -/
theorem names_distinct_adjacent (fs : List QFeature) (h : tableDistinct fs = true) : tableAdjacent fs = true :=
  tableAdjacent_of_distinct fs h

/-- non-vacuity of the weaker guard: a repeated name in ADJACENT rows (and a row without a value in
between) is inside it and not inside `tableDistinct`; the re-read table is not the table, yet
prints identically -/
def adjacentWitness : List QFeature :=
  [⟨bs "gene", .point 0, [[bs "note", bs "a"], [bs "focus"], [bs "note", bs "c"], [bs "gene", bs "b"]]⟩]

example : tableAdjacent adjacentWitness = true ∧ tableDistinct adjacentWitness = false ∧
    (adjacentWitness.map (readFeature Registry.default)).map (·.props) =
      [[[bs "note", bs "a", bs "c"], [bs "gene", bs "b"]]] := by
  refine ⟨by decide +kernel, by decide +kernel, by decide +kernel⟩

/-- non-vacuity: a table with a toggle that was given a value through the API, a row without a
value, a multi-valued row and an unknown name has distinct row names, is not `tableFaithful` (it
does not come back as itself), and the registry that read it writes the same text -/
def fixedWitness : List QFeature :=
  [⟨bs "source", .ranged 0 10 false false, [[bs "organism", bs "Homo sapiens"], [bs "focus", bs "x"], [bs "note"]]⟩,
   ⟨bs "CDS", .point 3, [[bs "my_tag", bs "learned", bs "twice"], [bs "codon_start", bs "1"]]⟩]

example : tableAdjacent fixedWitness = true ∧ tableFaithful Registry.default fixedWitness = false ∧
    fixedWitness.map (readFeature Registry.default) ≠ fixedWitness ∧
    (learnTable Registry.default fixedWitness).typeOf (bs "my_tag") = .quoted ∧
    Registry.default.typeOf (bs "my_tag") = .unknown :=
  ⟨by decide +kernel, by decide +kernel, by
    intro h
    have := congrArg (fun t => (t.map fun f => f.props.length)) h
    revert this; decide +kernel, by decide +kernel, by decide +kernel⟩

/-- the same table with the toggle's value empty: in the domain `tableWritable`, and still not
`tableFaithful` (the row without a value does not come back) -/
def fixedWitness' : List QFeature :=
  [⟨bs "source", .ranged 0 10 false false, [[bs "organism", bs "Homo sapiens"], [bs "focus", bs ""], [bs "note"]]⟩,
   ⟨bs "CDS", .point 3, [[bs "my_tag", bs "learned", bs "twice"], [bs "codon_start", bs "1"]]⟩]

example : sameText Registry.default (learnTable Registry.default fixedWitness) :=
  sameText_learnTable _ _ _ (sameText_refl _)

/-- **header fields, fixed point.**  The fields that come back — the accession carrying the REGION
suffix, the region gone (known finding K1A) — print the same header: K1A is a byte fixed point. -/
theorem header_fixed_point (f : Fields) (L : Int) :
    headerText { f with accession := accessionLine f, region := none } L = headerText f L :=
  headerText_readBack f L

example : accessionLine { Fields.empty with accession := bs "AB000001", region := some (2, 9) } = bs "AB000001 REGION: 3..9" := by
  decide +kernel

/-- **residues, fixed point.**  The reader keeps the ORIGIN block as written; that block has the
length of the residues (`Origin.Len`, which goes into the LOCUS line) and `Origin.String` prints it
as `NewOrigin(p).String()` printed the residues. -/
theorem origin_fixed_point (p : Bytes) (hlen : p.length < 10 ^ 9) :
    OriginV.len (if p.isEmpty then .buffer [] else .buffer (Origin.originStream p)) = OriginV.len (.residues p) ∧
    (¬ p.isEmpty → OriginV.text (.buffer (Origin.originStream p)) = OriginV.text (.residues p)) :=
  origin_readBack p hlen

example : (bs "acgtacgtacgtacgtacgtacgtacgtacgtacgtacgtacgtacgtacgtacgtacgtacgtacgtacgt").length < 10 ^ 9 := by decide

/-- **Learning never changes what is written**: a registry that has learned names (unknown →
quoted) since — by reading this record, earlier records of the stream, or anything else — writes
every record byte for byte as before.  (`QualifierIO.String` consults the process-global registry
at write time; the reader is the only code that registers names.) -/
theorem write_learned_same (reg reg' : Registry) (hs : sameText reg reg') (r : Record) :
    write reg' r = write reg r :=
  write_same reg reg' hs r

/-- **The writer keeps every value** (what repo 7b61a9a, F31, buys).  The qualifier lines of a
feature are one line group per (name, value) of every row, ROW BY ROW in the order of the rows,
each value under its own row's name: `propsItems` — the items `INSDCFormatter.String` and
`Props.Items` walk — is the concatenation of the rows' own items; every value of every row is among
them; and the text of the feature is the key line followed by exactly their qualifier texts.
(Before the repair a repeated row name wrote the FIRST row's values once per row of that name and
never the later row's.) -/
theorem write_keeps_every_value (reg : Registry) (depth : Nat) (f : QFeature) (hok : propsOk f.props = true) :
    propsItems f.props = f.props.flatMap rowItems ∧
    (∀ row ∈ f.props, ∀ v ∈ row.tail, (row.headD [], v) ∈ propsItems f.props) ∧
    featureText reg depth f = .ok (sp 5 ++ f.key ++ sp (depth - 5 - f.key.length) ++ f.loc.printB ++
      ((f.props.flatMap rowItems).flatMap fun kv => 10 :: qualifierFmt reg (sp depth) kv.1 kv.2)) := by
  refine ⟨propsItems_eq _, ?_, ?_⟩
  · intro row hrow v hv
    rw [propsItems_eq]
    refine List.mem_flatMap.mpr ⟨row, hrow, ?_⟩
    cases row with
    | nil => simp at hv
    | cons k vs => simpa [rowItems] using hv
  · simp only [featureText, hok, Bool.not_true, Bool.false_eq_true, if_false, propsItems_eq]

/-- non-vacuity on the witness of F31: the three values `a`, `b`, `c` are written, in row order
(the defect wrote `a`, `b`, `a`) -/
example : propsOk [[bs "note", bs "a"], [bs "gene", bs "b"], [bs "note", bs "c"]] = true ∧
    propsItems [[bs "note", bs "a"], [bs "gene", bs "b"], [bs "note", bs "c"]] =
      [(bs "note", bs "a"), (bs "gene", bs "b"), (bs "note", bs "c")] := by
  decide +kernel

/-- FULL STATEMENT of the fixed point (false): "for every `Writable` record, writing the re-read
record reproduces the first output".  `Writable` admits a hand-built `Props` in which a row name
occurs twice in NON-adjacent rows (not constructible with `Props.Add` / `Props.Set`).  Since repo
7b61a9a (F31) the writer walks the rows one by one and every value is written
(`write_keeps_every_value`; before, `Keys()` + `Get(key)` wrote the first row's values once per row
of that name and lost the later row's: `/note="a" /gene="b" /note="a"`).  What is left is ORDER
only: the first output is `/note="a" /gene="b" /note="c"`, `Props.Add` on reading gathers the two
`note` rows into one, and the second output is `/note="a" /note="c" /gene="b"` — no value lost, the
lines in another order.  Replayed on the real code: `gb.write` / `gb.wrw` of this witness give the
two texts. -/
def dupNamesWitness : Record :=
  ⟨{ Fields.empty with locusName := bs "X", molecule := bs "DNA", date := ⟨1, 1, 1⟩ },
   [⟨bs "gene", .point 0, [[bs "note", bs "a"], [bs "gene", bs "b"], [bs "note", bs "c"]]⟩], .residues []⟩

theorem write_read_write_full_refuted :
    Writable Registry.default dupNamesWitness [] = true ∧
    (dupNamesWitness.table.all fun f => Loc.canonP f.loc) = true ∧
    write (learnTable Registry.default dupNamesWitness.table) (readBack Registry.default dupNamesWitness []) ≠
      write Registry.default dupNamesWitness ∧
    tableAdjacent dupNamesWitness.table = false := by
  refine ⟨by decide +kernel, by decide +kernel, ?_, by decide +kernel⟩
  intro h
  have := congrArg (fun o => match o with | .ok t => t.length | .error _ => 0) h
  revert h
  decide +kernel

/-- **write → read → write, proved part** (guard `namesAdjacent`: in every feature the written
qualifiers of one name are consecutive — rows of one name adjacent; pairwise distinct names, what
`Props.Add` / `Props.Set` build, are the special case `names_distinct_adjacent`; rows without a value
are allowed.  The guard was `namesDistinct` before repo 7b61a9a).  For a `Writable` record: `GenBank.String` succeeds with a text `t`; `GenBankParser` reads
from `t` (followed by anything) the record `readBack reg r p` and ends with the registry
`reg' = learnTable reg r.table`; and `GenBank.String` of THAT record under THAT registry is `t`
again, byte for byte.  Neither K1A (the REGION suffix moves into the accession: same bytes) nor K1E
(excluded by `Writable` through `quotedOk`, as in `read_write`) needs a further guard. -/
theorem write_read_write_partial (reg : Registry) (r : Record) (p : Bytes) (ho : r.origin = .residues p)
    (hw : Writable reg r p = true) (hloc : ∀ x ∈ r.table, LocRT x.loc)
    (namesAdjacent : tableAdjacent r.table = true) (rest' : Bytes) :
    ∃ t, write reg r = .ok t ∧
      genbankParser reg ⟨t ++ rest', []⟩ = (.ok (readBack reg r p, learnTable reg r.table), ⟨rest', []⟩) ∧
      write (learnTable reg r.table) (readBack reg r p) = .ok t := by
  obtain ⟨t, h1, _, h2⟩ := GenBank.read_write reg r p ho hw hloc rest'
  refine ⟨t, h1, h2, ?_⟩
  have hlen : p.length < 10 ^ 9 := (writable_parts reg r p hw).2.2.2.2.2.2.2
  rw [write_readBack reg _ (sameText_learnTable reg reg r.table (sameText_refl reg)) r p ho hlen namesAdjacent, h1]

/-- the fixed point alone, under ANY registry that writes the same text (the reader's registry
after further records, for instance): `write reg' (readBack reg r p) = write reg r`. -/
theorem write_readBack_partial (reg reg' : Registry) (hs : sameText reg reg') (r : Record) (p : Bytes)
    (ho : r.origin = .residues p) (hlen : p.length < 10 ^ 9) (namesAdjacent : tableAdjacent r.table = true) :
    write reg' (readBack reg r p) = write reg r :=
  write_readBack reg reg' hs r p ho hlen namesAdjacent

/-- non-vacuity: a record with a region (K1A), a table that does not come back as itself
(`fixedWitness`) and residues is in the domain of `write_read_write_partial` -/
def wrwWitness : Record :=
  ⟨{ locusWitness with accession := bs "AB000001", definition := bs "two\n lines", region := some (2, 9) }, fixedWitness',
   .residues (List.replicate 12 97)⟩

example : Writable Registry.default wrwWitness (List.replicate 12 97) = true ∧
    (wrwWitness.table.all fun f => Loc.canonP f.loc) = true ∧ tableAdjacent wrwWitness.table = true ∧
    wrwWitness.fields.region ≠ none ∧ tableFaithful Registry.default wrwWitness.table = false := by
  refine ⟨by decide +kernel, by decide +kernel, by decide +kernel, by decide, by decide +kernel⟩

/-- **`readBack` is idempotent on its image**, for every record and without any guard: what the
reader builds is what `Props.Add` builds (rows `name :: value :: …`, names pairwise distinct), its
toggle values are already empty and its accession already carries the REGION suffix. -/
theorem read_back_idempotent (reg reg' : Registry) (hs : sameText reg reg') (r : Record) (p : Bytes) :
    readBack reg' (readBack reg r p) p = readBack reg r p :=
  readBack_idem' reg reg' hs r p

/-- … and the table of a record that was read always has distinct row names: from the second
generation on the guard `namesAdjacent` of `write_read_write_partial` holds by itself
(`names_distinct_adjacent`). -/
theorem read_back_names_distinct (reg : Registry) (r : Record) (p : Bytes) :
    tableDistinct (readBack reg r p).table = true :=
  tableDistinct_readFeature reg r.table

example : readBack Registry.default dupNamesWitness [] ≠ ⟨dupNamesWitness.fields, dupNamesWitness.table, .buffer []⟩ := by
  intro h
  have := congrArg (fun r => r.table.map fun f => f.props.length) h
  revert this; decide +kernel

/-- **Second generation: the record that was READ is a fixed point of write → read**, for every
`Writable` record — no guard: neither on row names (the duplicate-name shape of
`write_read_write_full_refuted` is gone after one reading) nor on K1A (the region is already inside
the accession).  `GenBank.String` of `readBack reg r p` under the registry `reg'` the reader ended
with succeeds with some text `t1`; `GenBankParser` under `reg'` reads from `t1` (followed by
anything) the record `readBack reg r p` itself and leaves the registry `reg'`.  With
`namesAdjacent`, `t1` is the first output (`write_read_write_partial`). -/
theorem reread_fixed_point (reg : Registry) (r : Record) (p : Bytes) (hw : Writable reg r p = true)
    (hloc : ∀ x ∈ r.table, LocRT x.loc) (rest' : Bytes) :
    ∃ t1, write (learnTable reg r.table) (readBack reg r p) = .ok t1 ∧
      genbankParser (learnTable reg r.table) ⟨t1 ++ rest', []⟩ =
        (.ok (readBack reg r p, learnTable reg r.table), ⟨rest', []⟩) :=
  reread_fixed reg r p hw hloc rest'

/-- non-vacuity: the duplicate-name witness meets the hypotheses (and not the guard `namesAdjacent`) -/
example : Writable Registry.default dupNamesWitness [] = true ∧
    (dupNamesWitness.table.all fun f => Loc.canonP f.loc) = true ∧ tableAdjacent dupNamesWitness.table = false :=
  ⟨write_read_write_full_refuted.1, write_read_write_full_refuted.2.1, write_read_write_full_refuted.2.2.2⟩

/-- **read (write r) under a registry that has learned names.**  The text `GenBank.String` wrote
under `reg`, read by `GenBankParser` under any `reg'` that writes the same text as `reg`: the same
record `readBack reg r p` as under `reg` itself, exactly the record's text consumed, and the
registry `learnTable reg' r.table`.  (`read_write` is the case `reg' = reg`.) -/
theorem read_write_learned (reg reg' : Registry) (hs : sameText reg reg') (r : Record) (p : Bytes)
    (ho : r.origin = .residues p) (hw : Writable reg r p = true) (hloc : ∀ x ∈ r.table, LocRT x.loc)
    (rest' : Bytes) :
    (∃ t, write reg r = .ok t ∧ t ≠ [] ∧
      genbankParser reg' ⟨t ++ rest', []⟩ = (.ok (readBack reg r p, learnTable reg' r.table), ⟨rest', []⟩)) ∧
    reg'.le (learnTable reg' r.table) :=
  ⟨read_write_gen reg reg' hs r p ho hw hloc rest', learnTable_le reg' r.table⟩

/-- **Reading the same text a second time** (same process, registry as the first reading left it):
the same record, and the registry does not change any more — the pair (record, registry) reached
after one reading is stable.  No guard beyond `Writable`. -/
theorem read_write_second_reading (reg : Registry) (r : Record) (p : Bytes) (ho : r.origin = .residues p)
    (hw : Writable reg r p = true) (hloc : ∀ x ∈ r.table, LocRT x.loc) (rest' : Bytes) :
    ∃ t, write reg r = .ok t ∧
      genbankParser reg ⟨t ++ rest', []⟩ = (.ok (readBack reg r p, learnTable reg r.table), ⟨rest', []⟩) ∧
      genbankParser (learnTable reg r.table) ⟨t ++ rest', []⟩ =
        (.ok (readBack reg r p, learnTable reg r.table), ⟨rest', []⟩) := by
  obtain ⟨t, h1, _, h2⟩ := GenBank.read_write reg r p ho hw hloc rest'
  obtain ⟨t', h1', _, h3⟩ := read_write_gen reg (learnTable reg r.table)
    (sameText_learnTable reg reg r.table (sameText_refl reg)) r p ho hw hloc rest'
  rw [h1] at h1'
  cases h1'
  rw [learnTable_idem] at h3
  exact ⟨t, h1, h2, h3⟩

/-! ## streams in which a record teaches the registry new names -/

/-- **Streams with learning.**  `WriteSeq` for every record under the registry as it is at write
time (`QualifierIO.String` reads the process-global lists; writing registers nothing, so the whole
stream is written under one registry `reg`), then `GenBankParser` until the input is used up,
starting from `reg` and carrying what each record teaches to the next (`learnStream`): exactly the
records, each as `readBack reg`, no error, and the final registry is the fold of `learnTable` over the
tables.  No record has to have its names registered: `read_stream` is the special case in which
nothing is learned. -/
theorem read_stream_learning (reg : Registry) (rs : List (Record × Bytes))
    (hall : ∀ x ∈ rs, x.1.origin = .residues x.2 ∧ Writable reg x.1 x.2 = true ∧ (∀ f ∈ x.1.table, LocRT f.loc)) :
    (∃ t, writeAll reg (rs.map (·.1)) = .ok t ∧
      readAll reg t = some (rs.map (fun x => readBack reg x.1 x.2), learnStream reg (rs.map (·.1)), true)) ∧
    reg.le (learnStream reg (rs.map (·.1))) :=
  ⟨GenBank.read_stream_learning reg reg (sameText_refl reg) rs hall, learnStream_le reg _⟩

/-- … and the same when the reader has ALREADY learned names (it read other files before, or this
stream once already): any starting registry `reg'` that writes the same text as the writer's. -/
theorem read_stream_learning_from (reg reg' : Registry) (hs : sameText reg reg') (rs : List (Record × Bytes))
    (hall : ∀ x ∈ rs, x.1.origin = .residues x.2 ∧ Writable reg x.1 x.2 = true ∧ (∀ f ∈ x.1.table, LocRT f.loc)) :
    ∃ t, writeAll reg (rs.map (·.1)) = .ok t ∧
      readAll reg' t = some (rs.map (fun x => readBack reg x.1 x.2), learnStream reg' (rs.map (·.1)), true) :=
  GenBank.read_stream_learning reg reg' hs rs hall

/-- **Byte fixed point of a stream** (guard `namesAdjacent` for every record): the records that
were read from a stream, written again with `WriteSeq` under any registry that writes the same text
as the first writer's — the registry the reader ended with is one — reproduce the stream byte for
byte. -/
theorem write_stream_fixed_partial (reg reg' : Registry) (hs : sameText reg reg') (rs : List (Record × Bytes))
    (hall : ∀ x ∈ rs, x.1.origin = .residues x.2 ∧ x.2.length < 10 ^ 9 ∧ tableAdjacent x.1.table = true) :
    writeAll reg' (rs.map fun x => readBack reg x.1 x.2) = writeAll reg (rs.map (·.1)) :=
  writeAll_readBack reg reg' hs rs hall

/-- non-vacuity: a stream of two records; the first teaches `my_tag` (unknown under the initial
registry, learned as quoted), the second uses it again and is read under the larger registry -/
def streamWitness : List (Record × Bytes) :=
  [(⟨locusWitness, fixedWitness', .residues (List.replicate 12 97)⟩, List.replicate 12 97),
   (⟨{ Fields.empty with locusName := bs "X", molecule := bs "DNA", date := ⟨1, 1, 1⟩ },
      [⟨bs "gene", .point 0, [[bs "my_tag", bs "again"], [bs "other_tag", bs "new"]]⟩], .residues []⟩, [])]

example : (∀ x ∈ streamWitness, x.1.origin = .residues x.2 ∧ Writable Registry.default x.1 x.2 = true ∧
      (∀ f ∈ x.1.table, LocRT f.loc)) ∧
    learnStream Registry.default (streamWitness.map (·.1)) ≠ Registry.default ∧
    (∀ x ∈ streamWitness, x.2.length < 10 ^ 9 ∧ tableAdjacent x.1.table = true) := by
  refine ⟨?_, ?_, by decide +kernel⟩
  · intro x hx
    have hc : ∀ y ∈ streamWitness, (y.1.table.all fun f => Loc.canonP f.loc) = true := by decide +kernel
    have hw : ∀ y ∈ streamWitness, y.1.origin = .residues y.2 ∧ Writable Registry.default y.1 y.2 = true := by
      decide +kernel
    exact ⟨(hw x hx).1, (hw x hx).2, fun f hf => locRT_of_canon f.loc (List.all_eq_true.mp (hc x hx) f hf)⟩
  · decide +kernel

/-- **A pipeline that reads and writes in turn** (`gts` commands scan a record, write it, scan the
next: the process-global registry grows between two writes).  `writeEach` writes record `i` under
the registry `gᵢ` of its moment; if every `gᵢ` is the starting registry `reg` plus names learned
since (`sameText reg gᵢ`), the stream is byte for byte the one `WriteSeq` writes under `reg` alone
— and is therefore read back by `read_stream_learning`. -/
theorem write_pipeline_same (reg : Registry) (xs : List (Registry × Record)) (h : ∀ x ∈ xs, sameText reg x.1) :
    writeEach xs = writeAll reg (xs.map (·.2)) :=
  writeEach_same reg xs h

/-- non-vacuity: the second record of `streamWitness` written under the registry that has learned
the names of the first -/
example (r1 r2 : Record) : ∀ x ∈ [(Registry.default, r1), (learnTable Registry.default fixedWitness', r2)],
    sameText Registry.default x.1 := by
  intro x hx
  simp only [List.mem_cons, List.not_mem_nil, or_false] at hx
  rcases hx with rfl | rfl
  · exact sameText_refl _
  · exact sameText_learnTable _ _ _ (sameText_refl _)

example : learnTable Registry.default fixedWitness' ≠ Registry.default := by decide +kernel

/-! ## closure of the writable domain under the edit operations

`ofSeq F s` is the GenBank record `GenBank{F, s.feats, NewOrigin(s.bytes)}` that `WithFeatures` /
`WithBytes` build around the result `s` of an edit (models of the edits: `Gts/Model/Seq.lean`,
`SeqNuc.lean`; the header `F` is untouched: `GenBankFields` is neither `Shiftable` nor
`Expandable`).  These theorems cover the part of the domain that `Writable` states — header, keys,
qualifiers, residues, LOCUS length.  That the edited LOCATIONS are again canonical (`Loc.canonP`,
needed for `LocRT`) is a statement about `Shift` / `Expand` / `Reverse` / `Normalize` and the join
reduction: `Gts/Props/C06.lean` (location level) and `Gts/Props/C01Canon.lean` (`WritableRecord` under
insert / embed / concat / delete / erase / reverse / rotate, with the K3 guards where the full
statement is false).  NOT covered: `gts.Slice`, whose `GenBankFields.Slice` rewrites the header
(REGION, clipped and renumbered references). -/

/-- **Frame.**  `Writable` looks at the table only through key and `Props` of each feature and at
the residues only through "printable, fewer than 10^9" and the LOCUS length: a record with the same
header whose features each carry key and `Props` of some old feature, with printable residues and
a LOCUS length that is the old one, or positive, or zero without CONTIG, is `Writable`. -/
theorem writable_frame (reg : Registry) (F : Fields) (s s' : Seq)
    (hw : Writable reg (ofSeq F s) s.bytes = true)
    (htab : ∀ g ∈ s'.feats, ∃ f ∈ s.feats, g.key = f.key ∧ g.props = f.props)
    (hbase : ∀ c ∈ s'.bytes, Origin.isBase c = true) (hlen : s'.bytes.length < 10 ^ 9)
    (hL : s'.bytes.length = s.bytes.length ∨ 0 < s'.bytes.length ∨ F.contigAcc.isEmpty = true) :
    Writable reg (ofSeq F s') s'.bytes = true :=
  writable_ofSeq reg F s s' hw (fun g hg => featW_fromTable reg s.feats (writable_feats reg F s hw) g (htab g hg))
    hbase hlen hL

/-- **`gts.Reverse`** keeps the record writable. -/
theorem writable_reverse (reg : Registry) (F : Fields) (s : Seq) (hw : Writable reg (ofSeq F s) s.bytes = true) :
    Writable reg (ofSeq F s.reverse) s.reverse.bytes = true :=
  GenBank.writable_reverse reg F s hw

/-- **`gts.Complement`** never panics and keeps the record writable (the complement of a printable
byte is printable). -/
theorem writable_complement (reg : Registry) (F : Fields) (s : Seq) (hw : Writable reg (ofSeq F s) s.bytes = true) :
    ∃ s', s.complementRec = some s' ∧ Writable reg (ofSeq F s') s'.bytes = true :=
  ⟨_, complementRec_eq s, GenBank.writable_complement reg F s hw⟩

/-- **`gts.Complement`, the whole round-trip domain**: `WritableRecord` (`Writable` AND canonical
locations, the decidable domain of `read_write_canon`) is closed under `gts.Complement` —
`Location.Complement()` wraps a canonical location or unwraps a wrapped one.  The complemented
record is therefore written, read back and re-written as `read_write_canon` and
`write_read_write_partial` say. -/
theorem writable_record_complement (reg : Registry) (F : Fields) (s : Seq)
    (hw : WritableRecord reg (ofSeq F s) s.bytes = true) :
    ∃ s', s.complementRec = some s' ∧ WritableRecord reg (ofSeq F s') s'.bytes = true := by
  simp only [WritableRecord, Bool.and_eq_true] at hw
  refine ⟨_, complementRec_eq s, ?_⟩
  simp only [WritableRecord, Bool.and_eq_true]
  refine ⟨GenBank.writable_complement reg F s hw.1, ?_⟩
  have h2 := hw.2
  simp only [ofSeq, List.all_map, List.all_eq_true] at h2 ⊢
  intro f hf
  exact canonP_complement _ (h2 f hf)

/-- **`gts.Rotate`** by any amount keeps the record writable. -/
theorem writable_rotate (reg : Registry) (F : Fields) (s : Seq) (n : Int)
    (hw : Writable reg (ofSeq F s) s.bytes = true) :
    Writable reg (ofSeq F (s.rotate n)) (s.rotate n).bytes = true :=
  GenBank.writable_rotate reg F s n hw

/-- **`gts.Delete`** / **`gts.Erase`** of `length ≥ 0` residues keep the record writable when residues
remain or the record has no CONTIG.  (A record emptied of its residues takes its LOCUS length from
the CONTIG region, which `Writable` does not bound.) -/
theorem writable_delete (reg : Registry) (F : Fields) (s : Seq) (offset length : Int) (hlen0 : 0 ≤ length)
    (hw : Writable reg (ofSeq F s) s.bytes = true)
    (hne : 0 < (s.delete offset length).bytes.length ∨ F.contigAcc.isEmpty = true) :
    Writable reg (ofSeq F (s.delete offset length)) (s.delete offset length).bytes = true :=
  GenBank.writable_delete reg F s offset length hlen0 hw hne

theorem writable_erase (reg : Registry) (F : Fields) (s : Seq) (offset length : Int) (hlen0 : 0 ≤ length)
    (hw : Writable reg (ofSeq F s) s.bytes = true)
    (hne : 0 < (s.erase offset length).bytes.length ∨ F.contigAcc.isEmpty = true) :
    Writable reg (ofSeq F (s.erase offset length)) (s.erase offset length).bytes = true :=
  GenBank.writable_erase reg F s offset length hlen0 hw hne

/-- **`gts.Insert`**, **`gts.Embed`**, **`gts.Concat`** of two writable records (the guest under any
header `G`) give a writable record with the host's header, as long as the residues together stay
below 10^9. -/
theorem writable_insert (reg : Registry) (F G : Fields) (host guest : Seq) (index : Int)
    (hw : Writable reg (ofSeq F host) host.bytes = true) (hg : Writable reg (ofSeq G guest) guest.bytes = true)
    (hsum : host.bytes.length + guest.bytes.length < 10 ^ 9) :
    Writable reg (ofSeq F (host.insert index guest)) (host.insert index guest).bytes = true :=
  GenBank.writable_insert reg F G host guest index hw hg hsum

theorem writable_embed (reg : Registry) (F G : Fields) (host guest : Seq) (index : Int)
    (hw : Writable reg (ofSeq F host) host.bytes = true) (hg : Writable reg (ofSeq G guest) guest.bytes = true)
    (hsum : host.bytes.length + guest.bytes.length < 10 ^ 9) :
    Writable reg (ofSeq F (host.embed index guest)) (host.embed index guest).bytes = true :=
  GenBank.writable_embed reg F G host guest index hw hg hsum

theorem writable_concat (reg : Registry) (F G : Fields) (a b : Seq)
    (hw : Writable reg (ofSeq F a) a.bytes = true) (hg : Writable reg (ofSeq G b) b.bytes = true)
    (hsum : a.bytes.length + b.bytes.length < 10 ^ 9) :
    Writable reg (ofSeq F (Seq.concat2 a b)) (Seq.concat2 a b).bytes = true :=
  GenBank.writable_concat2 reg F G a b hw hg hsum

/-- non-vacuity: a host with a source feature and a CDS with a learned qualifier and a toggle, and a
guest, are writable under the initial registry; the edits change the record -/
def editHost : Seq :=
  ⟨[⟨"source", .ranged 0 12 false false, [["organism", "Homo sapiens"], ["focus", ""]]⟩,
    ⟨"CDS", .joined [.ranged 1 4 false false, .ranged 6 9 false false], [["my_tag", "v"], ["codon_start", "1"]]⟩],
   bs "acgtacgtacgt"⟩

def editGuest : Seq := ⟨[⟨"gene", .compl (.ranged 0 3 false false), [["gene", "x"]]⟩], bs "ttt"⟩

example : Writable Registry.default (ofSeq locusWitness editHost) editHost.bytes = true ∧
    Writable Registry.default (ofSeq sampleRecord.fields editGuest) editGuest.bytes = true ∧
    editHost.reverse.bytes ≠ editHost.bytes ∧ 0 < (editHost.delete 2 5).bytes.length ∧
    editHost.bytes.length + editGuest.bytes.length < 10 ^ 9 ∧
    WritableRecord Registry.default (ofSeq locusWitness editHost) editHost.bytes = true := by
  refine ⟨by decide +kernel, by decide +kernel, by decide +kernel, by decide +kernel, by decide +kernel, by decide +kernel⟩

/-! ## CRLF input: the written text after a CRLF-translating transport

`Origin.crlf t` replaces every line feed of `t` by CR LF (`crlf_is_fasta_crlf`: the same function as the
`crlf` of the FASTA model, C17) — the line ends of the file, and the line feeds inside multi-line field
texts and qualifier values with them, which is what a transport in text mode does to the bytes.  The
reader's line primitives take CR LF as one terminator (`pars.Line`, `pars.EOL`), so every header field,
the key lines, literal and toggle qualifiers, CONTIG and the terminator read exactly as from the LF
text, and the ORIGIN block — which the fast path rejects: a carriage return stands where the line feed
of the first line should — is rebuilt by the slow path (C16).  The ONE place where the CRLF text reads
differently is a value written between quotes that contains a line feed: `pars.Quoted` hands over the
raw bytes between the quotes and `quotedQualifierParser` deletes the continuation indent behind every
`"\n"`, so the carriage return in front of it stays inside the value (finding F36). -/

/-- the CRLF translation used here is the one of the FASTA model (C17 `scan_write_all_crlf`) -/
theorem crlf_is_fasta_crlf (t : Bytes) : Origin.crlf t = Fasta.crlf t := crlf_eq_fasta t

example : Origin.crlf (bs "a\nb\r\n") = bs "a\r\nb\r\r\n" := by decide

/-- **C06 → C01, CRLF**: the printed form of every canonical location is read back by `ParseLocation`
in front of the carriage return that ends a key line of a CRLF file (`LocRTC`). -/
theorem locations_crlf_from_C06 (l : Loc) (h : Loc.canonP l = true) : LocRTC l := locRTC_of_canon l h

example : Loc.canonP (.joined [.ranged 1 4 false false, .compl (.point 7)]) = true := by decide +kernel

/-- **One qualifier in a CRLF file** (`QualifierParser(prefix)` on the CRLF translation of
`QualifierIO.Format(prefix)`, followed by CR LF): the same name and the same registry step as from the
LF text; the value is `crlfValue reg name value` — the value itself for a literal (read line by line
with `pars.Line`) and a toggle (`pars.EOL` takes CR LF), and THE CRLF TRANSLATION of the value for a
value written between quotes (a name registered as quoted, or unknown).  Same domain
`WritableQualifier` as `qualifier_roundtrip`. -/
theorem qualifier_crlf (reg : Registry) (d : Nat) (name value rest : Bytes) (stk : List Bytes)
    (hw : WritableQualifier reg d name value = true) (hstop : litStop d rest) :
    qualifier (sp d) reg ⟨Origin.crlf (qualifierFmt reg (sp d) name value) ++ 13 :: 10 :: rest, stk⟩ =
      (.ok ((name, readValue reg name (crlfValue reg name value)), learn reg name), ⟨rest, stk⟩) :=
  qualifier_roundtripC reg d name value rest stk hw hstop

/-- non-vacuity: a two-line quoted value comes back with CR LF inside, a two-line literal value as
it is, a one-line quoted value as it is -/
example :
    WritableQualifier Registry.default 21 (bs "note") (bs "a\nb") = true ∧
    crlfValue Registry.default (bs "note") (bs "a\nb") = bs "a\r\nb" ∧
    WritableQualifier Registry.default 21 (bs "transl_except") (bs "(pos:1..3,\n aa:Met)") = true ∧
    crlfValue Registry.default (bs "transl_except") (bs "(pos:1..3,\n aa:Met)") = bs "(pos:1..3,\n aa:Met)" ∧
    crlfValue Registry.default (bs "note") (bs "one line") = bs "one line" := by decide +kernel

/-- **ORIGIN in a CRLF file.**  For at least one and fewer than 10^9 printable residues: on the first
`toOriginLength(length)` bytes of the CRLF translation of the written block the fast path
(`validateOrigin`) reports an ERROR, it does not panic; `makeGenbankOriginParser`, run on the header
line and the translated block followed by ANY text that does not start with a blank, falls back to
the slow path and returns the block as it was written (LF line ends) — the same `Origin` as from the
LF file, the following text untouched, the stack cleared. -/
theorem origin_crlf (p rest : Bytes) (stk : List Bytes) (hp : ∀ c ∈ p, Origin.isBase c = true)
    (hlen : p.length < 10 ^ 9) (hne : p ≠ []) (hrest : rest.head? ≠ some 32) :
    Origin.validateOrigin ((Origin.crlf (Origin.originStream p) ++ rest).take (Origin.tl p.length)) p.length =
      .error .fail ∧
    originField (p.length : Int) 12 ⟨Origin.crlf (bs "ORIGIN      \n" ++ Origin.originStream p) ++ rest, stk⟩ =
      (.ok (Origin.originStream p), ⟨rest, []⟩) := by
  refine ⟨Origin.validateOrigin_crlf_fail p rest hne hp hlen, ?_⟩
  have h1 : Origin.crlf (bs "ORIGIN      \n") = bs "ORIGIN      " ++ [13, 10] := by decide
  have e : Origin.crlf (bs "ORIGIN      \n" ++ Origin.originStream p) ++ rest =
      bs "ORIGIN      " ++ 13 :: 10 :: (Origin.crlf (Origin.originStream p) ++ rest) := by
    rw [crlf_append, h1]; simp
  rw [e]
  exact origin_roundtripC p rest stk hp hlen hne hrest

example : (∀ c ∈ List.replicate 70 (97 : UInt8), Origin.isBase c = true) ∧ (List.replicate 70 (97 : UInt8)).length < 10 ^ 9 ∧
    List.replicate 70 (97 : UInt8) ≠ [] := by
  refine ⟨by decide +kernel, by decide, by decide⟩

/-- **FEATURES in a CRLF file.**  The CRLF translation of the section `GenBank.String` writes for a
non-empty table, read by `genbankFeatureParser`: keys, locations, qualifier names, their order and
the registry as from the LF text (`features_roundtrip_canon`); every feature comes back as
`readFeatureC` — `readFeature` with the values written between quotes CRLF-translated. -/
theorem features_crlf (reg : Registry) (ft : QFeature) (fs : List QFeature) (rest : Bytes)
    (stk : List Bytes) (hw : tableWritable reg (ft :: fs) = true)
    (hloc : (ft :: fs).all (fun x => Loc.canonP x.loc) = true) (hrest : (sp 5).isPrefixOf rest = false) :
    ∃ t, tableText reg (ft :: fs) = .ok t ∧
      featuresField reg ⟨Origin.crlf (bs "FEATURES             Location/Qualifiers\n" ++ (t ++ [10])) ++ rest, stk⟩ =
        (.ok ((ft :: fs).map (readFeatureC reg), learnTable reg (ft :: fs)), ⟨rest, []⟩) :=
  features_roundtripC reg reg (sameText_refl reg) ft fs rest stk hw
    (fun x hx => locRTC_of_canon x.loc (List.all_eq_true.mp hloc x hx)) hrest

/-- non-vacuity: `fixedWitness'` (quoted, toggle, unknown, literal qualifiers) is in the domain -/
example : tableWritable Registry.default fixedWitness' = true ∧
    (fixedWitness'.all fun x => Loc.canonP x.loc) = true := by
  refine ⟨by decide +kernel, by decide +kernel⟩

/-- **read (crlf (write r)), exactly.**  For every record of the domain `Writable reg r p` (the domain
of `read_write`: NO further clause — carriage returns inside field texts are excluded by `Writable`
already, because `pars.Line` ends a line at a lone CR in the LF text as well; inside quoted values
they are allowed and survive) whose locations are read back in front of a carriage return (`LocRTC`:
every canonical location, `locations_crlf_from_C06`): `GenBank.String` succeeds with a text `t`, and
`GenBankParser` run on the CRLF translation of `t` followed by ANY further text `rest'` returns the
record `readBackC reg r p`, consumes exactly the translated text and ends with the registry
`learnTable reg r.table` — the registry and the rest of the LF reading.  `readBackC` is `readBack`
with the table read as `readFeatureC`: header fields, keys, locations, qualifier names, literal and
toggle values and the residues are those of the LF reading; a value written between quotes is its
CRLF translation. -/
theorem read_write_crlf_exact (reg : Registry) (r : Record) (p : Bytes) (ho : r.origin = .residues p)
    (hw : Writable reg r p = true) (hloc : ∀ x ∈ r.table, LocRTC x.loc) (rest' : Bytes) :
    ∃ t, write reg r = .ok t ∧ t ≠ [] ∧
      genbankParser reg ⟨Origin.crlf t ++ rest', []⟩ =
        (.ok (readBackC reg r p, learnTable reg r.table), ⟨rest', []⟩) :=
  read_write_crlf_gen reg reg (sameText_refl reg) r p ho hw hloc rest'

/-- the witness of finding F36: one feature with a `/note` of two lines -/
def crlfWitness : Record :=
  ⟨{ Fields.empty with locusName := bs "X", molecule := bs "DNA", date := ⟨1, 1, 1⟩ },
   [⟨bs "gene", .point 0, [[bs "note", bs "a\nb"]]⟩], .residues []⟩

/-- `read_write_crlf`, FULL STATEMENT (false): "for every `Writable` record with canonical locations,
`GenBankParser` reads from the CRLF translation of the written text the SAME record as from the
written text".  Witness `crlfWitness` (in the decidable domain `WritableRecord` of `read_write_canon`):
the LF text gives the note `a\nb`, its CRLF translation gives `a\r\nb` — a carriage return inside the
value, which the next `GenBank.String` writes out again (`a\r\n` + indent + `b`) and every later
reading keeps.  Replayed on the real code: `gb.read (R () () ()) x<text>` answers `… x6e6f7465 x610a62 …`
for the text and `… x6e6f7465 x610d0a62 …` for its CRLF translation.  In a real GenBank file with CRLF
line ends every wrapped `/translation`, `/note`, `/product` … is read this way. -/
theorem read_write_crlf_full_refuted :
    WritableRecord Registry.default crlfWitness [] = true ∧
    ∃ t, write Registry.default crlfWitness = .ok t ∧
      (∃ rl rc g, genbankParser Registry.default ⟨t, []⟩ = (.ok (rl, g), ⟨[], []⟩) ∧
        genbankParser Registry.default ⟨Origin.crlf t, []⟩ = (.ok (rc, g), ⟨[], []⟩) ∧
        rl.table.map (·.props) = [[[bs "note", bs "a\nb"]]] ∧
        rc.table.map (·.props) = [[[bs "note", bs "a\r\nb"]]]) ∧
      (genbankParser Registry.default ⟨Origin.crlf t, []⟩).1 ≠ (genbankParser Registry.default ⟨t, []⟩).1 := by
  have hwr : WritableRecord Registry.default crlfWitness [] = true := by decide +kernel
  refine ⟨hwr, ?_⟩
  have hwr' := hwr
  simp only [WritableRecord, Bool.and_eq_true] at hwr'
  obtain ⟨t, h1, _, h2⟩ := GenBank.read_write Registry.default crlfWitness [] rfl hwr'.1
    (fun x hx => locRT_of_canon x.loc (List.all_eq_true.mp hwr'.2 x hx)) []
  obtain ⟨t', h1', _, h3⟩ := read_write_crlf_gen Registry.default Registry.default (sameText_refl _) crlfWitness []
    rfl hwr'.1 (fun x hx => locRTC_of_canon x.loc (List.all_eq_true.mp hwr'.2 x hx)) []
  rw [h1] at h1'
  cases h1'
  simp only [List.append_nil] at h2 h3
  have hl : (readBack Registry.default crlfWitness []).table.map (·.props) = [[[bs "note", bs "a\nb"]]] := by
    decide +kernel
  have hc : (readBackC Registry.default crlfWitness []).table.map (·.props) = [[[bs "note", bs "a\r\nb"]]] := by
    decide +kernel
  refine ⟨t, h1, ⟨_, _, _, h2, h3, hl, hc⟩, ?_⟩
  rw [h2, h3]
  intro e
  have e' : readBackC Registry.default crlfWitness [] = readBack Registry.default crlfWitness [] := by
    injection e with e1
    exact congrArg Prod.fst e1
  have := congrArg (fun x : Record => x.table.map (·.props)) e'
  simp only [hl, hc] at this
  revert this
  decide +kernel

/-- non-vacuity of `read_write_crlf_exact`: the witness of the finding meets its hypotheses (the
theorem says what IS read from the CRLF text: the note `a\r\nb`) -/
example : Writable Registry.default crlfWitness [] = true ∧ (∀ x ∈ crlfWitness.table, LocRTC x.loc) ∧
    (readBackC Registry.default crlfWitness []).table.map (·.props) = [[[bs "note", bs "a\r\nb"]]] := by
  have h := read_write_crlf_full_refuted.1
  simp only [WritableRecord, Bool.and_eq_true] at h
  exact ⟨h.1, fun x hx => locRTC_of_canon x.loc (List.all_eq_true.mp h.2 x hx), by decide +kernel⟩

/-- **read (crlf (write r)) = read (write r), proved part** (guard `quotedOneLine reg r.table`,
decidable: no value that is written between quotes — its name registered as quoted, or unknown —
contains a line feed; literal values may).  For a `Writable` record with canonical locations:
`GenBankParser` on the CRLF translation of the written text, followed by any text `rest'`, returns
`readBack reg r p`, the registry `learnTable reg r.table` and leaves `rest'` — the very answer of
`read_write` for the LF text; the two runs are equal. -/
theorem read_write_crlf_partial (reg : Registry) (r : Record) (p : Bytes) (ho : r.origin = .residues p)
    (hw : WritableRecord reg r p = true) (quotedOneLine : quotedOneLine reg r.table = true) (rest' : Bytes) :
    ∃ t, write reg r = .ok t ∧
      genbankParser reg ⟨Origin.crlf t ++ rest', []⟩ =
        (.ok (readBack reg r p, learnTable reg r.table), ⟨rest', []⟩) ∧
      genbankParser reg ⟨Origin.crlf t ++ rest', []⟩ = genbankParser reg ⟨t ++ rest', []⟩ := by
  simp only [WritableRecord, Bool.and_eq_true] at hw
  obtain ⟨t, h1, _, h2⟩ := GenBank.read_write reg r p ho hw.1
    (fun x hx => locRT_of_canon x.loc (List.all_eq_true.mp hw.2 x hx)) rest'
  obtain ⟨t', h1', _, h3⟩ := read_write_crlf_gen reg reg (sameText_refl reg) r p ho hw.1
    (fun x hx => locRTC_of_canon x.loc (List.all_eq_true.mp hw.2 x hx)) rest'
  rw [h1] at h1'
  cases h1'
  rw [readBackC_eq_readBack reg r p quotedOneLine] at h3
  exact ⟨t, h1, h3, by rw [h2, h3]⟩

/-- non-vacuity: `wrwWitness` (region, multi-line DEFINITION, quoted / toggle / unknown / literal
qualifiers, residues) meets the hypotheses of `read_write_crlf_partial`; `crlfWitness` meets all but
the guard -/
example : WritableRecord Registry.default wrwWitness (List.replicate 12 97) = true ∧
    quotedOneLine Registry.default wrwWitness.table = true ∧
    WritableRecord Registry.default crlfWitness [] = true ∧
    quotedOneLine Registry.default crlfWitness.table = false := by
  refine ⟨by decide +kernel, by decide +kernel, read_write_crlf_full_refuted.1, by decide +kernel⟩

/-- **Streams in a CRLF file, exactly** (framing, with learning).  `WriteSeq` for every record under
`reg`, the CRLF translation of the whole stream read by `GenBankParser` until the input is used up,
starting from any registry `reg'` that writes the same text as `reg` and carrying what each record
teaches to the next: exactly the records, each as `readBackC reg`, no error, and the final registry
`learnStream reg'` of the LF reading (`read_stream_learning_from`).  Every record is read from
exactly its own translated text. -/
theorem read_stream_crlf_exact (reg reg' : Registry) (hs : sameText reg reg') (rs : List (Record × Bytes))
    (hall : ∀ x ∈ rs, x.1.origin = .residues x.2 ∧ Writable reg x.1 x.2 = true ∧ (∀ f ∈ x.1.table, LocRTC f.loc)) :
    ∃ t, writeAll reg (rs.map (·.1)) = .ok t ∧
      readAll reg' (Origin.crlf t) =
        some (rs.map (fun x => readBackC reg x.1 x.2), learnStream reg' (rs.map (·.1)), true) :=
  read_stream_crlf_learning reg reg' hs rs hall

/-- **read_stream_crlf, proved part** (guard `quotedOneLine` for every record; the full statement
fails at the one-record stream `[crlfWitness]`, `read_write_crlf_full_refuted`): a stream of
`WritableRecord`s written with `WriteSeq` reads from its CRLF translation exactly as from the
written bytes — the same records (`readBack`), the same final registry, no error. -/
theorem read_stream_crlf_partial (reg reg' : Registry) (hs : sameText reg reg') (rs : List (Record × Bytes))
    (hall : ∀ x ∈ rs, x.1.origin = .residues x.2 ∧ WritableRecord reg x.1 x.2 = true ∧
      quotedOneLine reg x.1.table = true) :
    ∃ t, writeAll reg (rs.map (·.1)) = .ok t ∧
      readAll reg' (Origin.crlf t) =
        some (rs.map (fun x => readBack reg x.1 x.2), learnStream reg' (rs.map (·.1)), true) ∧
      readAll reg' (Origin.crlf t) = readAll reg' t := by
  have hall1 : ∀ x ∈ rs, x.1.origin = .residues x.2 ∧ Writable reg x.1 x.2 = true ∧ (∀ f ∈ x.1.table, LocRTC f.loc) := by
    intro x hx
    obtain ⟨ho, hw, _⟩ := hall x hx
    simp only [WritableRecord, Bool.and_eq_true] at hw
    exact ⟨ho, hw.1, fun f hf => locRTC_of_canon f.loc (List.all_eq_true.mp hw.2 f hf)⟩
  have hall2 : ∀ x ∈ rs, x.1.origin = .residues x.2 ∧ Writable reg x.1 x.2 = true ∧ (∀ f ∈ x.1.table, LocRT f.loc) := by
    intro x hx
    obtain ⟨ho, hw, _⟩ := hall x hx
    simp only [WritableRecord, Bool.and_eq_true] at hw
    exact ⟨ho, hw.1, fun f hf => locRT_of_canon f.loc (List.all_eq_true.mp hw.2 f hf)⟩
  obtain ⟨t, h1, h2⟩ := read_stream_crlf_learning reg reg' hs rs hall1
  obtain ⟨t', h1', h3⟩ := GenBank.read_stream_learning reg reg' hs rs hall2
  rw [h1] at h1'
  cases h1'
  have hmap : rs.map (fun x => readBackC reg x.1 x.2) = rs.map (fun x => readBack reg x.1 x.2) :=
    List.map_congr_left fun x hx => readBackC_eq_readBack reg x.1 x.2 (hall x hx).2.2
  rw [hmap] at h2
  exact ⟨t, h1, h2, by rw [h2, h3]⟩

/-- non-vacuity: the two records of `streamWitness` (the first teaches `my_tag`) meet the hypotheses
of `read_stream_crlf_partial` and of `read_stream_crlf_exact` -/
example : (∀ x ∈ streamWitness, x.1.origin = .residues x.2 ∧ WritableRecord Registry.default x.1 x.2 = true ∧
      quotedOneLine Registry.default x.1.table = true) ∧
    (∀ x ∈ streamWitness, x.1.origin = .residues x.2 ∧ Writable Registry.default x.1 x.2 = true ∧
      (∀ f ∈ x.1.table, LocRTC f.loc)) := by
  have h : ∀ x ∈ streamWitness, x.1.origin = .residues x.2 ∧ WritableRecord Registry.default x.1 x.2 = true ∧
      quotedOneLine Registry.default x.1.table = true := by decide +kernel
  refine ⟨h, fun x hx => ?_⟩
  obtain ⟨ho, hw, _⟩ := h x hx
  simp only [WritableRecord, Bool.and_eq_true] at hw
  exact ⟨ho, hw.1, fun f hf => locRTC_of_canon f.loc (List.all_eq_true.mp hw.2 f hf)⟩

/-! ## the REGENERATED writer (go2lean gwriter: `Gts/Gen/GenBankWrite.lean`, `Gts/Bridge/GenBankWrite.lean`)

`Bridge.genWrite reg r` is `GenBank.String` as it is re-read from seqio/genbank.go and seqio/insdc.go on every
run of the check (library calls instantiated as listed in `Gts/Bridge/GenBankWrite.lean`).  The two theorems
below restate the composition and the byte fixed point for THAT function: they stop checking when the code of
the writer changes what it writes. -/

/-- a record of the writable domain carries a valid calendar date -/
theorem writable_date_valid (reg : Registry) (r : Record) (p : Bytes) (hw : Writable reg r p = true) :
    r.fields.date.valid = true := by
  have h := (writable_parts reg r p hw).1
  simp only [locusOk, Bool.and_eq_true] at h
  exact h.1.2

/-- **read (write r) for the regenerated writer**, decidable hypotheses only: for a record of the domain
`WritableRecord` the text that `GenBank.String` — as written in the tree — produces is read by `GenBankParser`,
followed by ANY further text, as `readBack reg r p`, consuming exactly that text. -/
theorem gen_read_write_canon (reg : Registry) (r : Record) (p : Bytes) (ho : r.origin = .residues p)
    (hw : WritableRecord reg r p = true) (rest' : Bytes) :
    ∃ t, Bridge.genWrite reg r = .ok t ∧
      genbankParser reg ⟨t ++ rest', []⟩ = (.ok (readBack reg r p, learnTable reg r.table), ⟨rest', []⟩) := by
  have hw1 : Writable reg r p = true := by
    simp only [WritableRecord, Bool.and_eq_true] at hw; exact hw.1
  rw [Bridge.genWrite_eq reg r (writable_date_valid reg r p hw1)]
  exact read_write_canon reg r p ho hw rest'

/-- **write → read → write for the regenerated writer** (guard `namesAdjacent` as in
`write_read_write_partial`): the text `t` the code of the tree writes for a `Writable` record is read back
as `readBack reg r p` under the registry `learnTable reg r.table`, and the code of the tree writes THAT
record under THAT registry as `t` again, byte for byte. -/
theorem gen_write_read_write_partial (reg : Registry) (r : Record) (p : Bytes) (ho : r.origin = .residues p)
    (hw : Writable reg r p = true) (hloc : ∀ x ∈ r.table, LocRT x.loc)
    (namesAdjacent : tableAdjacent r.table = true) (rest' : Bytes) :
    ∃ t, Bridge.genWrite reg r = .ok t ∧
      genbankParser reg ⟨t ++ rest', []⟩ = (.ok (readBack reg r p, learnTable reg r.table), ⟨rest', []⟩) ∧
      Bridge.genWrite (learnTable reg r.table) (readBack reg r p) = .ok t := by
  have hv := writable_date_valid reg r p hw
  have hv' : (readBack reg r p).fields.date.valid = true := hv
  rw [Bridge.genWrite_eq reg r hv, Bridge.genWrite_eq _ _ hv']
  exact write_read_write_partial reg r p ho hw hloc namesAdjacent rest'

/-- non-vacuity: `wrwWitness` (region, multi-line DEFINITION, quoted / toggle / unknown / literal qualifiers,
residues) meets the hypotheses of `gen_read_write_canon` and `gen_write_read_write_partial`, and the regenerated
writer answers a text for it -/
example : wrwWitness.origin = .residues (List.replicate 12 97) ∧
    WritableRecord Registry.default wrwWitness (List.replicate 12 97) = true ∧
    tableAdjacent wrwWitness.table = true ∧
    ∃ t, Bridge.genWrite Registry.default wrwWitness = .ok t := by
  refine ⟨rfl, by decide +kernel, by decide +kernel, ?_⟩
  obtain ⟨t, h, _⟩ := gen_read_write_canon Registry.default wrwWitness (List.replicate 12 97) rfl (by decide +kernel) []
  exact ⟨t, h⟩

end Gts.C01
