/-
  C15 (continued) — the FEATURE clause ("features in every output denote the residues they
  denoted in the input") for the two commands `Gts/Props/C15.lean` left to the oracle /
  correspondence: circular `gts split` and `gts extract`.  Property theorems only; helper lemmas
  and the folded K2 guards are in `Gts/Lemmas/CliSplitCirc.lean`, `Gts/Lemmas/CliExtractFeat*.lean`.
-/
import Gts.Props.C15
import Gts.Lemmas.CliSplitCirc
namespace Gts.C15
open Gts Loc Reg

/-! ## circular split: features -/

/-- **circular `gts split`, one piece** (one located region, or several regions sharing one
distinct cut): the record is re-origined at `c = Cli.splitOrigin` (the head of the only region /
the only cut) and — C04 `rotate_feature_partial` lifted to the scan loop — every feature of a
non-empty record is present in that piece with unchanged key and qualifiers and denotes the same
residues at `(x - c) mod L` (domain of the `Normalize` law and K2 guards as in C04). -/
theorem split_features_circular_one_partial (loc : Seq → List Reg) (s : Seq) (hne : loc s ≠ [])
    (h1 : (loc s).length = 1 ∨ (Cli.sortAscU ((loc s).map Cli.cutOf)).length = 1)
    (hL : 0 < s.len) (f : Feature) (hf : f ∈ s.feats)
    (hw : f.loc.wf = true) (hnn : f.loc.nonneg = true)
    (hok : Loc.normOk s.len (f.loc.expand 0 (C04.rotN (-(Cli.splitOrigin loc s)) s.len)) = true)
    (g1 : Loc.expandAbs f.loc 0 (C04.rotN (-(Cli.splitOrigin loc s)) s.len) = false)
    (g2 : Loc.normalizeAbs (f.loc.expand 0 (C04.rotN (-(Cli.splitOrigin loc s)) s.len)) s.len = false) :
    Cli.split loc true s = [s.rotate (-(Cli.splitOrigin loc s))] ∧
    ∃ f' ∈ (s.rotate (-(Cli.splitOrigin loc s))).feats, f'.key = f.key ∧ f'.props = f.props ∧
      f'.loc.den ≼ mapPos (rotMap (-(Cli.splitOrigin loc s)) s.len) f.loc.den :=
  ⟨Cli.split_circular_one loc s hne h1,
   C04.rotate_feature_partial s (-(Cli.splitOrigin loc s)) hL f hf hw hnn hok g1 g2⟩

/-- the windows of circular split lie inside `[0, len]`; exactly the first one (from the last cut
`c` to the first) runs across the origin -/
theorem split_circular_windows_bounds (loc : Seq → List Reg) (s : Seq)
    (hw : ∀ r ∈ loc s, 0 ≤ Cli.cutOf r ∧ Cli.cutOf r ≤ s.len)
    (h2 : 2 ≤ (Cli.sortAscU ((loc s).map Cli.cutOf)).length) (c : Int)
    (hc : (Cli.sortAscU ((loc s).map Cli.cutOf)).getLast? = some c)
    (w : Int × Int) (hwm : w ∈ Cli.windows (c :: Cli.sortAscU ((loc s).map Cli.cutOf))) :
    0 ≤ w.1 ∧ w.1 ≤ s.len ∧ 0 ≤ w.2 ∧ w.2 ≤ s.len ∧ (w.2 < w.1 → w.1 = c) := by
  have hmem : ∀ x ∈ Cli.sortAscU ((loc s).map Cli.cutOf), 0 ≤ x ∧ x ≤ s.len := by
    intro x hx
    obtain ⟨r, hr, rfl⟩ := List.mem_map.mp ((Cli.mem_sortAscU x _).mp hx)
    exact hw r hr
  have hcb := hmem c (List.mem_of_getLast? hc)
  have hsorted := (Cli.sortAscU_sorted ((loc s).map Cli.cutOf)).imp (fun h => Int.le_of_lt h)
  revert hmem hsorted h2 hc hwm
  generalize Cli.sortAscU ((loc s).map Cli.cutOf) = heads
  intro h2 hc hwm hmem hsorted
  match heads, h2 with
  | a :: b :: t, _ =>
    rw [Cli.windows_cons_cons] at hwm
    rcases List.mem_cons.mp hwm with rfl | hwm
    · have ha := hmem a (List.mem_cons_self ..)
      exact ⟨hcb.1, hcb.2, ha.1, ha.2, fun _ => rfl⟩
    · have hm := Cli.mem_windows _ w hwm
      have h1 := hmem _ hm.1
      have h2 := hmem _ (List.mem_of_mem_tail hm.2)
      have := Cli.window_bounds _ hsorted w hwm
      exact ⟨h1.1, h1.2, h2.1, h2.2, fun h => by omega⟩

/-- **circular `gts split`, a feature in a piece** (at least two distinct cuts, all inside
`[0, len]`): for every window `w` of the cut list `c, cuts…` (`c` = the last cut; the first window
`(c, first cut)` runs across the origin, the others are forward windows) the piece `s.slice w.1 w.2`
IS one of the written pieces, and a feature overlapping the window is present in it with unchanged
key and qualifiers and denotes exactly its former residues inside the window, at their offset in
the piece (`Cli.cwinMap`: from `w.1` on first, across the origin the positions before `w.2` after
them).  The forward windows are C03 `slice_fwd_feature_partial`; the window across the origin is
`gts.Rotate(seq, -c)` (C04 `rotate_feature_partial`, the re-origin) followed by the forward slice
`[0, L - c + w.2)` — there the Go code tests the overlap on the ROTATED location `Cli.rotLoc`.
Guards: K2 in no `Expand` / `Normalize` of the piece (`Cli.cwinAbs`), and for the window across
the origin the domain of the `Normalize` law. -/
theorem split_circular_piece_feature_partial (loc : Seq → List Reg) (s : Seq)
    (hw : ∀ r ∈ loc s, 0 ≤ Cli.cutOf r ∧ Cli.cutOf r ≤ s.len)
    (h2 : 2 ≤ (Cli.sortAscU ((loc s).map Cli.cutOf)).length) (c : Int)
    (hc : (Cli.sortAscU ((loc s).map Cli.cutOf)).getLast? = some c)
    (w : Int × Int) (hwm : w ∈ Cli.windows (c :: Cli.sortAscU ((loc s).map Cli.cutOf)))
    (f : Feature) (hf : f ∈ s.feats) (hwf : f.loc.wf = true) (hnn : f.loc.nonneg = true)
    (hpos : ∀ p ∈ f.loc.den, 0 ≤ p.1 ∧ p.1 < s.len)
    (hok : w.2 < w.1 → Loc.normOk s.len (f.loc.expand 0 (C04.rotN (-w.1) s.len)) = true)
    (hov : if w.1 ≤ w.2 then f.loc.overlap w.1 w.2 = true
      else (Cli.rotLoc f.loc w.1 s.len).overlap 0 (s.len - w.1 + w.2) = true)
    (hg : Cli.cwinAbs s.len f.loc w = false) :
    s.slice w.1 w.2 ∈ Cli.split loc true s ∧
    ∃ f' ∈ (s.slice w.1 w.2).feats, f'.key = f.key ∧ f'.props = f.props ∧
      f'.loc.den ≼ filterMapPos (Cli.cwinMap s.len w.1 w.2) f.loc.den := by
  obtain ⟨b1, b2, b3, b4, _⟩ := split_circular_windows_bounds loc s hw h2 c hc w hwm
  constructor
  · rw [Cli.split_circular_windows loc s h2 c hc]
    exact List.mem_map_of_mem (f := fun w => s.slice w.1 w.2) hwm
  · by_cases hfw : w.1 ≤ w.2
    · rw [if_pos hfw] at hov
      simp only [Cli.cwinAbs, if_pos hfw, Bool.or_eq_false_iff] at hg
      have key := C03.slice_fwd_feature_partial s w.1 w.2 b1 hfw b4 f hf hov hwf hpos hg.1 hg.2
      have e : Cli.cwinMap s.len w.1 w.2 = winMap w.1 w.2 := by
        funext x; simp only [Cli.cwinMap, if_pos hfw]
      rw [e]; exact key
    · rw [if_neg hfw] at hov
      simp only [Cli.cwinAbs, if_neg hfw, Bool.or_eq_false_iff] at hg
      obtain ⟨⟨⟨g1, g2⟩, g3⟩, g4⟩ := hg
      have key := C03.slice_wrap_feature_partial s w.1 w.2 b3 (by omega) b2 f hf hwf hnn
        (hok (by omega)) g1 g2 hov g3 g4
      rw [Cli.wrap_remap_eq s.len w.1 w.2 b3 (by omega) b2 _ hpos] at key
      exact key

/-- every feature of a piece comes from a feature of the record (forward windows: one
overlapping the window) -/
theorem split_circular_piece_feature_origin (loc : Seq → List Reg) (s : Seq)
    (hw : ∀ r ∈ loc s, 0 ≤ Cli.cutOf r ∧ Cli.cutOf r ≤ s.len)
    (h2 : 2 ≤ (Cli.sortAscU ((loc s).map Cli.cutOf)).length) (c : Int)
    (hc : (Cli.sortAscU ((loc s).map Cli.cutOf)).getLast? = some c)
    (w : Int × Int) (hwm : w ∈ Cli.windows (c :: Cli.sortAscU ((loc s).map Cli.cutOf)))
    (f' : Feature) (hf' : f' ∈ (s.slice w.1 w.2).feats) :
    ∃ f ∈ s.feats, f'.key = f.key ∧ f'.props = f.props ∧
      (w.1 ≤ w.2 → f.loc.overlap w.1 w.2 = true) := by
  obtain ⟨b1, b2, b3, b4, _⟩ := split_circular_windows_bounds loc s hw h2 c hc w hwm
  by_cases hfw : w.1 ≤ w.2
  · obtain ⟨f, h1, h2', h3, h4⟩ := C03.slice_fwd_feature_origin s w.1 w.2 b1 hfw f' hf'
    exact ⟨f, h1, h3, h4, fun _ => h2'⟩
  · rw [C03.slice_wrap_eq s w.1 w.2 b1 b3 (by omega)] at hf'
    have hL : 0 < s.len := by omega
    have hsl : (s.rotate (-w.1)).slice 0 (s.len - w.1 + w.2) =
        Seq.sliceFwd (s.rotate (-w.1)) 0 (s.len - w.1 + w.2) := by
      unfold Seq.slice
      simp only [show ¬ (0:Int) < 0 by omega, show ¬ (s.len - w.1 + w.2) < 0 by omega, if_false]
    rw [← hsl] at hf'
    obtain ⟨fr, h1, _, h3, h4⟩ :=
      C03.slice_fwd_feature_origin (s.rotate (-w.1)) 0 (s.len - w.1 + w.2) (by omega) (by omega) f' hf'
    have hp := (C04.rotate_table_perm s (-w.1)).subset h1
    obtain ⟨f, hfm, rfl⟩ := List.mem_map.mp hp
    exact ⟨f, hfm, h3, h4, fun h => absurd h hfw⟩

/-- **circular `gts split`: the pieces of a feature together denote its residues** (at least two
distinct cuts, all inside `[0, len]`) — every residue `p` a feature denotes (location well-formed,
non-negative coordinates, positions inside the record) lies in exactly one window `w` of the cut
list `c, cuts…`; the piece written for `w` contains the feature (same key and qualifiers), its
location there denotes only former residues of the feature inside `w`, at their offset in that
piece (`Cli.cwinMap`), and among them `p`, on the same strand.  Guards: K2 in no step of any
piece (`Cli.cwinAbs`); for the piece across the origin the domain of the `Normalize` law after
the re-origin at the last cut `c`. -/
theorem split_features_circular_partial (loc : Seq → List Reg) (s : Seq)
    (hw : ∀ r ∈ loc s, 0 ≤ Cli.cutOf r ∧ Cli.cutOf r ≤ s.len)
    (h2 : 2 ≤ (Cli.sortAscU ((loc s).map Cli.cutOf)).length) (c : Int)
    (hc : (Cli.sortAscU ((loc s).map Cli.cutOf)).getLast? = some c)
    (f : Feature) (hf : f ∈ s.feats) (hwf : f.loc.wf = true) (hnn : f.loc.nonneg = true)
    (hpos : ∀ p ∈ f.loc.den, 0 ≤ p.1 ∧ p.1 < s.len)
    (hok : Loc.normOk s.len (f.loc.expand 0 (C04.rotN (-c) s.len)) = true)
    (hg : ∀ w ∈ Cli.windows (c :: Cli.sortAscU ((loc s).map Cli.cutOf)),
      Cli.cwinAbs s.len f.loc w = false)
    (p : Pos) (hp : p ∈ f.loc.den) :
    ∃ w ∈ Cli.windows (c :: Cli.sortAscU ((loc s).map Cli.cutOf)),
      Cli.cwinHas w.1 w.2 p.1 ∧
      (∀ w' ∈ Cli.windows (c :: Cli.sortAscU ((loc s).map Cli.cutOf)),
        Cli.cwinHas w'.1 w'.2 p.1 → w' = w) ∧
      s.slice w.1 w.2 ∈ Cli.split loc true s ∧
      ∃ f' ∈ (s.slice w.1 w.2).feats, f'.key = f.key ∧ f'.props = f.props ∧
        f'.loc.den ≼ filterMapPos (Cli.cwinMap s.len w.1 w.2) f.loc.den ∧
        ∃ y, Cli.cwinMap s.len w.1 w.2 p.1 = some y ∧ (y, p.2) ∈ f'.loc.den := by
  obtain ⟨w, hwm, hwx, huniq⟩ := Cli.cwindow_partition _ (Cli.sortAscU_sorted ((loc s).map Cli.cutOf))
    h2 c hc p.1
  obtain ⟨b1, b2, b3, b4, b5⟩ := split_circular_windows_bounds loc s hw h2 c hc w hwm
  have hpp := hpos p hp
  have hgw := hg w hwm
  -- the overlap test of the Go code holds because the location denotes a residue in the window
  have hov : if w.1 ≤ w.2 then f.loc.overlap w.1 w.2 = true
      else (Cli.rotLoc f.loc w.1 s.len).overlap 0 (s.len - w.1 + w.2) = true := by
    by_cases hfw : w.1 ≤ w.2
    · rw [if_pos hfw]
      unfold Cli.cwinHas at hwx
      rw [if_pos hfw] at hwx
      exact Cli.overlap_of_den f.loc w.1 w.2 hwf p hp hwx.1 hwx.2
    · rw [if_neg hfw]
      unfold Cli.cwinHas at hwx
      rw [if_neg hfw] at hwx
      have hL : 0 < s.len := by omega
      have hwc : w.1 = c := b5 (by omega)
      simp only [Cli.cwinAbs, if_neg hfw, Bool.or_eq_false_iff] at hgw
      obtain ⟨⟨⟨g1, g2⟩, _⟩, _⟩ := hgw
      have hr : 0 ≤ C04.rotN (-w.1) s.len := by
        rw [C04.rotN_eq_emod _ _ hL]; exact Int.emod_nonneg _ (by omega)
      have hok' : Loc.normOk s.len (f.loc.expand 0 (C04.rotN (-w.1) s.len)) = true := hwc ▸ hok
      have hd := C04.rotate_den_partial f.loc (C04.rotN (-w.1) s.len) s.len hL hr hwf hnn hok' g1 g2
      have hwf' : (Cli.rotLoc f.loc w.1 s.len).wf = true :=
        (Loc.normalize_mod _ s.len hL ((Loc.expand_ins f.loc 0 _ hwf hr).2) hok').2
      have hmem : (rotMap (C04.rotN (-w.1) s.len) s.len p.1, p.2) ∈ (Cli.rotLoc f.loc w.1 s.len).den := by
        apply hd.2
        simp only [mapPos, List.mem_map]
        exact ⟨p, hp, rfl⟩
      have e : rotMap (C04.rotN (-w.1) s.len) s.len p.1 = rotMap (-w.1) s.len p.1 := by
        rw [C04.rotN_eq_emod _ _ hL, C04.rotMap_emod]
      rw [e] at hmem
      have hrange : 0 ≤ rotMap (-w.1) s.len p.1 ∧ rotMap (-w.1) s.len p.1 < s.len - w.1 + w.2 := by
        unfold rotMap
        rcases hwx with h | h
        · have e1 : (p.1 + -w.1) % s.len = p.1 - w.1 := Int.emod_eq_of_lt (by omega) (by omega)
          rw [e1]; omega
        · by_cases h' : w.1 ≤ p.1
          · have e1 : (p.1 + -w.1) % s.len = p.1 - w.1 := Int.emod_eq_of_lt (by omega) (by omega)
            rw [e1]; omega
          · have e1 : (p.1 + -w.1) % s.len = p.1 - w.1 + s.len := by
              have : p.1 + -w.1 = (p.1 - w.1 + s.len) + (-1) * s.len := by omega
              rw [this, Int.add_mul_emod_self_right, Int.emod_eq_of_lt (by omega) (by omega)]
            rw [e1]; omega
      exact Cli.overlap_of_den _ 0 (s.len - w.1 + w.2) hwf' _ hmem hrange.1 hrange.2
  obtain ⟨hmem, f', hf', hk, hpr, hden⟩ := split_circular_piece_feature_partial loc s hw h2 c hc w hwm
    f hf hwf hnn hpos (fun h => by rw [b5 h]; exact hok) hov hgw
  refine ⟨w, hwm, hwx, huniq, hmem, f', hf', hk, hpr, hden, ?_⟩
  have hsome := (Cli.cwinMap_isSome_iff s.len w.1 w.2 p.1).mpr hwx
  obtain ⟨y, hy⟩ := Option.isSome_iff_exists.mp hsome
  refine ⟨y, hy, ?_⟩
  apply hden.2
  unfold filterMapPos
  rw [List.mem_filterMap]
  exact ⟨p, hp, by rw [hy]; rfl⟩

/-! ### non-vacuity (circular split) -/

/-- hypotheses of `split_features_circular_one_partial`: the 12-residue record `s1` of
`Gts/Props/C15.lean` (a `source`, the complement-strand join `gene1`, a `misc_feature`), one
located region with head 5 — and two regions sharing the cut 5 -/
example : (fun _ : Seq => [seg 5 2]) s1 ≠ [] ∧ ((fun _ : Seq => [seg 5 2]) s1).length = 1 ∧
    Cli.splitOrigin (fun _ => [seg 5 2]) s1 = 5 ∧ Cli.splitOrigin (fun _ => [seg 5 9, seg 5 7]) s1 = 5 ∧
    (Cli.sortAscU (((fun _ : Seq => [seg 5 9, seg 5 7]) s1).map Cli.cutOf)).length = 1 ∧
    0 < s1.len ∧ gene1.loc.wf = true ∧ gene1.loc.nonneg = true ∧
    Loc.normOk s1.len (gene1.loc.expand 0 (C04.rotN (-5) s1.len)) = true ∧
    Loc.expandAbs gene1.loc 0 (C04.rotN (-5) s1.len) = false ∧
    Loc.normalizeAbs (gene1.loc.expand 0 (C04.rotN (-5) s1.len)) s1.len = false := by decide

/-- hypotheses of `split_features_circular_partial` / `split_circular_piece_feature_partial` for
`gene1` under the three regions `loc2` (cuts 2, 3, 5; the circle is opened at the last cut 5:
windows `(5,2)` across the origin, `(2,3)`, `(3,5)`) -/
example : (∀ r ∈ loc2 s1, 0 ≤ Cli.cutOf r ∧ Cli.cutOf r ≤ s1.len) ∧
    Cli.sortAscU ((loc2 s1).map Cli.cutOf) = [2, 3, 5] ∧
    (Cli.sortAscU ((loc2 s1).map Cli.cutOf)).getLast? = some 5 ∧
    Cli.windows (5 :: Cli.sortAscU ((loc2 s1).map Cli.cutOf)) = [(5, 2), (2, 3), (3, 5)] ∧
    gene1.loc.wf = true ∧ gene1.loc.nonneg = true ∧
    (∀ p ∈ gene1.loc.den, 0 ≤ p.1 ∧ p.1 < s1.len) ∧
    Loc.normOk s1.len (gene1.loc.expand 0 (C04.rotN (-5) s1.len)) = true ∧
    (∀ w ∈ Cli.windows (5 :: Cli.sortAscU ((loc2 s1).map Cli.cutOf)), Cli.cwinAbs s1.len gene1.loc w = false) ∧
    (Cli.rotLoc gene1.loc 5 s1.len).overlap 0 (s1.len - 5 + 2) = true := by decide
/-- … and what they give: the join `complement(join(<2..4,7,9..>11))` (0-based residues 10,9,8 | 6 |
3,2,1; `gene1 ∈ s1.feats` is an `example` of `Gts/Props/C15.lean`) in the three pieces: across the
origin 10,9,8,6 and 1 (re-based to 5,4,3,1 and 8), then 2, then 3 -/
example : (Cli.split loc2 true s1).map (fun pc => (pc.feats.filter (·.key = "gene")).map (·.loc.den)) =
      [[[(5, true), (4, true), (3, true), (1, true), (8, true)]], [[(0, true)]], [[(0, true)]]] ∧
    filterMapPos (Cli.cwinMap s1.len 5 2) gene1.loc.den =
      [(5, true), (4, true), (3, true), (1, true), (8, true)] := by decide

end Gts.C15
