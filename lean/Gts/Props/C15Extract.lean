/-
  C15 (continued) — the FEATURE clause ("features in every output denote the residues they
  denoted in the input") for the two commands `Gts/Props/C15.lean` left to the oracle /
  correspondence: circular `gts split` and `gts extract`.  Property theorems only; helper lemmas
  and the folded K2 guards are in `Gts/Lemmas/CliSplitCirc.lean`, `Gts/Lemmas/CliExtractFeat*.lean`.
-/
import Gts.Props.C15
import Gts.Lemmas.CliSplitCirc
import Gts.Lemmas.CliExtractFeat
import Gts.Lemmas.CliExtractWrap
namespace Gts.C15
open Gts Loc Reg

/-! ## circular split: features -/

/-- **circular `gts split`, one piece** (one located region, or several regions sharing one
distinct cut): the record is re-origined at `c = Cli.splitOrigin` (the head of the only region /
the only cut) and — C04 `rotate_feature_partial` lifted to the scan loop — every feature of a
non-empty record is present in that piece with unchanged key and qualifiers and denotes the same
residues at `(x - c) mod L` (domain of the `Normalize` law and K2 guards as in C04). -/
theorem split_features_circular_one_partial (loc : Seq → List Reg) (s : Seq) (hne : loc s ≠ [])
    (h1 : (loc s).length = 1 ∨ (Cli.sortAscU ((loc s).map Cli.cutOf)).length = 1)
    (hL : 0 < s.len) (f : Feature) (hf : f ∈ s.feats)
    (hw : f.loc.wf = true) (hnn : f.loc.nonneg = true)
    (hok : Loc.normOk s.len (f.loc.expand 0 (C04.rotN (-(Cli.splitOrigin loc s)) s.len)) = true)
    (g1 : Loc.expandAbs f.loc 0 (C04.rotN (-(Cli.splitOrigin loc s)) s.len) = false)
    (g2 : Loc.normalizeAbs (f.loc.expand 0 (C04.rotN (-(Cli.splitOrigin loc s)) s.len)) s.len = false) :
    Cli.split loc true s = [s.rotate (-(Cli.splitOrigin loc s))] ∧
    ∃ f' ∈ (s.rotate (-(Cli.splitOrigin loc s))).feats, f'.key = f.key ∧ f'.props = f.props ∧
      f'.loc.den ≼ mapPos (rotMap (-(Cli.splitOrigin loc s)) s.len) f.loc.den :=
  ⟨Cli.split_circular_one loc s hne h1,
   C04.rotate_feature_partial s (-(Cli.splitOrigin loc s)) hL f hf hw hnn hok g1 g2⟩

/-- the windows of circular split lie inside `[0, len]`; exactly the first one (from the last cut
`c` to the first) runs across the origin -/
theorem split_circular_windows_bounds (loc : Seq → List Reg) (s : Seq)
    (hw : ∀ r ∈ loc s, 0 ≤ Cli.cutOf r ∧ Cli.cutOf r ≤ s.len)
    (h2 : 2 ≤ (Cli.sortAscU ((loc s).map Cli.cutOf)).length) (c : Int)
    (hc : (Cli.sortAscU ((loc s).map Cli.cutOf)).getLast? = some c)
    (w : Int × Int) (hwm : w ∈ Cli.windows (c :: Cli.sortAscU ((loc s).map Cli.cutOf))) :
    0 ≤ w.1 ∧ w.1 ≤ s.len ∧ 0 ≤ w.2 ∧ w.2 ≤ s.len ∧ (w.2 < w.1 → w.1 = c) := by
  have hmem : ∀ x ∈ Cli.sortAscU ((loc s).map Cli.cutOf), 0 ≤ x ∧ x ≤ s.len := by
    intro x hx
    obtain ⟨r, hr, rfl⟩ := List.mem_map.mp ((Cli.mem_sortAscU x _).mp hx)
    exact hw r hr
  have hcb := hmem c (List.mem_of_getLast? hc)
  have hsorted := (Cli.sortAscU_sorted ((loc s).map Cli.cutOf)).imp (fun h => Int.le_of_lt h)
  revert hmem hsorted h2 hc hwm
  generalize Cli.sortAscU ((loc s).map Cli.cutOf) = heads
  intro h2 hc hwm hmem hsorted
  match heads, h2 with
  | a :: b :: t, _ =>
    rw [Cli.windows_cons_cons] at hwm
    rcases List.mem_cons.mp hwm with rfl | hwm
    · have ha := hmem a (List.mem_cons_self ..)
      exact ⟨hcb.1, hcb.2, ha.1, ha.2, fun _ => rfl⟩
    · have hm := Cli.mem_windows _ w hwm
      have h1 := hmem _ hm.1
      have h2 := hmem _ (List.mem_of_mem_tail hm.2)
      have := Cli.window_bounds _ hsorted w hwm
      exact ⟨h1.1, h1.2, h2.1, h2.2, fun h => by omega⟩

/-- **circular `gts split`, a feature in a piece** (at least two distinct cuts, all inside
`[0, len]`): for every window `w` of the cut list `c, cuts…` (`c` = the last cut; the first window
`(c, first cut)` runs across the origin, the others are forward windows) the piece `s.slice w.1 w.2`
IS one of the written pieces, and a feature overlapping the window is present in it with unchanged
key and qualifiers and denotes exactly its former residues inside the window, at their offset in
the piece (`Cli.cwinMap`: from `w.1` on first, across the origin the positions before `w.2` after
them).  The forward windows are C03 `slice_fwd_feature_partial`; the window across the origin is
`gts.Rotate(seq, -c)` (C04 `rotate_feature_partial`, the re-origin) followed by the forward slice
`[0, L - c + w.2)` — there the Go code tests the overlap on the ROTATED location `Cli.rotLoc`.
Guards: K2 in no `Expand` / `Normalize` of the piece (`Cli.cwinAbs`), and for the window across
the origin the domain of the `Normalize` law. -/
theorem split_circular_piece_feature_partial (loc : Seq → List Reg) (s : Seq)
    (hw : ∀ r ∈ loc s, 0 ≤ Cli.cutOf r ∧ Cli.cutOf r ≤ s.len)
    (h2 : 2 ≤ (Cli.sortAscU ((loc s).map Cli.cutOf)).length) (c : Int)
    (hc : (Cli.sortAscU ((loc s).map Cli.cutOf)).getLast? = some c)
    (w : Int × Int) (hwm : w ∈ Cli.windows (c :: Cli.sortAscU ((loc s).map Cli.cutOf)))
    (f : Feature) (hf : f ∈ s.feats) (hwf : f.loc.wf = true) (hnn : f.loc.nonneg = true)
    (hpos : ∀ p ∈ f.loc.den, 0 ≤ p.1 ∧ p.1 < s.len)
    (hok : w.2 < w.1 → Loc.normOk s.len (f.loc.expand 0 (C04.rotN (-w.1) s.len)) = true)
    (hov : if w.1 ≤ w.2 then f.loc.overlap w.1 w.2 = true
      else (Cli.rotLoc f.loc w.1 s.len).overlap 0 (s.len - w.1 + w.2) = true)
    (hg : Cli.cwinAbs s.len f.loc w = false) :
    s.slice w.1 w.2 ∈ Cli.split loc true s ∧
    ∃ f' ∈ (s.slice w.1 w.2).feats, f'.key = f.key ∧ f'.props = f.props ∧
      f'.loc.den ≼ filterMapPos (Cli.cwinMap s.len w.1 w.2) f.loc.den := by
  obtain ⟨b1, b2, b3, b4, _⟩ := split_circular_windows_bounds loc s hw h2 c hc w hwm
  constructor
  · rw [Cli.split_circular_windows loc s h2 c hc]
    exact List.mem_map_of_mem (f := fun w => s.slice w.1 w.2) hwm
  · by_cases hfw : w.1 ≤ w.2
    · rw [if_pos hfw] at hov
      simp only [Cli.cwinAbs, if_pos hfw, Bool.or_eq_false_iff] at hg
      have key := C03.slice_fwd_feature_partial s w.1 w.2 b1 hfw b4 f hf hov hwf hpos hg.1 hg.2
      have e : Cli.cwinMap s.len w.1 w.2 = winMap w.1 w.2 := by
        funext x; simp only [Cli.cwinMap, if_pos hfw]
      rw [e]; exact key
    · rw [if_neg hfw] at hov
      simp only [Cli.cwinAbs, if_neg hfw, Bool.or_eq_false_iff] at hg
      obtain ⟨⟨⟨g1, g2⟩, g3⟩, g4⟩ := hg
      have key := C03.slice_wrap_feature_partial s w.1 w.2 b3 (by omega) b2 f hf hwf hnn
        (hok (by omega)) g1 g2 hov g3 g4
      rw [Cli.wrap_remap_eq s.len w.1 w.2 b3 (by omega) b2 _ hpos] at key
      exact key

/-- every feature of a piece comes from a feature of the record (forward windows: one
overlapping the window) -/
theorem split_circular_piece_feature_origin (loc : Seq → List Reg) (s : Seq)
    (hw : ∀ r ∈ loc s, 0 ≤ Cli.cutOf r ∧ Cli.cutOf r ≤ s.len)
    (h2 : 2 ≤ (Cli.sortAscU ((loc s).map Cli.cutOf)).length) (c : Int)
    (hc : (Cli.sortAscU ((loc s).map Cli.cutOf)).getLast? = some c)
    (w : Int × Int) (hwm : w ∈ Cli.windows (c :: Cli.sortAscU ((loc s).map Cli.cutOf)))
    (f' : Feature) (hf' : f' ∈ (s.slice w.1 w.2).feats) :
    ∃ f ∈ s.feats, f'.key = f.key ∧ f'.props = f.props ∧
      (w.1 ≤ w.2 → f.loc.overlap w.1 w.2 = true) := by
  obtain ⟨b1, b2, b3, b4, _⟩ := split_circular_windows_bounds loc s hw h2 c hc w hwm
  by_cases hfw : w.1 ≤ w.2
  · obtain ⟨f, h1, h2', h3, h4⟩ := C03.slice_fwd_feature_origin s w.1 w.2 b1 hfw f' hf'
    exact ⟨f, h1, h3, h4, fun _ => h2'⟩
  · rw [C03.slice_wrap_eq s w.1 w.2 b1 b3 (by omega)] at hf'
    have hL : 0 < s.len := by omega
    have hsl : (s.rotate (-w.1)).slice 0 (s.len - w.1 + w.2) =
        Seq.sliceFwd (s.rotate (-w.1)) 0 (s.len - w.1 + w.2) := by
      unfold Seq.slice
      simp only [show ¬ (0:Int) < 0 by omega, show ¬ (s.len - w.1 + w.2) < 0 by omega, if_false]
    rw [← hsl] at hf'
    obtain ⟨fr, h1, _, h3, h4⟩ :=
      C03.slice_fwd_feature_origin (s.rotate (-w.1)) 0 (s.len - w.1 + w.2) (by omega) (by omega) f' hf'
    have hp := (C04.rotate_table_perm s (-w.1)).subset h1
    obtain ⟨f, hfm, rfl⟩ := List.mem_map.mp hp
    exact ⟨f, hfm, h3, h4, fun h => absurd h hfw⟩

/-- **circular `gts split`: the pieces of a feature together denote its residues** (at least two
distinct cuts, all inside `[0, len]`) — every residue `p` a feature denotes (location well-formed,
non-negative coordinates, positions inside the record) lies in exactly one window `w` of the cut
list `c, cuts…`; the piece written for `w` contains the feature (same key and qualifiers), its
location there denotes only former residues of the feature inside `w`, at their offset in that
piece (`Cli.cwinMap`), and among them `p`, on the same strand.  Guards: K2 in no step of any
piece (`Cli.cwinAbs`); for the piece across the origin the domain of the `Normalize` law after
the re-origin at the last cut `c`. -/
theorem split_features_circular_partial (loc : Seq → List Reg) (s : Seq)
    (hw : ∀ r ∈ loc s, 0 ≤ Cli.cutOf r ∧ Cli.cutOf r ≤ s.len)
    (h2 : 2 ≤ (Cli.sortAscU ((loc s).map Cli.cutOf)).length) (c : Int)
    (hc : (Cli.sortAscU ((loc s).map Cli.cutOf)).getLast? = some c)
    (f : Feature) (hf : f ∈ s.feats) (hwf : f.loc.wf = true) (hnn : f.loc.nonneg = true)
    (hpos : ∀ p ∈ f.loc.den, 0 ≤ p.1 ∧ p.1 < s.len)
    (hok : Loc.normOk s.len (f.loc.expand 0 (C04.rotN (-c) s.len)) = true)
    (hg : ∀ w ∈ Cli.windows (c :: Cli.sortAscU ((loc s).map Cli.cutOf)),
      Cli.cwinAbs s.len f.loc w = false)
    (p : Pos) (hp : p ∈ f.loc.den) :
    ∃ w ∈ Cli.windows (c :: Cli.sortAscU ((loc s).map Cli.cutOf)),
      Cli.cwinHas w.1 w.2 p.1 ∧
      (∀ w' ∈ Cli.windows (c :: Cli.sortAscU ((loc s).map Cli.cutOf)),
        Cli.cwinHas w'.1 w'.2 p.1 → w' = w) ∧
      s.slice w.1 w.2 ∈ Cli.split loc true s ∧
      ∃ f' ∈ (s.slice w.1 w.2).feats, f'.key = f.key ∧ f'.props = f.props ∧
        f'.loc.den ≼ filterMapPos (Cli.cwinMap s.len w.1 w.2) f.loc.den ∧
        ∃ y, Cli.cwinMap s.len w.1 w.2 p.1 = some y ∧ (y, p.2) ∈ f'.loc.den := by
  obtain ⟨w, hwm, hwx, huniq⟩ := Cli.cwindow_partition _ (Cli.sortAscU_sorted ((loc s).map Cli.cutOf))
    h2 c hc p.1
  obtain ⟨b1, b2, b3, b4, b5⟩ := split_circular_windows_bounds loc s hw h2 c hc w hwm
  have hpp := hpos p hp
  have hgw := hg w hwm
  -- the overlap test of the Go code holds because the location denotes a residue in the window
  have hov : if w.1 ≤ w.2 then f.loc.overlap w.1 w.2 = true
      else (Cli.rotLoc f.loc w.1 s.len).overlap 0 (s.len - w.1 + w.2) = true := by
    by_cases hfw : w.1 ≤ w.2
    · rw [if_pos hfw]
      unfold Cli.cwinHas at hwx
      rw [if_pos hfw] at hwx
      exact Cli.overlap_of_den f.loc w.1 w.2 hwf p hp hwx.1 hwx.2
    · rw [if_neg hfw]
      unfold Cli.cwinHas at hwx
      rw [if_neg hfw] at hwx
      have hL : 0 < s.len := by omega
      have hwc : w.1 = c := b5 (by omega)
      simp only [Cli.cwinAbs, if_neg hfw, Bool.or_eq_false_iff] at hgw
      obtain ⟨⟨⟨g1, g2⟩, _⟩, _⟩ := hgw
      have hr : 0 ≤ C04.rotN (-w.1) s.len := by
        rw [C04.rotN_eq_emod _ _ hL]; exact Int.emod_nonneg _ (by omega)
      have hok' : Loc.normOk s.len (f.loc.expand 0 (C04.rotN (-w.1) s.len)) = true := hwc ▸ hok
      have hd := C04.rotate_den_partial f.loc (C04.rotN (-w.1) s.len) s.len hL hr hwf hnn hok' g1 g2
      have hwf' : (Cli.rotLoc f.loc w.1 s.len).wf = true :=
        (Loc.normalize_mod _ s.len hL ((Loc.expand_ins f.loc 0 _ hwf hr).2) hok').2
      have hmem : (rotMap (C04.rotN (-w.1) s.len) s.len p.1, p.2) ∈ (Cli.rotLoc f.loc w.1 s.len).den := by
        apply hd.2
        simp only [mapPos, List.mem_map]
        exact ⟨p, hp, rfl⟩
      have e : rotMap (C04.rotN (-w.1) s.len) s.len p.1 = rotMap (-w.1) s.len p.1 := by
        rw [C04.rotN_eq_emod _ _ hL, C04.rotMap_emod]
      rw [e] at hmem
      have hrange : 0 ≤ rotMap (-w.1) s.len p.1 ∧ rotMap (-w.1) s.len p.1 < s.len - w.1 + w.2 := by
        unfold rotMap
        rcases hwx with h | h
        · have e1 : (p.1 + -w.1) % s.len = p.1 - w.1 := Int.emod_eq_of_lt (by omega) (by omega)
          rw [e1]; omega
        · by_cases h' : w.1 ≤ p.1
          · have e1 : (p.1 + -w.1) % s.len = p.1 - w.1 := Int.emod_eq_of_lt (by omega) (by omega)
            rw [e1]; omega
          · have e1 : (p.1 + -w.1) % s.len = p.1 - w.1 + s.len := by
              have : p.1 + -w.1 = (p.1 - w.1 + s.len) + (-1) * s.len := by omega
              rw [this, Int.add_mul_emod_self_right, Int.emod_eq_of_lt (by omega) (by omega)]
            rw [e1]; omega
      exact Cli.overlap_of_den _ 0 (s.len - w.1 + w.2) hwf' _ hmem hrange.1 hrange.2
  obtain ⟨hmem, f', hf', hk, hpr, hden⟩ := split_circular_piece_feature_partial loc s hw h2 c hc w hwm
    f hf hwf hnn hpos (fun h => by rw [b5 h]; exact hok) hov hgw
  refine ⟨w, hwm, hwx, huniq, hmem, f', hf', hk, hpr, hden, ?_⟩
  have hsome := (Cli.cwinMap_isSome_iff s.len w.1 w.2 p.1).mpr hwx
  obtain ⟨y, hy⟩ := Option.isSome_iff_exists.mp hsome
  refine ⟨y, hy, ?_⟩
  apply hden.2
  unfold filterMapPos
  rw [List.mem_filterMap]
  exact ⟨p, hp, by rw [hy]; rfl⟩

/-! ### non-vacuity (circular split) -/

/-- hypotheses of `split_features_circular_one_partial`: the 12-residue record `s1` of
`Gts/Props/C15.lean` (a `source`, the complement-strand join `gene1`, a `misc_feature`), one
located region with head 5 — and two regions sharing the cut 5 -/
example : (fun _ : Seq => [seg 5 2]) s1 ≠ [] ∧ ((fun _ : Seq => [seg 5 2]) s1).length = 1 ∧
    Cli.splitOrigin (fun _ => [seg 5 2]) s1 = 5 ∧ Cli.splitOrigin (fun _ => [seg 5 9, seg 5 7]) s1 = 5 ∧
    (Cli.sortAscU (((fun _ : Seq => [seg 5 9, seg 5 7]) s1).map Cli.cutOf)).length = 1 ∧
    0 < s1.len ∧ gene1.loc.wf = true ∧ gene1.loc.nonneg = true ∧
    Loc.normOk s1.len (gene1.loc.expand 0 (C04.rotN (-5) s1.len)) = true ∧
    Loc.expandAbs gene1.loc 0 (C04.rotN (-5) s1.len) = false ∧
    Loc.normalizeAbs (gene1.loc.expand 0 (C04.rotN (-5) s1.len)) s1.len = false := by decide

/-- hypotheses of `split_features_circular_partial` / `split_circular_piece_feature_partial` for
`gene1` under the three regions `loc2` (cuts 2, 3, 5; the circle is opened at the last cut 5:
windows `(5,2)` across the origin, `(2,3)`, `(3,5)`) -/
example : (∀ r ∈ loc2 s1, 0 ≤ Cli.cutOf r ∧ Cli.cutOf r ≤ s1.len) ∧
    Cli.sortAscU ((loc2 s1).map Cli.cutOf) = [2, 3, 5] ∧
    (Cli.sortAscU ((loc2 s1).map Cli.cutOf)).getLast? = some 5 ∧
    Cli.windows (5 :: Cli.sortAscU ((loc2 s1).map Cli.cutOf)) = [(5, 2), (2, 3), (3, 5)] ∧
    gene1.loc.wf = true ∧ gene1.loc.nonneg = true ∧
    (∀ p ∈ gene1.loc.den, 0 ≤ p.1 ∧ p.1 < s1.len) ∧
    Loc.normOk s1.len (gene1.loc.expand 0 (C04.rotN (-5) s1.len)) = true ∧
    (∀ w ∈ Cli.windows (5 :: Cli.sortAscU ((loc2 s1).map Cli.cutOf)), Cli.cwinAbs s1.len gene1.loc w = false) ∧
    (Cli.rotLoc gene1.loc 5 s1.len).overlap 0 (s1.len - 5 + 2) = true := by decide
/-- … and what they give: the join `complement(join(<2..4,7,9..>11))` (0-based residues 10,9,8 | 6 |
3,2,1; `gene1 ∈ s1.feats` is an `example` of `Gts/Props/C15.lean`) in the three pieces: across the
origin 10,9,8,6 and 1 (re-based to 5,4,3,1 and 8), then 2, then 3 -/
example : (Cli.split loc2 true s1).map (fun pc => (pc.feats.filter (·.key = "gene")).map (·.loc.den)) =
      [[[(5, true), (4, true), (3, true), (1, true), (8, true)]], [[(0, true)]], [[(0, true)]]] ∧
    filterMapPos (Cli.cwinMap s1.len 5 2) gene1.loc.den =
      [(5, true), (4, true), (3, true), (1, true), (8, true)] := by decide

/-! ## extract: features

`Cli.extract` writes `r.Locate(seq)` (`Reg.locate`) for every region `r` of `Cli.extractRegs` (the
de-duplicated located regions, with `-v` their linear complement; `extract_regs_filter`).
`Region.Locate` slices the record once per LEAF segment of the region tree (`gts.Slice`, for a
backward segment followed by `gts.Complement` and `gts.Reverse`) and concatenates the results
(`gts.Concat`); a feature of the input is therefore present once per leaf whose window it overlaps:
its PIECES `Cli.locPieces` (`Gts/Lemmas/CliExtractFeat.lean`), each with its leaf, the offset of the
leaf in the emitted record, its location and the K2 guard of the steps that made it. -/

/-- the guard of the extract theorems below, from the harness's guard on the LOCATED regions: when
every located region lies inside the record, so does every region extract emits — with and without
`-v` (`extract_invert_cover`: the inverted regions are forward segments inside `[0, len]`) -/
theorem extract_regs_within (locs : List (Seq → List Reg)) (invert : Bool) (s : Seq)
    (hw : within s.len (many (locs.flatMap fun l => l s)))
    (r : Reg) (hr : r ∈ Cli.extractRegs locs invert s) : within s.len r := by
  unfold Cli.extractRegs at hr
  cases invert with
  | false =>
    simp only [Bool.false_eq_true, if_false] at hr
    have hm := (List.mem_filter.mp hr).1
    rcases (Cli.mem_dedupRegs [] _ r).mp hm with h | h
    · cases h
    · exact (Cli.within_many_iff _ _).mp hw r h
  | true =>
    simp only [if_true] at hr
    have hm := (List.mem_filter.mp hr).1
    obtain ⟨he, hb, _⟩ := extract_invert_cover locs s hw
    rw [he] at hm
    obtain ⟨g, hg, rfl⟩ := List.mem_map.mp hm
    have := hb g hg
    intro x hx
    simp only [leaves_seg, List.mem_singleton] at hx
    subst hx
    simp only
    omega

/-- **`gts extract`, the feature table of every emitted record** (region inside the record): up to
the order `FeatureSlice.Insert` gives it, it consists of exactly the pieces of the input's
features — one feature per input feature and overlapped leaf segment, nothing else. -/
theorem extract_feats_perm (locs : List (Seq → List Reg)) (invert : Bool) (s : Seq)
    (r : Reg) (hr : r ∈ Cli.extractRegs locs invert s) (hwr : within s.len r) :
    r.locate s ∈ Cli.extract locs invert s ∧
    (r.locate s).feats.Perm
      (s.feats.flatMap fun f => (Cli.locPieces s.len f r).map (Cli.pieceFeat f)) :=
  ⟨List.mem_map_of_mem (f := fun r => r.locate s) hr, Cli.locate_feats_perm s r hwr⟩

/-- … in particular every feature of an emitted record is a piece of a feature of the input, with
that feature's key and qualifiers -/
theorem extract_feature_origin (s : Seq) (r : Reg) (hwr : within s.len r)
    (f' : Feature) (hf' : f' ∈ (r.locate s).feats) :
    ∃ f ∈ s.feats, ∃ p ∈ Cli.locPieces s.len f r,
      f'.key = f.key ∧ f'.props = f.props ∧ f'.loc = p.loc := by
  have h := (Cli.locate_feats_perm s r hwr).subset hf'
  obtain ⟨f, hf, hm⟩ := List.mem_flatMap.mp h
  obtain ⟨p, hp, rfl⟩ := List.mem_map.mp hm
  exact ⟨f, hf, p, hp, rfl, rfl, rfl⟩

/-- **which pieces**: a feature has one piece per leaf segment of the region tree (left to right)
that passes the `Overlap` filter of `gts.Slice`, and the offset of a piece is the total length of
the leaves in front of its leaf (`Cli.leafOffs`) — which is where the residues of that leaf lie in
`Reg.den r`, i.e. (C05 `region_locate_bytes`) in the emitted record. -/
theorem extract_pieces_leaves (L : Int) (f : Feature) (r : Reg) :
    (Cli.locPieces L f r).map Cli.Piece.key =
      (Cli.leafOffs r 0).filter (fun lo => Cli.segOverlap f lo.1.1 lo.1.2) ∧
    ∀ lo ∈ Cli.leafOffs r 0, ∃ pre post,
      Reg.den r = pre ++ Reg.den (seg lo.1.1 lo.1.2) ++ post ∧ (pre.length : Int) = lo.2 :=
  ⟨Cli.locPieces_keys L f r, fun lo hlo => by
    obtain ⟨pre, post, h1, h2⟩ := Cli.leafOffs_den r 0 lo hlo
    exact ⟨pre, post, h1, by omega⟩⟩

/-- FULL STATEMENT of the feature clause for `gts extract` (no K2 guard): false today through known
finding K2 inside `Join` — the well-formed, duplicate-free `join(4..6,7)` (0-based residues 3,4,5,6)
on a 10-residue record, extracted with the region `1..8`, comes out as `4..6`: residue 6 is lost
(`Expand` re-`Join`s the parts and `Push` drops a point pushed after a range ending at it). -/
theorem extract_features_full_refuted :
    ¬ (∀ (s : Seq) (r : Reg) (f : Feature), within s.len r → f ∈ s.feats → f.loc.wf = true →
        Loc.coordsWithin f.loc s.len = true →
        ∀ p ∈ Cli.locPieces s.len f r,
          p.loc.den ≼ mapPos (· + p.off) (Cli.segPull p.leaf.1 p.leaf.2 f.loc.den)) := by
  intro h
  have hov : Cli.segOverlap ⟨"gene", .joined [.ranged 3 6 false false, .point 6], []⟩ 0 8 = true := by decide
  have := (h ⟨[⟨"gene", .joined [.ranged 3 6 false false, .point 6], []⟩], [97, 99, 103, 116, 97, 99, 103, 116, 97, 99]⟩
    (seg 0 8) ⟨"gene", .joined [.ranged 3 6 false false, .point 6], []⟩ (by decide)
    (List.mem_singleton.mpr rfl) (by decide) (by decide)
    ⟨(0, 8), 0, Cli.segFeatLoc ⟨"gene", .joined [.ranged 3 6 false false, .point 6], []⟩ 0 8 10,
      Cli.segAbs ⟨"gene", .joined [.ranged 3 6 false false, .point 6], []⟩ 0 8 10⟩
    (by simp only [Cli.locPieces, hov, if_true]; exact List.mem_singleton.mpr rfl)).2
    (6, false) (by decide)
  revert this
  decide

/-- **`gts extract`, every feature, every emitted record** (the last sentence of the property for
extract): let `r` be one of the regions extract emits — a forward segment, a backward segment or
a composite region of any nesting, with `-v` an inverted one — with every end of every leaf
inside the record, and `f` a feature of the input (location well-formed, coordinates inside the
record).  For every piece `p` of `f` (one per leaf segment `(h, t) = p.leaf` of `r` the feature
overlaps, `extract_pieces_leaves`) the emitted record `r.Locate(seq)` — which IS one of the written
records — has a feature with `f`'s key and qualifiers and the location `p.loc`, and that location
denotes EXACTLY the residues of `f` that lie inside the leaf, at their position in the emitted
record and on the strand relative to the leaf (`Cli.segPull`, then the offset `p.off` of the leaf):
input residue `x` of a forward leaf is at `p.off + x - h` on the same strand, of a backward leaf
(reverse-complemented) at `p.off + h - 1 - x` on the opposite strand; order kept.  Composition of
C03 (`Slice`: `sliceLoc_den`), C05 (`Complement`, `Reverse`: `reverse_mirror`) and C10 (`Concat`:
`Expand(0, offset)` translates).  Guard: K2 in none of these steps (`p.abs`, folded along the
region tree like `Cli.delAbs` along the delete loop); without it the statement is
`extract_features_full_refuted`. -/
theorem extract_features_partial (locs : List (Seq → List Reg)) (invert : Bool) (s : Seq)
    (r : Reg) (hr : r ∈ Cli.extractRegs locs invert s) (hwr : within s.len r)
    (f : Feature) (hf : f ∈ s.feats) (hw : f.loc.wf = true)
    (hcw : Loc.coordsWithin f.loc s.len = true)
    (p : Cli.Piece) (hp : p ∈ Cli.locPieces s.len f r) (hg : p.abs = false) :
    r.locate s ∈ Cli.extract locs invert s ∧
    p.key ∈ Cli.leafOffs r 0 ∧ Cli.segOverlap f p.leaf.1 p.leaf.2 = true ∧
    ∃ f' ∈ (r.locate s).feats, f'.key = f.key ∧ f'.props = f.props ∧ f'.loc = p.loc ∧
      f'.loc.den ≼ mapPos (· + p.off) (Cli.segPull p.leaf.1 p.leaf.2 f.loc.den) := by
  rw [Loc.coordsWithin_eq] at hcw
  have hk : p.key ∈ (Cli.locPieces s.len f r).map Cli.Piece.key := List.mem_map_of_mem hp
  rw [Cli.locPieces_keys] at hk
  obtain ⟨hk1, hk2⟩ := List.mem_filter.mp hk
  refine ⟨List.mem_map_of_mem (f := fun r => r.locate s) hr, hk1, hk2, Cli.pieceFeat f p, ?_, rfl, rfl, rfl, ?_⟩
  · apply (Cli.locate_feats_perm s r hwr).symm.subset
    exact List.mem_flatMap.mpr ⟨f, hf, List.mem_map_of_mem hp⟩
  · exact (Cli.locPieces_ok s.len f hw hcw r hwr p hp).2.2.2 hg

/-- … with EQUALITY for duplicate-free locations (every real feature). -/
theorem extract_features_eq_partial (locs : List (Seq → List Reg)) (invert : Bool) (s : Seq)
    (r : Reg) (hr : r ∈ Cli.extractRegs locs invert s) (hwr : within s.len r)
    (f : Feature) (hf : f ∈ s.feats) (hw : f.loc.wf = true)
    (hcw : Loc.coordsWithin f.loc s.len = true) (hnd : f.loc.den.Nodup)
    (p : Cli.Piece) (hp : p ∈ Cli.locPieces s.len f r) (hg : p.abs = false) :
    ∃ f' ∈ (r.locate s).feats, f'.key = f.key ∧ f'.props = f.props ∧ f'.loc = p.loc ∧
      f'.loc.den = mapPos (· + p.off) (Cli.segPull p.leaf.1 p.leaf.2 f.loc.den) := by
  obtain ⟨_, _, _, f', h1, h2, h3, h4, h5⟩ := extract_features_partial locs invert s r hr hwr f hf hw hcw p hp hg
  refine ⟨f', h1, h2, h3, h4, h5.eq_of_nodup ?_⟩
  apply Cli.nodup_mapPos _ _ (fun x x' h => by omega)
  unfold Cli.segPull
  refine List.Pairwise.filterMap _ ?_ hnd
  intro a a' hne b hb b' hb' hbb
  apply hne
  cases ha : Cli.segMap p.leaf.1 p.leaf.2 a.1 with
  | none => simp [ha] at hb
  | some y =>
    cases ha' : Cli.segMap p.leaf.1 p.leaf.2 a'.1 with
    | none => simp [ha'] at hb'
    | some y' =>
      simp only [ha, Option.map_some, Option.some.injEq] at hb
      simp only [ha', Option.map_some, Option.some.injEq] at hb'
      subst hb; subst hb'
      have e1 : y = y' := (Prod.mk.inj hbb).1
      have e2 := (Prod.mk.inj hbb).2
      subst e1
      apply Prod.ext
      · unfold Cli.segMap at ha ha'
        split at ha <;> split at ha <;> split at ha' <;> simp_all <;> omega
      · by_cases c : p.leaf.2 < p.leaf.1 <;> simp [c] at e2 <;> exact e2

/-- **`gts extract`: the pieces of a feature denote every one of its residues inside the region** —
for every leaf segment `lo.1 = (h, t)` of an emitted region (at offset `lo.2`) and every residue `q`
of a feature that lies inside that leaf (`Cli.segMap h t q.1 = some y`), the feature has a piece for
that leaf, the emitted record contains it (same key and qualifiers), and — K2 guard of the piece —
its location denotes the residue at position `lo.2 + y` of the emitted record, on the strand relative
to the leaf. -/
theorem extract_features_cover_partial (s : Seq) (r : Reg) (hwr : within s.len r)
    (f : Feature) (hf : f ∈ s.feats) (hw : f.loc.wf = true)
    (hcw : Loc.coordsWithin f.loc s.len = true)
    (lo : Seg × Int) (hlo : lo ∈ Cli.leafOffs r 0) (q : Pos) (hq : q ∈ f.loc.den) (y : Int)
    (hm : Cli.segMap lo.1.1 lo.1.2 q.1 = some y) :
    ∃ p ∈ Cli.locPieces s.len f r, p.key = lo ∧
      ∃ f' ∈ (r.locate s).feats, f'.key = f.key ∧ f'.props = f.props ∧ f'.loc = p.loc ∧
        (p.abs = false → (lo.2 + y, if lo.1.2 < lo.1.1 then !q.2 else q.2) ∈ f'.loc.den) := by
  have hov : Cli.segOverlap f lo.1.1 lo.1.2 = true := by
    unfold Cli.segOverlap
    unfold Cli.segMap at hm
    by_cases c : lo.1.2 < lo.1.1
    · rw [if_pos c] at hm ⊢
      split at hm
      · rename_i hx
        exact Cli.overlap_of_den f.loc _ _ hw q hq hx.1 hx.2
      · cases hm
    · rw [if_neg c] at hm ⊢
      split at hm
      · rename_i hx
        exact Cli.overlap_of_den f.loc _ _ hw q hq hx.1 hx.2
      · cases hm
  have hk : lo ∈ (Cli.locPieces s.len f r).map Cli.Piece.key := by
    rw [Cli.locPieces_keys]
    exact List.mem_filter.mpr ⟨hlo, hov⟩
  obtain ⟨p, hp, hpk⟩ := List.mem_map.mp hk
  refine ⟨p, hp, hpk, Cli.pieceFeat f p, ?_, rfl, rfl, rfl, ?_⟩
  · apply (Cli.locate_feats_perm s r hwr).symm.subset
    exact List.mem_flatMap.mpr ⟨f, hf, List.mem_map_of_mem hp⟩
  · intro hg
    rw [Loc.coordsWithin_eq] at hcw
    have hden := (Cli.locPieces_ok s.len f hw hcw r hwr p hp).2.2.2 hg
    apply hden.2
    have e1 : p.leaf = lo.1 := congrArg Prod.fst hpk
    have e2 : p.off = lo.2 := congrArg Prod.snd hpk
    rw [e1, e2]
    simp only [mapPos, Cli.segPull, List.mem_map, List.mem_filterMap]
    refine ⟨(y, if lo.1.2 < lo.1.1 then !q.2 else q.2), ⟨q, hq, by rw [hm]; rfl⟩, ?_⟩
    apply Prod.ext
    · simp only; omega
    · rfl

/-- **`gts extract`, in INPUT coordinates** (what the oracle of the harness decides): position `k` of
the emitted record is input residue `(Reg.den r)[k]` (C05 `region_locate_bytes`), so an emitted
feature residue `(k, strand)` stands for input position `(Reg.den r)[k].1` on the strand
`(Reg.den r)[k].2` flipped by `strand` (`Cli.backPos`).  Read back like this, the emitted feature
denotes exactly the residues of the input feature that lie inside the leaf — same positions, same
strands, same order (`≼`: up to dropped repetitions; `=` for duplicate-free locations). -/
theorem extract_features_back_partial (s : Seq) (r : Reg) (hwr : within s.len r)
    (f : Feature) (hf : f ∈ s.feats) (hw : f.loc.wf = true)
    (hcw : Loc.coordsWithin f.loc s.len = true)
    (p : Cli.Piece) (hp : p ∈ Cli.locPieces s.len f r) (hg : p.abs = false) :
    ∃ f' ∈ (r.locate s).feats, f'.key = f.key ∧ f'.props = f.props ∧ f'.loc = p.loc ∧
      f'.loc.den.filterMap (Cli.backPos (Reg.den r)) ≼
        (f.loc.den.filter fun q => (Cli.segMap p.leaf.1 p.leaf.2 q.1).isSome) ∧
      (f.loc.den.Nodup → f'.loc.den.filterMap (Cli.backPos (Reg.den r)) =
        f.loc.den.filter fun q => (Cli.segMap p.leaf.1 p.leaf.2 q.1).isSome) := by
  rw [Loc.coordsWithin_eq] at hcw
  have hb := Cli.piece_back s.len f hw hcw r hwr p hp hg
  refine ⟨Cli.pieceFeat f p, ?_, rfl, rfl, rfl, hb, fun hnd => hb.eq_of_nodup (hnd.filter _)⟩
  apply (Cli.locate_feats_perm s r hwr).symm.subset
  exact List.mem_flatMap.mpr ⟨f, hf, List.mem_map_of_mem hp⟩

/-- **`gts extract`: every emitted feature reads, in the emitted record, the residues the input
feature read in the input** (residue-level corollary; `Gts.readAt`: the byte at the position,
complemented on the complement strand) — for a duplicate-free feature location, the residues the
piece reads from `r.Locate(seq)`, in order, are the residues the feature reads from the input at
its positions inside the leaf, in order; up to U → T, because a residue of a complement-strand
feature extracted through a backward segment is complemented twice. -/
theorem extract_features_residues_partial (s : Seq) (r : Reg) (hwr : within s.len r)
    (f : Feature) (hf : f ∈ s.feats) (hw : f.loc.wf = true)
    (hcw : Loc.coordsWithin f.loc s.len = true) (hnd : f.loc.den.Nodup)
    (p : Cli.Piece) (hp : p ∈ Cli.locPieces s.len f r) (hg : p.abs = false) :
    ∃ f' ∈ (r.locate s).feats, f'.key = f.key ∧ f'.props = f.props ∧ f'.loc = p.loc ∧
      f'.loc.den.map (fun q => uToT (Gts.readAt (r.locate s).bytes q)) =
        (f.loc.den.filter fun q => (Cli.segMap p.leaf.1 p.leaf.2 q.1).isSome).map
          (fun q => uToT (Gts.readAt s.bytes q)) := by
  obtain ⟨f', h1, h2, h3, h4, _, h6⟩ := extract_features_back_partial s r hwr f hf hw hcw p hp hg
  refine ⟨f', h1, h2, h3, h4, ?_⟩
  rw [← h6 hnd]
  apply Cli.map_eq_of_filterMap
  intro q hq
  rw [Loc.coordsWithin_eq] at hcw
  have hden := (Cli.locPieces_ok s.len f hw hcw r hwr p hp).2.2.2 hg
  have hk : p.key ∈ Cli.leafOffs r 0 := by
    have : p.key ∈ (Cli.locPieces s.len f r).map Cli.Piece.key := List.mem_map_of_mem hp
    rw [Cli.locPieces_keys] at this
    exact (List.mem_filter.mp this).1
  rw [h4] at hq
  obtain ⟨p0, _, hb⟩ := Cli.segPull_back_some r p.key hk f.loc.den q (hden.1.subset hq)
  exact ⟨p0, hb, Cli.readAt_back r s hwr q p0 hb⟩

/-- **`gts extract`, a forward segment that wraps around the origin of a circular record** (a head
before position 0, e.g. from a modifier that extends a region to the left of the origin:
`-L ≤ h < 0 ≤ t < h + L`): `Segment{h, t}.Locate` is `gts.Slice(seq, h + L, t)` in its wrap-around
branch — `gts.Rotate(seq, -(h + L))` (C04, the re-origin), then the forward slice `[0, t - h)` —
so, exactly as for the first piece of circular split, a feature whose ROTATED location overlaps the
window is present with unchanged key and qualifiers and denotes exactly its former residues inside
the window `h + L … L, 0 … t`, at their offset in the emitted record (`Cli.cwinMap`).  Guards: the
domain of the `Normalize` law and K2 in no step (`Cli.cwinAbs`).  (A BACKWARD wrap-around segment and a
wrap-around part of a composite region: `extract_wrap_segment_piece_partial`,
`extract_wrap_part_feature_partial` below; the harness sends such locators on circular records since
then.) -/
theorem extract_wrap_segment_feature_partial (s : Seq) (h t : Int) (hh : h < 0) (hL : -s.len ≤ h)
    (ht0 : 0 ≤ t) (htw : t < h + s.len)
    (f : Feature) (hf : f ∈ s.feats) (hwf : f.loc.wf = true) (hnn : f.loc.nonneg = true)
    (hpos : ∀ p ∈ f.loc.den, 0 ≤ p.1 ∧ p.1 < s.len)
    (hok : Loc.normOk s.len (f.loc.expand 0 (C04.rotN (-(h + s.len)) s.len)) = true)
    (hov : (Cli.rotLoc f.loc (h + s.len) s.len).overlap 0 (s.len - (h + s.len) + t) = true)
    (hg : Cli.cwinAbs s.len f.loc (h + s.len, t) = false) :
    (seg h t).locate s = s.slice (h + s.len) t ∧
    ∃ f' ∈ ((seg h t).locate s).feats, f'.key = f.key ∧ f'.props = f.props ∧
      f'.loc.den ≼ filterMapPos (Cli.cwinMap s.len (h + s.len) t) f.loc.den := by
  have e : (seg h t).locate s = s.slice (h + s.len) t := by
    simp only [Reg.locate, show ¬ t < h by omega, if_false]
    unfold Seq.slice
    simp only [hh, if_true, show ¬ (h + s.len < 0) by omega, if_false]
  refine ⟨e, ?_⟩
  rw [e]
  have hfw : ¬ (h + s.len ≤ t) := by omega
  simp only [Cli.cwinAbs, if_neg hfw, Bool.or_eq_false_iff] at hg
  obtain ⟨⟨⟨g1, g2⟩, g3⟩, g4⟩ := hg
  have key := C03.slice_wrap_feature_partial s (h + s.len) t ht0 (by omega) (by omega) f hf hwf hnn
    hok g1 g2 hov g3 g4
  rw [Cli.wrap_remap_eq s.len (h + s.len) t ht0 (by omega) (by omega) _ hpos] at key
  exact key

/-- non-vacuity: `gene1` on the 12-residue record `s1`, the segment `(-3, 2)` (residues 9, 10, 11,
0, 1): the gene's residues 10, 9 and 1 come out at 1, 0 and 4 -/
example : gene1.loc.wf = true ∧ gene1.loc.nonneg = true ∧
    (∀ p ∈ gene1.loc.den, 0 ≤ p.1 ∧ p.1 < s1.len) ∧
    Loc.normOk s1.len (gene1.loc.expand 0 (C04.rotN (-(-3 + s1.len)) s1.len)) = true ∧
    (Cli.rotLoc gene1.loc (-3 + s1.len) s1.len).overlap 0 (s1.len - (-3 + s1.len) + 2) = true ∧
    Cli.cwinAbs s1.len gene1.loc (-3 + s1.len, 2) = false ∧
    filterMapPos (Cli.cwinMap s1.len (-3 + s1.len) 2) gene1.loc.den = [(1, true), (0, true), (4, true)] ∧
    (((seg (-3) 2).locate s1).feats.filter (·.key = "gene")).map (·.loc.den) =
      [[(1, true), (0, true), (4, true)]] ∧
    ((seg (-3) 2).locate s1).bytes = [67, 71, 84, 65, 67] := by decide

/-! ### regions that reach across the origin of a circular record

What `Region.Locate` accepts there (found on the code, `Segment.Locate` → `gts.Slice`; `lo = min h t`,
`hi = max h t`, `L` the length): a negative end has `L` added ONCE, then `end < start` means "rotate by
`-start`, cut `[0, L - start + end)`".  So a leaf reads the window `lo + L … L, 0 … hi` of the circle exactly
for `-L ≤ lo < 0 ≤ hi < lo + L` (`Cli.wrapSeg`); with both ends in `[-L, 0)` it reads the forward window
shifted by `L` (`locate_neg_segment_shift`); `hi ≥ lo + L` is read as the FORWARD window `[lo + L, hi)` — a
segment as long as the circle comes out empty, `locate_long_wrap_differs`; and an end above `L` is outside
what `gts.Slice` accepts (`seq.Bytes()[start:end]` beyond the length: a panic, or bytes of the spare
capacity).  The topology is not consulted: a linear record is read the same way. -/

/-- **`gts extract`, a segment across the origin, forward OR backward** (`Cli.wrapSeg`: `-L ≤ lo < 0 ≤ hi <
lo + L`).  `Segment{h, t}.Locate` is the wrap-around `gts.Slice` of the window `lo + L … L, 0 … hi` —
`gts.Rotate(seq, -(lo + L))`, then the forward slice `[0, hi - lo)` — and for a backward segment
`gts.Complement` and `gts.Reverse` of that.  A feature whose ROTATED location overlaps the window
(`Cli.wsegOverlap`, the test the Go code makes) is in the emitted record with unchanged key and qualifiers at
the location `Cli.wsegFeatLoc`, and that location denotes exactly the feature's residues inside the window, at
their position in the emitted record, on the strand relative to the segment (`Cli.wsegPull`): input residue
`x` of a forward segment is at `x - (h + L)` (from `h + L` on) resp. `x + L - (h + L)` (before `t`) on the
same strand; of a backward segment — the reverse complement of the window `t + L … L, 0 … h` — at `h - t - 1`
minus that offset, on the opposite strand; order kept.  Guards: the domain of the `Normalize` law for the
re-origin, K2 in none of the steps (`Cli.wsegAbs`: `Expand`, `Normalize`, two `Expand`s, backward also
`Reverse`).  The emitted record IS one of the written ones when the segment is among `Cli.extractRegs`. -/
theorem extract_wrap_segment_piece_partial (locs : List (Seq → List Reg)) (invert : Bool) (s : Seq)
    (h t : Int) (hr : seg h t ∈ Cli.extractRegs locs invert s) (hws : Cli.wrapSeg s.len h t = true)
    (f : Feature) (hf : f ∈ s.feats) (hwf : f.loc.wf = true) (hnn : f.loc.nonneg = true)
    (hpos : ∀ p ∈ f.loc.den, 0 ≤ p.1 ∧ p.1 < s.len)
    (hok : Loc.normOk s.len (f.loc.expand 0 (C04.rotN (-((if t < h then t else h) + s.len)) s.len)) = true)
    (hov : Cli.wsegOverlap f h t s.len = true) (hg : Cli.wsegAbs f h t s.len = false) :
    (seg h t).locate s ∈ Cli.extract locs invert s ∧
    ((seg h t).locate s).len = Reg.len (seg h t) ∧
    ∃ f' ∈ ((seg h t).locate s).feats, f'.key = f.key ∧ f'.props = f.props ∧
      f'.loc = Cli.wsegFeatLoc f h t s.len ∧
      f'.loc.den ≼ Cli.wsegPull s.len h t f.loc.den := by
  obtain ⟨m, _, _, d⟩ := Cli.locate_wseg_feature s h t hws f hf hwf hnn hpos hok hov
  exact ⟨List.mem_map_of_mem (f := fun r => r.locate s) hr, Cli.locate_wseg_len s h t hws,
    _, m, rfl, rfl, rfl, d hg⟩

/-- … its residues: the window of the circle, reverse-complemented for a backward segment -/
theorem extract_wrap_segment_bytes (s : Seq) (h t : Int) (hws : Cli.wrapSeg s.len h t = true) :
    ((seg h t).locate s).bytes =
      if t < h then
        ((s.bytes.drop (t + s.len).toNat ++ s.bytes.take h.toNat).map Nuc.complementByte).reverse
      else s.bytes.drop (h + s.len).toNat ++ s.bytes.take t.toNat := by
  rw [Cli.locate_wseg s h t hws]
  unfold Cli.wrapSeg at hws
  by_cases hth : t < h
  · simp only [hth, if_true, Bool.and_eq_true, decide_eq_true_eq] at hws ⊢
    simp only [Seq.reverse, Seq.complement]
    rw [C03.slice_bytes_wrap s (t + s.len) h hws.1.2 (by omega) (by omega)]
  · simp only [hth, if_false, Bool.and_eq_true, decide_eq_true_eq] at hws ⊢
    rw [C03.slice_bytes_wrap s (h + s.len) t hws.1.2 (by omega) (by omega)]

/-- **`gts extract`, a wrap-around part inside a composite region**: `Regions.Locate` is `gts.Concat` of the
located parts, so for `r = Regions{pre…, Segment{h, t}, post…}` with `Segment{h, t}` across the origin
(`Cli.wrapSeg`, forward or backward) the feature of `extract_wrap_segment_piece_partial` is in `r.Locate(seq)`
— re-located by `Expand(0, off)` unless the part is the first — and denotes the feature's residues inside the
window at `off +` their position in the part, `off` = the number of residues emitted for the parts in front
(`= Reg.lenList pre` when those lie inside the record or wrap themselves).  The other parts are arbitrary
regions (nested, wrapping or not).  Additional guard: K2 not in that `Expand(0, off)`.  For a part nested more
deeply the step is repeated (`Cli.concat_part_feature` is about any element of any `Concat`). -/
theorem extract_wrap_part_feature_partial (s : Seq) (pre post : List Reg) (h t : Int)
    (hws : Cli.wrapSeg s.len h t = true)
    (f : Feature) (hf : f ∈ s.feats) (hwf : f.loc.wf = true) (hnn : f.loc.nonneg = true)
    (hpos : ∀ p ∈ f.loc.den, 0 ≤ p.1 ∧ p.1 < s.len)
    (hok : Loc.normOk s.len (f.loc.expand 0 (C04.rotN (-((if t < h then t else h) + s.len)) s.len)) = true)
    (hov : Cli.wsegOverlap f h t s.len = true) (hg : Cli.wsegAbs f h t s.len = false)
    (hgc : pre ≠ [] → Loc.expandAbs (Cli.wsegFeatLoc f h t s.len) 0
      (Seq.concat (Reg.locateList pre s)).len = false) :
    ∃ f' ∈ ((many (pre ++ seg h t :: post)).locate s).feats, f'.key = f.key ∧ f'.props = f.props ∧
      f'.loc.den ≼ mapPos (· + (Seq.concat (Reg.locateList pre s)).len) (Cli.wsegPull s.len h t f.loc.den) := by
  obtain ⟨m, w1, w2, d⟩ := Cli.locate_wseg_feature s h t hws f hf hwf hnn hpos hok hov
  have e : Reg.locateList (pre ++ seg h t :: post) s =
      Reg.locateList pre s ++ (seg h t).locate s :: Reg.locateList post s := by
    simp only [Cli.locateList_eq_map, List.map_append, List.map_cons]
  have hpre : Reg.locateList pre s ≠ [] ↔ pre ≠ [] := by
    cases pre <;> simp [Reg.locateList]
  obtain ⟨g', hm, hk, hp, hd⟩ := Cli.concat_part_feature (Reg.locateList pre s) (Reg.locateList post s)
    ((seg h t).locate s) _ m w1 w2 (fun hne => hgc (hpre.mp hne))
  refine ⟨g', ?_, hk, hp, hd.trans (mapPos_refines _ (d hg))⟩
  simp only [Reg.locate, e]
  exact hm

/-- the offset of a part is the total length of the parts in front when those lie inside the record -/
theorem extract_part_offset (s : Seq) (pre : List Reg) (hw : ∀ r ∈ pre, within s.len r) :
    (Seq.concat (Reg.locateList pre s)).len = Reg.lenList pre := by
  have := Cli.locate_len (many pre) s ((Cli.within_many_iff _ _).mpr hw)
  simpa [Reg.locate, Reg.len] using this

/-- **both ends before the origin** (`-L ≤ h, t < 0`): `gts.Slice` adds `L` to both, the segment is read as
the segment `(h + L, t + L)` inside the record — to which `extract_features_partial` and the other theorems
for regions inside the record apply -/
theorem locate_neg_segment_shift (s : Seq) (h t : Int) (hh : h < 0) (hhL : -s.len ≤ h) (ht : t < 0)
    (htL : -s.len ≤ t) : (seg h t).locate s = (seg (h + s.len) (t + s.len)).locate s := by
  simp only [Reg.locate]
  by_cases hth : t < h
  · rw [if_pos hth, if_pos (by omega), Cli.slice_neg_both s t h ht (by omega) hh (by omega)]
  · rw [if_neg hth, if_neg (by omega), Cli.slice_neg_both s h t hh (by omega) ht (by omega)]

/-- **a segment across the origin that is as long as the circle, or longer, is NOT read as such** (model and
code; `seq.slice … -3 9` answers the empty record on both sides): `Segment{-3, 9}` on twelve residues is the
whole circle read from residue 9, twelve residues long (`Reg.len`); `gts.Slice` turns it into `Slice(9, 9)` and
emits NOTHING — `gts extract` writes an empty record for it (a single region is written whatever its length).
`Segment{-3, 10}`, thirteen residues, comes out as the one residue `[9, 10)`.  Outside `Cli.wrapSeg`, outside
every theorem above, and kept out of the harness domain. -/
theorem locate_long_wrap_differs :
    Reg.len (seg (-3) 9) = s1.len ∧ ((seg (-3) 9).locate s1).bytes = [] ∧
    (Cli.extract [fun _ => [seg (-3) 9]] false s1).map (·.bytes) = [[]] ∧
    Reg.len (seg (-3) 10) = 13 ∧ ((seg (-3) 10).locate s1).bytes = [67] ∧
    Cli.wrapSeg s1.len (-3) 9 = false ∧ Cli.wrapSeg s1.len (-3) 10 = false := by
  decide

/-- **`gts extract -v` with a located region that reaches before the origin** (model and code; `reg.invlin
(S -3 2) 12` answers `((S 0 -3) (S 2 12))` on both sides): `gts.InvertLinear` — "linear inversion only" — sorts
the flattened segments and emits the gaps from position 0 on; the located region `Segment{-3, 2}` on twelve
residues (the window 9, 10, 11, 0, 1) makes it emit `Segment{0, -3}`, a BACKWARD segment across the origin — the
reverse complement of residues 9..11, which ARE located — and `Segment{2, 12}`, which contains them once more; the
only unlocated stretch is `[2, 9)`.  Outside the theorems (`extract_regs_within` asks for located regions inside
the record) and kept out of the harness domain (`-v` cases stay inside `[0, L]`). -/
theorem extract_invert_before_origin_differs :
    (Cli.extractRegs [fun _ => [seg (-3) 2]] true s1).map Reg.leaves = [[(0, -3)], [(2, 12)]] ∧
    (Cli.extract [fun _ => [seg (-3) 2]] true s1).map (·.bytes) =
      [[65, 67, 71], [71, 84, 65, 67, 71, 84, 65, 67, 71, 84]] := by
  refine ⟨by simp only [Cli.extractRegs, invertLinear_eq, minimize_eq]; decide, ?_⟩
  simp only [Cli.extract, Cli.extractRegs, invertLinear_eq, minimize_eq]
  decide

/-- non-vacuity, backward: `gene1` (complement strand, residues 10,9,8 | 6 | 3,2,1) on the 12-residue record
`s1`, the BACKWARD segment `(2, -3)` — the reverse complement of the window 9, 10, 11, 0, 1: the gene's
residues 10, 9 and 1 (window offsets 1, 0, 4) come out at 3, 4 and 0, on the forward strand -/
example : Cli.wrapSeg s1.len 2 (-3) = true ∧ gene1.loc.wf = true ∧ gene1.loc.nonneg = true ∧
    (∀ p ∈ gene1.loc.den, 0 ≤ p.1 ∧ p.1 < s1.len) ∧
    Loc.normOk s1.len (gene1.loc.expand 0 (C04.rotN (-((if (-3 : Int) < 2 then (-3 : Int) else 2) + s1.len)) s1.len)) = true ∧
    Cli.wsegOverlap gene1 2 (-3) s1.len = true ∧ Cli.wsegAbs gene1 2 (-3) s1.len = false ∧
    Cli.wsegPull s1.len 2 (-3) gene1.loc.den = [(3, false), (4, false), (0, false)] ∧
    (((seg 2 (-3)).locate s1).feats.filter (·.key = "gene")).map (·.loc.den) =
      [[(3, false), (4, false), (0, false)]] ∧
    ((seg 2 (-3)).locate s1).bytes = [71, 84, 65, 67, 71] := by decide

/-- non-vacuity, composite: the region `Regions{Segment{9, 5}, Segment{-3, 2}}` — a backward segment inside
the record (four residues), then the forward segment across the origin: the gene's residues 10, 9, 1 come out
at offset 4 + 1, 4 + 0, 4 + 4 of the emitted record `TACGCGTAC` -/
example : Cli.wrapSeg s1.len (-3) 2 = true ∧
    Cli.wsegOverlap gene1 (-3) 2 s1.len = true ∧ Cli.wsegAbs gene1 (-3) 2 s1.len = false ∧
    (Seq.concat (Reg.locateList [seg 9 5] s1)).len = 4 ∧
    Loc.expandAbs (Cli.wsegFeatLoc gene1 (-3) 2 s1.len) 0 (Seq.concat (Reg.locateList [seg 9 5] s1)).len = false ∧
    mapPos (· + 4) (Cli.wsegPull s1.len (-3) 2 gene1.loc.den) = [(5, true), (4, true), (8, true)] ∧
    (((many ([seg 9 5] ++ seg (-3) 2 :: [])).locate s1).feats.filter (·.key = "gene")).map (·.loc.den) =
      [[(0, false), (2, false)], [(5, true), (4, true), (8, true)]] ∧
    ((many ([seg 9 5] ++ seg (-3) 2 :: [])).locate s1).bytes = [84, 65, 67, 71, 67, 71, 84, 65, 67] := by decide

/-! ### non-vacuity (extract) -/

/-- a composite region: a backward segment, then a nested composite of two forward segments -/
def rE : Reg := many [seg 9 5, many [seg 0 3, seg 10 12]]

/-- two locators; the second repeats a region of the first -/
def locsE : List (Seq → List Reg) := [fun _ => [rE, seg 2 7], fun _ => [seg 2 7]]

/-- hypotheses of `extract_features_partial` / `…_eq_partial` / `…_cover_partial` / `…_back_partial` /
`…_residues_partial` for the complement-strand join `gene1` of the 12-residue record `s1`
(`Gts/Props/C15.lean`; 0-based residues 10,9,8 | 6 | 3,2,1) and the region `rE`, which extract emits
(first of the two de-duplicated regions) -/
example : Cli.extractRegs locsE false s1 = [rE, seg 2 7] := by rfl
/-- hypothesis of `extract_regs_within`: every located region inside the record -/
example : within s1.len (many (locsE.flatMap fun l => l s1)) := by decide
example : rE ∈ Cli.extractRegs locsE false s1 := by
  rw [show Cli.extractRegs locsE false s1 = [rE, seg 2 7] from rfl]; exact List.mem_cons_self ..
example : within s1.len rE ∧ gene1.loc.wf = true ∧ Loc.coordsWithin gene1.loc s1.len = true ∧
    gene1.loc.den.Nodup ∧
    Cli.leafOffs rE 0 = [((9, 5), 0), ((0, 3), 4), ((10, 12), 7)] ∧
    (Cli.locPieces s1.len gene1 rE).map (fun p => (p.leaf, p.off, p.abs)) =
      [((9, 5), 0, false), ((0, 3), 4, false), ((10, 12), 7, false)] := by decide
/-- … and what they give: residues 8 and 6 lie in the backward leaf `(9, 5)` (emitted positions 0
and 2, now on the forward strand), 2 and 1 in the leaf `(0, 3)` (offset 4: positions 6, 5), 10 in
the leaf `(10, 12)` (offset 7) — and these are the locations of the three `gene` features of the
emitted record `TACGACGGT` -/
example : (Cli.locPieces s1.len gene1 rE).map
      (fun p => mapPos (· + p.off) (Cli.segPull p.leaf.1 p.leaf.2 gene1.loc.den)) =
      [[(0, false), (2, false)], [(6, true), (5, true)], [(7, true)]] ∧
    (Cli.locPieces s1.len gene1 rE).map (·.loc.den) =
      [[(0, false), (2, false)], [(6, true), (5, true)], [(7, true)]] ∧
    ((rE.locate s1).feats.filter (·.key = "gene")).map (·.loc.den) =
      [[(0, false), (2, false)], [(6, true), (5, true)], [(7, true)]] ∧
    (rE.locate s1).bytes = [84, 65, 67, 71, 65, 67, 71, 71, 84] := by decide
/-- read back through the region (`Cli.backPos (Reg.den rE)`), the three pieces denote the residues
of `gene1` inside the three leaves, on their original (complement) strand -/
example : Reg.den rE = [(8, true), (7, true), (6, true), (5, true), (0, false), (1, false), (2, false),
      (10, false), (11, false)] ∧
    (Cli.locPieces s1.len gene1 rE).map (fun p => p.loc.den.filterMap (Cli.backPos (Reg.den rE))) =
      [[(8, true), (6, true)], [(2, true), (1, true)], [(10, true)]] ∧
    (Cli.locPieces s1.len gene1 rE).map
        (fun p => gene1.loc.den.filter fun q => (Cli.segMap p.leaf.1 p.leaf.2 q.1).isSome) =
      [[(8, true), (6, true)], [(2, true), (1, true)], [(10, true)]] := by decide
/-- `-v`: the only stretch no located region covers is `[9, 10)`; it is emitted with its piece of
`gene1` -/
example : (Cli.extractRegs locsE true s1).map Reg.leaves = [[(9, 10)]] ∧
    (Cli.locPieces s1.len gene1 (seg 9 10)).map (fun p => (p.leaf, p.off, p.abs, p.loc.den)) =
      [((9, 10), 0, false, [(0, true)])] :=
  ⟨by simp only [Cli.extractRegs, invertLinear_eq, minimize_eq]; decide, by decide⟩

end Gts.C15
