/-
  C14 (second target): the protocol theorems of `Gts/Props/C14.lean` restated for the REGENERATED protocol code.

  `Gts/Props/C14.lean` proves transparency for the hand-written protocol model `CacheProto.step`.  Here one run is
  what the regenerated `newIODelegate / TryCache / Write / Commit / Close` of cmd/gts/io.go
  (`Gts/Gen/IoDelegate.lean`, go2lean/iodelegatefn.go) do, composed in the frame of the cached commands
  (`Gts.Bridge.IoDelegateFn.runCommand`) and run on the machine `protoIO` whose primitives are the world and the
  store of the model (`Gts/Model/CacheProtoIO.lean`): `gen_step_eq` says that this IS `step`, so every protocol
  theorem is re-checked against what io.go says NOW (`gen_transparent`, `gen_failed_run_leaves_no_entry`).
-/
import Gts.Props.C14
import Gts.Bridge.IoDelegateFn
namespace Gts.C14
open Gts.Cache Gts.CacheProto Gts.Bridge.IoDelegateFn

variable {Cmd Input : Type} (W : World Cmd Input)

/-- **One run of the regenerated code**: a run that ends before `TryCache` (`early`: nothing of io.go beyond
`newIODelegate` runs) shows the body and leaves the directory alone; otherwise the cached command frame over the
regenerated io.go functions runs on the machine — primary input on stdin, `-o` a file iff `r.toFile`, the body's
output written through the delegate in one chunk, the cache directory and the temporary file to be had iff
`r.usable` — and what is observed is the directory afterwards, the bytes that reached the output and the status. -/
def genStep (σ : Store) (r : Run Cmd Input) : Store × Observed :=
  let o := W.exec r.cmd r.input
  if o.early = true then (σ, o.observed)
  else
    let res := runCommand (protoIO W r r.usable true) "-" (if r.toFile = true then "out" else "-") r.nocache
      (W.payload r.cmd) [o.out] o.committed o.status (PMach.init σ)
    (res.1.store, ⟨res.1.out, res.2⟩)

/-- a history of runs of the regenerated code over one shared directory -/
def genHistory : Store → List (Run Cmd Input) → Store × List Observed
  | σ, [] => (σ, [])
  | σ, r :: rs =>
    let s := genStep W σ r
    let h := genHistory s.1 rs
    (h.1, s.2 :: h.2)

/-- **The regenerated protocol code is the protocol model**: for every world, every directory and every run, one
run of the regenerated io.go functions in the command frame leaves the directory and shows the user exactly what
`CacheProto.step` says (no hypothesis: bypass, hit, broken hit, miss; `-o` or stdout; committed or not; `cache.Close()`
working or not). -/
theorem gen_step_eq (σ : Store) (r : Run Cmd Input) : genStep W σ r = step W σ r := by
  unfold genStep
  cases he : (W.exec r.cmd r.input).early
  · rw [if_neg (by rw [he]; simp)]
    have hout : (((if r.toFile = true then "out" else "-") : String) ≠ "-") = (r.toFile = true) := by
      cases r.toFile <;> simp
    have hus : r.usable = (r.usable && (decide (("-" : String) ≠ "-") || true)) := by simp
    exact (runCommand_eq_step W r r.usable true σ "-" _ [(W.exec r.cmd r.input).out] hout
      (by simp) he hus).1
  · rw [if_pos (by rw [he])]
    simp [step, he]

/-- non-vacuity of `gen_step_eq` (it has no hypothesis; a concrete instance): the toy world of `C14.lean`, a run
on the empty directory — a miss that leaves the finished entry `"09"` and shows `[1]`, status 0 -/
example : (genStep (toyWorld true false) emptyStore (toyRun false false)).2 = ⟨[1], 0⟩ := by
  rw [gen_step_eq]
  have hn : name C13.toyH (C13.toyH [9]) (C13.toyH [0, 0]) = "09" := by decide
  simp [step, toyWorld, toyRun, toyExec, World.rsum, World.dsum, Outcome.observed, openAt, emptyStore, hn]

/-- histories of the regenerated code are histories of the model -/
theorem gen_history_eq : ∀ (σ : Store) (runs : List (Run Cmd Input)), genHistory W σ runs = history W σ runs
  | _, [] => rfl
  | σ, r :: rs => by
    simp only [genHistory, history, gen_step_eq, gen_history_eq _ rs]

/-- **Transparency of the regenerated code**: for ALL histories of runs of the regenerated io.go functions over a
shared cache directory that starts in a state satisfying the invariant, every run shows the output bytes and the exit
status of the command body — under the hypotheses `Hyp` of `transparent`, nothing else. -/
theorem gen_transparent (hy : Hyp W) (runs : List (Run Cmd Input)) {σ : Store} (hi : Inv W σ) :
    (genHistory W σ runs).2 = runs.map fun r => (W.exec r.cmd r.input).observed := by
  rw [gen_history_eq]; exact transparent W hy runs hi

/-- non-vacuity: the toy world meets `Hyp` (the example behind `transparent`), so a three-run history of the
regenerated code (miss, miss, hit) from the empty directory is transparent -/
example : (genHistory (toyWorld true false) emptyStore [toyRun false false, toyRun true false, toyRun false false]).2
    = [⟨[1], 0⟩, ⟨[2], 0⟩, ⟨[1], 0⟩] := by
  rw [gen_history_eq]
  have hn : name C13.toyH (C13.toyH [9]) (C13.toyH [0, 0]) = "09" := by decide
  have hm : name C13.toyH (C13.toyH [9]) (C13.toyH [1, 0]) = "0a" := by decide
  simp [history, step, toyWorld, toyRun, toyExec, World.rsum, World.dsum, Outcome.observed, openAt,
    emptyStore, Store.set, hn, hm]
  decide

/-- **A failed run of the regenerated code leaves no entry**: after a run that went past `TryCache` and did not exit
0, `cache.Open` for its key fails -/
theorem gen_failed_run_leaves_no_entry (hy : Hyp W) {σ : Store} (hi : Inv W σ) (r : Run Cmd Input)
    (hfail : (W.exec r.cmd r.input).status ≠ 0) :
    ∃ e, openAt W.H W.d (genStep W σ r).1 (W.rsum r.input) (W.dsum r.cmd) = .error e := by
  rw [gen_step_eq]; exact failed_run_leaves_no_entry W hy hi r hfail

/-- non-vacuity: the failing toy run has status 1 -/
example : ((toyWorld true false).exec (toyRun false true).cmd (toyRun false true).input).status ≠ 0 := by decide

end Gts.C14
