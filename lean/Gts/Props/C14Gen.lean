/-
  C14 (second target): the protocol theorems of `Gts/Props/C14.lean` restated for the REGENERATED protocol code.

  `Gts/Props/C14.lean` proves transparency for the hand-written protocol model `CacheProto.step`.  Here one run is
  what the regenerated `newIODelegate / TryCache / Write / Commit / Close` of cmd/gts/io.go
  (`Gts/Gen/IoDelegate.lean`, go2lean/iodelegatefn.go) do, composed in the frame of the cached commands
  (`Gts.Bridge.IoDelegateFn.runCommand`) and run on the machine `protoIO` whose primitives are the world and the
  store of the model (`Gts/Model/CacheProtoIO.lean`): `gen_step_eq` says that this IS `step`, so every protocol
  theorem is re-checked against what io.go says NOW (`gen_transparent`, `gen_failed_run_leaves_no_entry`).
-/
import Gts.Props.C14
import Gts.Bridge.IoDelegateFn
import Gts.Bridge.KeyEnc
namespace Gts.C14
open Gts.Cache Gts.CacheProto Gts.Bridge.IoDelegateFn

variable {Cmd Input : Type} (W : World Cmd Input)

/-- **One run of the regenerated code**: a run that ends before `TryCache` (`early`: nothing of io.go beyond
`newIODelegate` runs) shows the body and leaves the directory alone; otherwise the cached command frame over the
regenerated io.go functions runs on the machine — primary input on stdin, `-o` a file iff `r.toFile`, the body's
output written through the delegate in one chunk, the cache directory and the temporary file to be had iff
`r.usable` — and what is observed is the directory afterwards, the bytes that reached the output and the status. -/
def genStep (σ : Store) (r : Run Cmd Input) : Store × Observed :=
  let o := W.exec r.cmd r.input
  if o.early = true then (σ, o.observed)
  else
    let res := runCommand (protoIO W r r.usable true) "-" (if r.toFile = true then "out" else "-") r.nocache
      (W.payload r.cmd) [o.out] o.committed o.status (PMach.init σ)
    (res.1.store, ⟨res.1.out, res.2⟩)

/-- a history of runs of the regenerated code over one shared directory -/
def genHistory : Store → List (Run Cmd Input) → Store × List Observed
  | σ, [] => (σ, [])
  | σ, r :: rs =>
    let s := genStep W σ r
    let h := genHistory s.1 rs
    (h.1, s.2 :: h.2)

/-- **The regenerated protocol code is the protocol model**: for every world, every directory and every run, one
run of the regenerated io.go functions in the command frame leaves the directory and shows the user exactly what
`CacheProto.step` says (no hypothesis: bypass, hit, broken hit, miss; `-o` or stdout; committed or not; `cache.Close()`
working or not). -/
theorem gen_step_eq (σ : Store) (r : Run Cmd Input) : genStep W σ r = step W σ r := by
  unfold genStep
  cases he : (W.exec r.cmd r.input).early
  · rw [if_neg (by rw [he]; simp)]
    have hout : (((if r.toFile = true then "out" else "-") : String) ≠ "-") = (r.toFile = true) := by
      cases r.toFile <;> simp
    have hus : r.usable = (r.usable && (decide (("-" : String) ≠ "-") || true)) := by simp
    exact (runCommand_eq_step W r r.usable true σ "-" _ [(W.exec r.cmd r.input).out] hout
      (by simp) he hus).1
  · rw [if_pos (by rw [he])]
    simp [step, he]

/-- non-vacuity of `gen_step_eq` (it has no hypothesis; a concrete instance): the toy world of `C14.lean`, a run
on the empty directory — a miss that leaves the finished entry `"09"` and shows `[1]`, status 0 -/
example : (genStep (toyWorld true false) emptyStore (toyRun false false)).2 = ⟨[1], 0⟩ := by
  rw [gen_step_eq]
  have hn : name C13.toyH (C13.toyH [9]) (C13.toyH [0, 0]) = "09" := by decide
  simp [step, toyWorld, toyRun, toyExec, World.rsum, World.dsum, Outcome.observed, openAt, emptyStore, hn]

/-- histories of the regenerated code are histories of the model -/
theorem gen_history_eq : ∀ (σ : Store) (runs : List (Run Cmd Input)), genHistory W σ runs = history W σ runs
  | _, [] => rfl
  | σ, r :: rs => by
    simp only [genHistory, history, gen_step_eq, gen_history_eq _ rs]

/-- **Transparency of the regenerated code**: for ALL histories of runs of the regenerated io.go functions over a
shared cache directory that starts in a state satisfying the invariant, every run shows the output bytes and the exit
status of the command body — under the hypotheses `Hyp` of `transparent`, nothing else. -/
theorem gen_transparent (hy : Hyp W) (runs : List (Run Cmd Input)) {σ : Store} (hi : Inv W σ) :
    (genHistory W σ runs).2 = runs.map fun r => (W.exec r.cmd r.input).observed := by
  rw [gen_history_eq]; exact transparent W hy runs hi

/-- non-vacuity: the toy world meets `Hyp` (the example behind `transparent`), so a three-run history of the
regenerated code (miss, miss, hit) from the empty directory is transparent -/
example : (genHistory (toyWorld true false) emptyStore [toyRun false false, toyRun true false, toyRun false false]).2
    = [⟨[1], 0⟩, ⟨[2], 0⟩, ⟨[1], 0⟩] := by
  rw [gen_history_eq]
  have hn : name C13.toyH (C13.toyH [9]) (C13.toyH [0, 0]) = "09" := by decide
  have hm : name C13.toyH (C13.toyH [9]) (C13.toyH [1, 0]) = "0a" := by decide
  simp [history, step, toyWorld, toyRun, toyExec, World.rsum, World.dsum, Outcome.observed, openAt,
    emptyStore, Store.set, hn, hm]
  decide

/-- **A failed run of the regenerated code leaves no entry**: after a run that went past `TryCache` and did not exit
0, `cache.Open` for its key fails -/
theorem gen_failed_run_leaves_no_entry (hy : Hyp W) {σ : Store} (hi : Inv W σ) (r : Run Cmd Input)
    (hfail : (W.exec r.cmd r.input).status ≠ 0) :
    ∃ e, openAt W.H W.d (genStep W σ r).1 (W.rsum r.input) (W.dsum r.cmd) = .error e := by
  rw [gen_step_eq]; exact failed_run_leaves_no_entry W hy hi r hfail

/-- **A changed input (or option) misses and recomputes, in the regenerated code**: in every history of runs of the
regenerated io.go functions from the empty directory, a run that goes past `TryCache` and whose key differs (root sum
or data sum) from the key of every earlier run is shown the output and the status of its own body, and the protocol
model classifies it as a MISS — `changed_key_misses` through `gen_step_eq` / `gen_history_eq`. -/
theorem gen_changed_key_misses (hH : ∀ x, (W.H x).length = W.d) (runs : List (Run Cmd Input)) (r : Run Cmd Input)
    (hlive : (r.nocache || !r.usable || (W.exec r.cmd r.input).early) = false)
    (hnew : ∀ r' ∈ runs, W.rsum r.input ≠ W.rsum r'.input ∨ W.dsum r.cmd ≠ W.dsum r'.cmd) :
    verdict W (genHistory W emptyStore runs).1 r = .miss ∧
    (genStep W (genHistory W emptyStore runs).1 r).2 = (W.exec r.cmd r.input).observed := by
  rw [gen_step_eq, gen_history_eq]; exact changed_key_misses W hH runs r hlive hnew

/-- non-vacuity: the failing toy run has status 1 -/
example : ((toyWorld true false).exec (toyRun false true).cmd (toyRun false true).input).status ≠ 0 := by decide

/-! ## The three regenerated pieces composed (audit C14b #1)

`gen_transparent` runs the regenerated PROTOCOL with an abstract payload (`W.payload`) and takes `hkey` as one
opaque hypothesis; `Gts.Bridge.KeyEnc.generated_injective` is about the regenerated ENCODER and was used by no
other theorem.  Here the two regenerated halves meet: the payload bytes handed to `TryCache` are what the
regenerated `encodePayload` of io.go computes, `hkey` is DERIVED (through `generated_injective`), and the
conclusion is about histories of the regenerated protocol functions. -/

section composed
open Gts.KeyEnc Gts.Bridge.KeyEnc

/-- **the key bytes as the code of the tree computes them**: the regenerated io.go `encodePayload`
(`Gts/Gen/KeyEnc.lean`), run with the model's strconv.QuoteToASCII and json.Marshal (the instantiation of
`Gts/Bridge/KeyEnc.lean`), applied to the tuples as Go `tuple`s (string keys) -/
def genPayload (p : Payload) : KeyEnc.Bytes :=
  Gts.Gen.KeyEnc.encodePayload quoteToASCII marshalTuples (p.map keyed)

/-- a world whose payload bytes ARE the output of the regenerated encoder on the tuples `pl c` of the command
(everything else — digest, codec, command body, primary input — as in `W`) -/
def withGenPayload (pl : Cmd → Payload) : World Cmd Input :=
  { W with payload := fun c => genPayload (pl c) }

/-- what remains ASSUMED about a world once the encoder and the protocol are the regenerated code: the payload
handed to `TryCache` is the regenerated `encodePayload` of the tuples `pl c` (`henc`; true by construction for
`withGenPayload`), and the three semantic parts of `hkey` that no amount of code about io.go can give —
determinism of the body, sufficiency of the tuples, no digest collision on the keys in play. -/
structure GenKeyParts (pl : Cmd → Payload) : Prop where
  /-- the payload handed to `TryCache` is the REGENERATED io.go `encodePayload` of the tuples -/
  henc : ∀ c, W.payload c = genPayload (pl c)
  /-- **determinism**: the command body is a function of the BYTES of the primary input (and of nothing else
  outside `Cmd`: not of the cache directory, the time, the environment — that is already in the type of `exec`) -/
  hdet : ∀ c i i', W.content i = W.content i' → W.exec c i = W.exec c i'
  /-- **sufficiency** (`hsuff`): the payload tuples list every option / secondary input that influences the output.
  For `annotate / insert / infix / search` the tuple value is the DIGEST of the secondary file while `Cmd` holds its
  contents: this hypothesis then includes "no digest collision among the secondary inputs in play" (audit C14b #4). -/
  hsuff : ∀ c c' i, pl c = pl c' → W.exec c i = W.exec c' i
  /-- **no digest collision** on the payload bytes in play … -/
  hcollP : ∀ c c', W.H (W.payload c) = W.H (W.payload c') → W.payload c = W.payload c'
  /-- … and on the primary inputs in play.  (`Cmd` / `Input` are the commands and inputs IN PLAY: with a fixed-size
  digest these two cannot hold when `Input` is all byte strings — audit C14a F1.) -/
  hcollC : ∀ i i', W.H (W.content i) = W.H (W.content i') → W.content i = W.content i'

/-- the parts stated through the regenerated encoder are the parts of `C14.lean` (stated through the model
encoder): `Gts.Bridge.KeyEnc.encodePayload_eq` -/
theorem keyParts_of_gen {pl : Cmd → Payload} (hp : GenKeyParts W pl) : KeyParts W pl where
  henc := fun c => by rw [hp.henc c]; exact encodePayload_eq (pl c)
  hdet := hp.hdet
  hsuff := hp.hsuff
  hcollP := hp.hcollP
  hcollC := hp.hcollC

/-- **`hkey` for a world keyed by the regenerated encoder**: two runs with equal root sums and equal data sums
behave alike — from determinism, sufficiency and collision-freeness, with the step "equal key BYTES, hence equal
tuples" supplied by `generated_injective` (the injectivity theorem about the regenerated `encodePayload`). -/
theorem gen_hkey_encoded {pl : Cmd → Payload} (hp : GenKeyParts W pl) :
    ∀ c c' i i', W.rsum i = W.rsum i' → W.dsum c = W.dsum c' → W.exec c i = W.exec c' i' := by
  intro c c' i i' hr hd
  have hc : W.content i = W.content i' := hp.hcollC i i' hr
  have hb : W.payload c = W.payload c' := hp.hcollP c c' hd
  rw [hp.henc c, hp.henc c'] at hb
  rw [hp.hdet c i i' hc]
  exact hp.hsuff c c' i' (generated_injective (pl c) (pl c') hb)

/-- **Transparency of the regenerated code, end to end**: in a world whose cache key is
`digest (regenerated encodePayload (tuples of the command))` (`henc`), for ALL histories of runs of the
regenerated io.go protocol functions (`genHistory`: `newIODelegate / TryCache / Write / Commit / Close` in the
command frame) over a shared cache directory that starts in a state satisfying the invariant, EVERY run shows the
output bytes and the exit status of the command body.  Composed of `generated_injective` (regenerated encoder),
`gen_hkey_encoded` and `gen_history_eq` (regenerated protocol = `step`) and the invariant proof `transparent`.

What REMAINS ASSUMED (hypotheses, not axioms): `hH` the digest has a fixed size; `hcodec` flate round-trips;
`hcommit` `Commit()` only on runs that exit 0 (source side: `commit_last`); and in `GenKeyParts`: `hdet`
determinism of the command body given the input bytes, `hsuff` the tuples list every option (and secondary
input) that influences the output, `hcollP / hcollC` no digest collision on the payloads / inputs in play.
That the key BYTES determine the tuples is NOT assumed. -/
theorem gen_transparent_encoded {pl : Cmd → Payload} (hH : ∀ x, (W.H x).length = W.d)
    (hcodec : ∀ w, W.inflate (W.deflate w) = some w) (hp : GenKeyParts W pl)
    (hcommit : ∀ c i, (W.exec c i).committed = true → (W.exec c i).status = 0)
    (runs : List (Run Cmd Input)) {σ : Store} (hi : Inv W σ) :
    (genHistory W σ runs).2 = runs.map fun r => (W.exec r.cmd r.input).observed :=
  gen_transparent W ⟨hH, hcodec, gen_hkey_encoded W hp, hcommit⟩ runs hi

/-- a world built with `withGenPayload` has `henc` by construction: only the semantic parts are left -/
theorem genKeyParts_withGenPayload {pl : Cmd → Payload}
    (hdet : ∀ c i i', W.content i = W.content i' → W.exec c i = W.exec c i')
    (hsuff : ∀ c c' i, pl c = pl c' → W.exec c i = W.exec c' i)
    (hcollP : ∀ c c', W.H (genPayload (pl c)) = W.H (genPayload (pl c')) → genPayload (pl c) = genPayload (pl c'))
    (hcollC : ∀ i i', W.H (W.content i) = W.H (W.content i') → W.content i = W.content i') :
    GenKeyParts (withGenPayload W pl) pl :=
  ⟨fun _ => rfl, hdet, hsuff, hcollP, hcollC⟩

end composed

/-! ## A world with two inputs and several commands (audit C14a F2 / F6)

Every world that inhabited `Hyp` / `KeyParts` so far had `Input = Unit`: "a changed input misses the cache" was
never instantiated.  `sortWorld` has THREE primary inputs (two well-formed ones that differ in one line, one that
makes the command fail) and FOUR commands (`gts sort` with / without `--reverse`, two output file types), its key
is `digest (regenerated encodePayload (tuples))` with the tuples of sort.go, the digest is a real function of all
the bytes (a two-byte Fletcher checksum — NOT collision-free in general: `hcollP / hcollC` are PROVED on this
universe, by evaluation), the codec is not the identity.  The command BODY is a stand-in written here (records =
lines, ordered by length as `byLength.Less` orders records, a byte ≥ 0x80 is a parse error), not the Go body of
sort.go: what the instance shows is that the hypotheses of `gen_transparent_encoded` are jointly satisfiable by a
world in which inputs and option values really change the output, and that misses / hits fall where the
property says. -/

section sortworld
open Gts.KeyEnc Gts.Bridge.KeyEnc

/-- a two-byte checksum (Fletcher): the sum of the bytes and the sum of the running sums, mod 256 -/
def sumH (x : Cache.Bytes) : Cache.Bytes :=
  let p := x.foldl (fun (a : UInt8 × UInt8) b => (a.1 + b, a.2 + (a.1 + b))) (0, 0)
  [p.1, p.2]

theorem sumH_size : ∀ x, (sumH x).length = 2 := fun _ => rfl

/-- the primary inputs in play -/
inductive SortInput where
  | recA | recB | bad
  deriving DecidableEq, Repr

/-- their bytes: `recB` is `recA` with the last record changed; `bad` holds a byte no record may hold -/
def SortInput.content : SortInput → Cache.Bytes
  | .recA => ascii "ab\ncdef\ng\n"
  | .recB => ascii "ab\ncdef\nhi\n"
  | .bad => [0x61, 0xFF, 0x0A]

/-- the records of an input: its lines -/
def splitLines : Cache.Bytes → Cache.Bytes → List Cache.Bytes
  | [], cur => if cur = [] then [] else [cur.reverse]
  | b :: r, cur => if b = 10 then cur.reverse :: splitLines r [] else splitLines r (b :: cur)

def insertLine (before : Cache.Bytes → Cache.Bytes → Bool) (x : Cache.Bytes) :
    List Cache.Bytes → List Cache.Bytes
  | [] => [x]
  | y :: r => if before x y then x :: y :: r else y :: insertLine before x r

/-- stable insertion sort -/
def sortLines (before : Cache.Bytes → Cache.Bytes → Bool) : List Cache.Bytes → List Cache.Bytes
  | [] => []
  | x :: r => insertLine before x (sortLines before r)

/-- the stand-in body of `gts sort` for the command `(reverse, fasta)`, a function of the input BYTES: a byte
≥ 0x80 is an error (nothing written, status 1, `Commit()` not reached); otherwise the records longest first
(`--reverse`: shortest first), each followed by a newline and, for the second file type, preceded by `>` -/
def sortBody (c : Bool × Bool) (x : Cache.Bytes) : Outcome :=
  if x.any (fun b => b ≥ 128) then { out := [], status := 1, committed := false, early := false }
  else
    let ls := sortLines (fun a b => if c.1 then a.length ≤ b.length else b.length ≤ a.length) (splitLines x [])
    { out := (ls.map fun l => (if c.2 then [62] else []) ++ l ++ [10]).flatten, status := 0, committed := true,
      early := false }

/-- the tuples of sort.go:65-70 (`command`, `version`, `reverse`, `filetype`), values filled in -/
def sortTuples (c : Bool × Bool) : Payload :=
  [(ascii "command", .str (ascii "gts-sort")), (ascii "version", .str (ascii "0.28.1")),
   (ascii "reverse", .bool c.1), (ascii "filetype", .int (if c.2 then 1 else 0))]

/-- the keys are those of the regenerated command table -/
example : ∀ a b, (sortTuples (a, b)).map (·.1) =
    ((Gts.Gen.Cli.commands.filter (·.name == "sort")).flatMap (·.payload)).map fun t => ascii t.key := by decide

/-- everything but the payload -/
def sortBase : World (Bool × Bool) SortInput where
  H := sumH
  d := 2
  deflate := fun w => 0x78 :: w
  inflate := fun b => match b with | 0x78 :: w => some w | _ => none
  inflatePrefix := fun _ => []
  exec := fun c i => sortBody c i.content
  payload := fun _ => []
  content := SortInput.content

/-- **the world**: the payload bytes are the regenerated `encodePayload` of the tuples -/
def sortWorld : World (Bool × Bool) SortInput := withGenPayload sortBase sortTuples

def sortRun (reverse fasta : Bool) (i : SortInput) : Run (Bool × Bool) SortInput :=
  ⟨(reverse, fasta), i, false, false, true, true⟩

set_option maxRecDepth 100000 in
/-- **`sortWorld` meets every part of `GenKeyParts`** — `henc` by construction, determinism because the body is a
function of the bytes, sufficiency and the two collision hypotheses by evaluation on the four commands and the
three inputs -/
theorem sortWorld_parts : GenKeyParts sortWorld sortTuples :=
  genKeyParts_withGenPayload sortBase
    (fun c _ _ h => congrArg (sortBody c) h)
    (by
      intro c c' i h
      have : c = c' := by
        rcases c with ⟨a, b⟩; rcases c' with ⟨a', b'⟩
        revert h; cases a <;> cases b <;> cases a' <;> cases b' <;> decide
      rw [this])
    (by
      intro c c' h
      have : c = c' := by
        rcases c with ⟨a, b⟩; rcases c' with ⟨a', b'⟩
        revert h; cases a <;> cases b <;> cases a' <;> cases b' <;> decide
      rw [this])
    (by intro i i' h; revert h; cases i <;> cases i' <;> decide)

/-- **`sortWorld` meets every hypothesis of `transparent` / `gen_transparent`** (`Hyp`): digest size, codec round
trip, `hkey` (derived: `gen_hkey_encoded`), `Commit()` only on success -/
theorem sortWorld_hyp : Hyp sortWorld where
  hH := sumH_size
  hcodec := fun _ => rfl
  hkey := gen_hkey_encoded sortWorld sortWorld_parts
  hcommit := by
    intro c i h
    change (sortBody c i.content).committed = true at h
    change (sortBody c i.content).status = 0
    unfold sortBody at h ⊢
    split at h
    · cases h
    · rw [if_neg (by assumption)]

/-- which way every run of a history goes -/
def verdicts : Store → List (Run Cmd Input) → List Verdict
  | _, [] => []
  | σ, r :: rs => verdict W σ r :: verdicts (step W σ r).1 rs

/-- the history of the examples: base; the CHANGED INPUT; base again; the changed OPTION (`--reverse`); the other
file type; the failing input, twice; the second input again, to a file (`-o`); and once more -/
def sortHistory : List (Run (Bool × Bool) SortInput) :=
  [sortRun false false .recA, sortRun false false .recB, sortRun false false .recA, sortRun true false .recA,
   sortRun false true .recA, sortRun false false .bad, sortRun false false .bad,
   { sortRun false false .recB with toFile := true }, sortRun false false .recB]

/-- **Transparency of the regenerated code in `sortWorld`, for ALL histories** — `gen_transparent_encoded` with
every hypothesis discharged: the instance of the end-to-end theorem that is not a toy (several inputs, several
commands, key = digest of the regenerated encoder's bytes). -/
theorem sortWorld_transparent (runs : List (Run (Bool × Bool) SortInput)) :
    (genHistory sortWorld emptyStore runs).2 = runs.map fun r => (sortWorld.exec r.cmd r.input).observed :=
  gen_transparent_encoded sortWorld sortWorld_hyp.hH sortWorld_hyp.hcodec sortWorld_parts sortWorld_hyp.hcommit
    runs (inv_empty _)

/-- non-vacuity of `keyParts_of_gen`, `gen_hkey_encoded`, `gen_transparent_encoded` (`sortWorld_transparent` is
the instance): `sortWorld` meets `GenKeyParts`, hence the `KeyParts` of `C14.lean`, and `hkey` holds in it although
inputs and commands really matter -/
example : KeyParts sortWorld sortTuples ∧
    (∀ c c' i i', sortWorld.rsum i = sortWorld.rsum i' → sortWorld.dsum c = sortWorld.dsum c' →
      sortWorld.exec c i = sortWorld.exec c' i') ∧
    sortWorld.exec (false, false) .recA ≠ sortWorld.exec (false, false) .recB ∧
    sortWorld.exec (false, false) .recA ≠ sortWorld.exec (true, false) .recA :=
  ⟨keyParts_of_gen _ sortWorld_parts, gen_hkey_encoded _ sortWorld_parts, by decide, by decide⟩

set_option maxRecDepth 100000 in
/-- **A changed input misses, a changed option misses, the same input and command hits** (the clause of the
property, instantiated): after `gts sort` on input A from the empty directory,
  * the same command on input B (one record changed) is a MISS and shows B's own output (recomputed), which is not
    A's output — a hit on A's entry would have been wrong;
  * `gts sort --reverse` on input A is a MISS and shows the reversed order, which is not the first run's output;
  * `gts sort` on input A again is a HIT and shows the first run's bytes with status 0. -/
theorem sortWorld_changed_input_misses :
    let σ₁ := (step sortWorld emptyStore (sortRun false false .recA)).1
    verdict sortWorld emptyStore (sortRun false false .recA) = .miss ∧
    verdict sortWorld σ₁ (sortRun false false .recB) = .miss ∧
    (step sortWorld σ₁ (sortRun false false .recB)).2 = (sortWorld.exec (false, false) .recB).observed ∧
    (sortWorld.exec (false, false) .recB).observed ≠ (sortWorld.exec (false, false) .recA).observed ∧
    verdict sortWorld σ₁ (sortRun true false .recA) = .miss ∧
    (step sortWorld σ₁ (sortRun true false .recA)).2 = (sortWorld.exec (true, false) .recA).observed ∧
    (sortWorld.exec (true, false) .recA).observed ≠ (sortWorld.exec (false, false) .recA).observed ∧
    verdict sortWorld σ₁ (sortRun false false .recA) = .hit ∧
    (step sortWorld σ₁ (sortRun false false .recA)).2 = ⟨ascii "cdef\nab\ng\n", 0⟩ := by
  decide

set_option maxRecDepth 100000 in
/-- **Where the runs of a nine-run history go**: base MISS, changed input MISS, base HIT, `--reverse` MISS, other
file type MISS, failing input MISS, the failing input again MISS (the failed run left no entry), changed input
with `-o` HIT (and the entry is removed), the changed input once more MISS. -/
theorem sortWorld_verdicts :
    verdicts sortWorld emptyStore sortHistory =
      [.miss, .miss, .hit, .miss, .miss, .miss, .miss, .hit, .miss] := by decide

/-- … and what the user sees in that history (of the regenerated code) is what the bodies produce: three hits
/ re-runs of the base command show `cdef ab g`, the changed input `cdef ab hi`, `--reverse` `g ab cdef`, the
failing input nothing and status 1 both times -/
example : (genHistory sortWorld emptyStore sortHistory).2 =
    [⟨ascii "cdef\nab\ng\n", 0⟩, ⟨ascii "cdef\nab\nhi\n", 0⟩, ⟨ascii "cdef\nab\ng\n", 0⟩,
     ⟨ascii "g\nab\ncdef\n", 0⟩, ⟨ascii ">cdef\n>ab\n>g\n", 0⟩, ⟨[], 1⟩, ⟨[], 1⟩,
     ⟨ascii "cdef\nab\nhi\n", 0⟩, ⟨ascii "cdef\nab\nhi\n", 0⟩] := by
  rw [sortWorld_transparent]; decide

/-- non-vacuity of `changed_content_misses` / `gen_changed_key_misses`: in `sortWorld`, after three runs on input A
(two commands), the base command on input B — whose BYTES differ from A's — misses and shows B's own output -/
example :
    verdict sortWorld (history sortWorld emptyStore
        [sortRun false false .recA, sortRun true false .recA, sortRun false false .recA]).1
      (sortRun false false .recB) = .miss ∧
    (step sortWorld (history sortWorld emptyStore
        [sortRun false false .recA, sortRun true false .recA, sortRun false false .recA]).1
      (sortRun false false .recB)).2 = (sortWorld.exec (false, false) .recB).observed :=
  changed_content_misses sortWorld sumH_size sortWorld_parts.hcollC _ (sortRun false false .recB) rfl (by decide)

set_option maxRecDepth 100000 in
example :
    (genStep sortWorld (genHistory sortWorld emptyStore [sortRun false false .recA, sortRun true false .recA]).1
      (sortRun false false .recB)).2 = ⟨ascii "cdef\nab\nhi\n", 0⟩ :=
  (gen_changed_key_misses sortWorld sumH_size _ (sortRun false false .recB) rfl (by decide)).2.trans (by decide)

/-- the collision hypotheses are NOT true of the digest in general (they are proved on the universe of
`sortWorld` only): the checksum collides on other byte strings -/
example : sumH [1, 0, 1] = sumH [0, 2, 0] ∧ ([1, 0, 1] : Cache.Bytes) ≠ [0, 2, 0] := by decide

end sortworld

end Gts.C14
