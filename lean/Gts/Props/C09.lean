/-
  C09 — Minimize and Invert partition the sequence exactly.
  Property theorems only (helper lemmas live in Gts/Lemmas/Minimize.lean, the meaning of
  "covered" in Gts/Spec/Cover.lean).  All theorems hold for every region tree — any nesting,
  order, strand, overlap, zero-length leaves — and every `n`, except where a guard is written.
-/
import Gts.Lemmas.Minimize
namespace Gts.C09
open Gts Reg

/-- What "covered" means: `cover r x` (between the two ends of some leaf segment) holds exactly
when `Region.Locate` reads position `x`, on either strand (`Reg.den`, the denotation used by the
sequence-edit properties). -/
theorem cover_iff_located (r : Reg) (x : Int) : cover r x ↔ ∃ b, (x, b) ∈ den r := cover_iff_den r x

/-! ### the sort inside `Minimize` -/

/-- The model's `sort.Sort(BySegment(ss))` (insertion sort) returns a permutation of its input
in which no later element is `Less` than an earlier one — exactly what `sort.Sort` promises. -/
theorem sortSegs_sorted_perm (l : List Seg) : (sortSegs l).Perm l ∧ (sortSegs l).Pairwise segLe :=
  ⟨sortSegs_perm l, sortSegs_sorted l⟩

/-- REMARK: Go's actual sorting algorithm does not matter.  `flattenRegion` only emits forward
segments, on which ties of `BySegment.Less` are equal values; so *any* sorted permutation of the
flattened list is the list the model sorts to. -/
theorem sort_algorithm_irrelevant (r : Reg) (l' : List Seg) (hp : l'.Perm (flatten r))
    (hs : l'.Pairwise segLe) : l' = sortSegs (flatten r) :=
  sortSegs_unique (flatten_fwd r) hp hs

/-! ### Minimize -/

/-- Every minimised segment is forward (`lo ≤ hi`).  Zero-length segments `Segment{p,p}` are
legal input and survive: an output has `lo = hi` only if that very point segment is a leaf of the
input (it then covers nothing and, by `minimize_strictly_increasing_nonabutting`, touches no other
output).  When no leaf is zero-length every output is non-empty (`lo < hi`). -/
theorem minimize_forward (r : Reg) :
    (∀ o ∈ minimize r, o.1 ≤ o.2) ∧
    (∀ o ∈ minimize r, o.1 = o.2 → o ∈ leaves r) ∧
    (nonEmpty r → ∀ o ∈ minimize r, o.1 < o.2) := by
  have hpoint : ∀ o ∈ minimize r, o.1 = o.2 → o ∈ leaves r := by
    intro o ho hz
    rw [minimize_eq] at ho
    have := mergeList_point _ (sorted_flatten_fwd r) (sorted_flatten_lo r) o ho hz
    obtain ⟨u, hu, rfl⟩ := mem_flatten.mp ((sortSegs_perm _).subset this)
    rw [orient_fst, orient_snd] at hz
    rwa [orient_of_fwd (by omega)]
  refine ⟨minimize_fwd r, hpoint, ?_⟩
  intro hne o ho
  have h1 := minimize_fwd r o ho
  by_cases hz : o.1 = o.2
  · exact absurd hz (hne o (hpoint o ho hz))
  · omega

/-- No coordinate is invented: every output end is an end of some input segment. -/
theorem minimize_ends (r : Reg) :
    ∀ o ∈ minimize r, (∃ s ∈ flatten r, s.1 = o.1) ∧ (∃ s ∈ flatten r, s.2 = o.2) :=
  fun o ho => ⟨minimize_mem_flatten_lo r o ho, minimize_mem_flatten_hi r o ho⟩

/-- Outputs are strictly increasing, pairwise disjoint and never abut: `a.hi < b.lo` for every
earlier `a` and later `b` (all pairs, in particular consecutive ones). -/
theorem minimize_strictly_increasing_nonabutting (r : Reg) :
    (minimize r).Pairwise (fun a b => a.2 < b.1) := minimize_pairwise r

/-- The union of the outputs is exactly the set of positions covered by the input. -/
theorem minimize_cover (r : Reg) : ∀ x, segsCover (minimize r) x ↔ cover r x :=
  minimize_segsCover r

/-- … and each covered position lies in exactly one output segment, each other in none. -/
theorem minimize_count (r : Reg) (x : Int) : coverCount (minimize r) x = if cover r x then 1 else 0 := by
  have hle := coverCount_le_one _ (minimize_fwd r) (minimize_pairwise r) x
  split
  · rename_i h
    have := (coverCount_pos_iff _ _).mpr ((minimize_cover r x).mpr h); omega
  · rename_i h
    exact (coverCount_eq_zero_iff _ _).mpr (fun hc => h ((minimize_cover r x).mp hc))

/-! ### independence of order, strand, nesting, overlap -/

/-- Regions with the same cover have minimisations with the same cover. -/
theorem minimize_cover_congr (r r' : Reg) (h : ∀ x, cover r x ↔ cover r' x) :
    ∀ x, segsCover (minimize r) x ↔ segsCover (minimize r') x := by
  intro x; rw [minimize_cover, minimize_cover, h]

/-- Order independence: regions whose flattened segments are permutations of each other have the
*same* minimisation. -/
theorem minimize_perm (r r' : Reg) (h : (flatten r).Perm (flatten r')) : minimize r = minimize r' := by
  rw [minimize_eq, minimize_eq, sortSegs_congr (flatten_fwd r) h]

/-- Strand independence: the reverse-complemented region has the same minimisation. -/
theorem minimize_complement (r : Reg) : minimize (complement r) = minimize r :=
  minimize_perm _ _ (by rw [flatten_complement]; exact List.reverse_perm _)

/-- Nesting independence: the region tree and the flat list of its leaves minimise alike. -/
theorem minimize_flat (r : Reg) : minimize (many (asRegs (leaves r))) = minimize r :=
  minimize_perm _ _ (by rw [flatten_many, flattenList_asRegs, ← flatten_eq_map])

/-- Canonical form: without zero-length leaves the minimisation is a function of the covered set
alone — however the input is ordered, oriented, nested or overlapped. -/
theorem minimize_eq_of_cover_eq (r r' : Reg) (hn : nonEmpty r) (hn' : nonEmpty r')
    (h : ∀ x, cover r x ↔ cover r' x) : minimize r = minimize r' :=
  canonical_unique _ _ ((minimize_forward r).2.2 hn) ((minimize_forward r').2.2 hn')
    (minimize_pairwise r) (minimize_pairwise r') (minimize_cover_congr r r' h)

/-! ### InvertLinear -/

/-- Linear inversion inside `[0, n]` (`0 ≤ n`, every leaf end in `[0, n]`): the inverted pieces
are non-empty forward segments inside `[0, n]`, pairwise disjoint and increasing, and together with
the minimised segments they contain every position of `[0, n)` exactly once and nothing else. -/
theorem invertLinear_partition (r : Reg) (n : Int) (hn : 0 ≤ n) (hw : within n r) :
    (∀ g ∈ leaves (many (invertLinear r n)), 0 ≤ g.1 ∧ g.1 < g.2 ∧ g.2 ≤ n) ∧
    (leaves (many (invertLinear r n))).Pairwise (fun a b => a.2 ≤ b.1) ∧
    (∀ x, 0 ≤ x → x < n → coverCount (minimize r ++ leaves (many (invertLinear r n))) x = 1) ∧
    (∀ x, ¬ (0 ≤ x ∧ x < n) → coverCount (minimize r ++ leaves (many (invertLinear r n))) x = 0) := by
  have hc : GapChain n 0 (minimize r) :=
    gapChain_of n _ 0 (minimize_fwd r) (minimize_pairwise r) (minimize_within r n hw) hn
  rw [leaves_invertLinear]
  refine ⟨invertFrom_bounds n _ 0 hc, invertFrom_pairwise n _ 0 hc, ?_, ?_⟩
  · intro x h0 h1
    rw [coverCount_append]; exact invertFrom_count n _ 0 hc x h0 h1
  · intro x hx
    rw [coverCount_append]
    by_cases h0 : x < 0
    · have := invertFrom_count_below n _ 0 hc x h0; omega
    · have := invertFrom_count_above n _ 0 hc x (by omega); omega

/-- In terms of covers: inside `[0, n)` the inversion covers exactly what the region does not. -/
theorem invertLinear_cover (r : Reg) (n : Int) (hn : 0 ≤ n) (hw : within n r) (x : Int)
    (h0 : 0 ≤ x) (h1 : x < n) : cover (many (invertLinear r n)) x ↔ ¬ cover r x := by
  obtain ⟨hb, _, hcount, _⟩ := invertLinear_partition r n hn hw
  have hc := hcount x h0 h1
  rw [coverCount_append, minimize_count] at hc
  rw [cover_of_fwd_leaves _ (fun g hg => by have := hb g hg; omega), ← coverCount_pos_iff]
  split at hc <;> rename_i h
  · constructor
    · intro; omega
    · intro h'; exact absurd h h'
  · constructor
    · intro _; exact h
    · intro _; omega

/-- Without zero-length leaves the inverted pieces do not abut either. -/
theorem invertLinear_nonabutting (r : Reg) (n : Int) (hn : 0 ≤ n) (hw : within n r) (hne : nonEmpty r) :
    (leaves (many (invertLinear r n))).Pairwise (fun a b => a.2 < b.1) := by
  rw [leaves_invertLinear]
  exact invertFrom_pairwise_strict n _ 0
    (gapChain_of n _ 0 (minimize_fwd r) (minimize_pairwise r) (minimize_within r n hw) hn)
    ((minimize_forward r).2.2 hne)

/-- The guards are needed: a segment reaching beyond `n`, a negative coordinate, or `n < 0` makes
`invertSegments` emit a backward "segment". -/
theorem invertLinear_unguarded_refuted :
    ¬ (∀ (r : Reg) (n : Int), ∀ g ∈ leaves (many (invertLinear r n)), g.1 < g.2) := by
  intro h
  have := h (seg 2 8) 5
  rw [leaves_invertLinear, minimize_eq] at this
  revert this; decide

/-! ### InvertCircular -/

/-- Circular inversion of a non-empty collection is defined and consists of the *same* pieces as the
linear inversion (same leaves up to order, hence the same cover, each position as often).  If the
minimised region touches the origin (`first.lo = 0` or `last.hi = n`) it is the linear inversion;
otherwise the first piece `[0, first.lo)` and the last piece `[last.hi, n)` are merged into one
region `Regions{[last.hi, n), [0, first.lo)}` that is read across the origin, and put first. -/
theorem invertCircular_cover (r : Reg) (n : Int) (hne : leaves r ≠ []) :
    ∃ f l rs, (minimize r).head? = some f ∧ (minimize r).getLast? = some l ∧
      invertCircular r n = some rs ∧
      (leaves (many rs)).Perm (leaves (many (invertLinear r n))) ∧
      (∀ x, cover (many rs) x ↔ cover (many (invertLinear r n)) x) ∧
      ((f.1 = 0 ∨ l.2 = n) → rs = invertLinear r n) ∧
      (¬ (f.1 = 0 ∨ l.2 = n) → ∃ mid, invertLinear r n = seg 0 f.1 :: (mid ++ [seg l.2 n]) ∧
        rs = many [seg l.2 n, seg 0 f.1] :: mid) := by
  have hm := minimize_ne_nil r hne
  cases hmin : minimize r with
  | nil => exact absurd hmin hm
  | cons f t =>
    have hl : (f :: t).getLast? = some ((f :: t).getLast (by simp)) := List.getLast?_eq_some_getLast _
    generalize (f :: t).getLast (by simp) = l at hl
    by_cases hc : f.1 = 0 ∨ l.2 = n
    · refine ⟨f, l, invertLinear r n, rfl, hl, ?_, List.Perm.refl _, fun _ => Iff.rfl, fun _ => rfl,
        fun h => absurd hc h⟩
      unfold invertCircular
      simp only [hmin, List.head?_cons, hl, if_pos hc]
    · have h0 : (0 : Int) ≠ f.1 := by omega
      have hlast : lastHi f.2 t ≠ n := by rw [← getLast?_lastHi f t l hl]; omega
      obtain ⟨init, hinit⟩ := invertFrom_last n t f.2 hlast
      have hrr : invertLinear r n = seg 0 f.1 :: (asRegs init ++ [seg l.2 n]) := by
        rw [invertLinear_eq, hmin, invertFrom_cons, if_pos h0, hinit, getLast?_lastHi f t l hl]
        simp [asRegs]
      have hcirc : invertCircular r n = some (many [seg l.2 n, seg 0 f.1] :: asRegs init) := by
        unfold invertCircular
        simp only [hmin, List.head?_cons, hl, if_neg hc, hrr]
        have hg : (seg 0 f.1 :: (asRegs init ++ [seg l.2 n])).getLast? = some (seg l.2 n) := by
          rw [← List.cons_append, List.getLast?_concat]
        rw [hg]
        show some ((many [seg l.2 n, seg 0 f.1] :: (asRegs init ++ [seg l.2 n])).dropLast) = _
        rw [← List.cons_append, List.dropLast_concat]
      have hperm : (leaves (many (many [seg l.2 n, seg 0 f.1] :: asRegs init))).Perm
          (leaves (many (invertLinear r n))) := by
        rw [hrr]
        simp only [leaves_many, leavesList_cons, leavesList_append, leaves_seg, leavesList_asRegs,
          leavesList_nil, List.append_nil]
        have : ([(l.2, n)] ++ [((0 : Int), f.1)]) ++ init = [(l.2, n)] ++ ([((0 : Int), f.1)] ++ init) := by simp
        rw [this]
        exact List.perm_append_comm
      exact ⟨f, l, _, rfl, hl, hcirc, hperm, fun x => cover_perm hperm x, fun h => absurd h hc,
        fun _ => ⟨asRegs init, hrr, rfl⟩⟩

/-- `InvertCircular` panics (`ss[0]` on an empty slice) exactly when the region has no segment at
all; the property quantifies over non-empty collections. -/
theorem invertCircular_none_iff (r : Reg) (n : Int) : invertCircular r n = none ↔ leaves r = [] := by
  constructor
  · intro h
    apply Classical.byContradiction
    intro hne
    obtain ⟨_, _, rs, _, _, hrs, _⟩ := invertCircular_cover r n hne
    rw [h] at hrs; cases hrs
  · intro h
    unfold invertCircular
    simp [minimize_nil_of r h]

/-- Hence, inside `[0, n]`, the circular inversion partitions `[0, n)` together with the minimised
segments exactly as the linear one does: every position exactly once, nothing outside. -/
theorem invertCircular_partition (r : Reg) (n : Int) (hn : 0 ≤ n) (hw : within n r) (hne : leaves r ≠ []) :
    ∃ rs, invertCircular r n = some rs ∧
      (∀ g ∈ leaves (many rs), 0 ≤ g.1 ∧ g.1 < g.2 ∧ g.2 ≤ n) ∧
      (∀ x, 0 ≤ x → x < n → coverCount (minimize r ++ leaves (many rs)) x = 1) ∧
      (∀ x, ¬ (0 ≤ x ∧ x < n) → coverCount (minimize r ++ leaves (many rs)) x = 0) := by
  obtain ⟨_, _, rs, _, _, hrs, hperm, _, _, _⟩ := invertCircular_cover r n hne
  obtain ⟨hb, _, h1, h2⟩ := invertLinear_partition r n hn hw
  refine ⟨rs, hrs, fun g hg => hb g (hperm.subset hg), ?_, ?_⟩
  · intro x hx0 hx1
    rw [coverCount_append, coverCount_perm hperm, ← coverCount_append]; exact h1 x hx0 hx1
  · intro x hx
    rw [coverCount_append, coverCount_perm hperm, ← coverCount_append]; exact h2 x hx

/-- the unguarded statement "InvertCircular is always defined" fails on the empty collection -/
theorem invertCircular_empty_refuted : ¬ (∀ (r : Reg) (n : Int), invertCircular r n ≠ none) := by
  intro h
  exact h (many []) 5 ((invertCircular_none_iff _ _).mpr (by decide))

/-! ### non-vacuity -/

/-- a nested, unordered, two-stranded, overlapping collection with zero-length leaves -/
def ex1 : Reg := many [seg 7 4, many [seg 1 3, seg 3 3, seg 2 5], seg 9 9]

example : within 10 ex1 ∧ leaves ex1 ≠ [] ∧ ¬ nonEmpty ex1 := by decide
example : minimize ex1 = [(1, 7), (9, 9)] := by rw [minimize_eq]; decide
example : invertLinear ex1 10 = [seg 0 1, seg 7 9, seg 9 10] := by
  rw [invertLinear_eq, minimize_eq]; rfl
example : invertCircular ex1 10 = some [many [seg 9 10, seg 0 1], seg 7 9] := by
  unfold invertCircular; rw [invertLinear_eq, minimize_eq]; rfl
/-- non-empty, origin-free example for the canonical-form theorem: two presentations, same cover -/
example : minimize (many [seg 5 2, seg 4 8]) = minimize (many [many [seg 2 8], seg 6 3]) := by
  rw [minimize_eq, minimize_eq]; decide

end Gts.C09
