/-
  C01 / C19: API laws of the qualifier table `Props` (props.go), stated for the functions REGENERATED from the
  current source (Gts/Gen/Props.lean; `none` = Go panic; the pointer-receiver methods return the new `*props`)
  and for any string type — the model's `String` table (Gts/Model/Feature.lean) and the seqio byte-string tables
  alike.  `rowsOk`: every row has its name (what `Set` / `Add` — the only writers — establish and keep).
  Rows of one name CAN repeat (a table read from a file, F31): the laws say which row each method touches.
-/
import Gts.Lemmas.PropsLaws
import Gts.Bridge.Props
namespace Gts.C01
open Gts.Gen Gts.Gen.PropsGo Gts.PropsG

variable {σ : Type} [DecidableEq σ]

/-- Every operation keeps every row named: on a table with `rowsOk`, `Set`, `Add` and `Del` do not panic and
their result has `rowsOk` again. -/
theorem props_ops_preserve_rowsOk (z : σ) (ps : List (List σ)) (k : σ) (vs : List σ) (ok : rowsOk ps = true) :
    (∃ r, propsSet z ps k vs = some r ∧ rowsOk r = true) ∧ (∃ r, propsAdd z ps k vs = some r ∧ rowsOk r = true) ∧
      (∃ r, propsDel ps k = some r ∧ rowsOk r = true) := by
  obtain ⟨h1, h2, h3, _⟩ := gen_total z ps k vs ok
  exact ⟨⟨_, h1, rowsOk_gset ps k vs ok⟩, ⟨_, h2, rowsOk_gadd ps k vs ok⟩, ⟨_, h3, rowsOk_gdel ps k ok⟩⟩

example : rowsOk [["gene", "a"], ["note", "x", "y"]] = true := by decide

/-- `Get` after `Set`: exactly the values that were set (whatever rows of that name there were). -/
theorem props_get_set (z : σ) (ps : List (List σ)) (k : σ) (vs : List σ) (ok : rowsOk ps = true) :
    (propsSet z ps k vs).bind (fun r => propsGet r k) = some vs := by
  rw [(gen_total z ps k vs ok).1, Option.bind_some,
    (gen_total z (gset ps k vs) k vs (rowsOk_gset ps k vs ok)).2.2.2.1, gget_gset]
  rfl

example : (propsSet "" [["gene", "a"], ["note", "x"], ["note", "y"]] "note" ["p", "q"]).bind (fun r => propsGet r "note")
    = some ["p", "q"] := by decide

/-- `Get` after `Add`: the old values of the first row of that name (none when absent) followed by the added ones. -/
theorem props_get_add (z : σ) (ps : List (List σ)) (k : σ) (vs old : List σ) (ok : rowsOk ps = true)
    (hold : propsGet ps k = some old) :
    (propsAdd z ps k vs).bind (fun r => propsGet r k) = some (old ++ vs) := by
  rw [(gen_total z ps k vs ok).2.2.2.1] at hold
  rw [(gen_total z ps k vs ok).2.1, Option.bind_some,
    (gen_total z (gadd ps k vs) k vs (rowsOk_gadd ps k vs ok)).2.2.2.1, gget_gadd ps k vs ok]
  simp only [Option.some.injEq] at hold
  simp [hold]

example : propsGet [["gene", "a"], ["note", "x"]] "note" = some ["x"] ∧
    (propsAdd "" [["gene", "a"], ["note", "x"]] "note" ["y", "z"]).bind (fun r => propsGet r "note") = some ["x", "y", "z"] := by
  decide

/-- `Del` removes the FIRST row of that name only: behind `Del`, `Get` and `Has` answer what they answer on the
rows BEHIND that first row — the values of the second row of that name if there is one (F31: names can repeat),
absent otherwise. -/
theorem props_get_del (a b : List (List σ)) (k : σ) (t : List σ) (hn : ∀ row ∈ a, row.head? ≠ some k)
    (ok : rowsOk (a ++ (k :: t) :: b) = true) :
    (propsDel (a ++ (k :: t) :: b) k).bind (fun r => propsGet r k) = propsGet b k ∧
      (propsDel (a ++ (k :: t) :: b) k).bind (fun r => propsHas r k) = propsHas b k := by
  have oka : rowsOk a = true := by simp [rowsOk_append] at ok; exact ok.1
  have okb : rowsOk b = true := by simp [rowsOk_append, rowsOk] at ok ⊢; exact ok.2
  have okab : rowsOk (a ++ b) = true := by simp [rowsOk_append, oka, okb]
  have hd := (gen_total (k) (a ++ (k :: t) :: b) k [] ok).2.2.1
  rw [gdel_at a k t b hn] at hd
  have hg : gget (a ++ b) k = gget b k := by
    clear hd ok oka okab
    induction a with
    | nil => rfl
    | cons r a ih =>
      have h1 : r.head? ≠ some k := hn r (by simp)
      simp [gget, h1, ih (fun r' hr' => hn r' (List.mem_cons_of_mem _ hr'))]
  rw [hd, Option.bind_some, Option.bind_some, (gen_total k (a ++ b) k [] okab).2.2.2.1,
    (gen_total k (a ++ b) k [] okab).2.2.2.2.2, (gen_total k b k [] okb).2.2.2.1, (gen_total k b k [] okb).2.2.2.2.2, hg]
  exact ⟨rfl, rfl⟩

example : (propsDel [["gene", "a"], ["note", "first"], ["x", "1"], ["note", "second"]] "note").bind (fun r => propsGet r "note")
    = some ["second"] ∧ propsHas [["x", "1"], ["note", "second"]] "note" = some true := by decide

/-- `Items` after `Add`: the new pairs stand behind the pairs of the first row of that name (and in front of every
later row's), or at the very end when no row has the name. -/
theorem props_items_add (z : σ) (a b : List (List σ)) (k : σ) (t vs : List σ) (hn : ∀ row ∈ a, row.head? ≠ some k)
    (ok : rowsOk (a ++ (k :: t) :: b) = true) :
    ∃ ia ib, propsItems z a = some ia ∧ propsItems z b = some ib ∧
      (propsAdd z (a ++ (k :: t) :: b) k vs).bind (propsItems z) =
        some (ia ++ (t ++ vs).map (fun v => (k, v)) ++ ib) := by
  have oka : rowsOk a = true := by simp [rowsOk_append] at ok; exact ok.1
  have okb : rowsOk b = true := by simp [rowsOk_append, rowsOk] at ok ⊢; exact ok.2
  refine ⟨gitems a, gitems b, (gen_total z a k vs oka).2.2.2.2.1, (gen_total z b k vs okb).2.2.2.2.1, ?_⟩
  have hadd := (gen_total z (a ++ (k :: t) :: b) k vs ok).2.1
  have ok2 := rowsOk_gadd _ k vs ok
  rw [hadd, Option.bind_some, (gen_total z _ k vs ok2).2.2.2.2.1, gadd_at a k t b vs hn, gitems_append]
  simp [gitems]

/-- … when no row has the name: a new last row. -/
theorem props_items_add_absent (z : σ) (ps : List (List σ)) (k : σ) (vs : List σ) (hn : ∀ row ∈ ps, row.head? ≠ some k)
    (ok : rowsOk ps = true) :
    ∃ ip, propsItems z ps = some ip ∧
      (propsAdd z ps k vs).bind (propsItems z) = some (ip ++ vs.map (fun v => (k, v))) := by
  refine ⟨gitems ps, (gen_total z ps k vs ok).2.2.2.2.1, ?_⟩
  have ok2 := rowsOk_gadd _ k vs ok
  rw [(gen_total z ps k vs ok).2.1, Option.bind_some, (gen_total z _ k vs ok2).2.2.2.2.1, gadd_noRow ps k vs hn,
    gitems_append]
  simp [gitems]

example : (propsAdd "" [["gene", "a"], ["note", "x"], ["db", "1"]] "note" ["y"]).bind (propsItems "")
    = some [("gene", "a"), ("note", "x"), ("note", "y"), ("db", "1")] := by decide

/-- Operations on the key `k` do not change what `Get` answers for another key. -/
theorem props_get_other (z : σ) (ps : List (List σ)) (k k' : σ) (vs : List σ) (ok : rowsOk ps = true) (hne : k' ≠ k) :
    (propsSet z ps k vs).bind (fun r => propsGet r k') = propsGet ps k' ∧
      (propsAdd z ps k vs).bind (fun r => propsGet r k') = propsGet ps k' ∧
      (propsDel ps k).bind (fun r => propsGet r k') = propsGet ps k' := by
  obtain ⟨h1, h2, h3, _⟩ := gen_total z ps k vs ok
  rw [h1, h2, h3]
  simp only [Option.bind_some]
  rw [(gen_total z _ k' vs (rowsOk_gset ps k vs ok)).2.2.2.1, (gen_total z _ k' vs (rowsOk_gadd ps k vs ok)).2.2.2.1,
    (gen_total z _ k' vs (rowsOk_gdel ps k ok)).2.2.2.1, (gen_total z ps k' vs ok).2.2.2.1,
    gget_gset_other ps k k' vs hne, gget_gadd_other ps k k' vs hne, gget_gdel_other ps k k' hne]
  exact ⟨rfl, rfl, rfl⟩

example : (propsDel [["gene", "a"], ["note", "x"]] "note").bind (fun r => propsGet r "gene") = some ["a"] ∧
    "gene" ≠ "note" := by decide

end Gts.C01
