/-
  C05 — Reverse and Complement mirror coordinates; reverse-complement preserves meaning.
  Property theorems only.
-/
import Gts.Lemmas.Reverse
import Gts.Lemmas.Table
import Gts.Model.SeqNuc
import Gts.Props.C18
import Gts.Lemmas.Locate
import Gts.Lemmas.MarksOps
import Gts.Lemmas.MarkGuardOps
import Gts.Lemmas.Record
import Gts.Bridge.SeqReverse
import Gts.Bridge.SeqComplement
import Gts.Lemmas.ReverseInvol
import Gts.Lemmas.MarksDelAll
import Gts.Lemmas.ReverseStable
import Gts.Bridge.CmdReverse
namespace Gts.C05
open Gts Loc

/-- residues are flipped -/
theorem reverse_bytes (s : Seq) : s.reverse.bytes = s.bytes.reverse := rfl

/-- no feature is lost or duplicated by `gts.Reverse`; each is re-located by `Reverse(len)` -/
theorem reverse_table_perm (s : Seq) :
    s.reverse.feats.Perm (s.feats.map fun f => { f with loc := f.loc.reverse s.len }) := by
  unfold Seq.reverse
  simpa using Table.insertAll_perm [] (s.feats.map fun f => { f with loc := f.loc.reverse s.len })

/-- FULL STATEMENT, between-sites (false today, known finding K1, pinned by TestLocationReverse):
the site between residues g-1 and g must map to the site between L-g-1 and L-g, i.e.
`reverse (between g) L = between (L - g)`; the code yields `between (L - 1 - g)`. -/
theorem between_reverse_full_refuted : ¬ (∀ g L : Int, reverse (between g) L = between (L - g)) := by
  intro h
  have := h 0 10
  simp [reverse] at this

/-- what the code does on a between-site (bug-for-bug) -/
theorem between_reverse_model (g L : Int) : reverse (between g) L = between (L - 1 - g) := rfl

/-- FULL STATEMENT for residues (false today through known finding K2 in `Join`) -/
theorem reverse_den_full_refuted :
    ¬ (∀ (l : Loc) (L : Int), wf l = true → den (reverse l L) ≼ mirrorDen L (den l)) := by
  intro h
  have := (h (joined [point 0, ranged 1 2 false false]) 5 (by decide)).2 (4, false) (by decide)
  revert this
  decide

/-- **Reverse, every kind and arity**: for every well-formed location (joins and orders of any
number of parts, odd or even, nested under complement), the reversed location denotes the
mirrored residues `L-1-x` in mirrored order on the same strand — no part is lost — provided
rule K2 does not fire.  (A between-site denotes no residue; its own law is K1 above.) -/
theorem reverse_den_partial (l : Loc) (L : Int) (hw : wf l = true) (hk2 : reverseAbs l L = false) :
    den (reverse l L) ≼ mirrorDen L (den l) := (reverse_mirror l L hw).1 hk2

/-- set form: residue `x` is denoted before iff `L-1-x` is denoted after (same strand) -/
theorem reverse_mem_partial (l : Loc) (L : Int) (hw : wf l = true) (hk2 : reverseAbs l L = false)
    (x : Int) (r : Bool) :
    (x, r) ∈ den l ↔ (L - 1 - x, r) ∈ den (reverse l L) := by
  have h := reverse_den_partial l L hw hk2
  constructor
  · intro hx
    apply h.2
    simp only [mirrorDen, mapPos, List.mem_reverse, List.mem_map]
    exact ⟨(x, r), hx, rfl⟩
  · intro hx
    have := h.1.subset hx
    simp only [mirrorDen, mapPos, List.mem_reverse, List.mem_map] at this
    obtain ⟨p, hp, he⟩ := this
    have h1 : p.1 = x := by
      have := (Prod.mk.inj he).1
      simp only [mirrorMap] at this; omega
    have h2 : p.2 = r := (Prod.mk.inj he).2
    rw [← h1, ← h2]; exact hp

/-- 5'/3' partial markers swap ends on a range -/
theorem ranged_reverse_flags (s e : Int) (p5 p3 : Bool) (L : Int) :
    reverse (ranged s e p5 p3) L = ranged (L - e) (L - s) p3 p5 := rfl

/-- Reverse is an involution on every contiguous kind (also on between-sites, K1 notwithstanding) -/
theorem reverse_involutive_contig (L : Int) :
    (∀ p, reverse (reverse (point p) L) L = point p) ∧
    (∀ p, reverse (reverse (between p) L) L = between p) ∧
    (∀ s e a b, reverse (reverse (ranged s e a b) L) L = ranged s e a b) ∧
    (∀ s e, reverse (reverse (ambiguous s e) L) L = ambiguous s e) := by
  refine ⟨?_, ?_, ?_, ?_⟩ <;> intros <;> simp [reverse, rangedReverse] <;> omega

/-- `Complement` is an involution on every location that is not a double complement literal -/
theorem complement_involutive (l : Loc) (h : ∀ x, l ≠ compl (compl x)) :
    complement (complement l) = l := by
  cases l with
  | compl x =>
    cases x with
    | compl y => exact absurd rfl (h y)
    | _ => simp [complement]
  | _ => simp [complement]

/-- **Reverse-complement preserves meaning** (coordinate part): the location
`complement(reverse l)` reads position `L-1-x` on the opposite strand wherever `l` read `x`, in
the same order — which is residue `x` of the original read through the reverse-complemented
record. -/
theorem revcomp_den_partial (l : Loc) (L : Int) (hw : wf l = true) (hk2 : reverseAbs l L = false) :
    den (compl (reverse l L)) ≼ (den l).map (fun p => (L - 1 - p.1, !p.2)) := by
  have h := (reverse_den_partial l L hw hk2).flip
  have e : flipDen (mirrorDen L (den l)) = (den l).map (fun p => (L - 1 - p.1, !p.2)) := by
    simp [flipDen, mirrorDen, mapPos, mirrorMap, List.map_reverse, Function.comp_def]
  rw [e] at h
  simpa using h

/-- non-vacuity: an odd-arity complement-strand join satisfies the hypotheses -/
example : wf (compl (joined [ranged 0 2 true false, ranged 4 6 false false, ranged 8 10 false true])) = true ∧
    reverseAbs (compl (joined [ranged 0 2 true false, ranged 4 6 false false, ranged 8 10 false true])) 12 = false := by
  decide

/-! ### partial markers swap ends — every kind and arity

`outerMarks` (`Gts/Spec/Marks.lean`) is the Lean restatement of the Go oracle
`harness/spec.go outerMarks`: `(m5, m3)` = is the end before the first residue read / behind the
last residue read marked partial (under a complement the reading direction flips). -/

/-- FULL STATEMENT (false on the model, and on the code): "for every well-formed location the
outer 5'/3' markers of `Reverse(l)` are those of `l`, swapped".  Witness `join(1..>4,4)` on a
sequence of length 10: the parts reverse to `7` and `<7..10`; `Join` pushes the point first and
then replaces it by the range that starts at it (`LocationList.Push`, case `Point`/`Ranged`), so
the result `<7..10` carries a 5' marker in front of what was the unmarked point. -/
theorem reverse_marks_full_refuted :
    ¬ (∀ (l : Loc) (L : Int), wf l = true →
        outerMarks (reverse l L) = ((outerMarks l).2, (outerMarks l).1)) := by
  intro h
  have := h (joined [ranged 0 4 false true, point 3]) 10 (by decide)
  revert this
  decide

/-- **5'/3' partial markers swap ends** under `Reverse`, for every well-formed location of any
kind, arity, nesting and strand and every length `L` (the off-by-one of K1 on between-sites is
irrelevant: a between-site carries no marker), provided no marker-moving rule of `Push` fires in
a `Join` of the evaluation (`reverseMarkAbs`, `Gts/Spec/MarkGuard.lean`: a point absorbed into a
5'-partial range starting at it, or K2 on a 3'-partial range). -/
theorem reverse_marks_partial (l : Loc) (L : Int) (hw : wf l = true)
    (hg : reverseMarkAbs l L = false) :
    outerMarks (reverse l L) = ((outerMarks l).2, (outerMarks l).1) :=
  outerMarks_of_marks_swap (reverse_marks_aux l L hw hg)

/-- … in particular under the hypotheses of `reverse_den_partial` plus duplicate-freeness — the
conditions under which the Go oracle evaluates the marker clause (`nodup(d)`, guard line
`k2.reverse`): when K2 does not fire and no residue is denoted twice, no marker-moving rule can
fire (`Gts/Lemmas/MarkGuardNodup.lean`). -/
theorem reverse_marks_nodup_partial (l : Loc) (L : Int) (hw : wf l = true)
    (hk2 : reverseAbs l L = false) (hnd : (den l).Nodup) :
    outerMarks (reverse l L) = ((outerMarks l).2, (outerMarks l).1) :=
  reverse_marks_partial l L hw (reverseMarkAbs_of_nodup l L hw hk2 hnd)

/-- non-vacuity: an odd-arity complement-strand join with both outer markers set, and a
forward join with a between-site and a point inside -/
example :
    wf (compl (joined [ranged 0 2 true false, ranged 4 6 false false, ranged 8 10 false true])) = true ∧
    reverseMarkAbs (compl (joined [ranged 0 2 true false, ranged 4 6 false false, ranged 8 10 false true])) 12 = false ∧
    outerMarks (compl (joined [ranged 0 2 true false, ranged 4 6 false false, ranged 8 10 false true])) = (true, true) ∧
    reverseAbs (compl (joined [ranged 0 2 true false, ranged 4 6 false false, ranged 8 10 false true])) 12 = false ∧
    (den (compl (joined [ranged 0 2 true false, ranged 4 6 false false, ranged 8 10 false true]))).Nodup ∧
    wf (joined [ranged 1 3 true false, between 4, point 6]) = true ∧
    reverseMarkAbs (joined [ranged 1 3 true false, between 4, point 6]) 9 = false ∧
    outerMarks (joined [ranged 1 3 true false, between 4, point 6]) = (true, false) ∧
    outerMarks (reverse (joined [ranged 1 3 true false, between 4, point 6]) 9) = (false, true) := by
  decide

/-- **Reverse, record level**: every feature of a record is present in `gts.Reverse(seq)` with
unchanged key and qualifiers and its outer partial markers on the opposite ends. -/
theorem reverse_feature_marks_partial (s : Seq) (f : Feature) (hf : f ∈ s.feats)
    (hw : wf f.loc = true) (hg : reverseMarkAbs f.loc s.len = false) :
    ∃ f' ∈ s.reverse.feats, f'.key = f.key ∧ f'.props = f.props ∧
      outerMarks f'.loc = ((outerMarks f.loc).2, (outerMarks f.loc).1) :=
  ⟨{ f with loc := f.loc.reverse s.len }, mem_of_perm_map (reverse_table_perm s) hf, rfl, rfl,
   reverse_marks_partial f.loc s.len hw hg⟩

/-! ### `Reverse` twice — joins, orders, complements

`Joined.Reverse` reverses the parts and re-`Join`s them in mirrored order (`Ordered.Reverse`:
`Order`, `Complemented.Reverse`: the inner location).  `Join` pushes its arguments through the
reduction rules of `LocationList.Push`, and those are not mirror symmetric
(`Gts/Spec/ReverseGuard.lean`): a point is absorbed into a range that STARTS at it but not into one
that ends on it; K2 drops the point one base behind a range; the `Between` rules meet K1.  So the
structural involution needs "no `Join` of the first reversal reduces" (`reverseStable`), the
denotation-level one only that K2 fires in neither reversal.  The three witnesses below are
replayed on the real code by the C05 harness (`loc.reverse`, twice) on every run. -/

/-- FULL STATEMENT (false on the model, and on the code): "`Reverse` twice is the identity on every
canonical, well-formed, duplicate-free location inside `[0, L]`".  Witness `join(4,5..8)` on ten
residues: the parts reverse to `3..6` and `7`, `Join` drops the point behind the range (K2), the
result `3..6` reverses to `5..8`. -/
theorem reverse_involutive_full_refuted :
    ¬ (∀ (l : Loc) (L : Int), canonP l = true → wf l = true → coordsWithin l L = true →
        (den l).Nodup → reverse (reverse l L) L = l) := by
  intro h
  have := h (joined [point 3, ranged 4 8 false false]) 10 (by decide) (by decide) (by decide) (by decide)
  have := congrArg (fun x => Loc.beq x (joined [point 3, ranged 4 8 false false])) this
  revert this
  decide

/-- … and K2 is not the only rule in the way: with K2 firing in NEITHER reversal the structural law
is still false.  Witness `join(5,4^5)` — a point and the site in front of it, duplicate-free — on
ten residues: `Between.Reverse` (K1) puts the site `5^6` in front of the point `6`, `Join` replaces
a site by the point that follows it, `6` reverses to `5`. -/
theorem reverse_involutive_k2_refuted :
    ¬ (∀ (l : Loc) (L : Int), canonP l = true → wf l = true → coordsWithin l L = true →
        (den l).Nodup → reverseAbs l L = false → reverseAbs (reverse l L) L = false →
        reverse (reverse l L) L = l) := by
  intro h
  have := h (joined [point 4, between 4]) 10 (by decide) (by decide) (by decide) (by decide)
    (by decide) (by decide)
  have := congrArg (fun x => Loc.beq x (joined [point 4, between 4])) this
  revert this
  decide

/-- … nor are K1 and K2 together: without any between-site and without K2, `join(3..5,5)` (the
point ON the last base of the range — `Push` keeps it) reverses to `join(6,6..8)`, where `Push`
absorbs the point into the range that starts at it; `6..8` reverses to `3..5`. -/
theorem reverse_involutive_absorb_refuted :
    ¬ (∀ (l : Loc) (L : Int), canonP l = true → wf l = true → coordsWithin l L = true →
        (leaves l).all (fun u => !isBetween u) = true →
        reverseAbs l L = false → reverseAbs (reverse l L) L = false →
        reverse (reverse l L) L = l) := by
  intro h
  have := h (joined [ranged 2 5 false false, point 4]) 10 (by decide) (by decide) (by decide)
    (by decide) (by decide) (by decide)
  have := congrArg (fun x => Loc.beq x (joined [ranged 2 5 false false, point 4])) this
  revert this
  decide

/-- **`Reverse` is an involution on composite locations**: for every canonical location (`canonP`:
what `Join` / `Order` / `Complement()` build — any kind, arity, nesting, strand, partial markers)
and EVERY length `L` (in particular every `L` with the coordinates inside `[0, L]`), if no `Join`
in the evaluation of the first reversal reduces its arguments (`reverseStable`, decidable), then
`reverse (reverse l L) L = l`.  Orders and complements need nothing of their own: the guard only
looks at `Joined` nodes.  (On the canonical locations of the exhaustive scope the guard is also
necessary: there `reverseStable` fails exactly where the law fails.) -/
theorem reverse_involutive_partial (l : Loc) (L : Int) (hc : canonP l = true)
    (hs : reverseStable l L = true) : reverse (reverse l L) L = l :=
  reverse_reverse l L hc hs

/-- non-vacuity: a complement-strand join of five parts with markers, an order with a join
inside, and a join with a between-site, all inside `[0, 20]` -/
example :
    let a := compl (joined [ranged 0 2 true false, point 4, ranged 6 9 false false, ambiguous 11 13,
      ranged 15 20 false true])
    let b := ordered [joined [ranged 1 3 false false, compl (ranged 5 8 false false)], point 10, between 12]
    let c := joined [ranged 1 3 true false, between 7, point 9]
    (canonP a = true ∧ reverseStable a 20 = true ∧ coordsWithin a 20 = true) ∧
    (canonP b = true ∧ reverseStable b 20 = true ∧ coordsWithin b 20 = true) ∧
    (canonP c = true ∧ reverseStable c 20 = true ∧ coordsWithin c 20 = true) := by
  decide

/-- **the guard in terms of the location itself**: a canonical, well-formed location that reads no
residue twice and contains no between-site, and in whose reversal K2 does not fire, meets
`reverseStable` — the three refuted statements above each drop exactly one of these conditions
(K2: `reverse_involutive_full_refuted`; a between-site, K1: `reverse_involutive_k2_refuted`; a
residue read twice: `reverse_involutive_absorb_refuted`).  Proof: `Join` leaves parts alone iff no
adjacent pair meets a rule of `Push`; the mirror image of such a pair meets one only through a
between-site, a point on the last base of the range in front of it, or K2
(`Gts/Lemmas/ReverseStable.lean`). -/
theorem reverse_stable_of_nodup (l : Loc) (L : Int) (hc : canonP l = true) (hw : wf l = true)
    (hnd : (den l).Nodup) (hnb : (leaves l).all (fun u => !isBetween u) = true)
    (hk2 : reverseAbs l L = false) : reverseStable l L = true :=
  reverseStable_of_guards l L hc hw hnd (by rw [allLeaves_eq_all]; exact hnb) hk2

/-- **`Reverse` is an involution on every canonical location that reads no residue twice, has no
between-site and does not meet K2** — any kind, arity, nesting, strand and partial markers, every
`L`: exactly the conditions under which the harness evaluates its oracle "reverse: involution on
canonical locations" (`isCanonical`, `nodup`, `!hasBetween`, guard line `k2.reverse`), now a theorem. -/
theorem reverse_involutive_nodup_partial (l : Loc) (L : Int) (hc : canonP l = true) (hw : wf l = true)
    (hnd : (den l).Nodup) (hnb : (leaves l).all (fun u => !isBetween u) = true)
    (hk2 : reverseAbs l L = false) : reverse (reverse l L) L = l :=
  reverse_involutive_partial l L hc (reverse_stable_of_nodup l L hc hw hnd hnb hk2)

/-- non-vacuity: a complement-strand join of five parts with markers, and an order with a join and
a complement inside -/
example :
    let a := compl (joined [ranged 0 2 true false, point 4, ranged 6 9 false false, ambiguous 11 13,
      ranged 15 20 false true])
    let b := ordered [joined [ranged 1 3 false false, compl (ranged 5 8 false false)], point 10]
    (canonP a = true ∧ wf a = true ∧ (den a).Nodup ∧ (leaves a).all (fun u => !isBetween u) = true ∧
      reverseAbs a 20 = false) ∧
    (canonP b = true ∧ wf b = true ∧ (den b).Nodup ∧ (leaves b).all (fun u => !isBetween u) = true ∧
      reverseAbs b 20 = false) := by
  decide

/-- FULL STATEMENT of the denotation-level law with the K2 guard on the FIRST reversal alone (false
on the model, and on the code).  Witness `join(3..6,5^6,7)` on ten residues: canonical — the site
separates the range from the point behind it — and K2 does not fire in `join(4,5^6,5..8)`, but
`Push` drops the site after the point, so the second reversal joins `3..6` and `7` and K2 drops
residue 7. -/
theorem reverse_twice_den_full_refuted :
    ¬ (∀ (l : Loc) (L : Int), canonP l = true → wf l = true → coordsWithin l L = true →
        (den l).Nodup → reverseAbs l L = false → den (reverse (reverse l L) L) = den l) := by
  intro h
  have := h (joined [ranged 2 6 false false, between 5, point 6]) 10 (by decide) (by decide)
    (by decide) (by decide) (by decide)
  revert this
  decide

/-- … and with K2 firing in neither reversal, EQUALITY of the denotations still needs
duplicate-freeness: `join(3..5,5)` reads residue 5 twice, its double reverse `3..5` once. -/
theorem reverse_twice_den_eq_refuted :
    ¬ (∀ (l : Loc) (L : Int), canonP l = true → wf l = true → coordsWithin l L = true →
        reverseAbs l L = false → reverseAbs (reverse l L) L = false →
        den (reverse (reverse l L) L) = den l) := by
  intro h
  have := h (joined [ranged 2 5 false false, point 4]) 10 (by decide) (by decide) (by decide)
    (by decide) (by decide)
  revert this
  decide

/-- **`Reverse` twice preserves meaning**: for every well-formed location (canonical or not, any
kind and arity) and every `L`, when K2 fires in neither reversal, the twice reversed location reads
the residues of `l` in the same order on the same strands — a residue `l` reads more than once
possibly fewer times (`≼`). -/
theorem reverse_twice_den_partial (l : Loc) (L : Int) (hw : wf l = true)
    (h1 : reverseAbs l L = false) (h2 : reverseAbs (reverse l L) L = false) :
    den (reverse (reverse l L) L) ≼ den l := reverse_reverse_den l L hw h1 h2

/-- … exactly the same residues when `l` reads none twice (every real feature) -/
theorem reverse_twice_den_nodup_partial (l : Loc) (L : Int) (hw : wf l = true)
    (h1 : reverseAbs l L = false) (h2 : reverseAbs (reverse l L) L = false) (hnd : (den l).Nodup) :
    den (reverse (reverse l L) L) = den l :=
  (reverse_twice_den_partial l L hw h1 h2).eq_of_nodup hnd

/-- non-vacuity: the second witness above — structurally NOT restored, its meaning is — and an
odd-arity complement-strand join -/
example :
    wf (joined [point 4, between 4]) = true ∧ reverseAbs (joined [point 4, between 4]) 10 = false ∧
    reverseAbs (reverse (joined [point 4, between 4]) 10) 10 = false ∧
    (den (joined [point 4, between 4])).Nodup ∧
    (reverse (reverse (joined [point 4, between 4]) 10) 10).beq (point 4) = true ∧
    wf (compl (joined [ranged 0 2 true false, ranged 4 6 false false, ranged 8 10 false true])) = true ∧
    reverseAbs (compl (joined [ranged 0 2 true false, ranged 4 6 false false, ranged 8 10 false true])) 12 = false ∧
    reverseAbs (reverse (compl (joined [ranged 0 2 true false, ranged 4 6 false false, ranged 8 10 false true])) 12) 12 = false ∧
    (den (compl (joined [ranged 0 2 true false, ranged 4 6 false false, ranged 8 10 false true]))).Nodup := by
  decide

/-! ### record level: `gts.Reverse(gts.Reverse(seq))` -/

/-- the residues come back -/
theorem seq_reverse_reverse_bytes (s : Seq) : s.reverse.reverse.bytes = s.bytes := by
  simp [Seq.reverse]

/-- no feature is lost or duplicated; each is re-located by `Reverse(len)` twice (the reversed
record has the same length) -/
theorem seq_reverse_reverse_table_perm (s : Seq) :
    s.reverse.reverse.feats.Perm
      (s.feats.map fun f => { f with loc := (f.loc.reverse s.len).reverse s.len }) :=
  Seq.reverse_reverse_feats_perm s

/-- **per feature, structurally**: a feature with a canonical location none of whose joins reduces
under `Reverse(len)` is a feature of the twice reversed record, unchanged -/
theorem seq_reverse_reverse_feature_partial (s : Seq) (f : Feature) (hf : f ∈ s.feats)
    (hc : canonP f.loc = true) (hs : reverseStable f.loc s.len = true) :
    f ∈ s.reverse.reverse.feats := by
  have := mem_of_perm_map (seq_reverse_reverse_table_perm s) hf
  rwa [reverse_involutive_partial f.loc s.len hc hs] at this

/-- **per feature, in the terms of the feature**: a feature whose location is canonical,
well-formed, duplicate-free, without between-site and K2-free under `Reverse(len)` is a feature of
the twice reversed record, unchanged -/
theorem seq_reverse_reverse_feature_nodup_partial (s : Seq) (f : Feature) (hf : f ∈ s.feats)
    (hc : canonP f.loc = true) (hw : wf f.loc = true) (hnd : (den f.loc).Nodup)
    (hnb : (leaves f.loc).all (fun u => !isBetween u) = true)
    (hk2 : reverseAbs f.loc s.len = false) : f ∈ s.reverse.reverse.feats :=
  seq_reverse_reverse_feature_partial s f hf hc (reverse_stable_of_nodup f.loc s.len hc hw hnd hnb hk2)

/-- **the whole table**: when every feature meets the guard, the twice reversed record carries
the same features (`FeatureSlice.Insert` may order equal-ranking features differently) and the
same residues -/
theorem seq_reverse_reverse_perm_partial (s : Seq)
    (h : ∀ f ∈ s.feats, canonP f.loc = true ∧ reverseStable f.loc s.len = true) :
    s.reverse.reverse.feats.Perm s.feats ∧ s.reverse.reverse.bytes = s.bytes := by
  refine ⟨?_, seq_reverse_reverse_bytes s⟩
  have e : (s.feats.map fun f => ({ f with loc := (f.loc.reverse s.len).reverse s.len } : Feature)) = s.feats := by
    conv => rhs; rw [← List.map_id s.feats]
    apply List.map_congr_left
    intro f hf
    have := reverse_involutive_partial f.loc s.len (h f hf).1 (h f hf).2
    simp only [this, id]
  have := seq_reverse_reverse_table_perm s
  rwa [e] at this

/-- **per feature, on denotations**: every well-formed feature comes back with its key and
qualifiers and a location that reads the same residues in the same order on the same strands
(fewer copies of a residue read twice), when K2 fires in neither reversal; the very same residues
when none is read twice. -/
theorem seq_reverse_reverse_feature_den_partial (s : Seq) (f : Feature) (hf : f ∈ s.feats)
    (hw : wf f.loc = true) (h1 : reverseAbs f.loc s.len = false)
    (h2 : reverseAbs (reverse f.loc s.len) s.len = false) :
    ∃ f' ∈ s.reverse.reverse.feats, f'.key = f.key ∧ f'.props = f.props ∧
      den f'.loc ≼ den f.loc ∧ ((den f.loc).Nodup → den f'.loc = den f.loc) :=
  ⟨{ f with loc := (f.loc.reverse s.len).reverse s.len },
   mem_of_perm_map (seq_reverse_reverse_table_perm s) hf, rfl, rfl,
   reverse_twice_den_partial f.loc s.len hw h1 h2,
   reverse_twice_den_nodup_partial f.loc s.len hw h1 h2⟩

/-- non-vacuity: a record with a forward gene, a complement-strand join and a site; every feature
meets the structural guard and the K2 guards -/
example :
    let s : Seq := ⟨[⟨"gene", ranged 1 7 true false, []⟩,
      ⟨"CDS", compl (joined [ranged 0 2 true false, point 4, ranged 8 10 false false]), []⟩,
      ⟨"misc_feature", between 6, []⟩],
      [65,67,71,85,65,67,71,84,65,67,71,84]⟩
    ∀ f ∈ s.feats, canonP f.loc = true ∧ reverseStable f.loc s.len = true ∧ wf f.loc = true ∧
      reverseAbs f.loc s.len = false ∧ reverseAbs (reverse f.loc s.len) s.len = false ∧
      (den f.loc).Nodup := by
  decide +kernel

/-! ### sequence level: `gts.Complement` and `gts.Reverse(gts.Complement(·))` -/

/-- `Location.Complement` flips the strand of everything a location denotes — for EVERY
location, a wrapped one (`complement(x)` ↦ `x`) as well as an unwrapped one of any kind
(ranges, points, `a.b` ambiguous spans, joins, orders) -/
theorem den_complement (l : Loc) : den (complement l) = flipDen (den l) := by
  cases l <;> simp [complement, den, flipDen_flipDen]

/-- **`gts.Complement` on a record** never panics, complements every residue through the table,
and passes EVERY feature location (whatever its kind) through `Location.Complement`, keeping
keys, qualifiers and table order. -/
theorem seq_complement_total (s : Seq) :
    s.complementRec = some ⟨s.feats.map fun f => { f with loc := f.loc.complement },
                         s.bytes.map Nuc.complementByte⟩ := by
  simp [Seq.complementRec, C18.complement_bytewise]

/-- the reverse-complemented record: residues complemented and flipped, no feature lost or
duplicated, every feature re-located by `Complement` then `Reverse(len)` -/
theorem seq_revcomp (s : Seq) :
    ∃ r, s.revcompRec = some r ∧ r.bytes = (s.bytes.map Nuc.complementByte).reverse ∧
      r.feats.Perm (s.feats.map fun f => { f with loc := (f.loc.complement).reverse s.len }) := by
  refine ⟨(⟨s.feats.map fun f => { f with loc := f.loc.complement },
      s.bytes.map Nuc.complementByte⟩ : Seq).reverse, by simp [Seq.revcompRec, seq_complement_total], rfl, ?_⟩
  have h := reverse_table_perm
    ⟨s.feats.map fun f => { f with loc := f.loc.complement }, s.bytes.map Nuc.complementByte⟩
  simpa [Seq.len, Function.comp_def] using h

/-- **every feature of the reverse-complemented record denotes what it denoted before**: the
location `reverse (complement l) L` reads position `L-1-x` on the opposite strand wherever `l`
read `x`, in the same order (K2 guard on the complemented location). -/
theorem seq_revcomp_den_partial (l : Loc) (L : Int) (hw : wf (complement l) = true)
    (hk2 : reverseAbs (complement l) L = false) :
    den (reverse (complement l) L) ≼ (den l).map (fun p => (L - 1 - p.1, !p.2)) := by
  have h := reverse_den_partial (complement l) L hw hk2
  rw [den_complement] at h
  have e : mirrorDen L (flipDen (den l)) = (den l).map (fun p => (L - 1 - p.1, !p.2)) := by
    simp [flipDen, mirrorDen, mapPos, mirrorMap, List.map_reverse, Function.comp_def]
  rwa [e] at h

/-- non-vacuity: a top-level ambiguous span and a complemented join meet the hypotheses -/
example : wf (complement (ambiguous 5 9)) = true ∧ reverseAbs (complement (ambiguous 5 9)) 16 = false ∧
    wf (complement (compl (joined [ranged 0 2 true false, ranged 4 6 false false]))) = true ∧
    reverseAbs (complement (compl (joined [ranged 0 2 true false, ranged 4 6 false false]))) 12 = false := by
  decide

/-! ### byte level: what `Location.Region().Locate(seq)` extracts

`Reg.locate` (Gts/Model/Cli.lean) is the model of `Segment.Locate` / `Regions.Locate`,
`Loc.region` (Gts/Model/Region.lean) the model of every `Region()` method, `readAt` / `denIn` /
`uToT` (Gts/Spec/Read.lean) are pure spec-side definitions.

OUTSIDE the in-bounds hypothesis: `Segment.Locate` calls `gts.Slice(seq, head, tail)`, which adds
`len` to a negative coordinate (wraps around), rotates when `end < start` after that, and then
slices `seq.Bytes()[start:end]` — a PANIC for a coordinate beyond `len` (or below `-len`).  The
model's `Seq.sliceFwd` is total (`drop`/`take` truncate), so nothing is claimed there.

WHAT THE IN-BOUNDS HYPOTHESIS BOUNDS (audit session 4): `denIn s.len (den l)` bounds the RESIDUES `l`
denotes.  A between-site denotes no residue, so `denIn` says nothing about where it lies: `between 100` on a
4-residue record meets every hypothesis of the `denIn` theorems below (`denIn_ignores_sites`), the model's
`Locate` extracts nothing from it, and the real `Slice(seq, 100, 100)` PANICS (replayed: `reg.locate
(S 100 100) x61636774`).  The `denIn` theorems are therefore statements about the extracted RESIDUES of the
MODEL; they transfer to the real code only where, in addition, every zero-length segment lies inside the
record.  The hypothesis that bounds sites too is `Reg.within s.len (region l)` (both ends of every segment,
zero-length ones included, in `[0, len]` — exactly where no `Slice` of `Locate` on the original record wraps,
rotates or leaves the byte array): `locate_bytes_within` and the `…_within_partial` corollaries are stated
under it.  For the RE-LOCATED location on the reverse-complemented record no such bound is proved: known
finding K1 moves the site `between len` to `between (-1)`. -/

/-- **locate_bytes** (DESIGN §3): for a well-formed location whose denoted positions are all
indices of the record, the residues extracted by `l.Region().Locate(seq)` are exactly the
denotation of `l` read off the record — `seq[x]` for a residue `(x, forward)`,
`complementByte seq[x]` for `(x, complement strand)`, in denotation order — and every one of
these reads is a real index (the default of `readAt` is never used). -/
theorem locate_bytes (l : Loc) (s : Seq) (hw : wf l = true) (hb : denIn s.len (den l)) :
    (Reg.locate (region l) s).bytes = (den l).map (readAt s.bytes) ∧
    ∀ p ∈ den l, readAt? s.bytes p = some (readAt s.bytes p) :=
  ⟨locate_region_bytes l s hw hb, fun p hp => readAt?_eq_some (hb p hp).1 (hb p hp).2⟩

/-- the same under the REGION guard of C09/C15 (`Reg.within`: both ends of every segment of
`l.Region()` lie in `[0, len]`) — exactly the condition under which no `Slice` inside `Locate`
wraps, rotates or leaves the byte array; it also bounds zero-length segments (between-sites). -/
theorem locate_bytes_within (l : Loc) (s : Seq) (hw : wf l = true)
    (hb : Reg.within s.len (region l)) :
    (Reg.locate (region l) s).bytes = (den l).map (readAt s.bytes) :=
  locate_region_bytes l s hw (den_region l hw ▸ Reg.denIn_of_within hb)

/-- region level (C08 / C15 `Locate` on any region tree, e.g. a resized one): the extracted
residues are `Reg.den` read off the record. -/
theorem region_locate_bytes (r : Reg) (s : Seq) (hb : denIn s.len (Reg.den r)) :
    (Reg.locate r s).bytes = (Reg.den r).map (readAt s.bytes) := Reg.locate_bytes_den r s hb

/-- `Location.Region()` denotes what the location denotes, and `Region.Complement()` denotes the
same residues on the other strand in opposite order. -/
theorem region_den (l : Loc) (hw : wf l = true) :
    Reg.den (region l) = den l ∧ ∀ r : Reg, Reg.den r.complement = flipDen (Reg.den r) :=
  ⟨den_region l hw, Reg.den_complement⟩

/-- non-vacuity: a complement-strand join inside a 12-residue record, and its region guard -/
example : wf (compl (joined [ranged 0 2 true false, point 5, ranged 8 10 false true])) = true ∧
    denIn (Seq.len ⟨[], [65,67,71,84,65,67,71,84,65,67,71,84]⟩)
      (den (compl (joined [ranged 0 2 true false, point 5, ranged 8 10 false true]))) ∧
    Reg.within (Seq.len ⟨[], [65,67,71,84,65,67,71,84,65,67,71,84]⟩)
      (region (compl (joined [ranged 0 2 true false, point 5, ranged 8 10 false true]))) ∧
    denIn 12 (Reg.den (.many [.seg 10 8, .seg 0 3])) := by
  decide

/-- the located residues of `complement(l)` are the reverse complement of those of `l` (up to
U → T on the residues complemented twice, i.e. where `l` itself is on the complement strand) -/
theorem extract_compl (l : Loc) (s : Seq) (hw : wf l = true) (hb : denIn s.len (den l)) :
    (Reg.locate (region (compl l)) s).bytes.map uToT =
      ((Reg.locate (region l) s).bytes.map Nuc.complementByte).reverse := by
  have hbc : denIn s.len (den (compl l)) := by simpa [den] using denIn_flipDen.mpr hb
  rw [locate_region_bytes (compl l) s (by simpa [wf] using hw) hbc, locate_region_bytes l s hw hb]
  simpa [den] using map_readAt_flipDen s.bytes (den l) hb

/-- complementing a location twice (`Complemented{Complemented{l}}`) extracts what `l` extracts -/
theorem extract_compl_compl (l : Loc) (s : Seq) (hw : wf l = true) (hb : denIn s.len (den l)) :
    (Reg.locate (region (compl (compl l))) s).bytes = (Reg.locate (region l) s).bytes := by
  have e : den (compl (compl l)) = den l := by simp [den, flipDen_flipDen]
  rw [locate_region_bytes (compl (compl l)) s (by simpa [wf] using hw) (e ▸ hb),
    locate_region_bytes l s hw hb, e]

/-- non-vacuity for the two corollaries above -/
example : wf (compl (ranged 2 6 false false)) = true ∧
    denIn (Seq.len ⟨[], [65,67,71,84,65,67,71,85]⟩) (den (compl (ranged 2 6 false false))) := by
  decide

/-! ### reverse-complement preserves the extracted residues -/

/-- FULL STATEMENT of the extraction clause (no duplicate-read guard): false on the model, because
`Reverse` re-joins the parts and `Join` drops a part it has already covered —
`join(3,3)` reads residue 3 twice, its reverse `Point` reads it once. -/
theorem revcomp_extract_full_refuted :
    ¬ (∀ (l : Loc) (s r : Seq), s.revcompRec = some r → wf l = true → reverseAbs l s.len = false →
        denIn s.len (den l) →
        (Reg.locate (region (compl (reverse l s.len))) r).bytes =
          (Reg.locate (region l) s).bytes.map uToT) := by
  intro h
  have := h (joined [point 2, point 2]) ⟨[], [65,67,71,84,65,67]⟩ ⟨[], [71,84,65,67,71,84]⟩
    (by rfl) (by decide) (by decide) (by decide)
  revert this
  decide +kernel

/-- **reverse-complement extraction, any well-formed location**: what
`complement(reverse l)` extracts from the reverse-complemented record are the residues `l`
extracts from the original one — the same reads in the same order, each on its strand — except
that a residue `l` reads more than once may be read fewer times (`d ≼ den l`: `Join` inside
`Reverse` drops repeated parts), and U comes back as T.  Guards as in `revcomp_den_partial`
(K2; a between-site, K1, denotes no residue) plus the in-bounds hypothesis. -/
theorem revcomp_extract_refines_partial (l : Loc) (s r : Seq) (hr : s.revcompRec = some r)
    (hw : wf l = true) (hk2 : reverseAbs l s.len = false) (hb : denIn s.len (den l)) :
    ∃ d, d ≼ den l ∧
      (Reg.locate (region (compl (reverse l s.len))) r).bytes = (d.map (readAt s.bytes)).map uToT := by
  obtain ⟨r', hr', hbytes, _⟩ := seq_revcomp s
  obtain rfl : r' = r := Option.some.inj (hr'.symm.trans hr)
  have hlen : r'.len = s.len := by simp [Seq.len, hbytes]
  have href := revcomp_den_partial l s.len hw hk2
  have hwT : wf (compl (reverse l s.len)) = true := by
    simpa [wf] using (reverse_mirror l s.len hw).2
  have hbT : denIn r'.len (den (compl (reverse l s.len))) := by
    rw [hlen]
    exact denIn_of_subset (fun p hp => href.1.subset hp) (denIn_map_revcompPos hb)
  refine ⟨(den (compl (reverse l s.len))).map (fun p => (s.len - 1 - p.1, !p.2)), ?_, ?_⟩
  · have := href.map (fun p => (s.len - 1 - p.1, !p.2))
    rwa [map_revcompPos_involutive] at this
  · have hd : denIn s.len ((den (compl (reverse l s.len))).map (fun p => (s.len - 1 - p.1, !p.2))) :=
      denIn_map_revcompPos (hlen ▸ hbT)
    have := map_readAt_revcomp s.bytes _ hd
    rw [show ((s.bytes.length : Int)) = s.len from rfl, map_revcompPos_involutive] at this
    rw [locate_region_bytes _ r' hwT hbT, hbytes, this]

/-- **reverse-complement preserves the extracted sequence** (the last clause of C05): for a
well-formed location inside the record that reads no residue twice (every real feature),
`complement(reverse l)` — what `gts.Reverse` then `gts.Complement` make of a feature location —
extracts from the reverse-complemented record exactly the residues `l` extracts from the
original record, up to U → T.  Guards: K2 (`reverseAbs`), in bounds, duplicate-free; K1
(between-sites) costs nothing here because a between-site denotes no residue. -/
theorem revcomp_extract_partial (l : Loc) (s r : Seq) (hr : s.revcompRec = some r)
    (hw : wf l = true) (hk2 : reverseAbs l s.len = false) (hb : denIn s.len (den l))
    (hnd : (den l).Nodup) :
    (Reg.locate (region (compl (reverse l s.len))) r).bytes =
      (Reg.locate (region l) s).bytes.map uToT := by
  obtain ⟨d, hd, he⟩ := revcomp_extract_refines_partial l s r hr hw hk2 hb
  rw [he, hd.eq_of_nodup hnd, locate_region_bytes l s hw hb]

/-- `denIn` does not bound between-sites (audit session 4): the site `between 100` on a 4-residue record
meets EVERY hypothesis of `revcomp_extract_partial` / `revcomp_extract_refines_partial` — it denotes no
residue — although its region `Segment{100, 100}` lies outside the record (`Reg.within` false), where the real
`Slice` panics and the model's extracts nothing. -/
theorem denIn_ignores_sites :
    let l := between 100
    let s : Seq := ⟨[], [97, 99, 103, 116]⟩
    s.revcompRec.isSome = true ∧ wf l = true ∧ reverseAbs l s.len = false ∧ denIn s.len (den l) ∧
    (den l).Nodup ∧ ¬ Reg.within s.len (region l) ∧ (Reg.locate (region l) s).bytes = [] := by
  decide

/-- **reverse-complement extraction under the full in-bounds guard** (`Reg.within`: every segment of
`l.Region()`, zero-length ones — between-sites — included, lies inside the record, so that `Locate` on the
ORIGINAL record stays clear of every panicking or wrapping `Slice`): the conclusion of
`revcomp_extract_partial`.  Nothing is claimed about `Slice` on the reverse-complemented record for the
re-located sites (K1). -/
theorem revcomp_extract_within_partial (l : Loc) (s r : Seq) (hr : s.revcompRec = some r)
    (hw : wf l = true) (hk2 : reverseAbs l s.len = false) (hb : Reg.within s.len (region l))
    (hnd : (den l).Nodup) :
    (Reg.locate (region (compl (reverse l s.len))) r).bytes =
      (Reg.locate (region l) s).bytes.map uToT :=
  revcomp_extract_partial l s r hr hw hk2 (den_region l hw ▸ Reg.denIn_of_within hb) hnd

/-- the same for `Location.Complement` proper (which unwraps a `Complemented` instead of wrapping
it twice): `gts.Complement(gts.Reverse(seq))` re-locates `l` to `(l.Reverse(len)).Complement()` -/
theorem revcomp_extract_unwrap_partial (l : Loc) (s r : Seq) (hr : s.revcompRec = some r)
    (hw : wf l = true) (hk2 : reverseAbs l s.len = false) (hb : denIn s.len (den l))
    (hnd : (den l).Nodup) :
    (Reg.locate (region (complement (reverse l s.len))) r).bytes =
      (Reg.locate (region l) s).bytes.map uToT := by
  obtain ⟨r', hr', hbytes, _⟩ := seq_revcomp s
  obtain rfl : r' = r := Option.some.inj (hr'.symm.trans hr)
  have hlen : r'.len = s.len := by simp [Seq.len, hbytes]
  have e : den (complement (reverse l s.len)) = den (compl (reverse l s.len)) := by
    rw [den_complement]; simp [den]
  have hwR : wf (reverse l s.len) = true := (reverse_mirror l s.len hw).2
  have hbT : denIn r'.len (den (compl (reverse l s.len))) := by
    rw [hlen]
    exact denIn_of_subset (fun p hp => (revcomp_den_partial l s.len hw hk2).1.subset hp)
      (denIn_map_revcompPos hb)
  rw [← revcomp_extract_partial l s r' hr hw hk2 hb hnd,
    locate_region_bytes _ r' (by rw [wf_complement]; exact hwR) (e ▸ hbT),
    locate_region_bytes _ r' (by simpa [wf] using hwR) hbT, e]

/-- … and on a record without U / u the extracted residues are literally equal. -/
theorem revcomp_extract_noU_partial (l : Loc) (s r : Seq) (hr : s.revcompRec = some r)
    (hw : wf l = true) (hk2 : reverseAbs l s.len = false) (hb : denIn s.len (den l))
    (hnd : (den l).Nodup) (hu : ∀ b ∈ s.bytes, b ≠ 85 ∧ b ≠ 117) :
    (Reg.locate (region (compl (reverse l s.len))) r).bytes = (Reg.locate (region l) s).bytes := by
  rw [revcomp_extract_partial l s r hr hw hk2 hb hnd, locate_region_bytes l s hw hb]
  exact map_uToT_map_readAt_of_noU s.bytes (den l) hb hu

/-- non-vacuity: an odd-arity complement-strand join with partial ends on a 12-residue record
(with and without U) meets every hypothesis -/
example :
    let l := compl (joined [ranged 0 2 true false, ranged 4 6 false false, ranged 8 10 false true])
    let s : Seq := ⟨[], [65,67,71,85,65,67,71,84,65,67,71,84]⟩
    s.revcompRec.map (·.bytes) = some [65,67,71,84,65,67,71,84,65,67,71,84] ∧
    wf l = true ∧ reverseAbs l s.len = false ∧ denIn s.len (den l) ∧ (den l).Nodup ∧
    (∀ b ∈ ([65,67,71,84,65,67,71,84,65,67,71,84] : List UInt8), b ≠ 85 ∧ b ≠ 117) := by
  decide +kernel

/-! ### record level: every feature of `gts.Reverse(gts.Complement(seq))` -/

/-- **one feature of the reverse-complemented record**: `gts.Complement` then `gts.Reverse` turn
the location `l` into `reverse (complement l) len`; from the reverse-complemented record it
extracts the residues `l` extracts from the original (up to U → T).  Guards on the complemented
location as in `seq_revcomp_den_partial`, in bounds, duplicate-free. -/
theorem seq_revcomp_extract_partial (l : Loc) (s r : Seq) (hr : s.revcompRec = some r)
    (hw : wf (complement l) = true) (hk2 : reverseAbs (complement l) s.len = false)
    (hb : denIn s.len (den l)) (hnd : (den l).Nodup) :
    (Reg.locate (region (reverse (complement l) s.len)) r).bytes =
      (Reg.locate (region l) s).bytes.map uToT := by
  obtain ⟨r', hr', hbytes, _⟩ := seq_revcomp s
  obtain rfl : r' = r := Option.some.inj (hr'.symm.trans hr)
  have hlen : r'.len = s.len := by simp [Seq.len, hbytes]
  have hwl : wf l = true := by rw [← wf_complement]; exact hw
  have hden : den (reverse (complement l) s.len) = (den l).map (fun p => (s.len - 1 - p.1, !p.2)) :=
    (seq_revcomp_den_partial l s.len hw hk2).eq_of_nodup (nodup_map_revcompPos _ _ hnd)
  have hwT : wf (reverse (complement l) s.len) = true := (reverse_mirror _ s.len hw).2
  have hbT : denIn r'.len (den (reverse (complement l) s.len)) := by
    rw [hlen, hden]; exact denIn_map_revcompPos hb
  rw [locate_region_bytes _ r' hwT hbT, hden, hbytes, locate_region_bytes l s hwl hb]
  exact map_readAt_revcomp s.bytes (den l) hb

/-- the record-level form (`gts.Reverse(gts.Complement(seq))`, location re-located by `Complement` then
`Reverse(len)`) under the full in-bounds guard -/
theorem seq_revcomp_extract_within_partial (l : Loc) (s r : Seq) (hr : s.revcompRec = some r)
    (hw : wf (complement l) = true) (hk2 : reverseAbs (complement l) s.len = false)
    (hb : Reg.within s.len (region l)) (hnd : (den l).Nodup) :
    (Reg.locate (region (reverse (complement l) s.len)) r).bytes =
      (Reg.locate (region l) s).bytes.map uToT :=
  seq_revcomp_extract_partial l s r hr hw hk2
    (den_region l (by rw [← wf_complement]; exact hw) ▸ Reg.denIn_of_within hb) hnd

/-- non-vacuity: a join with a between-site INSIDE the record meets the `within` guard (and every other
hypothesis of the two theorems above) -/
example :
    let l := joined [ranged 0 2 true false, between 3, ranged 4 6 false false]
    let s : Seq := ⟨[], [65,67,71,84,65,67,71,84]⟩
    s.revcompRec.isSome = true ∧ wf l = true ∧ reverseAbs l s.len = false ∧ Reg.within s.len (region l) ∧
    (den l).Nodup ∧ wf (complement l) = true ∧ reverseAbs (complement l) s.len = false := by
  decide

/-- **the whole record**: `gts.Reverse(gts.Complement(seq))` never panics, keeps every feature
(none lost or duplicated) re-located by `Complement` then `Reverse(len)`, and EVERY feature that
meets the guards extracts from the new record what it extracted from the old one (up to U → T). -/
theorem seq_revcomp_extract_all_partial (s : Seq) :
    ∃ r, s.revcompRec = some r ∧
      r.feats.Perm (s.feats.map fun f => { f with loc := (f.loc.complement).reverse s.len }) ∧
      ∀ f ∈ s.feats, wf (complement f.loc) = true → reverseAbs (complement f.loc) s.len = false →
        denIn s.len (den f.loc) → (den f.loc).Nodup →
        (Reg.locate (region (reverse (complement f.loc) s.len)) r).bytes =
          (Reg.locate (region f.loc) s).bytes.map uToT := by
  obtain ⟨r, hr, _, hperm⟩ := seq_revcomp s
  exact ⟨r, hr, hperm, fun f _ hw hk2 hb hnd => seq_revcomp_extract_partial f.loc s r hr hw hk2 hb hnd⟩

/-- non-vacuity: a record with a forward gene and a complement-strand join; both features meet
the guards -/
example :
    let s : Seq := ⟨[⟨"gene", ranged 1 7 false false, []⟩,
      ⟨"CDS", compl (joined [ranged 0 2 true false, ranged 4 6 false false]), []⟩],
      [65,67,71,85,65,67,71,84,65,67,71,84]⟩
    ∀ f ∈ s.feats, wf (complement f.loc) = true ∧ reverseAbs (complement f.loc) s.len = false ∧
      denIn s.len (den f.loc) ∧ (den f.loc).Nodup := by
  decide +kernel

/-! ### the statements above, for the code AS IT IS WRITTEN NOW

`Gts.Gen.seqReverse` / `seqComplement` are regenerated from sequence.go / nucleotide.go on every run
(go2lean/gseq.go); `Gts/Bridge/SeqReverse.lean` / `SeqComplement.lean` prove them equal to the model for every input. -/

/-- **`gts.Reverse` as written** never panics, flips the residues and re-locates every feature by `Reverse(len)`
(no feature lost or duplicated); the metadata is untouched -/
theorem gen_reverse_spec {ι : Type} (info : ι) (s : Seq) :
    ∃ ff, Gen.seqReverse info s.feats s.bytes = .ok (info, ff, s.bytes.reverse) ∧
      ff.Perm (s.feats.map fun f => { f with loc := f.loc.reverse s.len }) :=
  ⟨_, Bridge.seqReverse_eq info s, reverse_table_perm s⟩

/-- **`gts.Reverse` as written, twice**: neither call panics, the residues and the metadata come
back, and the table is that of `Seq.reverse (Seq.reverse s)` — the subject of the
`seq_reverse_reverse_*` theorems above -/
theorem gen_reverse_reverse_spec {ι : Type} (info : ι) (s : Seq) :
    ∃ ff ff', Gen.seqReverse info s.feats s.bytes = .ok (info, ff, s.bytes.reverse) ∧
      Gen.seqReverse info ff s.bytes.reverse = .ok (info, ff', s.bytes) ∧
      ff' = s.reverse.reverse.feats ∧
      ff'.Perm (s.feats.map fun f => { f with loc := (f.loc.reverse s.len).reverse s.len }) := by
  refine ⟨s.reverse.feats, s.reverse.reverse.feats, Bridge.seqReverse_eq info s, ?_, rfl,
    seq_reverse_reverse_table_perm s⟩
  have := Bridge.seqReverse_eq info s.reverse
  rwa [seq_reverse_reverse_bytes] at this

/-- **`gts.Complement` as written** never panics (the `new[j]` of `replaceBytes` is always in range for the two
alphabets of nucleotide.go), complements byte by byte and passes EVERY feature location through
`Location.Complement`, table order kept -/
theorem gen_complement_spec {ι : Type} (info : ι) (s : Seq) :
    Gen.seqComplement info s.feats s.bytes =
      .ok (info, s.feats.map (fun f => { f with loc := f.loc.complement }), s.bytes.map Nuc.complementByte) := by
  rw [Bridge.seqComplement_eq, seq_complement_total]
  rfl

/-- **`gts.Transcribe` as written** never panics and transcribes byte by byte; features and metadata as they are -/
theorem gen_transcribe_spec {ι : Type} (info : ι) (s : Seq) :
    Gen.seqTranscribe info s.feats s.bytes = .ok (info, s.feats, s.bytes.map Nuc.transcribeByte) := by
  rw [Bridge.seqTranscribe_eq, C18.transcribe_bytewise]
  rfl

-- non-vacuity: the theorems have no hypotheses; a concrete record
example : Gen.seqComplement (ι := Unit) () [⟨"gene", .point 1, []⟩] [65, 67] =
    .ok ((), [⟨"gene", .compl (.point 1), []⟩], [84, 71]) := gen_complement_spec () ⟨[⟨"gene", .point 1, []⟩], [65, 67]⟩

/-! ### the CLI glue: `gts reverse`, `gts complement`

What the COMMANDS apply to every record: `Gts.Gen.reverseStep` / `complementStep` are the scan-loop bodies of
cmd/gts/reverse.go / complement.go, regenerated on every run (go2lean/cmdsteps.go); `Gts/Bridge/CmdReverse.lean` proves
them equal to `Seq.reverse` / `Seq.complement`. -/

/-- **`gts reverse`, the command as written**: one record is written per record read — residues flipped, no feature
lost or duplicated, each re-located by `Reverse(len)`; nothing is complemented -/
theorem reverse_cli_step (s : Seq) :
    ∃ r, Gen.reverseStep s = some [r] ∧ r.bytes = s.bytes.reverse ∧
      r.feats.Perm (s.feats.map fun f => { f with loc := f.loc.reverse s.len }) :=
  ⟨s.reverse, Bridge.reverseStep_eq s, rfl, reverse_table_perm s⟩

/-- **`gts complement`, the command as written**: one record per record — every residue through the complement
alphabet, EVERY feature location through `Location.Complement`, table order kept; nothing is reversed -/
theorem complement_cli_step (s : Seq) :
    Gen.complementStep s = some [⟨s.feats.map fun f => { f with loc := f.loc.complement },
      s.bytes.map Nuc.complementByte⟩] :=
  Bridge.complementStep_eq s

/-- **`gts complement | gts reverse`** is the reverse complement of the record — the record `seq_revcomp`,
`seq_revcomp_den_partial`, `seq_revcomp_extract_all_partial` above are about -/
theorem complement_then_reverse_cli_steps (s : Seq) :
    ∃ c r, Gen.complementStep s = some [c] ∧ Gen.reverseStep c = some [r] ∧ s.revcompRec = some r := by
  refine ⟨_, _, complement_cli_step s, Bridge.reverseStep_eq _, ?_⟩
  simp [Seq.revcompRec, seq_complement_total, Cli.reverseStep]

/-- **`gts reverse | gts reverse`**: the two runs give `Seq.reverse (Seq.reverse s)` — the residues come back, the
table is the one the `seq_reverse_reverse_*` theorems above are about -/
theorem reverse_reverse_cli_steps (s : Seq) :
    ∃ r, Gen.reverseStep s = some [r] ∧ Gen.reverseStep r = some [s.reverse.reverse] ∧
      s.reverse.reverse.bytes = s.bytes :=
  ⟨s.reverse, Bridge.reverseStep_eq s, Bridge.reverseStep_eq _, seq_reverse_reverse_bytes s⟩

-- non-vacuity: the theorems have no hypotheses; a concrete record
example : Gen.complementStep ⟨[⟨"gene", .point 1, []⟩], [65, 67]⟩ =
    some [⟨[⟨"gene", .compl (.point 1), []⟩], [84, 71]⟩] := complement_cli_step ⟨[⟨"gene", .point 1, []⟩], [65, 67]⟩

example : ∃ r, Gen.reverseStep ⟨[⟨"gene", .ranged 0 2 false false, []⟩], [65, 67, 71]⟩ = some [r] ∧
    r.bytes = [71, 67, 65] ∧ r.feats.Perm [⟨"gene", .ranged 1 3 false false, []⟩] :=
  reverse_cli_step ⟨[⟨"gene", .ranged 0 2 false false, []⟩], [65, 67, 71]⟩

end Gts.C05
