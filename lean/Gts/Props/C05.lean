/-
  C05 — Reverse and Complement mirror coordinates; reverse-complement preserves meaning.
  Property theorems only.
-/
import Gts.Lemmas.Reverse
import Gts.Lemmas.Table
import Gts.Model.SeqNuc
import Gts.Props.C18
namespace Gts.C05
open Gts Loc

/-- residues are flipped -/
theorem reverse_bytes (s : Seq) : s.reverse.bytes = s.bytes.reverse := rfl

/-- no feature is lost or duplicated by `gts.Reverse`; each is re-located by `Reverse(len)` -/
theorem reverse_table_perm (s : Seq) :
    s.reverse.feats.Perm (s.feats.map fun f => { f with loc := f.loc.reverse s.len }) := by
  unfold Seq.reverse
  simpa using Table.insertAll_perm [] (s.feats.map fun f => { f with loc := f.loc.reverse s.len })

/-- FULL STATEMENT, between-sites (false today, known finding K1, pinned by TestLocationReverse):
the site between residues g-1 and g must map to the site between L-g-1 and L-g, i.e.
`reverse (between g) L = between (L - g)`; the code yields `between (L - 1 - g)`. -/
theorem between_reverse_full_refuted : ¬ (∀ g L : Int, reverse (between g) L = between (L - g)) := by
  intro h
  have := h 0 10
  simp [reverse] at this

/-- what the code does on a between-site (bug-for-bug) -/
theorem between_reverse_model (g L : Int) : reverse (between g) L = between (L - 1 - g) := rfl

/-- FULL STATEMENT for residues (false today through known finding K2 in `Join`) -/
theorem reverse_den_full_refuted :
    ¬ (∀ (l : Loc) (L : Int), wf l = true → den (reverse l L) ≼ mirrorDen L (den l)) := by
  intro h
  have := (h (joined [point 0, ranged 1 2 false false]) 5 (by decide)).2 (4, false) (by decide)
  revert this
  decide

/-- **Reverse, every kind and arity**: for every well-formed location (joins and orders of any
number of parts, odd or even, nested under complement), the reversed location denotes the
mirrored residues `L-1-x` in mirrored order on the same strand — no part is lost — provided
rule K2 does not fire.  (A between-site denotes no residue; its own law is K1 above.) -/
theorem reverse_den_partial (l : Loc) (L : Int) (hw : wf l = true) (hk2 : reverseAbs l L = false) :
    den (reverse l L) ≼ mirrorDen L (den l) := (reverse_mirror l L hw).1 hk2

/-- set form: residue `x` is denoted before iff `L-1-x` is denoted after (same strand) -/
theorem reverse_mem_partial (l : Loc) (L : Int) (hw : wf l = true) (hk2 : reverseAbs l L = false)
    (x : Int) (r : Bool) :
    (x, r) ∈ den l ↔ (L - 1 - x, r) ∈ den (reverse l L) := by
  have h := reverse_den_partial l L hw hk2
  constructor
  · intro hx
    apply h.2
    simp only [mirrorDen, mapPos, List.mem_reverse, List.mem_map]
    exact ⟨(x, r), hx, rfl⟩
  · intro hx
    have := h.1.subset hx
    simp only [mirrorDen, mapPos, List.mem_reverse, List.mem_map] at this
    obtain ⟨p, hp, he⟩ := this
    have h1 : p.1 = x := by
      have := (Prod.mk.inj he).1
      simp only [mirrorMap] at this; omega
    have h2 : p.2 = r := (Prod.mk.inj he).2
    rw [← h1, ← h2]; exact hp

/-- 5'/3' partial markers swap ends on a range -/
theorem ranged_reverse_flags (s e : Int) (p5 p3 : Bool) (L : Int) :
    reverse (ranged s e p5 p3) L = ranged (L - e) (L - s) p3 p5 := rfl

/-- Reverse is an involution on every contiguous kind (also on between-sites, K1 notwithstanding) -/
theorem reverse_involutive_contig (L : Int) :
    (∀ p, reverse (reverse (point p) L) L = point p) ∧
    (∀ p, reverse (reverse (between p) L) L = between p) ∧
    (∀ s e a b, reverse (reverse (ranged s e a b) L) L = ranged s e a b) ∧
    (∀ s e, reverse (reverse (ambiguous s e) L) L = ambiguous s e) := by
  refine ⟨?_, ?_, ?_, ?_⟩ <;> intros <;> simp [reverse, rangedReverse] <;> omega

/-- `Complement` is an involution on every location that is not a double complement literal -/
theorem complement_involutive (l : Loc) (h : ∀ x, l ≠ compl (compl x)) :
    complement (complement l) = l := by
  cases l with
  | compl x =>
    cases x with
    | compl y => exact absurd rfl (h y)
    | _ => simp [complement]
  | _ => simp [complement]

/-- **Reverse-complement preserves meaning** (coordinate part): the location
`complement(reverse l)` reads position `L-1-x` on the opposite strand wherever `l` read `x`, in
the same order — which is residue `x` of the original read through the reverse-complemented
record. -/
theorem revcomp_den_partial (l : Loc) (L : Int) (hw : wf l = true) (hk2 : reverseAbs l L = false) :
    den (compl (reverse l L)) ≼ (den l).map (fun p => (L - 1 - p.1, !p.2)) := by
  have h := (reverse_den_partial l L hw hk2).flip
  have e : flipDen (mirrorDen L (den l)) = (den l).map (fun p => (L - 1 - p.1, !p.2)) := by
    simp [flipDen, mirrorDen, mapPos, mirrorMap, List.map_reverse, Function.comp_def]
  rw [e] at h
  simpa using h

/-- non-vacuity: an odd-arity complement-strand join satisfies the hypotheses -/
example : wf (compl (joined [ranged 0 2 true false, ranged 4 6 false false, ranged 8 10 false true])) = true ∧
    reverseAbs (compl (joined [ranged 0 2 true false, ranged 4 6 false false, ranged 8 10 false true])) 12 = false := by
  decide

/-! ### sequence level: `gts.Complement` and `gts.Reverse(gts.Complement(·))` -/

/-- `Location.Complement` flips the strand of everything a location denotes — for EVERY
location, a wrapped one (`complement(x)` ↦ `x`) as well as an unwrapped one of any kind
(ranges, points, `a.b` ambiguous spans, joins, orders) -/
theorem den_complement (l : Loc) : den (complement l) = flipDen (den l) := by
  cases l <;> simp [complement, den, flipDen_flipDen]

/-- **`gts.Complement` on a record** never panics, complements every residue through the table,
and passes EVERY feature location (whatever its kind) through `Location.Complement`, keeping
keys, qualifiers and table order. -/
theorem seq_complement_total (s : Seq) :
    s.complementRec = some ⟨s.feats.map fun f => { f with loc := f.loc.complement },
                         s.bytes.map Nuc.complementByte⟩ := by
  simp [Seq.complementRec, C18.complement_bytewise]

/-- the reverse-complemented record: residues complemented and flipped, no feature lost or
duplicated, every feature re-located by `Complement` then `Reverse(len)` -/
theorem seq_revcomp (s : Seq) :
    ∃ r, s.revcompRec = some r ∧ r.bytes = (s.bytes.map Nuc.complementByte).reverse ∧
      r.feats.Perm (s.feats.map fun f => { f with loc := (f.loc.complement).reverse s.len }) := by
  refine ⟨(⟨s.feats.map fun f => { f with loc := f.loc.complement },
      s.bytes.map Nuc.complementByte⟩ : Seq).reverse, by simp [Seq.revcompRec, seq_complement_total], rfl, ?_⟩
  have h := reverse_table_perm
    ⟨s.feats.map fun f => { f with loc := f.loc.complement }, s.bytes.map Nuc.complementByte⟩
  simpa [Seq.len, Function.comp_def] using h

/-- **every feature of the reverse-complemented record denotes what it denoted before**: the
location `reverse (complement l) L` reads position `L-1-x` on the opposite strand wherever `l`
read `x`, in the same order (K2 guard on the complemented location). -/
theorem seq_revcomp_den_partial (l : Loc) (L : Int) (hw : wf (complement l) = true)
    (hk2 : reverseAbs (complement l) L = false) :
    den (reverse (complement l) L) ≼ (den l).map (fun p => (L - 1 - p.1, !p.2)) := by
  have h := reverse_den_partial (complement l) L hw hk2
  rw [den_complement] at h
  have e : mirrorDen L (flipDen (den l)) = (den l).map (fun p => (L - 1 - p.1, !p.2)) := by
    simp [flipDen, mirrorDen, mapPos, mirrorMap, List.map_reverse, Function.comp_def]
  rwa [e] at h

/-- non-vacuity: a top-level ambiguous span and a complemented join meet the hypotheses -/
example : wf (complement (ambiguous 5 9)) = true ∧ reverseAbs (complement (ambiguous 5 9)) 16 = false ∧
    wf (complement (compl (joined [ranged 0 2 true false, ranged 4 6 false false]))) = true ∧
    reverseAbs (complement (compl (joined [ranged 0 2 true false, ranged 4 6 false false]))) 12 = false := by
  decide

end Gts.C05
