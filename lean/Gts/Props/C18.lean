/-
  C18 — Alphabet operations follow IUPAC semantics; search is sound and complete.
  Property theorems only (helper lemmas live in Gts/Lemmas/Nuc.lean).

  Model: Gts/Model/Nuc.lean over the tables regenerated from nucleotide.go (Gts/Gen/Nucleotide.lean).
  Meaning: Gts/Spec/Iupac.lean (base sets as 4-bit masks).
  All finite statements are decided in the kernel over all 256 byte values / all 32 × 32 letter
  pairs; the statements about Search and Match hold for all sequences and queries (induction).
-/
import Gts.Lemmas.Nuc
namespace Gts.C18
open Gts Gts.Reg Gts.Nuc Gts.Iupac

/-! ## Complement / Transcribe -/

/-- `Complement` never panics in `replaceBytes` (the two alphabets have matching positions) and
acts byte by byte. -/
theorem complement_bytewise (p : List UInt8) : complementBytes p = some (p.map complementByte) :=
  replaceBytes_eq_map p _ _ (forall_uint8 (by decide +kernel))

/-- the same for `Transcribe` -/
theorem transcribe_bytewise (p : List UInt8) : transcribeBytes p = some (p.map transcribeByte) :=
  replaceBytes_eq_map p _ _ (forall_uint8 (by decide +kernel))

/-- Complementing maps every IUPAC letter, of either case, to the letter of the same case that
denotes the complementary base set (T, not U, for the complement of A). -/
theorem complement_letter : ∀ c : UInt8, isLetter c = true →
    complementByte c = letterOf (complementSet (baseSet c)) (isUpper c) false :=
  forall_uint8 (by decide +kernel)

/-- … said with sets only: the image is a letter, its base set is the complementary set, its case
is the case of the argument.  (W, S, N are absent from the code's alphabets; they denote
self-complementary sets, so leaving them alone is correct — this theorem covers them.) -/
theorem complement_baseSet : ∀ c : UInt8, isLetter c = true →
    isLetter (complementByte c) = true ∧
    baseSet (complementByte c) = complementSet (baseSet c) ∧
    isUpper (complementByte c) = isUpper c :=
  forall_uint8 (by decide +kernel)

/-- Complementing leaves every byte that is not an IUPAC letter unchanged. -/
theorem complement_other : ∀ c : UInt8, isLetter c = false → complementByte c = c :=
  forall_uint8 (by decide +kernel)

/-- Complementing preserves the length. -/
theorem complement_length (p q : List UInt8) (h : complementBytes p = some q) : q.length = p.length :=
  replaceBytes_length p _ _ q h

/-- Transcribing preserves the length. -/
theorem transcribe_length (p q : List UInt8) (h : transcribeBytes p = some q) : q.length = p.length :=
  replaceBytes_length p _ _ q h

/-- Complementing twice gives the byte back, except that U comes back as T (U → A → T). -/
theorem complement_involution_upto_U : ∀ c : UInt8,
    complementByte (complementByte c) = if c = 85 then 84 else if c = 117 then 116 else c :=
  forall_uint8 (by decide +kernel)

/-- … for whole sequences: complementing twice is the identity up to writing T for U; in
particular it is the identity on sequences without U, and always on the denoted base sets. -/
theorem complement_involution (p : List UInt8) :
    (complementBytes p).bind complementBytes =
      some (p.map fun c => if c = 85 then 84 else if c = 117 then 116 else c) := by
  rw [complement_bytewise, Option.bind_some, complement_bytewise, List.map_map]
  congr 1
  apply List.map_congr_left
  intro c _
  exact complement_involution_upto_U c

/-- complementing twice never changes the denoted base set of any byte -/
theorem complement_involution_baseSet : ∀ c : UInt8,
    baseSet (complementByte (complementByte c)) = baseSet c :=
  forall_uint8 (by decide +kernel)

/-- Transcribing differs from complementing only in writing U (u) for the complement of A (a). -/
theorem transcribe_differs_only_at_A : ∀ c : UInt8,
    transcribeByte c = if c = 65 then 85 else if c = 97 then 117 else complementByte c :=
  forall_uint8 (by decide +kernel)

/-- … hence transcription too maps letters to the letter of the complementary set (U for {T}),
and fixes every other byte. -/
theorem transcribe_letter : ∀ c : UInt8,
    transcribeByte c =
      if isLetter c then letterOf (complementSet (baseSet c)) (isUpper c) (c = 65 ∨ c = 97) else c :=
  forall_uint8 (by decide +kernel)

/-! ### the specification is not vacuous -/

/-- `letterOf` really names the set it is given (all 15 non-empty sets, both cases, DNA and RNA),
and the letters are exactly the 32 listed bytes. -/
theorem spec_letterOf : ∀ m, m < 16 → m ≠ 0 → ∀ up rna : Bool,
    baseSet (letterOf m up rna) = m ∧ isUpper (letterOf m up rna) = up := by decide +kernel

/-- the complementary set: an involution on masks that swaps A↔T and C↔G -/
theorem spec_complementSet : (∀ m, m < 16 → complementSet (complementSet m) = m) ∧
    complementSet bA = bT ∧ complementSet bC = bG ∧ complementSet bG = bC ∧ complementSet bT = bA ∧
    (∀ a, a < 16 → ∀ b, b < 16 → complementSet (a ||| b) = complementSet a ||| complementSet b) := by
  decide +kernel

/-- `letters` enumerates `isLetter` -/
theorem spec_letters : ∀ c : UInt8, isLetter c = true ↔ c ∈ letters :=
  forall_uint8 (by decide +kernel)

example : complementBytes [65, 99, 78, 45, 85, 107] = some [84, 103, 78, 45, 65, 109] := by decide  -- "AcN-Uk" ↦ "TgN-Am"
example : transcribeBytes [65, 99, 78, 45, 85, 107] = some [85, 103, 78, 45, 65, 109] := by decide  -- ↦ "UgN-Am"

/-! ## Match: the table -/

/-- FULL STATEMENT (false today, known finding K4): for all query letters `q` and sequence
letters `s` of either case, the pattern position built for `q` accepts `s` exactly when the base
set of `s` is contained in the base set of `q`:
      `∀ q ∈ letters, ∀ s ∈ letters, posMatch q s = subset (baseSet s) (baseSet q)`.
Refuted by the row of K, which is `[gtuy]` in nucleotide.go (pinned by TestMatch): the query `k`
does not accept the sequence letter `k`, and accepts `y` = {C,T} ⊄ {G,T}. -/
theorem match_table_full_refuted :
    ¬ (∀ q ∈ letters, ∀ s ∈ letters, posMatch q s = subset (baseSet s) (baseSet q)) := by
  intro h
  have := h 107 (by decide) 107 (by decide)
  revert this
  decide

/-- the two wrong entries of row K, concretely (both are replayed on the real code as K4) -/
theorem match_row_k_witnesses :
    posMatch 107 107 = false ∧ subset (baseSet 107) (baseSet 107) = true ∧
    posMatch 107 121 = true ∧ subset (baseSet 121) (baseSet 107) = false := by decide

/-- Match table, every row but K (guard `lowerByte q ≠ 'k'` excludes exactly the case clause
`case 'k'` of the switch): the pattern position built for the query letter accepts a sequence
letter iff the sequence letter's base set is contained in the query letter's — all 30 × 32
remaining pairs of letters of either case. -/
theorem match_table_partial :
    ∀ q ∈ letters, ∀ s ∈ letters, lowerByte q ≠ 107 →
      posMatch q s = subset (baseSet s) (baseSet q) := by decide +kernel

/-- inside the excluded row exactly the entries for the sequence letters K and Y are wrong -/
theorem match_table_row_k :
    ∀ q ∈ letters, ∀ s ∈ letters, lowerByte q = 107 →
      (posMatch q s = subset (baseSet s) (baseSet q) ↔ (lowerByte s ≠ 107 ∧ lowerByte s ≠ 121)) := by
  decide +kernel

/-- A query byte outside the alphabet contributes a literal: the (lower-cased) byte itself,
never pattern syntax … -/
theorem match_literal : ∀ q : UInt8, isLetter q = false → patOf (lowerByte q) = .lit (lowerByte q) :=
  forall_uint8 (by decide +kernel)

/-- … so it matches only itself (up to case, as both sides are lower-cased first). -/
theorem match_literal_only_itself (q s : UInt8) (h : isLetter q = false) :
    posMatch q s = true ↔ lowerByte s = lowerByte q := by
  simp [posMatch, match_literal q h, Pat.accepts]

/-- No query makes the model leave the modelled pattern language (no position is raw pattern
syntax; in the code: `regexp.MustCompile` cannot panic and no byte acts as an operator). -/
theorem match_never_raw (query : List UInt8) : matchModelled query = true := by
  have h : ∀ c : UInt8, (patOf c != Pat.bad) = true := forall_uint8 (by decide +kernel)
  simp only [matchModelled, pattern, List.all_map, List.all_eq_true]
  intro c _
  exact h _

/-! ## Search -/

/-- `query` occurs in `seq` at offset `i`, ignoring ASCII case -/
def Occurs (seq query : List UInt8) (i : Nat) : Prop :=
  i + query.length ≤ seq.length ∧ toLower (window seq i query.length) = toLower query

instance (seq query : List UInt8) (i : Nat) : Decidable (Occurs seq query i) := by
  unfold Occurs; infer_instance

/-- "ignoring case" means what it should: two bytes have the same lower-case form iff they are
equal or the two cases of one ASCII letter. -/
theorem lower_eq_iff_foldEq (a b : UInt8) : lowerByte a = lowerByte b ↔ foldEq a b = true := by
  have hl : ∀ c : UInt8, (isUpper c = true → (lowerByte c).toNat = c.toNat + 32) ∧
      (isUpper c = false → lowerByte c = c) ∧ isUpper (lowerByte c) = false :=
    forall_uint8 (by decide +kernel)
  obtain ⟨a1, a2, a3⟩ := hl a
  obtain ⟨b1, b2, b3⟩ := hl b
  have hup : ∀ c : UInt8, isUpper c = true → 65 ≤ c.toNat ∧ c.toNat ≤ 90 := by
    intro c h; simpa [isUpper] using h
  simp only [foldEq, Bool.or_eq_true, Bool.and_eq_true, beq_iff_eq]
  constructor
  · intro h
    cases ha : isUpper a <;> cases hb : isUpper b
    · left; left; rw [← a2 ha, ← b2 hb]; exact h
    · right; refine ⟨rfl, ?_⟩
      rw [← a2 ha, h]; exact b1 hb
    · left; right; refine ⟨rfl, ?_⟩
      rw [← b2 hb, ← h]; exact a1 ha
    · left; left
      have := congrArg UInt8.toNat h
      rw [a1 ha, b1 hb] at this
      exact UInt8.toNat_inj.1 (by omega)
  · rintro ((rfl | ⟨ha, h⟩) | ⟨hb, h⟩)
    · rfl
    · have hb : isUpper b = false := by
        have := hup a ha
        cases hb : isUpper b
        · rfl
        · have := hup b hb; omega
      rw [b2 hb]; exact UInt8.toNat_inj.1 (by rw [a1 ha, h])
    · have ha : isUpper a = false := by
        have := hup b hb
        cases ha : isUpper a
        · rfl
        · have := hup a ha; omega
      rw [a2 ha]; exact UInt8.toNat_inj.1 (by rw [b1 hb, h])

/-- `Search` returns nothing for an empty sequence or an empty query (the early `return nil`). -/
theorem search_empty (seq query : List UInt8) (h : seq = [] ∨ query = []) : search seq query = [] := by
  rcases h with rfl | rfl <;> simp [search]

/-- Soundness of `Search`: every reported segment is `[i, i+|query|)` for an offset `i` at which
the query occurs case-insensitively. -/
theorem search_sound (seq query : List UInt8) :
    ∀ seg ∈ search seq query, ∃ i, seg = toSeg query.length i ∧ Occurs seq query i := by
  intro seg hseg
  by_cases hs : seq = []
  · rw [search_empty _ _ (Or.inl hs)] at hseg; cases hseg
  by_cases hq : query = []
  · rw [search_empty _ _ (Or.inr hq)] at hseg; cases hseg
  rw [search_eq seq query hs hq] at hseg
  obtain ⟨i, hi, rfl⟩ := List.mem_map.1 hseg
  obtain ⟨j, rfl, hj, hpre⟩ := (mem_occ _ _ _ _).1 hi
  refine ⟨0 + j, rfl, ?_⟩
  obtain ⟨hlen, hwin⟩ := (isPrefixOf_drop_iff _ _ _).1 hpre
  have hq' : toLower query ≠ [] := by simpa [toLower] using hq
  rw [toLower_length] at hlen hwin
  rw [toLower_length] at hlen
  refine ⟨?_, ?_⟩
  · rcases hlen with h | h
    · omega
    · exact absurd h hq'
  · rw [toLower_window]; simpa using hwin

/-- Completeness of `Search`: every case-insensitive occurrence of a non-empty query —
overlapping ones included — is reported. -/
theorem search_complete (seq query : List UInt8) (hq : query ≠ []) (i : Nat)
    (h : Occurs seq query i) : toSeg query.length i ∈ search seq query := by
  obtain ⟨hlen, hwin⟩ := h
  have hqpos : 0 < query.length := List.length_pos_iff.2 hq
  have hs : seq ≠ [] := by intro h; subst h; rw [List.length_nil] at hlen; omega
  rw [search_eq seq query hs hq]
  refine List.mem_map.2 ⟨i, ?_, rfl⟩
  refine (mem_occ _ _ _ _).2 ⟨i, by omega, by rw [toLower_length]; omega, ?_⟩
  refine (isPrefixOf_drop_iff _ _ _).2 ⟨Or.inl (by simp only [toLower_length]; omega), ?_⟩
  rw [toLower_length, ← toLower_window]; exact hwin

/-- `Search` reports in strictly ascending order of the start offset (hence no duplicates). -/
theorem search_ascending (seq query : List UInt8) :
    (search seq query).Pairwise (fun x y => x.1 < y.1) := by
  by_cases hs : seq = []
  · rw [search_empty _ _ (Or.inl hs)]; exact List.Pairwise.nil
  by_cases hq : query = []
  · rw [search_empty _ _ (Or.inr hq)]; exact List.Pairwise.nil
  rw [search_eq seq query hs hq, List.pairwise_map]
  exact (occ_pairwise _ _ _).imp (fun {a b} hab => by simp only [toSeg]; omega)

/-! ## Match: the scan -/

/-- the window of `seq` at offset `i` is matched by `query`, position by position -/
def MatchesAt (seq query : List UInt8) (i : Nat) : Prop :=
  i + query.length ≤ seq.length ∧ pointwise posMatch query (window seq i query.length) = true

instance (seq query : List UInt8) (i : Nat) : Decidable (MatchesAt seq query i) := by
  unfold MatchesAt; infer_instance

private theorem matchAt_drop (seq query : List UInt8) (j : Nat) (hj : j < seq.length) :
    matchAt (pattern query) ((toLower seq).drop j) = true ↔ MatchesAt seq query j := by
  have : (toLower seq).drop j = toLower (seq.drop j) := by simp [toLower, List.map_drop]
  rw [this, matchAt_pattern]
  simp only [MatchesAt, window, List.length_drop]
  constructor
  · rintro ⟨h1, h2⟩; exact ⟨by omega, h2⟩
  · rintro ⟨h1, h2⟩; exact ⟨by omega, h2⟩

/-- `Match` returns nothing for an empty sequence or an empty query. -/
theorem match_empty (seq query : List UInt8) (h : seq = [] ∨ query = []) : matchSegs seq query = [] := by
  rcases h with rfl | rfl <;> simp [matchSegs]

/-- Soundness of `Match`: every reported segment is a window `[i, i+|query|)` inside the sequence
in which every sequence byte is accepted by the pattern position of its query byte. -/
theorem match_sound (seq query : List UInt8) :
    ∀ seg ∈ matchSegs seq query, ∃ i, seg = toSeg query.length i ∧ MatchesAt seq query i := by
  intro seg hseg
  by_cases hs : seq = []
  · rw [match_empty _ _ (Or.inl hs)] at hseg; cases hseg
  by_cases hq : query = []
  · rw [match_empty _ _ (Or.inr hq)] at hseg; cases hseg
  rw [matchSegs_eq seq query hs hq] at hseg
  obtain ⟨i, hi, rfl⟩ := List.mem_map.1 hseg
  obtain ⟨j, rfl, _, hj, hm⟩ := scan_sound _ _ _ _ i hi
  rw [toLower_length] at hj
  exact ⟨0 + j, rfl, by simpa using (matchAt_drop seq query j hj).1 hm⟩

/-- Completeness of `Match` up to overlap: every matching window of a non-empty query is
reported, or starts inside a reported window that begins before it. -/
theorem match_complete_nonoverlapping (seq query : List UInt8) (hq : query ≠ []) (i : Nat)
    (h : MatchesAt seq query i) :
    ∃ a, toSeg query.length a ∈ matchSegs seq query ∧ a ≤ i ∧ i < a + query.length := by
  have hqpos : 0 < query.length := List.length_pos_iff.2 hq
  have hi : i < seq.length := by have := h.1; omega
  have hs : seq ≠ [] := by intro h; subst h; simp at hi
  have hp : 0 < (pattern query).length := by rw [pattern_length]; exact hqpos
  obtain ⟨a, ha, h1, h2⟩ := scan_complete (pattern query) hp (toLower seq) 0 0 i (Nat.zero_le _)
    (by rw [toLower_length]; exact hi) ((matchAt_drop seq query i hi).2 h)
  rw [pattern_length] at h2
  refine ⟨a, ?_, by omega, by omega⟩
  rw [matchSegs_eq seq query hs hq]
  exact List.mem_map.2 ⟨a, ha, rfl⟩

/-- … in the wording of the property: a matching window that does not overlap an earlier
reported one is itself reported. -/
theorem match_complete_leftmost (seq query : List UInt8) (hq : query ≠ []) (i : Nat)
    (h : MatchesAt seq query i)
    (hfree : ∀ a, toSeg query.length a ∈ matchSegs seq query → ¬ (a < i ∧ i < a + query.length)) :
    toSeg query.length i ∈ matchSegs seq query := by
  obtain ⟨a, ha, h1, h2⟩ := match_complete_nonoverlapping seq query hq i h
  by_cases hai : a = i
  · subst hai; exact ha
  · exact absurd ⟨by omega, h2⟩ (hfree a ha)

/-- Reported windows are ascending and pairwise disjoint. -/
theorem match_ascending_disjoint (seq query : List UInt8) :
    (matchSegs seq query).Pairwise (fun x y => x.2 ≤ y.1) := by
  by_cases hs : seq = []
  · rw [match_empty _ _ (Or.inl hs)]; exact List.Pairwise.nil
  by_cases hq : query = []
  · rw [match_empty _ _ (Or.inr hq)]; exact List.Pairwise.nil
  have hp : 0 < (pattern query).length := by rw [pattern_length]; exact List.length_pos_iff.2 hq
  rw [matchSegs_eq seq query hs hq, List.pairwise_map]
  refine (scan_pairwise _ hp _ _ _).imp (fun {a b} hab => ?_)
  rw [pattern_length] at hab
  simp only [toSeg]; omega

/-- the meaning-level relation of the property: the sequence letter's base set is contained in
the query letter's base set -/
def contained (q s : UInt8) : Bool := subset (baseSet s) (baseSet q)

/-- `Match` in terms of base sets (guard: the query has no K/k — known finding K4): on IUPAC
sequences and queries a window matches exactly when every sequence letter's base set is
contained in the query letter's. -/
theorem matchesAt_iff_contained_partial (seq query : List UInt8)
    (hseq : ∀ c ∈ seq, isLetter c = true) (hquery : ∀ c ∈ query, isLetter c = true)
    (hk : ∀ c ∈ query, lowerByte c ≠ 107) (i : Nat) :
    MatchesAt seq query i ↔
      (i + query.length ≤ seq.length ∧ pointwise contained query (window seq i query.length) = true) := by
  unfold MatchesAt
  rw [pointwise_congr posMatch contained query (window seq i query.length)]
  intro q hqm s hsm
  exact match_table_partial q ((spec_letters q).1 (hquery q hqm)) s
    ((spec_letters s).1 (hseq s (mem_window hsm))) (hk q hqm)

/-- Soundness in terms of base sets (guard: no K/k in the query). -/
theorem match_sound_iupac_partial (seq query : List UInt8)
    (hseq : ∀ c ∈ seq, isLetter c = true) (hquery : ∀ c ∈ query, isLetter c = true)
    (hk : ∀ c ∈ query, lowerByte c ≠ 107) :
    ∀ seg ∈ matchSegs seq query, ∃ i, seg = toSeg query.length i ∧ i + query.length ≤ seq.length ∧
      pointwise contained query (window seq i query.length) = true := by
  intro seg hseg
  obtain ⟨i, rfl, h⟩ := match_sound seq query seg hseg
  exact ⟨i, rfl, (matchesAt_iff_contained_partial seq query hseq hquery hk i).1 h⟩

/-- Completeness up to overlap in terms of base sets (guard: no K/k in the query). -/
theorem match_complete_iupac_partial (seq query : List UInt8) (hq : query ≠ [])
    (hseq : ∀ c ∈ seq, isLetter c = true) (hquery : ∀ c ∈ query, isLetter c = true)
    (hk : ∀ c ∈ query, lowerByte c ≠ 107) (i : Nat) (hi : i + query.length ≤ seq.length)
    (h : pointwise contained query (window seq i query.length) = true) :
    ∃ a, toSeg query.length a ∈ matchSegs seq query ∧ a ≤ i ∧ i < a + query.length :=
  match_complete_nonoverlapping seq query hq i
    ((matchesAt_iff_contained_partial seq query hseq hquery hk i).2 ⟨hi, h⟩)

/-! ### non-vacuity -/

-- "aAaa" contains "aa" three times, overlapping; Search reports all, Match the leftmost disjoint two
example : search [97, 65, 97, 97] [97, 97] = [(0, 2), (1, 3), (2, 4)] := by decide
example : matchSegs [97, 65, 97, 97] [97, 97] = [(0, 2), (2, 4)] := by decide
example : Occurs [97, 65, 97, 97] [97, 97] 1 := by decide
-- query "rn" on "cgtAC": windows "gt" and "AC"
example : matchSegs [99, 103, 116, 65, 67] [114, 110] = [(1, 3), (3, 5)] := by decide
example : MatchesAt [99, 103, 116, 65, 67] [114, 110] 3 := by decide
-- the hypotheses of the `_iupac_partial` theorems are satisfiable
example : (∀ c ∈ [99, 103, 116, 65, 67], isLetter c = true) ∧ (∀ c ∈ [114, 110], isLetter c = true)
    ∧ (∀ c ∈ [114, 110], lowerByte c ≠ 107) := by decide
-- a regexp metacharacter in the query is a literal: "[" finds "[" and nothing else, "." finds nothing in "a[c"
example : matchSegs [97, 91, 99] [91] = [(1, 2)] := by decide
example : matchSegs [97, 91, 99] [46] = [] := by decide

end Gts.C18
