/-
  C10 — Edits are invertible: delete undoes insert/embed, concat undoes split.
  Property theorems only.
-/
import Gts.Lemmas.Embed
import Gts.Lemmas.Delete
import Gts.Model.Seq
import Gts.Lemmas.Window
import Gts.Lemmas.ConcatPieces
import Gts.Lemmas.Guest
import Gts.Lemmas.Record
import Gts.Props.C02
import Gts.Lemmas.MarksInv
import Gts.Lemmas.MarkGuardOps
import Gts.Lemmas.MarkGuardEmbed
import Gts.Bridge.SeqInsert
import Gts.Bridge.SeqDelete
import Gts.Bridge.SeqConcat
namespace Gts.C10
open Gts Loc

/-- deleting the inserted residues restores the host's residues (for an index inside the host) -/
theorem delete_insert_bytes (host guest : Gts.Seq) (i : Int) (h0 : 0 ≤ i) (h1 : i ≤ host.len) :
    ((host.insert i guest).delete i guest.len).bytes = host.bytes := by
  have hi : i.toNat ≤ host.bytes.length := by unfold Seq.len at h1; omega
  simp only [Seq.delete, Seq.insert, Seq.spliceBytes, Seq.len]
  have e1 : (i + (guest.bytes.length : Int)).toNat = i.toNat + guest.bytes.length := by omega
  rw [e1]
  have t1 : List.take i.toNat (List.take i.toNat host.bytes ++ guest.bytes ++ List.drop i.toNat host.bytes)
      = List.take i.toNat host.bytes := by
    rw [List.append_assoc, List.take_append_of_le_length (by rw [List.length_take]; omega)]
    rw [List.take_take]; simp
  have t2 : List.drop (i.toNat + guest.bytes.length)
      (List.take i.toNat host.bytes ++ guest.bytes ++ List.drop i.toNat host.bytes) = List.drop i.toNat host.bytes := by
    have hl : (List.take i.toNat host.bytes ++ guest.bytes).length = i.toNat + guest.bytes.length := by
      simp; omega
    rw [← hl, List.drop_left]
  rw [t1, t2, List.take_append_drop]

theorem delMap_insMap (i n x : Int) (hn : 0 ≤ n) : delMap i n (insMap i n x) = some x := by
  unfold delMap insMap
  by_cases h : x < i
  · simp [h]
  · have h1 : ¬ x + n < i := by omega
    have h2 : ¬ x + n < i + n := by omega
    simp [h, h1, h2]

theorem filterMapPos_mapPos_inv (i n : Int) (hn : 0 ≤ n) (d : List Pos) :
    filterMapPos (delMap i n) (mapPos (insMap i n) d) = d := by
  induction d with
  | nil => rfl
  | cons p ps ih =>
    simp only [filterMapPos, mapPos, List.map_cons, List.filterMap_cons] at ih ⊢
    rw [delMap_insMap i n p.1 hn]
    simp [ih]

/-- **insert;delete** on every location: the result denotes exactly the original residues (same
order, strand), for every well-formed location, index and guest length, unless K2 fires in one
of the two steps. -/
theorem shift_then_delete_den_partial (l : Loc) (i n : Int) (hw : wf l = true) (hn : 0 < n)
    (h1 : shiftAbs l i n = false) (h2 : expandAbs (shift l i n) i (-n) = false) :
    den (expand (shift l i n) i (-n)) ≼ den l := by
  have a := (shift_ins l i n hw (by omega))
  have b := (expand_del (shift l i n) i n a.2 hn).1 h2
  have c := filterMapPos_refines (delMap i n) (a.1 h1)
  rw [filterMapPos_mapPos_inv i n (by omega)] at c
  exact b.trans c

/-- **embed;delete** on every location -/
theorem embed_then_delete_den_partial (l : Loc) (i n : Int) (hw : wf l = true) (hn : 0 < n)
    (h1 : expandAbs l i n = false) (h2 : expandAbs (expand l i n) i (-n) = false) :
    den (expand (expand l i n) i (-n)) ≼ den l := by
  have a := (expand_ins l i n hw (by omega))
  have b := (expand_del (expand l i n) i n a.2 hn).1 h2
  -- deleting [i,i+n) removes exactly the guest residues that a spanning part covered
  have key : ∀ d : List Pos, filterMapPos (delMap i n) d = filterMapPos (delMap i n) (stripGuest i n d) := by
    intro d
    induction d with
    | nil => rfl
    | cons p ps ih =>
      simp only [filterMapPos, stripGuest, List.filter_cons, List.filterMap_cons] at ih ⊢
      by_cases hp : p.1 < i ∨ i + n ≤ p.1
      · simp only [hp, decide_true, if_true, List.filterMap_cons]
        rw [ih]
      · have hd : delMap i n p.1 = none := by
          unfold delMap; rw [if_neg (by omega), if_pos (by omega)]
        simp only [hp, decide_false, hd, Option.map_none]
        simpa using ih
  have c := filterMapPos_refines (delMap i n) (a.1 h1)
  rw [filterMapPos_mapPos_inv i n (by omega), ← key] at c
  exact b.trans c

/-- contiguous kinds: insert;delete is the *syntactic* identity, partial markers included (the
join created by the split re-merges through the forced merge of abutting ranges) -/
theorem ranged_shift_then_delete (s e : Int) (p5 p3 : Bool) (i n : Int) (h : s < e) (hn : 0 < n) :
    expand (shift (ranged s e p5 p3) i n) i (-n) = ranged s e p5 p3 := by
  simp only [shift, rangedShift]
  rw [if_neg (by omega), if_neg (by omega)]
  by_cases hs : s < i ∧ i < e
  · rw [if_pos hs, join_two_ranged_ne _ _ _ _ _ _ _ _ (by omega)]
    have a1 : delStart s i n = s := by unfold delStart; split <;> omega
    have a2 : delEnd i i n = i := by unfold delEnd; split <;> omega
    have a3 : delStart (i + n) i n = i := by unfold delStart; split <;> omega
    have a4 : delEnd (e + n) i n = e := by unfold delEnd; split <;> omega
    have f1 : ¬ (i ≤ s ∧ s < i + n) := by omega
    have f2 : ¬ (i < i ∧ i ≤ i + n) := by omega
    have f3 : ¬ (i ≤ i + n ∧ i + n < i + n) := by omega
    have f4 : ¬ (i < e + n ∧ e + n ≤ i + n) := by omega
    have l1 : rangedExpand s i p5 false i (-n) = ranged s i p5 false := by
      rw [rangedExpand_del_eq _ _ _ _ _ _ hn, a1, a2, if_neg (by omega)]
      simp only [f1, f2, if_false]
    have l2 : rangedExpand (i + n) (e + n) false p3 i (-n) = ranged i e false p3 := by
      rw [rangedExpand_del_eq _ _ _ _ _ _ hn, a3, a4, if_neg (by omega)]
      simp only [f3, f4, if_false]
    simp only [expand, expandList, l1, l2]
    exact join_two_ranged_abut s i e p5 false false p3
  · rw [if_neg hs]
    by_cases h1 : i ≤ s
    · have a1 : delStart (s + n) i n = s := by unfold delStart; split <;> omega
      have a2 : delEnd (e + n) i n = e := by unfold delEnd; split <;> omega
      have f1 : ¬ (i ≤ s + n ∧ s + n < i + n) := by omega
      have f2 : ¬ (i < e + n ∧ e + n ≤ i + n) := by omega
      rw [if_pos h1, if_pos (by omega)]
      simp only [expand]
      rw [rangedExpand_del_eq _ _ _ _ _ _ hn, a1, a2, if_neg (by omega)]
      simp only [f1, f2, if_false]
    · have he : e ≤ i := by omega
      have a1 : delStart s i n = s := by unfold delStart; split <;> omega
      have a2 : delEnd e i n = e := by unfold delEnd; split <;> omega
      have f1 : ¬ (i ≤ s ∧ s < i + n) := by omega
      have f2 : ¬ (i < e ∧ e ≤ i + n) := by omega
      rw [if_neg h1, if_neg (by omega)]
      simp only [expand]
      rw [rangedExpand_del_eq _ _ _ _ _ _ hn, a1, a2, if_neg (by omega)]
      simp only [f1, f2, if_false]

theorem ranged_embed_then_delete (s e : Int) (p5 p3 : Bool) (i n : Int) (h : s < e) (hn : 0 < n) :
    expand (expand (ranged s e p5 p3) i n) i (-n) = ranged s e p5 p3 := by
  simp only [expand, rangedExpand_ins_eq s e p5 p3 i n h hn]
  generalize hs' : (if i ≤ s then s + n else s) = s'
  generalize he' : (if i < e then e + n else e) = e'
  have a1 : delStart s' i n = s := by subst hs'; unfold delStart; split <;> split <;> omega
  have a2 : delEnd e' i n = e := by subst he'; unfold delEnd; split <;> split <;> omega
  have f1 : ¬ (i ≤ s' ∧ s' < i + n) := by subst hs'; split <;> omega
  have f2 : ¬ (i < e' ∧ e' ≤ i + n) := by subst he'; split <;> omega
  rw [rangedExpand_del_eq _ _ _ _ _ _ hn, a1, a2, if_neg (by omega)]
  simp only [f1, f2, if_false]

theorem point_shift_then_delete (p i n : Int) (hn : 0 < n) :
    expand (shift (point p) i n) i (-n) = point p := by
  simp only [shift, pointExpand]
  rw [if_neg (by omega)]
  by_cases h : i ≤ p
  · have : (0 ≤ n ∧ i ≤ p ∨ n < 0 ∧ i < p) := Or.inl ⟨by omega, h⟩
    simp only [this, if_true, gmax_eq_max, expand, pointExpand]
    rw [if_neg (by omega)]
    have : (0 ≤ -n ∧ i ≤ max i (p + n) ∨ -n < 0 ∧ i < max i (p + n)) := Or.inr ⟨by omega, by omega⟩
    simp only [this, if_true]
    congr 1; omega
  · have : ¬ (0 ≤ n ∧ i ≤ p ∨ n < 0 ∧ i < p) := by omega
    simp only [this, if_false, expand, pointExpand]
    rw [if_neg (by omega)]
    have : ¬ (0 ≤ -n ∧ i ≤ p ∨ -n < 0 ∧ i < p) := by omega
    simp only [this, if_false]

theorem between_shift_then_delete (p i n : Int) (hn : 0 < n) :
    expand (shift (between p) i n) i (-n) = between p := by
  simp only [shift, expand, betweenExpand, gmax_eq_max]
  congr 1
  by_cases h : i < p
  · have h2 : i < max i (p + n) := by omega
    rw [if_pos h, if_pos h2]; omega
  · rw [if_neg h, if_neg h]

/-- an ambiguous span split by an insertion comes back as `order(a.b, c.d)` — the identity holds
on the denotation only (stated in the property: "denotes the same residues") -/
theorem ambiguous_split_not_syntactic :
    (expand (shift (ambiguous 2 8) 5 3) 5 (-3)).beq (ordered [ambiguous 2 5, ambiguous 5 8]) = true := by
  decide

/-- a LIST identity (neither `Seq.slice` nor `Seq.concat` occurs): dropping / taking the residues at sorted
positions and appending the pieces restores them; the statement about the program is
`concat_pieces_restore_bytes` -/
theorem concat_pieces_bytes (bs : List UInt8) :
    ∀ (cuts : List Nat) (a : Nat), (a :: cuts).Pairwise (· ≤ ·) → (a :: cuts).getLast? = some bs.length →
      (((a :: cuts).zip cuts).flatMap fun ab => (bs.drop ab.1).take (ab.2 - ab.1)) = bs.drop a
  | [], a, _, hl => by
      simp at hl
      simp [hl]
  | b :: cuts, a, hs, hl => by
      have hab : a ≤ b := (List.pairwise_cons.mp hs).1 b (List.mem_cons_self ..)
      have ih := concat_pieces_bytes bs cuts b (List.Pairwise.of_cons hs) (by simpa using hl)
      simp only [List.zip_cons_cons, List.flatMap_cons]
      rw [ih]
      have : bs.drop b = (bs.drop a).drop (b - a) := by rw [List.drop_drop]; congr 1; omega
      rw [this, List.take_append_drop]

/-- **a piece of a feature, put back by Concat**: the part of a feature that falls into the piece
`[a, b)`, offset back by `a` as `Concat` does, denotes exactly the feature's residues inside
`[a, b)` — at their original positions and on their original strand. -/
theorem piece_den_partial (l : Loc) (a b L : Int) (h0 : 0 ≤ a) (hab : a ≤ b) (hbL : b ≤ L)
    (hw : wf l = true) (hpos : ∀ p ∈ den l, 0 ≤ p.1 ∧ p.1 < L)
    (g1 : expandAbs l b (b - L) = false) (g2 : expandAbs (l.expand b (b - L)) 0 (-a) = false)
    (hnn : nonneg (sliceLoc l a b L) = true) (g3 : expandAbs (sliceLoc l a b L) 0 a = false) :
    den (expand (sliceLoc l a b L) 0 a) ≼ (den l).filter (fun p => decide (a ≤ p.1 ∧ p.1 < b)) := by
  have s := sliceLoc_den l a b L h0 hab hbL hw hpos g1 g2
  have t := guest_translate (sliceLoc l a b L) a s.2 hnn h0 g3
  have u := mapPos_refines (· + a) s.1
  have e : mapPos (· + a) (filterMapPos (winMap a b) (den l))
      = (den l).filter (fun p => decide (a ≤ p.1 ∧ p.1 < b)) := by
    generalize den l = d
    induction d with
    | nil => rfl
    | cons p ps ih =>
      simp only [filterMapPos, mapPos, List.filterMap_cons, List.filter_cons, winMap] at ih ⊢
      by_cases c : a ≤ p.1 ∧ p.1 < b
      · simp only [c, and_self, if_true, Option.map_some, decide_true, List.map_cons]
        rw [ih]
        congr 1
        apply Prod.ext
        · simp only; omega
        · rfl
      · simp only [c, if_false, Option.map_none, decide_false]
        exact ih
  rw [e] at u
  exact t.trans u

/-- integer arithmetic only (no `Seq.slice`, no `Seq.concat`): for STRICTLY increasing cuts every position
of `[a, L)` lies in SOME window between consecutive cuts (existence; uniqueness is not stated here, and
strict sortedness excludes a cut at 0 / at L / a repeated cut — for those see `windows_cover` and the
program-level theorems `concat_pieces_restore_bytes` / `concat_pieces_feature_partial` below) -/
theorem windows_partition (cuts : List Int) (a L x : Int)
    (hs : (a :: cuts).Pairwise (· < ·)) (hl : (a :: cuts).getLast? = some L) (h0 : a ≤ x) (h1 : x < L) :
    ∃ w ∈ (a :: cuts).zip cuts, w.1 ≤ x ∧ x < w.2 := by
  induction cuts generalizing a with
  | nil => simp at hl; omega
  | cons b cuts ih =>
    by_cases hx : x < b
    · exact ⟨(a, b), by simp, h0, hx⟩
    · obtain ⟨w, hw, hw2⟩ := ih b (List.Pairwise.of_cons hs) (by simpa using hl) (by omega)
      exact ⟨w, by simp only [List.zip_cons_cons, List.mem_cons]; exact Or.inr hw, hw2⟩

/-! ### slice*;concat as a program (audit finding S8)

`Seq.pieces s cuts` = the records `Seq.slice s c_j c_{j+1}` over the consecutive cut points of
`0 :: cuts ++ [s.len]` (as the harness cuts); `Seq.CutsOk` = that list is sorted (`≤`: a cut at 0, a cut at
the length and repeated cuts — empty pieces — are included). -/

/-- every position of `[0, L)` lies in a window, for sorted cuts with repeats / 0 / L allowed -/
theorem windows_cover (L : Int) (cuts : List Int) (h : Seq.CutsOk L cuts) (x : Int) (h0 : 0 ≤ x) (h1 : x < L) :
    ∃ w ∈ Seq.windows L cuts, w.1 ≤ x ∧ x < w.2 :=
  Seq.windows_cover (cuts ++ [L]) 0 L x h (by rw [← List.cons_append, List.getLast?_append]; rfl) h0 h1

/-- **slice*;concat restores the residues** — about the program: cutting the record with `Seq.slice` at
any sorted list of positions in `[0, len]` (0, len and repeats included) and `Seq.concat` of the pieces
in order gives back exactly the residues. -/
theorem concat_pieces_restore_bytes (s : Seq) (cuts : List Int) (h : Seq.CutsOk s.len cuts) :
    (Seq.concat (Seq.pieces s cuts)).bytes = s.bytes := by
  rw [Seq.concat_bytes_flatten, Seq.pieces, List.map_map, ← List.flatMap_def]
  have hc : ∀ w ∈ Seq.windows s.len cuts,
      ((fun q : Seq => q.bytes) ∘ fun w : Int × Int => s.slice w.1 w.2) w
        = (s.bytes.drop w.1.toNat).take (w.2 - w.1).toNat := by
    intro w hw
    obtain ⟨h0, hab, _⟩ := Seq.mem_windows h w hw
    simp only [Function.comp, Seq.slice_fwd_eq s _ _ h0 hab]; rfl
  rw [flatMap_congr_mem _ _ _ hc]
  have := Seq.pieces_bytes_aux s.bytes (cuts ++ [s.len]) 0 (by omega) h
    (by rw [← List.cons_append, List.getLast?_append]; rfl)
  simpa [Seq.windows, Seq.windowsFrom] using this

/-- **the feature table of slice*;concat**: a permutation of — for the first window — the features `Slice`
keeps (overlap filter, `sliceLoc`, `asComplete` on `source`), NOT offset, and — for every later window
`[a, b)` — the same re-located by `Concat` with `Expand(0, a)`: the running length of the pieces so far IS the
window start.  Nothing else is in the table. -/
theorem concat_pieces_table_perm (s : Seq) (cuts : List Int) (h : Seq.CutsOk s.len cuts) :
    ∃ w0 ws, Seq.windows s.len cuts = w0 :: ws ∧ w0.1 = 0 ∧
      (Seq.concat (Seq.pieces s cuts)).feats.Perm
        (Seq.pieceFeats s w0 ++ ws.flatMap (Seq.pieceFeatsBack s)) :=
  Seq.concat_pieces_feats_perm s cuts h

/-- FULL STATEMENT of the feature half for one piece (false today through known finding K2): without the
guards a piece may lose a residue — already for one cut-free "piece" (the whole record, one feature
`join(3..6, 6)` written as a literal: `Slice` rebuilds the join and K2 drops the point). -/
theorem concat_pieces_feature_full_refuted :
    ¬ (∀ (s : Seq) (cuts : List Int) (f : Feature) (w : Int × Int), Seq.CutsOk s.len cuts → f ∈ s.feats →
        w ∈ Seq.windows s.len cuts → wf f.loc = true → (∀ p ∈ den f.loc, 0 ≤ p.1 ∧ p.1 < s.len) →
        f.loc.overlap w.1 w.2 = true →
        ∃ f' ∈ (Seq.concat (Seq.pieces s cuts)).feats, f'.key = f.key ∧ f'.props = f.props ∧
          den f'.loc ≼ (den f.loc).filter (fun p => decide (w.1 ≤ p.1 ∧ p.1 < w.2))) := by
  intro h
  obtain ⟨f', hf', _, _, hd⟩ := h ⟨[⟨"x", joined [ranged 3 6 false false, point 6], []⟩], [65, 65, 65, 65, 65, 65, 65, 65]⟩ []
    ⟨"x", joined [ranged 3 6 false false, point 6], []⟩ (0, 8) (by unfold Seq.CutsOk; decide) (List.mem_cons_self ..)
    (by decide) (by decide) (by decide) (by decide)
  have hm := hd.2 (6, false) (by decide)
  have hall : ∀ g ∈ (Seq.concat (Seq.pieces ⟨[⟨"x", joined [ranged 3 6 false false, point 6], []⟩],
      [65, 65, 65, 65, 65, 65, 65, 65]⟩ [])).feats, ((6, false) : Pos) ∉ den g.loc := by decide
  exact hall f' hf' hm

/-- **a feature's part in one piece, as the program produces it**: for every feature `f` of `s` and every
window `w = [a, b)` of the cut that `f` overlaps (Slice's own filter), the result of
`Seq.concat (Seq.pieces s cuts)` contains a feature with `f`'s key and qualifiers whose location — `sliceLoc`
(`asComplete` of it for `source`), offset by `Concat` — denotes exactly `den f ∩ [a, b)` at the ORIGINAL
positions and strands (duplicates possibly merged).  Guards (K2, as in `piece_den_partial`, on the location
actually re-located): `g1`, `g2` for the two `Expand`s of Slice, `hnn` / `g3` for Concat's `Expand(0, a)` — for
the first, un-offset piece `hnn` / `g3` are not used. -/
theorem concat_pieces_feature_partial (s : Seq) (cuts : List Int) (h : Seq.CutsOk s.len cuts)
    (f : Feature) (hf : f ∈ s.feats) (w : Int × Int) (hw : w ∈ Seq.windows s.len cuts)
    (hwf : wf f.loc = true) (hpos : ∀ p ∈ den f.loc, 0 ≤ p.1 ∧ p.1 < s.len)
    (hov : f.loc.overlap w.1 w.2 = true)
    (g1 : expandAbs f.loc w.2 (w.2 - s.len) = false)
    (g2 : expandAbs (f.loc.expand w.2 (w.2 - s.len)) 0 (-w.1) = false)
    (hnn : nonneg (Seq.pieceLoc f w.1 w.2 s.len) = true)
    (g3 : expandAbs (Seq.pieceLoc f w.1 w.2 s.len) 0 w.1 = false) :
    ∃ f' ∈ (Seq.concat (Seq.pieces s cuts)).feats, f'.key = f.key ∧ f'.props = f.props ∧
      den f'.loc ≼ (den f.loc).filter (fun p => decide (w.1 ≤ p.1 ∧ p.1 < w.2)) := by
  obtain ⟨h0, hab, hbL⟩ := Seq.mem_windows h w hw
  obtain ⟨w0, ws, hws, hw0, hperm⟩ := Seq.concat_pieces_feats_perm s cuts h
  have sl := sliceLoc_den f.loc w.1 w.2 s.len h0 hab hbL hwf hpos g1 g2
  have hden : den (Seq.pieceLoc f w.1 w.2 s.len) = den (sliceLoc f.loc w.1 w.2 s.len) := by
    unfold Seq.pieceLoc; split
    · exact den_asComplete _
    · rfl
  have hwfp : wf (Seq.pieceLoc f w.1 w.2 s.len) = true := by
    unfold Seq.pieceLoc; split
    · rw [wf_asComplete]; exact sl.2
    · exact sl.2
  have hin : ({ f with loc := Seq.pieceLoc f w.1 w.2 s.len } : Feature) ∈ Seq.pieceFeats s w := by
    simp only [Seq.pieceFeats, List.mem_map, List.mem_filter]
    exact ⟨f, ⟨hf, hov⟩, rfl⟩
  rw [hws] at hw
  rcases List.mem_cons.mp hw with hw | hw
  · -- the first piece: not offset
    subst hw
    refine ⟨_, hperm.symm.subset (List.mem_append_left _ hin), rfl, rfl, ?_⟩
    show den (Seq.pieceLoc f w.1 w.2 s.len) ≼ _
    rw [hden]
    have := sl.1
    rw [hw0] at this ⊢
    rwa [window_zero] at this
  · -- a later piece: offset by its window start
    refine ⟨{ f with loc := (Seq.pieceLoc f w.1 w.2 s.len).expand 0 w.1 },
      hperm.symm.subset (List.mem_append_right _ (List.mem_flatMap.mpr ⟨w, hw, ?_⟩)), rfl, rfl, ?_⟩
    · simp only [Seq.pieceFeatsBack, List.mem_map]
      exact ⟨_, hin, rfl⟩
    · show den ((Seq.pieceLoc f w.1 w.2 s.len).expand 0 w.1) ≼ _
      have t := guest_translate (Seq.pieceLoc f w.1 w.2 s.len) w.1 hwfp hnn h0 g3
      rw [hden] at t
      have u := mapPos_refines (· + w.1) sl.1
      rw [window_back] at u
      exact t.trans u

/-- **the pieces together cover the feature**: every residue `f` denotes is denoted, at the same position and
strand, by a feature of `Seq.concat (Seq.pieces s cuts)` with `f`'s key and qualifiers (the guards for every
window of the cut). -/
theorem concat_pieces_feature_cover_partial (s : Seq) (cuts : List Int) (h : Seq.CutsOk s.len cuts)
    (f : Feature) (hf : f ∈ s.feats) (hwf : wf f.loc = true) (hpos : ∀ p ∈ den f.loc, 0 ≤ p.1 ∧ p.1 < s.len)
    (hg : ∀ w ∈ Seq.windows s.len cuts,
      expandAbs f.loc w.2 (w.2 - s.len) = false ∧
      expandAbs (f.loc.expand w.2 (w.2 - s.len)) 0 (-w.1) = false ∧
      nonneg (Seq.pieceLoc f w.1 w.2 s.len) = true ∧
      expandAbs (Seq.pieceLoc f w.1 w.2 s.len) 0 w.1 = false)
    (p : Pos) (hp : p ∈ den f.loc) :
    ∃ f' ∈ (Seq.concat (Seq.pieces s cuts)).feats, f'.key = f.key ∧ f'.props = f.props ∧ p ∈ den f'.loc := by
  obtain ⟨w, hw, hw1, hw2⟩ := windows_cover s.len cuts h p.1 (hpos p hp).1 (hpos p hp).2
  have hov := overlap_of_mem_den f.loc w.1 w.2 hwf p hp hw1 hw2
  obtain ⟨g1, g2, hnn, g3⟩ := hg w hw
  obtain ⟨f', hf', hk, hpr, hd⟩ := concat_pieces_feature_partial s cuts h f hf w hw hwf hpos hov g1 g2 hnn g3
  exact ⟨f', hf', hk, hpr, hd.2 p (List.mem_filter.mpr ⟨hp, by simpa using ⟨hw1, hw2⟩⟩)⟩

/-- **nothing else**: every feature of `Seq.concat (Seq.pieces s cuts)` is the piece of some feature `f` of `s` in
some window `w` that `f` overlaps — with `f`'s key and qualifiers and the location `pieceLoc` (first window) or
`Expand(0, w.1)` of it — so by `concat_pieces_feature_partial` it denotes residues of `den f ∩ w` only. -/
theorem concat_pieces_feature_origin (s : Seq) (cuts : List Int) (h : Seq.CutsOk s.len cuts)
    (f' : Feature) (hf' : f' ∈ (Seq.concat (Seq.pieces s cuts)).feats) :
    ∃ f ∈ s.feats, ∃ w ∈ Seq.windows s.len cuts, f.loc.overlap w.1 w.2 = true ∧
      f'.key = f.key ∧ f'.props = f.props ∧
      (f'.loc = Seq.pieceLoc f w.1 w.2 s.len ∨ f'.loc = (Seq.pieceLoc f w.1 w.2 s.len).expand 0 w.1) := by
  obtain ⟨w0, ws, hws, _, hperm⟩ := Seq.concat_pieces_feats_perm s cuts h
  rcases List.mem_append.mp (hperm.subset hf') with hm | hm
  · simp only [Seq.pieceFeats, List.mem_map, List.mem_filter] at hm
    obtain ⟨f, ⟨hf, hov⟩, rfl⟩ := hm
    exact ⟨f, hf, w0, by rw [hws]; exact List.mem_cons_self .., hov, rfl, rfl, Or.inl rfl⟩
  · obtain ⟨w, hw, hm⟩ := List.mem_flatMap.mp hm
    simp only [Seq.pieceFeatsBack, Seq.pieceFeats, List.mem_map, List.mem_filter] at hm
    obtain ⟨_, ⟨f, ⟨hf, hov⟩, rfl⟩, rfl⟩ := hm
    exact ⟨f, hf, w, by rw [hws]; exact List.mem_cons_of_mem _ hw, hov, rfl, rfl, Or.inr rfl⟩

/-- non-vacuity: a record of 10 residues with a `source` feature and a complement-strand join, cut at
`0, 4, 4, 10` (a cut at 0, a repeated cut, a cut at the length): the cut list is admissible, the join
overlaps the window `[4, 10)` and meets every guard there, and the program restores the table's denotations
(the empty window `[4, 4)` lies inside `source` and passes Slice's overlap filter: an empty piece) -/
example :
    (0 :: [0, 4, 4, 10] ++ [((⟨[⟨"source", ranged 0 10 false false, []⟩, ⟨"CDS", compl (joined [ranged 1 3 true false, ranged 5 8 false true]), []⟩], [65, 67, 71, 84, 65, 67, 71, 84, 65, 67]⟩ : Seq)).len]).Pairwise (· ≤ ·) ∧ ((4, 10) : Int × Int) ∈ Seq.windows ((⟨[⟨"source", ranged 0 10 false false, []⟩, ⟨"CDS", compl (joined [ranged 1 3 true false, ranged 5 8 false true]), []⟩], [65, 67, 71, 84, 65, 67, 71, 84, 65, 67]⟩ : Seq)).len [0, 4, 4, 10] ∧
    wf ((⟨"CDS", compl (joined [ranged 1 3 true false, ranged 5 8 false true]), []⟩ : Feature)).loc = true ∧ ((⟨"CDS", compl (joined [ranged 1 3 true false, ranged 5 8 false true]), []⟩ : Feature)).loc.overlap 4 10 = true ∧
    expandAbs ((⟨"CDS", compl (joined [ranged 1 3 true false, ranged 5 8 false true]), []⟩ : Feature)).loc 10 (10 - ((⟨[⟨"source", ranged 0 10 false false, []⟩, ⟨"CDS", compl (joined [ranged 1 3 true false, ranged 5 8 false true]), []⟩], [65, 67, 71, 84, 65, 67, 71, 84, 65, 67]⟩ : Seq)).len) = false ∧ expandAbs (((⟨"CDS", compl (joined [ranged 1 3 true false, ranged 5 8 false true]), []⟩ : Feature)).loc.expand 10 (10 - ((⟨[⟨"source", ranged 0 10 false false, []⟩, ⟨"CDS", compl (joined [ranged 1 3 true false, ranged 5 8 false true]), []⟩], [65, 67, 71, 84, 65, 67, 71, 84, 65, 67]⟩ : Seq)).len)) 0 (-4) = false ∧
    nonneg (Seq.pieceLoc (⟨"CDS", compl (joined [ranged 1 3 true false, ranged 5 8 false true]), []⟩ : Feature) 4 10 ((⟨[⟨"source", ranged 0 10 false false, []⟩, ⟨"CDS", compl (joined [ranged 1 3 true false, ranged 5 8 false true]), []⟩], [65, 67, 71, 84, 65, 67, 71, 84, 65, 67]⟩ : Seq)).len) = true ∧ expandAbs (Seq.pieceLoc (⟨"CDS", compl (joined [ranged 1 3 true false, ranged 5 8 false true]), []⟩ : Feature) 4 10 ((⟨[⟨"source", ranged 0 10 false false, []⟩, ⟨"CDS", compl (joined [ranged 1 3 true false, ranged 5 8 false true]), []⟩], [65, 67, 71, 84, 65, 67, 71, 84, 65, 67]⟩ : Seq)).len) 0 4 = false ∧
    ((Seq.concat (Seq.pieces (⟨[⟨"source", ranged 0 10 false false, []⟩, ⟨"CDS", compl (joined [ranged 1 3 true false, ranged 5 8 false true]), []⟩], [65, 67, 71, 84, 65, 67, 71, 84, 65, 67]⟩ : Seq) [0, 4, 4, 10])).feats.map fun g => (g.key, den g.loc)) =
      [("source", fwd [0, 1, 2, 3]), ("source", []), ("source", fwd [4, 5, 6, 7, 8, 9]),
       ("CDS", flipDen (fwd [5, 6, 7])), ("CDS", flipDen (fwd [1, 2]))] := by
  decide

/-- non-vacuity -/
example : wf (joined [ranged 2 5 true false, ranged 7 9 false true]) = true ∧
    shiftAbs (joined [ranged 2 5 true false, ranged 7 9 false true]) 3 4 = false ∧
    expandAbs (shift (joined [ranged 2 5 true false, ranged 7 9 false true]) 3 4) 3 (-4) = false := by
  decide

/-! ### the same partial markers as originally

`outerMarks` (`Gts/Spec/Marks.lean`) is the Lean restatement of the Go oracle
`harness/spec.go outerMarks`. -/

/-- FULL STATEMENT (false on the model, and on the code): "insert;delete gives every well-formed
location its original outer markers back".  Witness `join(4,<4..6)` (a literal that `Join` would
reduce): the insertion already rebuilds the join, `Push` replaces the point by the range that
starts at it, and `<4..6` comes back with a 5' marker where the unmarked point was. -/
theorem shift_then_delete_marks_full_refuted :
    ¬ (∀ (l : Loc) (i n : Int), wf l = true → 0 < n →
        outerMarks (expand (shift l i n) i (-n)) = outerMarks l) := by
  intro h
  have := h (joined [point 3, ranged 3 6 true false]) 0 1 (by decide) (by decide)
  revert this
  decide

/-- **insert;delete restores the partial markers**: for every well-formed location of any kind,
arity, nesting and strand, every index `i` and guest length `n > 0`, deleting the `n` residues
just inserted at `i` yields a location with the same 5' and 3' outer markers as originally —
also when a range was split around the guest and re-merged, and when an ambiguous span comes back
as `order(a.b, c.d)`.  Guards: no marker-moving rule of `Push` fires in either step. -/
theorem shift_then_delete_marks_partial (l : Loc) (i n : Int) (hw : wf l = true) (hn : 0 < n)
    (g1 : shiftMarkAbs l i n = false) (g2 : expandMarkAbs (shift l i n) i (-n) = false) :
    outerMarks (expand (shift l i n) i (-n)) = outerMarks l :=
  outerMarks_of_marks (shift_then_delete_marks_aux l i n hw hn g1 g2)

/-- … in particular under the hypotheses of `shift_then_delete_den_partial` (K2 guards of both
steps) plus duplicate-freeness — the conditions under which the Go oracle evaluates the clause -/
theorem shift_then_delete_marks_nodup_partial (l : Loc) (i n : Int) (hw : wf l = true) (hn : 0 < n)
    (h1 : shiftAbs l i n = false) (h2 : expandAbs (shift l i n) i (-n) = false)
    (hnd : (den l).Nodup) :
    outerMarks (expand (shift l i n) i (-n)) = outerMarks l := by
  have a := shift_ins l i n hw (by omega)
  have hnd2 : (den (shift l i n)).Nodup :=
    Refines.nodup (a.1 h1) (nodup_mapPos_insMap i n (by omega) _ hnd)
  exact shift_then_delete_marks_partial l i n hw hn
    (shiftMarkAbs_of_nodup l i n hw (by omega) h1 hnd)
    (expandDelMarkAbs_of_nodup (shift l i n) i n a.2 hn h2 hnd2)

/-- **embed;delete restores the partial markers** -/
theorem embed_then_delete_marks_partial (l : Loc) (i n : Int) (hw : wf l = true) (hn : 0 < n)
    (g1 : expandMarkAbs l i n = false) (g2 : expandMarkAbs (expand l i n) i (-n) = false) :
    outerMarks (expand (expand l i n) i (-n)) = outerMarks l :=
  outerMarks_of_marks (embed_then_delete_marks_aux l i n hw hn g1 g2)

/-- … under the hypotheses of `embed_then_delete_den_partial` plus duplicate-freeness -/
theorem embed_then_delete_marks_nodup_partial (l : Loc) (i n : Int) (hw : wf l = true) (hn : 0 < n)
    (h1 : expandAbs l i n = false) (h2 : expandAbs (expand l i n) i (-n) = false)
    (hnd : (den l).Nodup) :
    outerMarks (expand (expand l i n) i (-n)) = outerMarks l :=
  embed_then_delete_marks_partial l i n hw hn
    (expandInsMarkAbs_of_nodup l i n hw (by omega) h1 hnd)
    (expandDelMarkAbs_of_nodup (expand l i n) i n (expand_ins l i n hw (by omega)).2 hn h2
      (expand_ins_nodup l i n hw (by omega) h1 hnd))

/-- non-vacuity: a complement-strand join with both outer markers whose first part is split by
the insertion -/
example : wf (compl (joined [ranged 2 5 true false, point 7, ranged 9 12 false true])) = true ∧
    shiftMarkAbs (compl (joined [ranged 2 5 true false, point 7, ranged 9 12 false true])) 4 3 = false ∧
    expandMarkAbs (shift (compl (joined [ranged 2 5 true false, point 7, ranged 9 12 false true])) 4 3) 4 (-3) = false ∧
    expandMarkAbs (compl (joined [ranged 2 5 true false, point 7, ranged 9 12 false true])) 4 3 = false ∧
    expandMarkAbs (expand (compl (joined [ranged 2 5 true false, point 7, ranged 9 12 false true])) 4 3) 4 (-3) = false ∧
    outerMarks (compl (joined [ranged 2 5 true false, point 7, ranged 9 12 false true])) = (true, true) ∧
    shiftAbs (compl (joined [ranged 2 5 true false, point 7, ranged 9 12 false true])) 4 3 = false ∧
    expandAbs (shift (compl (joined [ranged 2 5 true false, point 7, ranged 9 12 false true])) 4 3) 4 (-3) = false ∧
    expandAbs (compl (joined [ranged 2 5 true false, point 7, ranged 9 12 false true])) 4 3 = false ∧
    expandAbs (expand (compl (joined [ranged 2 5 true false, point 7, ranged 9 12 false true])) 4 3) 4 (-3) = false ∧
    (den (compl (joined [ranged 2 5 true false, point 7, ranged 9 12 false true]))).Nodup := by
  decide

/-! ### record level: the two-step programs on whole records -/

/-- **insert;delete, record level**: after deleting the `|guest|` residues just inserted at `i`,
every host feature is present with unchanged key and qualifiers and a location denoting exactly
its original residues (order and strand). -/
theorem insert_delete_feature_partial (host guest : Gts.Seq) (i : Int) (hg : 0 < guest.len)
    (f : Feature) (hf : f ∈ host.feats) (hw : wf f.loc = true)
    (h1 : shiftAbs f.loc i guest.len = false)
    (h2 : expandAbs (shift f.loc i guest.len) i (-guest.len) = false) :
    ∃ f' ∈ ((host.insert i guest).delete i guest.len).feats, f'.key = f.key ∧ f'.props = f.props ∧
      den f'.loc ≼ den f.loc := by
  have hm : ({ f with loc := f.loc.shift i guest.len } : Feature) ∈ (host.insert i guest).feats :=
    mem_of_perm_map_append_left (C02.insert_table_perm host guest i) hf
  refine ⟨{ f with loc := (f.loc.shift i guest.len).expand i (-guest.len) }, ?_, rfl, rfl,
    shift_then_delete_den_partial f.loc i guest.len hw hg h1 h2⟩
  show _ ∈ ((host.insert i guest).feats.map fun f => { f with loc := f.loc.expand i (-guest.len) })
  exact List.mem_map_of_mem hm

/-- **embed;delete, record level** -/
theorem embed_delete_feature_partial (host guest : Gts.Seq) (i : Int) (hg : 0 < guest.len)
    (f : Feature) (hf : f ∈ host.feats) (hw : wf f.loc = true)
    (h1 : expandAbs f.loc i guest.len = false)
    (h2 : expandAbs (expand f.loc i guest.len) i (-guest.len) = false) :
    ∃ f' ∈ ((host.embed i guest).delete i guest.len).feats, f'.key = f.key ∧ f'.props = f.props ∧
      den f'.loc ≼ den f.loc := by
  have hm : ({ f with loc := f.loc.expand i guest.len } : Feature) ∈ (host.embed i guest).feats :=
    mem_of_perm_map_append_left (C02.embed_table_perm host guest i) hf
  refine ⟨{ f with loc := (f.loc.expand i guest.len).expand i (-guest.len) }, ?_, rfl, rfl,
    embed_then_delete_den_partial f.loc i guest.len hw hg h1 h2⟩
  show _ ∈ ((host.embed i guest).feats.map fun f => { f with loc := f.loc.expand i (-guest.len) })
  exact List.mem_map_of_mem hm

/-- a host feature that is a plain range comes back *syntactically* (markers included) from both
programs, at every index — in particular a `source` feature ending at `i = Len(host)` -/
theorem ranged_feature_round_trip (host guest : Gts.Seq) (i : Int) (hg : 0 < guest.len)
    (k : String) (ps : List (List String)) (s e : Int) (p5 p3 : Bool) (hse : s < e)
    (hf : (⟨k, ranged s e p5 p3, ps⟩ : Feature) ∈ host.feats) :
    (⟨k, ranged s e p5 p3, ps⟩ : Feature) ∈ ((host.insert i guest).delete i guest.len).feats ∧
    (⟨k, ranged s e p5 p3, ps⟩ : Feature) ∈ ((host.embed i guest).delete i guest.len).feats := by
  constructor
  · have hm := mem_of_perm_map_append_left (C02.insert_table_perm host guest i) hf
    have : (⟨k, ranged s e p5 p3, ps⟩ : Feature) =
        (fun f : Feature => { f with loc := f.loc.expand i (-guest.len) })
          ⟨k, (ranged s e p5 p3).shift i guest.len, ps⟩ := by
      simp [ranged_shift_then_delete s e p5 p3 i guest.len hse hg]
    rw [this]
    exact List.mem_map_of_mem hm
  · have hm := mem_of_perm_map_append_left (C02.embed_table_perm host guest i) hf
    have : (⟨k, ranged s e p5 p3, ps⟩ : Feature) =
        (fun f : Feature => { f with loc := f.loc.expand i (-guest.len) })
          ⟨k, (ranged s e p5 p3).expand i guest.len, ps⟩ := by
      simp [ranged_embed_then_delete s e p5 p3 i guest.len hse hg]
    rw [this]
    exact List.mem_map_of_mem hm

/-- **insert;delete / embed;delete, record level (markers)**: every host feature comes back
with unchanged key and qualifiers and the same outer partial markers as originally. -/
theorem insert_delete_feature_marks_partial (host guest : Gts.Seq) (i : Int) (hg : 0 < guest.len)
    (f : Feature) (hf : f ∈ host.feats) (hw : wf f.loc = true)
    (g1 : shiftMarkAbs f.loc i guest.len = false)
    (g2 : expandMarkAbs (shift f.loc i guest.len) i (-guest.len) = false) :
    ∃ f' ∈ ((host.insert i guest).delete i guest.len).feats, f'.key = f.key ∧ f'.props = f.props ∧
      outerMarks f'.loc = outerMarks f.loc := by
  have hm : ({ f with loc := f.loc.shift i guest.len } : Feature) ∈ (host.insert i guest).feats :=
    mem_of_perm_map_append_left (C02.insert_table_perm host guest i) hf
  refine ⟨{ f with loc := (f.loc.shift i guest.len).expand i (-guest.len) }, ?_, rfl, rfl,
    shift_then_delete_marks_partial f.loc i guest.len hw hg g1 g2⟩
  show _ ∈ ((host.insert i guest).feats.map fun f => { f with loc := f.loc.expand i (-guest.len) })
  exact List.mem_map_of_mem hm

theorem embed_delete_feature_marks_partial (host guest : Gts.Seq) (i : Int) (hg : 0 < guest.len)
    (f : Feature) (hf : f ∈ host.feats) (hw : wf f.loc = true)
    (g1 : expandMarkAbs f.loc i guest.len = false)
    (g2 : expandMarkAbs (expand f.loc i guest.len) i (-guest.len) = false) :
    ∃ f' ∈ ((host.embed i guest).delete i guest.len).feats, f'.key = f.key ∧ f'.props = f.props ∧
      outerMarks f'.loc = outerMarks f.loc := by
  have hm : ({ f with loc := f.loc.expand i guest.len } : Feature) ∈ (host.embed i guest).feats :=
    mem_of_perm_map_append_left (C02.embed_table_perm host guest i) hf
  refine ⟨{ f with loc := (f.loc.expand i guest.len).expand i (-guest.len) }, ?_, rfl, rfl,
    embed_then_delete_marks_partial f.loc i guest.len hw hg g1 g2⟩
  show _ ∈ ((host.embed i guest).feats.map fun f => { f with loc := f.loc.expand i (-guest.len) })
  exact List.mem_map_of_mem hm

/-! ### inverse laws for the code AS IT IS WRITTEN NOW

`Gts.Gen.seqInsert` / `seqDelete` / `seqConcat` are regenerated from sequence.go on every run (go2lean/gseq.go) and
proved equal to the model by `Gts/Bridge/SeqInsert.lean`, `SeqDelete.lean`, `SeqConcat.lean`. -/

/-- **`gts.Delete(gts.Insert(host, i, guest), i, Len(guest))` as written**: for an index inside the host neither
call panics and the residues of the host come back -/
theorem gen_delete_insert_bytes {ι : Type} (ops : Gen.InfoOps ι) (hi gi : ι) (host guest : Gts.Seq) (i : Int)
    (h0 : 0 ≤ i) (h1 : i ≤ host.len) :
    ∃ mi mf mb, Gen.seqInsert ops hi host.feats host.bytes i gi guest.feats guest.bytes = .ok (mi, mf, mb) ∧
      ∃ ri rf, Gen.seqDelete ops mi mf mb i guest.len = .ok (ri, rf, host.bytes) := by
  refine ⟨_, _, _, Bridge.seqInsert_eq ops hi gi host guest i ⟨h0, h1⟩, ?_⟩
  have hlen : (host.insert i guest).len = host.len + guest.len := by
    simp only [Seq.insert, Seq.spliceBytes, Seq.len, List.length_append, List.length_take, List.length_drop]
    simp only [Seq.len] at h1
    omega
  have hok : Bridge.deleteOk (host.insert i guest).len i guest.len := by
    have hg : 0 ≤ guest.len := by simp only [Seq.len]; omega
    simp only [Bridge.deleteOk, hlen]
    omega
  have := Bridge.seqDelete_eq ops (ops.tryShift hi i guest.len) (host.insert i guest) i guest.len hok
  exact ⟨_, _, by rw [this, delete_insert_bytes host guest i h0 h1]⟩

/-- **`gts.Concat` as written** never panics; its residues are the residues of the pieces in order -/
theorem gen_concat_bytes {ι : Type} (ops : Gen.InfoOps ι) (ss : List (Gen.SeqV ι)) :
    ∃ i ff, Gen.seqConcat ops ss = .ok (i, ff, (ss.map fun v => v.2.2).flatten) := by
  have hb : (Seq.concat (ss.map Bridge.toSeq)).bytes = (ss.map fun v => v.2.2).flatten := by
    cases ss with
    | nil => rfl
    | cons v vs =>
      simp only [List.map_cons, Seq.concat, List.flatten_cons]
      have : ∀ (ws : List (Gen.SeqV ι)) (a : Gts.Seq),
          ((ws.map Bridge.toSeq).foldl Seq.concat2 a).bytes = a.bytes ++ (ws.map fun v => v.2.2).flatten := by
        intro ws
        induction ws with
        | nil => intro a; simp
        | cons w ws ih => intro a; simp [ih, Seq.concat2, Bridge.toSeq, List.append_assoc]
      rw [this]
      rfl
  exact ⟨_, _, by rw [Bridge.seqConcat_eq, hb]⟩

-- non-vacuity
example : (0 : Int) ≤ 2 ∧ (2 : Int) ≤ (⟨[], [65, 67, 71, 84]⟩ : Gts.Seq).len := by decide

end Gts.C10
