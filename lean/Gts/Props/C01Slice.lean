/-
  C01 — closure under `gts.Slice` at the RECORD level (property theorems only; models:
  Gts/Model/GbSlice.lean, GbSliceRec.lean, Seq.lean; helper lemmas: Gts/Lemmas/GbSlice*.lean).

  `sliceRecord F s a b` is the GenBank record `gts.Slice(record, a, b)` returns for the record with
  header `F`, table `s.feats` and residues `s.bytes`:
    header    `sliceHeader` = `GenBankFields.Slice(w)` + `WithTopology(Linear)`: REGION := the window `w`
              (set, not composed), every REFERENCE whose `(bases x to y; …)` info parses clipped to the
              window, re-based, dropped when disjoint; unparsable infos kept; numbers `1..m`
    window    `w = sliceWindow L a b`: the normalised indices, or `(0, L - a + b)` behind the rotation of
              a wrap-around window (the header is NOT rotated: `GenBankFields` has no `Shift`)
    the rest  `Seq.slice` (C03)
  `slice_is_generated` ties this record to the code regenerated from sequence.go.

  Theorems:
    slice_numbers_are_itoa        the `%d` of `Slice` (`toString` in the model) is `strconv.Itoa`
    refinfo_roundtrip             parseReferenceInfo (printed ranges) = the ranges
    sliced_refinfo_reparses       what `Slice` writes into a reference re-parses to the clipped ranges
    sliced_references_numbered    the kept references carry the numbers 1..m
    writable_slice_partial        Writable r → guards → Writable (slice r), forward AND wrap-around windows
    writable_slice_full_refuted   … false without the guard on the reference numbers
    sliced_reference_misread      … and what the reader makes of that record (number 1005, info " x")
    read_write_sliced_exact       K1A stated positively: what the reader returns for every window
    read_write_sliced_full_refuted  "the same header fields" is false for EVERY window
    write_read_write_sliced       the byte fixed point write (read (write (slice r))) = write (slice r)
-/
import Gts.Lemmas.GbSliceFixed
import Gts.Bridge.SeqSlice
namespace Gts.C01
open Gts Gts.Pars Gts.GenBank

/-! ## the printed integers and the reference info -/

/-- **The integers `GenBankFields.Slice` prints.**  The model prints the clipped bounds with Lean's
`toString` (`intBytes`); that is `strconv.Itoa` / `%d` as the writer and reader models have it
(`itoaB`: the decimal digits, a leading `-` for negatives) — for every `Int`. -/
theorem slice_numbers_are_itoa (n : Int) : intBytes n = itoaB n := GbSliceInt.intBytes_eq n

example : intBytes 0 = [48] ∧ intBytes 1000000000 = bs "1000000000" ∧ intBytes (-12) = bs "-12" := by
  decide +kernel

/-- **Reference info round trip.**  For every counter word `pref` and every non-empty list of ranges
`[s, e)` with `1 ≤ s+1 ≤ e ≤ 2^63-1` (`RangeOk`), the text
`"(" pref " " s₁+1 " to " e₁ "; " s₂+1 " to " e₂ … ")"` that `GenBankFields.Slice` builds with
`fmt.Sprintf("%d to %d", head+1, tail)` / `strings.Join(ss, "; ")` is read back by
`parseReferenceInfo(pref)` as exactly those ranges. -/
theorem refinfo_roundtrip (pref : Bytes) (rs : List (Int × Int)) (hne : rs ≠ [])
    (h : ∀ r ∈ rs, 0 ≤ r.1 ∧ r.1 < r.2 ∧ r.2 ≤ 9223372036854775807) :
    parseRefInfo pref (fmtRanges pref rs) = some rs :=
  GbSliceRef.parseRefInfo_fmtRanges pref rs hne h

/-- non-vacuity: one-digit, nine-digit and 19-digit bounds, three ranges; the printed text -/
example :
    (∀ r ∈ [((0 : Int), (1 : Int)), (8, 999999999), (999999999, 9223372036854775807)],
      0 ≤ r.1 ∧ r.1 < r.2 ∧ r.2 ≤ 9223372036854775807) ∧
    fmtRanges (bs "bases") [(0, 1), (8, 999999999), (999999999, 9223372036854775807)] =
      bs "(bases 1 to 1; 9 to 999999999; 1000000000 to 9223372036854775807)" := by
  refine ⟨by decide, by decide +kernel⟩

/-- **What `Slice` writes into a reference re-parses.**  Non-empty window `[a, b)` of at most
`2^63-1` residues, an info that `parseReferenceInfo` reads as `locs`, at least one of them
overlapping the window: `Slice` replaces the info by the text of the overlapping ranges clipped to
the window and re-based (`clipRange`), and `parseReferenceInfo` reads THAT text back as exactly these
ranges — so slicing a sliced record again sees the clipped ranges. -/
theorem sliced_refinfo_reparses (pref info : Bytes) (a b : Int) (locs : List (Int × Int)) (hab : a < b)
    (hfit : b - a ≤ 9223372036854775807) (hp : parseRefInfo pref info = some locs)
    (hol : (locs.filter fun r => Loc.rangeOverlap r.1 r.2 a b) ≠ []) :
    ∃ i, sliceRefInfo pref a b info = some i ∧
      i = fmtRanges pref ((locs.filter fun r => Loc.rangeOverlap r.1 r.2 a b).map (clipRange a b)) ∧
      parseRefInfo pref i = some ((locs.filter fun r => Loc.rangeOverlap r.1 r.2 a b).map (clipRange a b)) :=
  GbSliceRef.sliceRefInfo_reparse pref info a b locs hab hfit hp hol

/-- non-vacuity: a window touching a range end (`[4, 10)` against `1 to 5`), a range outside, a range
across the window end -/
example :
    parseRefInfo (bs "bases") (bs "(bases 1 to 5; 20 to 30; 8 to 15)") = some [(0, 5), (19, 30), (7, 15)] ∧
    sliceRefInfo (bs "bases") 4 10 (bs "(bases 1 to 5; 20 to 30; 8 to 15)") = some (bs "(bases 1 to 1; 4 to 6)") ∧
    sliceRefInfo (bs "bases") 5 10 (bs "(bases 1 to 5)") = none := by
  decide +kernel

/-- **The kept references are numbered `1..m`** (`refs[i].Number = i + 1`), whatever their numbers
were. -/
theorem sliced_references_numbered (pref : Bytes) (a b : Int) (refs : List Reference) (k : Nat)
    (hk : k < (sliceReferences pref a b refs).length) :
    ((sliceReferences pref a b refs)[k]).number = (k : Int) + 1 := by
  unfold sliceReferences renumberRefs at hk ⊢
  simp only [List.getElem_map, List.getElem_zipIdx, Nat.zero_add]

/-! ## the record and its tie to sequence.go -/

/-- the metadata operations `gts.Slice` reaches through `trySlice` / `WithTopology` when the
sequence is a `seqio.GenBank`: `GenBankFields` implements `Slice` and neither `Shift` nor `Expand`
(`nilInfo`, the `nil` of `gts.New(nil, nil, nil)`, is not used by `Slice`) -/
def gbInfoOps : Gen.InfoOps Fields :=
  ⟨fun f _ _ => f, fun f _ _ => f, Fields.slice, Fields.withTopology, Fields.empty⟩

/-- **`sliceRecord` is what the code does.**  `Gen.seqSlice` is `gts.Slice` as regenerated from
sequence.go on every run (statement by statement; `Bridge/SeqSlice.lean`).  Run on a GenBank record —
metadata operations `gbInfoOps` — with a window of `sliceWindowOk` (forward inside the sequence, or
wrap-around on a non-empty sequence with `0 ≤ L - a + b`) it returns, without panic, exactly the
header, table and residues of `sliceRecord`: in particular the header is sliced with the window
`sliceWindow` — `(0, L - a + b)` behind the rotation — and made linear.  (Fuel: the recursion depth of
`Slice` calling itself, 2, and the literal loop of `Rotate`.) -/
theorem slice_is_generated (F : Fields) (s : Seq) (a b : Int) (fuel : Nat)
    (hwin : sliceWindowOk s.len a b = true) (hf : sliceIndex s.len a ≤ fuel + 1) :
    Gen.seqSlice gbInfoOps (fuel + 2) F s.feats s.bytes a b =
      .ok (sliceHeader F s.len a b, (s.slice a b).feats, (s.slice a b).bytes) ∧
    sliceRecord F s a b = ofSeq (sliceHeader F s.len a b) (s.slice a b) := by
  refine ⟨?_, rfl⟩
  have hn : ∀ x, Bridge.sliceNorm s.len x = sliceIndex s.len x := fun _ => rfl
  by_cases hc : sliceIndex s.len b < sliceIndex s.len a
  · simp only [sliceWindowOk, hc, if_true, decide_eq_true_eq] at hwin
    have := Bridge.seqSlice_wrap gbInfoOps fuel F s a b (by rw [hn, hn]; exact hc) hwin.1
      (by rw [hn, hn]; exact hwin.2) (by rw [hn]; exact hf)
    rw [this]
    simp only [hn, sliceHeader, sliceWindow, hc, if_true, gbInfoOps]
  · simp only [sliceWindowOk, hc, if_false, decide_eq_true_eq] at hwin
    have := Bridge.seqSlice_fwd gbInfoOps (fuel + 1) F s a b (by rw [hn, hn]; omega)
      (by rw [hn, hn]; exact hwin)
    rw [this]
    simp only [hn, sliceHeader, sliceWindow, hc, if_false, gbInfoOps]

/-- a record with three references (one clipped, one without base ranges, one outside the window), an
accession, a `source` and a `gene` feature and twelve residues; the windows used below: forward
`[2, 8)`, wrap-around `(9, 3)` -/
def sliceF : Fields :=
  { Fields.empty with
    locusName := bs "X", molecule := bs "DNA", topology := 1, date := ⟨2020, 2, 29⟩, accession := bs "AB000001",
    references := [⟨1, bs "(bases 1 to 12)", bs "A,B.", [], bs "T", [], none, []⟩,
                   ⟨2, bs "(sites)", [], [], [], bs "J", none, []⟩,
                   ⟨3, bs "(bases 9 to 12)", [], [], [], [], some (bs "1"), []⟩] }

def sliceS : Seq :=
  ⟨[⟨"source", .ranged 0 12 false false, [["organism", "x"]]⟩, ⟨"gene", .ranged 2 5 false false, [["gene", "g"]]⟩],
   [97, 99, 103, 116, 97, 99, 103, 116, 97, 99, 103, 116]⟩

example : sliceWindowOk sliceS.len 2 8 = true ∧ sliceWindowOk sliceS.len 9 3 = true ∧
    sliceWindowOk sliceS.len (-4) (-1) = true ∧ sliceWindowOk sliceS.len 5 13 = false ∧
    sliceWindow sliceS.len 2 8 = (2, 8) ∧ sliceWindow sliceS.len 9 3 = (0, 6) ∧ sliceWindow sliceS.len (-4) (-1) = (8, 11) := by
  decide

/-- the sliced header of the witness: region, the references `(bases 1 to 6)` and `(sites)` numbered
1, 2, the third one dropped, topology linear -/
example : (sliceHeader sliceF sliceS.len 2 8).region = some (2, 8) ∧
    (sliceHeader sliceF sliceS.len 2 8).topology = 0 ∧
    (sliceHeader sliceF sliceS.len 2 8).references.map (fun r => (r.number, r.info)) =
      [(1, bs "(bases 1 to 6)"), (2, bs "(sites)")] ∧
    (sliceHeader sliceF sliceS.len 9 3).references.map (fun r => (r.number, r.info)) =
      [(1, bs "(bases 1 to 6)"), (2, bs "(sites)")] ∧
    (sliceRecord sliceF sliceS 9 3).origin = .residues [99, 103, 116, 97, 99, 103] := by
  decide +kernel

/-! ## closure of the writable domain -/

/-- **Closure of `Writable` under `gts.Slice`, proved part.**  For every record of the domain
(`Writable reg (ofSeq F s) s.bytes`) and EVERY window the real code accepts (`sliceWindowOk`: forward
windows `0 ≤ a ≤ b ≤ L` — negative indices counted from the end — and wrap-around windows), the record
`gts.Slice` returns is in the domain again (its residues are the sliced residues, its LOCUS length their
count — third conjunct).  Field by field: the LOCUS length is the new residue
count (a count below the old one: `0 ≤ · < 10^9`), the topology linear; the ACCESSION line with the
new ` REGION: a+1..b` suffix is one line (`itoaB` prints digits); every kept REFERENCE has a number in
`1..m`, a one-line info — the old one, or `(bases x to y; …)`, which starts with `(` — and its
sub-fields unchanged; the table keeps key and `Props` of features of the old table; the residues are
residues of the old record.
Guards: `renumberOk` (at most 99 references, or no info starting with a digit and a count inside Go's
`int` — see `writable_slice_full_refuted`), and — as for `writable_delete` — residues remain or the
record has no CONTIG (an empty window leaves the LOCUS length to the CONTIG region, whose size
`Writable` does not bound once there are residues).
FULL STATEMENT (false, `writable_slice_full_refuted`):
  `Writable reg (ofSeq F s) s.bytes → sliceWindowOk s.len a b → Writable reg (sliceRecord F s a b) (s.slice a b).bytes`.
What is missing for it is not a proof but a repair: `Slice` renumbers without looking at the info. -/
theorem writable_slice_partial (reg : Registry) (F : Fields) (s : Seq) (a b : Int)
    (hw : Writable reg (ofSeq F s) s.bytes = true) (_hwin : sliceWindowOk s.len a b = true)
    (renumberGuard : renumberOk F.references = true)
    (hne : 0 < (s.slice a b).bytes.length ∨ F.contigAcc.isEmpty = true) :
    Writable reg (sliceRecord F s a b) (s.slice a b).bytes = true ∧
    (sliceRecord F s a b).origin = .residues (s.slice a b).bytes ∧
    locusLength (sliceRecord F s a b).fields (s.slice a b).bytes =
      (if (s.slice a b).bytes.isEmpty then contigLen F else ((s.slice a b).bytes.length : Int)) :=
  ⟨writable_sliceRecord reg F s a b hw renumberGuard hne, rfl, rfl⟩

/-- non-vacuity: the witness meets every hypothesis for a forward, a wrap-around and an EMPTY window
(no CONTIG) -/
example : Writable Registry.default (ofSeq sliceF sliceS) sliceS.bytes = true ∧
    renumberOk sliceF.references = true ∧ sliceF.contigAcc.isEmpty = true ∧
    sliceWindowOk sliceS.len 5 5 = true ∧ (sliceS.slice 5 5).bytes = [] ∧
    0 < (sliceS.slice 2 8).bytes.length ∧ 0 < (sliceS.slice 9 3).bytes.length := by
  decide +kernel

/-- a header with 100 references whose info starts with a digit (as read from `REFERENCE   1  5 x`) -/
def manyRefsF : Fields :=
  { Fields.empty with
    locusName := bs "X", molecule := bs "DNA", date := ⟨2020, 2, 29⟩,
    references := List.replicate 100 ⟨1, bs "5 x", [], [], [], [], none, []⟩ }

/-- FULL STATEMENT of the closure (false): "the slice of every `Writable` record is `Writable`".
`GenBankFields.Slice` renumbers the kept references `1..m` without looking at their info; the writer
puts no blank between a number of three or more digits and the info (761240c).  Witness: 100
references `REFERENCE   1  5 x` (number 1, info `5 x`, unparsable, kept): the record is `Writable`,
the window `[0, 1)` of its two residues is a forward window, and in the sliced record reference 100
has the info `5 x` — written `REFERENCE   1005 x`, read back as number 1005 with the info ` x`. -/
theorem writable_slice_full_refuted :
    Writable Registry.default (ofSeq manyRefsF ⟨[], [97, 99]⟩) [97, 99] = true ∧
    sliceWindowOk 2 0 1 = true ∧
    Writable Registry.default (sliceRecord manyRefsF ⟨[], [97, 99]⟩ 0 1) (Seq.slice ⟨[], [97, 99]⟩ 0 1).bytes = false ∧
    renumberOk manyRefsF.references = false ∧
    ((sliceRecord manyRefsF ⟨[], [97, 99]⟩ 0 1).fields.references.getLast?.map fun r => refHead r) =
      some (bs "REFERENCE   1005 x") := by
  refine ⟨by decide +kernel, by decide, by decide +kernel, by decide +kernel, by decide +kernel⟩

/-- … and what the round trip makes of it: the hundredth reference of the sliced witness has the
number 100 and the info `5 x`; its REFERENCE block is written `REFERENCE   1005 x`, and
`genbankReferenceParser` reads from that block the number 1005 and the info ` x`.  (The whole record
goes to the real code and to the model on every run: harness case `slice/renumber-to-3-digits`; the
text is still a write → read → write fixed point.) -/
theorem sliced_reference_misread :
    ((sliceRecord manyRefsF ⟨[], [97, 99]⟩ 0 1).fields.references.getLast?.map fun r => (r.number, r.info)) =
      some (100, bs "5 x") ∧
    referenceText ⟨100, bs "5 x", [], [], [], [], none, []⟩ = .ok (bs "REFERENCE   1005 x\n") ∧
    (referenceField 12 Fields.empty ⟨bs "REFERENCE   1005 x\n//\n", []⟩).1 =
      .ok ({ Fields.empty with references := [⟨1005, bs " x", [], [], [], [], none, []⟩] }, true) := by
  refine ⟨by decide +kernel, by decide +kernel, by decide +kernel⟩

/-! ## what the reader returns, and the byte fixed point -/

/-- **read (write (slice r)), exactly — K1A stated positively, for every window.**  For a `Writable`
record, a window of `sliceWindowOk` and the guards of `writable_slice_partial`, with canonical
locations in the sliced table (C06; that `Slice` keeps locations canonical is not a theorem):
`GenBank.String` of the sliced record succeeds with a text `t`, and `GenBankParser` reads from `t`
followed by ANY text the record
  header   = the sliced header with `Accession := accession ++ " REGION: " ++ a+1 ".." b`
             (`regionSuffix`: the window as `gts.Range` prints it; nothing for an empty window) and
             `Region := none`,
  table    = the sliced table feature by feature (`readFeature`),
  residues = the written ORIGIN block of the sliced residues,
consuming exactly `t` and ending with the registry `learnTable reg table`. -/
theorem read_write_sliced_exact (reg : Registry) (F : Fields) (s : Seq) (a b : Int)
    (hw : Writable reg (ofSeq F s) s.bytes = true) (hwin : sliceWindowOk s.len a b = true)
    (renumberGuard : renumberOk F.references = true)
    (hne : 0 < (s.slice a b).bytes.length ∨ F.contigAcc.isEmpty = true)
    (hcanon : ((sliceRecord F s a b).table.all fun f => Loc.canonP f.loc) = true) (rest' : Bytes) :
    ∃ t, write reg (sliceRecord F s a b) = .ok t ∧
      genbankParser reg ⟨t ++ rest', []⟩ =
        (.ok (⟨slicedHeaderRead F s.len a b, (sliceRecord F s a b).table.map (readFeature reg),
                if (s.slice a b).bytes.isEmpty then .buffer [] else .buffer (Origin.originStream (s.slice a b).bytes)⟩,
              learnTable reg (sliceRecord F s a b).table), ⟨rest', []⟩) ∧
      (slicedHeaderRead F s.len a b).accession = F.accession ++ regionSuffix (sliceWindow s.len a b) ∧
      (slicedHeaderRead F s.len a b).region = none ∧
      (slicedHeaderRead F s.len a b).references = (sliceHeader F s.len a b).references := by
  obtain ⟨hw', ho, _⟩ := writable_slice_partial reg F s a b hw hwin renumberGuard hne
  obtain ⟨t, h1, _, h2⟩ := GenBank.read_write reg (sliceRecord F s a b) (s.slice a b).bytes ho hw'
    (fun x hx => locRT_of_canon x.loc (List.all_eq_true.mp hcanon x hx)) rest'
  rw [readBack_sliceRecord] at h2
  exact ⟨t, h1, h2, rfl, rfl, rfl⟩

/-- non-vacuity: the witness with its forward and its wrap-around window meets the hypotheses; the
suffixes the reader moves into the accession -/
example : ((sliceRecord sliceF sliceS 2 8).table.all fun f => Loc.canonP f.loc) = true ∧
    ((sliceRecord sliceF sliceS 9 3).table.all fun f => Loc.canonP f.loc) = true ∧
    (slicedHeaderRead sliceF sliceS.len 2 8).accession = bs "AB000001 REGION: 3..8" ∧
    (slicedHeaderRead sliceF sliceS.len 9 3).accession = bs "AB000001 REGION: 1..6" ∧
    (slicedHeaderRead sliceF sliceS.len 5 5).accession = bs "AB000001" := by
  decide +kernel

/-- FULL STATEMENT of fidelity for sliced records (false, for EVERY record and EVERY window): "the
record read from the written sliced record has the same header fields".  Under the hypotheses of
`read_write_sliced_exact` the reader returns a record whose header differs from the sliced header:
its region is gone, and for a non-empty window its accession is longer (known finding K1A). -/
theorem read_write_sliced_full_refuted (reg : Registry) (F : Fields) (s : Seq) (a b : Int)
    (hw : Writable reg (ofSeq F s) s.bytes = true) (hwin : sliceWindowOk s.len a b = true)
    (renumberGuard : renumberOk F.references = true)
    (hne : 0 < (s.slice a b).bytes.length ∨ F.contigAcc.isEmpty = true)
    (hcanon : ((sliceRecord F s a b).table.all fun f => Loc.canonP f.loc) = true) (rest' : Bytes) :
    ∃ t r' reg', write reg (sliceRecord F s a b) = .ok t ∧
      genbankParser reg ⟨t ++ rest', []⟩ = (.ok (r', reg'), ⟨rest', []⟩) ∧
      r'.fields ≠ (sliceRecord F s a b).fields ∧ r'.fields.region = none ∧
      (sliceRecord F s a b).fields.region = some (sliceWindow s.len a b) ∧
      ((sliceWindow s.len a b).1 < (sliceWindow s.len a b).2 → r'.fields.accession ≠ F.accession) := by
  obtain ⟨t, h1, h2, _⟩ := read_write_sliced_exact reg F s a b hw hwin renumberGuard hne hcanon rest'
  refine ⟨t, _, _, h1, h2, ?_, rfl, rfl, ?_⟩
  · intro e
    have := congrArg Fields.region e
    exact absurd this (by simp [slicedHeaderRead, sliceRecord, ofSeq, sliceHeader, Fields.slice, Fields.withTopology])
  · intro hlt e
    have hnot : ¬ (sliceWindow s.len a b).2 ≤ (sliceWindow s.len a b).1 := by omega
    have : (F.accession ++ regionSuffix (sliceWindow s.len a b)).length = F.accession.length := congrArg List.length e
    simp [regionSuffix, hnot, bs] at this

/-- the witness by evaluation: the header the reader returns for the window `[2, 8)` is not the sliced
header -/
example : slicedHeaderRead sliceF sliceS.len 2 8 ≠ sliceHeader sliceF sliceS.len 2 8 := by decide +kernel

/-- **Byte fixed point for sliced records, every window**:
`write (read (write (slice r))) = write (slice r)`.  Under the hypotheses of
`read_write_sliced_exact` and the adjacency guard of `write_read_write_partial` on the ORIGINAL table
(`Slice` carries every `Props` along unchanged): `GenBank.String` of the sliced record gives `t`;
`GenBankParser` reads from `t` (followed by anything) the record of `read_write_sliced_exact` and ends
with the registry `reg'`; `GenBank.String` of THAT record under `reg'` is `t` again, byte for byte —
the REGION suffix that moved into the accession prints the same ACCESSION line. -/
theorem write_read_write_sliced (reg : Registry) (F : Fields) (s : Seq) (a b : Int)
    (hw : Writable reg (ofSeq F s) s.bytes = true) (hwin : sliceWindowOk s.len a b = true)
    (renumberGuard : renumberOk F.references = true)
    (hne : 0 < (s.slice a b).bytes.length ∨ F.contigAcc.isEmpty = true)
    (hcanon : ((sliceRecord F s a b).table.all fun f => Loc.canonP f.loc) = true)
    (namesAdjacent : tableAdjacent (ofSeq F s).table = true) (rest' : Bytes) :
    ∃ t r' reg', write reg (sliceRecord F s a b) = .ok t ∧
      genbankParser reg ⟨t ++ rest', []⟩ = (.ok (r', reg'), ⟨rest', []⟩) ∧
      r'.fields = slicedHeaderRead F s.len a b ∧
      write reg' r' = .ok t := by
  obtain ⟨hw', ho, _⟩ := writable_slice_partial reg F s a b hw hwin renumberGuard hne
  obtain ⟨t, h1, _, h2⟩ := GenBank.read_write reg (sliceRecord F s a b) (s.slice a b).bytes ho hw'
    (fun x hx => locRT_of_canon x.loc (List.all_eq_true.mp hcanon x hx)) rest'
  refine ⟨t, _, _, h1, h2, rfl, ?_⟩
  have hlen : (s.slice a b).bytes.length < 10 ^ 9 := (writable_parts reg _ _ hw').2.2.2.2.2.2.2
  rw [write_readBack reg _ (sameText_learnTable reg reg _ (sameText_refl reg)) (sliceRecord F s a b) _ ho hlen
    (tableAdjacent_slice F _ s a b namesAdjacent), h1]

/-- non-vacuity: the witness meets the adjacency guard -/
example : tableAdjacent (ofSeq sliceF sliceS).table = true := by decide +kernel

end Gts.C01
