/-
  C07 (further target): the never-panic statements about the go-pars primitives restated for the REGENERATED code.

  `Gts/Lemmas/ParsSafe*.lean` prove, for the hand-written model `Gts/Model/Pars.lean`, that from a state whose saved
  positions are SORTED (no saved position lies behind a younger one or behind the current one) no primitive panics
  (`Safe`: the one panic of the model is `Trail` behind a saved position).  `Gts/Bridge/ParsState|ParsPrim|ParsComb.lean`
  prove that stack.go, state.go and the primitive parsers of github.com/go-pars/pars v1.1.6, translated statement by
  statement on every run (`Gts/Gen/Pars.lean`), are those primitives read through the abstraction `absState`, Go panics
  included (`none`: index or slice out of range, the explicit `panic` of `Advance`).  Put together: the Go code itself
  — as it is in the module cache NOW — does not panic from any state that meets the representation invariant and
  whose abstraction is sorted; a fresh state (`pars.FromString`), which every string parser of gts starts from, is one.
  Hypotheses: `FillOk` (the read loop of `Request`), `EnvOk` (`ascii.IsDigit / IsSpace`, `strconv.Atoi`), more loop
  fuel than bytes left.
-/
import Gts.Bridge.ParsComb
import Gts.Bridge.ParsSeq
import Gts.Lemmas.GbSafe
namespace Gts.C07
open Gts.Gen.GoPars Gts.Bridge
open Gts.Pars (PS Bytes Err Safe Sorted Fr)

variable {ρ ε : Type}

/-- a generated run that agrees with a model run which does not panic has not panicked -/
theorem gen_agree_nopanic {α : Type} {pend : ρ → Option ε → Bytes} {val : α → ResultV → Prop}
    {r : Option (State ρ ε × ResultV × Option ε)} {m : Except Err α × PS}
    (h : Agree pend val r m) (hm : m.1 ≠ .error .panic) : r ≠ none := by
  obtain ⟨o, s'⟩ := m
  cases o with
  | ok a => obtain ⟨g', res, h1, _⟩ := h; simp [h1]
  | error e =>
    cases e with
    | fail => obtain ⟨g', res, e', h1, _⟩ := h; simp [h1]
    | panic => exact absurd rfl hm

/-- a model parser that is `Safe` does not panic from a sorted state -/
theorem safe_run_nopanic {α : Type} {p : Pars.P α} (hp : Safe p) (s : PS) (hs : Sorted s.rest.length s.stk) :
    (p.run' s).1 ≠ .error .panic :=
  (hp s.rest.length s.stk 0 s (Fr.init hs)).1

/-- **`Push`, `Pop`, `Drop`, `Clear` of the module cache never panic**, from any Go state that meets the representation
invariant — in particular `Pop` and `Drop` on an EMPTY stack (they test `Empty()` before they call `stack.Pop`, which
alone would index `v[-1]`) -/
theorem gen_stack_ops_nopanic (g : State ρ ε) (h : Inv g) :
    statePush g ≠ none ∧ statePop g ≠ none ∧ stateDrop g ≠ none ∧ stateClear g ≠ none := by
  let pend : ρ → Option ε → Bytes := fun _ _ => []
  obtain ⟨_, h1, _⟩ := push_sim pend g h
  obtain ⟨_, h2, _⟩ := pop_sim pend g h
  obtain ⟨_, h3, _⟩ := drop_sim pend g h
  obtain ⟨_, h4, _⟩ := clear_sim pend g h
  simp [h1, h2, h3, h4]

/-- **`pars.Trail` of the module cache never panics from a sorted state** (the slice `buf[off:end]` with `end < off` is
unreachable): for every Go state that meets the representation invariant and whose saved positions, read through the
abstraction, are sorted -/
theorem gen_trail_nopanic (env : Env ρ ε) (pend : ρ → Option ε → Bytes) (hf : FillOk env pend) (g : State ρ ε) (h : Inv g)
    (hs : Sorted (absState pend g).rest.length (absState pend g).stk) : parsTrail env g ≠ none := by
  have ht := trail_sim env pend hf g h
  rw [Pars.run_trail] at ht
  cases hst : (absState pend g).stk with
  | nil =>
    rw [hst] at ht
    obtain ⟨g', e, h1, _⟩ := ht
    simp [h1]
  | cons saved st =>
    rw [hst] at ht hs
    have : ¬ (saved.length < (absState pend g).rest.length) := by have := hs.1; omega
    simp only [this, if_false] at ht
    obtain ⟨g', e, h1, _⟩ := ht
    simp [h1]

/-- **`pars.Int` of the module cache never panics from a sorted state** -/
theorem gen_int_nopanic (env : Env ρ ε) (pend : ρ → Option ε → Bytes) (hf : FillOk env pend) (he : EnvOk env)
    (g : State ρ ε) (h : Inv g) (hs : Sorted (absState pend g).rest.length (absState pend g).stk)
    (fuel : Nat) (hfu : (absState pend g).rest.length < fuel) (res : ResultV) : parsInt env fuel g res ≠ none :=
  gen_agree_nopanic (int_sim env pend hf he g h fuel hfu res) (safe_run_nopanic Pars.int_safe _ hs)

/-- **`pars.Spaces`, `pars.Word(f)`, `pars.Line`, `pars.EOL`, `pars.Until(filter)`, `pars.Until(byte)` of the module cache never
panic from a sorted state** -/
theorem gen_tokens_nopanic (env : Env ρ ε) (pend : ρ → Option ε → Bytes) (hf : FillOk env pend) (he : EnvOk env)
    (g : State ρ ε) (h : Inv g) (hs : Sorted (absState pend g).rest.length (absState pend g).stk)
    (fuel : Nat) (hfu : (absState pend g).rest.length < fuel) (res : ResultV) (f : UInt8 → Bool) (e : UInt8) :
    parsSpaces env fuel g res ≠ none ∧ parsWord env fuel f g res ≠ none ∧ parsLine env fuel g res ≠ none ∧
    parsEOL env g res ≠ none ∧ parsUntilFilter env fuel f g res ≠ none ∧ parsUntilByte env fuel e g res ≠ none :=
  ⟨gen_agree_nopanic (spaces_sim env pend hf he g h fuel hfu res) (safe_run_nopanic Pars.spaces_safe _ hs),
   gen_agree_nopanic (word_sim env pend hf f g h fuel hfu res) (safe_run_nopanic (Pars.word_safe f) _ hs),
   gen_agree_nopanic (line_sim env pend hf g h fuel hfu res) (safe_run_nopanic Pars.line_safe _ hs),
   gen_agree_nopanic (eol_sim env pend hf g h res) (safe_run_nopanic Pars.eol_safe _ hs),
   gen_agree_nopanic (untilFilter_sim env pend hf f g h fuel hfu res) (safe_run_nopanic (GenBank.untilFilter_safe f) _ hs),
   gen_agree_nopanic (untilByte_sim env pend hf e g h fuel hfu res) (safe_run_nopanic (GenBank.untilFilter_safe _) _ hs)⟩

/-- **`pars.Byte(c)`, `pars.Bytes(p)`, `pars.String(s)` of the module cache never panic**, from any state that meets the
invariant (they push nothing and never call `Trail`) -/
theorem gen_literals_nopanic (env : Env ρ ε) (pend : ρ → Option ε → Bytes) (hf : FillOk env pend)
    (g : State ρ ε) (h : Inv g) (hs : Sorted (absState pend g).rest.length (absState pend g).stk)
    (res : ResultV) (c : UInt8) (p : Bytes) :
    parsByte env c g res ≠ none ∧ parsBytes env p g res ≠ none ∧ parsString env p g res ≠ none :=
  ⟨gen_agree_nopanic (byte_sim env pend hf c g h res) (safe_run_nopanic (Pars.byte_safe c) _ hs),
   gen_agree_nopanic (bytes_sim env pend hf p g h res) (safe_run_nopanic (Pars.lit_safe p) _ hs),
   gen_agree_nopanic (string_sim env pend hf p g h res) (safe_run_nopanic (Pars.lit_safe p) _ hs)⟩

/-- **`pars.Any(q…)` of the module cache never panics from a sorted state** when its alternatives simulate model parsers that
are `Safe` (never panic from sorted states, never pop a caller's frame, never move before their entry point).
SCOPE (audit S5): the hypothesis `SimP` asks for agreement from EVERY state and is false for every alternative that contains a
fuelled primitive (`pars.Int`, `Spaces`, `Word`, `Line`, `Until`: `Gts.Bridge.int_not_simP`); as stated this theorem covers
loop-free alternatives only.  The form that covers `ParseLocation`-like calls is `gen_any_nopanic_upTo`. -/
theorem gen_any_nopanic {α : Type} (env : Env ρ ε) (pend : ρ → Option ε → Bytes) (val : α → ResultV → Prop)
    (ps : List (GoParser ρ ε)) (ms : List (Pars.P α)) (h2 : Pars.All2 (fun p m => SimP pend val p m) ps ms)
    (hsafe : ∀ m ∈ ms, Safe m) (g : State ρ ε) (h : Inv g)
    (hs : Sorted (absState pend g).rest.length (absState pend g).stk) (res : ResultV) : parsAny env ps g res ≠ none :=
  gen_agree_nopanic (any_sim env pend val ps ms h2 g res h) (safe_run_nopanic (Pars.anyOf_safe ms hsafe) _ hs)

/-- **`Parser.Map(f)` of the module cache never panics from a sorted state** when its parser simulates a `Safe` model parser
and the mapping cannot fail.  SCOPE (audit S5): `SimP` is false for parsers that contain a fuelled primitive; see
`gen_map_nopanic_upTo` for those. -/
theorem gen_map_nopanic {α β : Type} (pend : ρ → Option ε → Bytes) (val : α → ResultV → Prop) (val' : β → ResultV → Prop)
    (p : GoParser ρ ε) (m : Pars.P α) (hp : SimP pend val p m) (hsafe : Safe m)
    (f : ResultV → ResultV × Option ε) (fn : α → β) (hfn : ∀ a r, val a r → (f r).2 = none ∧ val' (fn a) (f r).1)
    (g : State ρ ε) (h : Inv g) (hs : Sorted (absState pend g).rest.length (absState pend g).stk) (res : ResultV) :
    parsMap p f g res ≠ none :=
  gen_agree_nopanic (map_sim pend val val' p m hp f fn hfn g res h) (safe_run_nopanic (Pars.mapP_safe m fn hsafe) _ hs)

/-- **`pars.Any(q…)` of the module cache never panics, BOUNDED form** (audit S5; what changed against `gen_any_nopanic`: the
alternatives simulate their model parsers UP TO `L` — `SimPUpTo L`, which parsers built on `pars.Int`, `Spaces`, `Word`, `Line`,
`Until` have for `L` below their loop fuel — and the state has at most `L` bytes left at the position and at every saved
position, saved positions sorted: `Fr L [] 0`, what `Sorted` was before plus the bound). -/
theorem gen_any_nopanic_upTo {α : Type} (L : Nat) (env : Env ρ ε) (pend : ρ → Option ε → Bytes) (val : α → ResultV → Prop)
    (ps : List (GoParser ρ ε)) (ms : List (Pars.P α))
    (h2 : Pars.All2 (fun p m => SimPUpTo L pend val p m ∧ Safe m) ps ms) (g : State ρ ε) (h : Inv g)
    (hb : Fr L [] 0 (absState pend g)) (res : ResultV) : parsAny env ps g res ≠ none := by
  have hsafe : ∀ m ∈ ms, Safe m := by
    clear hb h
    induction h2 with
    | nil => intro m hm; cases hm
    | cons hpm _ ih =>
      intro m hm
      cases hm with
      | head => exact hpm.2
      | tail _ hm => exact ih m hm
  exact gen_agree_nopanic (any_simUpTo L env pend val ps ms h2 g res h hb)
    (safe_run_nopanic (Pars.anyOf_safe ms hsafe) _ hb.srt)

/-- **`Parser.Map(f)` of the module cache never panics, BOUNDED form** (what changed against `gen_map_nopanic`: `SimPUpTo L` and
`Fr L [] 0` for `SimP` and `Sorted`) -/
theorem gen_map_nopanic_upTo {α β : Type} (L : Nat) (pend : ρ → Option ε → Bytes) (val : α → ResultV → Prop)
    (val' : β → ResultV → Prop) (p : GoParser ρ ε) (m : Pars.P α) (hp : SimPUpTo L pend val p m) (hsafe : Safe m)
    (f : ResultV → ResultV × Option ε) (fn : α → β) (hfn : ∀ a r, val a r → (f r).2 = none ∧ val' (fn a) (f r).1)
    (g : State ρ ε) (h : Inv g) (hb : Fr L [] 0 (absState pend g)) (res : ResultV) :
    parsMap p f g res ≠ none :=
  gen_agree_nopanic (map_simUpTo L pend val val' p m hp f fn hfn g res h hb)
    (safe_run_nopanic (Pars.mapP_safe m fn hsafe) _ hb.srt)

/-- **`pars.Any(pars.Parser(pars.Int).Map(f), pars.Byte('^').Map(id))` of the module cache never panics** — the shape of
`ParseLocation` (location.go: `pars.Any(…, parsePoint, …)`, `parsePoint = pars.Parser(pars.Int).Map(…)`) with an `Int`-based
alternative: for every reader meeting `FillOk` / `EnvOk`, every loop fuel, every state meeting `Inv` whose abstraction is sorted
with fewer bytes than the fuel at the position and at every saved position, and every mapping that cannot fail on an integer. -/
theorem gen_any_int_nopanic (env : Env ρ ε) (pend : ρ → Option ε → Bytes) (hf : FillOk env pend) (he : EnvOk env)
    (fuel L : Nat) (hfu : L < fuel) (f : ResultV → ResultV × Option ε) (hmap : ∀ n, (f (ResultV.int n)).2 = none)
    (g : State ρ ε) (h : Inv g) (hb : Fr L [] 0 (absState pend g)) (res : ResultV) :
    parsAny env [parsMap (parsInt env fuel) f, parsMap (parsByte env 94) (fun r => (r, none))] g res ≠ none :=
  gen_agree_nopanic
    (any_int_point_simUpTo L env pend hf he fuel hfu (fun _ _ => True) f (fun n => ⟨hmap n, trivial⟩)
      (.point 0) (fun _ _ => trivial) g res h hb)
    (safe_run_nopanic (Pars.anyOf_safe _ (by
      intro m hm
      cases hm with
      | head => exact Pars.mapP_safe _ _ Pars.int_safe
      | tail _ hm =>
        cases hm with
        | head => exact Pars.mapP_safe _ _ (Pars.byte_safe 94)
        | tail _ hm => cases hm)) _ hb.srt)

/-- non-vacuity of `gen_any_int_nopanic` (and through it of `gen_any_nopanic_upTo`, `any_simUpTo`, `map_simUpTo`, `int_simUpTo`): the
demo reader, loop fuel 10, bound 9, the fresh state over `12^` -/
example : parsAny demoEnv [parsMap (parsInt demoEnv 10) (fun r => (r, none)), parsMap (parsByte demoEnv 94) (fun r => (r, none))]
    (freshState [] [49, 50, 94]) .unset ≠ none :=
  gen_any_int_nopanic demoEnv demoPend demo_fillOk demo_envOk 10 9 (by decide) _ (fun _ => rfl) _ (fresh_inv _ _)
    (by rw [fresh_abs]; exact ⟨⟨[], rfl, Nat.le_refl _, fun _ hf => nomatch hf⟩, by decide, trivial⟩) _

/-- **`pars.Seq(p, q)` of the module cache never panics, BOUNDED form**: the loop over the parsers reads and writes the cells
`v[0]`, `v[1]` of the slice `make([]Result, len(ps))` built (never out of range), and neither member panics — when the members
simulate, up to `L`, model parsers that are `Safe`, from every state that meets `Inv` and whose abstraction has at most `L` bytes
left at the position and at every saved position, saved positions sorted (`Fr L [] 0`). -/
theorem gen_seq_nopanic_upTo {α β : Type} (L : Nat) (env : Env ρ ε) (pend : ρ → Option ε → Bytes)
    (va : α → ResultV → Prop) (vb : β → ResultV → Prop) (p q : GoParser ρ ε) (m : Pars.P α) (n : Pars.P β)
    (hp : SimPUpTo L pend va p m) (hm : Safe m) (hq : SimPUpTo L pend vb q n) (hn : Safe n)
    (g : State ρ ε) (h : Inv g) (hb : Fr L [] 0 (absState pend g)) (res : ResultV) :
    parsSeq env [p, q] g res ≠ none :=
  gen_agree_nopanic (seq_simUpTo L env pend va vb p q m n hp hm hq g res h hb)
    (safe_run_nopanic (Pars.seq2_safe m n hm hn) _ hb.srt)

/-- **`pars.Seq(p, q, r)` of the module cache never panics, BOUNDED form** (three members, as `gen_seq_nopanic_upTo`) -/
theorem gen_seq3_nopanic_upTo {α β γ : Type} (L : Nat) (env : Env ρ ε) (pend : ρ → Option ε → Bytes)
    (va : α → ResultV → Prop) (vb : β → ResultV → Prop) (vc : γ → ResultV → Prop) (p q r : GoParser ρ ε)
    (m : Pars.P α) (n : Pars.P β) (o : Pars.P γ)
    (hp : SimPUpTo L pend va p m) (hm : Safe m) (hq : SimPUpTo L pend vb q n) (hn : Safe n)
    (hr : SimPUpTo L pend vc r o) (ho : Safe o)
    (g : State ρ ε) (h : Inv g) (hb : Fr L [] 0 (absState pend g)) (res : ResultV) :
    parsSeq env [p, q, r] g res ≠ none :=
  gen_agree_nopanic (seq3_simUpTo L env pend va vb vc p q r m n o hp hm hq hn hr g res h hb)
    (safe_run_nopanic (Pars.seq3_safe m n o hm hn ho) _ hb.srt)

/-- **`pars.Seq(c, pars.Int).Child(1)` of the module cache never panics** — the first alternative of `parseHead` / `parseTail`
(modifier.go): `Child(1)` indexes the two children `Seq` answered, never outside; for every reader meeting `FillOk` / `EnvOk`, every
loop fuel above the bound, every state meeting `Inv` and `Fr L [] 0`. -/
theorem gen_seq_int_child_nopanic (env : Env ρ ε) (pend : ρ → Option ε → Bytes) (hf : FillOk env pend) (he : EnvOk env)
    (fuel L : Nat) (hfu : L < fuel) (c : UInt8) (g : State ρ ε) (h : Inv g) (hb : Fr L [] 0 (absState pend g))
    (res : ResultV) : parsParserChild env (parsSeq env [parsByte env c, parsInt env fuel]) 1 g res ≠ none :=
  gen_agree_nopanic
    (child_simUpTo L env pend _ (fun n r => r = ResultV.int n) _ _
      (seq_simUpTo L env pend _ _ _ _ _ _ (byte_simUpTo L env pend hf c) (Pars.byte_safe c)
        (int_simUpTo L env pend hf he fuel hfu)) 1 (·.2)
      (fun ab r ⟨ra, rb, hr, _, hb⟩ => ⟨[ra, rb], hr, by simp, by simpa using hb⟩) g res h hb)
    (safe_run_nopanic (Pars.mapP_safe _ _ (Pars.seq2_safe _ _ (Pars.byte_safe c) Pars.int_safe)) _ hb.srt)

/-- **`pars.Exact(p)` of the module cache never panics, BOUNDED form**, from a state at the head of the input (what
`pars.FromString` builds): `Child(1)` finds the three children of `Seq(Head, p, End)`. -/
theorem gen_exact_nopanic_upTo {α : Type} (L : Nat) (env : Env ρ ε) (pend : ρ → Option ε → Bytes) (hf : FillOk env pend)
    (val : α → ResultV → Prop) (p : GoParser ρ ε) (m : Pars.P α) (hp : SimPUpTo L pend val p m) (hm : Safe m)
    (g : State ρ ε) (h : Inv g) (hb : Fr L [] 0 (absState pend g)) (hhead : positionHead (statePosition g) = true)
    (res : ResultV) : parsExact env p g res ≠ none :=
  gen_agree_nopanic (exact_simUpTo L env pend hf val p m hp hm g res h hb hhead)
    (safe_run_nopanic (Pars.exact_safe m hm) _ hb.srt)

/-- non-vacuity of `gen_seq_int_child_nopanic` (and through it of `seq_simUpTo`, `child_simUpTo`), of `gen_seq_nopanic_upTo` and of
`gen_exact_nopanic_upTo`: the demo reader, loop fuel 10, bound 9, the fresh state over `^+12` -/
example : parsParserChild demoEnv (parsSeq demoEnv [parsByte demoEnv 94, parsInt demoEnv 10]) 1
    (freshState [] [94, 43, 49, 50]) .unset ≠ none :=
  gen_seq_int_child_nopanic demoEnv demoPend demo_fillOk demo_envOk 10 9 (by decide) 94 _ (fresh_inv _ _)
    (by rw [fresh_abs]; exact ⟨⟨[], rfl, Nat.le_refl _, fun _ hf => nomatch hf⟩, by decide, trivial⟩) _

example : parsSeq demoEnv [parsByte demoEnv 94, parsInt demoEnv 10] (freshState [] [94, 43, 49, 50]) .unset ≠ none :=
  gen_seq_nopanic_upTo 9 demoEnv demoPend _ _ _ _ _ _ (byte_simUpTo 9 demoEnv demoPend demo_fillOk 94) (Pars.byte_safe 94)
    (int_simUpTo 9 demoEnv demoPend demo_fillOk demo_envOk 10 (by decide)) Pars.int_safe _ (fresh_inv _ _)
    (by rw [fresh_abs]; exact ⟨⟨[], rfl, Nat.le_refl _, fun _ hf => nomatch hf⟩, by decide, trivial⟩) _

example : parsExact demoEnv (parsInt demoEnv 10) (freshState [] [43, 49, 50]) .unset ≠ none :=
  gen_exact_nopanic_upTo 9 demoEnv demoPend demo_fillOk _ _ _
    (int_simUpTo 9 demoEnv demoPend demo_fillOk demo_envOk 10 (by decide)) Pars.int_safe _ (fresh_inv _ _)
    (by rw [fresh_abs]; exact ⟨⟨[], rfl, Nat.le_refl _, fun _ hf => nomatch hf⟩, by decide, trivial⟩) (by decide) _

/-- the state `pars.FromString(s)` / `pars.FromBytes(p)` builds meets the invariant and is sorted (nothing is saved yet): every
theorem above applies to the state the string parsers of gts start from -/
theorem gen_fresh_ok (pend : ρ → Option ε → Bytes) (rd : ρ) (p : Bytes) :
    Inv (freshState (ε := ε) rd p) ∧
    Sorted (absState pend (freshState rd p)).rest.length (absState pend (freshState rd p)).stk := by
  refine ⟨fresh_inv rd p, ?_⟩
  rw [fresh_abs]; trivial

/-! ### non-vacuity: the hypotheses are met by a concrete reader and a concrete input -/

/-- `gen_int_nopanic` at the fresh state over `-12x` held by the demo reader (empty buffer, everything pending) -/
example : parsInt demoEnv 10 (freshState [45, 49, 50, 120] []) .unset ≠ none :=
  gen_int_nopanic demoEnv demoPend demo_fillOk demo_envOk _ (fresh_inv _ _) (gen_fresh_ok demoPend _ _).2 10
    (by rw [fresh_abs]; decide) _

/-- … and what it answers there: −12, the `x` is next, nothing stays pushed -/
example : (parsInt demoEnv 10 (freshState [45, 49, 50, 120] []) .unset).map
    (fun t => (t.2.1, t.2.2, (absState demoPend t.1).rest, (absState demoPend t.1).stk)) =
    some (.int (-12), none, [120], []) := by decide

/-- `gen_tokens_nopanic` at the fresh state over a buffered line -/
example : parsLine demoEnv 10 (freshState (ρ := Bytes) (ε := Unit) [] [97, 98, 10, 99]) .unset ≠ none :=
  (gen_tokens_nopanic demoEnv demoPend demo_fillOk demo_envOk _ (fresh_inv _ _) (gen_fresh_ok demoPend _ _).2 10
    (by rw [fresh_abs]; decide) _ (fun _ => true) 0).2.2.1

/-- the hypothesis "sorted" is needed: `Trail` DOES panic when the youngest saved position lies behind the current one -/
example : parsTrail demoEnv (⟨[], [1, 2, 3], 1, -1, none, ⟨0, 0⟩, ⟨[⟨0, ⟨0, 0⟩⟩, ⟨2, ⟨0, 2⟩⟩], 2⟩⟩ : State Bytes Unit) = none := by
  decide

/-- `gen_stack_ops_nopanic` on the fresh state: `Pop` and `Drop` with nothing pushed do nothing -/
example : (statePop (freshState (ρ := Bytes) (ε := Unit) [] [1, 2])).map (fun g => (g.off, g.stk.i)) = some (0, 0) ∧
    (stateDrop (freshState (ρ := Bytes) (ε := Unit) [] [1, 2])).map (fun g => (g.off, g.stk.i)) = some (0, 0) := by decide
end Gts.C07
