/-
  C06 — location text round-trips; join reduction never changes the denoted bases.
  Property theorems only (helper lemmas live in Gts/Lemmas).
-/
import Gts.Lemmas.Push
import Gts.Model.LocText
namespace Gts.C06
open Gts Loc

/-- FULL STATEMENT (false today, known finding K2):
      `∀ xs, wfList xs → den (join xs) ≼ denList xs`.
    Refuted by the pinned reduction `Join(Range(3,6), Point(6)) = Range(3,6)`: -/
theorem join_den_full_refuted :
    ¬ (∀ xs, wfList xs = true → den (join xs) ≼ denList xs) := by
  intro h
  have := (h [ranged 3 6 false false, point 6] (by decide)).2 (6, false) (by decide)
  revert this
  decide

/-- The reductions applied by `Join` (dropping duplicates, merging abutting ranges, absorbing
zero-length sites, re-joining complemented pairs in reverse order) never change the set or the
order of the residues the location denotes — for every argument list of well-formed locations,
every arity and nesting, provided the pinned rule K2 (`Ranged` then `Point` at its `End`) does
not fire (`joinAbs xs = false`). -/
theorem join_den_partial (xs : List Loc) (hw : wfList xs = true) (hk2 : joinAbs xs = false) :
    den (join xs) ≼ denList xs := join_den xs hw hk2

/-- … and for duplicate-free arguments (every real feature) the denotation is *equal*. -/
theorem join_den_eq_partial (xs : List Loc) (hw : wfList xs = true) (hk2 : joinAbs xs = false)
    (hnd : (denList xs).Nodup) : den (join xs) = denList xs :=
  (join_den xs hw hk2).eq_of_nodup hnd

/-- the same for a single `Push` step at any nesting fuel, with or without `force` -/
theorem push_den_partial (d : Nat) (racc : List Loc) (x : Loc) (force : Bool)
    (hr : wfList racc = true) (hx : wf x = true) (hk2 : absD d racc x force = false) :
    denR (pushD d racc x force) ≼ (denR racc ++ den x) := (pushD_ok d).den racc x force hr hx hk2

/-- `Join` keeps well-formedness (every range non-empty) -/
theorem join_wf (xs : List Loc) (hw : wfList xs = true) : wf (join xs) = true := Loc.join_wf xs hw

/-- non-vacuity: a concrete multi-rule argument list satisfies the hypotheses -/
example : wfList [compl (ranged 6 9 false false), compl (ranged 3 6 false false), point 1, point 1] = true
    ∧ joinAbs [compl (ranged 6 9 false false), compl (ranged 3 6 false false), point 1, point 1] = false := by
  decide

end Gts.C06
