/-
  C06 — location text round-trips; join reduction never changes the denoted bases.
  Property theorems only (helper lemmas live in Gts/Lemmas).
-/
import Gts.Lemmas.Push
import Gts.Lemmas.LocRoundTrip
namespace Gts.C06
open Gts Loc Pars

/-- FULL STATEMENT (false today, known finding K2):
      `∀ xs, wfList xs → den (join xs) ≼ denList xs`.
    Refuted by the pinned reduction `Join(Range(3,6), Point(6)) = Range(3,6)`: -/
theorem join_den_full_refuted :
    ¬ (∀ xs, wfList xs = true → den (join xs) ≼ denList xs) := by
  intro h
  have := (h [ranged 3 6 false false, point 6] (by decide)).2 (6, false) (by decide)
  revert this
  decide

/-- The reductions applied by `Join` (dropping duplicates, merging abutting ranges, absorbing
zero-length sites, re-joining complemented pairs in reverse order) never change the set or the
order of the residues the location denotes — for every argument list of well-formed locations,
every arity and nesting, provided the pinned rule K2 (`Ranged` then `Point` at its `End`) does
not fire (`joinAbs xs = false`). -/
theorem join_den_partial (xs : List Loc) (hw : wfList xs = true) (hk2 : joinAbs xs = false) :
    den (join xs) ≼ denList xs := join_den xs hw hk2

/-- … and for duplicate-free arguments (every real feature) the denotation is *equal*. -/
theorem join_den_eq_partial (xs : List Loc) (hw : wfList xs = true) (hk2 : joinAbs xs = false)
    (hnd : (denList xs).Nodup) : den (join xs) = denList xs :=
  (join_den xs hw hk2).eq_of_nodup hnd

/-- the same for a single `Push` step at any nesting fuel, with or without `force` -/
theorem push_den_partial (d : Nat) (racc : List Loc) (x : Loc) (force : Bool)
    (hr : wfList racc = true) (hx : wf x = true) (hk2 : absD d racc x force = false) :
    denR (pushD d racc x force) ≼ (denR racc ++ den x) := (pushD_ok d).den racc x force hr hx hk2

/-- `Join` keeps well-formedness (every range non-empty) -/
theorem join_wf (xs : List Loc) (hw : wfList xs = true) : wf (join xs) = true := Loc.join_wf xs hw

/-- non-vacuity: a concrete multi-rule argument list satisfies the hypotheses -/
example : wfList [compl (ranged 6 9 false false), compl (ranged 3 6 false false), point 1, point 1] = true
    ∧ joinAbs [compl (ranged 6 9 false false), compl (ranged 3 6 false false), point 1, point 1] = false := by
  decide


/-! ### print → parse round trip -/

/-- The induction statement behind the round trip: `ParseLocation` (the recursive parser
`LocParse.loc` with `f` units of recursion fuel), started on the printed form of a canonical
location `l` followed by a delimiter-led continuation `rest` (end of input, `,` or `)`), with
any backtracking stack `stk`, returns exactly `l`, consumes exactly the printed form and leaves
the stack as it found it — for every nesting depth and arity, provided `f ≥ need l`. -/
theorem parse_print_fuel (l : Loc) (h : canonP l = true) (f : Nat) (rest : Bytes) (stk : List Bytes)
    (hf : need l ≤ f) (hd : Delim rest) :
    LocParse.loc f ⟨printB l ++ rest, stk⟩ = (.ok l, ⟨rest, stk⟩) :=
  loc_printB l h f rest stk hf hd

/-- the fuel `AsLocation` starts with (`input.length + 2`) is always enough: every nesting level
prints more bytes than it needs fuel -/
theorem need_le_printed (l : Loc) : need l ≤ (printB l).length := need_le_length l

/-- `AsLocation` on a printed canonical location followed by a delimiter-led rest: the location
comes back and exactly `rest` is left unconsumed. -/
theorem parse_print_rest (l : Loc) (h : canonP l = true) (rest : Bytes) (hd : Delim rest) :
    parseLocation (printB l ++ rest) = .ok (l, rest) := by
  have hf : need l ≤ (printB l ++ rest).length + 2 := by
    have := need_le_length l
    simp only [List.length_append]
    omega
  exact parseLocation_of_run _ _ _ (loc_printB l h _ rest [] hf hd)

/-- **C06, first clause**: for every canonical location value — any nesting depth, any arity,
every partial-marker combination — parsing its printed form gives back *the same value* with
nothing left over. -/
theorem parse_print (l : Loc) (h : canonP l = true) : parseLocation (printB l) = .ok (l, []) := by
  have := parse_print_rest l h [] trivial
  rwa [List.append_nil] at this

/-- … in the property's wording: whatever `AsLocation` returns on the printed form prints
identically, denotes the same ordered, stranded residues, and is the same value (so it carries
the same partial markers); nothing is left unconsumed. -/
theorem print_parse_print (l : Loc) (h : canonP l = true) (l' : Loc) (rest : Bytes)
    (hp : parseLocation (printB l) = .ok (l', rest)) :
    printB l' = printB l ∧ den l' = den l ∧ l' = l ∧ rest = [] := by
  rw [parse_print l h] at hp
  cases hp
  exact ⟨rfl, rfl, rfl, rfl⟩

/-- `AsLocation ∘ String` is idempotent on the printed form (print is a fixed point of
parse-then-print for printed canonical values). -/
theorem print_fixed_point (l : Loc) (h : canonP l = true) :
    (parseLocation (printB l)).map (fun r => printB r.1) = .ok (printB l) := by
  rw [parse_print l h]; rfl

/-- The legacy spelling of the 3' partial marker, `a..b>` (marker *after* the end coordinate),
reads as the same `Ranged` value as the printed spelling `a..>b`. -/
theorem parse_legacy_marker (s e : Int) (p5 : Bool) (hs : coordOk s = true) (he : coordOk e = true) :
    parseLocation (printB (ranged s e p5 false) ++ [62]) = .ok (ranged s e p5 true, []) ∧
    parseLocation (printB (ranged s e p5 true)) = .ok (ranged s e p5 true, []) := by
  refine ⟨?_, parse_print _ (by simp [canonP, hs, he])⟩
  obtain ⟨a, rfl, ha⟩ := coordOk_nat hs
  obtain ⟨b, rfl, hb⟩ := coordOk_nat he
  apply parseLocation_of_run
  rw [printB, dec_ofNat, dec_succ]
  simp only [List.append_assoc, List.cons_append, List.nil_append, Bool.false_eq_true, ↓reduceIte]
  have h := loc_ranged_legacy ((if p5 = true then [60] else []) ++
      (natDigits (a + 1) ++ 46 :: 46 :: (natDigits b ++ [62]))).length.succ (a + 1) b p5 false [] []
    (by omega) (by omega)
  rw [show ((a + 1 : Nat) : Int) - 1 = (a : Int) by omega] at h
  simp only [List.nil_append, Bool.false_eq_true, ↓reduceIte] at h
  exact h

/-- non-vacuity: a nested complement-strand join with partial markers, inside a join next to a
range and an order of an ambiguous span and a between-site, is canonical … -/
example : canonP (joined [compl (joined [ranged 0 3 true false, point 7]), ranged 10 20 false true,
    ordered [ambiguous 30 40, between 50]]) = true := by decide

/-- … its printed form is the expected INSDC text … -/
example : printB (joined [compl (joined [ranged 0 3 true false, point 7]), ranged 10 20 false true,
    ordered [ambiguous 30 40, between 50]]) =
    str "join(complement(join(<1..3,8)),11..>20,order(31.40,50^51))" := by decide +kernel

/-- … and a canonical value need not be reduced any further: `canonP` holds for what `Join`
builds (here the merge of two abutting ranges and a duplicate point). -/
example : canonP (join [ranged 0 3 true false, ranged 3 6 false false, point 9, point 9]) = true := by
  decide

/-- decidable check "the parse result is exactly `(l, [])`" (the nested type has no
`DecidableEq`; `Loc.beq` is sound by `Loc.beq_eq`) -/
def parsesTo (s : Pars.Bytes) (l : Loc) : Bool :=
  match parseLocation s with
  | .ok (l', r) => l'.beq l && r.isEmpty
  | _ => false

theorem parsesTo_sound (s : Pars.Bytes) (l : Loc) (h : parsesTo s l = true) :
    parseLocation s = .ok (l, []) := by
  unfold parsesTo at h
  split at h
  · rename_i l' r heq
    simp only [Bool.and_eq_true, List.isEmpty_iff] at h
    rw [heq, Loc.beq_eq l' l h.1, h.2]
  · cases h

/-- SECOND CLAUSE, FULL STATEMENT (false today, known finding K3): "for every string the parser
accepts, printing the result is a fixed point of parse-then-print".  The parser builds joins
with `Join`, and `Join` is not idempotent: the parts of `join(4,3^4,4)` reduce to
`join(4,4)` (the between-site is replaced by the following point without re-checking the
predecessor), whose parts reduce to `4`.  The string-level witness `join(4,3^4,4)` is replayed
on the real parser and on the parser model on every run (known_findings.json, K3). -/
theorem join_not_idempotent_refuted :
    ¬ (∀ xs : List Loc, ∀ ys, join xs = joined ys → join ys = joined ys) := by
  intro h
  have h1 : join [point 3, between 3, point 3] = joined [point 3, point 3] :=
    Loc.beq_eq _ _ (by decide)
  have h2 := h _ _ h1
  have h3 : join [point 3, point 3] = point 3 := Loc.beq_eq _ _ (by decide)
  rw [h3] at h2
  cases h2

/-- second clause, proved part: whenever the accepted string parses to a canonical value (every
result of the parser except the K3 shape, where a replacing push leaves a reducible pair
behind), printing it is a fixed point of parse-then-print. -/
theorem accepted_fixed_point_partial (s : Pars.Bytes) (l : Loc) (r : Pars.Bytes)
    (_hp : parseLocation s = .ok (l, r)) (hc : canonP l = true) :
    parseLocation (printB l) = .ok (l, []) := parse_print l hc

end Gts.C06
