/-
  C06 — location text round-trips; join reduction never changes the denoted bases.
  Property theorems only (helper lemmas live in Gts/Lemmas).
-/
import Gts.Lemmas.Push
import Gts.Lemmas.LocRoundTrip
import Gts.Lemmas.CanonKeys
import Gts.Lemmas.CanonRead
import Gts.Lemmas.ParseInv
import Gts.Lemmas.ParseSim
import Gts.Lemmas.ParseK3Guard
import Gts.Lemmas.ParseGuardEx
import Gts.Lemmas.ParseCoords
namespace Gts.C06
open Gts Loc Pars

/-- FULL STATEMENT (false today, known finding K2):
      `∀ xs, wfList xs → den (join xs) ≼ denList xs`.
    Refuted by the pinned reduction `Join(Range(3,6), Point(6)) = Range(3,6)`: -/
theorem join_den_full_refuted :
    ¬ (∀ xs, wfList xs = true → den (join xs) ≼ denList xs) := by
  intro h
  have := (h [ranged 3 6 false false, point 6] (by decide)).2 (6, false) (by decide)
  revert this
  decide

/-- The reductions applied by `Join` (dropping duplicates, merging abutting ranges, absorbing
zero-length sites, re-joining complemented pairs in reverse order) never change the set or the
order of the residues the location denotes — for every argument list of well-formed locations,
every arity and nesting, provided the pinned rule K2 (`Ranged` then `Point` at its `End`) does
not fire (`joinAbs xs = false`). -/
theorem join_den_partial (xs : List Loc) (hw : wfList xs = true) (hk2 : joinAbs xs = false) :
    den (join xs) ≼ denList xs := join_den xs hw hk2

/-- … and for duplicate-free arguments (every real feature) the denotation is *equal*. -/
theorem join_den_eq_partial (xs : List Loc) (hw : wfList xs = true) (hk2 : joinAbs xs = false)
    (hnd : (denList xs).Nodup) : den (join xs) = denList xs :=
  (join_den xs hw hk2).eq_of_nodup hnd

/-- the same for a single `Push` step at any nesting fuel, with or without `force` -/
theorem push_den_partial (d : Nat) (racc : List Loc) (x : Loc) (force : Bool)
    (hr : wfList racc = true) (hx : wf x = true) (hk2 : absD d racc x force = false) :
    denR (pushD d racc x force) ≼ (denR racc ++ den x) := (pushD_ok d).den racc x force hr hx hk2

/-- `Join` keeps well-formedness (every range non-empty) -/
theorem join_wf (xs : List Loc) (hw : wfList xs = true) : wf (join xs) = true := Loc.join_wf xs hw

/-- non-vacuity: a concrete multi-rule argument list satisfies the hypotheses -/
example : wfList [compl (ranged 6 9 false false), compl (ranged 3 6 false false), point 1, point 1] = true
    ∧ joinAbs [compl (ranged 6 9 false false), compl (ranged 3 6 false false), point 1, point 1] = false := by
  decide


/-! ### print → parse round trip -/

/-- The induction statement behind the round trip: `ParseLocation` (the recursive parser
`LocParse.loc` with `f` units of recursion fuel), started on the printed form of a canonical
location `l` followed by a delimiter-led continuation `rest` (end of input, `,` or `)`), with
any backtracking stack `stk`, returns exactly `l`, consumes exactly the printed form and leaves
the stack as it found it — for every nesting depth and arity, provided `f ≥ need l`. -/
theorem parse_print_fuel (l : Loc) (h : canonP l = true) (f : Nat) (rest : Bytes) (stk : List Bytes)
    (hf : need l ≤ f) (hd : Delim rest) :
    LocParse.loc f ⟨printB l ++ rest, stk⟩ = (.ok l, ⟨rest, stk⟩) :=
  loc_printB l h f rest stk hf hd

/-- the fuel `AsLocation` starts with (`input.length + 2`) is always enough: every nesting level
prints more bytes than it needs fuel -/
theorem need_le_printed (l : Loc) : need l ≤ (printB l).length := need_le_length l

/-- `AsLocation` on a printed canonical location followed by a delimiter-led rest: the location
comes back and exactly `rest` is left unconsumed. -/
theorem parse_print_rest (l : Loc) (h : canonP l = true) (rest : Bytes) (hd : Delim rest) :
    parseLocation (printB l ++ rest) = .ok (l, rest) := by
  have hf : need l ≤ (printB l ++ rest).length + 2 := by
    have := need_le_length l
    simp only [List.length_append]
    omega
  exact parseLocation_of_run _ _ _ (loc_printB l h _ rest [] hf hd)

/-- **C06, first clause**: for every canonical location value — any nesting depth, any arity,
every partial-marker combination — parsing its printed form gives back *the same value* with
nothing left over. -/
theorem parse_print (l : Loc) (h : canonP l = true) : parseLocation (printB l) = .ok (l, []) := by
  have := parse_print_rest l h [] trivial
  rwa [List.append_nil] at this

/-- … in the property's wording: whatever `AsLocation` returns on the printed form prints
identically, denotes the same ordered, stranded residues, and is the same value (so it carries
the same partial markers); nothing is left unconsumed. -/
theorem print_parse_print (l : Loc) (h : canonP l = true) (l' : Loc) (rest : Bytes)
    (hp : parseLocation (printB l) = .ok (l', rest)) :
    printB l' = printB l ∧ den l' = den l ∧ l' = l ∧ rest = [] := by
  rw [parse_print l h] at hp
  cases hp
  exact ⟨rfl, rfl, rfl, rfl⟩

/-- `AsLocation ∘ String` is idempotent on the printed form (print is a fixed point of
parse-then-print for printed canonical values). -/
theorem print_fixed_point (l : Loc) (h : canonP l = true) :
    (parseLocation (printB l)).map (fun r => printB r.1) = .ok (printB l) := by
  rw [parse_print l h]; rfl

/-- The legacy spelling of the 3' partial marker, `a..b>` (marker *after* the end coordinate),
reads as the same `Ranged` value as the printed spelling `a..>b`. -/
theorem parse_legacy_marker (s e : Int) (p5 : Bool) (hs : coordOk s = true) (he : coordOk e = true) :
    parseLocation (printB (ranged s e p5 false) ++ [62]) = .ok (ranged s e p5 true, []) ∧
    parseLocation (printB (ranged s e p5 true)) = .ok (ranged s e p5 true, []) := by
  refine ⟨?_, parse_print _ (by simp [canonP, hs, he])⟩
  obtain ⟨a, rfl, ha⟩ := coordOk_nat hs
  obtain ⟨b, rfl, hb⟩ := coordOk_nat he
  apply parseLocation_of_run
  rw [printB, dec_ofNat, dec_succ]
  simp only [List.append_assoc, List.cons_append, List.nil_append, Bool.false_eq_true, ↓reduceIte]
  have h := loc_ranged_legacy ((if p5 = true then [60] else []) ++
      (natDigits (a + 1) ++ 46 :: 46 :: (natDigits b ++ [62]))).length.succ (a + 1) b p5 false [] []
    (by omega) (by omega)
  rw [show ((a + 1 : Nat) : Int) - 1 = (a : Int) by omega] at h
  simp only [List.nil_append, Bool.false_eq_true, ↓reduceIte] at h
  exact h

/-- non-vacuity: a nested complement-strand join with partial markers, inside a join next to a
range and an order of an ambiguous span and a between-site, is canonical … -/
example : canonP (joined [compl (joined [ranged 0 3 true false, point 7]), ranged 10 20 false true,
    ordered [ambiguous 30 40, between 50]]) = true := by decide

/-- … its printed form is the expected INSDC text … -/
example : printB (joined [compl (joined [ranged 0 3 true false, point 7]), ranged 10 20 false true,
    ordered [ambiguous 30 40, between 50]]) =
    str "join(complement(join(<1..3,8)),11..>20,order(31.40,50^51))" := by decide +kernel

/-- … and a canonical value need not be reduced any further: `canonP` holds for what `Join`
builds (here the merge of two abutting ranges and a duplicate point). -/
example : canonP (join [ranged 0 3 true false, ranged 3 6 false false, point 9, point 9]) = true := by
  decide

/-- decidable check "the parse result is exactly `(l, [])`" (the nested type has no
`DecidableEq`; `Loc.beq` is sound by `Loc.beq_eq`) -/
def parsesTo (s : Pars.Bytes) (l : Loc) : Bool :=
  match parseLocation s with
  | .ok (l', r) => l'.beq l && r.isEmpty
  | _ => false

theorem parsesTo_sound (s : Pars.Bytes) (l : Loc) (h : parsesTo s l = true) :
    parseLocation s = .ok (l, []) := by
  unfold parsesTo at h
  split at h
  · rename_i l' r heq
    simp only [Bool.and_eq_true, List.isEmpty_iff] at h
    rw [heq, Loc.beq_eq l' l h.1, h.2]
  · cases h

/-- SECOND CLAUSE, FULL STATEMENT (false today, known finding K3): "for every string the parser
accepts, printing the result is a fixed point of parse-then-print".  The parser builds joins
with `Join`, and `Join` is not idempotent: the parts of `join(4,3^4,4)` reduce to
`join(4,4)` (the between-site is replaced by the following point without re-checking the
predecessor), whose parts reduce to `4`.  The string-level witness `join(4,3^4,4)` is replayed
on the real parser and on the parser model on every run (known_findings.json, K3). -/
theorem join_not_idempotent_refuted :
    ¬ (∀ xs : List Loc, ∀ ys, join xs = joined ys → join ys = joined ys) := by
  intro h
  have h1 : join [point 3, between 3, point 3] = joined [point 3, point 3] :=
    Loc.beq_eq _ _ (by decide)
  have h2 := h _ _ h1
  have h3 : join [point 3, point 3] = point 3 := Loc.beq_eq _ _ (by decide)
  rw [h3] at h2
  cases h2

/-- second clause, what IS proved — a COROLLARY OF THE ROUND TRIP `parse_print`, not a theorem about
strings (audit finding S7): IF the value an accepted string parses to is canonical (`canonP`), printing
it is a fixed point of parse-then-print.  The string hypothesis `_hp` is not used, and NO theorem says
that the parser's results are canonical: they are not, in general — `-5` is accepted with the
non-canonical value `point (-6)` (evaluation only, see the note below) and `accepted_fixed_point_full_refuted` (K3 at string
level).  For a `Joined` result the guard contains the conclusion (`canonP (joined ls)` includes
`join ls = joined ls`).  The clause "for EVERY accepted string" is covered by the correspondence run and
the Go oracle only. -/
theorem accepted_fixed_point_partial (s : Pars.Bytes) (l : Loc) (r : Pars.Bytes)
    (_hp : parseLocation s = .ok (l, r)) (hc : canonP l = true) :
    parseLocation (printB l) = .ok (l, []) := parse_print l hc

/- NOT PROVED (audit S7, `accepted_negative_not_canon`): "the text `-5` is accepted by `ParseLocation` — `pars.Int`
reads a sign — as the point `-6` (0-based), whose `canonP` is false".  `canonP (point (-6)) = false` is `by decide`;
`parseLocation [45, 53] = .ok (point (-6), [])` is what the model EVALUATES to (`#eval`) and what the real parser
answers (`loc.parse x2d35` in the correspondence run), but the fuelled parser does not reduce in the kernel
(`decide` / `decide +kernel` / `rfl` are stuck) and no lemma covers a signed coordinate, so it is not a theorem. -/
example : canonP (point (-6)) = false := by decide

/-! ### canonical locations are closed under the edit operations (as far as that is true)

`Loc.canonP` is the domain of the round trip above.  The locations of an edited record are built by
`Location.Shift / Expand / Reverse / Normalize / Complement`; each of them maps the parts of a `Joined`
and re-applies `Join`.  `Join` is not idempotent (K3 above): a REPLACING push (`Between{p}` replaced by
a following `Point{p}` / `Ranged{p, …}`) does not look at the element in front of the replaced one,
so parts `… p, p^p+1, p …` reduce to `… p, p`, which a second `Join` — the one `ParseLocation`
applies to the printed text — reduces again.  `Loc.k3One` is exactly that shape at one push;
`joinK3` / `expandK3` / `shiftK3` / `reverseK3` / `normalizeK3` (`Gts/Spec/CanonGuard.lean`) say
whether it arises anywhere in the evaluation.  Results:

  operation                      closed?   theorem
  `Join` (the reduction itself)  no        `join_canon_full_refuted`, `join_canon_adj_refuted`, `join_canon_partial`
  `Shift(i, n)`, `0 ≤ n`         YES       `shift_canon` (no guard: an insertion moves the keys of
                                           neighbouring parts by jointly injective maps, no rule fires)
  `Expand(i, n)`, `0 ≤ n`        no        `expand_insert_canon_full_refuted` (an EMPTY ambiguous span `1.0`,
                                           which the parser accepts, turns into a between-site and the K3
                                           shape arises); yes for well-formed locations:
                                           `expand_insert_canon_partial`; an empty `Ranged{s,s}` (`5..4`,
                                           parser only): rules do fire (`expand_insert_empty_ranged_drops`),
                                           no counterexample in the decided scope
  `Expand(i, n)`, `n < 0`        no        `expand_canon_full_refuted` (a deleted part becomes a
                                           between-site between two equal sites), `expand_canon_partial`
  `Reverse(L)`                   no        `reverse_canon_coords_refuted` (K1: `Between{L}` gets the
                                           coordinate −1), `reverse_canon_full_refuted` (K1 + K3),
                                           `reverse_canon_partial`
  `Normalize(L)`                 no        `normalize_canon_full_refuted`, `normalize_canon_partial`,
                                           `rotate_canon_partial` (= `Normalize ∘ Expand(0, n)`)
  `Complement()`                 YES       `complement_canon`
-/

/-- **What the reader makes of a written join that is not canonical**: for ANY `Joined` whose parts
are canonical — a fixed point of `Join` or not — `ParseLocation` reads the printed text back as `Join`
of the parts.  So a location gts writes is read back as itself exactly when it is canonical
(`parse_print`), and as the RE-REDUCED location otherwise: the edited locations of the refuted
statements below are written as one location and read back as another. -/
theorem written_join_read_back (l : Loc) (ls : List Loc) (hc : canonPList (l :: ls) = true) :
    parseLocation (printB (joined (l :: ls))) = .ok (join (l :: ls), []) :=
  parseLocation_join_parts l ls hc

example : canonPList [point 3, point 3] = true ∧ (join [point 3, point 3]).beq (point 3) = true := by decide

/-- SECOND CLAUSE, FULL STATEMENT AT STRING LEVEL (false today, known finding K3): "for every string the
parser accepts, printing the result is a fixed point of parse-then-print".  Witness: the text
`join(4,3^4,4)` (= `printB (joined [point 3, between 3, point 3])`) is accepted and parses to `join(4,4)`,
whose text parses to `4`, which prints `4` ≠ `join(4,4)`. -/
theorem accepted_fixed_point_full_refuted :
    ¬ (∀ (s : Pars.Bytes) (l : Loc) (r : Pars.Bytes), parseLocation s = .ok (l, r) →
        ∃ l', parseLocation (printB l) = .ok (l', []) ∧ printB l' = printB l) := by
  intro h
  have h1 : parseLocation (printB (joined [point 3, between 3, point 3])) = .ok (joined [point 3, point 3], []) := by
    rw [written_join_read_back (point 3) [between 3, point 3] (by decide)]
    exact congrArg (fun x => Except.ok (x, [])) (Loc.beq_eq _ _ (by decide))
  have h2 : parseLocation (printB (joined [point 3, point 3])) = .ok (point 3, []) := by
    rw [written_join_read_back (point 3) [point 3] (by decide)]
    exact congrArg (fun x => Except.ok (x, [])) (Loc.beq_eq _ _ (by decide))
  obtain ⟨l', h3, h4⟩ := h _ _ _ h1
  rw [h2] at h3
  have : l' = point 3 := by injection h3 with h3; exact (congrArg Prod.fst h3).symm
  subst this
  revert h4
  decide +kernel

/-- the witness text of `accepted_fixed_point_full_refuted` is the string `join(4,3^4,4)`; it prints
`join(4,4)`, which prints back as `4` -/
example : printB (joined [point 3, between 3, point 3]) = [106, 111, 105, 110, 40, 52, 44, 51, 94, 52, 44, 52, 41] ∧
    printB (joined [point 3, point 3]) = [106, 111, 105, 110, 40, 52, 44, 52, 41] ∧ printB (point 3) = [52] := by decide +kernel

/-! ### parser results are canonical (audit S7, item 1(b)) — PROVED up to the coordinate clause

FULL STATEMENT as it was recorded OPEN (not proved in this form):

    theorem parse_result_canon (s : Pars.Bytes) (l : Loc) (r : Pars.Bytes)
        (hp : parseLocationK3 s = .ok (l, false, r))      -- accepted, parse-level K3 guard false (Spec/ParseK3.lean)
        (hc : coordsOkText s)                              -- every number of the text in [1, 2^62] (no `-5`, no `0`)
        (hadj : no `join(` of the text has two neighbouring `complement(` parts after flattening)
        : canonP l = true

What IS proved (`parse_result_canon_partial` below), and what differs from the statement above:
  * the two guards are ONE evaluation-level flag, `parseGuard s` (Gts/Spec/ParseGuard.lean): the flagged parser
    `LocParseG.loc g` is the model's parser clause by clause with one more result component — "`g` was true on the
    argument list of some `Join` the evaluation made" —, taken at `g = Loc.canonGuard` = `joinK3 ls || !noAdjCompl
    (flatJList ls)`.  So `hadj` is the evaluation-level `noAdjCompl` flag on the PARSED PARTS of every `join(`, not a
    predicate on the text.  (`LocParseK3` of Spec/ParseK3.lean, which the driver op `k3.parse` runs, is the same copy
    at `g = joinK3`; the identity `LocParseK3.loc = LocParseG.loc joinK3` is NOT proved — it is not needed below.)
  * the hypothesis is on the MODEL's parser (`parseLocation s = .ok (l, r)`), not on the copy: that the copy and
    the model agree on outcome, location, rest and stack for EVERY guard is a theorem (`parse_flag_ghost`, from
    `LocParseG.sim_all`: a lock-step induction over the five mutual fuelled parsers and the `more` loop);
  * the coordinate hypothesis is on the RESULT (`coordsC coordOk l`), not on the text (`-5` is accepted as the point
    `-6`); it IS derived from a text-level hypothesis in `parse_result_coords_partial` below (section "the coordinate
    clause from the TEXT": `Pars.IntsIn s`, stronger than "every number of the text is in 1 .. 2^62").
The structural clauses need no coordinate hypothesis at all: `parse_result_struct`.  The guard cannot be dropped
(`parse_result_guard_needed`: `join(4,3^4,4)` is accepted, flagged, and its result `join(4,4)` is not canonical).
NOT proved: an unconditional shape theorem (`parse_result_shape`: "every accepted text yields a `joined` with at least
two parts, none of them `joined`, and no `compl (compl _)`", without the guard) — the invariant goes through
`join_struct`, which needs the guard; and the text-level forms of `hc` / `hadj`.  Note that `canonP` does NOT exclude
empty or inverted spans (`canonP (ranged 4 4 false false) = true`): `join(5,5..4)` is accepted with the guard false, is
canonical, and still loses a residue (`join_den_nonwf_refuted`, K6A). -/

/-- **The flag of the flagged parser is ghost information**: for EVERY guard `g` on `Join` argument lists, the
model's `AsLocation` is the flagged copy `parseLocationG g` (Gts/Spec/ParseGuard.lean) with the flag dropped —
same acceptance, same error (failure or panic), same location, same unconsumed rest. -/
theorem parse_flag_ghost (g : List Loc → Bool) (s : Pars.Bytes) :
    parseLocation s = (parseLocationG g s).map (fun x => (x.1, x.2.2)) := parseLocation_eq_G g s

/-- **The flagged parser behind the op `k3.parse` is the generic one**: `parseLocationK3` (Spec/ParseK3.lean — answered by
the Lean driver AND restated in Go on the real parser, harness/props_c06_parsek3.go, compared on every line sent) is
`parseLocationG` at the guard `Loc.joinK3`; with `parse_flag_ghost` its location and rest are the model parser's. -/
theorem parse_k3_is_guard_instance (s : Pars.Bytes) :
    parseLocationK3 s = parseLocationG Loc.joinK3 s ∧
    parseLocation s = (parseLocationK3 s).map (fun x => (x.1, x.2.2)) := by
  refine ⟨parseLocationK3_eq_G s, ?_⟩
  rw [parseLocationK3_eq_G s]
  exact parse_flag_ghost Loc.joinK3 s

/-- **Parser results are structurally canonical**: for every byte string `s`, if the model parser accepts `s`
with result `l` and the evaluation-level guard of `s` is false (no `Join` the parser evaluated met the K3 shape or
two neighbouring `Complemented` parts among its parsed arguments), then `l` satisfies every structural clause of
`canonP` at every depth: a `joined` has at least two parts, none of them `joined`, and is a fixed point of `Join`; an
`ordered` has at least two parts, none `ordered`; no `compl (compl _)`.  No hypothesis on the coordinates. -/
theorem parse_result_struct (s : Pars.Bytes) (l : Loc) (r : Pars.Bytes)
    (hp : parseLocation s = .ok (l, r)) (hg : parseGuard s = false) : structP l = true := by
  obtain ⟨b, hb⟩ := parseLocationG_of_parseLocation canonGuard s l r hp
  have hbf : b = false := by simpa [parseGuard, hb] using hg
  subst hbf
  exact parseLocationG_struct s l r hb

/-- **Parser results are canonical** (partial: the coordinate clause is a hypothesis on the result, see the
section comment): for every byte string `s`, if the model parser accepts `s` with result `l`, the evaluation-level
guard of `s` is false and every coordinate of `l` lies in `0 .. 2^62`, then `canonP l = true` — so `l` is in the
domain of the round trip `parse_print`, and printing it is a fixed point of parse-then-print. -/
theorem parse_result_canon_partial (s : Pars.Bytes) (l : Loc) (r : Pars.Bytes)
    (hp : parseLocation s = .ok (l, r)) (hg : parseGuard s = false) (hc : coordsC coordOk l = true) :
    canonP l = true :=
  (canonP_iff l).mpr ⟨hc, parse_result_struct s l r hp hg⟩

/-- second clause of C06 for an accepted string, USING the string hypothesis (compare `accepted_fixed_point_partial`):
an accepted, unflagged text whose result has coordinates in range prints to a fixed point of parse-then-print. -/
theorem accepted_unflagged_fixed_point (s : Pars.Bytes) (l : Loc) (r : Pars.Bytes)
    (hp : parseLocation s = .ok (l, r)) (hg : parseGuard s = false) (hc : coordsC coordOk l = true) :
    parseLocation (printB l) = .ok (l, []) :=
  parse_print l (parse_result_canon_partial s l r hp hg hc)

/-- non-vacuity: the text `join(4,5)` is accepted, its guard is false, the coordinates of its result are in range
(and the result is the two-part join).  A SHORT text: the fuelled parsers are compiled by well-founded recursion and
do not reduce in the kernel, and their evaluation by `simp` (`geval_join2`) is exponential in the fuel
`length + 2` — a three-part join with a `complement(` (`join(complement(4),5,7)`: `#eval` answers guard `false`,
result `join(complement(4),5,7)`) is out of reach as a theorem. -/
example : parseLocation (str "join(4,5)") = .ok (joined [point 3, point 4], []) ∧
    parseGuard (str "join(4,5)") = false ∧ coordsC coordOk (joined [point 3, point 4]) = true := by
  have ht : str "join(4,5)" = [106, 111, 105, 110, 40, 52, 44, 53, 41] := by decide +kernel
  have hj : join [point 3, point 4] = joined [point 3, point 4] := Loc.beq_eq _ _ (by decide)
  have hgd : canonGuard [point 3, point 4] = false := by decide
  have hG : parseLocationG canonGuard [106, 111, 105, 110, 40, 52, 44, 53, 41] =
      .ok (joined [point 3, point 4], false, []) := by
    simp only [parseLocationG, P.run', ExceptT.run, StateT.run, List.length_cons, List.length_nil]
    rw [geval_join2, hj, hgd]
  refine ⟨?_, ?_, by decide⟩
  · rw [parse_flag_ghost canonGuard, ht, hG]; rfl
  · rw [parseGuard, ht, hG]

/-! ### the coordinate clause from the TEXT

FULL STATEMENT (not proved in this form):

    theorem parse_result_coords (s : Pars.Bytes) (l : Loc) (r : Pars.Bytes) (hp : parseLocation s = .ok (l, r))
        (hi : intsOk s = true)   -- Bool: every maximal digit run of s, read as a number, is in 1 .. 2^62 and is not
                                 -- preceded by `-`  (so `join(10,20)` meets it)
        : coordsC coordOk l = true

What IS proved (`parse_result_coords_partial`): the same conclusion from the text-level hypothesis `Pars.IntsIn s`
(Gts/Lemmas/ParseCoords.lean) = "at EVERY byte position of `s`, a successful run of `pars.Int` from that position
yields a value in `1 .. 2^62`".  It is a predicate on the text only (no parser state, no result), but
  * it is a `Prop` quantified over positions and saved-position stacks, not a `Bool` (decidable in principle: the
    result of `Pars.int` does not depend on the stack — not proved);
  * it is STRONGER than `intsOk`: it also constrains positions INSIDE a digit run, where the parser never starts an
    integer, and `pars.Int` answers `0` on a `0` — so a text that contains the digit `0` anywhere (`10`, `join(4,20)`)
    does not meet it (`Gts.intsIn_zero_false`).  Restricting the hypothesis to the positions where the parser does
    start an integer needs a postcondition logic with preconditions on the state ("the byte just consumed is not a
    digit"); `PostI` only carries an invariant that every primitive keeps from every state.
How: `Pars.PostI p Q` — `Post` with the state invariant "the position and every saved position are texts that meet
`IntsIn`", kept on success and on failure (`attempt` goes on from the failed state); every primitive of the model keeps
it (`IntsIn` is closed under `drop`), `pars.Int` returns a value in range from such a state, the leaf parsers build
`v`, `v - 1` from these values, and `Join` / `Order` / `Complement()` only re-use coordinates (`join_leaves`,
`order_leaves`); the same fuel induction as `LocParseG.post_all` (`LocParse.posti_all`), on the MODEL's parser. -/

/-- **The coordinates of a parser result are in range, from the text** (partial, see the section comment): for every
byte string `s`, if the model parser accepts `s` with result `l`, and at every byte position of `s` a successful run of
`pars.Int` from that position yields a value between 1 and 2^62, then every coordinate of `l` (every `between`,
`point`, `ranged` and `ambiguous` leaf at any depth) lies in `0 .. 2^62`. -/
theorem parse_result_coords_partial (s : Pars.Bytes) (l : Loc) (r : Pars.Bytes)
    (hp : parseLocation s = .ok (l, r)) (hi : Pars.IntsIn s) : coordsC coordOk l = true :=
  parseLocation_coords s l r hp hi

/-- **Parser results are canonical, hypotheses on the text and the evaluation-level guard only**: an accepted text
that meets `IntsIn` and whose guard is false has a canonical result, and printing the result is a fixed point of
parse-then-print.  (`parse_result_canon_partial` with its coordinate hypothesis discharged from the text.) -/
theorem parse_result_canon_text_partial (s : Pars.Bytes) (l : Loc) (r : Pars.Bytes)
    (hp : parseLocation s = .ok (l, r)) (hg : parseGuard s = false) (hi : Pars.IntsIn s) :
    canonP l = true ∧ parseLocation (printB l) = .ok (l, []) := by
  have hc := parse_result_coords_partial s l r hp hi
  exact ⟨parse_result_canon_partial s l r hp hg hc, accepted_unflagged_fixed_point s l r hp hg hc⟩

/-- non-vacuity: the text `4..7` is accepted (result `4..7` = `Ranged{3, 7}`), its guard is false and it meets the
text-level hypothesis; the hypothesis is not trivially true (the text `0` does not meet it) -/
example : parseLocation (str "4..7") = .ok (ranged 3 7 false false, []) ∧ parseGuard (str "4..7") = false ∧
    Pars.IntsIn (str "4..7") ∧ ¬ Pars.IntsIn (str "0") := by
  have ht : str "4..7" = [52, 46, 46, 55] := by decide +kernel
  have h0 : str "0" = [48] := by decide +kernel
  have hG : parseLocationG canonGuard [52, 46, 46, 55] = .ok (ranged 3 7 false false, false, []) := by
    simp only [parseLocationG, P.run', ExceptT.run, StateT.run, List.length_cons, List.length_nil]
    rw [geval_range47]
  refine ⟨?_, ?_, ?_, ?_⟩
  · rw [parse_flag_ghost canonGuard, ht, hG]; rfl
  · rw [parseGuard, ht, hG]
  · rw [ht]; exact intsIn_range47
  · rw [h0]; exact Gts.intsIn_zero_false

/-- **the guard is needed, and it is raised where it has to be**: the text `join(4,3^4,4)` is accepted with the
result `join(4,4)`, whose coordinates are in range and which is NOT canonical — so `parse_result_canon_partial`
without `hg` is false —, and its guard is TRUE (by `parse_result_struct` itself: were it false, the result would be
structurally canonical). -/
theorem parse_result_guard_needed :
    ¬ (∀ (s : Pars.Bytes) (l : Loc) (r : Pars.Bytes), parseLocation s = .ok (l, r) → coordsC coordOk l = true →
        canonP l = true) ∧
    parseLocation (printB (joined [point 3, between 3, point 3])) = .ok (joined [point 3, point 3], []) ∧
    parseGuard (printB (joined [point 3, between 3, point 3])) = true := by
  have h1 : parseLocation (printB (joined [point 3, between 3, point 3])) = .ok (joined [point 3, point 3], []) := by
    rw [written_join_read_back (point 3) [between 3, point 3] (by decide)]
    exact congrArg (fun x => Except.ok (x, [])) (Loc.beq_eq _ _ (by decide))
  refine ⟨?_, h1, ?_⟩
  · intro h
    have := h _ _ _ h1 (by decide)
    revert this
    decide
  · cases hq : parseGuard (printB (joined [point 3, between 3, point 3])) with
    | true => rfl
    | false =>
      have := parse_result_struct _ _ _ h1 hq
      revert this
      decide

/-- FULL STATEMENT WITHOUT `wfList` (false, known finding K6A): "the reductions of `Join` keep the denoted
residues for ALL argument lists as long as the K2 rule does not fire".  `join_den_partial` needs every range
of the arguments non-empty (`wfList`), and the parser does NOT guarantee that: the text `join(5,5..4)`
(= `printB (joined [point 4, ranged 4 4 false false])`) is ACCEPTED — `5..4` is read as the empty range
`Ranged{4, 4}` —, `Join` absorbs the point in front of it into that range (the rule `Point{p}` then
`Ranged{p, …}`), and the result `5..4` denotes nothing: residue 5 is lost although the K2 guard is false.
The conjuncts record the witness: what the parser returns, that the list is not `wfList`, that K2 does not
fire, and the two denotations. -/
theorem join_den_nonwf_refuted :
    ¬ (∀ xs : List Loc, joinAbs xs = false → den (join xs) ≼ denList xs) ∧
    parseLocation (printB (joined [point 4, ranged 4 4 false false])) = .ok (ranged 4 4 false false, []) ∧
    wfList [point 4, ranged 4 4 false false] = false ∧
    joinAbs [point 4, ranged 4 4 false false] = false ∧
    denList [point 4, ranged 4 4 false false] = [(4, false)] ∧ den (ranged 4 4 false false) = [] := by
  have hj : join [point 4, ranged 4 4 false false] = ranged 4 4 false false := Loc.beq_eq _ _ (by decide)
  refine ⟨?_, ?_, by decide, by decide, by decide, by decide⟩
  · intro h
    have := (h [point 4, ranged 4 4 false false] (by decide)).2 (4, false) (by decide)
    revert this
    decide
  · rw [written_join_read_back (point 4) [ranged 4 4 false false] (by decide), hj]

/-- the witness text of `join_den_nonwf_refuted` is the string `join(5,5..4)` -/
example : printB (joined [point 4, ranged 4 4 false false]) =
    [106, 111, 105, 110, 40, 53, 44, 53, 46, 46, 52, 41] := by decide +kernel

/-- FULL STATEMENT (false, known finding K3): "`Join` of canonical arguments is canonical".  The
arguments `4, 3^4, 4` (each canonical) reduce to `join(4,4)`, which is not a fixed point of `Join`. -/
theorem join_canon_full_refuted :
    ¬ (∀ xs : List Loc, xs ≠ [] → canonPList xs = true → canonP (join xs) = true) := by
  intro h
  have := h [point 3, between 3, point 3] (by simp) (by decide)
  revert this
  decide

/-- **`Join` of canonical arguments is canonical** — every arity and nesting — unless the K3 shape
arises while the parts are pushed (`joinK3 xs = false`), provided no two `Complemented` parts become
neighbours (`noAdjCompl` of the flattened argument list: the complemented / complemented rule
re-joins the two insides, where K3 can arise out of sight of `joinK3`; the edit operations never
bring two complemented parts together). -/
theorem join_canon_partial (xs : List Loc) (hne : xs ≠ []) (hc : canonPList xs = true)
    (hadj : noAdjCompl (flatJList xs) = true) (hk3 : joinK3 xs = false) : canonP (join xs) = true := by
  rw [canonPList_iff] at hc
  rw [canonP_iff]
  refine ⟨join_leaves (mergeOK_leafCoord coordOk) xs hc.1, join_struct xs hc.2 ?_ hadj hk3⟩
  match xs, hne, hc.2 with
  | x :: r, _, h =>
    simp only [structPList_cons, Bool.and_eq_true] at h
    have := flatJ_ne_nil_of_struct x h.1
    intro he
    simp only [flatJList, List.append_eq_nil_iff] at he
    exact this he.1

/-- the guard `noAdjCompl` of `join_canon_partial` cannot be dropped: two neighbouring `Complemented`
arguments are merged by re-joining their insides, and K3 arises INSIDE that merge, out of sight of
`joinK3`: `Join(complement(4), complement(join(4,3^4)))` is `complement(join(4,4))`. -/
theorem join_canon_adj_refuted :
    ¬ (∀ xs : List Loc, xs ≠ [] → canonPList xs = true → joinK3 xs = false → canonP (join xs) = true) := by
  intro h
  have := h [compl (point 3), compl (joined [point 3, between 3])] (by simp) (by decide) (by decide)
  revert this
  decide

/-- non-vacuity: a merge, a dropped duplicate, a replacing push and a complemented part -/
example : ([ranged 0 3 true false, ranged 3 6 false false, between 9, point 9, point 9,
      compl (joined [point 20, point 12])] : List Loc) ≠ [] ∧
    canonPList [ranged 0 3 true false, ranged 3 6 false false, between 9, point 9, point 9,
      compl (joined [point 20, point 12])] = true ∧
    noAdjCompl (flatJList [ranged 0 3 true false, ranged 3 6 false false, between 9, point 9, point 9,
      compl (joined [point 20, point 12])]) = true ∧
    joinK3 [ranged 0 3 true false, ranged 3 6 false false, between 9, point 9, point 9,
      compl (joined [point 20, point 12])] = false := by
  refine ⟨by simp, by decide, by decide, by decide⟩

/-- **`Shift(i, n)` (gts.Insert), `0 ≤ n`: canonical stays canonical.**  FULL statement, every
nesting depth and arity, split ranges included (`Ranged.Shift` of a range around the insertion point
is a two-part join): no coordinate above `M` and `M + n ≤ 2^62` (the coordinate clause), nothing else.
An insertion never meets K3: it keeps the kind of every part and moves the coordinates that `Push`
compares by two monotone, jointly injective maps, so no reduction rule fires at all. -/
theorem shift_canon (l : Loc) (i n M : Int) (hc : canonP l = true) (hn : 0 ≤ n)
    (hle : coordsLe M l = true) (hM : M + n ≤ 4611686018427387904) : canonP (shift l i n) = true :=
  shift_canon_guarded l i n M hc hn hle hM (shiftK3_false i n hn l ((canonP_iff l).mp hc).2)

/-- non-vacuity: the insertion point lies inside the first range (it splits) and in front of the
complemented join -/
example : canonP (joined [ranged 0 10 true false, compl (joined [ranged 30 40 false false, point 20]),
      ordered [ambiguous 50 60, between 70]]) = true ∧
    coordsLe 100 (joined [ranged 0 10 true false, compl (joined [ranged 30 40 false false, point 20]),
      ordered [ambiguous 50 60, between 70]]) = true ∧
    (shift (joined [ranged 0 10 true false, compl (joined [ranged 30 40 false false, point 20]),
      ordered [ambiguous 50 60, between 70]]) 5 7).beq
      (joined [ranged 0 5 true false, ranged 12 17 false false,
        compl (joined [ranged 37 47 false false, point 27]), ordered [ambiguous 57 67, between 77]]) = true := by
  refine ⟨by decide, by decide, by decide⟩

/-- FULL STATEMENT for `Expand` (false: the K3 shape is reachable by a deletion): "canonical stays
canonical under `Expand(i, n)` with `0 ≤ i`".  Witness `join(7,4..5,7..9)` and the deletion of the three
residues 4..6 (`Expand(3, -3)`): the middle part lies inside the deletion and becomes the between-site
`3^4`, the two others both move to residue 4; `Push` replaces the between-site by the range without
looking at the point in front of it.  The result `join(4,4..6)` is what gts writes; `ParseLocation`
reads it back as `4..6` (replayed on the real code: `loc.expand`, `loc.print`, `loc.parse`). -/
theorem expand_canon_full_refuted :
    ¬ (∀ (l : Loc) (i n : Int), canonP l = true → 0 ≤ i → coordsLe 4611686018427387904 l = true → n ≤ 0 →
        canonP (expand l i n) = true) := by
  intro h
  have := h (joined [point 6, ranged 3 5 false false, ranged 6 9 false false]) 3 (-3) (by decide) (by decide)
    (by decide) (by decide)
  revert this
  decide

/-- … what the witness turns into, its text, and what the reader makes of that text -/
theorem expand_canon_witness_read_back :
    (expand (joined [point 6, ranged 3 5 false false, ranged 6 9 false false]) 3 (-3)).beq
      (joined [point 3, ranged 3 6 false false]) = true ∧
    printB (joined [point 3, ranged 3 6 false false]) = str "join(4,4..6)" ∧
    parseLocation (printB (joined [point 3, ranged 3 6 false false])) = .ok (ranged 3 6 false false, []) := by
  refine ⟨by decide, by decide +kernel, ?_⟩
  rw [written_join_read_back (point 3) [ranged 3 6 false false] (by decide)]
  exact congrArg (fun l => Except.ok (l, ([] : Bytes))) (Loc.beq_eq _ _ (by decide))

/-- **`Expand(i, n)` (Delete with `n < 0`, Embed / Concat / guest features with `n ≥ 0`):
canonical stays canonical unless the K3 shape arises** in one of its `Join`s (`expandK3 l i n = false`):
`0 ≤ i` or `0 ≤ n`, no coordinate above `M`, `M + n ≤ 2^62` (for a deletion take `M = 2^62`). -/
theorem expand_canon_partial (l : Loc) (i n M : Int) (hc : canonP l = true) (hi : 0 ≤ i ∨ 0 ≤ n)
    (hle : coordsLe M l = true) (hM : M + n ≤ 4611686018427387904) (hk3 : expandK3 l i n = false) :
    canonP (expand l i n) = true := expand_canon l i n M hc hi hle hM hk3

/-- non-vacuity: a deletion that swallows the middle part of a join (it becomes a between-site, which
the following range absorbs) and clips a complemented range -/
example : canonP (joined [ranged 0 4 false false, ranged 5 7 false false, ranged 9 12 false false,
      compl (ranged 6 20 false true)]) = true ∧
    coordsLe 4611686018427387904 (joined [ranged 0 4 false false, ranged 5 7 false false,
      ranged 9 12 false false, compl (ranged 6 20 false true)]) = true ∧
    expandK3 (joined [ranged 0 4 false false, ranged 5 7 false false, ranged 9 12 false false,
      compl (ranged 6 20 false true)]) 5 (-4) = false ∧
    (expand (joined [ranged 0 4 false false, ranged 5 7 false false, ranged 9 12 false false,
      compl (ranged 6 20 false true)]) 5 (-4)).beq
      (joined [ranged 0 4 false false, ranged 5 8 false false, compl (ranged 5 16 true true)]) = true := by
  refine ⟨by decide, by decide, by decide, by decide⟩

/-- **`Expand(i, n)` with `0 ≤ n` on a well-formed location** (every `Ranged` / `Ambiguous` non-empty,
`Loc.wf`: what `PartialRange` and the parser build): canonical stays canonical, NO K3 guard.
(FULL statement = the same without `wf`: REFUTED, `expand_insert_canon_full_refuted` below.) -/
theorem expand_insert_canon_partial (l : Loc) (i n M : Int) (hc : canonP l = true) (hw : wf l = true)
    (hn : 0 ≤ n) (hle : coordsLe M l = true) (hM : M + n ≤ 4611686018427387904) :
    canonP (expand l i n) = true :=
  expand_canon l i n M hc (Or.inr hn) hle hM (expandK3_false i n hn l ((canonP_iff l).mp hc).2 hw)

example : canonP (joined [ranged 0 10 true false, compl (joined [ranged 30 40 false false, point 20])]) = true ∧
    wf (joined [ranged 0 10 true false, compl (joined [ranged 30 40 false false, point 20])]) = true ∧
    coordsLe 40 (joined [ranged 0 10 true false, compl (joined [ranged 30 40 false false, point 20])]) = true ∧
    (expand (joined [ranged 0 10 true false, compl (joined [ranged 30 40 false false, point 20])]) 5 7).beq
      (joined [ranged 0 17 true false, compl (joined [ranged 37 47 false false, point 27])]) = true := by
  refine ⟨by decide, by decide, by decide, by decide⟩

/-- FULL STATEMENT for an insertion (false on the model, and on the code — replayed: `loc.expand
(J (P 0) (A 0 0) (P 0)) 1 1` answers `(J (P 0) (P 0))` on both sides): "`Expand(i, n)` with `0 ≤ n` keeps
every canonical location canonical", i.e. `expand_insert_canon_partial` without `wf`.  Witness
`join(1,1.0,1)`: the middle part is the EMPTY ambiguous span `Ambiguous{0, 0}`, which no rule of `Push`
looks at, so the join is a fixed point of `Join` (canonical, and `ParseLocation` reads exactly it from that
text: `expand_insert_witness_parsed`).  `Ambiguous.Expand(1, 1)` computes `start == end` and answers
`Between(0)`; the parts `1, 0^1, 1` are the K3 shape (`join(4,3^4,4)`): the point replaces the between-site
and `join(1,1)` is left, which is written as such and read back as `1`.  The insertion point and amount do
not matter (any `n ≥ 1`: an empty span becomes a between-site under every `Expand` with `n ≠ 0`). -/
theorem expand_insert_canon_full_refuted :
    ¬ (∀ (l : Loc) (i n M : Int), canonP l = true → 0 ≤ n → coordsLe M l = true →
        M + n ≤ 4611686018427387904 → canonP (expand l i n) = true) := by
  intro h
  have := h (joined [point 0, ambiguous 0 0, point 0]) 1 1 0 (by decide) (by decide) (by decide) (by decide)
  revert this
  decide

/-- the witness spelled out: canonical, not well formed, the K3 guard is raised, `join(1,1)` comes out; and
it is what `ParseLocation` makes of the text `join(1,1.0,1)` -/
theorem expand_insert_witness_parsed :
    canonP (joined [point 0, ambiguous 0 0, point 0]) = true ∧
    wf (joined [point 0, ambiguous 0 0, point 0]) = false ∧
    expandK3 (joined [point 0, ambiguous 0 0, point 0]) 1 1 = true ∧
    (expand (joined [point 0, ambiguous 0 0, point 0]) 1 1).beq (joined [point 0, point 0]) = true ∧
    printB (joined [point 0, ambiguous 0 0, point 0]) = str "join(1,1.0,1)" ∧
    parseLocation (str "join(1,1.0,1)") = .ok (joined [point 0, ambiguous 0 0, point 0], []) := by
  have hp : printB (joined [point 0, ambiguous 0 0, point 0]) = str "join(1,1.0,1)" := by decide +kernel
  refine ⟨by decide, by decide, by decide, by decide, hp, ?_⟩
  rw [← hp]
  exact parse_print _ (by decide)

/-- **Can an empty `Ranged{s, s}` be built at all?**  `PartialRange` / `Range` panic on `end <= start`, and
every edit operation goes through them or keeps a non-empty span non-empty (`Loc.wf` is closed under the
edits: `expand_ins`, `normalize_mod`, …).  The one constructor that does NOT check is the PARSER:
`parseRange` (and `parseAmbiguous`) fill the struct literal from the two numbers they read, so the text
`5..4` is `Ranged{4, 4}` — empty — and `5..3` is `Ranged{4, 3}`; both are canonical, so they are written
and read back as themselves.  A record READ from a file can hold one; a record built through the
constructors cannot (the struct types are exported, so a literal `gts.Ranged{4, 4, …}` can).  What the
edits then do with it is outside the domain of every check ("ranges with Start >= End are outside the
domain"): `Ranged.Reverse` and the split branch of `Ranged.Normalize` go through `PartialRange` and PANIC
(`loc.reverse (R 4 4 0 0) 10` on the code; the model, total there, answers `(R 6 6 0 0)`), and
`Normalize(Ranged{4, 4}, 10)` is `join(5..10,1..4)` on both sides — the empty range becomes the whole
circle. -/
theorem empty_ranged_from_parser :
    parseLocation (str "5..4") = .ok (ranged 4 4 false false, []) ∧
    parseLocation (str "5..3") = .ok (ranged 4 3 false false, []) ∧
    parseLocation (str "1.0") = .ok (ambiguous 0 0, []) ∧
    canonP (ranged 4 4 false false) = true ∧ wf (ranged 4 4 false false) = false := by
  have h1 : printB (ranged 4 4 false false) = str "5..4" := by decide +kernel
  have h2 : printB (ranged 4 3 false false) = str "5..3" := by decide +kernel
  have h3 : printB (ambiguous 0 0) = str "1.0" := by decide +kernel
  refine ⟨?_, ?_, ?_, by decide, by decide⟩
  · rw [← h1]; exact parse_print _ (by decide)
  · rw [← h2]; exact parse_print _ (by decide)
  · rw [← h3]; exact parse_print _ (by decide)

/-- **What an empty `Ranged{s, s}` does under an insertion** (the case the note at
`expand_insert_canon_partial` left open).  It turns into the between-site `Between(s')` under every `Expand`
with `n ≠ 0` that does not insert exactly at `s` (there it becomes the inverted `Ranged{s + n, s}`), and
then rules of `Push` DO fire — so the argument of `expand_insert_canon_partial` ("an insertion moves the keys
of neighbouring parts by jointly injective maps, no rule fires") does not extend to it: `join(1,2..1)` is
canonical, `Expand(2, 1)` makes the parts `1, 1^2`, and the between-site behind the point is DROPPED.  What
fires is a dropping rule, and the result `1` is canonical.  For a K3 shape the between-site would have to
stand in front of a point / range start with its own coordinate, and the canonical original excludes that
(`Point{p}` / `Between{p}` / `…End = p` in front of `Ranged{p, p}` is reduced, and so is `Point{p}` / `Between{p}` /
`Ranged{p, …}` behind it).  Decided scope, `#eval`: every canonical join of up to four parts over points,
between-sites, ALL `Ranged{s, e}` (empty and inverted included) and non-empty ambiguous spans with
coordinates 0..3 that holds an empty or inverted `Ranged` (388960 joins), `i` in 0..4, `n` in 1..2: the
result is canonical every time.  Not proved beyond that scope. -/
theorem expand_insert_empty_ranged_drops :
    canonP (joined [point 0, ranged 1 1 false false]) = true ∧
    (expandList [point 0, ranged 1 1 false false] 2 1).length = 2 ∧
    (expand (ranged 1 1 false false) 2 1).beq (between 1) = true ∧
    (expand (ranged 1 1 false false) 0 1).beq (between 2) = true ∧
    (expand (ranged 1 1 false false) 1 1).beq (ranged 2 1 false false) = true ∧
    (expand (joined [point 0, ranged 1 1 false false]) 2 1).beq (point 0) = true ∧
    canonP (expand (joined [point 0, ranged 1 1 false false]) 2 1) = true := by
  decide

/-- FULL STATEMENT for `Reverse`, coordinate clause (false, known finding K1): "a canonical location
inside a sequence of `L` residues (`coordsWithin`) stays canonical under `Reverse(L)`".
`Between.Reverse` is `L - 1 - p` where the mirror image of the site `p` is `L - p`: the site behind
the last residue, `10^11` in a sequence of ten residues, gets the coordinate −1 and is written `-1^0`. -/
theorem reverse_canon_coords_refuted :
    ¬ (∀ (l : Loc) (L : Int), canonP l = true → 0 ≤ L → L ≤ 4611686018427387904 → coordsWithin l L = true →
        canonP (reverse l L) = true) := by
  intro h
  have := h (between 10) 10 (by decide) (by decide) (by decide) (by decide)
  revert this
  decide

/-- FULL STATEMENT for `Reverse`, structural clauses (false: K1 and K3 together): "a canonical
location whose mirror image has non-negative coordinates (`revIn`) stays canonical under `Reverse(L)`".
Witness `join(3,2^3,1^2,3)` in a sequence of five residues: the parts are mirrored to `3, 4^5, 3^4, 3`
— with the correct mirror image `5 - p` of a between-site they would be `3, 5^6, 4^5, 3` and nothing
would reduce —, `4^5` is dropped behind the point 3, `3^4` is replaced by the last point, and
`join(3,3)` is what gts writes (read back as `3`). -/
theorem reverse_canon_full_refuted :
    ¬ (∀ (l : Loc) (L : Int), canonP l = true → L ≤ 4611686018427387904 → revIn L l = true →
        canonP (reverse l L) = true) := by
  intro h
  have := h (joined [point 2, between 2, between 1, point 2]) 5 (by decide) (by decide) (by decide)
  revert this
  decide

theorem reverse_canon_witness_read_back :
    (reverse (joined [point 2, between 2, between 1, point 2]) 5).beq (joined [point 2, point 2]) = true ∧
    printB (joined [point 2, point 2]) = str "join(3,3)" ∧
    parseLocation (printB (joined [point 2, point 2])) = .ok (point 2, []) := by
  refine ⟨by decide, by decide +kernel, ?_⟩
  rw [written_join_read_back (point 2) [point 2] (by decide)]
  exact congrArg (fun l => Except.ok (l, ([] : Bytes))) (Loc.beq_eq _ _ (by decide))

/-- **`Reverse(L)`: canonical stays canonical unless the K3 shape arises** (`reverseK3 l L = false`),
for `L ≤ 2^62` and a location whose mirror image has non-negative coordinates (`revIn L l`: spans end
at or before `L`, points AND between-sites lie before `L` — K1). -/
theorem reverse_canon_partial (l : Loc) (L : Int) (hc : canonP l = true) (hL : L ≤ 4611686018427387904)
    (hin : revIn L l = true) (hk3 : reverseK3 l L = false) : canonP (reverse l L) = true :=
  reverse_canon l L hc hL hin hk3

example : canonP (joined [ranged 0 3 true false, compl (joined [point 7, between 5]), ranged 10 20 false true]) = true ∧
    revIn 20 (joined [ranged 0 3 true false, compl (joined [point 7, between 5]), ranged 10 20 false true]) = true ∧
    reverseK3 (joined [ranged 0 3 true false, compl (joined [point 7, between 5]), ranged 10 20 false true]) 20 = false ∧
    (reverse (joined [ranged 0 3 true false, compl (joined [point 7, between 5]), ranged 10 20 false true]) 20).beq
      (joined [ranged 0 10 true false, compl (joined [between 14, point 12]), ranged 17 20 false true]) = true := by
  refine ⟨by decide, by decide, by decide, by decide⟩

/-- FULL STATEMENT for `Normalize` (false: K3 reached across the origin): "canonical stays canonical
under `Normalize(L)`, `0 < L`".  Witness `join(1,4^5,1)` in a circular sequence of four residues: the
site behind the last residue is the site in front of the first one, `Normalize` maps it to `0^1`, and
the parts `1, 0^1, 1` reduce to `join(1,1)`. -/
theorem normalize_canon_full_refuted :
    ¬ (∀ (l : Loc) (L : Int), canonP l = true → 0 < L → L ≤ 4611686018427387904 → coordsWithin l L = true →
        canonP (normalize l L) = true) := by
  intro h
  have := h (joined [point 0, between 4, point 0]) 4 (by decide) (by decide) (by decide) (by decide)
  revert this
  decide

/-- **`Normalize(L)`, `0 < L ≤ 2^62`: canonical stays canonical unless the K3 shape arises**
(`normalizeK3 l L = false`); a range across the origin becomes a two-part join. -/
theorem normalize_canon_partial (l : Loc) (L : Int) (hc : canonP l = true) (hL0 : 0 < L)
    (hL : L ≤ 4611686018427387904) (hk3 : normalizeK3 l L = false) : canonP (normalize l L) = true :=
  normalize_canon l L hc hL0 hL hk3

example : canonP (joined [ranged 8 13 true false, compl (point 15), between 20]) = true ∧
    normalizeK3 (joined [ranged 8 13 true false, compl (point 15), between 20]) 10 = false ∧
    (normalize (joined [ranged 8 13 true false, compl (point 15), between 20]) 10).beq
      (joined [ranged 8 10 true false, ranged 0 3 false false, compl (point 5), between 0]) = true := by
  refine ⟨by decide, by decide, by decide⟩

/-- **Rotate = `Normalize(L) ∘ Expand(0, n)`** on a well-formed canonical location: canonical unless the
K3 shape arises in the `Normalize` step (the `Expand` step is an insertion and needs no guard). -/
theorem rotate_canon_partial (l : Loc) (n L M : Int) (hc : canonP l = true) (hw : wf l = true) (hn : 0 ≤ n)
    (hle : coordsLe M l = true) (hM : M + n ≤ 4611686018427387904) (hL0 : 0 < L)
    (hL : L ≤ 4611686018427387904) (hk3 : normalizeK3 (expand l 0 n) L = false) :
    canonP (normalize (expand l 0 n) L) = true :=
  normalize_canon _ L (expand_insert_canon_partial l 0 n M hc hw hn hle hM) hL0 hL hk3

example : canonP (joined [ranged 1 4 false false, compl (ranged 6 9 true false)]) = true ∧
    wf (joined [ranged 1 4 false false, compl (ranged 6 9 true false)]) = true ∧
    coordsLe 10 (joined [ranged 1 4 false false, compl (ranged 6 9 true false)]) = true ∧
    normalizeK3 (expand (joined [ranged 1 4 false false, compl (ranged 6 9 true false)]) 0 3) 10 = false ∧
    (normalize (expand (joined [ranged 1 4 false false, compl (ranged 6 9 true false)]) 0 3) 10).beq
      (joined [ranged 4 7 false false, compl (joined [ranged 9 10 true false, ranged 0 2 false false])]) = true := by
  refine ⟨by decide, by decide, by decide, by decide, by decide⟩

/-- **`Complement()`: canonical stays canonical** (it wraps, or unwraps a wrapped location). -/
theorem complement_canon (l : Loc) (hc : canonP l = true) : canonP l.complement = true := by
  cases l with
  | compl x =>
    simp only [Loc.canonP, Bool.and_eq_true] at hc
    simpa [Loc.complement] using hc.1
  | between p => simpa [Loc.complement, Loc.canonP, Loc.isComplC] using hc
  | point p => simpa [Loc.complement, Loc.canonP, Loc.isComplC] using hc
  | ranged a b c d => simpa [Loc.complement, Loc.canonP, Loc.isComplC] using hc
  | ambiguous a b => simpa [Loc.complement, Loc.canonP, Loc.isComplC] using hc
  | joined ls => simpa [Loc.complement, Loc.canonP, Loc.isComplC] using hc
  | ordered ls => simpa [Loc.complement, Loc.canonP, Loc.isComplC] using hc

example : canonP (compl (joined [point 1, point 5])) = true ∧
    (compl (joined [point 1, point 5])).complement.beq (joined [point 1, point 5]) = true := by decide

/-- the coordinate guards are implied by the oracle's in-bounds predicate: a location inside a
sequence of `L` residues has no coordinate above `L` … -/
theorem coordsLe_of_coordsWithin (l : Loc) (L : Int) (h : coordsWithin l L = true) : coordsLe L l = true :=
  coordsLe_of_within l L h

/-- … and its mirror image has non-negative coordinates if no between-site sits at `L` itself (K1) -/
theorem revIn_of_coordsWithin (l : Loc) (L : Int) (h : coordsWithin l L = true)
    (hb : (leaves l).all (fun u => !u.beq (between L)) = true) : revIn L l = true :=
  revIn_of_within l L h hb

end Gts.C06
